/-
  C11 helper lemmas: the relocation-aware hypotheses at the level of an abstract ELF description
  (Spec/ElfImage.lean), and their transport — through C01's facts about a byte string that carries
  the description — to the section-table hypotheses `HoldsR` of Proofs/ContainerReloc.lean.
-/
import PyElf.Proofs.ContainerReloc
namespace PyElf.Proofs.C11
open PyElf PyElf.Spec PyElf.Model PyElf.Model.C11 PyElf.Spec.C11 PyElf.Proofs PyElf.Proofs.Reloc

/-- description-level `RelocStored`: `rsec` is (reported for) a section of the description whose
    body is the Spec encoding of the entries; its `sh_link` designates a section reported as a
    SymbolTableSection whose body is the value-only symbol table -/
def RelocStoredD (deflate : Nat → Bytes → Bytes) (d : ElfDesc) (obs : ElfObs) (rsec : Sec) (r : RelocDesc) : Prop :=
  ∃ (j k : Nat) (rsd ssd : SecDesc) (ssec : Sec) (raddr base saddr symoff : Nat),
    obs.sections[j]? = some rsec ∧ d.sections[j]? = some rsd ∧
    rsec.hdr.getField "sh_type" = .ok (.str (if r.rela then "SHT_RELA" else "SHT_REL")) ∧
    rsec.hdr.getNat "sh_link" = .ok k ∧
    StoresD deflate d rsd rsec.hdr .plain (encRelTable (relCfgOf d.cfg) r.rela r.es) raddr base ∧
    obs.sections[k]? = some ssec ∧ d.sections[k]? = some ssd ∧ ssec.kind = "SymbolTableSection" ∧
    ssec.hdr.getNat "sh_entsize" = .ok (symEntSize d.cls) ∧ (∀ s ∈ r.syms, s < 2 ^ d.cls) ∧
    StoresD deflate d ssd ssec.hdr .plain (encSymTable d.le d.cls r.syms) saddr symoff

/-- description-level `Relocates` -/
def RelocatesD (deflate : Nat → Bytes → Bytes) (d : ElfDesc) (obs : ElfObs) (a : Arch) (sec : Sec) (payload : Bytes) :
    Option RelocDesc → Prop
  | none => findRelocations obs.sections sec.name = none
  | some r => ∃ rsec, findRelocations obs.sections sec.name = some rsec ∧ RelocStoredD deflate d obs rsec r ∧
      WFApply a (relCfgOf d.cfg) r.rela r.syms payload.length r.es = true ∧
      (applyStd a (relCfgOf d.cfg) r.rela r.syms payload r.es).isSome = true

/-- the description `d` (reported as `obs = d.observe`) stores the content `cr`, relocations
    included: `HoldsD` with `NoReloc` replaced by the description of the relocation section -/
def HoldsRD (names : List (String × Bytes × Bool)) (deflate : Nat → Bytes → Bytes) (d : ElfDesc) (obs : ElfObs)
    (relocate : Bool) (a : Arch) (cr : ContentR) (allowed : Enc → Prop) : Prop :=
  ∀ kn ∈ names,
    match cr kn.1 with
    | none => d.indexOfName (secNameOf (zfileD d) kn) = none
    | some (payload, addr, orel) =>
      ∃ (i : Nat) (sd : SecDesc) (sec : Sec) (e : Enc) (off : Nat), d.indexOfName (secNameOf (zfileD d) kn) = some i ∧
        d.sections[i]? = some sd ∧ obs.sections[i]? = some sec ∧
        StoresD deflate d sd sec.hdr e payload addr off ∧
        e.legacy = legacyOf (zfileD d) kn ∧ allowed e ∧
        (relocate = false ∨ RelocatesD deflate d obs a sec payload orel)

/-- a content without relocations, as a `ContentR` -/
def liftContent (content : Content) : ContentR := fun k => (content k).map fun pa => (pa.1, pa.2, none)

theorem unrelocated_liftContent (content : Content) : unrelocated (liftContent content) = content := by
  funext k
  simp only [unrelocated, liftContent]
  cases content k <;> rfl

theorem relocatedContent_liftContent (a : Arch) (c : RelCfg) (relocate : Bool) (content : Content) :
    relocatedContent a c relocate (liftContent content) = content := by
  rw [relocatedContent_noReloc, unrelocated_liftContent]
  intro k p addr r h
  simp only [liftContent] at h
  cases hc : content k with
  | none => simp [hc] at h
  | some pa => simp [hc] at h; exact h.2.2.symm

/-- `HoldsD` (no relocation section applies) is the special case of a content without relocations -/
theorem HoldsD.toR {names : List (String × Bytes × Bool)} {deflate : Nat → Bytes → Bytes} {d : ElfDesc} {obs : ElfObs}
    {relocate : Bool} {content : Content} {allowed : Enc → Prop} (a : Arch)
    (h : HoldsD names deflate d obs relocate content allowed) :
    HoldsRD names deflate d obs relocate a (liftContent content) allowed := by
  intro kn hk
  have := h kn hk
  cases hc : content kn.1 with
  | none => simpa [liftContent, hc] using this
  | some pa =>
    obtain ⟨payload, addr⟩ := pa
    simp only [hc] at this
    simp only [liftContent, hc, Option.map_some]
    obtain ⟨i, sd, sec, e, off, h1, h2, h3, hnr, h4, h5, h6⟩ := this
    refine ⟨i, sd, sec, e, off, h1, h2, h3, h4, h5, h6, ?_⟩
    rcases hnr with h | h
    · exact Or.inl h
    · exact Or.inr h

/-- what the transport needs of the opened file (all of it is C01's: `open_exact_z`, `get_section_exact_z`) -/
structure OpenedSecs (P : Params) (d : ElfDesc) (bytes : Bytes) (obs : ElfObs) (f : ElfFile) : Prop where
  hdata : f.data = bytes
  hcls : f.cls = d.cls
  hle : f.le = d.le
  hS : f.S = d.S
  hheader : f.header = obs.header
  hget : ∀ i, i < d.sections.length → (getSection P.env f.S bytes f.header f.shstr i).toOption = obs.sections[i]?

theorem relocStored_of_desc {P : Params} {deflate : Nat → Bytes → Bytes} {d : ElfDesc} {bytes : Bytes} {obs : ElfObs}
    {f : ElfFile} (hL : LayoutFacts d bytes) (ho : d.observe P.env = .ok obs) (hop : OpenedSecs P d bytes obs f)
    (hcls : d.cls = 32 ∨ d.cls = 64)
    {rsec : Sec} {r : RelocDesc} (h : RelocStoredD deflate d obs rsec r) :
    RelocStored P deflate f (relCfgOf d.cfg) rsec r := by
  obtain ⟨j, k, rsd, ssd, ssec, raddr, base, saddr, symoff, hj, hjd, hty, hlink, hrs, hk, hkd, hkind, hent, hsyms, hss⟩ := h
  have hklt : k < d.sections.length := (List.getElem?_eq_some_iff.1 hkd).1
  have hg := hop.hget k hklt
  rw [hk] at hg
  have hget : getSection P.env f.S f.data f.header f.shstr k = .ok ssec := by
    rw [hop.hdata]
    cases hx : getSection P.env f.S bytes f.header f.shstr k with
    | error e => simp [hx, Except.toOption] at hg
    | ok v => simp [hx, Except.toOption] at hg; rw [hg]
  refine ⟨ssec, k, raddr, base, hty, hlink, ?_, hget, hkind, ?_⟩
  · rw [hop.hdata, hop.hcls, hop.hle]
    exact stores_of_desc hL ho hjd hj hrs
  · refine symValues_of_stored (deflate := deflate) (cfg := d.cfg) hcls hop.hS hsyms hent (saddr := saddr) (symoff := symoff) ?_
    rw [hop.hdata, hop.hcls, hop.hle]
    exact stores_of_desc hL ho hkd hk hss

/-- the description-level hypothesis gives the section-table one for any opened file with the
    description's bytes, class, byte order and struct bundle -/
theorem holdsR_of_desc {P : Params} {deflate : Nat → Bytes → Bytes} {d : ElfDesc} {bytes : Bytes} {obs : ElfObs}
    {f : ElfFile} (hL : LayoutFacts d bytes) (ho : d.observe P.env = .ok obs) (hop : OpenedSecs P d bytes obs f)
    (hcls : d.cls = 32 ∨ d.cls = 64)
    {relocate : Bool} {a : Arch} {cr : ContentR} {allowed : Enc → Prop}
    (hh : HoldsRD P.names deflate d obs relocate a cr allowed) :
    HoldsR P deflate f obs.sections relocate d.cfg a cr allowed := by
  intro kn hk
  have hz : hasSection obs.sections nZdebugInfo = zfileD d := hasSection_obs ho _
  have := hh kn hk
  rw [hz, hop.hdata, hop.hcls, hop.hle]
  cases hc : cr kn.1 with
  | none =>
    simp only [hc] at this ⊢
    rw [getSectionByName_obs ho, this]
  | some x =>
    obtain ⟨payload, addr, orel⟩ := x
    simp only [hc] at this ⊢
    obtain ⟨i, sd, sec, e, off, hidx, hsd, hsec, hst, hleg, hal, hrel⟩ := this
    refine ⟨sec, e, off, ?_, stores_of_desc hL ho hsd hsec hst, hleg, hal, ?_⟩
    · rw [getSectionByName_obs ho, hidx]
      exact hsec
    · rcases hrel with h | h
      · exact Or.inl h
      · refine Or.inr ?_
        cases orel with
        | none => exact h
        | some r =>
          obtain ⟨rsec, hfind, hrs, hwf, hsome⟩ := h
          exact ⟨rsec, hfind, relocStored_of_desc hL ho hop hcls hrs, hwf, hsome⟩

/-- the relocation environment of an opened file that carries the description -/
theorem relocEnv_of_desc {P : Params} {d : ElfDesc} {bytes : Bytes} {obs : ElfObs} {f : ElfFile}
    (hop : OpenedSecs P d bytes obs f) (hcls : d.cls = 32 ∨ d.cls = 64) (a : Arch)
    (hmips : decide (d.mclass = "EM_MIPS") = decide (a = .mips)) (m : Val)
    (hm : obs.header.getField "e_machine" = .ok m) (harch : P.machineArchOf m = archString a) :
    RelocEnv P f d.cfg a :=
  ⟨hcls, hop.hS, hop.hcls, hop.hle, hmips, m, by rw [hop.hheader]; exact hm, harch⟩

/-- the view of an opened byte string that carries a description storing `cr`, relocations applied -/
theorem view_of_opened_relocated {P : Params} {deflate : Nat → Bytes → Bytes} {d : ElfDesc} {bytes : Bytes} {obs : ElfObs}
    {f : ElfFile} (hop : Opened P d bytes obs f) (hops : OpenedSecs P d bytes obs f)
    (hL : LayoutFacts d bytes) (ho : d.observe P.env = .ok obs)
    (hcls : d.cls = 32 ∨ d.cls = 64)
    (henv : P.env.enumDecode "ENUM_ELFCOMPRESS_TYPE" 1 = some "ELFCOMPRESS_ZLIB") (hz : ZlibOk P.X deflate)
    (hph : hasPhantomBytes obs.header = .ok false)
    (fuel : Nat) (loader : Option Loader) (relocate followLinks : Bool) (a : Arch) (cr : ContentR) (m : Val)
    (hm : obs.header.getField "e_machine" = .ok m) (harch : P.machineArchOf m = archString a)
    (hmips : decide (d.mclass = "EM_MIPS") = decide (a = .mips)) {allowed : Enc → Prop}
    (hh : HoldsRD P.names deflate d obs relocate a cr allowed)
    (hlink : linkTarget obs.sections loader followLinks = none)
    (hsup : followLinks = false ∨
      ((∃ DS, P.dwarfStructsFor ⟨d.le, 32, d.cls / 8, 2⟩ = some DS) ∧
        cr "debug_sup_sec" = none ∧ cr "gnu_debugaltlink_sec" = none)) :
    dwarfView P (fuel + 1) loader bytes relocate followLinks
      = .ok (.mk d.le (d.cls / 8) (P.machineArchOf m)
          (contentView P.names (relocatedContent a (relCfgOf d.cfg) relocate cr)) none) := by
  have hf : FileOk P deflate f := hop.fileOk hcls henv hz hph
  have hr := relocEnv_of_desc hops hcls a hmips m hm harch
  have hreads := (holdsR_of_desc hL ho hops hcls hh).reads hf hr
  rw [dwarfView_loaded P fuel loader bytes relocate followLinks f obs.sections hop.load,
    core_unlinked P _ loader f obs.sections relocate followLinks hlink,
    ownInfo_reads _ loader obs.sections relocate followLinks _ m (by rw [hop.hheader]; exact hm) hreads
      (by
        rw [hop.hle, hop.hcls]
        rcases hsup with h | ⟨h0, h1, h2⟩
        · exact Or.inl h
        · exact Or.inr ⟨h0, by simp [relocatedContent, h1], by simp [relocatedContent, h2]⟩),
    hop.hle, hop.hcls]

end PyElf.Proofs.C11
