/-
  Helper lemmas for C08, part 5: the symbol table the relocation code reads.
  `Spec.rel_encSym` (an `ElfN_Sym` with only `st_value` set) is C03's `Spec.encSym`
  of the entry ⟨0, value, 0, 0, 0, 0⟩, so C03's round trip (`sym_roundtrip32/64`)
  gives the parse of every entry of a table assembled with it; `st_value` of the
  parsed entry is the encoded value.
-/
import PyElf.Proofs.Reloc
import PyElf.Proofs.RelocApply
import PyElf.Proofs.RelocSection
import PyElf.Proofs.SymParse
namespace PyElf.Proofs.Reloc
open PyElf PyElf.Spec PyElf.Model PyElf.Model.Reloc PyElf.Proofs

/-- the symbol whose only non-zero field is `st_value` -/
def valueSym (v : Nat) : SymE := ⟨0, v, 0, 0, 0, 0⟩

/-- the two encoders agree: C08's value-only entry is C03's encoding of `valueSym v` -/
theorem rel_encSym_eq (le : Bool) (cls : Nat) (v : Nat) : rel_encSym le cls v = encSym le cls (valueSym v) := by
  have h1 : encNat le 1 0 = [0] := by rw [sym_encNat_one]; rfl
  unfold rel_encSym encSym valueSym
  split <;> simp [h1]

/-- the symbol table of C08: `syms.flatMap (rel_encSym le cls)` -/
def encSymTable (le : Bool) (cls : Nat) (syms : List Nat) : Bytes := syms.flatMap (rel_encSym le cls)

theorem rel_encSym_length (le : Bool) (cls : Nat) (v : Nat) : (rel_encSym le cls v).length = symEntSize cls := by
  unfold rel_encSym symEntSize
  split <;> simp [encNat_length]

theorem encSymTable_length (le : Bool) (cls : Nat) (syms : List Nat) :
    (encSymTable le cls syms).length = syms.length * symEntSize cls := by
  induction syms with
  | nil => simp [encSymTable]
  | cons s ss ih =>
    simp only [encSymTable, List.flatMap_cons, List.length_append, List.length_cons] at ih ⊢
    rw [ih, rel_encSym_length, Nat.succ_mul]; omega

theorem symEntSize_pos (cls : Nat) : 0 < symEntSize cls := by
  unfold symEntSize; split <;> omega

/-- the i-th entry of the table starts at `pos + i · symEntSize` -/
theorem symtab_drop (le : Bool) (cls : Nat) {data rest : Bytes} :
    ∀ (syms : List Nat) (i pos : Nat) (h : i < syms.length),
      data.drop pos = encSymTable le cls syms ++ rest →
      data.drop (pos + i * symEntSize cls)
        = rel_encSym le cls syms[i] ++ (encSymTable le cls (syms.drop (i + 1)) ++ rest) := by
  intro syms
  induction syms with
  | nil => intro i pos h; simp at h
  | cons s ss ih =>
    intro i pos h hd
    have hd' : data.drop pos = rel_encSym le cls s ++ (encSymTable le cls ss ++ rest) := by
      rw [hd]; simp [encSymTable, List.append_assoc]
    cases i with
    | zero => simpa [encSymTable] using hd'
    | succ k =>
      have hnext : data.drop (pos + symEntSize cls) = encSymTable le cls ss ++ rest := by
        have := drop_add_of_drop hd'
        rwa [rel_encSym_length] at this
      have := ih k (pos + symEntSize cls) (by simpa using h) hnext
      have e1 : pos + (k + 1) * symEntSize cls = pos + symEntSize cls + k * symEntSize cls := by
        rw [Nat.succ_mul]; omega
      rw [e1]
      simpa using this

theorem valueSym_WF {cls v : Nat} (hv : v < 2 ^ cls) : (valueSym v).WF cls = true := by
  simp [SymE.WF, valueSym, hv, Nat.two_pow_pos]

/-- `Elf_Sym` parsed over a value-only entry, at any position, both classes and byte orders:
    the observed entry is C03's observation of `valueSym v`, and exactly the entry is consumed -/
theorem parse_rel_sym (cfg : ElfCfg) (hcls : cfg.cls = 32 ∨ cfg.cls = 64) (env : Env) (v : Nat) (hv : v < 2 ^ cfg.cls)
    {data : Bytes} {pos : Nat} {rest : Bytes} (hd : data.drop pos = rel_encSym cfg.le cfg.cls v ++ rest) :
    structParse env (Spec.elfStructs cfg).Elf_Sym data pos
      = .ok (obsEntry env.enumDecode cfg.cls (valueSym v), pos + symEntSize cfg.cls) := by
  obtain ⟨le, cls, m, sol, core⟩ := cfg
  simp only at hcls hv hd ⊢
  rw [rel_encSym_eq] at hd
  rcases hcls with rfl | rfl
  · exact sym_roundtrip32 env le m sol core (valueSym v) (valueSym_WF hv) data pos rest hd
  · exact sym_roundtrip64 env le m sol core (valueSym v) (valueSym_WF hv) data pos rest hd

/-- `sym['st_value']` of the observed entry -/
theorem obsEntry_st_value (dec : String → Int → Option String) (cls : Nat) (e : SymE) :
    (obsEntry dec cls e).getInt "st_value" = .ok (e.value : Int) := by
  unfold obsEntry
  split <;> simp [Val.getInt, Val.getField, Fields.getR, Fields.get?, Val.asInt, bind, Except.bind]

/-- the discharge of `hsym`: in any file that holds the symbol table `encSymTable cfg.le cfg.cls syms` at `symoff`,
    parsing entry `i` with `Elf_Sym` at `symoff + i · symEntSize` succeeds and its `st_value` is `syms[i]` -/
theorem symtab_st_value (cfg : ElfCfg) (hcls : cfg.cls = 32 ∨ cfg.cls = 64) (env : Env) (syms : List Nat)
    (hsyms : ∀ s ∈ syms, s < 2 ^ cfg.cls) {data rest : Bytes} {symoff : Nat}
    (hd : data.drop symoff = encSymTable cfg.le cfg.cls syms ++ rest)
    (hfit : symoff + syms.length * symEntSize cfg.cls ≤ 2 ^ 63) (i : Nat) (h : i < syms.length) :
    ∃ symv, seekParse env (Spec.elfStructs cfg).Elf_Sym data (symoff + i * symEntSize cfg.cls) = .ok symv ∧
      symv.getInt "st_value" = .ok (syms[i] : Int) := by
  have hdn := symtab_drop cfg.le cfg.cls syms i symoff h hd
  have hpos := symEntSize_pos cfg.cls
  have hlt : symoff + i * symEntSize cfg.cls < 2 ^ 63 := by
    have : (i + 1) * symEntSize cfg.cls ≤ syms.length * symEntSize cfg.cls := Nat.mul_le_mul_right _ h
    rw [Nat.succ_mul] at this
    omega
  have hp := parse_rel_sym cfg hcls env syms[i] (hsyms _ (List.getElem_mem h)) hdn
  refine ⟨obsEntry env.enumDecode cfg.cls (valueSym syms[i]), ?_, obsEntry_st_value _ _ _⟩
  unfold seekParse
  rw [if_neg (by omega), hp]
  rfl

end PyElf.Proofs.Reloc
