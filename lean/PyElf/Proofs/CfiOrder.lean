/-
  C06 helper lemmas: `DecodedCallFrameTable.reg_order` (the model's `Decoded.regOrder`) is the Spec's `regOrder`:
  the registers named by register-rule instructions, in order of first appearance (CIE's instructions first).
-/
import PyElf.Proofs.CfiEntries
namespace PyElf.Proofs.Cfi
open PyElf PyElf.Spec PyElf.Model PyElf.Proofs

/-- what one instruction does to `reg_order` -/
def ordStep (order : List Nat) (i : Cfa) : List Nat :=
  match i.ruleReg with
  | some r => addToOrder order r
  | none => order

theorem step_order (asz : Nat) (caf daf : Int) (cieH : Fields)
    (hcaf : Fields.getR cieH "code_alignment_factor" = .ok (.int caf))
    (hdaf : Fields.getR cieH "data_alignment_factor" = .ok (.int daf))
    (isFde : Bool) (last : List (Nat × RuleV)) (s s' : DState) (i : Cfa) (hwf : i.wf asz = true)
    (h : decodeStep Spec.cfiTables isFde last cieH s (toInstr i) = .ok s') : s'.order = ordStep s.order i := by
  have hname := name_ok asz i hwf
  cases i <;>
    simp [decodeStep, toInstr, cfaName, bind, Except.bind, pure, Except.pure, Instr.arg, Instr.argInt,
      Instr.argReg, Val.asInt, asNat_nat, hdrInt, Cfa.operands, setRule, hname, hcaf, hdaf] at h
  all_goals first
    | (subst h; rfl)
    | (subst h; simp [ordStep, Cfa.ruleReg]; done)
    | skip
  all_goals repeat' (split at h)
  all_goals first
    | (injection h with h; subst h; simp [ordStep, Cfa.ruleReg]; done)
    | (cases h; done)

theorem loop_order (asz : Nat) (caf daf : Int) (cieH : Fields)
    (hcaf : Fields.getR cieH "code_alignment_factor" = .ok (.int caf))
    (hdaf : Fields.getR cieH "data_alignment_factor" = .ok (.int daf))
    (isFde : Bool) (last : List (Nat × RuleV)) (is : List Cfa) : ∀ (s s' : DState), (∀ i ∈ is, i.wf asz = true) →
    decodeLoop Spec.cfiTables isFde last cieH s (is.map toInstr) = .ok s' → s'.order = is.foldl ordStep s.order := by
  induction is with
  | nil =>
    intro s s' _ h
    simp only [List.map_nil, decodeLoop, Except.ok.injEq] at h
    subst h; rfl
  | cons i is ih =>
    intro s s' hwf h
    simp only [List.map_cons, decodeLoop, bind, Except.bind] at h
    cases h1 : decodeStep Spec.cfiTables isFde last cieH s (toInstr i) with
    | error e => rw [h1] at h; cases h
    | ok s1 =>
      rw [h1] at h
      have := step_order asz caf daf cieH hcaf hdaf isFde last s s1 i (hwf i (List.mem_cons_self ..)) h1
      rw [List.foldl_cons, ← this]
      exact ih s1 s' (fun j hj => hwf j (List.mem_cons_of_mem _ hj)) h

theorem foldl_ordStep (is : List Cfa) : ∀ seen : List Nat,
    is.foldl ordStep seen = (is.filterMap Cfa.ruleReg).foldl addToOrder seen := by
  induction is with
  | nil => intro seen; rfl
  | cons i is ih =>
    intro seen
    rw [List.foldl_cons, ih, List.filterMap_cons]
    unfold ordStep
    cases Cfa.ruleReg i <;> rfl

/-- appending each element the first time it is seen = the first occurrences, in order -/
theorem foldl_addToOrder (rs : List Nat) : ∀ seen : List Nat,
    rs.foldl addToOrder seen = seen ++ (firstOccurrences rs).filter (fun x => !seen.contains x) := by
  induction rs with
  | nil => intro seen; simp [firstOccurrences]
  | cons r rs ih =>
    intro seen
    rw [List.foldl_cons, ih, firstOccurrences]
    unfold addToOrder
    by_cases hr : seen.contains r = true
    · simp only [hr, if_true, List.filter_cons, Bool.not_true, Bool.false_eq_true, if_false, List.filter_filter]
      congr 1
      apply List.filter_congr
      intro x _
      by_cases hx : x = r
      · subst hx; simp; exact List.contains_iff_mem.mp hr
      · simp [hx]
    · simp only [hr, Bool.false_eq_true, if_false, List.filter_cons, Bool.not_false, if_true, List.filter_filter,
        List.append_assoc, List.singleton_append]
      congr 2
      apply List.filter_congr
      intro x _
      by_cases hx : x = r
      · subst hx; simp
      · simp [hx, Bool.and_comm]

theorem regOrder_eq_foldl (is : List Cfa) : regOrder is = is.foldl ordStep [] := by
  rw [foldl_ordStep, foldl_addToOrder]
  simp only [regOrder, List.nil_append, List.contains_nil, Bool.not_false]
  exact (List.filter_eq_self.mpr (fun _ _ => rfl)).symm


/-- CIE: `get_decoded().reg_order` whenever the table decodes at all -/
theorem order_cie (asz : Nat) (caf daf : Int) (h : Fields)
    (hcaf : Fields.getR h "code_alignment_factor" = .ok (.int caf))
    (hdaf : Fields.getR h "data_alignment_factor" = .ok (.int daf))
    (is : List Cfa) (hwf : ∀ i ∈ is, i.wf asz = true) (off : Nat) (ad : Fields) (ab : Bytes) (fmt : Nat) (d : Decoded)
    (hd : decodeTable Spec.cfiTables (.cie h (is.map toInstr) off ad ab fmt) = .ok d) : d.regOrder = regOrder is := by
  simp only [decodeTable, bind, Except.bind, pure, Except.pure] at hd
  split at hd
  · cases hd
  · rename_i s hs
    injection hd with hd; subst hd
    rw [regOrder_eq_foldl, ← loop_order asz caf daf h hcaf hdaf false [] is _ s hwf hs]
    rfl

/-- FDE: the CIE's registers first, then the FDE's -/
theorem order_fde (asz : Nat) (caf daf : Int) (hc hf : Fields)
    (hcaf : Fields.getR hc "code_alignment_factor" = .ok (.int caf))
    (hdaf : Fields.getR hc "data_alignment_factor" = .ok (.int daf))
    (cis fis : List Cfa) (hwfc : ∀ i ∈ cis, i.wf asz = true) (hwff : ∀ i ∈ fis, i.wf asz = true)
    (off coff : Nat) (ad : Fields) (ab fab : Bytes) (lsda : Option Int) (fmt cfmt : Nat) (d : Decoded)
    (hd : decodeTable Spec.cfiTables
          (.fde hf (fis.map toInstr) off (.cie hc (cis.map toInstr) coff ad ab cfmt) fab lsda fmt) = .ok d) :
    d.regOrder = regOrder (cis ++ fis) := by
  rw [decodeTable] at hd
  cases hcd : decodeTable Spec.cfiTables (.cie hc (cis.map toInstr) coff ad ab cfmt) with
  | error e => rw [hcd] at hd; cases hd
  | ok cd =>
    have hc1 := order_cie asz caf daf hc hcaf hdaf cis hwfc coff ad ab cfmt cd hcd
    rw [hcd] at hd
    simp only [bind, Except.bind, pure, Except.pure, Entry.header] at hd
    split at hd
    · cases hd
    · split at hd
      · cases hd
      · rename_i s hs
        injection hd with hd; subst hd
        have := loop_order asz caf daf hc hcaf hdaf true _ fis _ s hwff hs
        rw [regOrder_eq_foldl, List.foldl_append, ← regOrder_eq_foldl, ← hc1]
        exact this

/-- the `reg_order` the Spec prescribes for an entry: a CIE's own instructions; for an FDE the instructions of
    the designated CIE followed by its own -/
def regOrderOf (sec : Section) : Spec.Entry → List Nat
  | .cie c => regOrder c.instrs
  | .fde f =>
    match sec.cieAt f.cie with
    | some c => regOrder (c.instrs ++ f.instrs)
    | none => []
  | .zero => []

/-- the object built for entry `i` of a well-formed section: whenever its table decodes, `reg_order` is the Spec's -/
theorem modelOf_order (sec : Section) (hwf : sec.wf = true) (i : Nat) (se : Spec.Entry) (hi : sec.entries[i]? = some se)
    (d : Decoded) (hd : decodeTable Spec.cfiTables (modelOf sec (sec.offsetOf i) se) = .ok d) :
    d.regOrder = regOrderOf sec se := by
  cases se with
  | zero => simp [modelOf, decodeTable] at hd
  | cie c =>
    exact order_cie sec.asz c.caf.v c.daf.v _ rfl rfl c.instrs (cie_instrs_wf sec hwf i c hi) _ _ _ _ d hd
  | fde f =>
    have hw := wf_at sec hwf i _ hi
    simp only [wfEntry, Fde.wf] at hw
    cases hc : sec.cieAt f.cie with
    | none => rw [hc] at hw; cases hw
    | some c =>
      rw [hc] at hw
      simp only [Bool.and_eq_true] at hw
      have hfw : ∀ x ∈ f.instrs, Cfa.wf sec.asz x = true := by simpa [List.all_eq_true] using hw.1.1.2
      simp only [modelOf, hc, mFde, mCie] at hd
      simp only [regOrderOf, hc]
      exact order_fde sec.asz c.caf.v c.daf.v _ _ rfl rfl c.instrs f.instrs
        (cie_instrs_wf sec hwf f.cie c (cieAt_get hc)) hfw _ _ _ _ _ _ _ _ d hd

/-! `firstOccurrences` is what its name says -/

theorem mem_firstOccurrences (l : List Nat) (x : Nat) : x ∈ firstOccurrences l ↔ x ∈ l := by
  induction l with
  | nil => simp [firstOccurrences]
  | cons r rs ih =>
    by_cases hx : x = r
    · simp [firstOccurrences, hx]
    · simp [firstOccurrences, hx, ih]

theorem firstOccurrences_nodup (l : List Nat) : (firstOccurrences l).Nodup := by
  induction l with
  | nil => simp [firstOccurrences]
  | cons r rs ih =>
    rw [firstOccurrences, List.nodup_cons]
    exact ⟨by simp, List.Pairwise.filter _ ih⟩

end PyElf.Proofs.Cfi
