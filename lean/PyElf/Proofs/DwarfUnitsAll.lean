/-
  C13 helper lemmas (fourth wave): the Spec's unit search on an encoded `.debug_info` section is
  defined exactly on the offsets of the section.
-/
import PyElf.Proofs.DwarfUnits
namespace PyElf.Proofs.Lookup
open PyElf PyElf.Spec.Lookup PyElf.Model.Lookup PyElf.Proofs

theorem encUnits_cons (le : Bool) (u : InfoUnit) (us : List InfoUnit) :
    encUnits le (u :: us) = encUnit le u ++ encUnits le us := by simp [encUnits]

/-- the search over the unit starts from `off` finds a unit iff the offset lies in `[off, off + size)` -/
theorem find_unitStarts_isSome_iff (le : Bool) : ∀ (us : List InfoUnit) (off x : Nat),
    (off ≤ x ∧ x < off + (encUnits le us).length) ↔
      ∃ o u, (unitStarts le off us).find? (fun p => decide (p.1 ≤ x ∧ x < p.1 + unitSize le p.2)) = some (o, u) := by
  intro us
  induction us with
  | nil =>
    intro off x
    simp only [encUnits, List.flatMap_nil, List.length_nil, unitStarts, List.find?_nil]
    constructor
    · intro h; omega
    · rintro ⟨o, u, h⟩; cases h
  | cons v us ih =>
    intro off x
    rw [encUnits_cons, List.length_append, encUnit_length]
    have hpos := unitSize_pos le v
    simp only [unitStarts, List.find?_cons]
    by_cases hin : off ≤ x ∧ x < off + unitSize le v
    · rw [show decide (off ≤ x ∧ x < off + unitSize le v) = true from decide_eq_true hin]
      constructor
      · intro _; exact ⟨off, v, rfl⟩
      · intro _; omega
    · rw [show decide (off ≤ x ∧ x < off + unitSize le v) = false from decide_eq_false hin]
      rw [← ih (off + unitSize le v) x]
      constructor
      · intro h; omega
      · intro h; omega

theorem unitContaining_isSome_iff (le : Bool) (us : List InfoUnit) (x : Nat) :
    x < (encUnits le us).length ↔ ∃ o u, unitContaining le us x = some (o, u) := by
  have := find_unitStarts_isSome_iff le us 0 x
  unfold unitContaining
  rw [← this]; omega

end PyElf.Proofs.Lookup
