/-
  C09 helper lemmas: the symbol count recovered from a GNU hash table
  (`GNUHashTable.get_number_of_symbols`: highest bucket, walk its chain to the
  entry with bit 0 set).
-/
import PyElf.Proofs.Dynamic
namespace PyElf.Proofs.Dynamic
open PyElf PyElf.Spec PyElf.Spec.Dynamic PyElf.Model PyElf.Model.Dynamic PyElf.Proofs

/-! ### list facts about the bucket array -/

def flatLen (B : List (List Nat)) : Nat := (B.map List.length).sum

theorem flatLen_cons (b : List Nat) (B : List (List Nat)) : flatLen (b :: B) = b.length + flatLen B := by
  simp [flatLen]

theorem flatLen_append (P Q : List (List Nat)) : flatLen (P ++ Q) = flatLen P + flatLen Q := by
  simp [flatLen]

theorem flatLen_empty (E : List (List Nat)) (h : ∀ e ∈ E, e = []) : flatLen E = 0 := by
  induction E with
  | nil => rfl
  | cons e E ih =>
    rw [flatLen_cons, h e (by simp), ih (fun x hx => h x (by simp [hx]))]; rfl

/-- either every bucket is empty, or there is a last non-empty one -/
theorem split_last_nonempty : ∀ B : List (List Nat),
    (∀ b ∈ B, b = []) ∨ ∃ P b E, B = P ++ b :: E ∧ b ≠ [] ∧ ∀ e ∈ E, e = [] := by
  intro B
  induction B with
  | nil => left; simp
  | cons x B ih =>
    rcases ih with h | ⟨P, b, E, rfl, hb, hE⟩
    · by_cases hx : x = []
      · left; intro b hb
        rcases List.mem_cons.mp hb with h' | h'
        · rw [h']; exact hx
        · exact h b h'
      · right; exact ⟨[], x, B, rfl, hx, h⟩
    · right; exact ⟨x :: P, b, E, rfl, hb, hE⟩

theorem bucketStarts_append (cur : Nat) (P Q : List (List Nat)) :
    bucketStarts cur (P ++ Q) = bucketStarts cur P ++ bucketStarts (cur + flatLen P) Q := by
  induction P generalizing cur with
  | nil => simp [bucketStarts, flatLen]
  | cons p P ih =>
    simp only [List.cons_append, bucketStarts, ih, flatLen_cons]
    rw [Nat.add_assoc]

theorem bucketStarts_le (cur : Nat) (P : List (List Nat)) : ∀ x ∈ bucketStarts cur P, x ≤ cur + flatLen P := by
  induction P generalizing cur with
  | nil => intro x hx; simp [bucketStarts] at hx
  | cons p P ih =>
    intro x hx
    simp only [bucketStarts, List.mem_cons] at hx
    rw [flatLen_cons]
    rcases hx with h | h
    · subst h; split <;> omega
    · have := ih (cur + p.length) x h; omega

theorem bucketStarts_empty (cur : Nat) (E : List (List Nat)) (h : ∀ e ∈ E, e = []) :
    ∀ x ∈ bucketStarts cur E, x = 0 := by
  induction E generalizing cur with
  | nil => intro x hx; simp [bucketStarts] at hx
  | cons e E ih =>
    intro x hx
    have he : e = [] := h e (by simp)
    simp only [bucketStarts, he, List.isEmpty_nil, if_true, List.length_nil, Nat.add_zero, List.mem_cons] at hx
    rcases hx with h' | h'
    · exact h'
    · exact ih cur (fun y hy => h y (by simp [hy])) x h'

theorem chainWords_length : ∀ b : List Nat, (chainWords b).length = b.length
  | [] => rfl
  | [_] => rfl
  | _ :: y :: rest => by simp [chainWords, chainWords_length (y :: rest)]

theorem flatMap_chain_length (P : List (List Nat)) : (P.flatMap chainWords).length = flatLen P := by
  induction P with
  | nil => rfl
  | cons p P ih => simp [List.flatMap_cons, chainWords_length, ih, flatLen_cons]

theorem flatMap_chain_empty (E : List (List Nat)) (h : ∀ e ∈ E, e = []) : E.flatMap chainWords = [] := by
  induction E with
  | nil => rfl
  | cons e E ih =>
    rw [List.flatMap_cons, h e (by simp), ih (fun x hx => h x (by simp [hx]))]; rfl

/-! ### `max(buckets)` -/

theorem pyMax_fold (M : Nat) : ∀ (xs : List Nat) (m : Nat), m ≤ M → (∀ x ∈ xs, x ≤ M) → (m = M ∨ M ∈ xs) →
    (xs.map fun (x : Nat) => Val.int (x : Int)).foldlM
      (fun (m : Int) v => do let b ← v.asInt; pure (if b > m then b else m)) (m : Int) = .ok (M : Int) := by
  intro xs
  induction xs with
  | nil =>
    intro m _ _ h
    rcases h with h | h
    · simp [h, pure, Except.pure]
    · simp at h
  | cons x xs ih =>
    intro m hm hall h
    simp only [List.map_cons, List.foldlM_cons, Val.asInt, bind, Except.bind, pure, Except.pure]
    have hx : x ≤ M := hall x (by simp)
    by_cases hgt : (x : Int) > (m : Int)
    · simp only [hgt, if_true]
      apply ih x hx (fun y hy => hall y (by simp [hy]))
      rcases h with h | h
      · subst h; omega
      · rcases List.mem_cons.mp h with h' | h'
        · left; exact h'.symm
        · right; exact h'
    · simp only [hgt, if_false]
      apply ih m hm (fun y hy => hall y (by simp [hy]))
      rcases h with h | h
      · left; exact h
      · rcases List.mem_cons.mp h with h' | h'
        · left; subst h'; omega
        · right; exact h'

theorem pyMax_eq (xs : List Nat) (M : Nat) (hmem : M ∈ xs) (hall : ∀ x ∈ xs, x ≤ M) :
    pyMax (xs.map fun (x : Nat) => Val.int (x : Int)) = .ok (M : Int) := by
  cases xs with
  | nil => simp at hmem
  | cons x xs =>
    simp only [List.map_cons, pyMax, Val.asInt, bind, Except.bind]
    apply pyMax_fold M xs x (hall x (by simp)) (fun y hy => hall y (by simp [hy]))
    rcases List.mem_cons.mp hmem with h | h
    · left; exact h.symm
    · right; exact h

/-! ### the chain walk -/

theorem chainWords_cons2 (x y : Nat) (rest : List Nat) :
    chainWords (x :: y :: rest) = x / 2 * 2 :: chainWords (y :: rest) := rfl

theorem walk_chain (data : Bytes) (le : Bool) :
    ∀ (b : List Nat), b ≠ [] → (∀ x ∈ b, x < 2 ^ 32) → ∀ (rest : Bytes) (pos idx fuel : Nat),
      data.drop pos = encWords le 4 (chainWords b) ++ rest → b.length ≤ fuel →
      gnuNumSymbols.walk data le 4 fuel pos idx = .ok (idx + b.length) := by
  intro b
  induction b with
  | nil => intro h; exact absurd rfl h
  | cons x b ih =>
    intro _ hlt rest pos idx fuel hd hfuel
    cases fuel with
    | zero => simp at hfuel
    | succ fuel =>
      have hx : x < 2 ^ 32 := hlt x (by simp)
      cases b with
      | nil =>
        have hw : chainWords [x] = [x / 2 * 2 + 1] := rfl
        rw [hw, encWords_cons, List.append_assoc] at hd
        have hr : readN data pos 4 = encNat le 4 (x / 2 * 2 + 1) := by
          simp [readN, hd, encNat_length]
        rw [gnuNumSymbols.walk]
        simp only [hr, encNat_length, bne_self_eq_false, Bool.false_eq_true, if_false, decNat_encNat,
          bind, Except.bind, pure, Except.pure]
        have hle : x / 2 * 2 ≤ x := Nat.div_mul_le_self x 2
        have e256 : (256 : Nat) ^ 4 = 4294967296 := by decide
        have : (x / 2 * 2 + 1) % 256 ^ 4 % 2 = 1 := by
          rw [e256, Nat.mod_eq_of_lt (show x / 2 * 2 + 1 < 4294967296 by omega)]; omega
        simp [this]
      | cons y b =>
        rw [chainWords_cons2, encWords_cons, List.append_assoc] at hd
        have hr : readN data pos 4 = encNat le 4 (x / 2 * 2) := by
          simp [readN, hd, encNat_length]
        have hd' : data.drop (pos + 4) = encWords le 4 (chainWords (y :: b)) ++ rest := by
          have := drop_add_of_drop hd; rwa [encNat_length] at this
        rw [gnuNumSymbols.walk]
        simp only [hr, encNat_length, bne_self_eq_false, Bool.false_eq_true, if_false, decNat_encNat,
          bind, Except.bind, pure, Except.pure]
        have hle : x / 2 * 2 ≤ x := Nat.div_mul_le_self x 2
        have e256 : (256 : Nat) ^ 4 = 4294967296 := by decide
        have : ¬ ((x / 2 * 2) % 256 ^ 4 % 2 = 1) := by
          rw [e256, Nat.mod_eq_of_lt (show x / 2 * 2 < 4294967296 by omega)]; omega
        simp only [this, if_false]
        rw [ih (by simp) (fun z hz => hlt z (by simp [hz])) rest (pos + 4) (idx + 1) fuel hd' (by simpa using hfuel)]
        simp; omega

/-! ### parsing the GNU hash header and arrays -/

def gnuCon (le : Bool) (w : Nat) : Con :=
  st [f "nbuckets" (.uint 4 le), f "symoffset" (.uint 4 le), f "bloom_size" (.uint 4 le), f "bloom_shift" (.uint 4 le),
      f "bloom" (.array (ctx "bloom_size") (.uint w le)), f "buckets" (.array (ctx "nbuckets") (.uint 4 le))]

theorem spec_gnu (c : ElfCfg) : (elfStructs c).Gnu_Hash = gnuCon c.le (c.cls / 8) := rfl

theorem parse_gnu (env : Env) (le : Bool) (w : Nat) (h : GnuHash)
    (h1 : h.buckets.length < 2 ^ 32) (h2 : h.symoffset < 2 ^ 32) (h3 : h.bloom.length < 2 ^ 32) (h4 : h.shift < 2 ^ 32)
    (data : Bytes) (off : Nat) (rest : Bytes) (hd : data.drop off = h.enc le w ++ rest) :
    ∃ v p, Con.parse env data (gnuCon le w) [] off = .ok (v, p, []) ∧
      v.getNat "bloom_size" = .ok h.bloom.length ∧ v.getNat "nbuckets" = .ok h.buckets.length ∧
      v.getNat "symoffset" = .ok h.symoffset ∧
      v.getField "buckets" = .ok (.list ((bucketStarts h.symoffset h.buckets).map fun x => .int ((x % 256 ^ 4 : Nat) : Int))) := by
  unfold GnuHash.enc at hd
  simp only [List.append_assoc] at hd
  have hd1 := hd
  have hd2 := drop_add_of_drop hd1; rw [encNat_length] at hd2
  have hd3 := drop_add_of_drop hd2; rw [encNat_length] at hd3
  have hd4 := drop_add_of_drop hd3; rw [encNat_length] at hd4
  have hd5 := drop_add_of_drop hd4; rw [encNat_length] at hd5
  have hd6 := drop_add_of_drop hd5; rw [encWords_length] at hd6
  have p1 := fun ctx => parse_uint_ok (env := env) (le := le) (ctx := ctx) hd1 (encNat_length le 4 _)
  have p2 := fun ctx => parse_uint_ok (env := env) (le := le) (ctx := ctx) hd2 (encNat_length le 4 _)
  have p3 := fun ctx => parse_uint_ok (env := env) (le := le) (ctx := ctx) hd3 (encNat_length le 4 _)
  have p4 := fun ctx => parse_uint_ok (env := env) (le := le) (ctx := ctx) hd4 (encNat_length le 4 _)
  simp only [decNat_encNat, mod_of_lt32 h1] at p1
  simp only [decNat_encNat, mod_of_lt32 h2] at p2
  simp only [decNat_encNat, mod_of_lt32 h3] at p3
  simp only [decNat_encNat, mod_of_lt32 h4] at p4
  have a5 := fun ctx => arrayLoop_words env data le w ctx _ h.bloom _ [] hd5
  have a6 := fun ctx => arrayLoop_words env data le 4 ctx _ (bucketStarts h.symoffset h.buckets) _ [] hd6
  have hbl : (bucketStarts h.symoffset h.buckets).length = h.buckets.length := by
    generalize h.symoffset = cur
    induction h.buckets generalizing cur with
    | nil => rfl
    | cons b B ih => simp [bucketStarts, ih]
  rw [hbl] at a6
  simp only [gnuCon, st, mkFields, f, ctx]
  rw [parse_struct, parseFields_named, p1]
  simp only [Except.bind]
  rw [parseFields_named, p2]
  simp only [Except.bind]
  rw [parseFields_named, p3]
  simp only [Except.bind]
  rw [parseFields_named, p4]
  simp only [Except.bind]
  rw [parseFields_named, parse_array_ctx (n := h.bloom.length) (hk := by simp [Fields.set, Fields.get?]), a5]
  simp only [Except.bind]
  rw [parseFields_named, parse_array_ctx (n := h.buckets.length) (hk := by simp [Fields.set, Fields.get?]), a6]
  simp only [Except.bind, Con.parseFields]
  refine ⟨_, _, rfl, ?_, ?_, ?_, ?_⟩ <;>
    simp [Fields.set, Val.getNat, Val.getField, Fields.getR, Fields.get?, Val.asNat, Val.asInt, bind, Except.bind]

theorem encWords_append (le : Bool) (n : Nat) (xs ys : List Nat) :
    encWords le n (xs ++ ys) = encWords le n xs ++ encWords le n ys := by
  simp [encWords]

theorem hashed_eq (h : GnuHash) : h.hashed = flatLen h.buckets := rfl

/-- the walk started where the model starts it, on a stored well-formed table -/
theorem gnuNumSymbols_eq (env : Env) (S : ElfStructs) (le : Bool) (w : Nat)
    (hG : S.Gnu_Hash = gnuCon le w) (hW : S.Elf_word = .uint 4 le) (hX : S.Elf_xword = .uint w le)
    (h : GnuHash) (nsyms : Nat) (hwf : h.wf nsyms = true)
    (data : Bytes) (off : Nat) (rest : Bytes) (hd : data.drop off = h.enc le w ++ rest)
    (hsmall : data.length < 2 ^ 63) :
    gnuNumSymbols env S data le off = .ok nsyms := by
  simp only [GnuHash.wf, Bool.and_eq_true, decide_eq_true_eq, List.all_eq_true] at hwf
  obtain ⟨⟨⟨⟨⟨⟨⟨w1, w2⟩, w3⟩, w4⟩, w5⟩, w6⟩, w7⟩, w8⟩ := hwf
  rw [hashed_eq] at w3
  obtain ⟨v, p, hp, f1, f2, f3, f4⟩ := parse_gnu env le w h w5 (by omega) w6 w7 data off rest hd
  have hoff : off < 2 ^ 63 := by
    have := congrArg List.length hd
    simp [GnuHash.enc, encNat_length] at this
    omega
  -- the bucket array holds its values (all below 2^32)
  have hstarts : ∀ x ∈ bucketStarts h.symoffset h.buckets, x < 2 ^ 32 := by
    intro x hx
    have := bucketStarts_le h.symoffset h.buckets x hx
    omega
  have hmap : ((bucketStarts h.symoffset h.buckets).map fun x => Val.int ((x % 256 ^ 4 : Nat) : Int))
      = (bucketStarts h.symoffset h.buckets).map fun (x : Nat) => Val.int (x : Int) := by
    apply List.map_congr_left
    intro x hx
    rw [mod_of_lt32 (hstarts x hx)]
  rw [hmap] at f4
  -- where the chain array starts
  have hchain : data.drop (off + 4 + 4 + 4 + 4 + h.bloom.length * w + h.buckets.length * 4)
      = encWords le 4 (h.buckets.flatMap chainWords) ++ rest := by
    unfold GnuHash.enc at hd
    simp only [List.append_assoc] at hd
    have hd2 := drop_add_of_drop hd; rw [encNat_length] at hd2
    have hd3 := drop_add_of_drop hd2; rw [encNat_length] at hd3
    have hd4 := drop_add_of_drop hd3; rw [encNat_length] at hd4
    have hd5 := drop_add_of_drop hd4; rw [encNat_length] at hd5
    have hd6 := drop_add_of_drop hd5; rw [encWords_length] at hd6
    have hd7 := drop_add_of_drop hd6; rw [encWords_length] at hd7
    have hbl : (bucketStarts h.symoffset h.buckets).length = h.buckets.length := by
      generalize h.symoffset = cur
      induction h.buckets generalizing cur with
      | nil => rfl
      | cons b B ih => simp [bucketStarts, ih]
    rw [hbl] at hd7
    exact hd7
  unfold gnuNumSymbols
  rw [structParseAt_eq hoff]
  unfold structParse
  rw [hG]
  have sW : sizeofR S.Elf_word = .ok 4 := by rw [hW]; rfl
  have sX : sizeofR S.Elf_xword = .ok w := by rw [hX]; rfl
  simp only [bind, Except.bind, hp, pure, Except.pure, sW, sX, f1, f2, f3, f4, asList]
  rcases split_last_nonempty h.buckets with hall | ⟨P, b, E, hB, hb, hE⟩
  · -- no hashed symbol: every bucket is 0, the count is symoffset
    have hz := bucketStarts_empty h.symoffset h.buckets hall
    have hne : bucketStarts h.symoffset h.buckets ≠ [] := by
      intro e
      have hbl : (bucketStarts h.symoffset h.buckets).length = h.buckets.length := by
        generalize h.symoffset = cur
        induction h.buckets generalizing cur with
        | nil => rfl
        | cons b B ih => simp [bucketStarts, ih]
      rw [e] at hbl; simp at hbl; omega
    obtain ⟨x, hx⟩ := List.exists_mem_of_ne_nil _ hne
    have hx0 : x = 0 := hz x hx
    subst hx0
    rw [pyMax_eq _ 0 hx (fun y hy => by rw [hz y hy]; exact Nat.le_refl 0)]
    have hlt : ((0 : Nat) : Int) < (h.symoffset : Int) := by omega
    simp only [hlt, if_true]
    rw [flatLen_empty _ hall] at w3
    simp at w3; rw [w3]
  · -- the last non-empty bucket starts at symoffset + |P|, its chain ends the table
    have hst : bucketStarts h.symoffset h.buckets
        = bucketStarts h.symoffset P ++ (h.symoffset + flatLen P) :: bucketStarts (h.symoffset + flatLen P + b.length) E := by
      rw [hB, bucketStarts_append]
      have : b.isEmpty = false := by cases b with | nil => exact absurd rfl hb | cons _ _ => rfl
      simp [bucketStarts, this]
    have hM : h.symoffset + flatLen P ∈ bucketStarts h.symoffset h.buckets := by rw [hst]; simp
    have hmax : ∀ x ∈ bucketStarts h.symoffset h.buckets, x ≤ h.symoffset + flatLen P := by
      intro x hx
      rw [hst] at hx
      rcases List.mem_append.mp hx with h' | h'
      · exact bucketStarts_le _ _ x h'
      · rcases List.mem_cons.mp h' with h'' | h''
        · omega
        · rw [bucketStarts_empty _ E hE x h'']; omega
    rw [pyMax_eq _ _ hM hmax]
    have hge : ¬ (((h.symoffset + flatLen P : Nat) : Int) < (h.symoffset : Int)) := by omega
    simp only [hge, if_false, Int.toNat_natCast]
    have hfl : flatLen h.buckets = flatLen P + b.length := by
      rw [hB, flatLen_append, flatLen_cons, flatLen_empty E hE]; omega
    have hwords : h.buckets.flatMap chainWords = P.flatMap chainWords ++ chainWords b := by
      rw [hB, List.flatMap_append, List.flatMap_cons, flatMap_chain_empty E hE]; simp
    rw [hwords, encWords_append, List.append_assoc] at hchain
    have hdb := drop_add_of_drop hchain
    rw [encWords_length, flatMap_chain_length] at hdb
    have hpos : off + 4 * 4 + h.bloom.length * w + h.buckets.length * 4 + (h.symoffset + flatLen P - h.symoffset) * 4
        = off + 4 + 4 + 4 + 4 + h.bloom.length * w + h.buckets.length * 4 + flatLen P * 4 := by omega
    rw [hpos]
    have hlenb : (data.drop (off + 4 + 4 + 4 + 4 + h.bloom.length * w + h.buckets.length * 4 + flatLen P * 4)).length
        = b.length * 4 + rest.length := by
      rw [hdb]; simp [encWords_length, chainWords_length]
    rw [List.length_drop] at hlenb
    have hbpos : 0 < b.length := by cases b with | nil => exact absurd rfl hb | cons _ _ => simp
    rw [seekCheck_ok (by omega)]
    simp only
    rw [walk_chain data le b hb (fun x hx => w8 b (by rw [hB]; simp) x hx) rest _ _ _ hdb (by omega)]
    congr 1; omega

/-- `num_symbols()` with a GNU hash table: it takes precedence over a SysV one -/
theorem numSymbols_gnu {env : Env} {S : ElfStructs} {data : Bytes} {d : Dyn} {le : Bool} {w : Nat} {tbl : String}
    {tags : List (Int × Nat)} {ifc : FileIfc} {hs : List Val}
    (V : TableView S data d le w tbl tags) (hnull : NullIs env tbl)
    (hterm : hasTerminator tags = true) (SV : SegsView ifc hs)
    (hgnu : TagIs env tbl "DT_GNU_HASH" DT_GNU_HASH)
    {iterSegs : R (List (String × Val))} {le' : Bool} {w' : Nat} {sz : Nat} (hsz : S.Elf_Sym.sizeof = some sz)
    {a o : Nat} (ha : firstVal (liveTags tags) DT_GNU_HASH = some a) (ho : mapAddr hs a = some o)
    (hG : S.Gnu_Hash = gnuCon le' w') (hW : S.Elf_word = .uint 4 le') (hX : S.Elf_xword = .uint w' le')
    (h : GnuHash) (nsyms : Nat) (hwf : h.wf nsyms = true)
    {rest : Bytes} (hd : data.drop o = h.enc le' w' ++ rest) :
    numSymbols env S data ifc d iterSegs le' = .ok nsyms := by
  unfold numSymbols
  rw [getTableOffset_view V hnull hterm SV "DT_GNU_HASH" DT_GNU_HASH hgnu]
  simp only [sizeofR, hsz, ha, ho, bind, Except.bind, Option.bind]
  exact gnuNumSymbols_eq env S le' w' hG hW hX h nsyms hwf data o rest hd V.small

end PyElf.Proofs.Dynamic
