/-
  Generic `Con.parse` lemmas (no property-specific content): enums over integer readers, struct
  fields one at a time, conditionals, `RepeatUntilExcluding` over a list of encoded items.
  Reuses Proofs/Primitives.lean for the primitive readers.
-/
import PyElf.Core.Construct
import PyElf.Spec.Primitives
import PyElf.Proofs.Primitives
namespace PyElf.Proofs.Engine
open PyElf PyElf.Spec PyElf.Proofs

/-- how an `Enum(..., _default_=Pass)` presents a number: its name, or the number itself -/
def enumVal (ed : String → Int → Option String) (tbl : String) (n : Int) : Val :=
  match ed tbl n with
  | some s => .str s
  | none => .int n

/-! ### enums -/

theorem parse_enum_int {env : Env} {data : Bytes} {sub : Con} {tbl : String} {pass : Bool} {ctx ctx' : Fields}
    {pos p : Nat} {n : Int} (h : Con.parse env data sub ctx pos = .ok (.int n, p, ctx')) :
    Con.parse env data (.enum sub tbl pass) ctx pos =
      match env.enumDecode tbl n with
      | some s => .ok (.str s, p, ctx')
      | none => if pass then .ok (.int n, p, ctx') else .error .elfParseError := by
  rw [Con.parse, h]
  simp only [bind, Except.bind]
  cases env.enumDecode tbl n <;> simp [pure, Except.pure]

theorem parse_enum_pass {env : Env} {data : Bytes} {sub : Con} {tbl : String} {ctx ctx' : Fields}
    {pos p : Nat} {n : Int} (h : Con.parse env data sub ctx pos = .ok (.int n, p, ctx')) :
    Con.parse env data (.enum sub tbl true) ctx pos = .ok (enumVal env.enumDecode tbl n, p, ctx') := by
  rw [parse_enum_int h, enumVal]
  cases env.enumDecode tbl n <;> simp

/-- a named value: `Enum` without a default returns the name -/
theorem parse_enum_named {env : Env} {data : Bytes} {sub : Con} {tbl : String} {pass : Bool} {ctx ctx' : Fields}
    {pos p : Nat} {n : Int} {s : String} (h : Con.parse env data sub ctx pos = .ok (.int n, p, ctx'))
    (hs : env.enumDecode tbl n = some s) :
    Con.parse env data (.enum sub tbl pass) ctx pos = .ok (.str s, p, ctx') := by
  rw [parse_enum_int h, hs]

/-- `Enum(ULEB128)` with the pass-through default, on any complete LEB128 digit string -/
theorem parse_enum_uleb {env : Env} {data : Bytes} {tbl : String} {ctx : Fields} {pos : Nat} {bs rest : Bytes}
    (hd : data.drop pos = bs ++ rest) (h : ValidLEB bs = true) :
    Con.parse env data (.enum .uleb tbl true) ctx pos
      = .ok (enumVal env.enumDecode tbl (ulebVal bs), pos + bs.length, ctx) :=
  parse_enum_pass (parse_uleb_ok hd h)

/-- … on the `l`-byte (possibly padded) encoding of `v` -/
theorem parse_enum_ulebN {env : Env} {data : Bytes} {tbl : String} {ctx : Fields} {pos l v : Nat} {rest : Bytes}
    (hd : data.drop pos = encUlebN l v ++ rest) (hl : 1 ≤ l) (hv : v < 2 ^ (7 * l)) :
    Con.parse env data (.enum .uleb tbl true) ctx pos = .ok (enumVal env.enumDecode tbl v, pos + l, ctx) := by
  have := parse_enum_uleb (env := env) (tbl := tbl) (ctx := ctx) hd (encUlebN_valid l v hl)
  rwa [ulebVal_enc_of_lt hv, encUlebN_length] at this

theorem parse_ulebN {env : Env} {data : Bytes} {ctx : Fields} {pos l v : Nat} {rest : Bytes}
    (hd : data.drop pos = encUlebN l v ++ rest) (hl : 1 ≤ l) (hv : v < 2 ^ (7 * l)) :
    Con.parse env data .uleb ctx pos = .ok (.int v, pos + l, ctx) := by
  have := parse_uleb_ok (env := env) (ctx := ctx) hd (encUlebN_valid l v hl)
  rwa [ulebVal_enc_of_lt hv, encUlebN_length] at this

theorem parse_slebN {env : Env} {data : Bytes} {ctx : Fields} {pos l : Nat} {v : Int} {rest : Bytes}
    (hd : data.drop pos = encSlebN l v ++ rest) (hl : 1 ≤ l)
    (hlo : -((2 ^ (7 * l - 1) : Nat) : Int) ≤ v) (hhi : v < ((2 ^ (7 * l - 1) : Nat) : Int)) :
    Con.parse env data .sleb ctx pos = .ok (.int v, pos + l, ctx) := by
  have := parse_sleb_ok (env := env) (ctx := ctx) hd (encSlebN_valid l v hl)
  rwa [slebVal_enc l v hl hlo hhi, encSlebN_length] at this

/-! ### structs, field by field -/

theorem parseFields_nil {env : Env} {data : Bytes} {obj ctx : Fields} {pos : Nat} :
    Con.parseFields env data .nil obj ctx pos = .ok (obj, pos, ctx) := by
  rw [Con.parseFields]

/-- a named, non-embedded field whose reader succeeds -/
theorem parseFields_named {env : Env} {data : Bytes} {nm : String} {c : Con} {rest : ConFields}
    {obj ctx ctx' : Fields} {pos p : Nat} {v : Val} (h : Con.parse env data c ctx pos = .ok (v, p, ctx')) :
    Con.parseFields env data (.cons (some nm) false c rest) obj ctx pos
      = Con.parseFields env data rest (Fields.set obj nm v) (Fields.set ctx' nm v) p := by
  rw [Con.parseFields]
  simp [h, bind, Except.bind]

/-- an embedded field whose reader succeeds -/
theorem parseFields_embedded {env : Env} {data : Bytes} {c : Con} {rest : ConFields}
    {obj obj' ctx ctx' : Fields} {pos p : Nat} (h : Con.parseEmb env data c obj ctx pos = .ok (obj', p, ctx')) :
    Con.parseFields env data (.cons none true c rest) obj ctx pos = Con.parseFields env data rest obj' ctx' p := by
  rw [Con.parseFields]
  simp [h, bind, Except.bind]

theorem parse_struct {env : Env} {data : Bytes} {fs : ConFields} {ctx obj c' : Fields} {pos p : Nat}
    (h : Con.parseFields env data fs [] [] pos = .ok (obj, p, c')) :
    Con.parse env data (.struct fs) ctx pos = .ok (.record obj, p, ctx) := by
  rw [Con.parse, h]; rfl

/-! ### conditionals and computed values -/

theorem parse_value {env : Env} {data : Bytes} {e : Expr} {ctx : Fields} {pos : Nat} {v : Val}
    (h : e.eval ctx .none = .ok v) : Con.parse env data (.value e) ctx pos = .ok (v, pos, ctx) := by
  rw [Con.parse, h]; rfl

theorem parse_ite_true {env : Env} {data : Bytes} {c : Expr} {t e : Con} {ctx : Fields} {pos : Nat} {v : Val}
    (h : c.eval ctx .none = .ok v) (ht : v.truthy = true) :
    Con.parse env data (.ifThenElse c t e) ctx pos = Con.parse env data t ctx pos := by
  rw [Con.parse, h]; simp [bind, Except.bind, ht]

theorem parse_ite_false {env : Env} {data : Bytes} {c : Expr} {t e : Con} {ctx : Fields} {pos : Nat} {v : Val}
    (h : c.eval ctx .none = .ok v) (ht : v.truthy = false) :
    Con.parse env data (.ifThenElse c t e) ctx pos = Con.parse env data e ctx pos := by
  rw [Con.parse, h]; simp [bind, Except.bind, ht]

theorem parseEmb_ite_true {env : Env} {data : Bytes} {c : Expr} {t e : Con} {obj ctx : Fields} {pos : Nat} {v : Val}
    (h : c.eval ctx .none = .ok v) (ht : v.truthy = true) :
    Con.parseEmb env data (.ifThenElse c t e) obj ctx pos = Con.parseEmb env data t obj ctx pos := by
  rw [Con.parseEmb, h]; simp [bind, Except.bind, ht]

theorem parseEmb_ite_false {env : Env} {data : Bytes} {c : Expr} {t e : Con} {obj ctx : Fields} {pos : Nat} {v : Val}
    (h : c.eval ctx .none = .ok v) (ht : v.truthy = false) :
    Con.parseEmb env data (.ifThenElse c t e) obj ctx pos = Con.parseEmb env data e obj ctx pos := by
  rw [Con.parseEmb, h]; simp [bind, Except.bind, ht]

theorem parseEmb_struct {env : Env} {data : Bytes} {fs : ConFields} {obj ctx : Fields} {pos : Nat} :
    Con.parseEmb env data (.struct fs) obj ctx pos = Con.parseFields env data fs obj ctx pos := by
  rw [Con.parseEmb]

/-- an embedded `Switch` whose key selects `c` -/
theorem parseEmb_switch {env : Env} {data : Bytes} {key : Expr} {cases : ConCases} {dflt c : Con}
    {obj ctx : Fields} {pos : Nat} {k : Val} (hk : key.eval ctx .none = .ok k)
    (hc : Con.parseCaseEmb env data k cases obj ctx pos = some (Con.parseEmb env data c obj ctx pos)) :
    Con.parseEmb env data (.switch key cases dflt) obj ctx pos = Con.parseEmb env data c obj ctx pos := by
  rw [Con.parseEmb, hk]; simp [bind, Except.bind, hc]

/-! ### RepeatUntilExcluding over a list of encoded items -/

/--
  The loop of `RepeatUntilExcluding._parse` on `items ++ terminator`: every item is read by `step`
  to its value without touching the context and does not satisfy the stop predicate; the terminator
  is read to a value that does.  (`good` = whatever well-formedness the item lemma needs.)
-/
theorem repeatLoop_items {α : Type} (step : Nat → Fields → PRes) (stop : Val → Fields → R Bool) (ctx : Fields)
    (data : Bytes) (enc : α → Bytes) (val : α → Val) (good : α → Prop) (term : Bytes) (tv : Val) (rest : Bytes)
    (hitem : ∀ x pos tail, good x → data.drop pos = enc x ++ tail →
      step pos ctx = .ok (val x, pos + (enc x).length, ctx) ∧ stop (val x) ctx = .ok false)
    (hterm : ∀ pos, data.drop pos = term ++ rest →
      step pos ctx = .ok (tv, pos + term.length, ctx) ∧ stop tv ctx = .ok true) :
    ∀ (xs : List α) (fuel pos : Nat) (acc : List Val), (∀ x ∈ xs, good x) → xs.length + 1 ≤ fuel →
      data.drop pos = xs.flatMap enc ++ (term ++ rest) →
      repeatLoop step stop fuel pos ctx acc
        = .ok (.list (acc.reverse ++ xs.map val), pos + (xs.flatMap enc).length + term.length, ctx) := by
  intro xs
  induction xs with
  | nil =>
    intro fuel pos acc _ hf hd
    cases fuel with
    | zero => omega
    | succ fuel =>
      obtain ⟨h1, h2⟩ := hterm pos (by simpa using hd)
      rw [repeatLoop, h1]
      simp [h2]
  | cons x xs ih =>
    intro fuel pos acc hg hf hd
    cases fuel with
    | zero => omega
    | succ fuel =>
      have hd0 : data.drop pos = enc x ++ (xs.flatMap enc ++ (term ++ rest)) := by
        simpa [List.append_assoc] using hd
      obtain ⟨h1, h2⟩ := hitem x pos _ (hg x (by simp)) hd0
      rw [repeatLoop, h1]
      simp only [h2]
      rw [ih fuel _ _ (fun y hy => hg y (by simp [hy])) (by simp at hf; omega) (drop_add_of_drop hd0)]
      simp [Nat.add_assoc]

theorem flatMap_length_ge {α : Type} (enc : α → Bytes) (xs : List α) (h : ∀ x ∈ xs, 1 ≤ (enc x).length) :
    xs.length ≤ (xs.flatMap enc).length := by
  induction xs with
  | nil => simp
  | cons x xs ih =>
    have h1 := h x (by simp)
    have h2 := ih (fun y hy => h y (by simp [hy]))
    simp only [List.flatMap_cons, List.length_append, List.length_cons]; omega

/-- `RepeatUntilExcluding(pred, sub)` on an encoded item list followed by its terminator -/
theorem parse_repeat_items {α : Type} {env : Env} {data : Bytes} {pred : Expr} {sub : Con} {ctx : Fields}
    (enc : α → Bytes) (val : α → Val) (good : α → Prop) (term : Bytes) (tv : Val) (rest : Bytes)
    (hitem : ∀ x pos tail, good x → data.drop pos = enc x ++ tail →
      Con.parse env data sub ctx pos = .ok (val x, pos + (enc x).length, ctx) ∧
        (pred.eval ctx (val x)).map Val.truthy = .ok false)
    (hterm : ∀ pos, data.drop pos = term ++ rest →
      Con.parse env data sub ctx pos = .ok (tv, pos + term.length, ctx) ∧
        (pred.eval ctx tv).map Val.truthy = .ok true)
    (xs : List α) (pos : Nat) (hg : ∀ x ∈ xs, good x) (hlen : ∀ x ∈ xs, 1 ≤ (enc x).length)
    (hd : data.drop pos = xs.flatMap enc ++ (term ++ rest)) :
    Con.parse env data (.repeatUntilExcl pred sub) ctx pos
      = .ok (.list (xs.map val), pos + (xs.flatMap enc).length + term.length, ctx) := by
  have hl := length_of_drop hd
  have hge := flatMap_length_ge enc xs hlen
  have hstop : ∀ (v : Val) (c : Fields),
      (do return (← pred.eval c v).truthy : R Bool) = (pred.eval c v).map Val.truthy := by
    intro v c
    cases pred.eval c v <;> rfl
  rw [Con.parse]
  rw [repeatLoop_items (fun p c => Con.parse env data sub c p) (fun v c => do return (← pred.eval c v).truthy) ctx data
    enc val good term tv rest
    (fun x pos tail hgx hdx => by
      obtain ⟨h1, h2⟩ := hitem x pos tail hgx hdx
      exact ⟨h1, by rw [hstop, h2]⟩)
    (fun pos hdx => by
      obtain ⟨h1, h2⟩ := hterm pos hdx
      exact ⟨h1, by rw [hstop, h2]⟩)
    xs _ pos [] hg (by simp only [List.length_append] at hl; omega) hd]
  simp

end PyElf.Proofs.Engine
