/-
  Helper lemmas for C05: the model of `_decode_line_program` run on the Spec encoding of an
  instruction list computes the standard's state machine.
-/
import PyElf.Spec.LineProgram
import PyElf.Spec.DwarfStructs
import PyElf.Model.LineProgram
import PyElf.Proofs.Primitives
namespace PyElf.Proofs.Line
open PyElf PyElf.Spec PyElf.Spec.Line PyElf.Model.Line PyElf.Proofs

/-- the constants of dwarf/constants.py as the standard numbers them -/
def specConsts : LnConsts :=
  { copy := DW_LNS_copy, advance_pc := DW_LNS_advance_pc, advance_line := DW_LNS_advance_line,
    set_file := DW_LNS_set_file, set_column := DW_LNS_set_column, negate_stmt := DW_LNS_negate_stmt,
    set_basic_block := DW_LNS_set_basic_block, const_add_pc := DW_LNS_const_add_pc,
    fixed_advance_pc := DW_LNS_fixed_advance_pc, set_prologue_end := DW_LNS_set_prologue_end,
    set_epilogue_begin := DW_LNS_set_epilogue_begin, set_isa := DW_LNS_set_isa,
    end_sequence := DW_LNE_end_sequence, set_address := DW_LNE_set_address,
    define_file := DW_LNE_define_file, set_discriminator := DW_LNE_set_discriminator }

/-- the header entries the decoder reads, for Spec parameters `p` -/
def hdrOf (p : Params) : Hdr :=
  { default_is_stmt := .int p.defaultIsStmt, opcode_base := p.opcodeBase,
    maximum_operations_per_instruction := p.maxOps, line_range := p.lineRange,
    minimum_instruction_length := p.minInst, line_base := p.lineBase,
    standard_opcode_lengths := p.stdLens.map fun n => .int (Int.ofNat n) }

/-- a `LineState` object read as a row of the matrix -/
def toRow (s : LineState) : Row :=
  { address := s.address, opIndex := s.op_index, file := s.file, line := s.line, column := s.column,
    isStmt := s.is_stmt.truthy, basicBlock := s.basic_block, endSequence := s.end_sequence,
    prologueEnd := s.prologue_end, epilogueBegin := s.epilogue_begin, isa := s.isa,
    discriminator := s.discriminator }

/-- the rows of a list of entries: the states of the entries that have one -/
def rowsOf (es : List Entry) : List Row := (es.filterMap (·.state)).map toRow

theorem rowsOf_append (a b : List Entry) : rowsOf (a ++ b) = rowsOf a ++ rowsOf b := by
  simp [rowsOf, List.filterMap_append]

/-! ### reading primitives through `structParse` -/

theorem asNat_nat (n : Nat) : (Val.int (n : Int)).asNat = .ok n := by
  simp [Val.asNat, Val.asInt, bind, Except.bind]

theorem asNat_nonneg {z : Int} (h : 0 ≤ z) : (Val.int z).asNat = .ok z.toNat := by
  have : ¬ z < 0 := by omega
  simp [Val.asNat, Val.asInt, bind, Except.bind, this]

theorem asNat_zero : (Val.int 0).asNat = .ok 0 := rfl

theorem asNat_ofNat (n : Nat) : (Val.int (Int.ofNat n)).asNat = .ok n := asNat_nat n

theorem sp_u8 {env : Env} {data : Bytes} {pos : Nat} {le : Bool} {b : UInt8} {rest : Bytes}
    (hd : data.drop pos = b :: rest) :
    structParse env (.uint 1 le) data pos = .ok (.int (b.toNat : Int), pos + 1) := by
  have hd' : data.drop pos = [b] ++ rest := by simpa using hd
  have h := parse_uint_ok (env := env) (le := le) (ctx := []) (n := 1) hd' rfl
  simp [structParse, h, decNat_singleton, bind, Except.bind, pure, Except.pure]

theorem sp_uint {env : Env} {data : Bytes} {pos n v : Nat} {le : Bool} {rest : Bytes}
    (hv : v < 256 ^ n) (hd : data.drop pos = encNat le n v ++ rest) :
    structParse env (.uint n le) data pos = .ok (.int (v : Int), pos + n) := by
  have h := parse_uint_ok (env := env) (le := le) (ctx := []) hd (encNat_length le n v)
  simp [structParse, h, decNat_encNat_of_lt le hv, bind, Except.bind, pure, Except.pure]

theorem sp_uleb {env : Env} {data : Bytes} {pos : Nat} {l : Leb} {rest : Bytes}
    (hl : l.WF = true) (hd : data.drop pos = l.enc ++ rest) :
    structParse env .uleb data pos = .ok (.int (l.v : Int), pos + l.n) := by
  simp only [Leb.WF, Bool.and_eq_true, decide_eq_true_eq] at hl
  have := parse_uleb_ok (env := env) (ctx := []) hd (encUlebN_valid l.n l.v hl.1)
  simp only [Leb.enc] at this
  rw [ulebVal_enc_of_lt hl.2, encUlebN_length] at this
  simp [structParse, this, bind, Except.bind, pure, Except.pure]

theorem sp_uleb_n {env : Env} {data : Bytes} {pos n v : Nat} {rest : Bytes}
    (hn : 1 ≤ n) (hv : v < 2 ^ (7 * n)) (hd : data.drop pos = encUlebN n v ++ rest) :
    structParse env .uleb data pos = .ok (.int (v : Int), pos + n) :=
  sp_uleb (l := ⟨v, n⟩) (by simp [Leb.WF, hn, hv]) hd

theorem sp_sleb {env : Env} {data : Bytes} {pos : Nat} {l : SLeb} {rest : Bytes}
    (hl : l.WF = true) (hd : data.drop pos = l.enc ++ rest) :
    structParse env .sleb data pos = .ok (.int l.v, pos + l.n) := by
  simp only [SLeb.WF, Bool.and_eq_true, decide_eq_true_eq] at hl
  have := parse_sleb_ok (env := env) (ctx := []) hd (encSlebN_valid l.n l.v hl.1.1)
  simp only [SLeb.enc] at this
  rw [slebVal_enc l.n l.v hl.1.1 hl.1.2 hl.2, encSlebN_length] at this
  simp [structParse, this, bind, Except.bind, pure, Except.pure]

theorem byte_toNat {n : Nat} (h : n < 256) : (byte n).toNat = n := by
  simp [byte, UInt8.toNat_ofNat', Nat.mod_eq_of_lt h]

/-! ### the struct fields the decoder reads, in the Spec bundle -/

theorem S_u8 (cfg : DwarfCfg) : (Spec.dwarfStructs cfg).the_Dwarf_uint8 = .uint 1 cfg.le := rfl
theorem S_u16 (cfg : DwarfCfg) : (Spec.dwarfStructs cfg).the_Dwarf_uint16 = .uint 2 cfg.le := rfl
theorem S_uleb (cfg : DwarfCfg) : (Spec.dwarfStructs cfg).the_Dwarf_uleb128 = .uleb := rfl
theorem S_sleb (cfg : DwarfCfg) : (Spec.dwarfStructs cfg).the_Dwarf_sleb128 = .sleb := rfl
theorem S_addr (cfg : DwarfCfg) : (Spec.dwarfStructs cfg).the_Dwarf_target_addr = .uint cfg.asz cfg.le := rfl

@[simp] theorem hdr_opcode_base (p : Params) : (hdrOf p).opcode_base = p.opcodeBase := rfl
@[simp] theorem hdr_line_range (p : Params) : (hdrOf p).line_range = p.lineRange := rfl
@[simp] theorem hdr_line_base (p : Params) : (hdrOf p).line_base = p.lineBase := rfl
@[simp] theorem hdr_default_is_stmt (p : Params) : (hdrOf p).default_is_stmt = .int p.defaultIsStmt := rfl
@[simp] theorem hdr_lens (p : Params) :
    (hdrOf p).standard_opcode_lengths = p.stdLens.map fun n => .int (Int.ofNat n) := rfl

/-! ### `advance_pc` -/

theorem advancePc_ok (p : Params) (hm : 1 ≤ p.maxOps) (st : LineState) (n : Nat) :
    advancePc (hdrOf p) st n
      = .ok ({ st with address := st.address + p.minInst * ((st.op_index + n) / p.maxOps),
                       op_index := (st.op_index + n) % p.maxOps },
             p.minInst * ((st.op_index + n) / p.maxOps)) := by
  have : p.maxOps ≠ 0 := by omega
  simp [advancePc, hdrOf, this]

/-! ### dispatch on the first byte -/

section
variable {env : Env} {cfg : DwarfCfg} {p : Params} {data rest : Bytes} {off : Nat}
  {st : LineState} {files : Option (List Val)}

theorem step_special {b : UInt8} (hd : data.drop off = b :: rest) (h : p.opcodeBase ≤ b.toNat) :
    step env (Spec.dwarfStructs cfg) specConsts data (hdrOf p) off st files
      = stepSpecial (hdrOf p) b.toNat (off + 1) st files := by
  simp [step, S_u8, sp_u8 hd, asNat_nat, bind, Except.bind, hdrOf, h]

theorem step_ext (hd : data.drop off = 0 :: rest) (h : 1 ≤ p.opcodeBase) :
    step env (Spec.dwarfStructs cfg) specConsts data (hdrOf p) off st files
      = stepExtended env (Spec.dwarfStructs cfg) specConsts data (hdrOf p) (off + 1) st files := by
  have : ¬ p.opcodeBase ≤ 0 := by omega
  simp [step, S_u8, sp_u8 hd, asNat_zero, bind, Except.bind, hdrOf, this]

theorem step_std {b : UInt8} (hd : data.drop off = b :: rest) (h : b.toNat < p.opcodeBase) (h0 : b.toNat ≠ 0) :
    step env (Spec.dwarfStructs cfg) specConsts data (hdrOf p) off st files
      = stepStandard env (Spec.dwarfStructs cfg) specConsts data (hdrOf p) b.toNat (off + 1) st files := by
  have : ¬ p.opcodeBase ≤ b.toNat := by omega
  simp [step, S_u8, sp_u8 hd, asNat_nat, bind, Except.bind, hdrOf, this, h0]

end

/-! ### one instruction -/

/-- what the loop body must have done on the encoding of `i`: consumed exactly `i.enc p`, moved the
    registers as the standard says, appended the standard's row (if any) and the defined file -/
def StepPost (p : Params) (i : Instr) (off : Nat) (st : LineState) (files : Option (List Val)) :
    R StepOut → Prop
  | .ok (off', st', files', new) =>
      off' = off + (i.enc p).length
      ∧ files' = files.map (· ++ (definedFiles [i]).map FileEntry.obs)
      ∧ toRow st' = (stdStep p (toRow st) i).1
      ∧ rowsOf new = (stdStep p (toRow st) i).2.toList
  | .error _ => False

def StepOK (env : Env) (cfg : DwarfCfg) (p : Params) (ver : Nat) (i : Instr) : Prop :=
  ∀ (data rest : Bytes) (off : Nat) (st : LineState) (files : Option (List Val)),
    data.drop off = i.enc p ++ rest → (ver ≤ 4 → files.isSome = true) →
    off + (i.enc p).length ≤ ssizeMax →
    StepPost p i off st files (step env (Spec.dwarfStructs cfg) specConsts data (hdrOf p) off st files)

theorem files_map_nil (files : Option (List Val)) : files.map (· ++ ([] : List Val)) = files := by
  cases files <;> simp

section
variable {env : Env} {cfg : DwarfCfg} {p : Params} {ver : Nat}

theorem pwf_maxOps (hp : p.WF ver = true) : 1 ≤ p.maxOps := by
  simp [Params.WF] at hp; omega
theorem pwf_lineRange (hp : p.WF ver = true) : 1 ≤ p.lineRange := by
  simp [Params.WF] at hp; omega
theorem pwf_opcodeBase (hp : p.WF ver = true) : 1 ≤ p.opcodeBase := by
  simp [Params.WF] at hp; omega

theorem stepOK_special (hp : p.WF ver = true) (op : Nat) (hw : (Instr.special op).WF p ver = true) :
    StepOK env cfg p ver (.special op) := by
  intro data rest off st files hd _ hsz
  simp only [Instr.WF, Bool.and_eq_true, decide_eq_true_eq] at hw
  have hb : (byte op).toNat = op := byte_toNat (by omega)
  have hd' : data.drop off = byte op :: rest := by simpa [Instr.enc] using hd
  have hm := pwf_maxOps hp
  have hl : p.lineRange ≠ 0 := by have := pwf_lineRange hp; omega
  rw [step_special hd' (by omega), hb]
  simp only [stepSpecial, hdrOf, hl, if_false]
  have := advancePc_ok p hm st ((op - p.opcodeBase) / p.lineRange)
  simp only [hdrOf] at this
  simp only [this, bind, Except.bind, pure, Except.pure, StepPost]
  simp [Instr.enc, definedFiles, toRow, stdStep, Row.advance, Row.afterAppend, LineState.cleared, rowsOf]

theorem dw_consts :
    DW_LNS_copy = 1 ∧ DW_LNS_advance_pc = 2 ∧ DW_LNS_advance_line = 3 ∧ DW_LNS_set_file = 4 ∧ DW_LNS_set_column = 5
    ∧ DW_LNS_negate_stmt = 6 ∧ DW_LNS_set_basic_block = 7 ∧ DW_LNS_const_add_pc = 8 ∧ DW_LNS_fixed_advance_pc = 9
    ∧ DW_LNS_set_prologue_end = 10 ∧ DW_LNS_set_epilogue_begin = 11 ∧ DW_LNS_set_isa = 12
    ∧ DW_LNE_end_sequence = 1 ∧ DW_LNE_set_address = 2 ∧ DW_LNE_define_file = 3 ∧ DW_LNE_set_discriminator = 4 := by
  decide

theorem stepOK_copy (hw : Instr.copy.WF p ver = true) : StepOK env cfg p ver .copy := by
  intro data rest off st files hd _ hsz
  have hw' : 1 < p.opcodeBase := of_decide_eq_true hw
  have hb : byte DW_LNS_copy = (1 : UInt8) := by decide
  have hd' : data.drop off = (1 : UInt8) :: rest := by simpa [Instr.enc, hb] using hd
  rw [step_std hd' (by simpa using hw') (by decide)]
  simp [stepStandard, specConsts, dw_consts, StepPost, Instr.enc, definedFiles, toRow, stdStep,
    Row.afterAppend, LineState.cleared, rowsOf, pure, Except.pure]

theorem stepOK_negateStmt (hw : Instr.negateStmt.WF p ver = true) : StepOK env cfg p ver .negateStmt := by
  intro data rest off st files hd _ hsz
  have hw' : 6 < p.opcodeBase := of_decide_eq_true hw
  have hb : byte DW_LNS_negate_stmt = (6 : UInt8) := by decide
  have hd' : data.drop off = (6 : UInt8) :: rest := by simpa [Instr.enc, hb] using hd
  rw [step_std hd' (by simpa using hw') (by decide)]
  simp [stepStandard, specConsts, dw_consts, StepPost, Instr.enc, definedFiles, toRow, stdStep,
    rowsOf, pure, Except.pure, Val.truthy]

theorem stepOK_setBasicBlock (hw : Instr.setBasicBlock.WF p ver = true) : StepOK env cfg p ver .setBasicBlock := by
  intro data rest off st files hd _ hsz
  have hw' : 7 < p.opcodeBase := of_decide_eq_true hw
  have hb : byte DW_LNS_set_basic_block = (7 : UInt8) := by decide
  have hd' : data.drop off = (7 : UInt8) :: rest := by simpa [Instr.enc, hb] using hd
  rw [step_std hd' (by simpa using hw') (by decide)]
  simp [stepStandard, specConsts, dw_consts, StepPost, Instr.enc, definedFiles, toRow, stdStep,
    rowsOf, pure, Except.pure, Val.truthy]

theorem stepOK_setPrologueEnd (hw : Instr.setPrologueEnd.WF p ver = true) : StepOK env cfg p ver .setPrologueEnd := by
  intro data rest off st files hd _ hsz
  have hw' : 10 < p.opcodeBase := of_decide_eq_true hw
  have hb : byte DW_LNS_set_prologue_end = (10 : UInt8) := by decide
  have hd' : data.drop off = (10 : UInt8) :: rest := by simpa [Instr.enc, hb] using hd
  rw [step_std hd' (by simpa using hw') (by decide)]
  simp [stepStandard, specConsts, dw_consts, StepPost, Instr.enc, definedFiles, toRow, stdStep,
    rowsOf, pure, Except.pure, Val.truthy]

theorem stepOK_setEpilogueBegin (hw : Instr.setEpilogueBegin.WF p ver = true) : StepOK env cfg p ver .setEpilogueBegin := by
  intro data rest off st files hd _ hsz
  have hw' : 11 < p.opcodeBase := of_decide_eq_true hw
  have hb : byte DW_LNS_set_epilogue_begin = (11 : UInt8) := by decide
  have hd' : data.drop off = (11 : UInt8) :: rest := by simpa [Instr.enc, hb] using hd
  rw [step_std hd' (by simpa using hw') (by decide)]
  simp [stepStandard, specConsts, dw_consts, StepPost, Instr.enc, definedFiles, toRow, stdStep,
    rowsOf, pure, Except.pure, Val.truthy]

theorem stepOK_constAddPc (hp : p.WF ver = true) (hw : Instr.constAddPc.WF p ver = true) :
    StepOK env cfg p ver .constAddPc := by
  intro data rest off st files hd _ hsz
  have hw' : 8 < p.opcodeBase := of_decide_eq_true hw
  have hb : byte DW_LNS_const_add_pc = (8 : UInt8) := by decide
  have hd' : data.drop off = (8 : UInt8) :: rest := by simpa [Instr.enc, hb] using hd
  have hm := pwf_maxOps hp
  have hl : p.lineRange ≠ 0 := by have := pwf_lineRange hp; omega
  rw [step_std hd' (by simpa using hw') (by decide)]
  simp [stepStandard, specConsts, dw_consts, hl, advancePc_ok p hm, bind, Except.bind, StepPost, Instr.enc, definedFiles,
    toRow, stdStep, Row.advance, rowsOf, pure, Except.pure]

theorem stepOK_setFile (n : Leb) (hw : (Instr.setFile n).WF p ver = true) : StepOK env cfg p ver (.setFile n) := by
  intro data rest off st files hd _ hsz
  simp only [Instr.WF, Bool.and_eq_true] at hw
  have hw' : 4 < p.opcodeBase := of_decide_eq_true hw.1
  have hb : byte DW_LNS_set_file = (4 : UInt8) := by decide
  have hd0 : data.drop off = [(4 : UInt8)] ++ (n.enc ++ rest) := by simpa [Instr.enc, hb] using hd
  have hd' : data.drop off = (4 : UInt8) :: (n.enc ++ rest) := by simpa using hd0
  have hd1 : data.drop (off + 1) = n.enc ++ rest := drop_add_of_drop hd0
  rw [step_std hd' (by simpa using hw') (by decide)]
  simp [stepStandard, specConsts, dw_consts, S_uleb, sp_uleb hw.2 hd1, asNat_nat, bind, Except.bind, StepPost,
    Instr.enc, definedFiles, toRow, stdStep, rowsOf, pure, Except.pure, Leb.enc, encUlebN_length]
  omega

theorem stepOK_setColumn (n : Leb) (hw : (Instr.setColumn n).WF p ver = true) : StepOK env cfg p ver (.setColumn n) := by
  intro data rest off st files hd _ hsz
  simp only [Instr.WF, Bool.and_eq_true] at hw
  have hw' : 5 < p.opcodeBase := of_decide_eq_true hw.1
  have hb : byte DW_LNS_set_column = (5 : UInt8) := by decide
  have hd0 : data.drop off = [(5 : UInt8)] ++ (n.enc ++ rest) := by simpa [Instr.enc, hb] using hd
  have hd' : data.drop off = (5 : UInt8) :: (n.enc ++ rest) := by simpa using hd0
  have hd1 : data.drop (off + 1) = n.enc ++ rest := drop_add_of_drop hd0
  rw [step_std hd' (by simpa using hw') (by decide)]
  simp [stepStandard, specConsts, dw_consts, S_uleb, sp_uleb hw.2 hd1, asNat_nat, bind, Except.bind, StepPost,
    Instr.enc, definedFiles, toRow, stdStep, rowsOf, pure, Except.pure, Leb.enc, encUlebN_length]
  omega

theorem stepOK_setIsa (n : Leb) (hw : (Instr.setIsa n).WF p ver = true) : StepOK env cfg p ver (.setIsa n) := by
  intro data rest off st files hd _ hsz
  simp only [Instr.WF, Bool.and_eq_true] at hw
  have hw' : 12 < p.opcodeBase := of_decide_eq_true hw.1
  have hb : byte DW_LNS_set_isa = (12 : UInt8) := by decide
  have hd0 : data.drop off = [(12 : UInt8)] ++ (n.enc ++ rest) := by simpa [Instr.enc, hb] using hd
  have hd' : data.drop off = (12 : UInt8) :: (n.enc ++ rest) := by simpa using hd0
  have hd1 : data.drop (off + 1) = n.enc ++ rest := drop_add_of_drop hd0
  rw [step_std hd' (by simpa using hw') (by decide)]
  simp [stepStandard, specConsts, dw_consts, S_uleb, sp_uleb hw.2 hd1, asNat_nat, bind, Except.bind, StepPost,
    Instr.enc, definedFiles, toRow, stdStep, rowsOf, pure, Except.pure, Leb.enc, encUlebN_length]
  omega

theorem stepOK_advancePc (hp : p.WF ver = true) (n : Leb) (hw : (Instr.advancePc n).WF p ver = true) :
    StepOK env cfg p ver (.advancePc n) := by
  intro data rest off st files hd _ hsz
  simp only [Instr.WF, Bool.and_eq_true] at hw
  have hw' : 2 < p.opcodeBase := of_decide_eq_true hw.1
  have hb : byte DW_LNS_advance_pc = (2 : UInt8) := by decide
  have hd0 : data.drop off = [(2 : UInt8)] ++ (n.enc ++ rest) := by simpa [Instr.enc, hb] using hd
  have hd' : data.drop off = (2 : UInt8) :: (n.enc ++ rest) := by simpa using hd0
  have hd1 : data.drop (off + 1) = n.enc ++ rest := drop_add_of_drop hd0
  have hm := pwf_maxOps hp
  rw [step_std hd' (by simpa using hw') (by decide)]
  simp [stepStandard, specConsts, dw_consts, S_uleb, sp_uleb hw.2 hd1, asNat_nat, advancePc_ok p hm, bind, Except.bind, StepPost,
    Instr.enc, definedFiles, toRow, stdStep, Row.advance, rowsOf, pure, Except.pure, Leb.enc, encUlebN_length]
  omega

theorem stepOK_advanceLine (d : SLeb) (hw : (Instr.advanceLine d).WF p ver = true) :
    StepOK env cfg p ver (.advanceLine d) := by
  intro data rest off st files hd _ hsz
  simp only [Instr.WF, Bool.and_eq_true] at hw
  have hw' : 3 < p.opcodeBase := of_decide_eq_true hw.1
  have hb : byte DW_LNS_advance_line = (3 : UInt8) := by decide
  have hd0 : data.drop off = [(3 : UInt8)] ++ (d.enc ++ rest) := by simpa [Instr.enc, hb] using hd
  have hd' : data.drop off = (3 : UInt8) :: (d.enc ++ rest) := by simpa using hd0
  have hd1 : data.drop (off + 1) = d.enc ++ rest := drop_add_of_drop hd0
  rw [step_std hd' (by simpa using hw') (by decide)]
  simp [stepStandard, specConsts, dw_consts, S_sleb, sp_sleb hw.2 hd1, Val.asInt, bind, Except.bind, StepPost,
    Instr.enc, definedFiles, toRow, stdStep, rowsOf, pure, Except.pure, SLeb.enc, encSlebN_length]
  omega

theorem stepOK_fixedAdvancePc (hle : p.le = cfg.le) (n : Nat) (hw : (Instr.fixedAdvancePc n).WF p ver = true) :
    StepOK env cfg p ver (.fixedAdvancePc n) := by
  intro data rest off st files hd _ hsz
  simp only [Instr.WF, Bool.and_eq_true] at hw
  have hw' : 9 < p.opcodeBase := of_decide_eq_true hw.1
  have hn : n < 256 ^ 2 := by have : n < 65536 := of_decide_eq_true hw.2; omega
  have hb : byte DW_LNS_fixed_advance_pc = (9 : UInt8) := by decide
  have hd0 : data.drop off = [(9 : UInt8)] ++ (encNat cfg.le 2 n ++ rest) := by simpa [Instr.enc, hb, hle] using hd
  have hd' : data.drop off = (9 : UInt8) :: (encNat cfg.le 2 n ++ rest) := by simpa using hd0
  have hd1 : data.drop (off + 1) = encNat cfg.le 2 n ++ rest := drop_add_of_drop hd0
  rw [step_std hd' (by simpa using hw') (by decide)]
  simp [stepStandard, specConsts, dw_consts, S_u16, sp_uint hn hd1, asNat_nat, bind, Except.bind, StepPost,
    Instr.enc, definedFiles, toRow, stdStep, rowsOf, pure, Except.pure, encNat_length]

end

/-! ### unknown standard opcodes: skipping the declared operands -/

theorem readUlebs_ok {env : Env} {cfg : DwarfCfg} {data rest : Bytes} :
    ∀ (args : List Leb) (pos : Nat) (acc : List Val), args.all Leb.WF = true →
      data.drop pos = lebsEnc args ++ rest →
      readUlebs env (Spec.dwarfStructs cfg) data args.length pos acc
        = .ok (acc ++ args.map (fun l => Val.int (l.v : Int)), pos + (lebsEnc args).length) := by
  intro args
  induction args with
  | nil => intro pos acc _ _; simp [readUlebs, lebsEnc]
  | cons l ls ih =>
    intro pos acc hw hd
    simp only [List.all_cons, Bool.and_eq_true] at hw
    have hd0 : data.drop pos = l.enc ++ (lebsEnc ls ++ rest) := by simpa [lebsEnc, List.append_assoc] using hd
    have hd1 : data.drop (pos + l.n) = lebsEnc ls ++ rest := by
      have := drop_add_of_drop hd0
      rwa [Leb.enc, encUlebN_length] at this
    simp only [List.length_cons, readUlebs, S_uleb, sp_uleb hw.1 hd0, bind, Except.bind]
    rw [ih (pos + l.n) (acc ++ [Val.int (l.v : Int)]) hw.2 hd1]
    simp [lebsEnc, Leb.enc, encUlebN_length, Nat.add_assoc]

section
variable {env : Env} {cfg : DwarfCfg} {p : Params} {ver : Nat}

theorem stepOK_unknownStd (hp : p.WF ver = true) (op : Nat) (args : List Leb)
    (hw : (Instr.unknownStd op args).WF p ver = true) : StepOK env cfg p ver (.unknownStd op args) := by
  intro data rest off st files hd _ hsz
  simp only [Instr.WF, Bool.and_eq_true, stdOk] at hw
  obtain ⟨⟨⟨h13, hob⟩, hlen⟩, hargs⟩ := hw
  have h13 : 13 ≤ op := of_decide_eq_true h13
  have hob : op < p.opcodeBase := of_decide_eq_true hob
  have hlen : p.stdLens[op - 1]? = some args.length := of_decide_eq_true hlen
  have h256 : p.opcodeBase < 256 := by simp [Params.WF] at hp; omega
  have hb : (byte op).toNat = op := byte_toNat (by omega)
  have hd0 : data.drop off = [byte op] ++ (lebsEnc args ++ rest) := by simpa [Instr.enc] using hd
  have hd' : data.drop off = byte op :: (lebsEnc args ++ rest) := by simpa using hd0
  have hd1 : data.drop (off + 1) = lebsEnc args ++ rest := drop_add_of_drop hd0
  rw [step_std hd' (by omega) (by omega), hb]
  have hne : op ≠ 1 ∧ op ≠ 2 ∧ op ≠ 3 ∧ op ≠ 4 ∧ op ≠ 5 ∧ op ≠ 6 ∧ op ≠ 7 ∧ op ≠ 8 ∧ op ≠ 9 ∧ op ≠ 10
      ∧ op ≠ 11 ∧ op ≠ 12 := by omega
  simp [stepStandard, specConsts, dw_consts, hne, hlen, Val.asInt, readUlebs_ok args (off + 1) [] hargs hd1,
    bind, Except.bind, StepPost, Instr.enc, definedFiles, toRow, stdStep, rowsOf, pure, Except.pure]
  omega

end

/-! ### extended opcodes -/

theorem encExt_length (lk op : Nat) (payload : Bytes) :
    (encExt lk op payload).length = 1 + lk + 1 + payload.length := by
  simp [encExt, encUlebN_length]; omega

theorem ext_reads {env : Env} {le : Bool} {data rest payload : Bytes} {p1 lk op : Nat}
    (hlk : extLenOk lk payload.length = true) (hop : op < 256)
    (hd : data.drop p1 = encUlebN lk (1 + payload.length) ++ ([byte op] ++ (payload ++ rest))) :
    ∃ L : Nat, L = 1 + payload.length
    ∧ structParse env .uleb data p1 = .ok (.int (L : Int), p1 + lk)
    ∧ structParse env (.uint 1 le) data (p1 + lk) = .ok (.int (op : Int), p1 + lk + 1)
    ∧ data.drop (p1 + lk + 1) = payload ++ rest := by
  simp only [extLenOk, Bool.and_eq_true, decide_eq_true_eq] at hlk
  have h2 : data.drop (p1 + lk) = [byte op] ++ (payload ++ rest) := by
    have := drop_add_of_drop hd
    rwa [encUlebN_length] at this
  refine ⟨_, rfl, sp_uleb_n hlk.1 hlk.2 hd, ?_, ?_⟩
  · have := sp_u8 (env := env) (le := le) (b := byte op) (rest := payload ++ rest) (by simpa using h2)
    rwa [byte_toNat hop] at this
  · simpa using drop_add_of_drop h2

section
variable {env : Env} {cfg : DwarfCfg} {p : Params} {ver : Nat}

/-- common start of every extended instruction -/
theorem ext_start {data rest payload : Bytes} {off lk op : Nat} {st : LineState} {files : Option (List Val)}
    (hp : p.WF ver = true) (hd : data.drop off = encExt lk op payload ++ rest) :
    step env (Spec.dwarfStructs cfg) specConsts data (hdrOf p) off st files
      = stepExtended env (Spec.dwarfStructs cfg) specConsts data (hdrOf p) (off + 1) st files
    ∧ data.drop (off + 1) = encUlebN lk (1 + payload.length) ++ ([byte op] ++ (payload ++ rest)) := by
  have hd0 : data.drop off = [(0 : UInt8)] ++ (encUlebN lk (1 + payload.length) ++ ([byte op] ++ (payload ++ rest))) := by
    simpa [encExt, List.append_assoc] using hd
  exact ⟨step_ext (by simpa using hd0) (pwf_opcodeBase hp), drop_add_of_drop hd0⟩

theorem stepOK_endSequence (hp : p.WF ver = true) (lk : Nat) (hw : (Instr.endSequence lk).WF p ver = true) :
    StepOK env cfg p ver (.endSequence lk) := by
  intro data rest off st files hd _ hsz
  simp only [Instr.WF] at hw
  obtain ⟨hs, hd1⟩ := ext_start (env := env) (cfg := cfg) (st := st) (files := files) hp
    (show data.drop off = encExt lk DW_LNE_end_sequence [] ++ rest from hd)
  obtain ⟨L, hL, r1, r2, _⟩ := ext_reads (env := env) (le := cfg.le) hw (by decide) hd1
  rw [hs]
  simp [stepExtended, S_uleb, S_u8, r1, r2, asNat_nat, asNat_nonneg, specConsts, dw_consts, bind, Except.bind, StepPost,
    Instr.enc, encExt_length, definedFiles, toRow, stdStep, rowsOf, pure, Except.pure, LineState.new, Row.init,
    Val.truthy]
  omega

theorem stepOK_setAddress (hp : p.WF ver = true) (hle : p.le = cfg.le) (hasz : p.asz = cfg.asz) (lk a : Nat)
    (hw : (Instr.setAddress lk a).WF p ver = true) : StepOK env cfg p ver (.setAddress lk a) := by
  intro data rest off st files hd _ hsz
  simp only [Instr.WF, Bool.and_eq_true] at hw
  have ha : a < 256 ^ cfg.asz := by rw [← hasz]; exact of_decide_eq_true hw.2
  have hlk : extLenOk lk (encNat cfg.le cfg.asz a).length = true := by rw [encNat_length, ← hasz]; exact hw.1
  obtain ⟨hs, hd1⟩ := ext_start (env := env) (cfg := cfg) (st := st) (files := files) hp
    (show data.drop off = encExt lk DW_LNE_set_address (encNat cfg.le cfg.asz a) ++ rest by
      simpa [Instr.enc, hle, hasz] using hd)
  obtain ⟨L, hL, r1, r2, hd3⟩ := ext_reads (env := env) (le := cfg.le) hlk (by decide) hd1
  rw [hs]
  simp [stepExtended, S_uleb, S_u8, S_addr, r1, r2, sp_uint ha hd3, asNat_nat, asNat_nonneg, specConsts, dw_consts, bind, Except.bind,
    StepPost, Instr.enc, encExt_length, encNat_length, definedFiles, toRow, stdStep, rowsOf, pure, Except.pure, hle, hasz]
  omega

theorem stepOK_setDiscriminator (hp : p.WF ver = true) (lk : Nat) (d : Leb)
    (hw : (Instr.setDiscriminator lk d).WF p ver = true) : StepOK env cfg p ver (.setDiscriminator lk d) := by
  intro data rest off st files hd _ hsz
  simp only [Instr.WF, Bool.and_eq_true] at hw
  have hlk : extLenOk lk d.enc.length = true := by rw [Leb.enc, encUlebN_length]; exact hw.2
  obtain ⟨hs, hd1⟩ := ext_start (env := env) (cfg := cfg) (st := st) (files := files) hp
    (show data.drop off = encExt lk DW_LNE_set_discriminator d.enc ++ rest from hd)
  obtain ⟨L, hL, r1, r2, hd3⟩ := ext_reads (env := env) (le := cfg.le) hlk (by decide) hd1
  rw [hs]
  simp [stepExtended, S_uleb, S_u8, r1, r2, sp_uleb hw.1 hd3, asNat_nat, asNat_nonneg, specConsts, dw_consts, bind, Except.bind,
    StepPost, Instr.enc, encExt_length, definedFiles, toRow, stdStep, rowsOf, pure, Except.pure, Leb.enc, encUlebN_length]
  omega

theorem stepOK_unknownExt (hp : p.WF ver = true) (lk op : Nat) (payload : Bytes)
    (hw : (Instr.unknownExt lk op payload).WF p ver = true) : StepOK env cfg p ver (.unknownExt lk op payload) := by
  intro data rest off st files hd _ hsz
  simp only [Instr.WF, Bool.and_eq_true, decide_eq_true_eq, dw_consts] at hw
  obtain ⟨⟨⟨⟨⟨h256, n1⟩, n2⟩, n3⟩, n4⟩, hlk⟩ := hw
  obtain ⟨hs, hd1⟩ := ext_start (env := env) (cfg := cfg) (st := st) (files := files) hp
    (show data.drop off = encExt lk op payload ++ rest from hd)
  obtain ⟨L, hL, r1, r2, _⟩ := ext_reads (env := env) (le := cfg.le) hlk h256 hd1
  rw [hs]
  have hno : ¬ (L ≥ 1 ∧ off + 1 + lk + 1 + (L - 1) > ssizeMax) := by
    simp only [Instr.enc, encExt_length] at hsz
    omega
  simp [stepExtended, S_uleb, S_u8, r1, r2, asNat_nat, asNat_nonneg, specConsts, dw_consts, n1, n2, n3, n4, bind, Except.bind,
    StepPost, Instr.enc, encExt_length, definedFiles, toRow, stdStep, rowsOf, pure, Except.pure, hno]
  omega

end


/-! ### equations of the construct engine, one constructor at a time -/

section
variable {env : Env} {data : Bytes}

theorem parse_struct (fs : ConFields) (c : Fields) (pos : Nat) :
    Con.parse env data (.struct fs) c pos
      = (match Con.parseFields env data fs [] [] pos with
         | .error e => .error e
         | .ok (obj, p, _) => .ok (.record obj, p, c)) := by
  rw [Con.parse]
  cases Con.parseFields env data fs [] [] pos <;> rfl

theorem parseFields_nil (obj c : Fields) (pos : Nat) :
    Con.parseFields env data .nil obj c pos = .ok (obj, pos, c) := by rw [Con.parseFields]

theorem parseFields_named (nm : String) (k : Con) (rest : ConFields) (obj c : Fields) (pos : Nat) :
    Con.parseFields env data (.cons (some nm) false k rest) obj c pos
      = (match Con.parse env data k c pos with
         | .error e => .error e
         | .ok (v, p, c') => Con.parseFields env data rest (Fields.set obj nm v) (Fields.set c' nm v) p) := by
  rw [Con.parseFields]
  cases Con.parse env data k c pos <;> rfl

theorem parseFields_emb (n : Option String) (k : Con) (rest : ConFields) (obj c : Fields) (pos : Nat) :
    Con.parseFields env data (.cons n true k rest) obj c pos
      = (match Con.parseEmb env data k obj c pos with
         | .error e => .error e
         | .ok (obj', p, c') => Con.parseFields env data rest obj' c' p) := by
  rw [Con.parseFields]
  cases Con.parseEmb env data k obj c pos <;> rfl

theorem parseEmb_struct (fs : ConFields) (obj c : Fields) (pos : Nat) :
    Con.parseEmb env data (.struct fs) obj c pos = Con.parseFields env data fs obj c pos := by
  rw [Con.parseEmb]

theorem parseEmb_ite (cond : Expr) (t e : Con) (obj c : Fields) (pos : Nat) :
    Con.parseEmb env data (.ifThenElse cond t e) obj c pos
      = (match cond.eval c .none with
         | .error er => .error er
         | .ok v => if v.truthy then Con.parseEmb env data t obj c pos else Con.parseEmb env data e obj c pos) := by
  rw [Con.parseEmb]
  cases cond.eval c .none <;> rfl

theorem parse_ite (cond : Expr) (t e : Con) (c : Fields) (pos : Nat) :
    Con.parse env data (.ifThenElse cond t e) c pos
      = (match cond.eval c .none with
         | .error er => .error er
         | .ok v => if v.truthy then Con.parse env data t c pos else Con.parse env data e c pos) := by
  rw [Con.parse]
  cases cond.eval c .none <;> rfl

theorem parse_value (ex : Expr) (c : Fields) (pos : Nat) :
    Con.parse env data (.value ex) c pos
      = (match ex.eval c .none with
         | .error er => .error er
         | .ok v => .ok (v, pos, c)) := by
  rw [Con.parse]
  cases ex.eval c .none <;> rfl

end

/-! ### the file-entry struct (DW_LNE_define_file operand, v2–4 file table element) -/

def fileEntryCon : Con :=
  st [f "name" .cstring,
      emb (ifc (.truthy (ctx "name")) (st [f "dir_index" .uleb, f "mtime" .uleb, f "length" .uleb]))]

theorem S_file_entry (cfg : DwarfCfg) : (Spec.dwarfStructs cfg).Dwarf_lineprog_file_entry = fileEntryCon := rfl

theorem parse_leb {env : Env} {data : Bytes} {pos : Nat} {c : Fields} {l : Leb} {rest : Bytes}
    (hl : l.WF = true) (hd : data.drop pos = l.enc ++ rest) :
    Con.parse env data .uleb c pos = .ok (.int (l.v : Int), pos + l.n, c) := by
  simp only [Leb.WF, Bool.and_eq_true, decide_eq_true_eq] at hl
  have := parse_uleb_ok (env := env) (ctx := c) hd (encUlebN_valid l.n l.v hl.1)
  simp only [Leb.enc] at this
  rwa [ulebVal_enc_of_lt hl.2, encUlebN_length] at this

theorem FileEntry.enc_length (e : FileEntry) :
    e.enc.length = e.name.length + 1 + e.dir.n + e.mtime.n + e.len.n := by
  simp [FileEntry.enc, fileEntryBytes, Leb.enc, encUlebN_length]; omega

theorem parse_file_entry {env : Env} {data rest : Bytes} {pos : Nat} {c : Fields} (e : FileEntry)
    (hw : e.WF = true) (hd : data.drop pos = e.enc ++ rest) :
    Con.parse env data fileEntryCon c pos = .ok (e.obs, pos + e.enc.length, c) := by
  simp only [FileEntry.WF, Bool.and_eq_true, decide_eq_true_eq] at hw
  obtain ⟨⟨⟨⟨hne, hnz⟩, hdir⟩, hmt⟩, hln⟩ := hw
  have hnz' : ∀ b ∈ e.name, b ≠ 0 := by simpa [cstrOk] using hnz
  have h0 : data.drop pos = e.name ++ [0] ++ (e.dir.enc ++ (e.mtime.enc ++ (e.len.enc ++ rest))) := by
    simpa [FileEntry.enc, fileEntryBytes, List.append_assoc] using hd
  have h1 : data.drop (pos + e.name.length + 1) = e.dir.enc ++ (e.mtime.enc ++ (e.len.enc ++ rest)) := by
    have := drop_add_of_drop h0
    simpa [Nat.add_assoc] using this
  have h2 : data.drop (pos + e.name.length + 1 + e.dir.n) = e.mtime.enc ++ (e.len.enc ++ rest) := by
    have := drop_add_of_drop h1
    rwa [Leb.enc, encUlebN_length] at this
  have h3 : data.drop (pos + e.name.length + 1 + e.dir.n + e.mtime.n) = e.len.enc ++ rest := by
    have := drop_add_of_drop h2
    rwa [Leb.enc, encUlebN_length] at this
  have c0 := fun cx => parse_cstring_ok (env := env) (ctx := cx) hnz' h0
  have c1 := fun cx => parse_leb (env := env) (c := cx) hdir h1
  have c2 := fun cx => parse_leb (env := env) (c := cx) hmt h2
  have c3 := fun cx => parse_leb (env := env) (c := cx) hln h3
  have hemp : e.name.isEmpty = false := by cases hn : e.name with
    | nil => exact absurd hn hne
    | cons _ _ => rfl
  simp [fileEntryCon, st, mkFields, f, emb, ifc, ctx, parse_struct, parseFields_nil, parseFields_named,
    parseFields_emb, parseEmb_struct, parseEmb_ite, c0, c1, c2, c3,
    Expr.eval, Fields.set, Fields.getR, Fields.get?, Val.truthy, hemp, bind, Except.bind, pure, Except.pure,
    FileEntry.obs, FileEntry.enc_length]
  omega

theorem sp_file_entry {env : Env} {cfg : DwarfCfg} {data rest : Bytes} {pos : Nat} (e : FileEntry)
    (hw : e.WF = true) (hd : data.drop pos = e.enc ++ rest) :
    structParse env (Spec.dwarfStructs cfg).Dwarf_lineprog_file_entry data pos
      = .ok (e.obs, pos + e.enc.length) := by
  simp [structParse, S_file_entry, parse_file_entry (env := env) (c := []) e hw hd, bind, Except.bind, pure, Except.pure]

section
variable {env : Env} {cfg : DwarfCfg} {p : Params} {ver : Nat}

theorem stepOK_defineFile (hp : p.WF ver = true) (lk : Nat) (name : Bytes) (dir mtime len : Leb)
    (hw : (Instr.defineFile lk name dir mtime len).WF p ver = true) :
    StepOK env cfg p ver (.defineFile lk name dir mtime len) := by
  intro data rest off st files hd hfiles hsz
  simp only [Instr.WF, Bool.and_eq_true, decide_eq_true_eq] at hw
  obtain ⟨⟨⟨⟨⟨⟨hver, hne⟩, hnz⟩, hdir⟩, hmt⟩, hln⟩, hlk⟩ := hw
  have hew : (FileEntry.mk name dir mtime len).WF = true := by
    simp [FileEntry.WF, hne, hnz, hdir, hmt, hln, cstrOk]
  obtain ⟨fl, hfl⟩ : ∃ fl, files = some fl := by
    cases files with
    | none => simp at hfiles; omega
    | some fl => exact ⟨fl, rfl⟩
  obtain ⟨hs, hd1⟩ := ext_start (env := env) (cfg := cfg) (st := st) (files := files) hp
    (show data.drop off = encExt lk DW_LNE_define_file (fileEntryBytes name dir mtime len) ++ rest from hd)
  obtain ⟨L, hL, r1, r2, hd3⟩ := ext_reads (env := env) (le := cfg.le) hlk (by decide) hd1
  have r3 := sp_file_entry (env := env) (cfg := cfg) (FileEntry.mk name dir mtime len) hew
    (show data.drop (off + 1 + lk + 1) = (FileEntry.mk name dir mtime len).enc ++ rest from hd3)
  rw [hs]
  simp [stepExtended, S_uleb, S_u8, r1, r2, r3, asNat_nat, asNat_nonneg, specConsts, dw_consts, bind, Except.bind,
    StepPost, Instr.enc, encExt_length, definedFiles, toRow, stdStep, rowsOf, pure, Except.pure, hfl, FileEntry.enc]
  omega

end

/-! ### every instruction, then the whole loop -/

section
variable {env : Env} {cfg : DwarfCfg} {p : Params} {ver : Nat}

theorem stepOK_all (hp : p.WF ver = true) (hle : p.le = cfg.le) (hasz : p.asz = cfg.asz) (i : Instr)
    (hw : i.WF p ver = true) : StepOK env cfg p ver i := by
  cases i with
  | special op => exact stepOK_special hp op hw
  | copy => exact stepOK_copy hw
  | advancePc n => exact stepOK_advancePc hp n hw
  | advanceLine d => exact stepOK_advanceLine d hw
  | setFile n => exact stepOK_setFile n hw
  | setColumn n => exact stepOK_setColumn n hw
  | negateStmt => exact stepOK_negateStmt hw
  | setBasicBlock => exact stepOK_setBasicBlock hw
  | constAddPc => exact stepOK_constAddPc hp hw
  | fixedAdvancePc n => exact stepOK_fixedAdvancePc hle n hw
  | setPrologueEnd => exact stepOK_setPrologueEnd hw
  | setEpilogueBegin => exact stepOK_setEpilogueBegin hw
  | setIsa n => exact stepOK_setIsa n hw
  | unknownStd op args => exact stepOK_unknownStd hp op args hw
  | endSequence lk => exact stepOK_endSequence hp lk hw
  | setAddress lk a => exact stepOK_setAddress hp hle hasz lk a hw
  | defineFile lk name dir mtime len => exact stepOK_defineFile hp lk name dir mtime len hw
  | setDiscriminator lk d => exact stepOK_setDiscriminator hp lk d hw
  | unknownExt lk op payload => exact stepOK_unknownExt hp lk op payload hw

theorem enc_length_pos (p : Params) (i : Instr) : 1 ≤ (i.enc p).length := by
  cases i <;> simp [Instr.enc, encExt] <;> omega

theorem definedFiles_cons (i : Instr) (is : List Instr) :
    definedFiles (i :: is) = definedFiles [i] ++ definedFiles is := by
  cases i <;> simp [definedFiles]

theorem stdRunFrom_cons (p : Params) (r : Row) (i : Instr) (is : List Instr) :
    stdRunFrom p r (i :: is) = (stdStep p r i).2.toList ++ stdRunFrom p (stdStep p r i).1 is := by
  rw [stdRunFrom]
  rcases h : stdStep p r i with ⟨r', _ | row⟩ <;> simp

theorem decodeLoop_run (hp : p.WF ver = true) (hle : p.le = cfg.le) (hasz : p.asz = cfg.asz)
    (data : Bytes) (endOff : Nat) :
    ∀ (is : List Instr) (fuel off : Nat) (st : LineState) (files : Option (List Val)) (entries : List Entry)
      (rest : Bytes),
      (∀ i ∈ is, i.WF p ver = true) →
      data.drop off = encodeProgram p is ++ rest →
      endOff = off + (encodeProgram p is).length →
      (encodeProgram p is).length + 1 ≤ fuel →
      (ver ≤ 4 → files.isSome = true) →
      endOff ≤ ssizeMax →
      ∃ new, decodeLoop env (Spec.dwarfStructs cfg) specConsts data (hdrOf p) endOff fuel off st files entries
          = .ok (entries ++ new, files.map (· ++ (definedFiles is).map FileEntry.obs), endOff)
        ∧ rowsOf new = stdRunFrom p (toRow st) is := by
  intro is
  induction is with
  | nil =>
    intro fuel off st files entries rest _ _ hend hfuel _ _
    cases fuel with
    | zero => omega
    | succ fuel =>
      refine ⟨[], ?_, by simp [rowsOf, stdRunFrom]⟩
      have : ¬ off < endOff := by simp [encodeProgram] at hend; omega
      simp [decodeLoop, this, definedFiles]
      simp [encodeProgram] at hend; omega
  | cons i is ih =>
    intro fuel off st files entries rest hw hd hend hfuel hfiles hmax
    cases fuel with
    | zero => omega
    | succ fuel =>
      have hpos := enc_length_pos p i
      have hlen : (encodeProgram p (i :: is)).length = (i.enc p).length + (encodeProgram p is).length := by
        simp [encodeProgram]
      have hlt : off < endOff := by omega
      have hd0 : data.drop off = i.enc p ++ (encodeProgram p is ++ rest) := by
        simpa [encodeProgram, List.append_assoc] using hd
      have hstep := stepOK_all (env := env) hp hle hasz i (hw i (by simp)) data _ off st files hd0 hfiles (by omega)
      rw [decodeLoop, if_pos hlt]
      rcases hs : step env (Spec.dwarfStructs cfg) specConsts data (hdrOf p) off st files with e | ⟨off', st', files', new1⟩
      · rw [hs] at hstep; exact hstep.elim
      · rw [hs] at hstep
        obtain ⟨hoff, hfl, hrow, hrows⟩ := hstep
        have hd1 : data.drop off' = encodeProgram p is ++ rest := by
          rw [hoff]; exact drop_add_of_drop hd0
        have hfiles' : ver ≤ 4 → files'.isSome = true := by
          intro hv; rw [hfl]; simpa using hfiles hv
        obtain ⟨new2, h2, hr2⟩ := ih fuel off' st' files' (entries ++ new1) rest
          (fun j hj => hw j (by simp [hj])) hd1 (by omega) (by omega) hfiles' hmax
        refine ⟨new1 ++ new2, ?_, ?_⟩
        · show decodeLoop env (Spec.dwarfStructs cfg) specConsts data (hdrOf p) endOff fuel off' st' files'
              (entries ++ new1) = _
          rw [h2, hfl, definedFiles_cons i is]
          cases files <;> simp [List.append_assoc]
        · rw [rowsOf_append, hrows, hr2, hrow, stdRunFrom_cons]

end

/-! ### from the `LineProgram` object to the rows -/

/-- the `LineProgram` object the property prescribes for unit `(h, is)` placed at `off` -/
def lpOf (h : Header) (secs : StrSecs) (is : List Instr) (off : Nat) : LineProg :=
  { header := h.observe secs is,
    fileEntry := if h.version ≥ 5 then none else some (h.files.map FileEntry.obs),
    program_start_offset := off + headerSize h,
    program_end_offset := off + (encodeUnit h is).length,
    decoded := none }

theorem ofHeader_observe (h : Header) (secs : StrSecs) (is : List Instr) :
    Hdr.ofHeader (h.observe secs is) = .ok (hdrOf h.p) := by
  have hneg : ∀ n : Nat, ¬ ((n : Int) < 0) := fun n => by omega
  simp [Hdr.ofHeader, Header.observe, Val.getField, Val.getNat, Val.getInt, Fields.getR, Fields.get?, Val.asNat,
    Val.asInt, bind, Except.bind, pure, Except.pure, hdrOf, hneg]

theorem encInitLen_length (le fmt64 : Bool) (n : Nat) :
    (encInitLen le (initLenOf fmt64 n)).length = initLenSize fmt64 := by
  cases fmt64 <;> simp [encInitLen, initLenOf, initLenSize, encNat_length]

theorem encodeUnit_length (h : Header) (is : List Instr) :
    (encodeUnit h is).length = headerSize h + (encodeProgram h.p is).length := by
  simp [encodeUnit, headerSize, encInitLen_length]; omega

theorem drop_program (h : Header) (is : List Instr) (pre rest : Bytes) :
    (pre ++ encodeUnit h is ++ rest).drop (pre.length + headerSize h) = encodeProgram h.p is ++ rest := by
  have : pre ++ encodeUnit h is ++ rest
      = (pre ++ (encInitLen h.p.le (initLenOf h.fmt64 (h.mid ++ h.tail ++ encodeProgram h.p is).length)
          ++ (h.mid ++ h.tail))) ++ (encodeProgram h.p is ++ rest) := by
    simp [encodeUnit, List.append_assoc]
  rw [this]
  have hl : (pre ++ (encInitLen h.p.le (initLenOf h.fmt64 (h.mid ++ h.tail ++ encodeProgram h.p is).length)
          ++ (h.mid ++ h.tail))).length = pre.length + headerSize h := by
    simp [headerSize, encInitLen_length]; omega
  rw [← hl, List.drop_left]

theorem toRow_new (p : Params) : toRow (LineState.new (.int p.defaultIsStmt)) = Row.init p := by
  simp [toRow, LineState.new, Row.init, Val.truthy]

theorem decode_lpOf {env : Env} {cfg : DwarfCfg} (h : Header) (secs : StrSecs) (is : List Instr)
    (pre rest : Bytes) (hwf : unitWF h secs is = true) (hle : h.p.le = cfg.le) (hasz : h.p.asz = cfg.asz)
    (hsz : pre.length + (encodeUnit h is).length ≤ ssizeMax) :
    ∃ entries,
      decodeLineProgram env (Spec.dwarfStructs cfg) specConsts (pre ++ encodeUnit h is ++ rest)
          (lpOf h secs is pre.length)
        = .ok (entries,
               (lpOf h secs is pre.length).fileEntry.map (· ++ (definedFiles is).map FileEntry.obs),
               pre.length + (encodeUnit h is).length)
      ∧ rowsOf entries = stdRun h.p is := by
  simp only [unitWF, Bool.and_eq_true] at hwf
  obtain ⟨⟨hh, his⟩, _⟩ := hwf
  have hp : h.p.WF h.version = true := by
    simp only [Header.WF, Bool.and_eq_true] at hh
    exact hh.1.1.1.1.2
  have his' : ∀ i ∈ is, i.WF h.p h.version = true := by simpa [List.all_eq_true] using his
  have hfiles : h.version ≤ 4 → (lpOf h secs is pre.length).fileEntry.isSome = true := by
    intro hv
    have : ¬ h.version ≥ 5 := by omega
    simp [lpOf, this]
  obtain ⟨new, hrun, hrows⟩ := decodeLoop_run (env := env) (cfg := cfg) hp hle hasz
    (pre ++ encodeUnit h is ++ rest) (pre.length + (encodeUnit h is).length) is
    ((encodeProgram h.p is).length + 1) (pre.length + headerSize h)
    (LineState.new (.int h.p.defaultIsStmt)) (lpOf h secs is pre.length).fileEntry [] rest
    his' (drop_program h is pre rest) (by rw [encodeUnit_length]; omega) (by omega) hfiles hsz
  refine ⟨new, ?_, ?_⟩
  · have hfuel : pre.length + (encodeUnit h is).length - (pre.length + headerSize h) + 1
        = (encodeProgram h.p is).length + 1 := by rw [encodeUnit_length]; omega
    simp only [decodeLineProgram, lpOf, ofHeader_observe, bind, Except.bind, hdr_default_is_stmt]
    simp only [lpOf] at hrun
    rw [hfuel, hrun]
    simp
  · rw [hrows, toRow_new]; rfl

/-! ### `line_program_for_CU` and `_linetable_cache` -/

section
variable {env : Env} {S : DwarfStructs} {fmt : Nat} {secs : Secs} {data : Bytes}

theorem lineProgramForCU_some (cache : Cache) (attrs : Fields) (off : Nat)
    (h : Fields.get? attrs "DW_AT_stmt_list" = some (.int (off : Int))) :
    lineProgramForCU env S fmt secs data cache attrs
      = (match parseLineProgramAtOffset env S fmt secs data cache off with
         | .error e => .error e
         | .ok (lp, c) => .ok (some lp, c)) := by
  simp only [lineProgramForCU, h, asNat_nat, bind, Except.bind]
  cases parseLineProgramAtOffset env S fmt secs data cache off <;> rfl

theorem lineProgramForCU_none (cache : Cache) (attrs : Fields)
    (h : Fields.get? attrs "DW_AT_stmt_list" = none) :
    lineProgramForCU env S fmt secs data cache attrs = .ok (none, cache) := by
  simp [lineProgramForCU, h]

/-- every cached program is what parsing at its key gives -/
def CacheOK (env : Env) (S : DwarfStructs) (fmt : Nat) (secs : Secs) (data : Bytes) (cache : Cache) : Prop :=
  ∀ o lp, (o, lp) ∈ cache → parseLineProgramFresh env S fmt secs data o = .ok lp

theorem cacheOK_nil : CacheOK env S fmt secs data [] := by intro o lp h; cases h

theorem parseAt_coherent (cache : Cache) (off : Nat) (hc : CacheOK env S fmt secs data cache)
    (lp : LineProg) (cache' : Cache)
    (h : parseLineProgramAtOffset env S fmt secs data cache off = .ok (lp, cache')) :
    parseLineProgramFresh env S fmt secs data off = .ok lp ∧ CacheOK env S fmt secs data cache' := by
  unfold parseLineProgramAtOffset at h
  cases hf : cache.find? (·.1 == off) with
  | some ol =>
    obtain ⟨o, l⟩ := ol
    rw [hf] at h
    simp only [Except.ok.injEq, Prod.mk.injEq] at h
    obtain ⟨rfl, rfl⟩ := h
    have hmem := List.mem_of_find?_eq_some hf
    have hkey := List.find?_some hf
    have : o = off := by simpa using hkey
    subst this
    exact ⟨hc _ _ hmem, hc⟩
  | none =>
    rw [hf] at h
    cases hp : parseLineProgramFresh env S fmt secs data off with
    | error e => simp [hp, bind, Except.bind] at h
    | ok l =>
      simp only [hp, bind, Except.bind, pure, Except.pure, Except.ok.injEq, Prod.mk.injEq] at h
      obtain ⟨rfl, rfl⟩ := h
      refine ⟨rfl, ?_⟩
      intro o lp' hm
      rcases List.mem_append.1 hm with hm | hm
      · exact hc _ _ hm
      · simp only [List.mem_singleton, Prod.mk.injEq] at hm
        obtain ⟨rfl, rfl⟩ := hm
        exact hp

end

end PyElf.Proofs.Line
