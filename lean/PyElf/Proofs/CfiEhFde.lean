/-
  C06 helper lemmas: an `.eh_frame` FDE that is not in the cache (`fde_miss_eh`): the `.eh_frame` branch of
  `_parse_fde_header` (`fdeHeader_eh`), the augmentation-data / LSDA block of `_parse_entry_at`, and the
  conclusion `fdeMissOk : sec.wf → FdeMissOk sec env` for both section kinds.
-/
import PyElf.Proofs.CfiEntries
namespace PyElf.Proofs.Cfi
open PyElf PyElf.Spec PyElf.Model PyElf.Proofs

/-! ### the encodings a well-formed CIE records -/

theorem fdeEncOf_ok (asz : Nat) (items : List AugItem) (h : ∀ i ∈ items, AugItem.wf asz i = true) :
    encOk (fdeEncOf items) = true ∧ fdeEncOf items < 256 := by
  induction items with
  | nil => exact ⟨by decide, by decide⟩
  | cons i r ih =>
    have hr := ih (fun j hj => h j (List.mem_cons_of_mem _ hj))
    have hi := h i (List.mem_cons_self ..)
    cases i with
    | R e => simp only [AugItem.wf, Bool.and_eq_true, decide_eq_true_eq] at hi; exact hi
    | L e => exact hr
    | P e fn => exact hr
    | S => exact hr

theorem lsdaEncOf_ok (asz : Nat) (items : List AugItem) (h : ∀ i ∈ items, AugItem.wf asz i = true) :
    (encOk (lsdaEncOf items) = true ∨ lsdaEncOf items = 0xff) ∧ lsdaEncOf items < 256 := by
  induction items with
  | nil => exact ⟨.inr rfl, by decide⟩
  | cons i r ih =>
    have hr := ih (fun j hj => h j (List.mem_cons_of_mem _ hj))
    have hi := h i (List.mem_cons_self ..)
    cases i with
    | L e =>
      simp only [AugItem.wf, Bool.and_eq_true, decide_eq_true_eq, Bool.or_eq_true, beq_iff_eq] at hi
      exact hi
    | R e => exact hr
    | P e fn => exact hr
    | S => exact hr

theorem cie_items_wf (sec : Section) (c : Cie) (hw : c.wf sec = true) (items : List AugItem) (hau : c.aug = some items) :
    ∀ i ∈ items, AugItem.wf sec.asz i = true := by
  simp only [Cie.wf, Bool.and_eq_true] at hw
  have h := hw.1.1.1.2
  rw [hau] at h
  simp only [Bool.and_eq_true, List.all_eq_true] at h
  exact h.1.1.2

/-- the FDE and LSDA pointer encodings of a well-formed CIE: a known base, modifier none or pcrel (or no LSDA) -/
theorem cie_encs_ok (sec : Section) (c : Cie) (hw : c.wf sec = true) :
    (encOk c.fdeEnc = true ∧ c.fdeEnc < 256) ∧ ((encOk c.lsdaEnc = true ∨ c.lsdaEnc = 0xff) ∧ c.lsdaEnc < 256) := by
  unfold Cie.fdeEnc Cie.lsdaEnc
  cases hau : c.aug with
  | none => exact ⟨⟨by decide, by decide⟩, ⟨.inr rfl, by decide⟩⟩
  | some items =>
    have h := cie_items_wf sec c hw items hau
    exact ⟨fdeEncOf_ok sec.asz items h, lsdaEncOf_ok sec.asz items h⟩

theorem encOk_split {e : Nat} (h : encOk e = true) : baseOk e = true ∧ (e / 16 = 0 ∨ e / 16 = 1) := by
  simpa [encOk] using h

theorem encOk_ne_ff {e : Nat} (h : encOk e = true) : e ≠ 0xff := by
  intro he; subst he; revert h; decide

theorem dwarf_initlen_eq (le : Bool) (fmt asz ver : Nat) :
    (Spec.dwarfStructs ⟨le, fmt, asz, ver⟩).Dwarf_initial_length = .initialLength le := rfl
theorem dwarf_offset_eq (le : Bool) (fmt asz ver : Nat) :
    (Spec.dwarfStructs ⟨le, fmt, asz, ver⟩).Dwarf_offset = .uint (fmt / 8) le := rfl

theorem pe_omit : Spec.cfiTables.pe.omit_ = 0xff := rfl
theorem pe_absptr : Spec.cfiTables.pe.absptr = 0 := rfl
theorem pe_pcrel : Spec.cfiTables.pe.pcrel = 0x10 := rfl

/-! ### `_parse_fde_header`, `.eh_frame` branch -/

theorem fdeHeader_eh (sec : Section) (env : Env) (hwf : sec.wf = true) (hsz : (encodeSection sec).length < 2 ^ 63)
    (heh : sec.eh = true) (off : Nat) (f : Fde) (c : Cie) (hc : sec.cieAt f.cie = some c)
    (h64 : f.fmt64 = false) (hback : sec.offsetOf f.cie < off)
    (hptr : sec.ciePointer off f < 256 ^ 4)
    (hencok : encOk c.fdeEnc = true) (h256 : c.fdeEnc < 256)
    (hfl : ptrFits sec.asz (c.fdeEnc % 16) f.loc = true) (hfr : ptrFits sec.asz (c.fdeEnc % 16) f.range = true)
    (hlen : lenOk false (4 + (f.tail sec c).length) = true) (rest : Bytes)
    (hd : (encodeSection sec).drop off = encLength sec.le false (4 + (f.tail sec c).length) ++
        (encNat sec.le 4 (sec.ciePointer off f) ++ (encPtr sec.le sec.asz (c.fdeEnc % 16) f.loc ++
          (encPtr sec.le sec.asz (c.fdeEnc % 16) f.range ++ rest))))
    (fuel : Nat) (cache : Cache) (hinv : CacheInv sec cache) :
    parseFdeHeader (cfiOf sec env (encodeSection sec)) (parseEntryAt (cfiOf sec env (encodeSection sec)) (fuel + 1))
        (Spec.dwarfStructs ⟨sec.le, 32, sec.asz, 2⟩) 32 off cache
      = .ok (fdeFields sec off f c,
             off + 4 + 4 + (encPtr sec.le sec.asz (c.fdeEnc % 16) f.loc).length
               + (encPtr sec.le sec.asz (c.fdeEnc % 16) f.range).length,
             Kc (sec.offsetOf f.cie : Int) (mCie sec (sec.offsetOf f.cie) c) cache) := by
  obtain ⟨hbase, hmod⟩ := encOk_split hencok
  obtain ⟨cc, hcc⟩ := ptrCon_of_baseOk sec.le sec.asz c.fdeEnc hbase
  have hmin := sp_fde_min (env := env) hd hlen hptr
  have hd1 := drop_after hd (encLength_length ..)
  have hd2 := drop_after hd1 (encNat_length ..)
  have hd3 := drop_after hd2 rfl
  have hfull := sp_fde_full (env := env) (c := cc) hd hlen hptr
    (fun ctx => parse_ptr (env := env) (ctx := ctx) hcc hfl hd2) (fun ctx => parse_ptr (env := env) (ctx := ctx) hcc hfr hd3)
  have hil : ilfs false = 4 := rfl
  rw [hil] at hmin hfull
  have hlink := link_ok sec env hwf hsz off f c hc (fun _ => ⟨h64, hback⟩)
    [("length", .int ((4 + (f.tail sec c).length : Nat) : Int)), ("CIE_pointer", .int (sec.ciePointer off f))]
    (by simp (config := { decide := true }) [Fields.getR, Fields.get?]) fuel (off + 4 + 4) cache hinv
  have hfm : fmtOf f.fmt64 = 32 := by rw [h64]; rfl
  rw [hfm] at hlink
  have hdict : (match Fields.get? (augDictObs sec.le sec.asz c.aug) "FDE_encoding" with
     | some v => v.asNat | none => (Except.ok 0 : R Nat)) = .ok c.fdeEnc := dict_fdeEnc sec.le sec.asz c.aug
  have hne := encOk_ne_ff hencok
  have hm := and_f0_aux c.fdeEnc h256
  have hff : fdeFields sec off f c = [("length", Val.int ((4 + (f.tail sec c).length : Nat) : Int)),
      ("CIE_pointer", Val.int (sec.ciePointer off f)),
      ("initial_location", Val.int (f.loc + if c.fdeEnc / 16 % 8 = 1 then (sec.address : Int) + ((off + 4 + 4 : Nat) : Int) else 0)),
      ("address_range", Val.int f.range)] := by
    simp [fdeFields, h64, offSize, ilfs, fdeLocOff, fdeEncIn, heh, pcrelAdj]
  rw [hff]
  have hef := ehField_spec sec.le 32 sec.asz 2 _ cc hcc
  unfold parseFdeHeader
  simp only [cfiOf_eh, cfiOf_env, cfiOf_data, cfiOf_T, heh, Bool.not_true, Bool.false_eq_true, if_false,
    dwarf_initlen_eq, dwarf_offset_eq, show (32 / 8 : Nat) = 4 from rfl, hmin, asFields, bind, Except.bind, pure, Except.pure,
    hlink, mCie_augDict, pe_absptr, pe_omit, pe_pcrel]
  generalize hE : c.fdeEnc = E at *
  cases hg : Fields.get? (augDictObs sec.le sec.asz c.aug) "FDE_encoding" with
  | none =>
    simp only [hg, Except.ok.injEq] at hdict
    subst hdict
    simp only [hne, and_0F, hef, List.cons_append, List.nil_append, hfull, hm, if_false]
    simp
  | some v =>
    simp only [hg] at hdict
    simp only [hdict, hne, and_0F, hef, List.cons_append, List.nil_append, hfull, hm, if_false]
    rcases hmod with h0 | h1
    · simp (config := { decide := true }) [h0]
    · simp (config := { decide := true }) [h1, Fields.getR, Fields.get?, Fields.set, Val.asInt]

theorem drop_len_append {α} (a b : List α) (n : Nat) (h : a.length = n) : (a ++ b).drop n = b := by
  subst h; simp

/-! ### an `.eh_frame` FDE that is not in the cache -/

theorem fde_miss_eh (sec : Section) (env : Env) (hwf : sec.wf = true) (hsz : (encodeSection sec).length < 2 ^ 63)
    (heh : sec.eh = true) (i : Nat) (f : Fde) (c : Cie) (hi : sec.entries[i]? = some (.fde f))
    (hc : sec.cieAt f.cie = some c) (fuel pos : Nat) (cache : Cache) (hinv : CacheInv sec cache)
    (hmiss : cache.get (sec.offsetOf i : Int) = none) :
    ∃ cache', parseEntryAt (cfiOf sec env (encodeSection sec)) (fuel + 2) (sec.offsetOf i) pos cache
        = .ok (mFde sec (sec.offsetOf i) f c, sec.offsetOf i + Entry.size sec (.fde f), cache')
      ∧ CacheInv sec cache' := by
  have hw := wf_at sec hwf i _ hi
  have hj := cieAt_get hc
  have hwc : c.wf sec = true := wf_at sec hwf f.cie _ hj
  have hd := drop_offsetOf sec i _ hi
  have hle := offsetOf_succ_le sec hwf i (getElem?_lt hi)
  rw [offsetOf_succ sec i _ hi] at hle
  have hmodel : modelOf sec (sec.offsetOf i) (.fde f) = mFde sec (sec.offsetOf i) f c := by simp only [modelOf, hc]
  have hinvI : ∀ ch : Cache, CacheInv sec ch →
      CacheInv sec (((sec.offsetOf i : Int), mFde sec (sec.offsetOf i) f c) :: ch) :=
    fun ch h => by rw [← hmodel]; exact h.cons i (.fde f) hi (by simp)
  have hinvK : ∀ ch : Cache, CacheInv sec ch →
      CacheInv sec (Kc (sec.offsetOf f.cie : Int) (mCie sec (sec.offsetOf f.cie) c) ch) :=
    fun ch h => h.Kc f.cie (.cie c) hj (by simp)
  simp only [wfEntry, Fde.wf, hc, heh, if_true, Bool.and_eq_true, decide_eq_true_eq, Bool.not_eq_true', Bool.or_eq_true,
    beq_iff_eq] at hw
  obtain ⟨⟨⟨⟨⟨⟨⟨⟨⟨⟨h64, hback⟩, hfl⟩, hfr⟩, hlf⟩, hn⟩, hptr⟩, hal⟩, hins⟩, _⟩, hlen⟩ := hw
  obtain ⟨⟨hfe, hfe256⟩, ⟨hlok, hl256⟩⟩ := cie_encs_ok sec c hwc
  simp only [h64, offSize, Bool.false_eq_true, if_false] at hptr hlen
  have hlink := fun (hdr : Fields) (hp : Fields.getR hdr "CIE_pointer" = .ok (.int (sec.ciePointer (sec.offsetOf i) f)))
      (p : Nat) (ch : Cache) (h : CacheInv sec ch) =>
    link_ok sec env hwf hsz (sec.offsetOf i) f c hc (fun _ => ⟨h64, hback⟩) hdr hp fuel p ch h
  have hfm : fmtOf f.fmt64 = 32 := by rw [h64]; rfl
  rw [hfm] at hlink
  generalize hrest : encFrom sec (sec.offsetOf (i + 1)) (sec.entries.drop (i + 1)) = restS at hd
  have htail : f.tail sec c = encPtr sec.le sec.asz (c.fdeEnc % 16) f.loc ++ (encPtr sec.le sec.asz (c.fdeEnc % 16) f.range
      ++ (f.augPart sec c ++ encInstrs sec.le sec.asz f.instrs)) := by
    simp [Fde.tail, heh, List.append_assoc]
  have hd' : (encodeSection sec).drop (sec.offsetOf i) = encLength sec.le false (4 + (f.tail sec c).length) ++
      (encNat sec.le 4 (sec.ciePointer (sec.offsetOf i) f) ++ (encPtr sec.le sec.asz (c.fdeEnc % 16) f.loc ++
        (encPtr sec.le sec.asz (c.fdeEnc % 16) f.range ++ (f.augPart sec c ++ (encInstrs sec.le sec.asz f.instrs ++ restS))))) := by
    rw [hd]; simp only [Entry.enc, hc, h64, offSize, Bool.false_eq_true, if_false, List.append_assoc]; rw [htail]
    simp only [List.append_assoc]
  clear hd
  have hhdr := fdeHeader_eh sec env hwf hsz heh (sec.offsetOf i) f c hc h64 hback hptr hfe hfe256 hfl hfr hlen _ hd' fuel
    cache hinv
  have hsize : Entry.size sec (.fde f) = 4 + 4 + (f.tail sec c).length := by
    simp only [Entry.size, hc, h64, ilfs, offSize, Bool.false_eq_true, if_false]
  rw [hsize] at hle ⊢
  generalize hk : sec.offsetOf f.cie = k at *
  generalize sec.offsetOf i = off at *
  generalize hdata : encodeSection sec = data at *
  have hwords := entry_words (env := env) hd' hlen hptr
  have hw1 : structParse env (.uint 4 sec.le) data off = .ok (.int ((4 + (f.tail sec c).length : Nat) : Int), off + 4) := hwords.1
  have hw2 : structParse env (.uint 4 sec.le) data (off + 4) = .ok (.int (sec.ciePointer off f), off + 4 + 4) := hwords.2
  have hd1 := drop_after hd' (encLength_length ..)
  have hd2 := drop_after hd1 (encNat_length ..)
  have hd3 := drop_after hd2 rfl
  have hd4 := drop_after hd3 rfl
  rw [show ilfs false = 4 from rfl] at hd1 hd2 hd3 hd4
  have hbpos : 0 < 4 + (f.tail sec c).length := by omega
  obtain ⟨hz, hfmt⟩ := first_word sec.eh false _ hlen hbpos
  have hz' : (4 + (f.tail sec c).length == 0) = false := by simp
  have hfmt' : (if 4 + (f.tail sec c).length = 0xFFFFFFFF then 64 else 32 : Nat) = 32 := hfmt
  have hpne : (sec.ciePointer off f == 0) = false := by
    simp only [Section.ciePointer, heh, if_true, hk, h64, ilfs, Bool.false_eq_true, if_false, beq_eq_false_iff_ne]; omega
  have hoff : off < 2 ^ 63 := by omega
  have hfp : Fields.getR (fdeFields sec off f c) "CIE_pointer" = .ok (.int (sec.ciePointer off f)) := fdeFields_ptr ..
  have hflen : Fields.getR (fdeFields sec off f c) "length" = .ok (.int ((4 + (f.tail sec c).length : Nat) : Int)) := by
    simp [fdeFields, Fields.getR, Fields.get?, h64, offSize]
  have hinsw : ∀ x ∈ f.instrs, Cfa.wf sec.asz x = true := by simpa [List.all_eq_true] using hins
  have hil := instrs_length_le sec.le sec.asz f.instrs
  have htl : (f.tail sec c).length = (encPtr sec.le sec.asz (c.fdeEnc % 16) f.loc).length
      + (encPtr sec.le sec.asz (c.fdeEnc % 16) f.range).length + (f.augPart sec c).length
      + (encInstrs sec.le sec.asz f.instrs).length := by
    rw [htail]; simp only [List.length_append]; omega
  have hpi : ∀ P, P = off + 4 + 4 + (encPtr sec.le sec.asz (c.fdeEnc % 16) f.loc).length
        + (encPtr sec.le sec.asz (c.fdeEnc % 16) f.range).length + (f.augPart sec c).length →
      parseInstructions Spec.cfiTables (Spec.dwarfStructs ⟨sec.le, 32, sec.asz, 2⟩) env data
        (off + (4 + (f.tail sec c).length) + 4) (data.length + 1 - P) P
        = .ok (f.instrs.map toInstr, off + (4 + 4 + (f.tail sec c).length)) := by
    intro P hP
    have hdP : data.drop P = encInstrs sec.le sec.asz f.instrs ++ restS := by
      rw [hP]; exact drop_after hd4 rfl
    have := parseInstructions_ok (instrStructs_spec sec.le 32 sec.asz 2) env data f.instrs P (data.length + 1 - P) restS hdP
      hinsw (by omega)
    rw [show off + (4 + (f.tail sec c).length) + 4 = P + (encInstrs sec.le sec.asz f.instrs).length by omega,
      show off + (4 + 4 + (f.tail sec c).length) = P + (encInstrs sec.le sec.asz f.instrs).length by omega]
    exact this
  refine ⟨_, ?_, hinvI _ (hinvK _ (hinvK _ (hinvK _ hinv)))⟩
  rw [parseEntryAt]
  simp only [hmiss, seekPos_nat off hoff, cfiOf_structs, cfiOf_eh, cfiOf_data, cfiOf_env, cfiOf_T, bind, Except.bind, pure,
    Except.pure, the_u32_eq, hw1, asNat_nat, heh, hz', Bool.and_false, Bool.false_eq_true, if_false, hfmt',
    the_offset_eq, show (32 / 8 : Nat) = 4 from rfl, hw2, if_true, hpne, hhdr,
    hlink _ hfp _ _ (hinvK _ hinv), mCie_header, mCie_augDict, cieFields_aug, Option.getD]
  cases hau : c.aug with
  | none =>
    have hAP : f.augPart sec c = [] := by simp [Fde.augPart, heh, hau]
    have hL : c.lsdaEnc = 0xff := by simp [Cie.lsdaEnc, hau, lsdaEncOf]
    have hpiA := hpi (off + 4 + 4 + (encPtr sec.le sec.asz (c.fdeEnc % 16) f.loc).length
        + (encPtr sec.le sec.asz (c.fdeEnc % 16) f.range).length) (by rw [hAP]; simp)
    simp only [augString, List.isPrefixOf, augDictObs, Fields.get?, pe_omit, ne_eq, not_true_eq_false, if_false, hflen,
      asNat_nat, hpiA, hlink _ hfp _ _ (hinvK _ (hinvK _ hinv)), Bool.false_eq_true]
    have hmf : mFde sec off f c = Model.Entry.fde (fdeFields sec off f c) (List.map toInstr f.instrs) off (mCie sec k c) []
        none 32 := by
      simp [mFde, hk, hAP, hL, hfm]
    rw [hmf]
  | some items =>
    -- the augmentation data: the LSDA pointer, if the CIE gives it an encoding
    generalize hdd : (if c.lsdaEnc = 0xff then [] else encPtr sec.le sec.asz (c.lsdaEnc % 16) f.lsda : Bytes) = d at hal
    have hAP : f.augPart sec c = encUlebN f.augLenN d.length ++ d := by
      simp only [Fde.augPart, heh, if_true, hau, hdd]
    have hskip : fdeAugSkip sec f c = f.augLenN := by simp [fdeAugSkip, heh, hau]
    have hab : (f.augPart sec c).drop (fdeAugSkip sec f c) = d := by
      rw [hAP, hskip]; exact drop_len_append _ _ _ (encUlebN_length ..)
    rw [hAP, List.append_assoc] at hd4
    have hra := readAug_ok (C := cfiOf sec env data) (S := Spec.dwarfStructs ⟨sec.le, 32, sec.asz, 2⟩) heh rfl hn hal hd4
    have hd5 := drop_after hd4 (encUlebN_length ..)
    have hpiB := hpi (off + 4 + 4 + (encPtr sec.le sec.asz (c.fdeEnc % 16) f.loc).length
        + (encPtr sec.le sec.asz (c.fdeEnc % 16) f.range).length + f.augLenN + d.length)
      (by rw [hAP]; simp [encUlebN_length]; omega)
    have hdict : (match Fields.get? (augDictObs sec.le sec.asz c.aug) "LSDA_encoding" with
       | some v => v.asNat | none => (Except.ok 0xff : R Nat)) = .ok c.lsdaEnc := dict_lsdaEnc sec.le sec.asz c.aug
    rw [hau] at hdict
    simp only [augString, List.isPrefixOf, beq_self_eq_true, Bool.true_and, if_true, hra, pe_omit]
    have hlk3 := hlink _ hfp (off + (4 + 4 + (f.tail sec c).length)) _ (hinvK _ (hinvK _ hinv))
    -- no LSDA pointer: the data is empty
    have hnoL : c.lsdaEnc = 0xff → (if (255 : Nat) ≠ 255 then (Except.error Err.assertion : R Unit) else .ok ()) = .ok () →
        d = [] ∧ mFde sec off f c = Model.Entry.fde (fdeFields sec off f c) (List.map toInstr f.instrs) off (mCie sec k c) d
          none 32 := by
      intro hL _
      have hd0 : d = [] := by rw [← hdd, if_pos hL]
      refine ⟨hd0, ?_⟩
      simp [mFde, hk, hab, hL, hfm]
    cases hg : Fields.get? (augDictObs sec.le sec.asz (some items)) "LSDA_encoding" with
    | none =>
      simp only [hg, Except.ok.injEq] at hdict
      obtain ⟨hd0, hmf⟩ := hnoL hdict.symm rfl
      simp only [ne_eq, not_true_eq_false, if_false, hflen, asNat_nat, hpiB, hlk3]
      rw [hmf]
    | some v =>
      simp only [hg] at hdict
      simp only [hdict]
      by_cases hL : c.lsdaEnc = 0xff
      · obtain ⟨hd0, hmf⟩ := hnoL hL rfl
        simp only [hL, ne_eq, not_true_eq_false, if_false, hflen, asNat_nat, hpiB, hlk3]
        rw [hmf]
      · have hd0 : d = encPtr sec.le sec.asz (c.lsdaEnc % 16) f.lsda := by rw [← hdd, if_neg hL]
        have hlsda := lsda_ok (C := cfiOf sec env data) (le := sec.le) (fmt := 32) (asz := sec.asz) (ver := 2)
          (enc := c.lsdaEnc) (v := f.lsda) rfl (hlok.resolve_right hL) hl256 (hlf.resolve_left hL) (hd0 ▸ hd5)
        rw [← hd0] at hlsda
        have hmf : mFde sec off f c = Model.Entry.fde (fdeFields sec off f c) (List.map toInstr f.instrs) off (mCie sec k c) d
            (some (f.lsda + if c.lsdaEnc / 16 % 8 = 1 then (sec.address : Int)
              + ((off + 4 + 4 + (encPtr sec.le sec.asz (c.fdeEnc % 16) f.loc).length
                  + (encPtr sec.le sec.asz (c.fdeEnc % 16) f.range).length + f.augLenN : Nat) : Int) else 0)) 32 := by
          have hab' := hab
          rw [hskip] at hab'
          simp [mFde, hk, hab', hL, heh, fmtOf, pcrelAdj, fdeLsdaOff, fdeLocOff, fdeEncIn, hskip, h64, ilfs, offSize]
        simp only [ne_eq, hL, not_false_eq_true, if_true, Nat.add_sub_cancel, hlsda, cfiOf_address, hflen, asNat_nat, hpiB,
          hlk3]
        rw [hmf]

theorem fdeMissOk_eh (sec : Section) (env : Env) (hwf : sec.wf = true) (hsz : (encodeSection sec).length < 2 ^ 63)
    (heh : sec.eh = true) : FdeMissOk sec env :=
  fun i f c hi hc fuel pos cache hinv hmiss => fde_miss_eh sec env hwf hsz heh i f c hi hc fuel pos cache hinv hmiss

/-- both section kinds -/
theorem fdeMissOk (sec : Section) (env : Env) (hwf : sec.wf = true) (hsz : (encodeSection sec).length < 2 ^ 63) :
    FdeMissOk sec env := by
  cases heh : sec.eh with
  | false => exact fdeMissOk_df sec env hwf hsz heh
  | true => exact fdeMissOk_eh sec env hwf hsz heh

end PyElf.Proofs.Cfi
