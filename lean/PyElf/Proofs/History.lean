/-
  Helper lemmas for C10: the per-unit DIE cache (`_diemap` / `_dielist` with bisect insertion) refines the pure
  parse function, and every unit-level operation (child iteration with suspended generators, subtree iteration,
  the ancestor search) keeps the cache invariant.
-/
import PyElf.Model.History
import PyElf.Proofs.DwarfLookup
namespace PyElf.Proofs.C10
open PyElf PyElf.Model.Lookup PyElf.Model.C10 PyElf.Proofs.Lookup

/-! ### association lists -/

theorem assocGet_set_self {V} (d : List (Nat × V)) (k : Nat) (v : V) : assocGet? (assocSet d k v) k = some v := by
  induction d with
  | nil => simp [assocSet, assocGet?]
  | cons x xs ih =>
    obtain ⟨k', v'⟩ := x
    unfold assocSet
    by_cases h : k' = k
    · simp [h, assocGet?]
    · simp only [h, if_false]
      have hne : (k' == k) = false := by simp [h]
      have : assocGet? ((k', v') :: assocSet xs k v) k = assocGet? (assocSet xs k v) k := by
        simp [assocGet?, List.find?, hne]
      rw [this, ih]

theorem assocGet_set_other {V} (d : List (Nat × V)) (k k2 : Nat) (v : V) (h : k2 ≠ k) :
    assocGet? (assocSet d k v) k2 = assocGet? d k2 := by
  induction d with
  | nil => simp [assocSet, assocGet?, List.find?]; intro h'; exact absurd h'.symm h
  | cons x xs ih =>
    obtain ⟨k', v'⟩ := x
    unfold assocSet
    by_cases h1 : k' = k
    · subst h1
      have hne : (k' == k2) = false := by simp; exact fun h' => h h'.symm
      simp [assocGet?, List.find?, hne]
    · simp only [h1, if_false]
      by_cases h2 : k' = k2
      · simp [assocGet?, List.find?, h2]
      · have hne : (k' == k2) = false := by simp [h2]
        have e1 : assocGet? ((k', v') :: assocSet xs k v) k2 = assocGet? (assocSet xs k v) k2 := by
          simp [assocGet?, List.find?, hne]
        have e2 : assocGet? ((k', v') :: xs) k2 = assocGet? xs k2 := by
          simp [assocGet?, List.find?, hne]
        rw [e1, e2, ih]

/-! ### the DIE cache of one unit -/

/-- cache invariant of a `CompileUnit`: parallel arrays, offsets sorted, every cached DIE is the pure parse at its
    offset, and the first entry (if any) is the top DIE -/
structure UCore (PD : Nat → R DIE) (dieOff : Nat) (u : UnitCache) : Prop where
  par : u.diemap = u.dielist.map (·.offset)
  sorted : u.diemap.Pairwise (· ≤ ·)
  pure : ∀ d ∈ u.dielist, PD d.offset = .ok d
  top : u.diemap = [] ∨ u.diemap.head? = some dieOff

theorem ucore_empty (PD : Nat → R DIE) (dieOff pos : Nat) : UCore PD dieOff (UnitCache.empty pos) :=
  { par := rfl, sorted := List.Pairwise.nil, pure := fun d hd => by simp [UnitCache.empty] at hd, top := Or.inl rfl }

/-- the invariant does not mention the stream position, the parent links or the terminator links -/
theorem ucore_congr {PD : Nat → R DIE} {dieOff : Nat} {u u' : UnitCache} (h : UCore PD dieOff u)
    (h1 : u'.diemap = u.diemap) (h2 : u'.dielist = u.dielist) : UCore PD dieOff u' :=
  { par := by rw [h1, h2]; exact h.par, sorted := by rw [h1]; exact h.sorted,
    pure := by rw [h2]; exact h.pure, top := by rw [h1]; exact h.top }

section unit
variable {PD : Nat → R DIE} {dieOff : Nat}

/-- `get_top_DIE()` answers the pure parse at the unit's first DIE offset, whatever the cache holds -/
theorem getTopDIE_spec (hPo : ∀ o d, PD o = .ok d → d.offset = o) {u : UnitCache} (h : UCore PD dieOff u) :
    (getTopDIE PD dieOff u).1 = PD dieOff ∧ UCore PD dieOff (getTopDIE PD dieOff u).2 ∧
      (∀ t, PD dieOff = .ok t → (getTopDIE PD dieOff u).2.diemap.head? = some dieOff) := by
  unfold getTopDIE
  cases hm : u.diemap with
  | nil =>
    simp only
    cases hp : PD dieOff with
    | error e => exact ⟨rfl, h, fun t ht => by cases ht⟩
    | ok d =>
      have hdo := hPo _ _ hp
      have hl : u.dielist = [] := by
        have := h.par; rw [hm] at this
        exact List.map_eq_nil_iff.mp this.symm
      refine ⟨rfl, ?_, fun _ _ => by simp [pyInsert]⟩
      exact { par := by simp [pyInsert, hl, hdo], sorted := by simp [pyInsert],
              pure := by
                intro d' hd'
                simp [pyInsert, hl] at hd'
                subst hd'; rw [hdo]; exact hp,
              top := Or.inr (by simp [pyInsert]) }
  | cons k ks =>
    simp only
    have hpar := h.par
    rw [hm] at hpar
    cases hl : u.dielist with
    | nil => rw [hl] at hpar; simp at hpar
    | cons d ds =>
      rw [hl] at hpar
      simp at hpar
      have htop := h.top
      rw [hm] at htop
      simp at htop
      have hd : PD d.offset = .ok d := h.pure d (by rw [hl]; exact List.mem_cons_self)
      have hk : d.offset = dieOff := by rw [← hpar.1]; exact htop
      rw [hk] at hd
      simp only [List.getElem?_cons_zero]
      exact ⟨hd.symm, h, fun _ _ => by rw [hm]; simp [htop]⟩

theorem head_le_of_sorted {l : List Nat} {a : Nat} (hs : l.Pairwise (· ≤ ·)) (hh : l.head? = some a) :
    ∀ x ∈ l, a ≤ x := by
  cases l with
  | nil => simp at hh
  | cons y ys =>
    simp at hh; subst hh
    intro x hx
    rcases List.mem_cons.mp hx with rfl | hx
    · exact Nat.le_refl _
    · exact (List.pairwise_cons.mp hs).1 x hx

/-- `_get_cached_DIE(o)` for an offset not below the first DIE: the pure parse at `o` (after the pure parse of
    the top DIE, which `_get_cached_DIE` forces first), whatever the cache holds; the invariant is kept -/
theorem getCachedDIE_spec (hPo : ∀ o d, PD o = .ok d → d.offset = o) {u : UnitCache} (h : UCore PD dieOff u)
    {o : Nat} (hlow : dieOff ≤ o) :
    (getCachedDIE PD dieOff u o).1 = (PD dieOff >>= fun _ => PD o) ∧ UCore PD dieOff (getCachedDIE PD dieOff u o).2 := by
  obtain ⟨h1, h2, h3⟩ := getTopDIE_spec hPo h
  unfold getCachedDIE
  generalize hg : getTopDIE PD dieOff u = g at h1 h2 h3
  obtain ⟨r, u1⟩ := g
  simp only at h1 h2 h3
  cases r with
  | error e => simp only; rw [← h1]; exact ⟨rfl, h2⟩
  | ok t =>
    simp only
    rw [← h1]
    have hhead := h3 t h1.symm
    obtain ⟨i, hi, hsp⟩ := bisectRight_spec o (sortedKeys_of_pairwise h2.sorted)
    simp only [hi]
    -- the first key is dieOff ≤ o, so the insertion point is at least 1
    have hne : u1.diemap ≠ [] := by intro hn; rw [hn] at hhead; simp at hhead
    have hlen0 : 0 < u1.diemap.length := List.length_pos_iff.mpr hne
    have hk0 : u1.diemap[0]? = some dieOff := by
      cases hm : u1.diemap with
      | nil => exact absurd hm hne
      | cons a as => rw [hm] at hhead; simpa using hhead
    have hi1 : 1 ≤ i := by
      by_cases hi0 : 1 ≤ i
      · exact hi0
      · have := hsp.2.2 0 dieOff (by omega) hk0
        omega
    have hi0 : ¬ i = 0 := by omega
    simp only [hi0, if_false]
    have hlen : i - 1 < u1.diemap.length := by have := hsp.1; omega
    have hget : u1.diemap[i - 1]? = some u1.diemap[i - 1] := List.getElem?_eq_getElem hlen
    rw [hget]
    simp only
    have hlen2 : i - 1 < u1.dielist.length := by
      have := congrArg List.length h2.par; simp at this; omega
    by_cases heq : o = u1.diemap[i - 1]
    · simp only [heq, if_true]
      rw [List.getElem?_eq_getElem hlen2]
      simp only
      have hm : u1.dielist[i - 1] ∈ u1.dielist := List.getElem_mem hlen2
      have hoff : u1.dielist[i - 1].offset = u1.diemap[i - 1] := by
        have e : u1.diemap[i - 1]? = (u1.dielist.map (·.offset))[i - 1]? := by rw [← h2.par]
        rw [hget, List.getElem?_map, List.getElem?_eq_getElem hlen2] at e
        simp at e
        exact e.symm
      have hp := h2.pure _ hm
      rw [hoff] at hp
      refine ⟨?_, h2⟩
      simp [bind, Except.bind, hp]
    · simp only [heq, if_false]
      cases hp : PD o with
      | error e => exact ⟨by simp [bind, Except.bind], h2⟩
      | ok d =>
        have hdo := hPo _ _ hp
        refine ⟨by simp [bind, Except.bind], ?_⟩
        exact { par := by simp [pyInsert, h2.par, List.map_take, List.map_drop, hdo],
                sorted := pairwise_pyInsert h2.sorted hsp,
                pure := by
                  intro d' hd'
                  rcases (mem_pyInsert _ _ _ _).mp hd' with rfl | hd'
                  · rw [hdo]; exact hp
                  · exact h2.pure d' hd',
                top := by
                  right
                  show (pyInsert u1.diemap i o).head? = some dieOff
                  unfold pyInsert
                  cases hm : u1.diemap with
                  | nil => exact absurd hm hne
                  | cons a as =>
                    rw [hm] at hhead
                    obtain ⟨i', rfl⟩ : ∃ i', i = i' + 1 := ⟨i - 1, by omega⟩
                    simpa using hhead }

/-- `get_DIE_from_refaddr` on a unit -/
theorem unitDIEFromRefaddr_spec (hPo : ∀ o d, PD o = .ok d → d.offset = o) {u : UnitCache} (h : UCore PD dieOff u)
    (cuEnd o : Nat) :
    (unitDIEFromRefaddr PD dieOff cuEnd u o).1
        = (if dieOff ≤ o ∧ o < cuEnd then (PD dieOff >>= fun _ => PD o) else .error .dwarfError) ∧
      UCore PD dieOff (unitDIEFromRefaddr PD dieOff cuEnd u o).2 := by
  unfold unitDIEFromRefaddr
  by_cases hc : dieOff ≤ o ∧ o < cuEnd
  · simp only [hc, and_self, if_true]
    exact getCachedDIE_spec hPo h hc.1
  · simp only [hc, if_false]
    exact ⟨by trivial, h⟩

/-- `_get_cached_DIE` keeps the invariant for EVERY offset, provided nothing parses below the first DIE -/
theorem getCachedDIE_core (hPo : ∀ o d, PD o = .ok d → d.offset = o) (hlowP : ∀ o d, PD o = .ok d → dieOff ≤ o)
    {u : UnitCache} (h : UCore PD dieOff u) (o : Nat) : UCore PD dieOff (getCachedDIE PD dieOff u o).2 := by
  by_cases hlow : dieOff ≤ o
  · exact (getCachedDIE_spec hPo h hlow).2
  · have hpe : ∀ d, PD o ≠ .ok d := fun d hd => hlow (hlowP o d hd)
    obtain ⟨_, h2, _⟩ := getTopDIE_spec hPo h
    unfold getCachedDIE
    generalize getTopDIE PD dieOff u = g at h2
    obtain ⟨r, u1⟩ := g
    cases r with
    | error e => exact h2
    | ok t =>
      simp only
      split
      · exact h2
      · split
        · exact h2
        · split
          · split <;> exact h2
          · split
            · exact h2
            · rename_i d hd; exact absurd hd (hpe d)

/-- a nested iteration that keeps the invariant -/
def DrainCore (PD : Nat → R DIE) (dieOff : Nat) (D : Drain) : Prop :=
  ∀ it u acc, UCore PD dieOff u → UCore PD dieOff (D it u acc).2

theorem nextCur_core {D : Drain} (hD : DrainCore PD dieOff D) (it : ChildIter) {u : UnitCache} (h : UCore PD dieOff u) :
    UCore PD dieOff (nextCur D it u).2 := by
  unfold nextCur
  split
  · exact h
  · split
    · exact h
    · split
      · exact h
      · split
        · exact h
        · rename_i child _ _ _ _ _ _
          have := hD (ChildIter.new child) u [] h
          split
          · rename_i heq; rw [heq] at this; exact this
          · rename_i heq; rw [heq] at this
            split <;> exact this

theorem childStep_core (hPo : ∀ o d, PD o = .ok d → d.offset = o) (hlowP : ∀ o d, PD o = .ok d → dieOff ≤ o)
    {D : Drain} (hD : DrainCore PD dieOff D) (it : ChildIter) {u : UnitCache} (h : UCore PD dieOff u) :
    UCore PD dieOff (childStep PD dieOff D it u).2.2 := by
  unfold childStep
  split
  · exact h
  · split
    · exact h
    · have h1 := nextCur_core hD it h
      split
      · rename_i heq; rw [heq] at h1; exact h1
      · rename_i cur u1 heq
        rw [heq] at h1
        have h2 := getCachedDIE_core hPo hlowP h1 cur
        split
        · rename_i heq2; rw [heq2] at h2; exact h2
        · rename_i child u2 heq2
          rw [heq2] at h2
          simp only
          split
          · exact ucore_congr h2 rfl rfl
          · exact ucore_congr h2 rfl rfl

/-- every `next()` of a child iterator and every full iteration keeps the cache invariant -/
theorem childNext_drain_core (hPo : ∀ o d, PD o = .ok d → d.offset = o) (hlowP : ∀ o d, PD o = .ok d → dieOff ≤ o) :
    ∀ fuel, (∀ it u, UCore PD dieOff u → UCore PD dieOff (childNext PD dieOff fuel it u).2.2) ∧
            (∀ it u acc, UCore PD dieOff u → UCore PD dieOff (drain PD dieOff fuel it u acc).2) := by
  intro fuel
  induction fuel with
  | zero => exact ⟨fun it u h => by simpa [childNext] using h, fun it u acc h => by simpa [drain] using h⟩
  | succ fuel ih =>
    constructor
    · intro it u h
      rw [childNext]
      exact childStep_core hPo hlowP (fun it u acc h => ih.2 it u acc h) it h
    · intro it u acc h
      rw [drain]
      have h1 := ih.1 it u h
      split
      · rename_i heq; rw [heq] at h1; exact h1
      · rename_i heq; rw [heq] at h1; exact h1
      · rename_i heq; rw [heq] at h1; exact ih.2 _ _ _ h1

theorem childNext_core (hPo : ∀ o d, PD o = .ok d → d.offset = o) (hlowP : ∀ o d, PD o = .ok d → dieOff ≤ o)
    (fuel : Nat) (it : ChildIter) {u : UnitCache} (h : UCore PD dieOff u) :
    UCore PD dieOff (childNext PD dieOff fuel it u).2.2 := (childNext_drain_core hPo hlowP fuel).1 it u h

theorem drain_core (hPo : ∀ o d, PD o = .ok d → d.offset = o) (hlowP : ∀ o d, PD o = .ok d → dieOff ≤ o)
    (fuel : Nat) (it : ChildIter) (acc : List DIE) {u : UnitCache} (h : UCore PD dieOff u) :
    UCore PD dieOff (drain PD dieOff fuel it u acc).2 := (childNext_drain_core hPo hlowP fuel).2 it u acc h

/-- one `next()` of an `iter_DIEs()` generator keeps the invariant -/
theorem subNext_core (hPo : ∀ o d, PD o = .ok d → d.offset = o) (hlowP : ∀ o d, PD o = .ok d → dieOff ≤ o) :
    ∀ fuel stack u, UCore PD dieOff u → UCore PD dieOff (subNext PD dieOff fuel stack u).2.2 := by
  intro fuel
  induction fuel with
  | zero => intro stack u h; simpa [subNext] using h
  | succ fuel ih =>
    intro stack u h
    cases stack with
    | nil => simpa [subNext] using h
    | cons fr rest =>
      rw [subNext]
      split
      · exact h
      · split
        · exact ih rest u h
        · have h1 := childNext_core hPo hlowP fuel fr.ci h
          split
          · rename_i heq; rw [heq] at h1; exact h1
          · rename_i heq; rw [heq] at h1; exact h1
          · rename_i heq; rw [heq] at h1
            split <;> exact h1

theorem foldl_parent_core {u : UnitCache} (h : UCore PD dieOff u) (search : DIE) (cs : List DIE) :
    UCore PD dieOff (cs.foldl (fun u c => { u with parent := assocSet u.parent c.offset search }) u) := by
  induction cs generalizing u with
  | nil => exact h
  | cons c cs ih => exact ih (ucore_congr h rfl rfl)

/-- the ancestor search keeps the invariant -/
theorem searchLoop_core (hPo : ∀ o d, PD o = .ok d → d.offset = o) (hlowP : ∀ o d, PD o = .ok d → dieOff ≤ o)
    (self : DIE) : ∀ fuel search u, UCore PD dieOff u → UCore PD dieOff (searchLoop PD dieOff self fuel search u).2 := by
  intro fuel
  induction fuel with
  | zero => intro search u h; simpa [searchLoop] using h
  | succ fuel ih =>
    intro search u h
    rw [searchLoop]
    split
    · have h1 := drain_core hPo hlowP fuel (ChildIter.new search) [] h
      split
      · rename_i heq; rw [heq] at h1; exact h1
      · rename_i children u1 heq
        rw [heq] at h1
        have h2 := foldl_parent_core h1 search children
        simp only
        split
        · exact h2
        · split
          · exact h2
          · exact ih _ _ h2
    · exact h

/-- `get_parent()` keeps the invariant -/
theorem getParent_core (hPo : ∀ o d, PD o = .ok d → d.offset = o) (hlowP : ∀ o d, PD o = .ok d → dieOff ≤ o)
    (fuel : Nat) (self : DIE) {u : UnitCache} (h : UCore PD dieOff u) :
    UCore PD dieOff (getParent PD dieOff fuel self u).2 := by
  unfold getParent
  split
  · exact h
  · obtain ⟨_, h1, _⟩ := getTopDIE_spec hPo h
    split
    · rename_i heq; rw [heq] at h1; exact h1
    · rename_i top u1 heq
      rw [heq] at h1
      have h2 := searchLoop_core hPo hlowP self fuel top u1 h1
      split
      · rename_i heq2; rw [heq2] at h2; exact h2
      · rename_i heq2; rw [heq2] at h2; exact h2

/-- the filtered walk of `iter_siblings` keeps the invariant -/
theorem sibSkip_core (hPo : ∀ o d, PD o = .ok d → d.offset = o) (hlowP : ∀ o d, PD o = .ok d → dieOff ≤ o)
    (fuel : Nat) (self : DIE) : ∀ n ci u, UCore PD dieOff u → UCore PD dieOff (sibSkip PD dieOff fuel self n ci u).2.2 := by
  intro n
  induction n with
  | zero => intro ci u h; simpa [sibSkip] using h
  | succ n ih =>
    intro ci u h
    rw [sibSkip]
    have h1 := childNext_core hPo hlowP fuel ci h
    split
    · rename_i heq; rw [heq] at h1; exact h1
    · rename_i heq; rw [heq] at h1; exact h1
    · rename_i heq; rw [heq] at h1
      split
      · exact ih _ _ h1
      · exact h1

/-- every `next()` of an `iter_siblings()` generator keeps the invariant -/
theorem sibNext_core (hPo : ∀ o d, PD o = .ok d → d.offset = o) (hlowP : ∀ o d, PD o = .ok d → dieOff ≤ o)
    (fuel : Nat) (self : DIE) (ci : Option ChildIter) {u : UnitCache} (h : UCore PD dieOff u) :
    UCore PD dieOff (sibNext PD dieOff fuel self ci u).2.2 := by
  unfold sibNext
  split
  · exact sibSkip_core hPo hlowP fuel self _ _ _ h
  · have h1 := getParent_core hPo hlowP fuel self h
    split
    · rename_i heq; rw [heq] at h1; exact h1
    · rename_i heq; rw [heq] at h1; exact h1
    · rename_i heq; rw [heq] at h1
      exact sibSkip_core hPo hlowP fuel self _ _ _ h1

end unit

/-! ### the whole object -/

/-- what the cache logic needs of the pure side of a file: parse results carry the offset they were parsed at,
    the section is the units `cs` back to back, and nothing parses as a DIE below a unit's first DIE -/
structure FileWF (F : File) (cs : List CU) : Prop where
  cuOff : ∀ o c, F.parseCU o = .ok c → c.cuOffset = o
  chain : Chain F.parseCU F.size 0 cs
  dieOff : ∀ cu o d, F.parseDIE cu o = .ok d → d.offset = o
  dieLow : ∀ c ∈ cs, ∀ o d, F.parseDIE c.cuOffset o = .ok d → c.cuDieOffset ≤ o

/-- a position of the `_parse_CUs_iter` loop: the end of the section or the start of a unit -/
def ChainPos (F : File) (cs : List CU) (o : Nat) : Prop := o = F.size ∨ ∃ c ∈ cs, c.cuOffset = o

def IterOK (F : File) (cs : List CU) : Iter → Prop
  | .cus o d => d = true ∨ ChainPos F cs o
  | _ => True

/-- the invariant of the live object -/
structure Inv (F : File) (cs : List CU) (st : State) : Prop where
  cu : Lookup.Inv F.parseCU cs st.cus
  units : ∀ k u, assocGet? st.units k = some u → ∀ c ∈ cs, c.cuOffset = k → UCore (F.parseDIE k) c.cuDieOffset u
  sec : st.secMap = none ∨ st.secMap = some (buildSecMap F.secNames)
  sym : st.symMap = none ∨ st.symMap = some (buildSymMap F.symNames)
  iters : ∀ it ∈ st.iters, IterOK F cs it

theorem inv_init (F : File) (cs : List CU) : Inv F cs State.init :=
  { cu := inv_empty _ _, units := fun k u h => by simp [State.init, assocGet?] at h,
    sec := Or.inl rfl, sym := Or.inl rfl, iters := fun it h => by simp [State.init] at h }

section state
variable {F : File} {cs : List CU}

theorem unit_unique (wf : FileWF F cs) {c c' : CU} (hc : c ∈ cs) (hc' : c' ∈ cs) (h : c'.cuOffset = c.cuOffset) : c' = c := by
  have h1 := (chain_mem wf.cuOff cs 0 wf.chain c hc).2.1
  have h2 := (chain_mem wf.cuOff cs 0 wf.chain c' hc').2.1
  rw [h, h1] at h2
  injection h2 with h2
  exact h2.symm

theorem unitOf_core (hinv : Inv F cs st) {c : CU} (hc : c ∈ cs) :
    UCore (F.parseDIE c.cuOffset) c.cuDieOffset (unitOf st c.cuOffset) := by
  unfold unitOf
  cases hg : assocGet? st.units c.cuOffset with
  | none => exact ucore_empty _ _ _
  | some u => exact ucore_congr (hinv.units _ u hg c hc rfl) rfl rfl

theorem putUnit_inv (wf : FileWF F cs) (hinv : Inv F cs st) {c : CU} (hc : c ∈ cs) {u : UnitCache}
    (hu : UCore (F.parseDIE c.cuOffset) c.cuDieOffset u) : Inv F cs (putUnit st c.cuOffset u) :=
  { cu := hinv.cu
    units := by
      intro k u' hg c' hc' hk
      by_cases hkk : k = c.cuOffset
      · subst hkk
        have : c' = c := unit_unique wf hc hc' hk
        subst this
        simp only [putUnit] at hg
        rw [assocGet_set_self] at hg
        injection hg with hg
        rw [← hg]; exact hu
      · simp only [putUnit] at hg
        rw [assocGet_set_other _ _ _ _ hkk] at hg
        exact hinv.units k u' hg c' hc' hk
    sec := hinv.sec, sym := hinv.sym, iters := hinv.iters }

theorem withCU_inv (hinv : Inv F cs st) (r : R CU × CUCache) (hr : Lookup.Inv F.parseCU cs r.2) :
    Inv F cs (withCU st r).2 :=
  { cu := hr, units := hinv.units, sec := hinv.sec, sym := hinv.sym, iters := hinv.iters }

/-- a unit-level action that keeps the unit invariant keeps the object invariant -/
theorem inUnit_inv {α} (wf : FileWF F cs) (hinv : Inv F cs st) {c : CU} (hc : c ∈ cs) (f : UnitCache → R α × UnitCache)
    (hf : ∀ u, UCore (F.parseDIE c.cuOffset) c.cuDieOffset u → UCore (F.parseDIE c.cuOffset) c.cuDieOffset (f u).2) :
    Inv F cs (inUnit st c f).2 :=
  putUnit_inv wf hinv hc (hf _ (unitOf_core hinv hc))

/-- `get_CU_at` at a unit start: that unit, invariant kept -/
theorem getCUAt'_valid (wf : FileWF F cs) (hinv : Inv F cs st) {c : CU} (hc : c ∈ cs) :
    (getCUAt' F st c.cuOffset).1 = .ok c ∧ Inv F cs (getCUAt' F st c.cuOffset).2 := by
  obtain ⟨st', hr, hinv'⟩ := getCUAt_exact wf.cuOff wf.chain hinv.cu hc
  unfold getCUAt'
  refine ⟨by simp [withCU, hr], ?_⟩
  exact withCU_inv hinv _ (by rw [hr]; exact hinv')

/-- `get_CU_containing` inside the section: THE unit whose extent contains the offset -/
theorem getCUCont'_valid (wf : FileWF F cs) (hinv : Inv F cs st) {x : Nat} (hx : x < F.size) :
    ∃ c sz, (getCUCont' F st x).1 = .ok c ∧ c ∈ cs ∧ c.size = .ok sz ∧ c.cuOffset ≤ x ∧ x < c.cuOffset + sz ∧
      Inv F cs (getCUCont' F st x).2 := by
  obtain ⟨c, sz, st', hr, hc, hsz, h1, h2, hinv'⟩ := getCUContaining_spec wf.cuOff wf.chain hinv.cu hx
  refine ⟨c, sz, by simp [getCUCont', withCU, hr], hc, hsz, h1, h2, ?_⟩
  unfold getCUCont'
  exact withCU_inv hinv _ (by rw [hr]; exact hinv')

/-- the unit containing an offset is determined by the file alone -/
theorem containing_unique (wf : FileWF F cs) {c c' : CU} {sz sz' x : Nat} (hc : c ∈ cs) (hc' : c' ∈ cs)
    (hsz : c.size = .ok sz) (hsz' : c'.size = .ok sz') (h1 : c.cuOffset ≤ x) (h2 : x < c.cuOffset + sz)
    (h3 : c'.cuOffset ≤ x) (h4 : x < c'.cuOffset + sz') : c = c' :=
  chain_unique wf.cuOff cs 0 wf.chain c hc c' hc' sz sz' x hsz hsz' h1 h2 h3 h4

theorem cuEnd_eq {c : CU} {sz : Nat} (hsz : c.size = .ok sz) : cuEnd c = .ok (c.cuOffset + sz) := by
  simp [cuEnd, hsz, bind, Except.bind, pure, Except.pure]

/-- the pure meaning of "the DIE at `off` in unit `c`": `_get_cached_DIE` forces the top DIE first -/
def pureDIE (F : File) (c : CU) (off : Nat) : R DIE :=
  F.parseDIE c.cuOffset c.cuDieOffset >>= fun _ => F.parseDIE c.cuOffset off

/-- `CompileUnit.get_DIE_from_refaddr` on the pure side -/
def pureRefaddr (F : File) (c : CU) (sz off : Nat) : R DIE :=
  if c.cuDieOffset ≤ off ∧ off < c.cuOffset + sz then pureDIE F c off else .error .dwarfError

theorem inUnit_top (wf : FileWF F cs) (hinv : Inv F cs st) {c : CU} (hc : c ∈ cs) :
    (inUnit st c (getTopDIE (F.parseDIE c.cuOffset) c.cuDieOffset)).1 = F.parseDIE c.cuOffset c.cuDieOffset ∧
      Inv F cs (inUnit st c (getTopDIE (F.parseDIE c.cuOffset) c.cuDieOffset)).2 := by
  refine ⟨?_, inUnit_inv wf hinv hc _ (fun u hu => (getTopDIE_spec (wf.dieOff _) hu).2.1)⟩
  exact (getTopDIE_spec (wf.dieOff _) (unitOf_core hinv hc)).1

theorem inUnit_refaddr (wf : FileWF F cs) (hinv : Inv F cs st) {c : CU} (hc : c ∈ cs) (e off : Nat) :
    (inUnit st c (fun u => unitDIEFromRefaddr (F.parseDIE c.cuOffset) c.cuDieOffset e u off)).1
        = (if c.cuDieOffset ≤ off ∧ off < e then pureDIE F c off else .error .dwarfError) ∧
      Inv F cs (inUnit st c (fun u => unitDIEFromRefaddr (F.parseDIE c.cuOffset) c.cuDieOffset e u off)).2 := by
  refine ⟨?_, inUnit_inv wf hinv hc _ (fun u hu => (unitDIEFromRefaddr_spec (wf.dieOff _) hu e off).2)⟩
  exact (unitDIEFromRefaddr_spec (wf.dieOff _) (unitOf_core hinv hc) e off).1

/-- `get_CU_at(cu).get_DIE_from_refaddr(off)` -/
theorem dieAt_spec (wf : FileWF F cs) (hinv : Inv F cs st) {c : CU} (hc : c ∈ cs) {sz : Nat} (hsz : c.size = .ok sz)
    (off : Nat) :
    (dieAt F st c.cuOffset off).1 = (pureRefaddr F c sz off).map (fun d => (c, d)) ∧
      Inv F cs (dieAt F st c.cuOffset off).2 := by
  obtain ⟨h1, h2⟩ := getCUAt'_valid wf hinv hc
  unfold dieAt
  generalize getCUAt' F st c.cuOffset = g at h1 h2
  obtain ⟨r, st1⟩ := g
  simp only at h1 h2
  subst h1
  simp only [cuEnd_eq hsz]
  obtain ⟨h3, h4⟩ := inUnit_refaddr wf h2 hc (c.cuOffset + sz) off
  generalize inUnit st1 c (fun u => unitDIEFromRefaddr (F.parseDIE c.cuOffset) c.cuDieOffset (c.cuOffset + sz) u off) = g2 at h3 h4
  obtain ⟨r2, st2⟩ := g2
  simp only at h3 h4
  unfold pureRefaddr
  rw [← h3]
  cases r2 <;> exact ⟨rfl, h4⟩

theorem mem_size (wf : FileWF F cs) {c : CU} (hc : c ∈ cs) : ∃ sz, c.size = .ok sz ∧ 0 < sz ∧ c.cuOffset + sz ≤ F.size := by
  obtain ⟨_, _, sz, h1, h2, h3⟩ := chain_mem wf.cuOff cs 0 wf.chain c hc
  exact ⟨sz, h1, h2, h3⟩

/-- after a unit comes the end of the section or the next unit -/
theorem chain_next {P : Nat → R CU} {size : Nat} (hPo : ∀ o c, P o = .ok c → c.cuOffset = o) :
    ∀ (cs : List CU) (o : Nat), Chain P size o cs → ∀ c ∈ cs, ∀ sz, c.size = .ok sz →
      c.cuOffset + sz = size ∨ ∃ c' ∈ cs, c'.cuOffset = c.cuOffset + sz := by
  intro cs
  induction cs with
  | nil => intro o _ c hc; cases hc
  | cons d cs ih =>
    intro o hch c hc sz hsz
    obtain ⟨hos, hP, szd, hszd, hpos, hrest⟩ := hch
    rcases List.mem_cons.mp hc with rfl | hc
    · have hco : c.cuOffset = o := hPo o c hP
      rw [hsz] at hszd; injection hszd with hszd; subst hszd
      cases cs with
      | nil => left; simp [Chain] at hrest; omega
      | cons e es =>
        right
        refine ⟨e, by simp, ?_⟩
        rw [hco]; exact hPo _ _ hrest.2.1
    · rcases ih (o + szd) hrest c hc sz hsz with h | ⟨c', hc', h⟩
      · exact Or.inl h
      · exact Or.inr ⟨c', List.mem_cons_of_mem _ hc', h⟩

theorem chainPos_zero (wf : FileWF F cs) : ChainPos F cs 0 := by
  have := wf.chain
  cases cs with
  | nil => left; simpa [Chain] using this
  | cons c cs => right; exact ⟨c, by simp, wf.cuOff _ _ this.2.1⟩

/-- which generator kinds name units of the file -/
def KindValid (cs : List CU) : IterKind → Prop
  | .cus => True
  | .dies cu => ∃ c ∈ cs, c.cuOffset = cu
  | .children cu _ => ∃ c ∈ cs, c.cuOffset = cu
  | .siblings cu _ => ∃ c ∈ cs, c.cuOffset = cu

theorem newIter_inv (wf : FileWF F cs) (hinv : Inv F cs st) {k : IterKind} (hk : KindValid cs k) :
    Inv F cs (newIter F st k).2 ∧ ∀ it, (newIter F st k).1 = .ok it → IterOK F cs it := by
  cases k with
  | cus =>
    refine ⟨hinv, ?_⟩
    intro it h
    simp [newIter] at h
    subst h
    exact Or.inr (chainPos_zero wf)
  | dies cu =>
    obtain ⟨c, hc, rfl⟩ := hk
    obtain ⟨h1, h2⟩ := getCUAt'_valid wf hinv hc
    simp only [newIter]
    generalize getCUAt' F st c.cuOffset = g at h1 h2
    obtain ⟨r, st1⟩ := g
    simp only at h1 h2
    subst h1
    simp only
    have h3 := (inUnit_top wf h2 hc).2
    generalize inUnit st1 c (getTopDIE (F.parseDIE c.cuOffset) c.cuDieOffset) = g2 at h3
    obtain ⟨r2, st2⟩ := g2
    cases r2 with
    | error e => exact ⟨h3, fun it h => by cases h⟩
    | ok top => exact ⟨h3, fun it h => by injection h with h; subst h; trivial⟩
  | children cu off =>
    obtain ⟨c, hc, rfl⟩ := hk
    obtain ⟨sz, hsz, _⟩ := mem_size wf hc
    have h3 := (dieAt_spec wf hinv hc hsz off).2
    simp only [newIter]
    generalize dieAt F st c.cuOffset off = g2 at h3
    obtain ⟨r2, st2⟩ := g2
    cases r2 with
    | error e => exact ⟨h3, fun it h => by cases h⟩
    | ok cd => exact ⟨h3, fun it h => by injection h with h; subst h; trivial⟩
  | siblings cu off =>
    obtain ⟨c, hc, rfl⟩ := hk
    obtain ⟨sz, hsz, _⟩ := mem_size wf hc
    have h3 := (dieAt_spec wf hinv hc hsz off).2
    simp only [newIter]
    generalize dieAt F st c.cuOffset off = g2 at h3
    obtain ⟨r2, st2⟩ := g2
    cases r2 with
    | error e => exact ⟨h3, fun it h => by cases h⟩
    | ok cd => exact ⟨h3, fun it h => by injection h with h; subst h; trivial⟩

theorem find_unit (hinv : Inv F cs st) {cu : Nat} {c : CU} (h : st.cus.cus.find? (·.cuOffset == cu) = some c) :
    c ∈ cs ∧ c.cuOffset = cu := by
  have hm := List.mem_of_find?_eq_some h
  have hp := List.find?_some h
  simp only [beq_iff_eq] at hp
  exact ⟨hinv.cu.unit c hm, hp⟩

/-- resuming any generator keeps the invariant -/
theorem nextIter_inv (wf : FileWF F cs) (hinv : Inv F cs st) {it : Iter} (hit : IterOK F cs it) :
    Inv F cs (nextIter F st it).2.2 ∧ IterOK F cs (nextIter F st it).2.1 := by
  cases it with
  | cus offset done =>
    simp only [nextIter]
    split
    · exact ⟨hinv, Or.inl rfl⟩
    · split
      · rename_i hd hlt
        rcases hit with hd' | hpos
        · exact absurd hd' hd
        · rcases hpos with heq | ⟨c, hc, hco⟩
          · omega
          · subst hco
            have hP := (chain_mem wf.cuOff cs 0 wf.chain c hc).2.1
            obtain ⟨st', hr, hinv'⟩ := cachedCUAtOffset_spec wf.cuOff hinv.cu hc hP
            obtain ⟨sz, hsz, _⟩ := mem_size wf hc
            have hI := withCU_inv hinv (cachedCUAtOffset F.parseCU st.cus c.cuOffset) (by rw [hr]; exact hinv')
            simp only [withCU, hr, hsz] at hI ⊢
            refine ⟨hI, Or.inr ?_⟩
            rcases chain_next wf.cuOff cs 0 wf.chain c hc sz hsz with h | ⟨c', hc', h⟩
            · exact Or.inl h
            · exact Or.inr ⟨c', hc', h⟩
      · exact ⟨hinv, Or.inl rfl⟩
  | children cu ci =>
    simp only [nextIter]
    split
    · exact ⟨hinv, trivial⟩
    · rename_i c hf
      obtain ⟨hc, rfl⟩ := find_unit hinv hf
      exact ⟨putUnit_inv wf hinv hc (childNext_core (wf.dieOff _) (wf.dieLow c hc) _ _ (unitOf_core hinv hc)), trivial⟩
  | dies cu stack done =>
    simp only [nextIter]
    split
    · exact ⟨hinv, trivial⟩
    · split
      · exact ⟨hinv, trivial⟩
      · rename_i c hf
        obtain ⟨hc, rfl⟩ := find_unit hinv hf
        exact ⟨putUnit_inv wf hinv hc (subNext_core (wf.dieOff _) (wf.dieLow c hc) _ _ _ (unitOf_core hinv hc)), trivial⟩
  | siblings cu self ci done =>
    simp only [nextIter]
    split
    · exact ⟨hinv, trivial⟩
    · split
      · exact ⟨hinv, trivial⟩
      · rename_i c hf
        obtain ⟨hc, rfl⟩ := find_unit hinv hf
        exact ⟨putUnit_inv wf hinv hc (sibNext_core (wf.dieOff _) (wf.dieLow c hc) _ _ _ (unitOf_core hinv hc)), trivial⟩

theorem takeIter_inv (wf : FileWF F cs) : ∀ n (it : Iter) (st : State) acc, Inv F cs st → IterOK F cs it →
    Inv F cs (takeIter F n it st acc).2.2 := by
  intro n
  induction n with
  | zero => intro it st acc hinv _; simpa [takeIter] using hinv
  | succ n ih =>
    intro it st acc hinv hit
    obtain ⟨h1, h2⟩ := nextIter_inv wf hinv hit
    rw [takeIter]
    generalize nextIter F st it = g at h1 h2
    obtain ⟨r, it', st'⟩ := g
    simp only at h1 h2
    cases r with
    | error e => exact h1
    | ok o =>
      cases o with
      | none => exact h1
      | some x => exact ih it' st' _ h1 h2

/-- the operations whose arguments name units of the file (DIE offsets are unrestricted: an offset that does
    not parse changes nothing) -/
def OpValid (F : File) (cs : List CU) : Op → Prop
  | .seek _ => True
  | .cuAt o => ∃ c ∈ cs, c.cuOffset = o
  | .cuCont x => x < F.size
  | .top cu => ∃ c ∈ cs, c.cuOffset = cu
  | .die cu _ => ∃ c ∈ cs, c.cuOffset = cu
  | .refaddr x => x < F.size
  | .children cu _ => ∃ c ∈ cs, c.cuOffset = cu
  | .parent cu _ => ∃ c ∈ cs, c.cuOffset = cu
  | .lp cu _ => ∃ c ∈ cs, c.cuOffset = cu
  | .take k _ => KindValid cs k
  | .all k => KindValid cs k
  | .itNew k => KindValid cs k
  | .itNext _ => True
  | .secIdx _ => True
  | .symByName _ => True
  | .siblings cu _ => ∃ c ∈ cs, c.cuOffset = cu
  | .ref cu _ name => (∃ c ∈ cs, c.cuOffset = cu) ∧ ∀ o raw, F.refAttr cu o name = some (true, raw) → raw < F.size
  | .pubname name => ∀ tbl e, F.pubnames = some tbl → tbl.find? (·.1 == name) = some e → ∃ c ∈ cs, c.cuOffset = e.2.1

theorem inv_pos (hinv : Inv F cs st) (n : Nat) : Inv F cs { st with pos := n } :=
  { cu := hinv.cu, units := hinv.units, sec := hinv.sec, sym := hinv.sym, iters := hinv.iters }

theorem mem_listSet {α} {l : List α} {i : Nat} {x y : α} (h : y ∈ listSet l i x) : y = x ∨ y ∈ l := by
  unfold listSet at h
  rcases List.mem_append.mp h with h | h
  · exact Or.inr (List.mem_of_mem_take h)
  · rcases List.mem_cons.mp h with h | h
    · exact Or.inl h
    · exact Or.inr (List.mem_of_mem_drop h)

/-- closed forms of the answers of the lookups, independent of the state -/
theorem step_cuAt (wf : FileWF F cs) (hinv : Inv F cs st) {c : CU} (hc : c ∈ cs) :
    (step F st (.cuAt c.cuOffset)).1 = .ok (.pair c.cuOffset c.cuDieOffset) ∧ Inv F cs (step F st (.cuAt c.cuOffset)).2 := by
  obtain ⟨h1, h2⟩ := getCUAt'_valid wf hinv hc
  simp only [step]
  generalize getCUAt' F st c.cuOffset = g at h1 h2
  obtain ⟨r, st1⟩ := g
  simp only at h1 h2
  subst h1
  exact ⟨rfl, h2⟩

theorem step_cuCont (wf : FileWF F cs) (hinv : Inv F cs st) {x : Nat} (hx : x < F.size) :
    ∃ c sz, (step F st (.cuCont x)).1 = .ok (.pair c.cuOffset c.cuDieOffset) ∧ c ∈ cs ∧ c.size = .ok sz ∧
      c.cuOffset ≤ x ∧ x < c.cuOffset + sz ∧ Inv F cs (step F st (.cuCont x)).2 := by
  obtain ⟨c, sz, h1, hc, hsz, h3, h4, h2⟩ := getCUCont'_valid wf hinv hx
  refine ⟨c, sz, ?_, hc, hsz, h3, h4, ?_⟩ <;>
  · simp only [step]
    generalize getCUCont' F st x = g at h1 h2
    obtain ⟨r, st1⟩ := g
    simp only at h1 h2
    subst h1
    first | rfl | exact h2

theorem step_top (wf : FileWF F cs) (hinv : Inv F cs st) {c : CU} (hc : c ∈ cs) :
    (step F st (.top c.cuOffset)).1 = (F.parseDIE c.cuOffset c.cuDieOffset).map (fun d => Ans.nat d.offset) ∧
      Inv F cs (step F st (.top c.cuOffset)).2 := by
  obtain ⟨h1, h2⟩ := getCUAt'_valid wf hinv hc
  simp only [step]
  generalize getCUAt' F st c.cuOffset = g at h1 h2
  obtain ⟨r, st1⟩ := g
  simp only at h1 h2
  subst h1
  simp only
  obtain ⟨h3, h4⟩ := inUnit_top wf h2 hc
  generalize inUnit st1 c (getTopDIE (F.parseDIE c.cuOffset) c.cuDieOffset) = g2 at h3 h4
  obtain ⟨r2, st2⟩ := g2
  simp only at h3 h4
  rw [← h3]
  cases r2 <;> exact ⟨rfl, h4⟩

theorem step_die (wf : FileWF F cs) (hinv : Inv F cs st) {c : CU} (hc : c ∈ cs) {sz : Nat} (hsz : c.size = .ok sz)
    (off : Nat) :
    (step F st (.die c.cuOffset off)).1 = (pureRefaddr F c sz off).map (fun d => Ans.nat d.offset) ∧
      Inv F cs (step F st (.die c.cuOffset off)).2 := by
  obtain ⟨h3, h4⟩ := dieAt_spec wf hinv hc hsz off
  simp only [step]
  generalize dieAt F st c.cuOffset off = g2 at h3 h4
  obtain ⟨r2, st2⟩ := g2
  simp only at h3 h4
  cases hp : pureRefaddr F c sz off with
  | error e => rw [hp] at h3; simp [Except.map] at h3; subst h3; exact ⟨rfl, h4⟩
  | ok d => rw [hp] at h3; simp [Except.map] at h3; subst h3; exact ⟨rfl, h4⟩

theorem step_refaddr (wf : FileWF F cs) (hinv : Inv F cs st) {x : Nat} (hx : x < F.size) :
    ∃ c sz, (step F st (.refaddr x)).1 = (pureRefaddr F c sz x).map (fun d => Ans.nat d.offset) ∧ c ∈ cs ∧
      c.size = .ok sz ∧ c.cuOffset ≤ x ∧ x < c.cuOffset + sz ∧ Inv F cs (step F st (.refaddr x)).2 := by
  obtain ⟨c, sz, h1, hc, hsz, h5, h6, h2⟩ := getCUCont'_valid wf hinv hx
  have key : (step F st (.refaddr x)).1 = (pureRefaddr F c sz x).map (fun d => Ans.nat d.offset) ∧
      Inv F cs (step F st (.refaddr x)).2 := by
    simp only [step, refaddrAt]
    generalize getCUCont' F st x = g at h1 h2
    obtain ⟨r, st1⟩ := g
    simp only at h1 h2
    subst h1
    simp only [cuEnd_eq hsz]
    obtain ⟨h3, h4⟩ := inUnit_refaddr wf h2 hc (c.cuOffset + sz) x
    generalize inUnit st1 c (fun u => unitDIEFromRefaddr (F.parseDIE c.cuOffset) c.cuDieOffset (c.cuOffset + sz) u x) = g2 at h3 h4
    obtain ⟨r2, st2⟩ := g2
    simp only at h3 h4
    unfold pureRefaddr
    rw [← h3]
    cases r2 <;> exact ⟨rfl, h4⟩
  exact ⟨c, sz, key.1, hc, hsz, h5, h6, key.2⟩

theorem step_lp (wf : FileWF F cs) (hinv : Inv F cs st) {c : CU} (hc : c ∈ cs) (dec : Bool) :
    (step F st (.lp c.cuOffset dec)).1 = (F.parseDIE c.cuOffset c.cuDieOffset).map (fun d => Ans.opt d.stmt) ∧
      Inv F cs (step F st (.lp c.cuOffset dec)).2 := by
  obtain ⟨h1, h2⟩ := getCUAt'_valid wf hinv hc
  simp only [step]
  generalize getCUAt' F st c.cuOffset = g at h1 h2
  obtain ⟨r, st1⟩ := g
  simp only at h1 h2
  subst h1
  simp only
  obtain ⟨h3, h4⟩ := inUnit_top wf h2 hc
  generalize inUnit st1 c (getTopDIE (F.parseDIE c.cuOffset) c.cuDieOffset) = g2 at h3 h4
  obtain ⟨r2, st2⟩ := g2
  simp only at h3 h4
  rw [← h3]
  cases r2 with
  | error e => exact ⟨rfl, h4⟩
  | ok top =>
    simp only
    cases hs : top.stmt with
    | none => exact ⟨by simp [Except.map, hs], h4⟩
    | some o =>
      refine ⟨by simp [Except.map, hs], ?_⟩
      exact { cu := h4.cu, units := h4.units, sec := h4.sec, sym := h4.sym, iters := h4.iters }

theorem step_secIdx (hinv : Inv F cs st) (name : String) :
    (step F st (.secIdx name)).1 = .ok (.opt (((buildSecMap F.secNames).find? (·.1 == name)).map (·.2))) ∧
      Inv F cs (step F st (.secIdx name)).2 := by
  simp only [step]
  rcases hinv.sec with h | h <;> rw [h] <;>
  exact ⟨rfl, { cu := hinv.cu, units := hinv.units, sec := Or.inr rfl, sym := hinv.sym, iters := hinv.iters }⟩

theorem step_symByName (hinv : Inv F cs st) (name : String) :
    (step F st (.symByName name)).1
        = .ok (.optList (match ((buildSymMap F.symNames).find? (·.1 == name)).map (·.2) with | some [] => none | o => o)) ∧
      Inv F cs (step F st (.symByName name)).2 := by
  simp only [step]
  rcases hinv.sym with h | h <;> rw [h] <;>
  exact ⟨rfl, { cu := hinv.cu, units := hinv.units, sec := hinv.sec, sym := Or.inr rfl, iters := hinv.iters }⟩

/-- `dieAt` keeps the invariant and answers inside the unit asked for -/
theorem dieAt_cases (wf : FileWF F cs) (hinv : Inv F cs st) {c : CU} (hc : c ∈ cs) (off : Nat) :
    Inv F cs (dieAt F st c.cuOffset off).2 ∧ ∀ c' d, (dieAt F st c.cuOffset off).1 = .ok (c', d) → c' = c := by
  obtain ⟨sz, hsz, _⟩ := mem_size wf hc
  obtain ⟨h3, h4⟩ := dieAt_spec wf hinv hc hsz off
  refine ⟨h4, ?_⟩
  intro c' d h
  rw [h] at h3
  cases hp : pureRefaddr F c sz off with
  | error e => rw [hp] at h3; simp [Except.map] at h3
  | ok d' => rw [hp] at h3; simp [Except.map] at h3; exact h3.1

/-- EVERY operation (navigation, generators created, resumed and abandoned, seeks) keeps the invariant -/
theorem step_inv (wf : FileWF F cs) (hinv : Inv F cs st) {op : Op} (hv : OpValid F cs op) : Inv F cs (step F st op).2 := by
  cases op with
  | seek n => simpa [step] using inv_pos hinv n
  | cuAt o => obtain ⟨c, hc, rfl⟩ := hv; exact (step_cuAt wf hinv hc).2
  | cuCont x => obtain ⟨_, _, _, _, _, _, _, h⟩ := step_cuCont wf hinv hv; exact h
  | top cu => obtain ⟨c, hc, rfl⟩ := hv; exact (step_top wf hinv hc).2
  | die cu off =>
    obtain ⟨c, hc, rfl⟩ := hv
    obtain ⟨sz, hsz, _⟩ := mem_size wf hc
    exact (step_die wf hinv hc hsz off).2
  | refaddr x => obtain ⟨_, _, _, _, _, _, _, h⟩ := step_refaddr wf hinv hv; exact h
  | children cu off =>
    obtain ⟨c, hc, rfl⟩ := hv
    obtain ⟨sz, hsz, _⟩ := mem_size wf hc
    obtain ⟨h3, h4⟩ := dieAt_spec wf hinv hc hsz off
    simp only [step]
    generalize dieAt F st c.cuOffset off = g2 at h3 h4
    obtain ⟨r2, st2⟩ := g2
    simp only at h3 h4
    cases r2 with
    | error e => exact h4
    | ok cd =>
      obtain ⟨c', d⟩ := cd
      have hcc : c' = c := by
        cases hp : pureRefaddr F c sz off with
        | error e => rw [hp] at h3; simp [Except.map] at h3
        | ok d' => rw [hp] at h3; simp [Except.map] at h3; exact h3.1
      subst hcc
      simp only
      have h5 := inUnit_inv wf h4 hc (fun u => drain (F.parseDIE c'.cuOffset) c'.cuDieOffset (fuelOf F) (ChildIter.new d) u [])
        (fun u hu => drain_core (wf.dieOff _) (wf.dieLow c' hc) _ _ _ hu)
      generalize inUnit st2 c' (fun u => drain (F.parseDIE c'.cuOffset) c'.cuDieOffset (fuelOf F) (ChildIter.new d) u []) = g3 at h5
      obtain ⟨r3, st3⟩ := g3
      cases r3 <;> exact h5
  | parent cu off =>
    obtain ⟨c, hc, rfl⟩ := hv
    obtain ⟨sz, hsz, _⟩ := mem_size wf hc
    obtain ⟨h3, h4⟩ := dieAt_spec wf hinv hc hsz off
    simp only [step]
    generalize dieAt F st c.cuOffset off = g2 at h3 h4
    obtain ⟨r2, st2⟩ := g2
    simp only at h3 h4
    cases r2 with
    | error e => exact h4
    | ok cd =>
      obtain ⟨c', d⟩ := cd
      have hcc : c' = c := by
        cases hp : pureRefaddr F c sz off with
        | error e => rw [hp] at h3; simp [Except.map] at h3
        | ok d' => rw [hp] at h3; simp [Except.map] at h3; exact h3.1
      subst hcc
      simp only
      have h5 := inUnit_inv wf h4 hc (getParent (F.parseDIE c'.cuOffset) c'.cuDieOffset (fuelOf F) d)
        (fun u hu => getParent_core (wf.dieOff _) (wf.dieLow c' hc) _ _ hu)
      generalize inUnit st2 c' (getParent (F.parseDIE c'.cuOffset) c'.cuDieOffset (fuelOf F) d) = g3 at h5
      obtain ⟨r3, st3⟩ := g3
      cases r3 <;> exact h5
  | lp cu dec => obtain ⟨c, hc, rfl⟩ := hv; exact (step_lp wf hinv hc dec).2
  | take k n =>
    obtain ⟨h1, h2⟩ := newIter_inv wf hinv hv
    simp only [step]
    generalize newIter F st k = g at h1 h2
    obtain ⟨r, st1⟩ := g
    cases r with
    | error e => exact h1
    | ok it =>
      have h3 := takeIter_inv wf n it st1 [] h1 (h2 it rfl)
      simp only
      generalize takeIter F n it st1 [] = g2 at h3
      obtain ⟨r2, it2, st2⟩ := g2
      cases r2 <;> exact h3
  | all k =>
    obtain ⟨h1, h2⟩ := newIter_inv wf hinv hv
    simp only [step]
    generalize newIter F st k = g at h1 h2
    obtain ⟨r, st1⟩ := g
    cases r with
    | error e => exact h1
    | ok it =>
      have h3 := takeIter_inv wf (fuelOf F) it st1 [] h1 (h2 it rfl)
      simp only
      generalize takeIter F (fuelOf F) it st1 [] = g2 at h3
      obtain ⟨r2, it2, st2⟩ := g2
      cases r2 <;> exact h3
  | itNew k =>
    obtain ⟨h1, h2⟩ := newIter_inv wf hinv hv
    simp only [step]
    generalize newIter F st k = g at h1 h2
    obtain ⟨r, st1⟩ := g
    cases r with
    | error e => exact h1
    | ok it =>
      exact { cu := h1.cu, units := h1.units, sec := h1.sec, sym := h1.sym,
              iters := by
                intro it' hit'
                rcases List.mem_append.mp hit' with h | h
                · exact h1.iters it' h
                · simp at h; rw [h]; exact h2 it rfl }
  | itNext h =>
    simp only [step]
    split
    · exact hinv
    · split
      · exact hinv
      · rename_i it hget
        have hm : it ∈ st.iters := List.mem_of_getElem? hget
        obtain ⟨h1, h2⟩ := nextIter_inv wf hinv (hinv.iters it hm)
        generalize nextIter F st it = g at h1 h2
        obtain ⟨r, it', st'⟩ := g
        simp only at h1 h2
        have key : ∀ i, Inv F cs { st' with iters := listSet st'.iters i it' } := fun i =>
          { cu := h1.cu, units := h1.units, sec := h1.sec, sym := h1.sym,
            iters := by
              intro x hx
              rcases mem_listSet hx with rfl | hx
              · exact h2
              · exact h1.iters x hx }
        cases r with
        | error e => exact key _
        | ok o => cases o <;> exact key _
  | secIdx name => exact (step_secIdx hinv name).2
  | symByName name => exact (step_symByName hinv name).2
  | siblings cu off =>
    obtain ⟨c, hc, rfl⟩ := hv
    obtain ⟨h4, hcc⟩ := dieAt_cases wf hinv hc off
    simp only [step]
    generalize dieAt F st c.cuOffset off = g2 at h4 hcc
    obtain ⟨r2, st2⟩ := g2
    cases r2 with
    | error e => exact h4
    | ok cd =>
      obtain ⟨c', d⟩ := cd
      have := hcc c' d rfl; subst this
      simp only
      have h5 := inUnit_inv wf h4 hc (getParent (F.parseDIE c'.cuOffset) c'.cuDieOffset (fuelOf F) d)
        (fun u hu => getParent_core (wf.dieOff _) (wf.dieLow c' hc) _ _ hu)
      generalize inUnit st2 c' (getParent (F.parseDIE c'.cuOffset) c'.cuDieOffset (fuelOf F) d) = g3 at h5
      obtain ⟨r3, st3⟩ := g3
      cases r3 with
      | error e => exact h5
      | ok p =>
        cases p with
        | none => exact h5
        | some p =>
          simp only
          have h6 := inUnit_inv wf h5 hc (fun u => drain (F.parseDIE c'.cuOffset) c'.cuDieOffset (fuelOf F) (ChildIter.new p) u [])
            (fun u hu => drain_core (wf.dieOff _) (wf.dieLow c' hc) _ _ _ hu)
          generalize inUnit st3 c' (fun u => drain (F.parseDIE c'.cuOffset) c'.cuDieOffset (fuelOf F) (ChildIter.new p) u []) = g4 at h6
          obtain ⟨r4, st4⟩ := g4
          cases r4 <;> exact h6
  | ref cu off name =>
    obtain ⟨⟨c, hc, rfl⟩, hraw⟩ := hv
    obtain ⟨sz, hsz, _⟩ := mem_size wf hc
    obtain ⟨h4, hcc⟩ := dieAt_cases wf hinv hc off
    simp only [step]
    generalize dieAt F st c.cuOffset off = g2 at h4 hcc
    obtain ⟨r2, st2⟩ := g2
    cases r2 with
    | error e => exact h4
    | ok cd =>
      obtain ⟨c', d⟩ := cd
      have := hcc c' d rfl; subst this
      simp only
      cases hr : F.refAttr c'.cuOffset d.offset name with
      | none => exact h4
      | some br =>
        obtain ⟨b, raw⟩ := br
        cases b with
        | false =>
          simp only [cuEnd_eq hsz]
          have h5 := (inUnit_refaddr wf h4 hc (c'.cuOffset + sz) (c'.cuOffset + raw)).2
          generalize inUnit st2 c' (fun u => unitDIEFromRefaddr (F.parseDIE c'.cuOffset) c'.cuDieOffset (c'.cuOffset + sz) u (c'.cuOffset + raw)) = g3 at h5
          obtain ⟨r3, st3⟩ := g3
          cases r3 <;> exact h5
        | true =>
          simp only
          obtain ⟨_, _, _, _, _, _, _, h⟩ := step_refaddr wf h4 (hraw _ _ hr)
          exact h
  | pubname name =>
    simp only [step]
    cases hp : F.pubnames with
    | none => exact hinv
    | some tbl =>
      simp only
      cases hf : tbl.find? (·.1 == name) with
      | none => exact hinv
      | some e =>
        obtain ⟨nm, cuo, dieo⟩ := e
        obtain ⟨c, hc, hcu⟩ := hv tbl _ hp hf
        simp only at hcu; subst hcu
        simp only
        obtain ⟨h4, _⟩ := dieAt_cases wf hinv hc dieo
        generalize dieAt F st c.cuOffset dieo = g2 at h4
        obtain ⟨r2, st2⟩ := g2
        cases r2 <;> exact h4

/-- the invariant holds after every history of valid operations -/
theorem run_inv (wf : FileWF F cs) : ∀ (ops : List Op) (st : State), Inv F cs st → (∀ op ∈ ops, OpValid F cs op) →
    Inv F cs (run F st ops) := by
  intro ops
  induction ops with
  | nil => intro st h _; exact h
  | cons op ops ih =>
    intro st h hv
    exact ih _ (step_inv wf h (hv op (by simp))) (fun o ho => hv o (List.mem_cons_of_mem _ ho))

/-- the lookups whose answers are PROVED independent of the state (unit lookup by offset and by containment,
    top DIE, DIE by offset / reference, line-program retrieval, section-name and symbol-name maps, seeks) -/
def Lookup : Op → Prop
  | .seek _ | .cuAt _ | .cuCont _ | .top _ | .die _ _ | .refaddr _ | .lp _ _ | .secIdx _ | .symByName _ => True
  | _ => False

/-- two states satisfying the invariant give the same answer -/
theorem step_answer_eq (wf : FileWF F cs) {st st' : State} (hinv : Inv F cs st) (hinv' : Inv F cs st') {op : Op}
    (hv : OpValid F cs op) (hl : Lookup op) : (step F st op).1 = (step F st' op).1 := by
  cases op with
  | seek n => simp [step]
  | cuAt o => obtain ⟨c, hc, rfl⟩ := hv; rw [(step_cuAt wf hinv hc).1, (step_cuAt wf hinv' hc).1]
  | cuCont x =>
    obtain ⟨c, sz, h1, hc, hsz, h2, h3, _⟩ := step_cuCont wf hinv hv
    obtain ⟨c', sz', h1', hc', hsz', h2', h3', _⟩ := step_cuCont wf hinv' hv
    have := containing_unique wf hc hc' hsz hsz' h2 h3 h2' h3'
    subst this
    rw [h1, h1']
  | top cu => obtain ⟨c, hc, rfl⟩ := hv; rw [(step_top wf hinv hc).1, (step_top wf hinv' hc).1]
  | die cu off =>
    obtain ⟨c, hc, rfl⟩ := hv
    obtain ⟨sz, hsz, _⟩ := mem_size wf hc
    rw [(step_die wf hinv hc hsz off).1, (step_die wf hinv' hc hsz off).1]
  | refaddr x =>
    obtain ⟨c, sz, h1, hc, hsz, h2, h3, _⟩ := step_refaddr wf hinv hv
    obtain ⟨c', sz', h1', hc', hsz', h2', h3', _⟩ := step_refaddr wf hinv' hv
    have := containing_unique wf hc hc' hsz hsz' h2 h3 h2' h3'
    subst this
    rw [hsz] at hsz'; injection hsz' with hsz'; subst hsz'
    rw [h1, h1']
  | lp cu dec => obtain ⟨c, hc, rfl⟩ := hv; rw [(step_lp wf hinv hc dec).1, (step_lp wf hinv' hc dec).1]
  | secIdx name => rw [(step_secIdx hinv name).1, (step_secIdx hinv' name).1]
  | symByName name => rw [(step_symByName hinv name).1, (step_symByName hinv' name).1]
  | children _ _ => exact absurd hl (by simp [Lookup])
  | parent _ _ => exact absurd hl (by simp [Lookup])
  | take _ _ => exact absurd hl (by simp [Lookup])
  | all _ => exact absurd hl (by simp [Lookup])
  | itNew _ => exact absurd hl (by simp [Lookup])
  | itNext _ => exact absurd hl (by simp [Lookup])
  | siblings _ _ => exact absurd hl (by simp [Lookup])
  | ref _ _ _ => exact absurd hl (by simp [Lookup])
  | pubname _ => exact absurd hl (by simp [Lookup])

end state
end PyElf.Proofs.C10
