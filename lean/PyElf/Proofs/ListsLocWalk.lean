/-
  C07: the section walk of `LocationLists.iter_location_lists()`: view pairs, the
  DWARF 2–4 loop over the referenced offsets, the DWARF 5 walk over unit blocks with
  gap skipping.
-/
import PyElf.Spec.DwarfStructs
import PyElf.Spec.Lists
import PyElf.Model.Lists
import PyElf.Proofs.Primitives
import PyElf.Proofs.ListsV4
import PyElf.Proofs.ListsV5
import PyElf.Proofs.ListsUnits
import PyElf.Proofs.ListsUnitLists
import PyElf.Proofs.ListsFetch
import PyElf.Proofs.ListsLocScan
namespace PyElf.Proofs.ListsLocWalk
open PyElf PyElf.Spec PyElf.Spec.Lists PyElf.Model.Lists PyElf.Proofs

/-! ### 1. view pairs -/

theorem structParse_viewpair (env : Env) (cfg : DwarfCfg) (data rest : Bytes) (pos n a m b : Nat)
    (hn : 1 ≤ n) (ha : a < 2 ^ (7 * n)) (hm : 1 ≤ m) (hb : b < 2 ^ (7 * m))
    (hd : data.drop pos = encUlebN n a ++ (encUlebN m b ++ rest)) :
    structParse env (Spec.dwarfStructs cfg).Dwarf_locview_pair data pos
      = .ok (.record [("entry_offset", .int pos), ("begin", .int a), ("end", .int b)], pos + n + m) := by
  have d2 := drop_add_of_drop hd
  rw [encUlebN_length] at d2
  have r1 : ∀ c, _ := fun c => parse_uleb_ok (env := env) (ctx := c) hd (encUlebN_valid n a hn)
  have r2 : ∀ c, _ := fun c => parse_uleb_ok (env := env) (ctx := c) d2 (encUlebN_valid m b hm)
  rw [ulebVal_enc_of_lt ha, encUlebN_length] at r1
  rw [ulebVal_enc_of_lt hb, encUlebN_length] at r2
  have hE : (Spec.dwarfStructs cfg).Dwarf_locview_pair
      = st [f "entry_offset" .streamOffset, f "begin" .uleb, f "end" .uleb] := rfl
  unfold structParse
  rw [hE, st, ListsUnits.parse_struct]
  simp only [mkFields, f, Con.parseFields, Bool.false_eq_true, if_false, bind, Except.bind,
    ListsUnits.parse_streamOffset, r1, r2, Fields.set, String.reduceEq]
  rfl

theorem encViews_length (vs : List (FV × FV)) (le : Bool) : (encViews vs le).length = viewsSize vs := by
  induction vs with
  | nil => rfl
  | cons p vs ih =>
    simp only [encViews, viewsSize, List.flatMap_cons, List.length_append, List.map_cons, List.sum_cons,
      ListsV5.fv_enc_length] at ih ⊢
    omega

theorem viewsWf_cons {p : FV × FV} {vs : List (FV × FV)} (h : viewsWf (p :: vs) = true) :
    (∃ n a m b, p = (.uleb n a, .uleb m b) ∧ 1 ≤ n ∧ a < 2 ^ (7 * n) ∧ 1 ≤ m ∧ b < 2 ^ (7 * m))
      ∧ viewsWf vs = true := by
  simp only [viewsWf, List.all_cons, Bool.and_eq_true] at h
  obtain ⟨⟨⟨⟨k1, k2⟩, w1⟩, w2⟩, hr⟩ := h
  refine ⟨?_, by simpa [viewsWf] using hr⟩
  obtain ⟨x, y⟩ := p
  cases x <;> simp [FV.kind] at k1
  cases y <;> simp [FV.kind] at k2
  rename_i n a m b
  simp only [FV.wf, Bool.and_eq_true, decide_eq_true_eq] at w1 w2
  exact ⟨n, a, m, b, rfl, w1.1, w1.2, w2.1, w2.2⟩

theorem viewsWf_length {vs : List (FV × FV)} (h : viewsWf vs = true) : vs.length ≤ viewsSize vs := by
  induction vs with
  | nil => simp
  | cons p vs ih =>
    obtain ⟨⟨n, a, m, b, rfl, hn, -, hm, -⟩, hr⟩ := viewsWf_cons h
    have := ih hr
    simp only [viewsSize, List.map_cons, List.sum_cons, List.length_cons, FV.size] at this ⊢
    omega

theorem locviewLoop_ok (env : Env) (cfg : DwarfCfg) (l : Lists) (le : Bool) (rest : Bytes)
    (hS : l.S.Dwarf_locview_pair = (Spec.dwarfStructs cfg).Dwarf_locview_pair) :
    ∀ (vs : List (FV × FV)) (fuel pos : Nat) (acc : List Val) (listOffset : Int),
      viewsWf vs = true → vs.length + 1 ≤ fuel →
      l.data.drop pos = encViews vs le ++ rest →
      listOffset = ((pos + viewsSize vs : Nat) : Int) →
      locviewLoop env l listOffset fuel pos acc = .ok (acc.reverse ++ obsViews pos vs, pos + viewsSize vs) := by
  intro vs
  induction vs with
  | nil =>
    intro fuel pos acc lo _ hf _ hlo
    cases fuel with
    | zero => omega
    | succ fuel =>
      simp only [viewsSize, List.map_nil, List.sum_nil, Nat.add_zero] at hlo ⊢
      rw [locviewLoop, if_neg (by omega), if_pos (by omega)]
      simp [obsViews]
  | cons p vs ih =>
    intro fuel pos acc lo hwf hf hd hlo
    obtain ⟨⟨n, a, m, b, rfl, hn, ha, hm, hb⟩, hr⟩ := viewsWf_cons hwf
    cases fuel with
    | zero => omega
    | succ fuel =>
      have hsz : viewsSize ((FV.uleb n a, FV.uleb m b) :: vs) = n + m + viewsSize vs := by
        simp [viewsSize, FV.size]
      have hd0 : l.data.drop pos = encUlebN n a ++ (encUlebN m b ++ (encViews vs le ++ rest)) := by
        rw [hd]; simp [encViews, FV.enc, List.append_assoc]
      have d1 := drop_add_of_drop hd0
      rw [encUlebN_length] at d1
      have d2 := drop_add_of_drop d1
      rw [encUlebN_length] at d2
      rw [hsz] at hlo
      rw [locviewLoop, if_pos (by omega), hS, structParse_viewpair env cfg l.data _ pos n a m b hn ha hm hb hd0]
      simp only [attr, Fields.get?, String.reduceEq, if_true, if_false, bind, Except.bind]
      rw [ih fuel (pos + n + m) _ lo hr (by simp at hf; omega) d2 (by rw [hlo]; omega)]
      simp [obsViews, viewPair, nt, hsz, Nat.add_assoc]

/-- `_parse_locview_pairs` at an object: its view pairs (none for an object without views), up to its list -/
theorem parseLocviewPairs_obj {α} (env : Env) (cfg : DwarfCfg) (l : Lists) (le : Bool) (rest : Bytes)
    (hS : l.S.Dwarf_locview_pair = (Spec.dwarfStructs cfg).Dwarf_locview_pair)
    (locviews : List (Int × Int)) (o : LocObj α) (vo : Nat)
    (hget : dictGet? locviews (vo : Int) = o.views.map fun _ => ((vo + o.viewsLen : Nat) : Int))
    (hok : o.viewsOk = true) (hd : l.data.drop vo = o.viewsEnc le ++ rest) :
    parseLocviewPairs env l locviews vo = .ok (o.viewsObs vo, vo + o.viewsLen) := by
  unfold parseLocviewPairs
  rw [hget]
  cases hv : o.views with
  | none => simp [LocObj.viewsObs, LocObj.viewsLen, hv]
  | some vs =>
    simp only [LocObj.viewsOk, LocObj.viewsEnc, LocObj.viewsObs, LocObj.viewsLen, hv] at hok hd ⊢
    have hl := length_of_drop hd
    rw [List.length_append, encViews_length] at hl
    have := viewsWf_length hok
    simp only [Option.map_some]
    rw [locviewLoop_ok env cfg l le rest hS vs _ vo [] _ hok (by omega) hd rfl]
    simp

/-! ### 2. where the objects of a run lie -/

section layout
variable {α : Type} (enc : α → Bytes) (sz : α → Nat) (le : Bool)

theorem viewsEnc_length (o : LocObj α) : (o.viewsEnc le).length = o.viewsLen := by
  cases hv : o.views <;> simp [LocObj.viewsEnc, LocObj.viewsLen, hv, encViews_length]

theorem encObjs_cons (o : LocObj α) (objs : List (LocObj α)) :
    encObjs enc le (o :: objs) = o.gap ++ (o.viewsEnc le ++ (enc o.list ++ encObjs enc le objs)) := by
  simp [encObjs, List.append_assoc]

theorem layout_length (off : Nat) (objs : List (LocObj α)) : (layout sz off objs).length = objs.length := by
  induction objs generalizing off with
  | nil => rfl
  | cons o objs ih => simp [layout, ih]

/-- every laid-out object: its list follows its views, it lies inside the run, and its bytes are where the
    layout says -/
theorem layout_mem (hsz : ∀ x, (enc x).length = sz x) (data rest : Bytes) :
    ∀ (objs : List (LocObj α)) (off : Nat), data.drop off = encObjs enc le objs ++ rest →
      ∀ e ∈ layout sz off objs,
        e.2.1 = e.1 + e.2.2.viewsLen ∧ off ≤ e.1 ∧ e.2.1 + sz e.2.2.list ≤ off + (encObjs enc le objs).length
          ∧ e.2.2 ∈ objs
          ∧ ∃ rest', data.drop e.1 = e.2.2.viewsEnc le ++ (enc e.2.2.list ++ rest') := by
  intro objs
  induction objs with
  | nil => intro off _ e he; simp [layout] at he
  | cons o objs ih =>
    intro off hd e he
    rw [encObjs_cons, List.append_assoc, List.append_assoc, List.append_assoc] at hd
    have d1 := drop_add_of_drop hd
    have d2 := drop_add_of_drop d1
    rw [viewsEnc_length] at d2
    have d3 := drop_add_of_drop d2
    rw [hsz] at d3
    have hlen : (encObjs enc le (o :: objs)).length
        = o.gap.length + (o.viewsLen + (sz o.list + (encObjs enc le objs).length)) := by
      rw [encObjs_cons]; simp only [List.length_append, viewsEnc_length, hsz]
    simp only [layout, List.mem_cons] at he
    rcases he with rfl | he
    · refine ⟨rfl, by simp, by simp only []; omega, by simp, _, d1⟩
    · obtain ⟨h1, h2, h3, h4, h5⟩ := ih _ d3 e he
      exact ⟨h1, by omega, by omega, by simp [h4], h5⟩

/-- the layout's references are separated (lists are not empty) -/
theorem layout_separated (hpos : ∀ x, 1 ≤ sz x) :
    ∀ (objs : List (LocObj α)) (off : Nat),
      (∀ e ∈ layout sz off objs, e.2.1 = e.1 + e.2.2.viewsLen ∧ off ≤ e.1)
      ∧ (layout sz off objs).Pairwise (fun a b => a.2.1 < b.1) := by
  intro objs
  induction objs with
  | nil => intro off; simp [layout]
  | cons o objs ih =>
    intro off
    obtain ⟨h1, h2⟩ := ih (off + o.gap.length + o.viewsLen + sz o.list)
    constructor
    · intro e he
      simp only [layout, List.mem_cons] at he
      rcases he with rfl | he
      · exact ⟨rfl, by simp⟩
      · have := h1 e he
        exact ⟨this.1, by omega⟩
    · simp only [layout]
      rw [List.pairwise_cons]
      refine ⟨?_, h2⟩
      intro b hb
      have := (h1 b hb).2
      have := hpos o.list
      simp only []
      omega

end layout

theorem key_layoutRef {α} (e : Nat × Nat × LocObj α) (h : e.2.1 = e.1 + e.2.2.viewsLen) :
    ListsLocScan.key (layoutRef e) = (e.1 : Int) := by
  obtain ⟨vo, lo, o⟩ := e
  simp only [] at h
  cases hv : o.views with
  | none => simp [ListsLocScan.key, layoutRef, hv, h, LocObj.viewsLen]
  | some vs => simp [ListsLocScan.key, layoutRef, hv]

/-- a layout whose objects lie one after the other gives separated references -/
theorem separated_of_layout {α} (lay : List (Nat × Nat × LocObj α))
    (h1 : ∀ e ∈ lay, e.2.1 = e.1 + e.2.2.viewsLen) (h2 : lay.Pairwise (fun a b => a.2.1 < b.1)) :
    ListsLocScan.Separated (lay.map layoutRef) := by
  constructor
  · intro k hk
    obtain ⟨e, he, rfl⟩ := List.mem_map.mp hk
    rw [key_layoutRef e (h1 e he)]
    have := h1 e he
    simp only [layoutRef]
    omega
  · rw [List.pairwise_map]
    refine List.Pairwise.imp_of_mem ?_ h2
    intro a b _ hb hab
    rw [key_layoutRef b (h1 b hb)]
    simp only [layoutRef]
    omega

/-! ### 3. DWARF 2–4: the loop over the referenced offsets -/

theorem parseLocV4_at (env : Env) (l : Lists) (le : Bool) (rest : Bytes) (es : List V4Loc) (pos : Nat)
    (hA : l.S.the_Dwarf_target_addr = .uint l.asz le) (h16 : l.S.the_Dwarf_uint16 = .uint 2 le)
    (h8 : l.S.the_Dwarf_uint8 = .uint 1 le) (hasz : 1 ≤ l.asz)
    (hd : l.data.drop pos = encV4Loc le l.asz es ++ rest)
    (hwf : ∀ e ∈ es, e.wf l.asz = true) :
    parseLocV4 env l pos = .ok (obsV4Loc l.asz pos es, pos + (encV4Loc le l.asz es).length) := by
  have hge := ListsV4.encV4Loc_length_ge le hasz es
  have hl := length_of_drop hd
  rw [List.length_append] at hl
  unfold parseLocV4
  rw [ListsV4.parseLocV4Loop_ok env l le rest hA h16 h8 hasz es _ _ [] (by omega) hwf hd]
  simp

/-- what the walk needs to know about one laid-out DWARF 2–4 object -/
def ObjOk4 (l : Lists) (le : Bool) (sc : Scan) (e : Nat × Nat × LocObj (List V4Loc)) : Prop :=
  e.2.1 = e.1 + e.2.2.viewsLen ∧ e.1 < 2 ^ 63 ∧ e.2.2.viewsOk = true ∧ (∀ x ∈ e.2.2.list, x.wf l.asz = true)
    ∧ dictGet? sc.locviews (e.1 : Int) = e.2.2.views.map (fun _ => (e.2.1 : Int))
    ∧ (∃ cu, dictGet? sc.cuMap (e.2.1 : Int) = some cu ∧ cu.version < 5)
    ∧ ∃ rest, l.data.drop e.1 = e.2.2.viewsEnc le ++ (encV4Loc le l.asz e.2.2.list ++ rest)

theorem locV4Loop_ok (env : Env) (cfg : DwarfCfg) (l : Lists) (le : Bool) (sc : Scan)
    (hV : l.S.Dwarf_locview_pair = (Spec.dwarfStructs cfg).Dwarf_locview_pair)
    (hA : l.S.the_Dwarf_target_addr = .uint l.asz le) (h16 : l.S.the_Dwarf_uint16 = .uint 2 le)
    (h8 : l.S.the_Dwarf_uint8 = .uint 1 le) (hasz : 1 ≤ l.asz) :
    ∀ (lay : List (Nat × Nat × LocObj (List V4Loc))) (out : List (List Val)),
      (∀ e ∈ lay, ObjOk4 l le sc e) →
      locV4Loop env l sc (lay.map fun e => (e.1 : Int)) out
        = .ok (out ++ lay.map fun e => e.2.2.viewsObs e.1 ++ obsV4Loc l.asz e.2.1 e.2.2.list) := by
  intro lay
  induction lay with
  | nil => intro out _; simp [locV4Loop]
  | cons e lay ih =>
    intro out hok
    obtain ⟨hlo, hsmall, hvok, hwf, hviews, ⟨cu, hcu, hver⟩, rest, hd⟩ := hok e (by simp)
    obtain ⟨vo, lo, o⟩ := e
    simp only [] at hlo hsmall hvok hwf hviews hcu hd
    have hlist : (dictGet? sc.locviews (vo : Int)).getD (vo : Int) = (lo : Int) := by
      rw [hviews]
      cases hv : o.views with
      | none => simp [hlo, LocObj.viewsLen, hv]
      | some vs => simp
    have hd2 := drop_add_of_drop hd
    rw [viewsEnc_length, ← hlo] at hd2
    have hviews' : dictGet? sc.locviews (vo : Int) = o.views.map fun _ => ((vo + o.viewsLen : Nat) : Int) := by
      rw [hviews, hlo]
    rw [List.map_cons, locV4Loop]
    simp only [hlist, hcu, hver, if_true, ListsV4.seekInt_nat hsmall]
    rw [parseLocviewPairs_obj env cfg l le _ hV sc.locviews o vo hviews' hvok hd]
    simp only [← hlo]
    rw [parseLocV4_at env l le rest o.list lo hA h16 h8 hasz hd2 hwf]
    simp only []
    rw [ih _ (fun x hx => hok x (by simp [hx]))]
    simp

theorem obsObjs_v4 (asz : Nat) (lay : List (Nat × Nat × LocObj (List V4Loc))) :
    obsObjs (fun off es => some (obsV4Loc asz off es)) lay
      = some (lay.map fun e => e.2.2.viewsObs e.1 ++ obsV4Loc asz e.2.1 e.2.2.list) := by
  induction lay with
  | nil => rfl
  | cons e lay ih =>
    obtain ⟨vo, lo, o⟩ := e
    simp [obsObjs, ih, bind, Option.bind, pure]

/-! ### 4. DWARF 5: one list at an arbitrary position -/

/-- position-general form of `ListsV5.parse_loclists_entries` -/
theorem structParse_loclists_at (env : Env) (cfg : DwarfCfg) (data rest : Bytes) (pos : Nat) (es : List Ent)
    (henv : ∀ k ∈ lleKinds, env.enumDecode "ENUM_DW_LLE" (k.code : Int) = some k.name)
    (hwf : ∀ e ∈ es, e.wf lleKinds cfg.asz = true)
    (hd : data.drop pos = encList cfg.le cfg.asz es ++ rest) :
    structParse env (Spec.dwarfStructs cfg).Dwarf_loclists_entries data pos
      = .ok (.list (rawObsList cfg.asz pos es), pos + listSize cfg.asz es) := by
  have hl := length_of_drop hd
  have hge := ListsV5.encList_length_ge cfg.le cfg.asz es
  unfold structParse
  rw [ListsV5.loclists_entries_eq, ListsV5.entryCon, Con.parse]
  rw [ListsV5.repeatLoop_entries env data cfg.le cfg.asz _ _ lleKinds rest [] (by decide) ListsV5.lle_ok henv
    (by decide) (by decide) es _ pos [] hwf (by simp only [List.length_append] at hl; omega) hd]
  simp [bind, Except.bind, pure, Except.pure]

theorem parseLocV5_at (env : Env) (secs : Secs) (cfg : DwarfCfg) (l : Lists) (cu : Cu) (addrs : List Nat)
    (rest : Bytes) (es : List Ent) (vs : List Val) (pos : Nat)
    (henv : ∀ k ∈ lleKinds, env.enumDecode "ENUM_DW_LLE" (k.code : Int) = some k.name)
    (hS : l.S.Dwarf_loclists_entries = (Spec.dwarfStructs cfg).Dwarf_loclists_entries)
    (hd : l.data.drop pos = encList cfg.le cfg.asz es ++ rest)
    (hwf : ∀ e ∈ es, e.wf lleKinds cfg.asz = true)
    (haddr : ∀ i a, addrOf addrs i = some a → cuAddr env secs (some cu) (.int i) = .ok (.int a))
    (hsp : translateList (fun o e => Spec.Lists.translateLoc (addrOf addrs) cfg.asz o e) cfg.asz pos es = some vs) :
    parseLocV5 env secs l pos (some cu) = .ok (vs, pos + listSize cfg.asz es) := by
  have hm := ListsFetch.mapM_translate (Model.Lists.translateLoc env secs (some cu))
    (fun o e => Spec.Lists.translateLoc (addrOf addrs) cfg.asz o e) cfg.asz es pos vs
    (fun e he o v h => ListsV5.translateLoc_exact env secs (some cu) addrs cfg.asz o e v (hwf e he) haddr h) hsp
  unfold parseLocV5
  rw [hS, structParse_loclists_at env cfg l.data rest pos es henv hwf hd]
  simp [mapEntries, hm, bind, Except.bind, pure, Except.pure]

/-! ### 5. DWARF 5: the walk inside a unit block -/

/-- what the walk needs to know about one laid-out DWARF 5 object -/
def ObjOk5 (env : Env) (secs : Secs) (asz : Nat) (sc : Scan) (e : Nat × Nat × LocObj (List Nat × List Ent)) : Prop :=
  e.2.2.viewsOk = true ∧ (∀ x ∈ e.2.2.list.2, x.wf lleKinds asz = true)
    ∧ dictGet? sc.locviews (e.1 : Int) = e.2.2.views.map (fun _ => (e.2.1 : Int))
    ∧ ∃ cu, dictGet? sc.cuMap (e.2.1 : Int) = some cu
        ∧ ∀ i a, addrOf e.2.2.list.1 i = some a → cuAddr env secs (some cu) (.int i) = .ok (.int a)

/-- the translation of a list with its unit's address array -/
def obsL5 (asz : Nat) (off : Nat) (x : List Nat × List Ent) : Option (List Val) :=
  translateList (fun o e => Spec.Lists.translateLoc (addrOf x.1) asz o e) asz off x.2

theorem getElem?_of_drop {α} {l : List α} {i : Nat} {x : α} {t : List α} (h : l.drop i = x :: t) :
    l[i]? = some x := (drop_cons_inv h).1

theorem getElem?_of_drop_head {α} {l : List α} {i : Nat} {t : List α} (h : l.drop i = t) :
    l[i]? = t.head? := by
  rw [← h, List.head?_drop]

theorem locUnitLoop_ok (env : Env) (secs : Secs) (cfg : DwarfCfg) (l : Lists) (sc : Scan) (tail rest : Bytes)
    (later : List Int)
    (henv : ∀ k ∈ lleKinds, env.enumDecode "ENUM_DW_LLE" (k.code : Int) = some k.name)
    (hS : l.S.Dwarf_loclists_entries = (Spec.dwarfStructs cfg).Dwarf_loclists_entries)
    (hV : l.S.Dwarf_locview_pair = (Spec.dwarfStructs cfg).Dwarf_locview_pair) (cuEnd : Nat)
    (hlater : ∀ x ∈ later.head?, (cuEnd : Int) < x) (hsmall : cuEnd < 2 ^ 63) :
    ∀ (objs : List (LocObj (List Nat × List Ent))) (g0 : Bytes) (fuel pos idx : Nat) (acc outs : List (List Val)),
      2 * objs.length + 2 ≤ fuel →
      l.data.drop pos = g0 ++ (encObjs (fun x => encList cfg.le cfg.asz x.2) cfg.le objs ++ (tail ++ rest)) →
      cuEnd = pos + g0.length + (encObjs (fun x => encList cfg.le cfg.asz x.2) cfg.le objs).length + tail.length →
      sc.allOffsets.drop idx
        = (layout (fun x => listSize cfg.asz x.2) (pos + g0.length) objs).map (fun e => (e.1 : Int)) ++ later →
      (∀ e ∈ layout (fun x => listSize cfg.asz x.2) (pos + g0.length) objs, ObjOk5 env secs cfg.asz sc e) →
      obsObjs (obsL5 cfg.asz) (layout (fun x => listSize cfg.asz x.2) (pos + g0.length) objs) = some outs →
      locUnitLoop env secs l sc (cuEnd : Int) fuel pos idx acc
        = .ok (cuEnd, idx + objs.length, outs.reverse ++ acc) := by
  intro objs
  induction objs with
  | nil =>
    intro g0 fuel pos idx acc outs hf hd hce hoff _ hobs
    simp only [encObjs, List.flatMap_nil, List.nil_append, List.length_nil, Nat.add_zero, layout, List.map_nil] at hd hce hoff
    simp only [layout, obsObjs, Option.some.injEq] at hobs
    subst hobs
    have hidx := getElem?_of_drop_head hoff
    cases fuel with
    | zero => omega
    | succ fuel =>
      rw [locUnitLoop]
      by_cases hp : pos < cuEnd
      · rw [if_pos (by omega)]
        simp only [hidx]
        have hgo : (match seekInt (cuEnd : Int) with
            | Except.error e => Except.error e
            | Except.ok p => locUnitLoop env secs l sc (cuEnd : Int) fuel p idx acc)
            = Except.ok (cuEnd, idx + ([] : List (LocObj (List Nat × List Ent))).length, ([] : List (List Val)).reverse ++ acc) := by
          rw [ListsV4.seekInt_nat hsmall]
          simp only []
          cases fuel with
          | zero => omega
          | succ fuel =>
            rw [locUnitLoop, if_neg (by omega)]
            simp
        cases hh : later.head? with
        | none =>
          simp only []
          rw [if_neg (by omega), if_neg (show ¬ ((cuEnd : Int) > (cuEnd : Int)) by omega)]
          exact hgo
        | some x =>
          have := hlater x (by rw [hh]; simp)
          simp only []
          rw [if_neg (by omega), if_pos (by omega)]
          exact hgo
      · rw [if_neg (by omega)]
        have : pos = cuEnd := by omega
        subst this
        simp
  | cons o objs ih =>
    intro g0 fuel pos idx acc outs hf hd hce hoff hok hobs
    -- positions
    rw [encObjs_cons] at hd hce
    have hd0 : l.data.drop pos = (g0 ++ o.gap) ++ (o.viewsEnc cfg.le ++ (encList cfg.le cfg.asz o.list.2
        ++ (encObjs (fun x => encList cfg.le cfg.asz x.2) cfg.le objs ++ (tail ++ rest)))) := by
      rw [hd]; simp [List.append_assoc]
    have d1 := drop_add_of_drop hd0
    rw [List.length_append, ← Nat.add_assoc] at d1
    have d2 := drop_add_of_drop d1
    rw [viewsEnc_length] at d2
    have d3 := drop_add_of_drop d2
    rw [ListsUnitLists.encList_length] at d3
    simp only [List.length_append, viewsEnc_length, ListsUnitLists.encList_length] at hce
    have hsz := ListsUnitLists.listSize_pos cfg.asz o.list.2
    simp only [layout, List.map_cons, List.cons_append] at hoff hok hobs
    have hidx := getElem?_of_drop hoff
    have hoff' := (drop_cons_inv hoff).2
    obtain ⟨hvok, hwf, hviews, cu, hcu, haddr⟩ := hok _ (List.mem_cons_self ..)
    simp only [] at hvok hwf hviews hcu haddr
    -- the expected output
    simp only [obsObjs] at hobs
    cases hvs : obsL5 cfg.asz (pos + g0.length + o.gap.length + o.viewsLen) o.list with
    | none => simp [hvs, bind, Option.bind] at hobs
    | some vs =>
      cases hmore : obsObjs (obsL5 cfg.asz) (layout (fun x => listSize cfg.asz x.2)
          (pos + g0.length + o.gap.length + o.viewsLen + listSize cfg.asz o.list.2) objs) with
      | none => simp [hvs, hmore, bind, Option.bind] at hobs
      | some more =>
        simp [hvs, hmore, bind, Option.bind, pure] at hobs
        subst hobs
        -- the step at the object
        have hstep : ∀ f, 2 * objs.length + 3 ≤ f →
            locUnitLoop env secs l sc (cuEnd : Int) f (pos + g0.length + o.gap.length) idx acc
              = .ok (cuEnd, idx + (objs.length + 1),
                  ((o.viewsObs (pos + g0.length + o.gap.length) ++ vs) :: more).reverse ++ acc) := by
          intro f hf'
          cases f with
          | zero => omega
          | succ f =>
            rw [locUnitLoop, if_pos (by omega)]
            simp only [hidx]
            rw [if_pos trivial]
            have hviews' : dictGet? sc.locviews ((pos + g0.length + o.gap.length : Nat) : Int)
                = o.views.map fun _ => ((pos + g0.length + o.gap.length + o.viewsLen : Nat) : Int) := hviews
            rw [parseLocviewPairs_obj env cfg l cfg.le _ hV sc.locviews o _ hviews' hvok d1]
            simp only [hcu]
            rw [parseLocV5_at env secs cfg l cu o.list.1 _ o.list.2 vs _ henv hS d2 hwf haddr hvs]
            simp only []
            rw [ih [] f _ (idx + 1) _ more (by omega) (by simpa using d3)
              (by simp only [List.length_nil]; omega) (by simpa using hoff')
              (by simpa using fun e he => hok e (List.mem_cons_of_mem _ he)) (by simpa using hmore)]
            simp [Nat.add_assoc, Nat.add_comm 1]
        by_cases hg : g0.length + o.gap.length = 0
        · have h0 : pos + g0.length + o.gap.length = pos := by omega
          have := hstep fuel (by simp at hf; omega)
          rw [h0] at this
          rw [h0]
          simpa using this
        · cases fuel with
          | zero => omega
          | succ fuel =>
            rw [locUnitLoop, if_pos (by omega)]
            simp only [hidx]
            rw [if_neg (by omega), if_neg (by omega), ListsV4.seekInt_nat (by omega)]
            simp only []
            simpa using hstep fuel (by simp at hf; omega)

theorem obsObjs_append {α} (obsL : Nat → α → Option (List Val)) :
    ∀ (a b : List (Nat × Nat × LocObj α)) (outs : List (List Val)),
      obsObjs obsL (a ++ b) = some outs →
      ∃ o1 o2, obsObjs obsL a = some o1 ∧ obsObjs obsL b = some o2 ∧ outs = o1 ++ o2 := by
  intro a
  induction a with
  | nil => intro b outs h; exact ⟨[], outs, rfl, by simpa using h, rfl⟩
  | cons e a ih =>
    intro b outs h
    obtain ⟨vo, lo, o⟩ := e
    simp only [List.cons_append, obsObjs] at h ⊢
    cases hvs : obsL lo o.list with
    | none => simp [hvs, bind, Option.bind] at h
    | some vs =>
      cases hm : obsObjs obsL (a ++ b) with
      | none => simp [hvs, hm, bind, Option.bind] at h
      | some more =>
        simp [hvs, hm, bind, Option.bind, pure] at h
        subst h
        obtain ⟨o1, o2, h1, h2, h3⟩ := ih b more hm
        exact ⟨(o.viewsObs vo ++ vs) :: o1, o2, by simp [h1, bind, Option.bind, pure], h2, by simp [h3]⟩

/-! ### 6. DWARF 5: unit block after unit block -/

theorem layout_bound {α} (enc : α → Bytes) (sz : α → Nat) (le : Bool) (hsz : ∀ x, (enc x).length = sz x) :
    ∀ (objs : List (LocObj α)) (off : Nat), ∀ e ∈ layout sz off objs,
      e.2.1 + sz e.2.2.list ≤ off + (encObjs enc le objs).length ∧ e.2.2 ∈ objs := by
  intro objs
  induction objs with
  | nil => intro off e he; simp [layout] at he
  | cons o objs ih =>
    intro off e he
    have hlen : (encObjs enc le (o :: objs)).length
        = o.gap.length + (o.viewsLen + (sz o.list + (encObjs enc le objs).length)) := by
      rw [encObjs_cons]; simp only [List.length_append, viewsEnc_length, hsz]
    simp only [layout, List.mem_cons] at he
    rcases he with rfl | he
    · exact ⟨by simp only []; omega, by simp⟩
    · obtain ⟨h1, h2⟩ := ih _ e he
      exact ⟨by omega, by simp [h2]⟩

theorem body_length (le : Bool) (asz : Nat) (u : LocUnit) :
    (u.body le asz).length = (encObjs (fun x => encList le asz x.2) le u.objs).length + u.tail.length := by
  simp [LocUnit.body]

theorem unit_size (le : Bool) (asz : Nat) (u : LocUnit) :
    u.hdr.size (u.body le asz) = u.hdr.lenSize + 8 + u.hdr.osz * u.hdr.offsets.length
      + (encObjs (fun x => encList le asz x.2) le u.objs).length + u.tail.length := by
  simp only [UnitHdr.size, UnitHdr.innerLen, body_length]; omega

theorem lenSize_ge (u : UnitHdr) : 4 ≤ u.lenSize := by
  unfold UnitHdr.lenSize; split <;> omega

/-- the objects of a run of unit blocks: each list follows its views, lies after its block's header, belongs to a
    block; objects lie one after the other -/
theorem layoutUnits_props (le : Bool) (asz : Nat) :
    ∀ (us : List LocUnit) (off : Nat),
      (∀ e ∈ layoutUnits le asz off us, e.2.1 = e.1 + e.2.2.viewsLen ∧ off + 12 ≤ e.1
          ∧ ∃ u ∈ us, e.2.2 ∈ u.objs)
      ∧ (layoutUnits le asz off us).Pairwise (fun a b => a.2.1 < b.1) := by
  intro us
  induction us with
  | nil => intro off; simp [layoutUnits]
  | cons u us ih =>
    intro off
    obtain ⟨i1, i2⟩ := ih (off + u.hdr.size (u.body le asz))
    obtain ⟨s1, s2⟩ := layout_separated (fun x : List Nat × List Ent => listSize asz x.2)
      (fun x => ListsUnitLists.listSize_pos asz x.2) u.objs (off + u.hdr.lenSize + 8 + u.hdr.osz * u.hdr.offsets.length)
    have hb := layout_bound (fun x : List Nat × List Ent => encList le asz x.2) (fun x => listSize asz x.2) le
      (fun x => ListsUnitLists.encList_length le asz x.2) u.objs
      (off + u.hdr.lenSize + 8 + u.hdr.osz * u.hdr.offsets.length)
    have hl := lenSize_ge u.hdr
    have hsz := unit_size le asz u
    constructor
    · intro e he
      simp only [layoutUnits, List.mem_append] at he
      rcases he with he | he
      · have := s1 e he
        exact ⟨this.1, by omega, u, by simp, (hb e he).2⟩
      · obtain ⟨h1, h2, u', hu', h3⟩ := i1 e he
        exact ⟨h1, by omega, u', by simp [hu'], h3⟩
    · simp only [layoutUnits]
      rw [List.pairwise_append]
      refine ⟨s2, i2, ?_⟩
      intro a ha b hb'
      have h1 := (hb a ha).1
      have h2 := (i1 b hb').2.1
      have := ListsUnitLists.listSize_pos asz a.2.2.list.2
      omega

theorem layoutUnits_length_ge (le : Bool) (asz : Nat) :
    ∀ (us : List LocUnit) (off : Nat), ∀ u ∈ us, u.objs.length ≤ (layoutUnits le asz off us).length := by
  intro us
  induction us with
  | nil => intro off u hu; simp at hu
  | cons u' us ih =>
    intro off u hu
    simp only [layoutUnits, List.length_append, layout_length]
    rcases List.mem_cons.mp hu with rfl | hu
    · omega
    · have := ih (off + u'.hdr.size (u'.body le asz)) u hu
      omega

theorem encLocUnits_length_ge (le : Bool) (asz : Nat) (us : List LocUnit) :
    us.length ≤ (encLocUnits le asz us).length := by
  induction us with
  | nil => simp
  | cons u us ih =>
    have := ListsUnits.size_ge u.hdr (u.body le asz)
    simp only [encLocUnits, List.flatMap_cons, List.length_append, ListsUnits.encUnit_length, List.length_cons] at ih ⊢
    omega

theorem attr_version (u : UnitHdr) (pos : Nat) (body : Bytes) :
    attr (.record (u.obsFields pos body)) "version" = .ok (.int 5) := by
  simp [attr, UnitHdr.obsFields, Fields.get?]

theorem locSectionLoop_ok (env : Env) (secs : Secs) (cfg : DwarfCfg) (l : Lists) (sc : Scan)
    (henv : ∀ k ∈ lleKinds, env.enumDecode "ENUM_DW_LLE" (k.code : Int) = some k.name)
    (hS : l.S.Dwarf_loclists_entries = (Spec.dwarfStructs cfg).Dwarf_loclists_entries)
    (hV : l.S.Dwarf_locview_pair = (Spec.dwarfStructs cfg).Dwarf_locview_pair)
    (hH : l.S.Dwarf_loclists_CU_header = (Spec.dwarfStructs cfg).Dwarf_loclists_CU_header)
    (inner : Nat) (hsmall : l.data.length < 2 ^ 63) :
    ∀ (us : List LocUnit) (fuel pos idx : Nat) (acc outs : List (List Val)),
      us.length + 1 ≤ fuel →
      (∀ u ∈ us, 2 * u.objs.length + 2 ≤ inner) →
      (∀ u ∈ us, u.hdr.wf (u.body cfg.le cfg.asz) = true) →
      l.data.drop pos = encLocUnits cfg.le cfg.asz us →
      sc.allOffsets.drop idx = (layoutUnits cfg.le cfg.asz pos us).map (fun e => (e.1 : Int)) →
      (∀ e ∈ layoutUnits cfg.le cfg.asz pos us, ObjOk5 env secs cfg.asz sc e) →
      obsObjs (obsL5 cfg.asz) (layoutUnits cfg.le cfg.asz pos us) = some outs →
      locSectionLoop env secs l sc inner fuel pos idx acc = .ok (acc.reverse ++ outs) := by
  intro us
  induction us with
  | nil =>
    intro fuel pos idx acc outs hf _ _ hd _ _ hobs
    simp only [layoutUnits, obsObjs, Option.some.injEq] at hobs
    subst hobs
    have hl := length_of_drop hd
    simp only [encLocUnits, List.flatMap_nil, List.length_nil] at hl
    cases fuel with
    | zero => omega
    | succ fuel =>
      rw [locSectionLoop, if_neg (by omega)]
      simp
  | cons u us ih =>
    intro fuel pos idx acc outs hf hin hwf hd hoff hok hobs
    have hd0 : l.data.drop pos = encUnit cfg.le u.hdr (u.body cfg.le cfg.asz) ++ encLocUnits cfg.le cfg.asz us := by
      rw [hd]; simp [encLocUnits]
    have hl := length_of_drop hd0
    rw [List.length_append, ListsUnits.encUnit_length] at hl
    have hge := ListsUnits.size_ge u.hdr (u.body cfg.le cfg.asz)
    have hsz := unit_size cfg.le cfg.asz u
    have hdr := ListsUnits.structParse_header_at env cfg u.hdr (u.body cfg.le cfg.asz) _ l.data pos
      (hwf u (by simp)) hd0
    have hbody := ListsUnits.drop_after_header cfg.le u.hdr (u.body cfg.le cfg.asz) _ hd0
    have hbody' : l.data.drop (pos + u.hdr.lenSize + 8) = encOffsets cfg.le u.hdr.osz u.hdr.offsets
        ++ (encObjs (fun x => encList cfg.le cfg.asz x.2) cfg.le u.objs
          ++ (u.tail ++ encLocUnits cfg.le cfg.asz us)) := by
      rw [hbody]; simp [LocUnit.body, List.append_assoc]
    simp only [layoutUnits, List.map_append] at hoff
    simp only [layoutUnits] at hok hobs
    obtain ⟨o1, o2, ho1, ho2, rfl⟩ := obsObjs_append _ _ _ _ hobs
    have hprops := (layoutUnits_props cfg.le cfg.asz us (pos + u.hdr.size (u.body cfg.le cfg.asz))).1
    have hlater : ∀ x ∈ ((layoutUnits cfg.le cfg.asz (pos + u.hdr.size (u.body cfg.le cfg.asz)) us).map
        (fun e => (e.1 : Int))).head?, ((pos + u.hdr.size (u.body cfg.le cfg.asz) : Nat) : Int) < x := by
      intro x hx
      have hm := List.mem_of_mem_head? hx
      obtain ⟨e, he, rfl⟩ := List.mem_map.mp hm
      have := (hprops e he).2.1
      omega
    have hg0 : (pos + u.hdr.lenSize + 8 + (encOffsets cfg.le u.hdr.osz u.hdr.offsets).length)
        = pos + u.hdr.lenSize + 8 + u.hdr.osz * u.hdr.offsets.length := by
      rw [ListsUnits.encOffsets_length]
    have hunit := locUnitLoop_ok env secs cfg l sc u.tail (encLocUnits cfg.le cfg.asz us) _ henv hS hV
      (pos + u.hdr.size (u.body cfg.le cfg.asz)) hlater (by omega) u.objs
      (encOffsets cfg.le u.hdr.osz u.hdr.offsets) inner (pos + u.hdr.lenSize + 8) idx acc o1
      (hin u (by simp)) hbody' (by rw [ListsUnits.encOffsets_length]; omega)
      (by rw [hg0]; exact hoff)
      (by rw [hg0]; exact fun e he => hok e (List.mem_append_left _ he))
      (by rw [hg0]; exact ho1)
    have hcast : ((pos + u.hdr.lenSize : Nat) : Int) + ((u.hdr.innerLen (u.body cfg.le cfg.asz) : Nat) : Int)
        = ((pos + u.hdr.size (u.body cfg.le cfg.asz) : Nat) : Int) := by
      simp only [UnitHdr.size]; omega
    have hoff2 : sc.allOffsets.drop (idx + u.objs.length)
        = (layoutUnits cfg.le cfg.asz (pos + u.hdr.size (u.body cfg.le cfg.asz)) us).map (fun e => (e.1 : Int)) := by
      have := drop_add_of_drop hoff
      rwa [List.length_map, layout_length] at this
    cases fuel with
    | zero => omega
    | succ fuel =>
      rw [locSectionLoop, if_pos (by omega), hH, ListsUnits.loc_hdr_eq, hdr]
      simp only [bind, Except.bind, attr_version, ListsUnits.attr_oal, ListsUnits.attr_ul, Val.asInt,
        ListsV4.valInt_beq, beq_self_eq_true, Bool.not_true, Bool.false_eq_true, if_false, hcast, hunit]
      rw [ih fuel _ _ _ o2 (by simp at hf; omega) (fun x hx => hin x (by simp [hx]))
        (fun x hx => hwf x (by simp [hx])) (by
          have := drop_add_of_drop hd0
          rwa [ListsUnits.encUnit_length] at this) hoff2
        (fun e he => hok e (List.mem_append_right _ he)) ho2]
      simp

/-! ### 7. the scan against a layout, and the two enumerations -/

/-- the three containers after the scan, when the references agree with a layout -/
theorem scan_facts {α} (env : Env) (secs : Secs) (ver5 : Bool) (dec : Cu → List RawAttr → List Attr)
    (cus : List Cu) (refs : List (LocRef × Cu)) (lay : List (Nat × Nat × LocObj α))
    (hdec : ∀ cu ∈ cus, (decide (cu.version ≥ 5) == ver5) = true →
      ∀ die ∈ cu.dies, dieAttrs env secs cu die = .ok (dec cu die))
    (hrefs : ListsLocScan.locRefs dec ver5 cus = some refs)
    (h1 : ∀ e ∈ lay, e.2.1 = e.1 + e.2.2.viewsLen) (h2 : lay.Pairwise (fun a b => a.2.1 < b.1))
    (hagree : refsAgree (refs.map (·.1)) (lay.map layoutRef) = true) :
    ∃ sc, scanDies env secs ver5 cus = .ok sc ∧ sc.allOffsets = lay.map (fun e => (e.1 : Int))
      ∧ ∀ e ∈ lay, dictGet? sc.locviews (e.1 : Int) = e.2.2.views.map (fun _ => (e.2.1 : Int))
          ∧ ∃ cu, dictGet? sc.cuMap (e.2.1 : Int) = some cu ∧ (layoutRef e, cu) ∈ refs := by
  have hsep := separated_of_layout lay h1 h2
  refine ⟨_, ListsLocScan.scanDies_refs env secs ver5 dec cus refs hdec hrefs, ?_, ?_⟩
  · show sortedSet (ListsLocScan.applyRefs {} refs).allOffsets = _
    rw [ListsLocScan.allOffsets_eq refs _ hsep hagree, List.map_map]
    apply List.map_congr_left
    intro e he
    exact key_layoutRef e (h1 e he)
  · intro e he
    have hk : layoutRef e ∈ lay.map layoutRef := List.mem_map.mpr ⟨e, he, rfl⟩
    constructor
    · have := ListsLocScan.locviews_get refs _ hsep hagree (layoutRef e) hk
      rw [key_layoutRef e (h1 e he)] at this
      show dictGet? (ListsLocScan.applyRefs {} refs).locviews (e.1 : Int) = _
      rw [this]
      simp only [layoutRef, Option.map_map]
      rfl
    · exact ListsLocScan.cuMap_get refs _ hsep hagree (layoutRef e) hk

theorem encV4Loc_length (le : Bool) (asz : Nat) (es : List V4Loc) :
    (encV4Loc le asz es).length = v4LocSize asz es := by
  induction es with
  | nil => simp [encV4Loc, v4End, v4LocSize, encNat_length]
  | cons e es ih =>
    rw [ListsV4.encV4Loc_cons, List.length_append, ListsV4.V4Loc.enc_length, ih]
    simp only [v4LocSize, List.map_cons, List.sum_cons]
    omega

/-- `iter_location_lists()` on a .debug_loc section -/
theorem iterLocationLists_v4 (env : Env) (secs : Secs) (cfg : DwarfCfg) (l : Lists) (cus : List Cu)
    (dec : Cu → List RawAttr → List Attr) (refs : List (LocRef × Cu))
    (objs : List (LocObj (List V4Loc))) (tail : Bytes) (outs : List (List Val))
    (hS : l.S = Spec.dwarfStructs cfg) (ha : l.asz = cfg.asz) (hasz : 1 ≤ cfg.asz) (hv : l.version < 5)
    (hd : l.data = encObjs (encV4Loc cfg.le cfg.asz) cfg.le objs ++ tail)
    (hsmall : l.data.length < 2 ^ 63)
    (hdec : ∀ cu ∈ cus, (decide (cu.version ≥ 5) == false) = true →
      ∀ die ∈ cu.dies, dieAttrs env secs cu die = .ok (dec cu die))
    (hrefs : ListsLocScan.locRefs dec false cus = some refs)
    (hobj : ∀ o ∈ objs, o.viewsOk = true ∧ ∀ x ∈ o.list, x.wf cfg.asz = true)
    (hagree : refsAgree (refs.map (·.1)) ((layout (v4LocSize cfg.asz) 0 objs).map layoutRef) = true)
    (hobs : obsObjs (fun off es => some (obsV4Loc cfg.asz off es)) (layout (v4LocSize cfg.asz) 0 objs) = some outs) :
    iterLocationLists env secs l cus = .ok outs := by
  have hszp : ∀ x : List V4Loc, 1 ≤ v4LocSize cfg.asz x := fun x => by simp only [v4LocSize]; omega
  have hmem := layout_mem (encV4Loc cfg.le cfg.asz) (v4LocSize cfg.asz) cfg.le
    (encV4Loc_length cfg.le cfg.asz) l.data tail objs 0 (by rw [hd]; simp)
  have hsep := layout_separated (v4LocSize cfg.asz) hszp objs 0
  obtain ⟨sc, hscan, hall, hfacts⟩ := scan_facts env secs false dec cus refs _ hdec hrefs
    (fun e he => (hsep.1 e he).1) hsep.2 hagree
  have hlen : (encObjs (encV4Loc cfg.le cfg.asz) cfg.le objs).length ≤ l.data.length := by
    rw [hd]; simp
  have hok : ∀ e ∈ layout (v4LocSize cfg.asz) 0 objs, ObjOk4 l cfg.le sc e := by
    intro e he
    obtain ⟨m1, _, m3, m4, rest', m5⟩ := hmem e he
    obtain ⟨f1, cu, f2, f3⟩ := hfacts e he
    have hgen := (ListsLocScan.locRefs_gen dec false cus refs hrefs _ f3).2
    have hw := hobj _ m4
    have := hszp e.2.2.list
    refine ⟨m1, by omega, hw.1, by rw [ha]; exact hw.2, f1, ⟨cu, f2, ?_⟩, rest', by rw [ha]; exact m5⟩
    simp only [] at hgen
    simpa using hgen
  rw [obsObjs_v4, Option.some.injEq] at hobs
  subst hobs
  have hv' : ¬ (l.version ≥ 5) := by omega
  unfold iterLocationLists
  simp only [hv', decide_false, hscan, bind, Except.bind, Bool.false_eq_true, if_false]
  rw [hall, locV4Loop_ok env cfg l cfg.le sc (by rw [hS]) (by rw [hS, ha]; rfl) (by rw [hS]; rfl) (by rw [hS]; rfl)
    (by omega) _ [] hok]
  simp [ha]

/-- `iter_location_lists()` on a .debug_loclists section -/
theorem iterLocationLists_v5 (env : Env) (secs : Secs) (cfg : DwarfCfg) (l : Lists) (cus : List Cu)
    (dec : Cu → List RawAttr → List Attr) (refs : List (LocRef × Cu))
    (us : List LocUnit) (outs : List (List Val))
    (henv : ∀ k ∈ lleKinds, env.enumDecode "ENUM_DW_LLE" (k.code : Int) = some k.name)
    (hS : l.S = Spec.dwarfStructs cfg) (hv : 5 ≤ l.version)
    (hd : l.data = encLocUnits cfg.le cfg.asz us)
    (hsmall : l.data.length < 2 ^ 63)
    (hdec : ∀ cu ∈ cus, (decide (cu.version ≥ 5) == true) = true →
      ∀ die ∈ cu.dies, dieAttrs env secs cu die = .ok (dec cu die))
    (hrefs : ListsLocScan.locRefs dec true cus = some refs)
    (hhdr : ∀ u ∈ us, u.hdr.wf (u.body cfg.le cfg.asz) = true)
    (hobj : ∀ u ∈ us, ∀ o ∈ u.objs, o.viewsOk = true ∧ ∀ x ∈ o.list.2, x.wf lleKinds cfg.asz = true)
    (hagree : refsAgree (refs.map (·.1)) ((layoutUnits cfg.le cfg.asz 0 us).map layoutRef) = true)
    (haddr : ∀ rc ∈ refs, ∀ e ∈ layoutUnits cfg.le cfg.asz 0 us, rc.1 = layoutRef e →
      ∀ i a, addrOf e.2.2.list.1 i = some a → cuAddr env secs (some rc.2) (.int i) = .ok (.int a))
    (hobs : obsObjs (obsL5 cfg.asz) (layoutUnits cfg.le cfg.asz 0 us) = some outs) :
    iterLocationLists env secs l cus = .ok outs := by
  obtain ⟨p1, p2⟩ := layoutUnits_props cfg.le cfg.asz us 0
  obtain ⟨sc, hscan, hall, hfacts⟩ := scan_facts env secs true dec cus refs _ hdec hrefs
    (fun e he => (p1 e he).1) p2 hagree
  have hok : ∀ e ∈ layoutUnits cfg.le cfg.asz 0 us, ObjOk5 env secs cfg.asz sc e := by
    intro e he
    obtain ⟨_, _, u, hu, ho⟩ := p1 e he
    obtain ⟨f1, cu, f2, f3⟩ := hfacts e he
    have hw := hobj u hu _ ho
    exact ⟨hw.1, hw.2, f1, cu, f2, haddr _ f3 e he rfl⟩
  have hv' : l.version ≥ 5 := hv
  have hcnt := encLocUnits_length_ge cfg.le cfg.asz us
  have hdl : (encLocUnits cfg.le cfg.asz us).length = l.data.length := by rw [hd]
  have hlen : sc.allOffsets.length = (layoutUnits cfg.le cfg.asz 0 us).length := by rw [hall]; simp
  unfold iterLocationLists
  simp only [hv', decide_true, hscan, bind, Except.bind, if_true]
  have := locSectionLoop_ok env secs cfg l sc henv (by rw [hS]) (by rw [hS]) (by rw [hS])
    (2 * (l.data.length + sc.allOffsets.length) + 8) hsmall us
    (2 * (l.data.length + sc.allOffsets.length) + 8) 0 0 [] outs (by omega)
    (fun u hu => by
      have := layoutUnits_length_ge cfg.le cfg.asz us 0 u hu
      omega)
    hhdr (by rw [hd]; rfl) (by rw [hall]; rfl) hok hobs
  simpa using this

/-! ### 8. non-vacuity: a .debug_loc run and a two-block .debug_loclists section with their debugging entries -/

def demoObjs : List (LocObj (List V4Loc)) :=
  [⟨[0xAA, 0xBB], some [(.uleb 1 1, .uleb 2 2)], [.loc 1 2 [0x50], .base 7]⟩, ⟨[0xCC], none, []⟩]

def demoCfg : DwarfCfg := ⟨true, 32, 4, 2⟩

def demoCu : Cu := ⟨4, 4, 32, Spec.dwarfStructs ⟨true, 32, 4, 4⟩,
  [[⟨"DW_AT_low_pc", "DW_FORM_addr", .int 0⟩],
   [⟨"DW_AT_GNU_locviews", "DW_FORM_sec_offset", .int 2⟩, ⟨"DW_AT_location", "DW_FORM_sec_offset", .int 5⟩],
   [⟨"DW_AT_frame_base", "DW_FORM_sec_offset", .int 33⟩, ⟨"DW_AT_upper_bound", "DW_FORM_data1", .int 9⟩]]⟩

def demoCu5 : Cu := ⟨5, 4, 32, Spec.dwarfStructs ⟨true, 32, 4, 5⟩, [[⟨"DW_AT_location", "DW_FORM_loclistx", .int 0⟩]]⟩

def demoDec : Cu → List RawAttr → List Attr := fun _ die => attrDict (die.map fun a => ⟨a.name, a.form, a.raw⟩)

def demoL : Lists :=
  { data := encObjs (encV4Loc true 4) true demoObjs ++ [1, 2, 3], S := Spec.dwarfStructs demoCfg, asz := 4, version := 4 }

theorem demo_plain : ∀ die ∈ demoCu.dies, ∀ a ∈ die, a.form ≠ "DW_FORM_loclistx" ∧ a.form ≠ "DW_FORM_rnglistx" := by
  intro die hdie a ha
  simp only [demoCu, List.mem_cons, List.not_mem_nil, or_false] at hdie
  rcases hdie with rfl | rfl | rfl <;> simp only [List.mem_cons, List.not_mem_nil, or_false] at ha
  · subst ha; decide
  · rcases ha with rfl | rfl <;> decide
  · rcases ha with rfl | rfl <;> decide

def kBase : Kind := ⟨6, "DW_LLE_base_address", [("address", .addr)]⟩

def kPair : Kind := ⟨4, "DW_LLE_offset_pair", [("start_offset", .uleb), ("end_offset", .uleb), ("loc_expr", .cld)]⟩

def demoUs : List LocUnit :=
  [⟨⟨false, 4, 0, [4]⟩,
    [⟨[], none, ([], [⟨kBase, [.addr 0x1000]⟩, ⟨kPair, [.uleb 1 1, .uleb 1 2, .cld 1 [0x50]]⟩])⟩,
     ⟨[0xEE], some [(.uleb 1 3, .uleb 1 4)], ([], [⟨kPair, [.uleb 1 1, .uleb 1 2, .cld 1 [0x50]]⟩])⟩],
    [0, 0]⟩,
   ⟨⟨true, 8, 0, []⟩, [], []⟩]

def demoCuV5 : Cu := ⟨5, 4, 32, Spec.dwarfStructs ⟨true, 32, 4, 5⟩,
  [[⟨"DW_AT_loclists_base", "DW_FORM_sec_offset", .int 12⟩],
   [⟨"DW_AT_location", "DW_FORM_sec_offset", .int 16⟩],
   [⟨"DW_AT_GNU_locviews", "DW_FORM_sec_offset", .int 28⟩, ⟨"DW_AT_location", "DW_FORM_sec_offset", .int 30⟩]]⟩

def demoL5 : Lists := { data := encLocUnits true 4 demoUs, S := Spec.dwarfStructs demoCfg, asz := 4, version := 5 }

theorem demo_plain5 : ∀ die ∈ demoCuV5.dies, ∀ a ∈ die, a.form ≠ "DW_FORM_loclistx" ∧ a.form ≠ "DW_FORM_rnglistx" := by
  intro die hdie a ha
  simp only [demoCuV5, List.mem_cons, List.not_mem_nil, or_false] at hdie
  rcases hdie with rfl | rfl | rfl <;> simp only [List.mem_cons, List.not_mem_nil, or_false] at ha
  · subst ha; decide
  · subst ha; decide
  · rcases ha with rfl | rfl <;> decide

end PyElf.Proofs.ListsLocWalk
