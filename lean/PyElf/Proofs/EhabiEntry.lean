/-
  C20, index/handler table entries: the model of `EHABIInfo.get_entry` (Model/Ehabi.lean) against the
  EHABI reference decoder (Spec/Ehabi.lean).

  * `prel31_eq_std`   : the machine-translated `arm_expand_prel31` is the standard's prel31 expansion;
  * `parse_table_struct`, `parse_index_struct` : the construct structs read 32-bit words (`wordAt`);
  * `moreWords_eq`    : the additional-words loop of the long compact forms;
  * `getEntry_eq_std` : `get_entry` classifies and unpacks every entry as the reference decoder does.
-/
import PyElf.Proofs.Primitives
import PyElf.Model.Ehabi
import PyElf.Spec.DwarfStructs
namespace PyElf.Proofs
open PyElf PyElf.Spec

/- helper lemmas live in `PyElf.Proofs.EhabiEntry`; the property theorems in `PyElf.Proofs` -/
namespace EhabiEntry
end EhabiEntry
open EhabiEntry

/-! ### Python integer operators on naturals -/

namespace EhabiEntry

theorem land_nat (a b : Nat) : PyInt.land (a : Int) (b : Int) = ((a &&& b : Nat) : Int) := rfl

theorem lor_nat (a b : Nat) : PyInt.lor (a : Int) (b : Int) = ((a ||| b : Nat) : Int) := rfl

theorem shr_nat (a k : Nat) : PyInt.shr (a : Int) k = ((a / 2 ^ k : Nat) : Int) := by
  simp [PyInt.shr, Int.natCast_ediv]

/-- masking with a shifted block of ones: the field `w / 2^k % 2^j`, in place -/
theorem and_shl_mask (w j k : Nat) : w &&& ((2 ^ j - 1) <<< k) = (w / 2 ^ k % 2 ^ j) * 2 ^ k := by
  rw [← Nat.and_two_pow_sub_one_eq_mod, ← Nat.shiftLeft_eq, ← Nat.shiftRight_eq_div_pow]
  apply Nat.eq_of_testBit_eq
  intro i
  simp only [Nat.testBit_and, Nat.testBit_shiftLeft, Nat.testBit_shiftRight]
  by_cases h : k ≤ i
  · simp [h, Nat.add_sub_cancel' h]
  · simp [h]

end EhabiEntry

/-- `arm_expand_prel31` (T3 translation of the Python) computes the EHABI place-relative expansion of
    the 31-bit offset held in a word, modulo 2^64. -/
theorem prel31_eq_std (w place : Nat) :
    Gen.Pure.arm_expand_prel31 (w : Int) (place : Int) = ((Spec.Ehabi.expand w place : Nat) : Int) := by
  have hx : w % 2 ^ 31 < 2 ^ 31 := Nat.mod_lt _ (by decide)
  have e1 : PyInt.land (w : Int) (2147483647 : Int) = ((w % 2 ^ 31 : Nat) : Int) := by
    show ((w &&& 2147483647 : Nat) : Int) = _
    rw [show (2147483647 : Nat) = 2 ^ 31 - 1 from rfl, Nat.and_two_pow_sub_one_eq_mod]
  have e2 : ∀ x : Nat, PyInt.land (x : Int) (1073741824 : Int) = ((x / 2 ^ 30 % 2 * 2 ^ 30 : Nat) : Int) := by
    intro x
    show ((x &&& 1073741824 : Nat) : Int) = _
    rw [show (1073741824 : Nat) = (2 ^ 1 - 1) <<< 30 from rfl, and_shl_mask]
  have e3 : ∀ x : Nat, x < 2 ^ 31 →
      PyInt.lor (x : Int) (18446744071562067968 : Int) = ((x + 18446744071562067968 : Nat) : Int) := by
    intro x hx
    show ((x ||| 18446744071562067968 : Nat) : Int) = _
    rw [show (18446744071562067968 : Nat) = (2 ^ 33 - 1) <<< 31 from rfl, or_shl_eq_add _ hx]
    rfl
  have e4 : ∀ y : Nat, PyInt.land (y : Int) (18446744073709551615 : Int) = ((y % 2 ^ 64 : Nat) : Int) := by
    intro y
    show ((y &&& 18446744073709551615 : Nat) : Int) = _
    rw [show (18446744073709551615 : Nat) = 2 ^ 64 - 1 from rfl, Nat.and_two_pow_sub_one_eq_mod]
  unfold Gen.Pure.arm_expand_prel31 Spec.Ehabi.expand Spec.Ehabi.prel31 toSigned
  simp only [e1, e2, show ((31 : Nat) - 1) = 30 from rfl]
  generalize w % 2 ^ 31 = x at hx
  by_cases hlt : x < 2 ^ 30
  · have h0 : x / 2 ^ 30 % 2 * 2 ^ 30 = 0 := by omega
    have hc : ((((0 : Nat) : Int) != (0 : Int)) = true) = False := by simp
    have e5 : (x : Int) + (place : Int) = ((x + place : Nat) : Int) := by omega
    rw [h0]; simp only [hc, if_false, if_pos hlt]
    rw [e5, e4]
    omega
  · have h0 : x / 2 ^ 30 % 2 * 2 ^ 30 = 2 ^ 30 := by omega
    have hc : (((((2 : Nat) ^ 30 : Nat) : Int) != (0 : Int)) = true) = True := by simp
    have e5 : ((x + 18446744071562067968 : Nat) : Int) + (place : Int)
        = ((x + 18446744071562067968 + place : Nat) : Int) := by omega
    rw [h0]; simp only [hc, if_true, if_neg hlt]
    rw [e3 x hx, e5, e4]
    omega


/-! ### mask / shift expressions of `get_entry` on a 32-bit word -/

namespace EhabiEntry

theorem land_80000000 (w : Nat) :
    PyInt.land (w : Int) 0x80000000 = ((w / 2 ^ 31 % 2 * 2 ^ 31 : Nat) : Int) := by
  show ((w &&& 0x80000000 : Nat) : Int) = _
  rw [show (0x80000000 : Nat) = (2 ^ 1 - 1) <<< 31 from rfl, and_shl_mask]

theorem land_70000000 (w : Nat) :
    PyInt.land (w : Int) 0x70000000 = ((w / 2 ^ 28 % 8 * 2 ^ 28 : Nat) : Int) := by
  show ((w &&& 0x70000000 : Nat) : Int) = _
  rw [show (0x70000000 : Nat) = (2 ^ 3 - 1) <<< 28 from rfl, and_shl_mask]

theorem land_7f000000 (w : Nat) :
    PyInt.land (w : Int) 0x7f000000 = ((w / 2 ^ 24 % 128 * 2 ^ 24 : Nat) : Int) := by
  show ((w &&& 0x7f000000 : Nat) : Int) = _
  rw [show (0x7f000000 : Nat) = (2 ^ 7 - 1) <<< 24 from rfl, and_shl_mask]

theorem land_FF (w : Nat) : PyInt.land (w : Int) 0xFF = ((w % 256 : Nat) : Int) := by
  show ((w &&& 0xFF : Nat) : Int) = _
  rw [show (0xFF : Nat) = 2 ^ 8 - 1 from rfl, Nat.and_two_pow_sub_one_eq_mod]

theorem land_7f (w : Nat) : PyInt.land (w : Int) 0x7f = ((w % 128 : Nat) : Int) := by
  show ((w &&& 0x7f : Nat) : Int) = _
  rw [show (0x7f : Nat) = 2 ^ 7 - 1 from rfl, Nat.and_two_pow_sub_one_eq_mod]

theorem shr_land_FF0000 (w : Nat) :
    PyInt.shr (PyInt.land (w : Int) 0xFF0000) 16 = ((w / 2 ^ 16 % 256 : Nat) : Int) := by
  have : PyInt.land (w : Int) 0xFF0000 = ((w / 2 ^ 16 % 256 * 2 ^ 16 : Nat) : Int) := by
    show ((w &&& 0xFF0000 : Nat) : Int) = _
    rw [show (0xFF0000 : Nat) = (2 ^ 8 - 1) <<< 16 from rfl, and_shl_mask]
  rw [this, shr_nat, Nat.mul_div_cancel _ (by decide)]

theorem shr_land_FF00 (w : Nat) :
    PyInt.shr (PyInt.land (w : Int) 0xFF00) 8 = ((w / 2 ^ 8 % 256 : Nat) : Int) := by
  have : PyInt.land (w : Int) 0xFF00 = ((w / 2 ^ 8 % 256 * 2 ^ 8 : Nat) : Int) := by
    show ((w &&& 0xFF00 : Nat) : Int) = _
    rw [show (0xFF00 : Nat) = (2 ^ 8 - 1) <<< 8 from rfl, and_shl_mask]
  rw [this, shr_nat, Nat.mul_div_cancel _ (by decide)]

theorem land_shr_FF (w k : Nat) :
    PyInt.land (PyInt.shr (w : Int) k) 0xFF = ((w / 2 ^ k % 256 : Nat) : Int) := by
  rw [shr_nat, land_FF]

theorem land_shr_7f (w k : Nat) :
    PyInt.land (PyInt.shr (w : Int) k) 0x7f = ((w / 2 ^ k % 128 : Nat) : Int) := by
  rw [shr_nat, land_7f]

theorem byteOf_toNat (w sh : Nat) : (Spec.Ehabi.byteOf w sh).toNat = w / 2 ^ sh % 256 := by
  rw [Spec.Ehabi.byteOf, UInt8.toNat_ofNat']
  omega

/-! ### reading words -/

theorem leNat_lt (bs : Bytes) : leNat bs < 256 ^ bs.length := by
  induction bs with
  | nil => simp [leNat]
  | cons b bs ih =>
    have := b.toNat_lt
    simp only [leNat, List.length_cons, Nat.pow_succ]
    omega

theorem decNat_lt (le : Bool) (bs : Bytes) : decNat le bs < 256 ^ bs.length := by
  cases le
  · simpa [decNat, beNat] using leNat_lt bs.reverse
  · simpa [decNat] using leNat_lt bs

end EhabiEntry

theorem wordAt_lt {le : Bool} {data : Bytes} {off w : Nat}
    (h : Spec.Ehabi.wordAt le data off = some w) : w < 2 ^ 32 := by
  unfold Spec.Ehabi.wordAt at h
  simp only at h
  split at h
  · rename_i hl
    have := decNat_lt le (List.take 4 (List.drop off data))
    rw [hl] at this
    cases h
    exact this
  · cases h

namespace EhabiEntry

theorem parse_uint4 (env : Env) (le : Bool) (data : Bytes) (ctx : Fields) (off : Nat) :
    Con.parse env data (.uint 4 le) ctx off
      = match Spec.Ehabi.wordAt le data off with
        | some w => .ok (.int w, off + 4, ctx)
        | none => .error .elfParseError := by
  rw [Con.parse]
  unfold readExact readN Spec.Ehabi.wordAt
  simp only
  split <;> rfl

end EhabiEntry

/-- `struct_parse(EH_table_struct, stream, off)` reads the 32-bit word at `off` -/
theorem parse_table_struct (env : Env) (le : Bool) (data : Bytes) (off : Nat) :
    structParse env (Spec.ehabiStructs le).EH_table_struct data off
      = match Spec.Ehabi.wordAt le data off with
        | some w => .ok (.record [("word0", .int w)], off + 4)
        | none => .error .elfParseError := by
  simp only [structParse, Spec.ehabiStructs, Spec.st, Spec.f, Spec.mkFields]
  rw [Con.parse]
  simp only [Con.parseFields, parse_uint4]
  cases Spec.Ehabi.wordAt le data off <;> rfl

/-- `struct_parse(EH_index_struct, stream, off)` reads the two 32-bit words at `off`, `off + 4` -/
theorem parse_index_struct (env : Env) (le : Bool) (data : Bytes) (off : Nat) :
    structParse env (Spec.ehabiStructs le).EH_index_struct data off
      = match Spec.Ehabi.wordAt le data off, Spec.Ehabi.wordAt le data (off + 4) with
        | some w0, some w1 => .ok (.record [("word0", .int w0), ("word1", .int w1)], off + 8)
        | _, _ => .error .elfParseError := by
  simp only [structParse, Spec.ehabiStructs, Spec.st, Spec.f, Spec.mkFields]
  rw [Con.parse]
  simp only [Con.parseFields, parse_uint4]
  cases Spec.Ehabi.wordAt le data off with
  | none => rfl
  | some w0 =>
    simp only [bind, Except.bind, Bool.false_eq_true, if_false]
    cases Spec.Ehabi.wordAt le data (off + 4) <;> rfl

namespace EhabiEntry


theorem getInt_word0 (w : Int) (rest : Fields) :
    (Val.record (("word0", .int w) :: rest)).getInt "word0" = .ok w := rfl

theorem getInt_word1 (w0 w1 : Int) :
    (Val.record [("word0", .int w0), ("word1", .int w1)]).getInt "word1" = .ok w1 := rfl

end EhabiEntry

/-- the `for i in range(more_word)` loop reads exactly the additional words of the EHABI entry -/
theorem moreWords_eq (env : Env) (le : Bool) (data : Bytes) : ∀ (cnt pos : Nat) (acc : List Int),
    Model.Ehabi.moreWords env (Spec.ehabiStructs le) data cnt pos acc
      = match Spec.Ehabi.moreWords (Spec.Ehabi.wordAt le data) cnt pos with
        | some bs => .ok (acc ++ bs.map fun b => (b.toNat : Int))
        | none => .error .elfParseError := by
  intro cnt
  induction cnt with
  | zero => intro pos acc; simp [Model.Ehabi.moreWords, Spec.Ehabi.moreWords]
  | succ n ih =>
    intro pos acc
    rw [Model.Ehabi.moreWords, parse_table_struct, Spec.Ehabi.moreWords]
    cases Spec.Ehabi.wordAt le data pos with
    | none => rfl
    | some w =>
      simp only [bind, Except.bind, getInt_word0, ih, land_shr_FF]
      cases Spec.Ehabi.moreWords (Spec.Ehabi.wordAt le data) n (pos + 4) with
      | none => rfl
      | some more =>
        simp [Spec.Ehabi.wordBytes, byteOf_toNat]

namespace EhabiEntry


theorem land_80000000_eq_zero {w : Nat} (hw : w < 2 ^ 32) :
    PyInt.land (w : Int) 0x80000000 = 0 ↔ w < 2 ^ 31 := by
  rw [land_80000000]; omega

theorem land_70000000_eq_zero (w : Nat) :
    PyInt.land (w : Int) 0x70000000 = 0 ↔ w / 2 ^ 28 % 8 = 0 := by
  rw [land_70000000]; omega

theorem land_7f000000_eq_zero (w : Nat) :
    PyInt.land (w : Int) 0x7f000000 = 0 ↔ w / 2 ^ 24 % 128 = 0 := by
  rw [land_7f000000]; omega

theorem ints_bytes3 (w : Nat) :
    Model.Ehabi.ints [PyInt.shr (PyInt.land (w : Int) 0xFF0000) 16, PyInt.shr (PyInt.land (w : Int) 0xFF00) 8,
        PyInt.land (w : Int) 0xFF]
      = Spec.Ehabi.codeVal [Spec.Ehabi.byteOf w 16, Spec.Ehabi.byteOf w 8, Spec.Ehabi.byteOf w 0] := by
  rw [shr_land_FF0000, shr_land_FF00, land_FF]
  simp [Model.Ehabi.ints, Spec.Ehabi.codeVal, byteOf_toNat]

theorem parseAt_nat (env : Env) (c : Con) (data : Bytes) (p : Nat) (hp : p < 2 ^ 63) :
    Model.Ehabi.parseAt env c data (p : Int) = structParse env c data p := by
  unfold Model.Ehabi.parseAt
  rw [if_neg (by omega), if_neg (by omega), Int.toNat_natCast]

end EhabiEntry

/-- On every file image the model of `EHABIInfo.get_entry(n)` (for an index in range) classifies and
    unpacks the entry exactly as the EHABI reference decoder `Spec.Ehabi.decodeEntry`, and fails with
    ELFParseError exactly when the entry refers outside the file.  `hplace`: the index entry lies
    below 2^63; `htab`: the handler-table reference does not wrap around to an offset ≥ 2^63 (where
    CPython's `seek` raises OverflowError). -/
theorem getEntry_eq_std (env : Env) (le : Bool) (data : Bytes) (shOffset shSize n : Nat)
    (hn : n < shSize / 8) (hplace : shOffset + 8 * n + 8 < 2 ^ 63)
    (htab : ∀ w1, Spec.Ehabi.wordAt le data (shOffset + 8 * n + 4) = some w1 →
              Spec.Ehabi.expand w1 (shOffset + 8 * n + 4) < 2 ^ 63) :
    Model.Ehabi.getEntry env (Spec.ehabiStructs le) data shOffset shSize n
      = (match Spec.Ehabi.decodeEntry (Spec.Ehabi.wordAt le data) (shOffset + 8 * n) with
         | some d => .ok (Spec.Ehabi.obsDecoded d)
         | none => .error .elfParseError) := by
  have hplaceI : ((shOffset : Int) + (n : Int) * ((Gen.ehabiEntrySize : Nat) : Int))
      = ((shOffset + 8 * n : Nat) : Int) := by
    simp only [Gen.ehabiEntrySize]; omega
  unfold Model.Ehabi.getEntry
  rw [if_neg (by simp only [Gen.ehabiEntrySize]; omega)]
  simp only [hplaceI]
  generalize hpl : shOffset + 8 * n = place at *
  rw [parseAt_nat _ _ _ _ (by omega), parse_index_struct]
  unfold Spec.Ehabi.decodeEntry
  cases h0 : Spec.Ehabi.wordAt le data place with
  | none => rfl
  | some w0 =>
  cases h1 : Spec.Ehabi.wordAt le data (place + 4) with
  | none => rfl
  | some w1 =>
  have hw0 := wordAt_lt h0
  have hw1 := wordAt_lt h1
  have hpl4 : (place : Int) + 4 = ((place + 4 : Nat) : Int) := by omega
  simp only [bind, Except.bind, getInt_word0, getInt_word1, pure, Except.pure, hpl4, prel31_eq_std]
  by_cases c0 : 2 ^ 31 ≤ w0
  · have m0 : PyInt.land (w0 : Int) 2147483648 ≠ 0 := by
      rw [Ne, land_80000000_eq_zero hw0]; omega
    rw [if_pos m0, if_pos c0]; rfl
  · have m0 : ¬ PyInt.land (w0 : Int) 2147483648 ≠ 0 := by
      rw [Ne, land_80000000_eq_zero hw0]; omega
    rw [if_neg m0, if_neg c0]
    by_cases c1 : w1 = 1
    · have m1 : (w1 : Int) = 1 := by omega
      rw [if_pos m1, if_pos c1]; rfl
    · have m1 : ¬ (w1 : Int) = 1 := by omega
      rw [if_neg m1, if_neg c1]
      by_cases c2 : 2 ^ 31 ≤ w1
      · have m2 : ¬ PyInt.land (w1 : Int) 2147483648 = 0 := by
          rw [land_80000000_eq_zero hw1]; omega
        rw [if_neg m2, if_pos c2]
        by_cases c3 : w1 / 2 ^ 24 % 128 ≠ 0
        · have m3 : PyInt.land (w1 : Int) 2130706432 ≠ 0 := by
            rw [Ne, land_7f000000_eq_zero]; exact c3
          rw [if_pos m3, if_pos c3]; rfl
        · have m3 : ¬ PyInt.land (w1 : Int) 2130706432 ≠ 0 := by
            rw [Ne, land_7f000000_eq_zero]; exact c3
          rw [if_neg m3, if_neg c3, ints_bytes3]; rfl
      · have m2 : PyInt.land (w1 : Int) 2147483648 = 0 := by
          rw [land_80000000_eq_zero hw1]; omega
        rw [if_pos m2, if_neg c2]
        have htab' := htab w1 h1
        generalize Spec.Ehabi.expand w1 (place + 4) = tab at *
        generalize Spec.Ehabi.expand w0 place = fn
        rw [parseAt_nat _ _ _ _ htab', parse_table_struct]
        cases ht : Spec.Ehabi.wordAt le data tab with
        | none => rfl
        | some t =>
        have hwt := wordAt_lt ht
        simp only [getInt_word0, prel31_eq_std, land_shr_7f, land_shr_FF, Int.toNat_natCast]
        by_cases c4 : t < 2 ^ 31
        · have m4 : PyInt.land (t : Int) 2147483648 = 0 := by
            rw [land_80000000_eq_zero hwt]; exact c4
          rw [if_pos m4, if_pos c4]; rfl
        · have m4 : ¬ PyInt.land (t : Int) 2147483648 = 0 := by
            rw [land_80000000_eq_zero hwt]; exact c4
          rw [if_neg m4, if_neg c4]
          by_cases c5 : t / 2 ^ 28 % 8 ≠ 0
          · have m5 : PyInt.land (t : Int) 1879048192 ≠ 0 := by
              rw [Ne, land_70000000_eq_zero]; exact c5
            rw [if_pos m5, if_pos c5]; rfl
          · have m5 : ¬ PyInt.land (t : Int) 1879048192 ≠ 0 := by
              rw [Ne, land_70000000_eq_zero]; exact c5
            rw [if_neg m5, if_neg c5]
            generalize hidx : t / 2 ^ 24 % 128 = idx
            by_cases c6 : idx = 0
            · have m6 : (idx : Int) = 0 := by omega
              rw [if_pos m6, if_pos c6, ints_bytes3, c6]; rfl
            · have m6 : ¬ (idx : Int) = 0 := by omega
              rw [if_neg m6, if_neg c6]
              by_cases c7 : idx = 1 ∨ idx = 2
              · have m7 : (idx : Int) = 1 ∨ (idx : Int) = 2 := by omega
                rw [if_pos m7, if_pos c7, moreWords_eq]
                cases Spec.Ehabi.moreWords (Spec.Ehabi.wordAt le data) (t / 2 ^ 16 % 256) (tab + 4) with
                | none => rfl
                | some more =>
                  simp [Model.Ehabi.ints, Model.Ehabi.entryObj, Spec.Ehabi.obsDecoded, Spec.Ehabi.entryRecord,
                    Spec.Ehabi.codeVal, byteOf_toNat]
              · have m7 : ¬ ((idx : Int) = 1 ∨ (idx : Int) = 2) := by omega
                rw [if_neg m7, if_neg c7]; rfl

/-! ### the abstract entries against the reference decoder -/

namespace EhabiEntry

theorem dispOk_iff (d : Int) : Spec.Ehabi.dispOk d = true ↔ -(2 ^ 30 : Int) ≤ d ∧ d < (2 ^ 30 : Int) := by
  simp [Spec.Ehabi.dispOk]

theorem encPrel31_lt (d : Int) : Spec.Ehabi.encPrel31 d < 2 ^ 31 := ofSigned_lt 31 d

theorem prel31_enc {d : Int} (h : Spec.Ehabi.dispOk d = true) :
    Spec.Ehabi.prel31 (Spec.Ehabi.encPrel31 d) = d := by
  rw [dispOk_iff] at h
  unfold Spec.Ehabi.prel31
  rw [Nat.mod_eq_of_lt (encPrel31_lt d)]
  exact toSigned_ofSigned 31 d (by decide) (by simp; omega) (by simp; omega)

theorem expand_enc {d : Int} (h : Spec.Ehabi.dispOk d = true) (place : Nat) :
    Spec.Ehabi.expand (Spec.Ehabi.encPrel31 d) place = Spec.Ehabi.expectedFn d place := by
  rw [Spec.Ehabi.expand, prel31_enc h, Spec.Ehabi.expectedFn]

theorem expand_enc_tab {place tab : Nat} (h : Spec.Ehabi.dispOk ((tab : Int) - ((place : Int) + 4)) = true)
    (ht : tab < 2 ^ 62) :
    Spec.Ehabi.expand (Spec.Ehabi.encPrel31 ((tab : Int) - ((place : Int) + 4))) (place + 4) = tab := by
  rw [Spec.Ehabi.expand, prel31_enc h]
  simp
  omega

theorem encPrel31_ne_one {d : Int} (h : Spec.Ehabi.dispOk d = true) (hd : d ≠ 1) :
    Spec.Ehabi.encPrel31 d ≠ 1 := by
  intro he
  have := prel31_enc h
  rw [he] at this
  exact hd (by rw [← this]; decide)

theorem byteOf_eq {w sh : Nat} {b : UInt8} (h : w / 2 ^ sh % 256 = b.toNat) : Spec.Ehabi.byteOf w sh = b := by
  rw [Spec.Ehabi.byteOf, h, UInt8.ofNat_toNat]

theorem beWord3 (b0 b1 b2 : UInt8) :
    Spec.Ehabi.beWord [b0, b1, b2] = b0.toNat * 2 ^ 16 + b1.toNat * 2 ^ 8 + b2.toNat := by
  simp [Spec.Ehabi.beWord, beNat, leNat]; omega

theorem beWord2 (b0 b1 : UInt8) :
    Spec.Ehabi.beWord [b0, b1] = b0.toNat * 2 ^ 8 + b1.toNat := by
  simp [Spec.Ehabi.beWord, beNat, leNat]; omega

theorem wordBytes_beWord {m : Bytes} (h : m.length = 4) :
    Spec.Ehabi.wordBytes (Spec.Ehabi.beWord m) = m := by
  match m, h with
  | [a, b, c, d], _ =>
    have ha := a.toNat_lt; have hb := b.toNat_lt; have hc := c.toNat_lt; have hd := d.toNat_lt
    have e : Spec.Ehabi.beWord [a, b, c, d]
        = a.toNat * 2 ^ 24 + b.toNat * 2 ^ 16 + c.toNat * 2 ^ 8 + d.toNat := by
      simp [Spec.Ehabi.beWord, beNat, leNat]; omega
    rw [Spec.Ehabi.wordBytes, e, byteOf_eq (b := a) (by omega), byteOf_eq (b := b) (by omega),
      byteOf_eq (b := c) (by omega), byteOf_eq (b := d) (by omega)]

end EhabiEntry

theorem moreWords_enc (mem : Nat → Option Nat) : ∀ (more : List Bytes) (off : Nat),
    (∀ m ∈ more, m.length = 4) →
    (∀ i, i < more.length → mem (off + 4 * i) = (more.map Spec.Ehabi.beWord)[i]?) →
    Spec.Ehabi.moreWords mem more.length off = some more.flatten := by
  intro more
  induction more with
  | nil => intro off _ _; rfl
  | cons m more ih =>
    intro off h4 hm
    have h0 := hm 0 (by simp)
    simp at h0
    rw [List.length_cons, Spec.Ehabi.moreWords, h0]
    simp only
    rw [ih (off + 4) (fun x hx => h4 x (by simp [hx]))]
    · simp [wordBytes_beWord (h4 m (by simp))]
    · intro i hi
      have := hm (i + 1) (by simp; omega)
      rw [show off + 4 * (i + 1) = off + 4 + 4 * i by omega] at this
      simpa using this


/-- Spec-internal consistency: the reference decoder, run on a memory holding the encoding of the
    abstract entry `e` (index words at `place`, handler-table words at `tab`), observes exactly
    `obsEntry e place tab`.  `hne` (not in the original wish-list statement) is needed: a table
    reference with displacement 1 (`tab = place + 5`, impossible for 4-aligned tables) encodes as the
    word 1 = EXIDX_CANTUNWIND.  No bound on `place` is needed. -/
theorem decodeEntry_enc (mem : Nat → Option Nat) (e : Spec.Ehabi.Entry) (place tab : Nat)
    (hwf : Spec.Ehabi.entryWf e = true)
    (hd : Spec.Ehabi.dispOk ((tab : Int) - ((place : Int) + 4)) = true)
    (hne : tab ≠ place + 5)
    (ht : tab < 2 ^ 62)
    (h0 : mem place = (Spec.Ehabi.encIndex e place tab)[0]?)
    (h1 : mem (place + 4) = (Spec.Ehabi.encIndex e place tab)[1]?)
    (hT : ∀ i, i < e.tableWords.length → mem (tab + 4 * i) = e.tableWords[i]?) :
    (Spec.Ehabi.decodeEntry mem place).map Spec.Ehabi.obsDecoded
      = some (Spec.Ehabi.obsEntry e place tab) := by
  cases e with
  | cantUnwind d =>
    simp only [Spec.Ehabi.entryWf] at hwf
    simp [Spec.Ehabi.encIndex] at h0 h1
    have hlt := encPrel31_lt d
    simp [Spec.Ehabi.decodeEntry, h0, h1, Nat.not_le.2 hlt, expand_enc hwf, Spec.Ehabi.obsEntry]
  | inline d b0 b1 b2 =>
    simp only [Spec.Ehabi.entryWf] at hwf
    simp [Spec.Ehabi.encIndex] at h0 h1
    have hlt := encPrel31_lt d
    have h0' := b0.toNat_lt; have h1' := b1.toNat_lt; have h2' := b2.toNat_lt
    have e3 := beWord3 b0 b1 b2
    generalize hw : 2 ^ 31 + Spec.Ehabi.beWord [b0, b1, b2] = w1 at h1
    have c1 : w1 ≠ 1 := by omega
    have c2 : 2 ^ 31 ≤ w1 := by omega
    have c3 : ¬ w1 / 2 ^ 24 % 128 ≠ 0 := by omega
    unfold Spec.Ehabi.decodeEntry
    simp only [h0, h1, if_neg (Nat.not_le.2 hlt), if_neg c1, if_pos c2, if_neg c3, expand_enc hwf]
    rw [byteOf_eq (b := b0) (by omega), byteOf_eq (b := b1) (by omega), byteOf_eq (b := b2) (by omega)]
    rfl
  | table d t =>
    simp only [Spec.Ehabi.entryWf, Bool.and_eq_true] at hwf
    obtain ⟨hwd, hwt⟩ := hwf
    simp [Spec.Ehabi.encIndex] at h0 h1
    have hlt := encPrel31_lt d
    have hlt1 := encPrel31_lt ((tab : Int) - ((place : Int) + 4))
    have c1 := encPrel31_ne_one hd (by omega)
    have etab := expand_enc_tab hd ht
    have hT0 := hT 0
    simp only [Spec.Ehabi.Entry.tableWords] at hT hT0
    unfold Spec.Ehabi.decodeEntry
    simp only [h0, h1, if_neg (Nat.not_le.2 hlt), if_neg c1, if_neg (Nat.not_le.2 hlt1), expand_enc hwd, etab]
    cases t with
    | generic p =>
      simp only [Spec.Ehabi.tableEntryWf] at hwt
      simp [Spec.Ehabi.encTableEntry] at hT0
      have hltp := encPrel31_lt p
      simp only [hT0, if_pos hltp, expand_enc hwt]
      rfl
    | su16 b0 b1 b2 =>
      simp [Spec.Ehabi.encTableEntry] at hT0
      have h0' := b0.toNat_lt; have h1' := b1.toNat_lt; have h2' := b2.toNat_lt
      have e3 := beWord3 b0 b1 b2
      generalize hw : 2 ^ 31 + Spec.Ehabi.beWord [b0, b1, b2] = w at hT0
      have c4 : ¬ w < 2 ^ 31 := by omega
      have c5 : ¬ w / 2 ^ 28 % 8 ≠ 0 := by omega
      have c6 : w / 2 ^ 24 % 128 = 0 := by omega
      simp only [hT0, if_neg c4, if_neg c5, if_pos c6]
      rw [byteOf_eq (b := b0) (by omega), byteOf_eq (b := b1) (by omega), byteOf_eq (b := b2) (by omega)]
      rfl
    | long idx b0 b1 more =>
      simp [Spec.Ehabi.tableEntryWf] at hwt
      obtain ⟨⟨hidx, hlen⟩, h4⟩ := hwt
      simp [Spec.Ehabi.encTableEntry] at hT0
      have h0' := b0.toNat_lt; have h1' := b1.toNat_lt
      have e2 := beWord2 b0 b1
      have hmore : Spec.Ehabi.moreWords mem more.length (tab + 4) = some more.flatten := by
        apply moreWords_enc mem more (tab + 4) h4
        intro i hi
        have := hT (i + 1) (by simp [Spec.Ehabi.encTableEntry]; omega)
        rw [show tab + 4 * (i + 1) = tab + 4 + 4 * i by omega] at this
        simpa [Spec.Ehabi.encTableEntry] using this
      generalize hw : 2 ^ 31 + idx * 2 ^ 24 + more.length * 2 ^ 16 + Spec.Ehabi.beWord [b0, b1] = w at hT0
      have c4 : ¬ w < 2 ^ 31 := by omega
      have c5 : ¬ w / 2 ^ 28 % 8 ≠ 0 := by omega
      have c6 : w / 2 ^ 24 % 128 = idx := by omega
      have c7 : w / 2 ^ 16 % 256 = more.length := by omega
      have c8 : ¬ idx = 0 := by omega
      simp only [hT0, if_neg c4, if_neg c5, c6, if_neg c8, if_pos hidx, c7, hmore]
      rw [byteOf_eq (b := b0) (by omega), byteOf_eq (b := b1) (by omega)]
      rfl

end PyElf.Proofs
