/-
  C04 helper lemmas, part 5: one entry (`DIE._parse_DIE`, `_resolve_indirect`) on `encEntry`.
-/
import PyElf.Core.Construct
import PyElf.Spec.DieTree
import PyElf.Spec.DwarfStructs
import PyElf.Model.Die
import PyElf.Proofs.Primitives
import PyElf.Proofs.Engine
import PyElf.Proofs.DieForms
import PyElf.Proofs.DieAbbrev
import PyElf.Proofs.DieBundle
namespace PyElf.Proofs.C04
open PyElf PyElf.Spec PyElf.Spec.C04 PyElf.Model PyElf.Model.C04 PyElf.Proofs PyElf.Proofs.Engine

/-- what `_parse_DIE` needs of the unit it runs in: the struct bundle is the standard's for the
    unit's configuration — on the fields the DIE code reads (`BundleEq`; `BundleEq.of_eq` for a bundle that IS
    the standard's) —, `DW_FORM_raw2name` and the presentation of form numbers name the
    standard's forms as the standard does -/
structure UnitOK (U : UnitCtx) (c : DwarfCfg) (nm : Names) : Prop where
  structs : BundleEq U.S (Spec.dwarfStructs c)
  raw2name : ∀ k ∈ formCodes, U.raw2name k = formName k
  formNames : ∀ k ∈ formCodes, nm.form k = .str ((formName k).getD "")

/-! ### facts about the form table -/

theorem formFacts : formCodes.all (fun k => (formName k).isSome
    && (((formName k).getD "" == "DW_FORM_implicit_const") == (k == 0x21))
    && (((formName k).getD "" == "DW_FORM_indirect") == (k == 0x16))
    && (((formName k).getD "" == "DW_FORM_ref") == (k == 0x02))) = true := by decide

theorem formFacts' {k : Nat} (hk : k ∈ formCodes) :
    formName k = some ((formName k).getD "") ∧ ((formName k).getD "" = "DW_FORM_implicit_const" ↔ k = 0x21)
      ∧ ((formName k).getD "" = "DW_FORM_indirect" ↔ k = 0x16) ∧ ((formName k).getD "" = "DW_FORM_ref" ↔ k = 0x02) := by
  have h := List.all_eq_true.1 formFacts k hk
  simp only [Bool.and_eq_true, beq_iff_eq] at h
  obtain ⟨⟨⟨h1, h2⟩, h3⟩, h4⟩ := h
  refine ⟨?_, ?_, ?_, ?_⟩
  · cases hn : formName k with
    | none => rw [hn] at h1; cases h1
    | some s => rfl
  · constructor
    · intro e; have : ((formName k).getD "" == "DW_FORM_implicit_const") = true := by simpa using e
      rw [this] at h2; simpa using h2.symm
    · intro e; have : (k == 0x21) = true := by simpa using e
      rw [this] at h2; simpa using h2
  · constructor
    · intro e; have : ((formName k).getD "" == "DW_FORM_indirect") = true := by simpa using e
      rw [this] at h3; simpa using h3.symm
    · intro e; have : (k == 0x16) = true := by simpa using e
      rw [this] at h3; simpa using h3
  · constructor
    · intro e; have : ((formName k).getD "" == "DW_FORM_ref") = true := by simpa using e
      rw [this] at h4; simpa using h4.symm
    · intro e; have : (k == 0x02) = true := by simpa using e
      rw [this] at h4; simpa using h4

theorem mem_std_of_ne {k : Nat} (hk : k ∈ formCodes) (h : k ≠ 0x02) : k ∈ stdFormCodes := by
  simp only [formCodes, List.mem_cons] at hk
  rcases hk with hk | hk
  · exact absurd hk h
  · exact hk

theorem formClass_some_mem {c : DwarfCfg} {k : Nat} {cl : Cls} (h : formClass c k = some cl) : k ∈ formCodes := by
  unfold formClass at h
  split at h <;> first | (cases h; done) | (simp [formCodes, stdFormCodes])

theorem mem_indirect : FORM_indirect ∈ formCodes := by decide
theorem mem_implicit : FORM_implicit_const ∈ formCodes := by decide

/-! ### reading one operand through the form table -/

theorem parseWith_cls {env : Env} {data : Bytes} {pos : Nat} {le : Bool} {rest : Bytes}
    (cl : Cls) (op : Operand) (hwf : wfOperand cl op = true) (hd : data.drop pos = encOperand le cl op ++ rest) :
    parseWith env (clsCon le cl) data pos = .ok (rawVal op, pos + (encOperand le cl op).length) := by
  have h := operand_roundtrip (env := env) (ctx := []) cl op hwf hd
  cases cl <;> first
    | (simp [wfOperand] at hwf; done)
    | (simp only [clsCon] at h ⊢; simp only [parseWith, structParse, h, bind, Except.bind, pure, Except.pure])

/-- `structs.Dwarf_dw_form[form]` for a standard form, then the read -/
theorem read_form {U : UnitCtx} {c : DwarfCfg} {nm : Names} (hU : UnitOK U c nm) {k : Nat} {cl : Cls}
    (hcl : formClass c k = some cl) (op : Operand) (hwf : wfOperand cl op = true) {pos : Nat} {rest : Bytes}
    (hd : U.data.drop pos = encOperand c.le cl op ++ rest) :
    (formParser U.S (.str ((formName k).getD "")) >>= fun P => parseWith U.env P U.data pos)
      = .ok (rawVal op, pos + (encOperand c.le cl op).length) := by
  have hk := formClass_some_mem hcl
  obtain ⟨_, _, _, hnr⟩ := formFacts' hk
  by_cases h2 : k = 0x02
  · -- the legacy DW_FORM_ref: `Dwarf_dw_form['DW_FORM_ref'] = the_Dwarf_uint32` (Props/TieC04 `form_ref_entry`)
    subst h2
    have hcl' : cl = .fixed 4 := by simpa [formClass] using hcl.symm
    subst hcl'
    have hS : (Spec.dwarfStructs c).the_Dwarf_uint32 = clsCon c.le (.fixed 4) := rfl
    have hn : (formName 0x02).getD "" = "DW_FORM_ref" := rfl
    simp only [formParser, hn, if_true, hU.structs.uleb, hU.structs.form, hU.structs.u32, hS, bind, Except.bind]
    exact parseWith_cls (.fixed 4) op hwf hd
  · have hnr' : ¬ (formName k).getD "" = "DW_FORM_ref" := fun e => h2 (hnr.1 e)
    have hl := form_lookup c k (mem_std_of_ne hk h2)
    rw [hcl] at hl
    simp only [formParser, hnr', if_false, hU.structs.uleb, hU.structs.form, hU.structs.u32, hl, Option.map, bind, Except.bind]
    exact parseWith_cls cl op hwf hd

/-! ### DW_FORM_indirect -/

/-- the form code carried by the LEB128 number in front of the chain `ls` -/
def chainHead (form : Nat) : List Nat → Nat
  | [] => form
  | _ :: _ => FORM_indirect

theorem encChain_cons (form l : Nat) (ls : List Nat) :
    encChain form (l :: ls) = encUlebN l (chainHead form ls) ++ encChain form ls := by
  cases ls <;> simp [encChain, chainHead]

theorem wfChain_cons (form l : Nat) (ls : List Nat) :
    wfChain form (l :: ls) = (ulebFits l (chainHead form ls) && (ls.isEmpty || wfChain form ls)) := by
  cases ls <;> simp [wfChain, chainHead]

theorem encChain_length_ge (form : Nat) : ∀ ls : List Nat, (ls.isEmpty || wfChain form ls) = true →
    ls.length ≤ (encChain form ls).length := by
  intro ls
  induction ls with
  | nil => intro _; simp [encChain]
  | cons l ls ih =>
    intro h
    simp only [List.isEmpty_cons, Bool.false_or, wfChain_cons, Bool.and_eq_true, ulebFits_iff] at h
    have := ih h.2
    rw [encChain_cons, List.length_append, encUlebN_length, List.length_cons]
    omega

theorem parseWith_uleb {env : Env} {data : Bytes} {pos l v : Nat} {rest : Bytes}
    (hd : data.drop pos = encUlebN l v ++ rest) (hl : ulebFits l v = true) :
    parseWith env .uleb data pos = .ok (.int v, pos + l) := by
  rw [ulebFits_iff] at hl
  simp only [parseWith, structParse, parse_ulebN hd hl.1 hl.2, bind, Except.bind, pure, Except.pure]

theorem form_indirect_lookup (c : DwarfCfg) : (Spec.dwarfStructs c).form "DW_FORM_indirect" = some .uleb := rfl

/-- the `while True` loop of `_resolve_indirect` after the code in front of `ls` has been read -/
theorem indirectLoop_chain {U : UnitCtx} {c : DwarfCfg} {nm : Names} (hU : UnitOK U c nm) {form : Nat} {cl : Cls}
    (hcl : formClass c form = some cl) (hni : form ≠ FORM_indirect) (op : Operand) (hwf : wfOperand cl op = true)
    {tail : Bytes} :
    ∀ (ls : List Nat) (fuel p : Nat), ls.length + 1 ≤ fuel → (ls.isEmpty || wfChain form ls) = true →
      U.data.drop p = encChain form ls ++ (encOperand c.le cl op ++ tail) →
      indirectLoop U fuel p (chainHead form ls)
        = .ok (.str ((formName form).getD ""), rawVal op, p + (encChain form ls).length + (encOperand c.le cl op).length) := by
  have hk := formClass_some_mem hcl
  obtain ⟨hname, _, hind, _⟩ := formFacts' hk
  intro ls
  induction ls with
  | nil =>
    intro fuel p hf _ hd
    cases fuel with
    | zero => omega
    | succ fuel =>
      have hd' : U.data.drop p = encOperand c.le cl op ++ tail := by simpa [encChain] using hd
      have hr := read_form hU hcl op hwf hd'
      have hne : ¬ (formName form).getD "" = "DW_FORM_indirect" := fun e => hni (hind.1 e)
      simp only [bind, Except.bind] at hr
      have hrn : U.raw2name form = some ((formName form).getD "") := by rw [hU.raw2name form hk]; exact hname
      rw [indirectLoop]
      simp only [chainHead, hrn, bind, Except.bind]
      cases hp : formParser U.S (.str ((formName form).getD "")) with
      | error e => rw [hp] at hr; cases hr
      | ok P =>
        rw [hp] at hr
        simp only [hr, ne_eq, hne, not_false_eq_true, if_true, pure, Except.pure, encChain, List.length_nil, Nat.add_zero]
  | cons l ls ih =>
    intro fuel p hf hw hd
    cases fuel with
    | zero => omega
    | succ fuel =>
      simp only [List.isEmpty_cons, Bool.false_or, wfChain_cons, Bool.and_eq_true] at hw
      rw [encChain_cons, List.append_assoc] at hd
      have hread := parseWith_uleb (env := U.env) hd hw.1
      have hd' := drop_add_of_drop hd
      rw [encUlebN_length] at hd'
      have hrn : U.raw2name FORM_indirect = some "DW_FORM_indirect" := hU.raw2name _ mem_indirect
      have hfp : formParser U.S (.str "DW_FORM_indirect") = .ok .uleb := by
        simp [formParser, hU.structs.uleb, hU.structs.form, hU.structs.u32, form_indirect_lookup]
      have hneg : ¬ ((chainHead form ls : Nat) : Int) < 0 := by omega
      have hch : chainHead form (l :: ls) = FORM_indirect := rfl
      rw [hch, indirectLoop]
      simp only [hrn, hfp, bind, Except.bind, hread, ne_eq, not_true_eq_false, if_false, Val.asNat, Val.asInt,
        hneg, Int.toNat_natCast]
      rw [ih fuel (p + l) (by simp at hf; omega) hw.2 hd']
      simp [encChain_cons, encUlebN_length, Nat.add_assoc]

/-- `_resolve_indirect` on an indirection chain of any length followed by the operand -/
theorem resolveIndirect_chain {U : UnitCtx} {c : DwarfCfg} {nm : Names} (hU : UnitOK U c nm) {form : Nat} {cl : Cls}
    (hcl : formClass c form = some cl) (hni : form ≠ FORM_indirect) (op : Operand) (hwf : wfOperand cl op = true)
    (ind : List Nat) (hch : wfChain form ind = true) {pos : Nat} {tail : Bytes}
    (hd : U.data.drop pos = encChain form ind ++ (encOperand c.le cl op ++ tail)) :
    resolveIndirect U pos
      = .ok (.str ((formName form).getD ""), rawVal op, pos + (encChain form ind).length + (encOperand c.le cl op).length) := by
  cases ind with
  | nil => simp [wfChain] at hch
  | cons l ls =>
    rw [wfChain_cons, Bool.and_eq_true] at hch
    rw [encChain_cons, List.append_assoc] at hd
    have h0 := parseNat_ulebN (env := U.env) hd hch.1
    have hd' := drop_add_of_drop hd
    rw [encUlebN_length] at hd'
    have hl := length_of_drop hd'
    have hge := encChain_length_ge form ls hch.2
    simp only [List.length_append] at hl
    unfold resolveIndirect
    simp only [hU.structs.uleb, hU.structs.form, hU.structs.u32, the_uleb_eq, h0, bind, Except.bind]
    rw [indirectLoop_chain hU hcl hni op hwf ls _ (pos + l) (by omega) hch.2 hd']
    simp [encChain_cons, encUlebN_length, Nat.add_assoc]

/-! ### the attribute loop -/

/-- the translation step of `_parse_DIE` succeeds with `ρ` on every attribute that has an operand -/
def TransOK (U : UnitCtx) (ti : Option (List AttrObs)) (nm : Names) (ρ : Val → Val → Val) :
    List AttrSpec → List AttrV → Prop
  | s :: ss, a :: as =>
    (s.form ≠ FORM_implicit_const →
      translate U ti (nm.form a.form) (rawVal a.op) = .ok (ρ (nm.form a.form) (rawVal a.op)))
      ∧ TransOK U ti nm ρ ss as
  | _, _ => True

theorem getField_name (a f v : Val) : (Val.record [("name", a), ("form", f), ("value", v)]).getField "name" = .ok a := by
  simp [Val.getField, Fields.getR, Fields.get?]
theorem getField_form (a f v : Val) : (Val.record [("name", a), ("form", f), ("value", v)]).getField "form" = .ok f := by
  simp [Val.getField, Fields.getR, Fields.get?]
theorem getField_value (a f v : Val) : (Val.record [("name", a), ("form", f), ("value", v)]).getField "value" = .ok v := by
  simp [Val.getField, Fields.getR, Fields.get?]

theorem str_beq (a b : String) : (Val.str a == Val.str b) = (a == b) := by
  simp [BEq.beq, Val.beq]

theorem attrLoop_encoded {U : UnitCtx} {c : DwarfCfg} {nm : Names} (hU : UnitOK U c nm) (ti : Option (List AttrObs))
    (ρ : Val → Val → Val) :
    ∀ (specs : List AttrSpec) (attrs : List AttrV) (pos : Nat) (acc : List AttrObs) (tail : Bytes),
      wfAttrs c specs attrs = true → TransOK U ti nm ρ specs attrs →
      U.data.drop pos = attrs.flatMap (encAttr c) ++ tail →
      attrLoop U ti (specs.map (specVal nm)) pos acc
        = .ok ((attrObs nm c ρ pos specs attrs).foldl attrSet acc, pos + (attrs.flatMap (encAttr c)).length) := by
  intro specs
  induction specs with
  | nil =>
    intro attrs pos acc tail hwf _ _
    cases attrs with
    | nil => simp [attrLoop, attrObs]
    | cons a as => simp [wfAttrs] at hwf
  | cons s ss ih =>
    intro attrs pos acc tail hwf htr hd
    cases attrs with
    | nil => simp [wfAttrs] at hwf
    | cons a as =>
      simp only [wfAttrs, Bool.and_eq_true] at hwf
      obtain ⟨hwa, hws⟩ := hwf
      obtain ⟨htr1, htrs⟩ := htr
      have hd0 : U.data.drop pos = encAttr c a ++ (as.flatMap (encAttr c) ++ tail) := by
        simpa [List.append_assoc] using hd
      have hnext := drop_add_of_drop hd0
      have hrec := fun acc' => ih as (pos + attrLen c a) acc' tail hws htrs hnext
      rw [List.map_cons, attrLoop]
      simp only [specVal, getField_form, getField_name, getField_value, bind, Except.bind]
      unfold wfAttr at hwa
      by_cases hI : s.form = FORM_indirect
      · -- DW_FORM_indirect
        rw [if_pos hI] at hwa
        simp only [Bool.and_eq_true, bne_iff_ne, ne_eq] at hwa
        obtain ⟨⟨⟨hch, hni⟩, hnc⟩, hop⟩ := hwa
        cases hcl : formClass c a.form with
        | none => rw [hcl] at hop; cases hop
        | some cl =>
          rw [hcl] at hop
          have hk := formClass_some_mem hcl
          have hnic : ¬ s.form = FORM_implicit_const := by rw [hI]; decide
          have hfn := hU.formNames s.form (by rw [hI]; exact mem_indirect)
          have hfa := hU.formNames a.form hk
          have hb1 : (nm.form s.form == Val.str "DW_FORM_implicit_const") = false := by
            rw [hfn, hI]; decide
          have hb2 : (nm.form s.form == Val.str "DW_FORM_indirect") = true := by
            rw [hfn, hI]; decide
          have hclsOf : clsOf c a.form = cl := by simp [clsOf, hcl]
          have hd1 : U.data.drop pos = encChain a.form a.ind ++ (encOperand c.le cl a.op ++ (as.flatMap (encAttr c) ++ tail)) := by
            rw [hd0]; simp [encAttr, hclsOf, List.append_assoc]
          have hres := resolveIndirect_chain hU hcl hni a.op hop a.ind hch hd1
          have htr' := htr1 hnic
          rw [hfa] at htr'
          have hlen : pos + (encChain a.form a.ind).length + (encOperand c.le cl a.op).length = pos + attrLen c a := by
            simp [attrLen, encAttr, hclsOf, Nat.add_assoc]
          simp only [hb1, hb2, Bool.false_eq_true, if_false, if_true, hres, htr', hlen]
          rw [hrec]
          simp [attrObs, hnic, hfa, List.flatMap_cons, attrLen, Nat.add_assoc]
      · rw [if_neg hI] at hwa
        by_cases hC : s.form = FORM_implicit_const
        · -- DW_FORM_implicit_const
          rw [if_pos hC] at hwa
          simp only [Bool.and_eq_true, beq_iff_eq] at hwa
          obtain ⟨⟨hind, hform⟩, hop⟩ := hwa
          have hfn := hU.formNames s.form (by rw [hC]; exact mem_implicit)
          have hb1 : (nm.form s.form == Val.str "DW_FORM_implicit_const") = true := by
            rw [hfn, hC]; decide
          have hzero : attrLen c a = 0 := by
            cases hopc : a.op <;> rw [hopc] at hop <;> first | (cases hop; done) | skip
            simp [attrLen, encAttr, hind, encChain, hform, hC, clsOf, formClass, FORM_implicit_const, encOperand, hopc]
          have hlen0 : (encAttr c a).length = 0 := hzero
          simp only [hb1, if_true]
          rw [hzero, Nat.add_zero] at hrec
          rw [hrec]
          simp [attrObs, hC, hform, List.flatMap_cons, hzero, hlen0]
        · -- every other form
          rw [if_neg hC] at hwa
          simp only [Bool.and_eq_true, beq_iff_eq] at hwa
          obtain ⟨⟨hind, hform⟩, hop⟩ := hwa
          cases hcl : formClass c a.form with
          | none => rw [hcl] at hop; cases hop
          | some cl =>
            rw [hcl] at hop
            have hk := formClass_some_mem hcl
            obtain ⟨_, hic, hin, _⟩ := formFacts' hk
            have hfa := hU.formNames a.form hk
            have hb1 : (nm.form s.form == Val.str "DW_FORM_implicit_const") = false := by
              rw [← hform, hfa, str_beq]
              have : ¬ (formName a.form).getD "" = "DW_FORM_implicit_const" := fun e => hC (by rw [← hform]; exact hic.1 e)
              simpa using this
            have hb2 : (nm.form s.form == Val.str "DW_FORM_indirect") = false := by
              rw [← hform, hfa, str_beq]
              have : ¬ (formName a.form).getD "" = "DW_FORM_indirect" := fun e => hI (by rw [← hform]; exact hin.1 e)
              simpa using this
            have hclsOf : clsOf c a.form = cl := by simp [clsOf, hcl]
            have hd1 : U.data.drop pos = encOperand c.le cl a.op ++ (as.flatMap (encAttr c) ++ tail) := by
              rw [hd0]; simp [encAttr, hclsOf, hind, encChain]
            have hread := read_form hU hcl a.op hop hd1
            have htr' := htr1 hC
            rw [hfa] at htr'
            have hlen : pos + (encOperand c.le cl a.op).length = pos + attrLen c a := by
              simp [attrLen, encAttr, hclsOf, hind, encChain]
            simp only [bind, Except.bind] at hread
            simp only [hb1, hb2, Bool.false_eq_true, if_false]
            rw [← hform, hfa]
            cases hp : formParser U.S (.str ((formName a.form).getD "")) with
            | error e => rw [hp] at hread; cases hread
            | ok P =>
              rw [hp] at hread
              have hfs : nm.form s.form = .str ((formName s.form).getD "") := by rw [← hform]; exact hfa
              simp only [hread, htr', hlen]
              rw [hrec]
              simp [attrObs, hC, hfs, hform, List.flatMap_cons, attrLen, Nat.add_assoc]

/-! ### insertion-ordered dict of attributes -/

/-- no two attributes of the list carry the same name -/
def NamesDistinct : List AttrObs → Prop
  | [] => True
  | a :: l => (∀ b ∈ l, (a.name == b.name) = false) ∧ NamesDistinct l

theorem attrSet_append (acc : List AttrObs) (a : AttrObs) (h : ∀ b ∈ acc, (b.name == a.name) = false) :
    attrSet acc a = acc ++ [a] := by
  induction acc with
  | nil => rfl
  | cons x acc ih =>
    have hx := h x (by simp)
    simp [attrSet, hx, ih (fun b hb => h b (by simp [hb]))]

theorem foldl_attrSet_distinct : ∀ (l acc : List AttrObs), NamesDistinct (acc ++ l) → l.foldl attrSet acc = acc ++ l := by
  intro l
  induction l with
  | nil => intro acc _; simp
  | cons a l ih =>
    intro acc h
    have hacc : ∀ b ∈ acc, (b.name == a.name) = false := by
      intro b hb
      clear ih
      induction acc with
      | nil => cases hb
      | cons x acc ih2 =>
        simp only [List.cons_append, NamesDistinct] at h
        rcases List.mem_cons.1 hb with rfl | hb'
        · exact h.1 a (by simp)
        · exact ih2 h.2 hb'
    rw [List.foldl_cons, attrSet_append acc a hacc, ih (acc ++ [a]) (by simpa [List.append_assoc] using h)]
    simp

/-! ### the entry -/

theorem getField_tag (a b c : Val) :
    (Val.record [("tag", a), ("children_flag", b), ("attr_spec", c)]).getField "tag" = .ok a := by
  simp [Val.getField, Fields.getR, Fields.get?]
theorem getField_children (a b c : Val) :
    (Val.record [("tag", a), ("children_flag", b), ("attr_spec", c)]).getField "children_flag" = .ok b := by
  simp [Val.getField, Fields.getR, Fields.get?]
theorem getField_attr_spec (a b c : Val) :
    (Val.record [("tag", a), ("children_flag", b), ("attr_spec", c)]).getField "attr_spec" = .ok c := by
  simp [Val.getField, Fields.getR, Fields.get?]

theorem encEntry_length (c : DwarfCfg) (n : Node) :
    (encEntry c n).length = n.codeLen + (n.attrs.flatMap (encAttr c)).length := by
  simp [encEntry, encUlebN_length]

/-- `DIE(cu, stream, offset)` on an encoded entry: every field of the observation -/
theorem parseDIE_encoded {U : UnitCtx} {c : DwarfCfg} {nm : Names} (hU : UnitOK U c nm) (ti : Option (List AttrObs))
    (ρ : Val → Val → Val) (n : Node) {off : Nat} {rest : Bytes} {m : List (Nat × Val)}
    (hwf : wfNode c n = true) (hoff : off < 2 ^ 63) (hab : U.abbrevs = .ok m)
    (hdecl : mapGet? m n.decl.code = some (declVal nm n.decl))
    (htr : TransOK U ti nm ρ n.decl.specs n.attrs)
    (hdist : NamesDistinct (attrObs nm c ρ (off + n.codeLen) n.decl.specs n.attrs))
    (hd : U.data.drop off = encEntry c n ++ rest) :
    parseDIE U ti off = .ok (entryObs nm c ρ off n) := by
  simp only [wfNode, Bool.and_eq_true] at hwf
  obtain ⟨⟨hwd, hcode⟩, hattrs⟩ := hwf
  have hd0 : U.data.drop off = encUlebN n.codeLen n.decl.code ++ (n.attrs.flatMap (encAttr c) ++ rest) := by
    rw [hd]; simp [encEntry, List.append_assoc]
  have h0 := parseNat_ulebN (env := U.env) hd0 hcode
  have hd1 := drop_add_of_drop hd0
  rw [encUlebN_length] at hd1
  have hloop := attrLoop_encoded hU ti ρ n.decl.specs n.attrs (off + n.codeLen) [] rest hattrs htr hd1
  rw [foldl_attrSet_distinct _ [] (by simpa using hdist), List.nil_append] at hloop
  simp only [wfDecl, Bool.and_eq_true, decide_eq_true_eq] at hwd
  have hne : ¬ n.decl.code = 0 := by omega
  have hns : ¬ off ≥ 2 ^ 63 := by omega
  have hflag : (Val.str (if n.decl.children then "DW_CHILDREN_yes" else "DW_CHILDREN_no") == Val.str "DW_CHILDREN_yes")
      = n.decl.children := by
    cases n.decl.children <;> decide
  unfold parseDIE seekCheck
  simp only [hns, if_false, bind, Except.bind, hU.structs.uleb, hU.structs.form, hU.structs.u32, the_uleb_eq, h0, hne, hab, hdecl]
  simp only [declVal, getField_tag, getField_children, getField_attr_spec, hloop, hflag, pure, Except.pure, entryObs,
    encEntry_length]
  congr 2
  omega

/-- a null entry (abbreviation code 0 in any padding) -/
theorem parseDIE_null {U : UnitCtx} {c : DwarfCfg} {nm : Names} (hU : UnitOK U c nm) (ti : Option (List AttrObs))
    {off l : Nat} {rest : Bytes} (hl : 1 ≤ l) (hoff : off < 2 ^ 63) (hd : U.data.drop off = encUlebN l 0 ++ rest) :
    parseDIE U ti off = .ok (nullObs off l) := by
  have h0 := parseNat_ulebN (env := U.env) hd (by rw [ulebFits_iff]; exact ⟨hl, Nat.pos_of_neZero _⟩)
  have hns : ¬ off ≥ 2 ^ 63 := by omega
  unfold parseDIE seekCheck
  simp only [hns, if_false, bind, Except.bind, hU.structs.uleb, hU.structs.form, hU.structs.u32, the_uleb_eq, h0, if_true, pure, Except.pure, nullObs]
  congr 2
  omega

end PyElf.Proofs.C04
