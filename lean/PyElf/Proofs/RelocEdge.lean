/-
  Helper lemmas for C08, part 9 (fifth wave): applying one relocation at the edges of the domain —
  R_*_NONE at any `r_offset`, MIPS64 composite entries of any first type, a field that does not lie
  inside the section, and the relation between the earlier, narrower domain predicate and the full one.
-/
import PyElf.Proofs.RelocApply
namespace PyElf.Proofs.Reloc
open PyElf PyElf.Spec PyElf.Model PyElf.Model.Reloc PyElf.Proofs
set_option linter.unusedSimpArgs false

/-- R_*_NONE: whatever `r_offset`, the symbol value and the section are, nothing is read and nothing is written -/
theorem applyWithSym_none (a : Arch) (c : RelCfg) (hm : c.mips = decide (a = .mips)) (rela : Bool) (sec : Bytes)
    (e : RelEntry) (s : Int) (hf : flavourOk a rela = true)
    (hcomp : (c.packed && (decide (e.type2 ≠ 0) || decide (e.type3 ≠ 0) || decide (e.ssym ≠ 0))) = false)
    {w : Nat} (hps : psabi a rela e.type = some (w, .keep)) :
    applyWithSym c.le c.cls (archString a) sec (observeRel c rela e) s = .ok sec := by
  unfold applyWithSym
  rw [chooseRecipe_spec a c rela e hm]
  simp only [hf, Bool.not_true, Bool.false_eq_true, ↓reduceIte, hcomp]
  rw [recipeGet_eq]
  obtain ⟨en, hfind, hwd, hcm⟩ := recipe_listed hps
  have hnm : (toRecipe en).calcName = "reloc_calc_identity" := (calcMatches_identity hcm).2 rfl
  simp only [hfind, Option.map, bind, Except.bind, hnm, ↓reduceIte, pure, Except.pure]

/-- MIPS64: an entry that uses `r_type2`, `r_type3` or `r_ssym` is rejected whatever its first type (listed or not)
    and whatever the flavour -/
theorem applyWithSym_composite (a : Arch) (c : RelCfg) (hm : c.mips = decide (a = .mips)) (rela : Bool) (sec : Bytes)
    (e : RelEntry) (s : Int) (hp : c.packed = true) (h : e.type2 ≠ 0 ∨ e.type3 ≠ 0 ∨ e.ssym ≠ 0) :
    applyWithSym c.le c.cls (archString a) sec (observeRel c rela e) s = .error .elfRelocError := by
  unfold applyWithSym
  rw [chooseRecipe_spec a c rela e hm]
  have hcomp : (c.packed && (decide (e.type2 ≠ 0) || decide (e.type3 ≠ 0) || decide (e.ssym ≠ 0))) = true := by
    rw [hp]
    rcases h with h | h | h <;> simp [h]
  rw [hcomp]
  split <;> rfl

/-- boundary: a listed type other than R_*_NONE whose field does not lie inside the section — the library's read of the
    field comes up short: ELFParseError, nothing is written -/
theorem applyWithSym_field_outside (a : Arch) (c : RelCfg) (hm : c.mips = decide (a = .mips)) (rela : Bool) (sec : Bytes)
    (e : RelEntry) (s : Int) (hf : flavourOk a rela = true)
    (hcomp : (c.packed && (decide (e.type2 ≠ 0) || decide (e.type3 ≠ 0) || decide (e.ssym ≠ 0))) = false)
    {w : Nat} {fm : Formula} (hps : psabi a rela e.type = some (w, fm)) (hk : fm ≠ .keep)
    (hout : sec.length < e.offset + w) :
    applyWithSym c.le c.cls (archString a) sec (observeRel c rela e) s = .error .elfParseError := by
  unfold applyWithSym
  rw [chooseRecipe_spec a c rela e hm]
  simp only [hf, Bool.not_true, Bool.false_eq_true, ↓reduceIte, hcomp]
  rw [recipeGet_eq]
  obtain ⟨en, hfind, hwd, hcm⟩ := recipe_listed hps
  have hid := calcMatches_identity hcm
  have hnm : ¬ (toRecipe en).calcName = "reloc_calc_identity" := fun h => hk (hid.1 h)
  simp only [hfind, Option.map, bind, Except.bind, obs_offset, hnm, ↓reduceIte]
  simp only [widthOk, hk, ↓reduceIte, Bool.and_eq_true, beq_iff_eq, Bool.or_eq_true] at hwd
  obtain ⟨hbw, hw⟩ := hwd
  have hbw' : (toRecipe en).bytesize = w := hbw
  unfold applyRecipe
  have hb' : (!(decide ((toRecipe en).bytesize = 4) || decide ((toRecipe en).bytesize = 8) || decide ((toRecipe en).bytesize = 1)
      || decide ((toRecipe en).bytesize = 2))) = false := by
    rw [hbw']; rcases hw with ((h | h) | h) | h <;> simp [h]
  simp only [hb', Bool.false_eq_true, ↓reduceIte, bind, Except.bind]
  by_cases hbig : e.offset ≥ 2 ^ 63
  · simp only [hbig, ↓reduceIte]
  · simp only [hbig, ↓reduceIte]
    have : readExact sec e.offset (toRecipe en).bytesize = .error .elfParseError := by
      unfold readExact readN
      rw [hbw']
      have hl : ((sec.drop e.offset).take w).length ≠ w := by
        simp only [List.length_take, List.length_drop]; omega
      simp only [hl, ↓reduceIte]
    rw [this]



/-- the earlier, narrower domain is inside the full one -/
theorem wfApplyOne_of_room {a : Arch} {c : RelCfg} {rela : Bool} {L : Nat} {e : RelEntry}
    (h : WFApplyOneRoom a c rela L e = true) : WFApplyOne a c rela L e = true := by
  simp only [WFApplyOneRoom, Bool.and_eq_true] at h
  obtain ⟨⟨⟨h1, h2⟩, _⟩, h4⟩ := h
  simp only [WFApplyOne, Bool.and_eq_true]
  refine ⟨⟨h1, h2⟩, ?_⟩
  cases hps : psabi a rela e.type with
  | none => rfl
  | some wf =>
    obtain ⟨w, fm⟩ := wf
    simp only [hps, decide_eq_true_eq] at h4
    simp only [Bool.or_eq_true, beq_iff_eq, decide_eq_true_eq]
    right
    split at h4 <;> omega

theorem wfApply_of_room {a : Arch} {c : RelCfg} {rela : Bool} {syms : List Nat} {L : Nat} {es : List RelEntry}
    (h : WFApplyRoom a c rela syms L es = true) : WFApply a c rela syms L es = true := by
  simp only [WFApplyRoom, Bool.and_eq_true, List.all_eq_true] at h
  simp only [WFApply, Bool.and_eq_true, List.all_eq_true]
  exact ⟨⟨fun e he => wfApplyOne_of_room (h.1.1 e he), h.1.2⟩, h.2⟩

end PyElf.Proofs.Reloc
