/-
  C13 helper lemmas (fourth wave): the exact content of the name mapping when names repeat —
  keys in order of first occurrence, each with the value of its last occurrence.
-/
import PyElf.Spec.DwarfNameOrder
import PyElf.Proofs.DwarfUnits
namespace PyElf.Proofs.Lookup
open PyElf PyElf.Spec.Lookup PyElf.Model.Lookup PyElf.Proofs

/-! ### `firstKeys` -/

theorem mem_firstKeys : ∀ (ks : List Bytes) (k : Bytes), k ∈ firstKeys ks ↔ k ∈ ks := by
  intro ks
  induction ks with
  | nil => intro k; simp [firstKeys]
  | cons a ks ih =>
    intro k
    simp only [firstKeys, List.mem_cons, List.mem_filter, ih, bne_iff_ne, ne_eq]
    by_cases h : k = a
    · simp [h]
    · simp [h]

theorem nodup_firstKeys : ∀ (ks : List Bytes), (firstKeys ks).Nodup := by
  intro ks
  induction ks with
  | nil => simp [firstKeys]
  | cons a ks ih =>
    simp only [firstKeys, List.nodup_cons, List.mem_filter, bne_self_eq_false, Bool.false_eq_true, and_false,
      not_false_eq_true, true_and]
    exact ih.sublist List.filter_sublist

/-- the order of `firstKeys` is the order of first occurrence -/
theorem pairwise_firstKeys : ∀ (ks : List Bytes),
    (firstKeys ks).Pairwise fun a b => ks.idxOf a < ks.idxOf b := by
  intro ks
  induction ks with
  | nil => simp [firstKeys]
  | cons a ks ih =>
    simp only [firstKeys, List.pairwise_cons, List.mem_filter, bne_iff_ne, ne_eq]
    refine ⟨?_, ?_⟩
    · intro b hb
      have hne : ¬ a = b := fun e => hb.2 e.symm
      have hb' : (a == b) = false := beq_eq_false_iff_ne.2 hne
      rw [List.idxOf_cons_self, List.idxOf_cons, hb']
      simp
    · have h1 : ((firstKeys ks).filter (fun k' => k' != a)).Pairwise fun x y => ks.idxOf x < ks.idxOf y :=
        ih.sublist List.filter_sublist
      refine h1.imp_of_mem ?_
      intro x y hx hy hxy
      simp only [List.mem_filter, bne_iff_ne, ne_eq] at hx hy
      have hx' : ¬ a = x := fun e => hx.2 e.symm
      have hy' : ¬ a = y := fun e => hy.2 e.symm
      have hxb : (a == x) = false := beq_eq_false_iff_ne.2 hx'
      have hyb : (a == y) = false := beq_eq_false_iff_ne.2 hy'
      rw [List.idxOf_cons, List.idxOf_cons, hxb, hyb]
      simpa using hxy

/-! ### keys of the built mapping -/

theorem keys_assocSet {V} (d : List (Bytes × V)) (k : Bytes) (v : V) :
    (assocSet d k v).map (·.1) = if k ∈ d.map (·.1) then d.map (·.1) else d.map (·.1) ++ [k] := by
  induction d with
  | nil => simp [assocSet]
  | cons p d ih =>
    obtain ⟨k', v'⟩ := p
    unfold assocSet
    by_cases h : k' = k
    · subst h; simp
    · have hne : ¬ k = k' := fun e => h e.symm
      simp only [h, if_false, List.map_cons, ih, List.mem_cons, hne, false_or]
      split <;> simp

theorem keys_foldl_assocSet {V} : ∀ (ps d : List (Bytes × V)),
    (ps.foldl (fun d p => assocSet d p.1 p.2) d).map (·.1)
      = d.map (·.1) ++ (firstKeys (ps.map (·.1))).filter (fun k => decide (k ∉ d.map (·.1))) := by
  intro ps
  induction ps with
  | nil => intro d; simp [firstKeys]
  | cons p ps ih =>
    intro d
    rw [List.foldl_cons, ih, keys_assocSet]
    simp only [List.map_cons, firstKeys]
    by_cases hk : p.1 ∈ d.map (·.1)
    · simp only [hk, if_true, List.filter_cons, not_true_eq_false, decide_false, Bool.false_eq_true, if_false,
        List.filter_filter]
      congr 1
      apply List.filter_congr
      intro x _
      by_cases hx : x ∈ d.map (·.1)
      · simp [hx]
      · have : x ≠ p.1 := fun e => hx (e ▸ hk)
        simp [hx, this]
    · simp only [hk, if_false, List.filter_cons, not_false_eq_true, decide_true, if_true, List.filter_filter,
        List.append_assoc, List.singleton_append]
      congr 2
      apply List.filter_congr
      intro x _
      simp only [List.mem_append, List.mem_singleton, not_or]
      by_cases hx : x ∈ d.map (·.1) <;> by_cases hx2 : x = p.1 <;> simp [hx, hx2]

theorem keys_mappingOf {V} (ps : List (Bytes × V)) : (mappingOf ps).map (·.1) = firstKeys (ps.map (·.1)) := by
  unfold mappingOf
  rw [keys_foldl_assocSet]
  simp

/-! ### association lists with distinct keys -/

theorem filterMap_congr' {α β} {f g : α → Option β} : ∀ {l : List α}, (∀ a ∈ l, f a = g a) →
    l.filterMap f = l.filterMap g := by
  intro l
  induction l with
  | nil => intro _; rfl
  | cons a l ih =>
    intro h
    rw [List.filterMap_cons, List.filterMap_cons, h a List.mem_cons_self,
      ih (fun x hx => h x (List.mem_cons_of_mem _ hx))]

theorem assocGet_cons_ne {V} (k0 k : Bytes) (v0 : V) (m : List (Bytes × V)) (h : ¬ k0 = k) :
    assocGet? ((k0, v0) :: m) k = assocGet? m k := by
  simp [assocGet?, h]

theorem assocGet_cons_self {V} (k0 : Bytes) (v0 : V) (m : List (Bytes × V)) :
    assocGet? ((k0, v0) :: m) k0 = some v0 := by
  simp [assocGet?]

/-- an association list with distinct keys is determined by its key list and its look-up function -/
theorem assoc_reconstruct {V} : ∀ (m : List (Bytes × V)), (m.map (·.1)).Nodup →
    m = (m.map (·.1)).filterMap fun k => (assocGet? m k).map fun v => (k, v) := by
  intro m
  induction m with
  | nil => intro _; rfl
  | cons p m ih =>
    obtain ⟨k0, v0⟩ := p
    intro hn
    rw [List.map_cons, List.nodup_cons] at hn
    rw [List.map_cons, List.filterMap_cons_some (b := (k0, v0)) (by simp [assocGet_cons_self])]
    congr 1
    conv => lhs; rw [ih hn.2]
    apply filterMap_congr'
    intro k hk
    have hne : ¬ k0 = k := fun e => hn.1 (e ▸ hk)
    rw [assocGet_cons_ne k0 k v0 m hne]

theorem mem_iff_assocGet {V} : ∀ (m : List (Bytes × V)), (m.map (·.1)).Nodup → ∀ k v,
    ((k, v) ∈ m ↔ assocGet? m k = some v) := by
  intro m
  induction m with
  | nil => intro _ k v; simp [assocGet?]
  | cons p m ih =>
    obtain ⟨k0, v0⟩ := p
    intro hn k v
    rw [List.map_cons, List.nodup_cons] at hn
    by_cases h : k0 = k
    · subst h
      rw [assocGet_cons_self]
      constructor
      · intro hm
        rcases List.mem_cons.1 hm with e | hm
        · cases e; rfl
        · exact absurd (List.mem_map_of_mem (f := (·.1)) hm) hn.1
      · intro e; cases e; exact List.mem_cons_self
    · rw [assocGet_cons_ne k0 k v0 m h, ← ih hn.2 k v]
      constructor
      · intro hm
        rcases List.mem_cons.1 hm with e | hm
        · cases e; exact absurd rfl h
        · exact hm
      · intro hm; exact List.mem_cons_of_mem _ hm

theorem assocGet_isSome_of_mem {V} (m : List (Bytes × V)) (k : Bytes) (h : k ∈ m.map (·.1)) :
    ∃ v, assocGet? m k = some v := by
  obtain ⟨p, hp, rfl⟩ := List.mem_map.1 h
  unfold assocGet?
  cases hf : m.find? (fun x => x.1 == p.1) with
  | some q => exact ⟨q.2, rfl⟩
  | none =>
    have := List.find?_eq_none.1 hf p hp
    simp at this

/-! ### the last occurrence -/

/-- `lastValue? ps k = some v` iff the last pair of `ps` with key `k` is `(k, v)` -/
theorem lastValue_eq_some_iff {V} (ps : List (Bytes × V)) (k : Bytes) (v : V) :
    lastValue? ps k = some v ↔ ∃ pre post, ps = pre ++ (k, v) :: post ∧ ∀ p ∈ post, p.1 ≠ k := by
  unfold lastValue? assocGet?
  constructor
  · intro h
    cases hf : ps.reverse.find? (fun x => x.1 == k) with
    | none => rw [hf] at h; cases h
    | some q =>
      rw [hf] at h
      simp only [Option.map_some, Option.some.injEq] at h
      obtain ⟨hq, as, bs, hab, hall⟩ := List.find?_eq_some_iff_append.1 hf
      have hqk : q.1 = k := by simpa using hq
      have hps : ps = bs.reverse ++ q :: as.reverse := by
        have := congrArg List.reverse hab
        simpa using this
      refine ⟨bs.reverse, as.reverse, ?_, ?_⟩
      · rw [hps]; congr 2
        obtain ⟨q1, q2⟩ := q
        simp only at hqk h
        rw [hqk, h]
      · intro p hp
        have := hall p (List.mem_reverse.1 hp)
        simpa using this
  · rintro ⟨pre, post, rfl, hall⟩
    have hrev : (pre ++ (k, v) :: post).reverse = post.reverse ++ (k, v) :: pre.reverse := by simp
    rw [hrev]
    have : (post.reverse ++ (k, v) :: pre.reverse).find? (fun x => x.1 == k) = some (k, v) := by
      rw [List.find?_eq_some_iff_append]
      refine ⟨by simp, post.reverse, pre.reverse, rfl, ?_⟩
      intro a ha
      have := hall a (List.mem_reverse.1 ha)
      simpa using this
    rw [this]; rfl

theorem lastValue_isSome_of_mem {V} (ps : List (Bytes × V)) (k : Bytes) (h : k ∈ ps.map (·.1)) :
    ∃ v, lastValue? ps k = some v := by
  unfold lastValue?
  apply assocGet_isSome_of_mem
  simpa using h

/-! ### the theorem -/

/-- the mapping built by successive `d[name] = value` is the declarative ordered content -/
theorem mappingOf_eq_orderedLastWins {V} (ps : List (Bytes × V)) : mappingOf ps = orderedLastWins ps := by
  have hk := keys_mappingOf ps
  have hn : ((mappingOf ps).map (·.1)).Nodup := by rw [hk]; exact nodup_firstKeys _
  conv => lhs; rw [assoc_reconstruct (mappingOf ps) hn]
  rw [hk]
  unfold orderedLastWins lastValue?
  apply filterMap_congr'
  intro k _
  rw [assocGet_mappingOf]

/-- the computable form satisfies the declarative predicate … -/
theorem orderedLastWins_spec {V} (ps : List (Bytes × V)) : OrderedLastWins ps (orderedLastWins ps) := by
  rw [← mappingOf_eq_orderedLastWins]
  have hk := keys_mappingOf ps
  have hn : ((mappingOf ps).map (·.1)).Nodup := by rw [hk]; exact nodup_firstKeys _
  refine ⟨hn, ?_, ?_, ?_⟩
  · intro k; rw [hk]; exact mem_firstKeys _ k
  · rw [hk]; exact pairwise_firstKeys _
  · intro k v
    rw [mem_iff_assocGet _ hn, assocGet_mappingOf]
    exact lastValue_eq_some_iff ps k v

/-- … and the predicate determines the item list: nothing else satisfies it -/
theorem orderedLastWins_unique {V} (ps m : List (Bytes × V)) (h : OrderedLastWins ps m) : m = orderedLastWins ps := by
  -- the key lists agree: distinct, same members, both ordered by first occurrence
  have hkeys : m.map (·.1) = firstKeys (ps.map (·.1)) := by
    apply List.Perm.eq_of_pairwise (le := fun a b => (ps.map (·.1)).idxOf a < (ps.map (·.1)).idxOf b)
    · intro a b _ _ h1 h2; omega
    · exact h.order
    · exact pairwise_firstKeys _
    · rw [List.perm_ext_iff_of_nodup h.nodup (nodup_firstKeys _)]
      intro a; rw [h.keys, mem_firstKeys]
  conv => lhs; rw [assoc_reconstruct m h.nodup]
  rw [hkeys]
  unfold orderedLastWins
  apply filterMap_congr'
  intro k hk
  have hk' : k ∈ ps.map (·.1) := (mem_firstKeys _ k).1 hk
  obtain ⟨v, hv⟩ := lastValue_isSome_of_mem ps k hk'
  rw [hv, (mem_iff_assocGet m h.nodup k v).1 ((h.value k v).2 ((lastValue_eq_some_iff ps k v).1 hv))]

theorem orderedLastWins_iff {V} (ps m : List (Bytes × V)) : OrderedLastWins ps m ↔ m = orderedLastWins ps :=
  ⟨orderedLastWins_unique ps m, fun e => e ▸ orderedLastWins_spec ps⟩

end PyElf.Proofs.Lookup
