/-
  C15 helper: the name of symbol `i` of a laid-out symbol table, as
  `SymbolTableSection.get_symbol(i).name` computes it (used for the pairing of
  the version-symbol table with the dynamic symbols).
-/
import PyElf.Proofs.GnuVersions
namespace PyElf.Proofs
open PyElf PyElf.Spec PyElf.Model

/-- the on-disk integers of a symbol record, in the shape the generic encoder takes -/
def symRaw (s : Sym) : Val :=
  .record [("st_name", .int s.name), ("st_value", .int s.value), ("st_size", .int s.size),
           ("st_info", .record [("bind", .int s.bind), ("type", .int s.type)]),
           ("st_other", .record [("local", .int s.local_), ("visibility", .int s.visibility)]),
           ("st_shndx", .int s.shndx)]

theorem gv_encNat_one (v : Nat) (le : Bool) : encNat le 1 v = natBE 1 v := by
  cases le <;> simp [encNat, natBE, natLE]

theorem sym_encodeRaw32 (c : ElfCfg) (hc : c.cls = 32) (s : Sym) (hf : s.fits 32 = true) :
    (Spec.elfStructs c).Elf_Sym.encodeRaw (symRaw s) = some (s.enc 32 c.le) := by
  simp only [Sym.fits, half, word, Bool.and_eq_true, decide_eq_true_eq] at hf
  obtain ⟨⟨⟨⟨⟨⟨⟨h1, h2⟩, h3⟩, h4⟩, h5⟩, h6⟩, h7⟩, h8⟩ := hf
  have e4 : ((s.bind : Int) < 16) := by omega
  have e5 : ((s.type : Int) < 16) := by omega
  have e6 : ((s.local_ : Int) < 8) := by omega
  have e7 : ((s.visibility : Int) < 8) := by omega
  simp only [Sym.enc, gv_encNat_one]
  simp [Spec.elfStructs, hc, st, mkFields, f, enumOf, symRaw, Con.encodeRaw, ConFields.encodeRaw, Fields.get?,
    enc_uint_nat, h1, h2, h3, h8, packBits, e4, e5, e6, e7]

theorem sym_encodeRaw64 (c : ElfCfg) (hc : c.cls = 64) (s : Sym) (hf : s.fits 64 = true) :
    (Spec.elfStructs c).Elf_Sym.encodeRaw (symRaw s) = some (s.enc 64 c.le) := by
  simp only [Sym.fits, half, word, Bool.and_eq_true, decide_eq_true_eq] at hf
  obtain ⟨⟨⟨⟨⟨⟨⟨h1, h2⟩, h3⟩, h4⟩, h5⟩, h6⟩, h7⟩, h8⟩ := hf
  have e4 : ((s.bind : Int) < 16) := by omega
  have e5 : ((s.type : Int) < 16) := by omega
  have e6 : ((s.local_ : Int) < 8) := by omega
  have e7 : ((s.visibility : Int) < 8) := by omega
  simp only [Sym.enc, gv_encNat_one]
  simp [Spec.elfStructs, hc, st, mkFields, f, enumOf, symRaw, Con.encodeRaw, ConFields.encodeRaw, Fields.get?,
    enc_uint_nat, h1, h2, h3, h8, packBits, e4, e5, e6, e7]

/-- bit fields whose code tables pass unknown values through never fail to decode -/
theorem decodeBits_ok (env : Env) : ∀ (fs : List BitFld) (raw acc : Fields),
    (∀ f ∈ fs, ∀ nm, f.name = some nm →
      (∃ x, Fields.get? raw nm = some (.int x)) ∧ ∀ t p, f.table = some (t, p) → p = true) →
    ∃ acc', decodeBits env fs raw acc = .ok acc'
  | [], _, acc, _ => ⟨acc, rfl⟩
  | fld :: rest, raw, acc, h => by
    have hrest : ∀ f ∈ rest, ∀ nm, f.name = some nm →
        (∃ x, Fields.get? raw nm = some (.int x)) ∧ ∀ t p, f.table = some (t, p) → p = true :=
      fun f hf => h f (List.mem_cons_of_mem _ hf)
    obtain ⟨name, width, table⟩ := fld
    cases name with
    | none => simpa [decodeBits] using decodeBits_ok env rest raw acc hrest
    | some nm =>
      obtain ⟨⟨x, hx⟩, hp⟩ := h ⟨some nm, width, table⟩ List.mem_cons_self nm rfl
      cases table with
      | none => simpa [decodeBits, hx] using decodeBits_ok env rest raw _ hrest
      | some tp =>
        obtain ⟨t, p⟩ := tp
        have : p = true := hp t p rfl
        subst this
        cases hd : env.enumDecode t x with
        | none => simpa [decodeBits, hx, hd] using decodeBits_ok env rest raw _ hrest
        | some sname => simpa [decodeBits, hx, hd] using decodeBits_ok env rest raw _ hrest

theorem decodeRaw_bits_ok (env : Env) (fs : List BitFld) (raw : Fields)
    (h : ∀ f ∈ fs, ∀ nm, f.name = some nm →
      (∃ x, Fields.get? raw nm = some (.int x)) ∧ ∀ t p, f.table = some (t, p) → p = true) :
    ∃ v, ∀ ctx, Con.decodeRaw env (.bits fs) ctx (.record raw) = .ok v := by
  obtain ⟨acc', h'⟩ := decodeBits_ok env fs raw [] h
  exact ⟨.record acc', fun ctx => by simp [Con.decodeRaw, h', bind, Except.bind, pure, Except.pure]⟩

theorem decodeRaw_enum_pass_ok (env : Env) (sub : Con) (t : String) (n : Int) :
    ∃ v, ∀ ctx, Con.decodeRaw env (.enum sub t true) ctx (.int n) = .ok v := by
  cases hd : env.enumDecode t n with
  | none => exact ⟨.int n, fun ctx => by simp [Con.decodeRaw, hd]⟩
  | some s => exact ⟨.str s, fun ctx => by simp [Con.decodeRaw, hd]⟩

theorem decodeRaw_struct (env : Env) (fs : ConFields) (ctx : Fields) (raw : Fields) :
    Con.decodeRaw env (.struct fs) ctx (.record raw)
      = (ConFields.decodeRaw env fs raw [] []).map (fun oc => Val.record oc.1) := by
  rw [Con.decodeRaw]
  cases ConFields.decodeRaw env fs raw [] [] <;> simp [bind, Except.bind, Except.map, pure, Except.pure]

theorem decodeRaw_uint (env : Env) (n : Nat) (le : Bool) (ctx : Fields) (v : Val) :
    Con.decodeRaw env (.uint n le) ctx v = .ok v := by
  cases v <;> rw [Con.decodeRaw] <;> simp

/-- the symbol record decodes (whatever the code tables say about binding, type, visibility, section
    index) to a record whose `st_name` is the encoded one -/
theorem sym_decodeRaw (env : Env) (c : ElfCfg) (hcls : c.cls = 32 ∨ c.cls = 64) (s : Sym) :
    ∃ v, (Spec.elfStructs c).Elf_Sym.decodeRaw env [] (symRaw s) = .ok v ∧ v.getNat "st_name" = .ok s.name := by
  obtain ⟨vi, hi⟩ := decodeRaw_bits_ok env
    [⟨some "bind", 4, some ("ENUM_ST_INFO_BIND", true)⟩, ⟨some "type", 4, some ("ENUM_ST_INFO_TYPE", true)⟩]
    [("bind", .int s.bind), ("type", .int s.type)]
    (by
      intro f hf nm hnm
      simp only [List.mem_cons, List.mem_nil_iff, or_false] at hf
      rcases hf with rfl | rfl <;> simp only [Option.some.injEq] at hnm <;> subst hnm <;>
        exact ⟨⟨_, by simp [Fields.get?]; rfl⟩, by intro t p h; simp only [Option.some.injEq, Prod.mk.injEq] at h; exact h.2.symm⟩)
  obtain ⟨vo, ho⟩ := decodeRaw_bits_ok env
    [⟨some "local", 3, some ("ENUM_ST_LOCAL", true)⟩, ⟨none, 2, none⟩,
     ⟨some "visibility", 3, some ("ENUM_ST_VISIBILITY", true)⟩]
    [("local", .int s.local_), ("visibility", .int s.visibility)]
    (by
      intro f hf nm hnm
      simp only [List.mem_cons, List.mem_nil_iff, or_false] at hf
      rcases hf with rfl | rfl | rfl
      · simp only [Option.some.injEq] at hnm; subst hnm
        exact ⟨⟨_, by simp [Fields.get?]; rfl⟩, by intro t p h; simp only [Option.some.injEq, Prod.mk.injEq] at h; exact h.2.symm⟩
      · simp at hnm
      · simp only [Option.some.injEq] at hnm; subst hnm
        exact ⟨⟨_, by simp [Fields.get?]; rfl⟩, by intro t p h; simp only [Option.some.injEq, Prod.mk.injEq] at h; exact h.2.symm⟩)
  obtain ⟨vs, hs⟩ := decodeRaw_enum_pass_ok env (.uint 2 c.le) "ENUM_ST_SHNDX" (s.shndx : Int)
  rcases hcls with hc | hc
  · refine ⟨.record [("st_name", .int s.name), ("st_value", .int s.value), ("st_size", .int s.size),
      ("st_info", vi), ("st_other", vo), ("st_shndx", vs)], ?_, getNat_int _ _ _ (by simp [Fields.get?])⟩
    simp [Spec.elfStructs, hc, st, mkFields, f, enumOf, symRaw, decodeRaw_struct, ConFields.decodeRaw, decodeRaw_uint,
      hi, ho, hs, Fields.get?, Fields.set, bind, Except.bind, Except.map, pure, Except.pure]
  · refine ⟨.record [("st_name", .int s.name), ("st_info", vi), ("st_other", vo), ("st_shndx", vs),
      ("st_value", .int s.value), ("st_size", .int s.size)], ?_, getNat_int _ _ _ (by simp [Fields.get?])⟩
    simp [Spec.elfStructs, hc, st, mkFields, f, enumOf, symRaw, decodeRaw_struct, ConFields.decodeRaw, decodeRaw_uint,
      hi, ho, hs, Fields.get?, Fields.set, bind, Except.bind, Except.map, pure, Except.pure]

theorem sym_fixed (c : ElfCfg) (hcls : c.cls = 32 ∨ c.cls = 64) : (Spec.elfStructs c).Elf_Sym.fixed = true := by
  rcases hcls with hc | hc <;> simp [Spec.elfStructs, hc] <;> rfl

theorem sym_enc_length_pos (cls : Nat) (le : Bool) (s : Sym) : 0 < (s.enc cls le).length := by
  unfold Sym.enc
  split <;> simp [encNat_length]

theorem symsAt_get {cls : Nat} {le : Bool} {data : Bytes} {off es strOff : Nat} :
    ∀ (rows : List (Sym × VersymRow)) (j : Nat), symsAt cls le data off es strOff j rows = true →
      ∀ (k : Nat) (r : Sym × VersymRow), rows[k]? = some r →
        symAt cls le data off es strOff (j + k) r.1 r.2.symName = true
  | [], _, _, k, r, hr => by simp at hr
  | (s, x) :: rest, j, h, k, r, hr => by
    simp only [symsAt, Bool.and_eq_true] at h
    obtain ⟨h1, h2⟩ := h
    cases k with
    | zero =>
      simp at hr
      subst hr
      simpa using h1
    | succ k =>
      simp at hr
      have := symsAt_get rest (j + 1) h2 k r hr
      have e : j + 1 + k = j + (k + 1) := by omega
      rw [e] at this
      exact this

/-- `SymbolTableSection.get_symbol(i).name` on a laid-out symbol table -/
theorem symName_of_symsAt (env : Env) (c : ElfCfg) (hcls : c.cls = 32 ∨ c.cls = 64) (data : Bytes)
    (hlen : data.length < 2 ^ 63) (off size es symOff symEs symStrOff : Nat) (rows : List (Sym × VersymRow))
    (hs : symsAt c.cls c.le data symOff symEs symStrOff 0 rows = true)
    (i : Nat) (r : Sym × VersymRow) (hr : rows[i]? = some r) :
    (VersymSec.mk' (Spec.elfStructs c) data off size es symOff symEs symStrOff).symName env i = .ok r.2.symName := by
  have hat := symsAt_get rows 0 hs i r hr
  rw [Nat.zero_add] at hat
  simp only [symAt, Bool.and_eq_true] at hat
  obtain ⟨⟨hf, hb⟩, hstr⟩ := hat
  obtain ⟨v, hv, hname⟩ := sym_decodeRaw env c hcls r.1
  have henc : (Spec.elfStructs c).Elf_Sym.encodeRaw (symRaw r.1) = some (r.1.enc c.cls c.le) := by
    rcases hcls with hc | hc
    · rw [hc] at hf ⊢; exact sym_encodeRaw32 c hc r.1 hf
    · rw [hc] at hf ⊢; exact sym_encodeRaw64 c hc r.1 hf
  have hp := structParseAt_of_bytesAt env _ (sym_fixed c hcls) _ _ _ henc hv (sym_enc_length_pos _ _ _) hlen hb
  simp only [VersymSec.symName]
  simp [VersymSec.mk', hp, hname, strtabGet_of_strAt hlen hstr, bind, Except.bind]

end PyElf.Proofs
