/-
  C03 helper lemmas: whole-file composition (fifth wave).  For a well-formed abstract ELF image
  (C01: `ElfDesc.wfZ`, `Layout`) one of whose sections is a symbol table / hash table / syminfo table /
  extended index table in the sense of `Spec/SymbolsFile.lean`, `ELFFile(bytes).get_section(sec)` builds
  the object whose constructor arguments are the ones the description says, and the file is a layout of the
  table in the sense of `SymtabLayout` / `SyminfoLayout` (Proofs/SymTable.lean, Proofs/SymBuilt.lean).

  Reuses C15's file-level lemmas (`file_setup`, `sec_view`, `body_drop`, `getSection_kind`,
  `linkedHeader_ok`: Proofs/GnuVersionsFile.lean) and C01's (`Setup`, Proofs/ElfFile.lean).
-/
import PyElf.Proofs.GnuVersionsFile
import PyElf.Proofs.SymBuilt
import PyElf.Proofs.SymImage
import PyElf.Model.SymbolsFile
import PyElf.Spec.SymbolsFile
namespace PyElf.Proofs.C03F
open PyElf PyElf.Spec PyElf.Spec.C03 PyElf.Model PyElf.Model.C03 PyElf.Model.C15 PyElf.Proofs PyElf.Proofs.C03
  PyElf.Proofs.C15

/-! ### the description's side, unpacked -/

/-- `symtabAt`, as facts -/
structure SymtabFacts (env : Env) (d : ElfDesc) (sec : Nat) (es : List SymE) (names : List Bytes) : Prop where
  hi : sec < d.sections.length
  ty : ∃ h t, d.decHdr env sec = some h ∧ h.getField "sh_type" = .ok (.str t) ∧
    t ∈ ["SHT_SYMTAB", "SHT_DYNSYM", "SHT_SUNW_LDYNSYM"]
  entpos : 0 < getNatD (d.sections[sec]).hdr "sh_entsize"
  size : getNatD (d.sections[sec]).hdr "sh_size" = es.length * getNatD (d.sections[sec]).hdr "sh_entsize"
  nlen : names.length = es.length
  wf : ∀ i (hi : i < es.length), es[i].WF d.cls = true
  entry : ∀ i (hi : i < es.length),
    ((bodyOf (d.sections[sec])).drop (i * getNatD (d.sections[sec]).hdr "sh_entsize")).take (symSize d.cls)
      = encSym d.le d.cls es[i]
  hlink : getNatD (d.sections[sec]).hdr "sh_link" < d.sections.length
  name : ∀ i (hi : i < es.length),
    strAt (bodyOf (d.sections[getNatD (d.sections[sec]).hdr "sh_link"])) es[i].stName = some (names.getD i [])

theorem getD_of_lt {α : Type} (l : List α) (i : Nat) (dflt : α) (hi : i < l.length) : l.getD i dflt = l[i] := by
  simp [List.getD_eq_getElem?_getD, List.getElem?_eq_getElem hi]

theorem symtabAt_unpack {env : Env} {d : ElfDesc} {sec : Nat} {es : List SymE} {names : List Bytes}
    (h : symtabAt env d sec es names = true) : SymtabFacts env d sec es names := by
  unfold symtabAt at h
  cases hs : d.sections[sec]? with
  | none => simp [hs] at h
  | some s =>
    obtain ⟨hi, rfl⟩ := List.getElem?_eq_some_iff.1 hs
    cases hd : d.decHdr env sec with
    | none => simp [hs, hd] at h
    | some hv =>
      simp only [hs, hd, Bool.and_eq_true, decide_eq_true_eq] at h
      obtain ⟨⟨⟨⟨⟨⟨h1, h2⟩, h3⟩, h4⟩, h5⟩, h6⟩, h7⟩ := h
      obtain ⟨t, ht, hm⟩ := typeIn_unpack h1
      cases hl : d.sections[getNatD (d.sections[sec]).hdr "sh_link"]? with
      | none => simp [hl] at h7
      | some stt =>
        obtain ⟨hli, rfl⟩ := List.getElem?_eq_some_iff.1 hl
        simp only [hl, List.all_eq_true, List.mem_range, beq_iff_eq] at h7 h6 h5
        refine ⟨hi, ⟨hv, t, hd, ht, hm⟩, h2, h3, h4, ?_, ?_, hli, ?_⟩
        · intro i hi'
          exact h5 _ (List.getElem_mem hi')
        · intro i hi'
          have := h6 i hi'
          rwa [getD_of_lt es i default hi'] at this
        · intro i hi'
          have := h7 i hi'
          rwa [getD_of_lt es i default hi'] at this

/-- `linkedAt`, as facts -/
structure LinkedFacts (env : Env) (d : ElfDesc) (sec target : Nat) (ty : String) (content : Bytes) : Prop where
  hi : sec < d.sections.length
  ty : ∃ h, d.decHdr env sec = some h ∧ h.getField "sh_type" = .ok (.str ty)
  link : getNatD (d.sections[sec]).hdr "sh_link" = target
  body : ∃ slack, bodyOf (d.sections[sec]) = content ++ slack

theorem linkedAt_unpack {env : Env} {d : ElfDesc} {sec target : Nat} {ty : String} {content : Bytes}
    (h : linkedAt env d sec target ty content = true) : LinkedFacts env d sec target ty content := by
  unfold linkedAt at h
  cases hs : d.sections[sec]? with
  | none => simp [hs] at h
  | some s =>
    obtain ⟨hi, rfl⟩ := List.getElem?_eq_some_iff.1 hs
    cases hd : d.decHdr env sec with
    | none => simp [hs, hd] at h
    | some hv =>
      simp only [hs, hd, Bool.and_eq_true, decide_eq_true_eq] at h
      obtain ⟨⟨h1, h2⟩, h3⟩ := h
      obtain ⟨t, ht, hm⟩ := typeIn_unpack h1
      simp only [List.mem_cons, List.not_mem_nil, or_false] at hm
      subst hm
      obtain ⟨slack, hsl⟩ := List.isPrefixOf_iff_prefix.1 h3
      exact ⟨hi, ⟨hv, hd, ht⟩, h2, slack, hsl.symm⟩

theorem hdrNat_eq (d : ElfDesc) {i : Nat} (hi : i < d.sections.length) (k : String) :
    hdrNat d i k = getNatD (d.sections[i]).hdr k := by
  simp [hdrNat, List.getElem?_eq_getElem hi]

/-! ### from the body of a section to the bytes of the file -/

/-- a slice of a section's body is a slice of the file -/
theorem drop_of_body_take {bytes body rest enc : Bytes} {off k m : Nat} (hb : bytes.drop off = body ++ rest)
    (ht : (body.drop k).take m = enc) (hm : enc.length = m) (hpos : 0 < m) :
    ∃ rest', bytes.drop (off + k) = enc ++ rest' := by
  have hk : k < body.length := by
    apply Classical.byContradiction
    intro hn
    have : body.drop k = [] := List.drop_eq_nil_of_le (by omega)
    rw [this] at ht
    simp at ht
    subst ht
    simp at hm
    omega
  refine ⟨(body.drop k).drop m ++ rest, ?_⟩
  rw [← List.drop_drop, hb, List.drop_append_of_le_length (by omega), ← List.append_assoc, ← ht,
    List.take_append_drop]

/-- the file is a `SymtabLayout` of the table the description holds in section `sec` -/
theorem symtab_layout {env : Env} {d : ElfDesc} {bytes : Bytes} (hcls : d.cls = 32 ∨ d.cls = 64)
    (hL : LayoutFacts d bytes) {sec : Nat} {es : List SymE} {names : List Bytes}
    (F : SymtabFacts env d sec es names) :
    SymtabLayout d.le d.cls bytes
      ⟨getNatD (d.sections[sec]'F.hi).hdr "sh_offset", getNatD (d.sections[sec]'F.hi).hdr "sh_size",
       getNatD (d.sections[sec]'F.hi).hdr "sh_entsize"⟩
      (getNatD (d.sections[getNatD (d.sections[sec]'F.hi).hdr "sh_link"]'F.hlink).hdr "sh_offset") es names := by
  obtain ⟨rest, hrest⟩ := body_drop hL F.hi
  obtain ⟨rest', hrest'⟩ := body_drop hL F.hlink
  have hsz : 0 < symSize d.cls := by unfold symSize; split <;> omega
  refine ⟨hcls, F.entpos, F.size, F.nlen, F.wf, ?_, ?_⟩
  · intro i hi
    exact drop_of_body_take hrest (F.entry i hi) (encSym_length _ _ _) hsz
  · intro i hi
    show strAt (bytes.drop _) _ = _
    rw [hrest']
    exact strAt_append rest' (F.name i hi)

/-! ### what must be observed of the objects -/

/-- everything the property says of a SymbolTableSection: count, every entry with its name by index,
    the enumeration in index order, and lookup by name (exactly the symbols bearing the name, or `None`) -/
def SymtabObserved (env : Env) (S : ElfStructs) (data : Bytes) (cls : Nat) (h : SecHdr) (strOff : Nat)
    (es : List SymE) (names : List Bytes) : Prop :=
  numSymbols h = .ok es.length ∧
  (∀ i, i < es.length → getSymbol S env data h strOff i = .ok (symObs env.enumDecode cls es names i)) ∧
  iterSymbols S env data h strOff = .ok ((List.range es.length).map (symObs env.enumDecode cls es names)) ∧
  ∀ name, getSymbolByName S env data h strOff name
    = .ok (if byName names name = [] then none
           else some ((byName names name).map (symObs env.enumDecode cls es names)))

theorem symtab_observed (env : Env) {le : Bool} {cls : Nat} (m : String) (sol core : Bool) {data : Bytes}
    {h : SecHdr} {strOff : Nat} {es : List SymE} {names : List Bytes}
    (L : SymtabLayout le cls data h strOff es names) :
    SymtabObserved env (Spec.elfStructs ⟨le, cls, m, sol, core⟩) data cls h strOff es names :=
  ⟨layout_numSymbols L, fun i hi => layout_getSymbol env m sol core L i hi, layout_iterSymbols env m sol core L,
    fun name => layout_byName env m sol core L name⟩

/-- a System V hash table object over a symbol table object: the count is the table's length; a lookup
    returns a symbol `1 ≤ j < n` bearing the name whenever there is one, and `None` otherwise -/
def SysvObserved (env : Env) (S : ElfStructs) (data : Bytes) (cls : Nat) (params : Val) (symH : SecHdr) (strOff : Nat)
    (es : List SymE) (names : List Bytes) : Prop :=
  elfHashCount params = .ok (.int es.length) ∧
  ∀ name, ∃ r, elfHashGetSymbol params (getSymbol S env data symH strOff) name = .ok r ∧
    (∀ s, r = some s → ∃ j, 1 ≤ j ∧ j < es.length ∧ names.getD j [] = name ∧ s = symObs env.enumDecode cls es names j) ∧
    (r = none → ∀ i, 1 ≤ i → i < es.length → names.getD i [] ≠ name)

/-- a GNU hash table object: the count is the table's length; a lookup returns the first hashed symbol
    (`symoffset ≤ j < n`) bearing the name, `None` when there is none -/
def GnuObserved (env : Env) (S : ElfStructs) (data : Bytes) (le : Bool) (cls : Nat) (g : GnuHash) (symH : SecHdr)
    (strOff : Nat) (es : List SymE) (names : List Bytes) (symoffset : Nat) : Prop :=
  gnuHashCount le data g = .ok es.length ∧
  ∀ name, gnuHashGetSymbol le cls data g (getSymbol S env data symH strOff) name
    = .ok ((gnuFirstNamed names symoffset name).map (symObs env.enumDecode cls es names))

/-- a SUNW syminfo object -/
def SyminfoObserved (env : Env) (S : ElfStructs) (data : Bytes) (h symH : SecHdr) (strOff : Nat)
    (si : List (Nat × Nat)) (names : List Bytes) : Prop :=
  syminfoNum h = .ok ((si.length : Int) - 1) ∧
  syminfoIter S env data h symH strOff = .ok ((List.range' 1 (si.length - 1)).map (syminfoObs env.enumDecode si names))

theorem sysv_observed (env : Env) {le : Bool} {cls : Nat} (m : String) (sol core : Bool) {data : Bytes}
    {h : SecHdr} {strOff : Nat} {es : List SymE} {names : List Bytes}
    (L : SymtabLayout le cls data h strOff es names) (t : SysVTable) (hwf : WFSysV names t = true) :
    SysvObserved env (Spec.elfStructs ⟨le, cls, m, sol, core⟩) data cls (sysvParams t) h strOff es names := by
  have hl := L.nlen
  have hget : ∀ j, j < names.length → getSymbol (Spec.elfStructs ⟨le, cls, m, sol, core⟩) env data h strOff j
      = .ok (symObs env.enumDecode cls es names j) := fun j hj => layout_getSymbol env m sol core L j (by omega)
  refine ⟨by rw [← hl]; exact sysv_count_eq names t hwf, fun name => ?_⟩
  obtain ⟨r, hr, hs⟩ := sysv_sound names t _ _ name hwf hget (fun _ _ => rfl)
  refine ⟨r, hr, ?_, ?_⟩
  · intro s hsome
    obtain ⟨j, a, b, c, e⟩ := hs s hsome
    exact ⟨j, a, by omega, c, e⟩
  · intro hnone i hi1 hin hnm
    obtain ⟨j, _, _, _, hj⟩ := sysv_complete names t _ _ name hwf hget (fun _ _ => rfl) i hi1 (by omega) hnm
    rw [hj] at hr
    cases hr
    cases hnone

theorem gnu_observed (env : Env) {le : Bool} {cls : Nat} (m : String) (sol core : Bool) {data : Bytes}
    {h : SecHdr} {strOff : Nat} {es : List SymE} {names : List Bytes}
    (L : SymtabLayout le cls data h strOff es names) (t : GnuTable) (hwf : WFGnu cls names t = true)
    (g : GnuHash) (hg : g.params = gnuParams t) (hws : g.wordsize = 4)
    (hread : ∀ k (hk : k < t.chain.length), readHashWord le data (g.chainPos + k * 4) = .ok t.chain[k]) :
    GnuObserved env (Spec.elfStructs ⟨le, cls, m, sol, core⟩) data le cls g h strOff es names t.symoffset := by
  have hl := L.nlen
  refine ⟨by rw [← hl]; exact gnuHashCount_eq cls names t le data g hwf hg hws hread, fun name => ?_⟩
  exact gnuHashGetSymbol_eq cls names t le data g _ _ name hwf hg hws hread
    (fun j hj => layout_getSymbol env m sol core L j (by omega)) (fun _ _ => rfl)

/-! ### `get_section(n)` once `getSection` and the header reads are known -/

theorem getSymSection_symtab_of {env : Env} {f : ElfFile} {n : Nat} {nm : Bytes} {sh strh : Val}
    {link off size es strOff : Nat}
    (hget : getSection env f.S f.data f.header f.shstr n = .ok ("SymbolTableSection", nm, sh))
    (h1 : sh.getNat "sh_link" = .ok link) (h2 : linkedHeader env f link = .ok strh)
    (h3 : sh.getNat "sh_offset" = .ok off) (h4 : sh.getNat "sh_size" = .ok size)
    (h5 : sh.getNat "sh_entsize" = .ok es) (h6 : strh.getNat "sh_offset" = .ok strOff) :
    getSymSection env f n = .ok (.symtab ⟨off, size, es⟩ strOff) := by
  unfold getSymSection secHdrOf
  simp only [hget, bind, Except.bind, h1, h2, h3, h4, h5, h6]
  rfl

theorem getSymSection_shndx_of {env : Env} {f : ElfFile} {n : Nat} {nm : Bytes} {sh : Val}
    {link off size es : Nat}
    (hget : getSection env f.S f.data f.header f.shstr n = .ok ("SymbolTableIndexSection", nm, sh))
    (h1 : sh.getNat "sh_link" = .ok link)
    (h3 : sh.getNat "sh_offset" = .ok off) (h4 : sh.getNat "sh_size" = .ok size)
    (h5 : sh.getNat "sh_entsize" = .ok es) :
    getSymSection env f n = .ok (.shndx ⟨off, size, es⟩ link) := by
  unfold getSymSection secHdrOf
  simp only [hget, bind, Except.bind, h1, h3, h4, h5]
  rfl

theorem linkedSymtab_of {env : Env} {f : ElfFile} {sh symh strh : Val} {link link2 off size es strOff : Nat}
    (h1 : sh.getNat "sh_link" = .ok link) (h2 : linkedHeader env f link = .ok symh)
    (h3 : symh.getNat "sh_link" = .ok link2) (h4 : linkedHeader env f link2 = .ok strh)
    (h5 : symh.getNat "sh_offset" = .ok off) (h6 : symh.getNat "sh_size" = .ok size)
    (h7 : symh.getNat "sh_entsize" = .ok es) (h8 : strh.getNat "sh_offset" = .ok strOff) :
    linkedSymtab env f sh = .ok (⟨off, size, es⟩, strOff) := by
  unfold linkedSymtab secHdrOf
  simp only [bind, Except.bind, h1, h2, h3, h4, h5, h6, h7, h8]
  rfl

theorem getSymSection_syminfo_of {env : Env} {f : ElfFile} {n : Nat} {nm : Bytes} {sh : Val}
    {symH : SecHdr} {off size es strOff : Nat}
    (hget : getSection env f.S f.data f.header f.shstr n = .ok ("SUNWSyminfoTableSection", nm, sh))
    (hl : linkedSymtab env f sh = .ok (symH, strOff))
    (h3 : sh.getNat "sh_offset" = .ok off) (h4 : sh.getNat "sh_size" = .ok size)
    (h5 : sh.getNat "sh_entsize" = .ok es) :
    getSymSection env f n = .ok (.syminfo ⟨off, size, es⟩ symH strOff) := by
  unfold getSymSection secHdrOf
  simp only [hget, bind, Except.bind, hl, h3, h4, h5]
  rfl

theorem getSymSection_sysv_of {env : Env} {f : ElfFile} {n : Nat} {nm : Bytes} {sh params : Val}
    {symH : SecHdr} {off strOff : Nat}
    (hget : getSection env f.S f.data f.header f.shstr n = .ok ("ELFHashSection", nm, sh))
    (hl : linkedSymtab env f sh = .ok (symH, strOff))
    (h3 : sh.getNat "sh_offset" = .ok off) (hp : elfHashInit f.S env f.data off = .ok params) :
    getSymSection env f n = .ok (.sysv params symH strOff) := by
  unfold getSymSection
  simp only [hget, bind, Except.bind, hl, h3, hp]
  rfl

theorem getSymSection_gnu_of {env : Env} {f : ElfFile} {n : Nat} {nm : Bytes} {sh : Val} {g : GnuHash}
    {symH : SecHdr} {off strOff : Nat}
    (hget : getSection env f.S f.data f.header f.shstr n = .ok ("GNUHashSection", nm, sh))
    (hl : linkedSymtab env f sh = .ok (symH, strOff))
    (h3 : sh.getNat "sh_offset" = .ok off) (hp : gnuHashInit f.S env f.cls f.data off = .ok g) :
    getSymSection env f n = .ok (.gnu g symH strOff) := by
  unfold getSymSection
  simp only [hget, bind, Except.bind, hl, h3, hp]
  rfl

/-! ### the objects `get_section` builds for a well-formed, laid-out description -/

section objects
variable {env : Env} {d : ElfDesc} {bytes : Bytes} {hdr : Val} {st : Option Val}

theorem kindOf_symtab {t : String} (ht : t ∈ ["SHT_SYMTAB", "SHT_DYNSYM", "SHT_SUNW_LDYNSYM"]) (nm : Bytes) :
    kindOf (.str t) nm = "SymbolTableSection" := by
  simp only [List.mem_cons, List.not_mem_nil, or_false] at ht
  rcases ht with rfl | rfl | rfl <;> rfl

/-- the header fields of section `i`, as the table classes read them -/
def rawSecHdr (d : ElfDesc) (i : Nat) : SecHdr :=
  ⟨hdrNat d i "sh_offset", hdrNat d i "sh_size", hdrNat d i "sh_entsize"⟩

/-- `get_section(sec)` of a symbol table: a SymbolTableSection over its own header and the linked string
    table's offset, and the file is a layout of the entries and names -/
theorem getSymSection_symtab (X : Setup env d bytes hdr st) {sec : Nat} {es : List SymE} {names : List Bytes}
    (F : SymtabFacts env d sec es names) :
    getSymSection env (fileOf d bytes hdr st) sec
        = .ok (.symtab (rawSecHdr d sec) (hdrNat d (hdrNat d sec "sh_link") "sh_offset")) ∧
      SymtabLayout d.le d.cls bytes (rawSecHdr d sec) (hdrNat d (hdrNat d sec "sh_link") "sh_offset") es names := by
  obtain ⟨h, V⟩ := sec_view X F.hi
  obtain ⟨h', t, hdec, htyv, hm⟩ := F.ty
  have := sec_view_unique V hdec
  subst this
  obtain ⟨lh, LV⟩ := sec_view X F.hlink
  have hget := getSection_kind X V htyv
  rw [kindOf_symtab hm] at hget
  have e1 := V.nat "sh_link" (by simp [shdrNatKeys]) (by decide)
  have e2 := V.nat "sh_offset" (by simp [shdrNatKeys]) (by decide)
  have e3 := V.nat "sh_size" (by simp [shdrNatKeys]) (by decide)
  have e4 := V.nat "sh_entsize" (by simp [shdrNatKeys]) (by decide)
  have e5 := LV.nat "sh_offset" (by simp [shdrNatKeys]) (by decide)
  rw [rawHdr_eq d F.hi] at e1 e2 e3 e4
  rw [rawHdr_eq d F.hlink] at e5
  have L := symtab_layout X.hw.cls X.hL F
  unfold rawSecHdr
  simp only [hdrNat_eq d F.hi, hdrNat_eq d F.hlink]
  exact ⟨getSymSection_symtab_of (f := fileOf d bytes hdr st) hget e1 (linkedHeader_ok LV) e2 e3 e4 e5, L⟩

/-- the SymbolTableSection a hash / syminfo section holds: the one `sh_link` designates -/
theorem linkedSymtab_ok (X : Setup env d bytes hdr st) {sec : Nat} {es : List SymE} {names : List Bytes}
    (F : SymtabFacts env d sec es names) {hsec : Nat} {h : Val} (V : SecView env d bytes hdr st hsec h)
    (hlink : getNatD (d.sections[hsec]'V.hi).hdr "sh_link" = sec) :
    linkedSymtab env (fileOf d bytes hdr st) h
      = .ok (rawSecHdr d sec, hdrNat d (hdrNat d sec "sh_link") "sh_offset") := by
  obtain ⟨sh, SV⟩ := sec_view X F.hi
  obtain ⟨lh, LV⟩ := sec_view X F.hlink
  have e0 := V.nat "sh_link" (by simp [shdrNatKeys]) (by decide)
  rw [rawHdr_eq d V.hi, hlink] at e0
  have e1 := SV.nat "sh_link" (by simp [shdrNatKeys]) (by decide)
  have e2 := SV.nat "sh_offset" (by simp [shdrNatKeys]) (by decide)
  have e3 := SV.nat "sh_size" (by simp [shdrNatKeys]) (by decide)
  have e4 := SV.nat "sh_entsize" (by simp [shdrNatKeys]) (by decide)
  have e5 := LV.nat "sh_offset" (by simp [shdrNatKeys]) (by decide)
  rw [rawHdr_eq d F.hi] at e1 e2 e3 e4
  rw [rawHdr_eq d F.hlink] at e5
  unfold rawSecHdr
  simp only [hdrNat_eq d F.hi, hdrNat_eq d F.hlink]
  exact linkedSymtab_of (f := fileOf d bytes hdr st) e0 (linkedHeader_ok SV) e1 (linkedHeader_ok LV) e2 e3 e4 e5

/-- the content a linked section's body begins with sits at its `sh_offset` in the file -/
theorem content_drop (hL : LayoutFacts d bytes) {sec target : Nat} {ty : String} {content : Bytes}
    (G : LinkedFacts env d sec target ty content) :
    ∃ rest, bytes.drop (getNatD (d.sections[sec]'G.hi).hdr "sh_offset") = content ++ rest := by
  obtain ⟨rest, hrest⟩ := body_drop hL G.hi
  obtain ⟨slack, hsl⟩ := G.body
  exact ⟨slack ++ rest, by rw [hrest, hsl, List.append_assoc]⟩

/-- `get_section(hsec)` of a System V hash section over the symbol table `sec` -/
theorem getSymSection_sysv (X : Setup env d bytes hdr st) {sec hsec : Nat} {es : List SymE} {names : List Bytes}
    {t : SysVTable} (F : SymtabFacts env d sec es names)
    (G : LinkedFacts env d hsec sec "SHT_HASH" (encSysV d.le t)) (hwf : WFSysV names t = true) :
    getSymSection env (fileOf d bytes hdr st) hsec
      = .ok (.sysv (sysvParams t) (rawSecHdr d sec) (hdrNat d (hdrNat d sec "sh_link") "sh_offset")) := by
  obtain ⟨h, V⟩ := sec_view X G.hi
  obtain ⟨h', hdec, htyv⟩ := G.ty
  have := sec_view_unique V hdec
  subst this
  have hget := getSection_kind X V htyv
  have e2 := V.nat "sh_offset" (by simp [shdrNatKeys]) (by decide)
  rw [rawHdr_eq d G.hi] at e2
  obtain ⟨rest, hrest⟩ := content_drop X.hL G
  have hp := sysv_init_of_wf env d.cfg names t bytes _ rest hwf hrest
  exact getSymSection_sysv_of (f := fileOf d bytes hdr st) hget (linkedSymtab_ok X F V G.link) e2 hp

/-- `get_section(hsec)` of a GNU hash section over the symbol table `sec`: the parameters are the table's,
    and the chain words lie at `_chain_pos` -/
theorem getSymSection_gnu (X : Setup env d bytes hdr st) {sec hsec : Nat} {es : List SymE} {names : List Bytes}
    {t : GnuTable} (F : SymtabFacts env d sec es names)
    (G : LinkedFacts env d hsec sec "SHT_GNU_HASH" (encGnu d.le d.cls t)) (hwf : WFGnu d.cls names t = true) :
    ∃ g, getSymSection env (fileOf d bytes hdr st) hsec
        = .ok (.gnu g (rawSecHdr d sec) (hdrNat d (hdrNat d sec "sh_link") "sh_offset")) ∧
      g.params = gnuParams t ∧ g.wordsize = 4 ∧
      ∀ k (hk : k < t.chain.length), readHashWord d.le bytes (g.chainPos + k * 4) = .ok t.chain[k] := by
  obtain ⟨h, V⟩ := sec_view X G.hi
  obtain ⟨h', hdec, htyv⟩ := G.ty
  have := sec_view_unique V hdec
  subst this
  have hget := getSection_kind X V htyv
  have e2 := V.nat "sh_offset" (by simp [shdrNatKeys]) (by decide)
  rw [rawHdr_eq d G.hi] at e2
  obtain ⟨rest, hrest⟩ := content_drop X.hL G
  obtain ⟨g, hp, h2, h3, h4⟩ := gnu_init_of_wf env d.cfg X.hw.cls names t bytes _ rest hwf hrest
  exact ⟨g, getSymSection_gnu_of (f := fileOf d bytes hdr st) hget (linkedSymtab_ok X F V G.link) e2 hp, h2, h3, h4⟩

/-- `get_section(isec)` of a syminfo section over the symbol table `sec` -/
theorem getSymSection_syminfo (X : Setup env d bytes hdr st) {sec isec : Nat} {es : List SymE} {names : List Bytes}
    {si : List (Nat × Nat)} (F : SymtabFacts env d sec es names)
    (G : LinkedFacts env d isec sec "SHT_SUNW_syminfo" (encSyminfo d.le si))
    (hent : hdrNat d isec "sh_entsize" = 4) (hsize : hdrNat d isec "sh_size" = si.length * 4)
    (hsi : ∀ e ∈ si, e.1 < 65536 ∧ e.2 < 65536) :
    getSymSection env (fileOf d bytes hdr st) isec
        = .ok (.syminfo (rawSecHdr d isec) (rawSecHdr d sec) (hdrNat d (hdrNat d sec "sh_link") "sh_offset")) ∧
      SyminfoLayout d.le bytes (rawSecHdr d isec) si := by
  obtain ⟨h, V⟩ := sec_view X G.hi
  obtain ⟨h', hdec, htyv⟩ := G.ty
  have := sec_view_unique V hdec
  subst this
  have hget := getSection_kind X V htyv
  have e2 := V.nat "sh_offset" (by simp [shdrNatKeys]) (by decide)
  have e3 := V.nat "sh_size" (by simp [shdrNatKeys]) (by decide)
  have e4 := V.nat "sh_entsize" (by simp [shdrNatKeys]) (by decide)
  rw [rawHdr_eq d G.hi] at e2 e3 e4
  obtain ⟨rest, hrest⟩ := content_drop X.hL G
  refine ⟨?_, ?_⟩
  · have := getSymSection_syminfo_of (f := fileOf d bytes hdr st) hget (linkedSymtab_ok X F V G.link) e2 e3 e4
    rw [this]
    simp only [rawSecHdr, hdrNat_eq d G.hi]
  · refine syminfoLayout_packed d.le bytes (rawSecHdr d isec) si rest hent hsize hsi ?_
    show bytes.drop (hdrNat d isec "sh_offset") = _
    rw [hdrNat_eq d G.hi]
    exact hrest

/-- `get_section(xsec)` of an extended section index table: `symboltable` is the number `sh_link` (whatever it
    is), and every index reads back -/
theorem getSymSection_shndx (X : Setup env d bytes hdr st) {xsec target : Nat} {ws : List Nat}
    (G : LinkedFacts env d xsec target "SHT_SYMTAB_SHNDX" (encShndx d.le ws))
    (hent : hdrNat d xsec "sh_entsize" = 4) (hws : ∀ w ∈ ws, w < 2 ^ 32) :
    getSymSection env (fileOf d bytes hdr st) xsec = .ok (.shndx (rawSecHdr d xsec) target) ∧
      ∀ n (hn : n < ws.length), getSectionIndex d.S env bytes (rawSecHdr d xsec) n = .ok (.int ws[n]) := by
  obtain ⟨h, V⟩ := sec_view X G.hi
  obtain ⟨h', hdec, htyv⟩ := G.ty
  have := sec_view_unique V hdec
  subst this
  have hget := getSection_kind X V htyv
  have e1 := V.nat "sh_link" (by simp [shdrNatKeys]) (by decide)
  have e2 := V.nat "sh_offset" (by simp [shdrNatKeys]) (by decide)
  have e3 := V.nat "sh_size" (by simp [shdrNatKeys]) (by decide)
  have e4 := V.nat "sh_entsize" (by simp [shdrNatKeys]) (by decide)
  rw [rawHdr_eq d G.hi] at e1 e2 e3 e4
  rw [G.link] at e1
  obtain ⟨rest, hrest⟩ := content_drop X.hL G
  refine ⟨?_, ?_⟩
  · have := getSymSection_shndx_of (f := fileOf d bytes hdr st) hget e1 e2 e3 e4
    rw [this]
    simp only [rawSecHdr, hdrNat_eq d G.hi]
  · intro n hn
    refine shndx_table_ok env d.cfg bytes (rawSecHdr d xsec) ws rest hent hws ?_ n hn
    show bytes.drop (hdrNat d xsec "sh_offset") = _
    rw [hdrNat_eq d G.hi]
    exact hrest

end objects

/-! ### the images built from one symbol list satisfy `symtabAt` -/

theorem encSymtab_length (le : Bool) (cls pad : Nat) (l : List SymE) :
    (encSymtab le cls pad l).length = l.length * (symSize cls + pad) := by
  induction l with
  | nil => simp [encSymtab]
  | cons x xs ihx =>
    rw [encSymtab_cons]
    simp only [List.length_append, encSym_length, List.length_replicate, List.length_cons, ihx]
    rw [Nat.succ_mul]; omega

/-- a section holding the entries `encSymtab` lays out for ANY symbol list (NUL-free names, fields in range),
    linked to a section holding the string table `buildStrtab` builds — each followed by arbitrary slack —
    is a symbol table in the sense of `symtabAt`: the hypothesis of the whole-file theorems is discharged for
    every image built from a symbol list -/
theorem built_symtabAt (env : Env) (d : ElfDesc) (sec pad : Nat) (share : Bool) (syms : List (Bytes × SymE))
    (slack slack2 : Bytes) (hcls : d.cls = 32 ∨ d.cls = 64)
    (hnul : ∀ s ∈ syms, (0 : UInt8) ∉ s.1) (hwf : ∀ s ∈ syms, s.2.WF d.cls = true)
    (hlen : (buildStrtab share (syms.map (·.1))).1.length < 2 ^ 32)
    (hi : sec < d.sections.length)
    (hty : ∃ h, d.decHdr env sec = some h ∧ typeIn h ["SHT_SYMTAB", "SHT_DYNSYM", "SHT_SUNW_LDYNSYM"] = true)
    (hent : getNatD (d.sections[sec]).hdr "sh_entsize" = symSize d.cls + pad)
    (hsize : getNatD (d.sections[sec]).hdr "sh_size" = syms.length * (symSize d.cls + pad))
    (hbody : bodyOf (d.sections[sec])
      = encSymtab d.le d.cls pad (builtEntries syms (buildStrtab share (syms.map (·.1))).2) ++ slack)
    (hlink : getNatD (d.sections[sec]).hdr "sh_link" < d.sections.length)
    (hstr : bodyOf (d.sections[getNatD (d.sections[sec]).hdr "sh_link"])
      = (buildStrtab share (syms.map (·.1))).1 ++ slack2) :
    symtabAt env d sec (builtEntries syms (buildStrtab share (syms.map (·.1))).2) (syms.map (·.1)) = true := by
  obtain ⟨h, hdec, htin⟩ := hty
  -- the two bodies, one after the other, as a virtual file
  have L := built_layout d.le d.cls pad share syms hcls hnul hwf hlen
    (bodyOf (d.sections[sec]) ++ bodyOf (d.sections[getNatD (d.sections[sec]).hdr "sh_link"]))
    0 (bodyOf (d.sections[sec])).length
    (slack ++ bodyOf (d.sections[getNatD (d.sections[sec]).hdr "sh_link"])) slack2
    (by rw [List.drop_zero, hbody, List.append_assoc]) (by rw [List.drop_left' rfl, hstr])
  generalize hes : builtEntries syms (buildStrtab share (syms.map (·.1))).2 = es at *
  have hel : es.length = syms.length := by have := L.nlen; simp at this; omega
  have hsz : 0 < symSize d.cls := by unfold symSize; split <;> omega
  unfold symtabAt
  simp only [List.getElem?_eq_getElem hi, hdec, List.getElem?_eq_getElem hlink, Bool.and_eq_true, decide_eq_true_eq,
    List.all_eq_true, List.mem_range, beq_iff_eq]
  refine ⟨⟨⟨⟨⟨⟨htin, by omega⟩, by rw [hsize, hent, hel]⟩, by simp [hel]⟩, ?_⟩, ?_⟩, ?_⟩
  · intro e he
    obtain ⟨i, hi', rfl⟩ := List.mem_iff_getElem.mp he
    exact L.wf i hi'
  · intro i hi'
    rw [getD_of_lt es i default hi', hent]
    obtain ⟨rest, hrest⟩ := L.entry i hi'
    simp only [Nat.zero_add] at hrest
    -- entry `i` lies inside the section's body
    have hbl : i * (symSize d.cls + pad) + symSize d.cls ≤ (bodyOf (d.sections[sec])).length := by
      rw [hbody, List.length_append]
      have := encSymtab_length d.le d.cls pad es
      rw [this]
      have : (i + 1) * (symSize d.cls + pad) ≤ es.length * (symSize d.cls + pad) := Nat.mul_le_mul_right _ (by omega)
      rw [Nat.succ_mul] at this
      omega
    have hd2 : (bodyOf (d.sections[sec])).drop (i * (symSize d.cls + pad))
        = encSym d.le d.cls es[i] ++ ((bodyOf (d.sections[sec])).drop (i * (symSize d.cls + pad) + symSize d.cls)) := by
      have h1 : ((bodyOf (d.sections[sec]) ++ bodyOf (d.sections[getNatD (d.sections[sec]).hdr "sh_link"])).drop
          (i * (symSize d.cls + pad))).take (symSize d.cls) = encSym d.le d.cls es[i] := by
        rw [hrest, ← encSym_length d.le d.cls es[i], List.take_left']
        rfl
      rw [List.drop_append_of_le_length (by omega), List.take_append_of_le_length (by rw [List.length_drop]; omega)] at h1
      rw [← h1, ← List.drop_drop, List.take_append_drop]
    rw [hd2, ← encSym_length d.le d.cls es[i], List.take_left']
    rfl
  · intro i hi'
    rw [getD_of_lt es i default hi']
    have := L.name i hi'
    rwa [List.drop_left' rfl] at this

/-! ### the extended-index companion found by scanning the sections -/

theorem kindOf_shndx {ty : Val} {name : Bytes} (h : kindOf ty name = "SymbolTableIndexSection") :
    ty = .str "SHT_SYMTAB_SHNDX" := by
  unfold kindOf at h
  split at h
  all_goals first | rfl | (simp at h; done) | (split at h <;> simp at h)

/-- is section `i` an index table designating `target`? (the predicate of `shndxTablesFor`) -/
def isShndxFor (env : Env) (d : ElfDesc) (target i : Nat) : Bool :=
  (match d.decHdr env i with
   | some h => typeIn h ["SHT_SYMTAB_SHNDX"]
   | none => false) && hdrNat d i "sh_link" == target

theorem shndxTablesFor_eq (env : Env) (d : ElfDesc) (target : Nat) :
    shndxTablesFor env d target = (List.range d.sections.length).filter (isShndxFor env d target) := rfl

theorem filterMap_ite {α β : Type} (P : α → Bool) (F : α → β) (l : List α) :
    l.filterMap (fun i => if P i then some (F i) else none) = (l.filter P).map F := by
  induction l with
  | nil => rfl
  | cons x xs ih =>
    by_cases hp : P x = true
    · simp [hp, ih]
    · simp [hp, ih]

/-- one step of the scan on the `i`-th observed section -/
theorem shndxHit_obs {env : Env} {d : ElfDesc} {bytes : Bytes} {hdr : Val} {st : Option Val} {obs : ElfObs}
    (X : Setup env d bytes hdr st) (ho : d.observe env = .ok obs) (target : Nat) {i : Nat}
    (hi : i < d.sections.length) (hi' : i < obs.sections.length) :
    shndxHit target obs.sections[i] i
      = .ok (if isShndxFor env d target i then some (i, rawSecHdr d i) else none) := by
  obtain ⟨h, ty, hdec, hsf, hty, hget⟩ := getSection_ok X hi
  have hobs := getSection_obs X ho hi hi'
  rw [hget] at hobs
  have hs : obs.sections[i] = (kindOf ty (d.sections[i]).name, (d.sections[i]).name, h) := (Except.ok.inj hobs).symm
  rw [hs]
  unfold shndxHit secHdrOf isShndxFor
  simp only [hdec]
  have e1 := hsf.nat "sh_link" (by simp [shdrNatKeys])
  have e2 := hsf.nat "sh_offset" (by simp [shdrNatKeys])
  have e3 := hsf.nat "sh_size" (by simp [shdrNatKeys])
  have e4 := hsf.nat "sh_entsize" (by simp [shdrNatKeys])
  rw [hsf.raw "sh_link" (by simp [shdrNatKeys]) (by decide)] at e1
  rw [hsf.raw "sh_offset" (by simp [shdrNatKeys]) (by decide)] at e2
  rw [hsf.raw "sh_size" (by simp [shdrNatKeys]) (by decide)] at e3
  rw [hsf.raw "sh_entsize" (by simp [shdrNatKeys]) (by decide)] at e4
  by_cases hk : kindOf ty (d.sections[i]).name = "SymbolTableIndexSection"
  · have hty' := kindOf_shndx hk
    subst hty'
    have htin : typeIn h ["SHT_SYMTAB_SHNDX"] = true := by rw [typeIn_str _ hty]; rfl
    simp only [hk, beq_self_eq_true, if_true, bind, Except.bind, e1, e2, e3, e4, htin, Bool.true_and,
      hdrNat_eq d hi, rawSecHdr]
    by_cases hl : getNatD (d.sections[i]).hdr "sh_link" = target
    · simp [hl, pure, Except.pure]
    · simp [hl, pure, Except.pure]
  · have hk' : (kindOf ty (d.sections[i]).name == "SymbolTableIndexSection") = false := by simpa using hk
    have htin : typeIn h ["SHT_SYMTAB_SHNDX"] = false := by
      cases hb : typeIn h ["SHT_SYMTAB_SHNDX"] with
      | false => rfl
      | true =>
        exfalso
        obtain ⟨t, ht, hm⟩ := typeIn_unpack hb
        simp only [List.mem_cons, List.not_mem_nil, or_false] at hm
        subst hm
        rw [hty] at ht
        cases ht
        exact hk rfl
    simp [hk', htin, pure, Except.pure]

/-- `{sec.symboltable: sec for sec in iter_sections() if isinstance(sec, SymbolTableIndexSection)}.get(symIdx)`:
    the LAST extended index table whose `sh_link` is `symIdx`, nothing when there is none -/
theorem shndxCompanion_eq {env : Env} {d : ElfDesc} {bytes : Bytes} {obs : ElfObs} {f : ElfFile}
    (hwf : d.wfZ env = true) (hl : Layout d bytes) (ho : d.observe env = .ok obs)
    (hf : openElf env specSF specMC bytes = .ok f) (symIdx : Nat) :
    shndxCompanion env f symIdx
      = .ok ((shndxTablesFor env d symIdx).getLast?.map fun i => (i, rawSecHdr d i)) := by
  have hw := wfZ_facts hwf
  have hL := layout_facts hl
  have hd := (observe_inv ho).1
  have hsec := sections_gen hw hl ho hf
  obtain ⟨hdata, -⟩ := openElf_fields hw hL hd hf
  have hlen : obs.sections.length = d.sections.length := (mapM_ok_inv _ _ _ (observe_inv ho).2.1).1
  unfold shndxCompanion
  rw [hdata, hsec]
  simp only [bind, Except.bind]
  by_cases hn : d.sections.length = 0
  · have : obs.sections = [] := List.length_eq_zero_iff.mp (by omega)
    simp [this, shndxTablesFor, hn, pure, Except.pure]
  · obtain ⟨st, X, -⟩ := open_setup hw hL hd hf (by omega)
    have hm := mapM_ok (fun (x : (String × Bytes × Val) × Nat) => shndxHit symIdx x.1 x.2)
      (fun x => if isShndxFor env d symIdx x.2 then some (x.2, rawSecHdr d x.2) else none) obs.sections.zipIdx (by
        intro x hx
        obtain ⟨s, i⟩ := x
        obtain ⟨hi', hs⟩ := List.mem_zipIdx' hx
        show shndxHit symIdx s i = _
        rw [hs]
        exact shndxHit_obs X ho symIdx (by omega) hi')
    have hfun : (fun (x : (String × Bytes × Val) × Nat) => match x with | (s, i) => shndxHit symIdx s i)
        = (fun x => shndxHit symIdx x.1 x.2) := by
      funext x; obtain ⟨s, i⟩ := x; rfl
    rw [hfun, hm]
    simp only [pure, Except.pure]
    congr 1
    have hmap : obs.sections.zipIdx.map (fun x => if isShndxFor env d symIdx x.2 then some (x.2, rawSecHdr d x.2) else none)
        = (List.range obs.sections.length).map
            (fun i => if isShndxFor env d symIdx i then some (i, rawSecHdr d i) else none) := by
      rw [List.range_eq_range', ← List.zipIdx_map_snd 0 obs.sections, List.map_map]
      rfl
    rw [hmap, List.filterMap_map]
    have hcomp : (id ∘ fun i => if isShndxFor env d symIdx i then some (i, rawSecHdr d i) else none)
        = (fun i => if isShndxFor env d symIdx i then some (i, rawSecHdr d i) else none) := rfl
    rw [hcomp, filterMap_ite, List.getLast?_map, shndxTablesFor_eq, hlen]

/-! ### lookup by name -/

theorem getSymSectionByName_eq {env : Env} {d : ElfDesc} {bytes : Bytes} {obs : ElfObs} {f : ElfFile}
    (hwf : d.wfZ env = true) (hl : Layout d bytes) (ho : d.observe env = .ok obs)
    (hf : openElf env specSF specMC bytes = .ok f) (name : Bytes) :
    getSymSectionByName env f name =
      match d.indexOfName name with
      | none => .ok none
      | some i => (getSymSection env f i).map some := by
  have hw := wfZ_facts hwf
  have hsec := sections_gen hw hl ho hf
  obtain ⟨hdata, -⟩ := openElf_fields hw (layout_facts hl) (observe_inv ho).1 hf
  have hlook := lookup_exact_aux ho name
  unfold getSymSectionByName
  rw [hdata, hsec]
  simp only [bind, Except.bind]
  cases hfind : (sectionNameMap obs.sections).find? (·.1 == name) with
  | none =>
    rw [hfind] at hlook
    simp only [Option.map_none] at hlook
    rw [← hlook]
    rfl
  | some p =>
    rw [hfind] at hlook
    simp only [Option.map_some] at hlook
    rw [← hlook]
    obtain ⟨k, i⟩ := p
    cases getSymSection env f i <;> rfl

end PyElf.Proofs.C03F
