/-
  C04 helper lemmas, part 3: iterating a unit.  Nothing here looks at bytes: the walk is
  driven by `G` (the DIE found at an offset), and the theorem says that if `G` returns the
  entries of `flatten` at their offsets, the walk yields exactly `flatten`.
-/
import PyElf.Spec.DieTree
import PyElf.Model.Die
import PyElf.Proofs.Primitives
namespace PyElf.Proofs.C04
open PyElf PyElf.Spec PyElf.Spec.C04 PyElf.Model.C04 PyElf.Proofs

/-- `G` returns every entry of the list at that entry's offset -/
def Covered (G : Nat → R DieObs) (l : List DieObs) : Prop := ∀ d ∈ l, G d.offset = .ok d

theorem Covered.mono {G : Nat → R DieObs} {l l' : List DieObs} (h : Covered G l) (hs : ∀ d ∈ l', d ∈ l) :
    Covered G l' := fun d hd => h d (hs d hd)

theorem sib_none {cuOff : Nat} {d : DieObs} (h : sibTarget cuOff d = none) : siblingNext cuOff d = none := by
  unfold sibTarget attrFind at h
  unfold siblingNext attrGet?
  split at h
  · rename_i h0; rw [h0]
  · rename_i a h0
    split at h <;> first | (split at h <;> first | cases h | (split at h <;> cases h)) | cases h

theorem sib_some {cuOff x : Nat} {d : DieObs} (h : sibTarget cuOff d = some (some x)) :
    siblingNext cuOff d = some (.ok x) := by
  unfold sibTarget attrFind at h
  unfold siblingNext attrGet?
  split at h
  · cases h
  · rename_i a h0
    rw [h0]
    split at h
    · rename_i f v hf hv
      simp only [hf, hv]
      split at h
      · rename_i hc
        have hc' : unitRefForms.contains f = true := hc
        simp only [hc', if_true, Val.asInt, bind, Except.bind, pure, Except.pure]
        injection h with h; injection h with h; rw [h]
      · rename_i hc
        have hc' : ¬ unitRefForms.contains f = true := hc
        split at h
        · rename_i hr
          subst hr
          have hd : unitRefForms.contains "DW_FORM_ref_addr" = false := by decide
          simp only [hd, if_true, Val.asInt, bind, Except.bind, pure, Except.pure, Bool.false_eq_true, if_false]
          injection h with h; injection h with h; rw [h]
        · cases h
    · cases h

theorem entryObs_kids (nm : Names) (c : DwarfCfg) (ρ : Val → Val → Val) (off : Nat) (n : Node) :
    (entryObs nm c ρ off n).kids = n.decl.children := by
  cases h : n.decl.children <;> simp [entryObs, DieObs.kids, h]

theorem entryObs_isNull {nm : Names} (hnm : ∀ x, nm.tag x ≠ Val.none) (c : DwarfCfg) (ρ : Val → Val → Val) (off : Nat)
    (n : Node) : (entryObs nm c ρ off n).isNull = false := by
  have := hnm n.decl.tag
  unfold DieObs.isNull entryObs
  cases h : nm.tag n.decl.tag <;> simp_all

theorem count_pos (t : Tree) : 1 ≤ t.count := by
  cases t; simp [Tree.count]

theorem encTree_length (c : DwarfCfg) (n : Node) (kids : List Tree) (nl : Nat) :
    (encTree c (.mk n kids nl)).length
      = (encEntry c n).length + (if n.decl.children then (encForest c kids).length + nl else 0) := by
  rw [encTree]
  cases n.decl.children <;> simp [encUlebN_length]

theorem flattenP_getLast (nm : Names) (c : DwarfCfg) (ρ : Val → Val → Val) (parent : Option Nat) (off : Nat)
    (n : Node) (kids : List Tree) (nl : Nat) (h : n.decl.children = true) :
    (flattenP nm c ρ parent off (.mk n kids nl)).getLast?
      = some (nullObs (off + (encEntry c n).length + (encForest c kids).length) nl, some off) := by
  rw [flattenP]
  simp only [h, if_true]
  rw [← List.cons_append, List.getLast?_concat]

mutual
/-- `_iter_DIE_subtree` on the entry of a tree yields the tree's entries in pre-order -/
theorem subtree_flatten {nm : Names} (hnm : ∀ x, nm.tag x ≠ Val.none) (c : DwarfCfg) (ρ : Val → Val → Val)
    (G : Nat → R DieObs) (cuOff : Nat) :
    ∀ (t : Tree) (off : Nat) (parent : Option Nat) (fuel : Nat), t.count ≤ fuel →
      Covered G (flatten nm c ρ off t).tail → sibsOk nm c ρ cuOff off t = true →
      subtree G cuOff fuel (entryObs nm c ρ off t.root) parent = .ok (flattenP nm c ρ parent off t)
  | .mk n kids nl, off, parent, fuel, hf, hcov, hsib => by
    have hpos := count_pos (.mk n kids nl)
    obtain ⟨f, rfl⟩ : ∃ f, fuel = f + 1 := ⟨fuel - 1, by omega⟩
    simp only [Tree.root, subtree, entryObs_kids]
    cases hk : n.decl.children with
    | false => simp [flattenP, hk]
    | true =>
      simp only [if_true]
      have hsz : (entryObs nm c ρ off n).offset + (entryObs nm c ρ off n).size = off + (encEntry c n).length := rfl
      have hoff : (entryObs nm c ρ off n).offset = off := rfl
      rw [hsz, hoff]
      have hcnt : countForest kids + 1 ≤ f := by
        simp only [Tree.count, hk, if_true] at hf; omega
      have hcov' : Covered G (flattenForest nm c ρ (off + (encEntry c n).length) kids ++
          [nullObs (off + (encEntry c n).length + (encForest c kids).length) nl]) := by
        simpa [flatten, hk] using hcov
      have hsib' : sibsOkForest nm c ρ cuOff (off + (encEntry c n).length) kids = true := by
        simpa [sibsOk, hk] using hsib
      rw [childWalk_flatten hnm c ρ G cuOff kids (off + (encEntry c n).length) off nl f hcnt hcov' hsib']
      simp [flattenP, hk, bind, Except.bind, pure, Except.pure]
/-- `iter_DIE_children` consumed by `_iter_DIE_subtree`: the sibling list at `off`, then the null entry -/
theorem childWalk_flatten {nm : Names} (hnm : ∀ x, nm.tag x ≠ Val.none) (c : DwarfCfg) (ρ : Val → Val → Val)
    (G : Nat → R DieObs) (cuOff : Nat) :
    ∀ (ts : List Tree) (off parent nl fuel : Nat), countForest ts + 1 ≤ fuel →
      Covered G (flattenForest nm c ρ off ts ++ [nullObs (off + (encForest c ts).length) nl]) →
      sibsOkForest nm c ρ cuOff off ts = true →
      childWalk G cuOff fuel parent off
        = .ok (flattenForestP nm c ρ parent off ts ++ [(nullObs (off + (encForest c ts).length) nl, some parent)],
               nullObs (off + (encForest c ts).length) nl)
  | [], off, parent, nl, fuel, hf, hcov, _ => by
    obtain ⟨f, rfl⟩ : ∃ f, fuel = f + 1 := ⟨fuel - 1, by omega⟩
    have hG : G off = .ok (nullObs off nl) := by
      have := hcov (nullObs (off + (encForest c []).length) nl) (by simp [flattenForest])
      simpa [encForest, nullObs] using this
    simp [childWalk, hG, bind, Except.bind, pure, Except.pure, nullObs, DieObs.isNull, flattenForestP, encForest]
  | (.mk n kids nl') :: ts, off, parent, nl, fuel, hf, hcov, hsib => by
    obtain ⟨f, rfl⟩ : ∃ f, fuel = f + 1 := ⟨fuel - 1, by omega⟩
    have hpos := count_pos (.mk n kids nl')
    simp only [countForest] at hf
    have hG : G off = .ok (entryObs nm c ρ off n) := by
      have := hcov (entryObs nm c ρ off n) (by simp [flattenForest, flatten])
      simpa [entryObs] using this
    simp only [sibsOkForest, Bool.and_eq_true] at hsib
    obtain ⟨⟨hs1, hs2⟩, hs3⟩ := hsib
    have hcovT : Covered G (flatten nm c ρ off (.mk n kids nl')).tail := by
      apply hcov.mono
      intro d hd
      have := List.mem_of_mem_tail hd
      simp [flattenForest, this]
    have hsub := subtree_flatten hnm c ρ G cuOff (.mk n kids nl') off (some parent) f (by omega) hcovT hs2
    simp only [Tree.root] at hsub
    have hlen : (encForest c (.mk n kids nl' :: ts)).length
        = (encTree c (.mk n kids nl')).length + (encForest c ts).length := by
      rw [encForest, List.length_append]
    have hcovR : Covered G (flattenForest nm c ρ (off + (encTree c (.mk n kids nl')).length) ts ++
        [nullObs (off + (encTree c (.mk n kids nl')).length + (encForest c ts).length) nl]) := by
      apply hcov.mono
      intro d hd
      rw [hlen, ← Nat.add_assoc]
      simp only [flattenForest, List.mem_append] at hd ⊢
      rcases hd with hd | hd
      · exact Or.inl (Or.inr hd)
      · exact Or.inr hd
    have hrest := childWalk_flatten hnm c ρ G cuOff ts (off + (encTree c (.mk n kids nl')).length) parent nl f
      (by omega) hcovR hs3
    rw [childWalk]
    simp only [hG, bind, Except.bind, entryObs_isNull hnm, Bool.false_eq_true, if_false, hsub]
    rw [entryObs_kids]
    cases hk : n.decl.children with
    | false =>
      simp only [Bool.not_false, if_true, pure, Except.pure]
      have e : off + (entryObs nm c ρ off n).size = off + (encTree c (.mk n kids nl')).length := by
        rw [encTree_length, hk]; simp [entryObs]
      rw [e, hrest]
      simp [flattenForestP, hlen, Nat.add_assoc, pure, Except.pure]
    | true =>
      simp only [Bool.not_true, Bool.false_eq_true, if_false]
      unfold sibOk at hs1
      rw [entryObs_kids, hk] at hs1
      simp only [Bool.not_true, Bool.false_or] at hs1
      split at hs1
      · rename_i h0
        rw [sib_none h0, flattenP_getLast nm c ρ _ off n kids nl' hk]
        simp only [pure, Except.pure]
        have e : (nullObs (off + (encEntry c n).length + (encForest c kids).length) nl').offset +
            (nullObs (off + (encEntry c n).length + (encForest c kids).length) nl').size
            = off + (encTree c (.mk n kids nl')).length := by
          rw [encTree_length, hk]; simp [nullObs, Nat.add_assoc]
        rw [e, hrest]
        simp [flattenForestP, hlen, Nat.add_assoc, pure, Except.pure]
      · rename_i x h0
        rw [sib_some h0]
        have e : x = off + (encTree c (.mk n kids nl')).length := by simpa using hs1
        subst e
        simp only []
        rw [hrest]
        simp [flattenForestP, hlen, Nat.add_assoc, pure, Except.pure]
      · cases hs1
end

end PyElf.Proofs.C04

namespace PyElf.Proofs.C04
open PyElf PyElf.Spec PyElf.Spec.C04 PyElf.Model.C04 PyElf.Proofs

/-- the entries of `l` lie back to back from `start` to `stop` -/
def Tiles : Nat → List DieObs → Nat → Prop
  | start, [], stop => start = stop
  | start, d :: l, stop => d.offset = start ∧ Tiles (start + d.size) l stop

theorem Tiles.append {a b c : Nat} : ∀ {l₁ l₂ : List DieObs}, Tiles a l₁ b → Tiles b l₂ c → Tiles a (l₁ ++ l₂) c
  | [], _, h1, h2 => by simp only [Tiles] at h1; subst h1; simpa using h2
  | d :: l, _, h1, h2 => by
    simp only [Tiles, List.cons_append] at h1 ⊢
    exact ⟨h1.1, Tiles.append h1.2 h2⟩

mutual
theorem flatten_tiles (nm : Names) (c : DwarfCfg) (ρ : Val → Val → Val) :
    ∀ (t : Tree) (off : Nat), Tiles off (flatten nm c ρ off t) (off + (encTree c t).length)
  | .mk n kids nl, off => by
    rw [flatten, encTree_length]
    cases hk : n.decl.children with
    | false => simp [Tiles, entryObs]
    | true =>
      simp only [if_true, Tiles]
      refine ⟨rfl, ?_⟩
      have h1 := flattenForest_tiles nm c ρ kids (off + (encEntry c n).length)
      have h2 : Tiles (off + (encEntry c n).length + (encForest c kids).length)
          [nullObs (off + (encEntry c n).length + (encForest c kids).length) nl]
          (off + ((encEntry c n).length + ((encForest c kids).length + nl))) := by
        simp [Tiles, nullObs, Nat.add_assoc]
      exact Tiles.append h1 h2
theorem flattenForest_tiles (nm : Names) (c : DwarfCfg) (ρ : Val → Val → Val) :
    ∀ (ts : List Tree) (off : Nat), Tiles off (flattenForest nm c ρ off ts) (off + (encForest c ts).length)
  | [], off => by simp [flattenForest, encForest, Tiles]
  | t :: ts, off => by
    rw [flattenForest, encForest, List.length_append, ← Nat.add_assoc]
    exact Tiles.append (flatten_tiles nm c ρ t off) (flattenForest_tiles nm c ρ ts (off + (encTree c t).length))
end

mutual
theorem flattenP_fst (nm : Names) (c : DwarfCfg) (ρ : Val → Val → Val) :
    ∀ (t : Tree) (parent : Option Nat) (off : Nat), (flattenP nm c ρ parent off t).map (·.1) = flatten nm c ρ off t
  | .mk n kids nl, parent, off => by
    rw [flattenP, flatten]
    cases hk : n.decl.children with
    | false => simp
    | true => simp [flattenForestP_fst nm c ρ kids off (off + (encEntry c n).length)]
theorem flattenForestP_fst (nm : Names) (c : DwarfCfg) (ρ : Val → Val → Val) :
    ∀ (ts : List Tree) (parent off : Nat), (flattenForestP nm c ρ parent off ts).map (·.1) = flattenForest nm c ρ off ts
  | [], _, _ => by simp [flattenForestP, flattenForest]
  | t :: ts, parent, off => by
    rw [flattenForestP, flattenForest, List.map_append, flattenP_fst nm c ρ t (some parent) off,
      flattenForestP_fst nm c ρ ts parent (off + (encTree c t).length)]
end

end PyElf.Proofs.C04
