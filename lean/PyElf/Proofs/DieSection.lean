/-
  C04 helper lemmas, part 10: whole sections.  The loop over the units of a section on a chain, the
  layout of the encoded `.debug_abbrev` / `.debug_info` / `.debug_types` of a forest description, the
  unit context `Model.C04.unitCtx` builds from a parsed header (struct bundle of the header's
  format / address size / version, abbreviation table at `debug_abbrev_offset`), and the composition
  of all layers into one statement per unit and per section (`iterSection_info`, `iterSection_types`,
  `forest_refs_info`, `sig8_forest`).  Everything is parametric in the enum registry (`RegistryOK`) and in
  the struct bundles (`Bundles`, `BundlesOK`: agreement with the standard's bundles on the fields the DIE
  code reads), so that Props/C04 can instantiate it with the regenerated ones.
-/
import PyElf.Spec.DieSection
import PyElf.Model.DieSection
import PyElf.Proofs.DieHeaders
import PyElf.Proofs.DieTop
import PyElf.Proofs.DieIter
import PyElf.Proofs.DieChildren
namespace PyElf.Proofs.C04
open PyElf PyElf.Spec PyElf.Spec.C04 PyElf.Spec.Lookup PyElf.Model PyElf.Model.Lookup PyElf.Model.C04 PyElf.Proofs
  PyElf.Proofs.Engine PyElf.Proofs.Lookup

/-! ### the loop over the units of a section -/

theorem chain_length_le {P : Nat → R CU} {size : Nat} :
    ∀ (cs : List CU) (off : Nat), Chain P size off cs → off + cs.length ≤ size := by
  intro cs
  induction cs with
  | nil => intro off h; simp only [Chain] at h; simp [h]
  | cons c cs ih =>
    intro off h
    obtain ⟨_, _, sz, _, hpos, hrest⟩ := h
    have := ih _ hrest
    simp only [List.length_cons]; omega

/-- `_parse_CUs_iter` / `_parse_TUs_iter` driven to exhaustion over a chain: exactly the chain's units, no exception -/
theorem unitsLoop_chain {P : Nat → R CU} {size : Nat} :
    ∀ (cs : List CU) (off fuel : Nat) (acc : List CU), Chain P size off cs → cs.length + 1 ≤ fuel →
      unitsLoop P size fuel off acc = (acc.reverse ++ cs, none) := by
  intro cs
  induction cs with
  | nil =>
    intro off fuel acc h hf
    simp only [Chain] at h
    cases fuel with
    | zero => omega
    | succ f => simp [unitsLoop, h]
  | cons c cs ih =>
    intro off fuel acc h hf
    obtain ⟨hlt, hP, sz, hsz, _, hrest⟩ := h
    cases fuel with
    | zero => omega
    | succ f =>
      simp only [List.length_cons] at hf
      rw [unitsLoop, if_pos hlt]
      simp only [hP, hsz]
      rw [ih _ f (c :: acc) hrest (by omega)]
      simp

/-! ### layout of `.debug_abbrev` -/

theorem encTables_cons (t : TableDesc) (ts : List TableDesc) : encTables (t :: ts) = encTable t ++ encTables ts := by
  simp [encTables]

/-- table `i` lies at `tableOff ts i` -/
theorem encTables_drop : ∀ (ts : List TableDesc) (i : Nat) (t : TableDesc), ts[i]? = some t →
    ∃ rest, (encTables ts).drop (tableOff ts i) = encAbbrevs t.decls t.endLen ++ rest := by
  intro ts
  induction ts with
  | nil => intro i t h; simp at h
  | cons t0 ts ih =>
    intro i t h
    cases i with
    | zero =>
      simp only [List.getElem?_cons_zero, Option.some.injEq] at h
      subst h
      refine ⟨encTables ts, ?_⟩
      rw [encTables_cons, tableOff, encTable, List.append_assoc, List.drop_left]
    | succ i =>
      simp only [List.getElem?_cons_succ] at h
      obtain ⟨rest, hr⟩ := ih i t h
      refine ⟨rest, ?_⟩
      rw [encTables_cons, tableOff, ← List.drop_drop, List.drop_left, hr]

/-! ### layout of `.debug_info` -/

theorem cusOf_placeInfo (F : Forest) : ∀ (us : List UnitDesc) (off : Nat),
    cusOf F.le off (us.map (infoUnitOf F)) = (placeInfo F off us).map fun p => cuOf F.le p.1 (infoUnitOf F p.2) := by
  intro us
  induction us with
  | nil => intro off; rfl
  | cons u us ih => intro off; simp only [List.map_cons, cusOf, placeInfo, ih]

/-- every placed unit lies at its offset -/
theorem placeInfo_drop (F : Forest) {data : Bytes} : ∀ (us : List UnitDesc) (off : Nat),
    data.drop off = encUnits F.le (us.map (infoUnitOf F)) →
    ∀ p ∈ placeInfo F off us, ∃ rest, data.drop p.1 = encUnit F.le (infoUnitOf F p.2) ++ rest := by
  intro us
  induction us with
  | nil => intro off _ p hp; simp [placeInfo] at hp
  | cons u us ih =>
    intro off hd p hp
    have hcons : encUnits F.le ((u :: us).map (infoUnitOf F))
        = encUnit F.le (infoUnitOf F u) ++ encUnits F.le (us.map (infoUnitOf F)) := by simp [encUnits]
    rw [hcons] at hd
    simp only [placeInfo, List.mem_cons] at hp
    rcases hp with rfl | hp
    · exact ⟨_, hd⟩
    · refine ih (off + unitSize F.le (infoUnitOf F u)) ?_ p hp
      rw [← encUnit_length F.le (infoUnitOf F u)]
      exact drop_add_of_drop hd

/-! ### layout of `.debug_types` -/

/-- the unit objects of the type units laid out from `off` -/
def tusOf (F : Forest) : Nat → List UnitDesc → List CU
  | _, [] => []
  | off, u :: us =>
    tuOf F.le off (tuHeaderOf F u) (encTree (u.cfg F.le) u.tree) :: tusOf F (off + (encTUOf F u).length) us

theorem tusOf_placeTypes (F : Forest) : ∀ (us : List UnitDesc) (off : Nat),
    tusOf F off us = (placeTypes F off us).map fun p =>
      tuOf F.le p.1 (tuHeaderOf F p.2) (encTree (p.2.cfg F.le) p.2.tree) := by
  intro us
  induction us with
  | nil => intro off; rfl
  | cons u us ih => intro off; simp only [List.map_cons, tusOf, placeTypes, ih]

theorem placeTypes_drop (F : Forest) {data : Bytes} : ∀ (us : List UnitDesc) (off : Nat),
    data.drop off = us.flatMap (encTUOf F) →
    ∀ p ∈ placeTypes F off us, ∃ rest, data.drop p.1 = encTUOf F p.2 ++ rest := by
  intro us
  induction us with
  | nil => intro off _ p hp; simp [placeTypes] at hp
  | cons u us ih =>
    intro off hd p hp
    rw [List.flatMap_cons] at hd
    simp only [placeTypes, List.mem_cons] at hp
    rcases hp with rfl | hp
    · exact ⟨_, hd⟩
    · exact ih (off + (encTUOf F u).length) (drop_add_of_drop hd) p hp

theorem encTU_length_pos (le : Bool) (h : TUHeader) (body : Bytes) : 0 < (encTU le h body).length := by
  cases hf : h.fmt64 <;> simp [encTU, encInitialLength, hf, encNat_length] <;> omega

/-- an encoded `.debug_types` is a chain for `_parse_TU_at_offset` -/
theorem chain_encoded_tus {enumDecode : String → Int → Option String} {dasz size : Nat} {data : Bytes} (F : Forest) :
    ∀ (us : List UnitDesc) (off : Nat),
      (∀ u ∈ us, wfTU F.le (tuHeaderOf F u) (encTree (u.cfg F.le) u.tree) = true) →
      data.drop off = us.flatMap (encTUOf F) → off + (us.flatMap (encTUOf F)).length = size →
      Chain (specTU enumDecode F.le dasz data) size off (tusOf F off us) := by
  intro us
  induction us with
  | nil => intro off _ _ hsz; simpa [Chain, tusOf] using hsz
  | cons u us ih =>
    intro off hwf hd hsz
    rw [List.flatMap_cons] at hd hsz
    rw [List.length_append] at hsz
    have hw := hwf u List.mem_cons_self
    have hpos := encTU_length_pos F.le (tuHeaderOf F u) (encTree (u.cfg F.le) u.tree)
    refine ⟨by unfold encTUOf at hsz; omega, parseTU_encoded hw hd, _, tuOf_size _ _ _ _, hpos, ?_⟩
    exact ih (off + (encTUOf F u).length) (fun x hx => hwf x (List.mem_cons_of_mem _ hx)) (drop_add_of_drop hd) (by omega)

/-! ### entries and bytes -/

mutual
theorem count_le_length (c : DwarfCfg) : ∀ t : Tree, wfTree c t = true → t.count ≤ (encTree c t).length
  | .mk n kids nl, hwf => by
    simp only [wfTree, Bool.and_eq_true] at hwf
    have hpos := encEntry_length_pos c n hwf.1
    rw [Tree.count, encTree_length]
    cases hk : n.decl.children with
    | false => simp; omega
    | true =>
      rw [hk] at hwf
      simp only [if_true, Bool.and_eq_true, decide_eq_true_eq] at hwf
      have := countForest_le_length c kids hwf.2.1
      simp only [if_true]; omega
theorem countForest_le_length (c : DwarfCfg) : ∀ ts : List Tree, wfForest c ts = true →
    countForest ts ≤ (encForest c ts).length
  | [], _ => by simp [countForest]
  | t :: ts, hwf => by
    simp only [wfForest, Bool.and_eq_true] at hwf
    have h1 := count_le_length c t hwf.1
    have h2 := countForest_le_length c ts hwf.2
    rw [countForest, encForest, List.length_append]; omega
end

theorem tiles_offset_ge : ∀ (l : List DieObs) (a b : Nat), Tiles a l b → ∀ d ∈ l, a ≤ d.offset := by
  intro l
  induction l with
  | nil => intro a b _ d hd; simp at hd
  | cons x l ih =>
    intro a b h d hd
    simp only [Tiles] at h
    rcases List.mem_cons.1 hd with rfl | hd
    · omega
    · have := ih _ b h.2 d hd; omega

/-! ### the header fields the unit context is built from -/

theorem unitHdrVal_asz (le : Bool) (u : InfoUnit) : (unitHdrVal le u).getNat "address_size" = .ok u.asz := by
  unfold unitHdrVal
  split
  · rw [getNat_skip _ _ _ _ (by decide), getNat_skip _ _ _ _ (by decide), getNat_skip _ _ _ _ (by decide), getNat_hit]
  · rw [List.cons_append, getNat_skip _ _ _ _ (by decide), List.cons_append, getNat_skip _ _ _ _ (by decide),
      List.cons_append, getNat_skip _ _ _ _ (by decide), List.cons_append, getNat_hit]

theorem unitHdrVal_version (le : Bool) (u : InfoUnit) : (unitHdrVal le u).getNat "version" = .ok u.version := by
  unfold unitHdrVal
  split
  · rw [getNat_skip _ _ _ _ (by decide), getNat_hit]
  · rw [List.cons_append, getNat_skip _ _ _ _ (by decide), List.cons_append, getNat_hit]

theorem unitHdrVal_abbrevOff (le : Bool) (u : InfoUnit) :
    (unitHdrVal le u).getNat "debug_abbrev_offset" = .ok u.abbrevOff := by
  unfold unitHdrVal
  split
  · rw [getNat_skip _ _ _ _ (by decide), getNat_skip _ _ _ _ (by decide), getNat_hit]
  · rw [List.cons_append, getNat_skip _ _ _ _ (by decide), List.cons_append, getNat_skip _ _ _ _ (by decide),
      List.cons_append, getNat_skip _ _ _ _ (by decide), List.cons_append, getNat_skip _ _ _ _ (by decide),
      List.cons_append, getNat_hit]

theorem tuHdrVal_asz (le : Bool) (h : TUHeader) (body : Bytes) : (tuHdrVal le h body).getNat "address_size" = .ok h.asz := by
  unfold tuHdrVal
  rw [getNat_skip _ _ _ _ (by decide), getNat_skip _ _ _ _ (by decide), getNat_skip _ _ _ _ (by decide), getNat_hit]

theorem tuHdrVal_version (le : Bool) (h : TUHeader) (body : Bytes) : (tuHdrVal le h body).getNat "version" = .ok h.version := by
  unfold tuHdrVal
  rw [getNat_skip _ _ _ _ (by decide), getNat_hit]

theorem tuHdrVal_abbrevOff (le : Bool) (h : TUHeader) (body : Bytes) :
    (tuHdrVal le h body).getNat "debug_abbrev_offset" = .ok h.abbrevOff := by
  unfold tuHdrVal
  rw [getNat_skip _ _ _ _ (by decide), getNat_skip _ _ _ _ (by decide), getNat_hit]

theorem tuHdrVal_signature (le : Bool) (h : TUHeader) (body : Bytes) :
    (tuHdrVal le h body).getInt "signature" = .ok (h.signature : Int) := by
  simp [tuHdrVal, Val.getInt, Val.getField, Fields.getR, Fields.get?, Val.asInt, bind, Except.bind]

theorem tuHdrVal_typeOff (le : Bool) (h : TUHeader) (body : Bytes) :
    (tuHdrVal le h body).getNat "type_offset" = .ok h.typeOff := by
  unfold tuHdrVal
  rw [getNat_skip _ _ _ _ (by decide), getNat_skip _ _ _ _ (by decide), getNat_skip _ _ _ _ (by decide),
    getNat_skip _ _ _ _ (by decide), getNat_skip _ _ _ _ (by decide), getNat_hit]

/-! ### iteration from the top entry (the Proofs-side form of Props/C04 `iter_dies_flatten`) -/

/-- the flat list of a unit with the recorded parents (`Props.C04.flattenUnitP` is this, by `rfl`) -/
def flatUnitP (nm : Names) (c : DwarfCfg) (ρtop ρ : Val → Val → Val) (off : Nat) (t : Tree) :
    List (DieObs × Option Nat) :=
  (entryObs nm c ρtop off t.root, none) :: (flattenP nm c ρ none off t).tail

theorem subtree_root' (G : Nat → R DieObs) (cuOff fuel : Nat) (d d' : DieObs) (parent : Option Nat)
    (h1 : d.offset = d'.offset) (h2 : d.size = d'.size) (h3 : d.kids = d'.kids) :
    subtree G cuOff fuel d parent
      = (subtree G cuOff fuel d' parent).map (fun l => (d, parent) :: l.tail) := by
  cases fuel with
  | zero => simp [subtree, Except.map]
  | succ f =>
    simp only [subtree, h1, h2, h3]
    cases d'.kids with
    | false => simp [Except.map]
    | true =>
      simp only [if_true, bind, Except.bind]
      cases childWalk G cuOff f d'.offset (d'.offset + d'.size) <;> simp [Except.map, pure, Except.pure]

theorem iter_dies_flatten' {nm : Names} (hnm : ∀ x, nm.tag x ≠ Val.none) (c : DwarfCfg) (ρtop ρ : Val → Val → Val)
    (G : Nat → R DieObs) (cuOff dieOff fuel : Nat) (t : Tree) (hfuel : t.count ≤ fuel)
    (hG : Covered G (flattenUnit nm c ρtop ρ dieOff t))
    (hsib : sibsOk nm c ρ cuOff dieOff t = true) :
    iterDIEs G cuOff dieOff fuel = .ok (flatUnitP nm c ρtop ρ dieOff t) := by
  obtain ⟨n, kids, nl⟩ := t
  have htop : G dieOff = .ok (entryObs nm c ρtop dieOff n) := by
    have := hG (entryObs nm c ρtop dieOff n) (by simp [flattenUnit])
    simpa [entryObs] using this
  have hcov : Covered G (flatten nm c ρ dieOff (.mk n kids nl)).tail := by
    apply hG.mono
    intro d hd
    simp only [flatten, List.tail_cons] at hd
    simp only [flattenUnit, List.mem_cons]
    exact Or.inr hd
  have hsub := subtree_flatten hnm c ρ G cuOff (.mk n kids nl) dieOff none fuel hfuel hcov hsib
  unfold iterDIEs
  simp only [htop, bind, Except.bind]
  rw [subtree_root' G cuOff fuel (entryObs nm c ρtop dieOff n) (entryObs nm c ρ dieOff n) none rfl rfl
    (by rw [entryObs_kids, entryObs_kids])]
  simp only [Tree.root] at hsub
  rw [hsub]
  rfl

theorem flattenUnit_tiles' (nm : Names) (c : DwarfCfg) (ρtop ρ : Val → Val → Val) (t : Tree) (off : Nat) :
    Tiles off (flattenUnit nm c ρtop ρ off t) (off + (encTree c t).length) := by
  obtain ⟨n, kids, nl⟩ := t
  have h := flatten_tiles nm c ρ (.mk n kids nl) off
  rw [flatten] at h
  rw [flattenUnit]
  exact ⟨rfl, h.2⟩

/-! ### what the composition needs from the registry -/

/-- the facts about the enum registry `ed` and `DW_FORM_raw2name` the layers use (Props/TieC04 proves each of them of
    the regenerated registry: `enum_ok`, `enum_ut`, `enum_forms`, `raw2name_forms`, `base_names`) -/
structure RegistryOK (ed : String → Int → Option String) (r2n : Nat → Option String) : Prop where
  enum : EnumOK ed
  ut : ∀ k : Nat, 1 ≤ k → k ≤ 6 → ed "ENUM_DW_UT" k = utName k
  forms : ∀ k ∈ formCodes, ed "ENUM_DW_FORM" k = formName k
  raw2name : ∀ k ∈ formCodes, r2n k = formName k
  bases : BaseNames (namesOf ed)

theorem namesOf_refl (ed : String → Int → Option String) (k : Nat) :
    ((namesOf ed).at_ k == (namesOf ed).at_ k) = true := by
  show (enumVal ed "ENUM_DW_AT" k == enumVal ed "ENUM_DW_AT" k) = true
  unfold enumVal
  cases ed "ENUM_DW_AT" k <;> simp [BEq.beq, Val.beq]

theorem namesOf_tag (ed : String → Int → Option String) (x : Nat) : (namesOf ed).tag x ≠ Val.none := by
  show enumVal ed "ENUM_DW_TAG" x ≠ Val.none
  unfold enumVal
  cases ed "ENUM_DW_TAG" x <;> simp

theorem unitOK_of_registry {ed : String → Int → Option String} {r2n : Nat → Option String} (hR : RegistryOK ed r2n)
    (U : UnitCtx) (c : DwarfCfg) (hS : BundleEq U.S (Spec.dwarfStructs c)) (hr : U.raw2name = r2n) :
    UnitOK U c (namesOf ed) where
  structs := hS
  raw2name := fun k hk => by rw [hr]; exact hR.raw2name k hk
  formNames := fun k hk => by
    obtain ⟨h3, _⟩ := formFacts' hk
    show enumVal ed "ENUM_DW_FORM" k = _
    rw [enumVal, hR.forms k hk]
    cases hf : formName k with
    | none => rw [hf] at h3; cases h3
    | some s => rfl

/-! ### one unit: all layers composed -/

/-- what a unit's tree must satisfy besides `wfTree`, against the abbreviation table `t` the unit names: each
    node instantiates a declaration of the table, the declaration's attribute names are presented differently
    from one another, every value resolves (the bases are those of the unit's top entry) -/
def NodeIn (nm : Names) (c : DwarfCfg) (secs : Sections) (b : Bases) (t : TableDesc) (x : Node) : Prop :=
  x.decl ∈ t.decls ∧ DistinctAt nm x.decl.specs ∧ ResolvesAll c secs b nm x.decl.specs x.attrs

/--
  One unit, every layer composed.  `U` is a unit context whose bundle agrees with the standard's for `c` on the
  fields the DIE code reads (`BundleEq`), with the registry's
  `DW_FORM_raw2name`, the sections `secs`, whose abbreviation table is the parse of the well-formed table `t`
  and whose bytes at the first-entry offset are the encoded tree; `G` is `_get_cached_DIE` at least from the
  first-entry offset on.  Then `list(cu.iter_DIEs())` with the fuel the driver gives it is the pre-order
  flattening with resolved values and parents, and `G` finds every entry of it at its offset.
-/
theorem iter_unit_exact {ed : String → Int → Option String} {r2n : Nat → Option String} (hR : RegistryOK ed r2n)
    {U : UnitCtx} {c : DwarfCfg} {secs : Sections} (hUS : BundleEq U.S (Spec.dwarfStructs c)) (hUr : U.raw2name = r2n)
    (hS : SecsOK U c secs) (G : Nat → R DieObs) (hG : ∀ off, U.cuDieOffset ≤ off → G off = getCachedDIE U off)
    (t : TableDesc) (hab : U.abbrevs = .ok (abbrevMap (namesOf ed) t.decls)) (hnd : (t.decls.map (·.code)).Nodup)
    (tree : Tree) {rest : Bytes} (hwf : wfTree c tree = true)
    (hd : U.data.drop U.cuDieOffset = encTree c tree ++ rest) (hlen : U.data.length ≤ 2 ^ 63)
    (hnodes : TreeAll (NodeIn (namesOf ed) c secs (basesOf tree.root) t) tree)
    (hsib : sibsOk (namesOf ed) c (rho c secs (basesOf tree.root)) U.cuOffset U.cuDieOffset tree = true) :
    iterDIEs G U.cuOffset U.cuDieOffset (unitFuel U)
        = .ok (flatUnitP (namesOf ed) c (rho c secs (basesOf tree.root)) (rho c secs (basesOf tree.root)) U.cuDieOffset tree)
      ∧ Covered G (flattenUnit (namesOf ed) c (rho c secs (basesOf tree.root)) (rho c secs (basesOf tree.root))
          U.cuDieOffset tree) := by
  obtain ⟨n, kids, nl⟩ := tree
  have hU := unitOK_of_registry hR U c hUS hUr
  have hnodes' : TreeAll (NodeWF c secs (basesOf n) (namesOf ed) (abbrevMap (namesOf ed) t.decls)) (.mk n kids nl) :=
    treeAll_imp_wf (fun x _ hq => ⟨mapGet_abbrevMap _ t.decls x.decl hq.1 hnd, hq.2.1, hq.2.2⟩) _ hwf hnodes
  have hcov := covered_unit_wf hU hS (namesOf_refl ed) hR.bases hab n kids nl hwf hd hlen hnodes'
  have hcovG : Covered G (flattenUnit (namesOf ed) c (rho c secs (basesOf n)) (rho c secs (basesOf n)) U.cuDieOffset
      (.mk n kids nl)) := by
    intro d hdm
    rw [hG _ (tiles_offset_ge _ _ _ (flattenUnit_tiles' (namesOf ed) c _ _ (.mk n kids nl) U.cuDieOffset) d hdm)]
    exact hcov d hdm
  have hcount := count_le_length c (.mk n kids nl) hwf
  have hl := length_of_drop hd
  rw [List.length_append] at hl
  refine ⟨?_, hcovG⟩
  exact iter_dies_flatten' (namesOf_tag ed) c _ _ G U.cuOffset U.cuDieOffset (unitFuel U) (.mk n kids nl)
    (by unfold unitFuel; omega) hcovG hsib

/-! ### the forest: well-formedness, the `DWARFInfo` built on its encoding -/

/-- a unit of the forest placed at `cuOff` with its first entry at `dieOff` -/
structure WfUnitDesc (nm : Names) (F : Forest) (u : UnitDesc) (cuOff dieOff : Nat) : Prop where
  /-- the unit names a table of the forest and every node instantiates one of its declarations (`NodeIn`) -/
  table : ∃ t, F.tables[u.table]? = some t ∧ TreeAll (NodeIn nm (u.cfg F.le) F.secs (basesOf u.tree.root) t) u.tree
  tree : wfTree (u.cfg F.le) u.tree = true
  /-- DW_AT_sibling, where an entry that owns children has one, designates the next sibling -/
  sibs : sibsOk nm (u.cfg F.le) (rho (u.cfg F.le) F.secs (basesOf u.tree.root)) cuOff dieOff u.tree = true

/-- well-formedness of a forest description (`nm`: how the registry presents numbers) -/
structure WfForest (nm : Names) (F : Forest) : Prop where
  tables : ∀ t ∈ F.tables, wfAbbrevs t.decls t.endLen = true
  abbrevSmall : (encTables F.tables).length ≤ 2 ^ 63
  infoSmall : (infoSec F).length ≤ 2 ^ 63
  typesSmall : (typesSec F).length ≤ 2 ^ 63
  secsSmall : ∀ s, (F.secs.str = some s ∨ F.secs.lineStr = some s ∨ F.secs.addr = some s ∨ F.secs.strOffsets = some s ∨
            F.secs.loclists = some s ∨ F.secs.rnglists = some s) → s.length < 2 ^ 63
  infoHdr : ∀ u ∈ F.units, wfUnit F.le (infoUnitOf F u) = true
  typesHdr : ∀ u ∈ F.tus, wfTU F.le (tuHeaderOf F u) (encTree (u.cfg F.le) u.tree) = true
  units : ∀ p ∈ placeInfo F 0 F.units, WfUnitDesc nm F p.2 p.1 (infoDieOff F p.1 p.2)
  tus : ∀ p ∈ placeTypes F 0 F.tus, WfUnitDesc nm F p.2 p.1 (typesDieOff F p.1 p.2)

/-- the struct bundles a `DWARFInfo` works with: the `DWARFStructs(...)` constructor and `DWARFInfo.structs` -/
structure Bundles where
  structsOf : DwarfCfg → Option DwarfStructs
  S0 : DwarfStructs

/-- the standard's bundles -/
def specBundles (le : Bool) (dasz : Nat) : Bundles :=
  { structsOf := fun c => some (Spec.dwarfStructs c), S0 := Spec.dwarfStructs ⟨le, 32, dasz, 2⟩ }

/-- the bundles agree with the standard's on the fields the DIE code reads: `DWARFInfo.structs` with the bundle of
    (32-bit format, default address size, version 2), and the constructor on every one of the 32 configurations
    (Props/TieC04 `dwarf_fields` proves this of the regenerated bundles) -/
structure BundlesOK (B : Bundles) (le : Bool) (dasz : Nat) : Prop where
  s0 : BundleEq B.S0 (Spec.dwarfStructs ⟨le, 32, dasz, 2⟩)
  all : ∀ c ∈ Spec.allDwarfCfgs, ∃ S, B.structsOf c = some S ∧ BundleEq S (Spec.dwarfStructs c)

theorem specBundles_ok (le : Bool) (dasz : Nat) : BundlesOK (specBundles le dasz) le dasz :=
  ⟨BundleEq.refl _, fun c _ => ⟨_, rfl, BundleEq.refl _⟩⟩

/-- the bundle the constructor answers with for `c` -/
def Bundles.get (B : Bundles) (c : DwarfCfg) : DwarfStructs := (B.structsOf c).getD (Spec.dwarfStructs c)

theorem BundlesOK.get {B : Bundles} {le : Bool} {dasz : Nat} (h : BundlesOK B le dasz) {c : DwarfCfg}
    (hc : c ∈ Spec.allDwarfCfgs) : B.structsOf c = some (B.get c) ∧ BundleEq (B.get c) (Spec.dwarfStructs c) := by
  obtain ⟨S, h1, h2⟩ := h.all c hc
  simp only [Bundles.get, h1, Option.getD_some]
  exact ⟨trivial, h2⟩

theorem cfg_mem_all (le fmt64 : Bool) {asz ver : Nat} (ha : asz = 4 ∨ asz = 8) (h2 : 2 ≤ ver) (h5 : ver ≤ 5) :
    (⟨le, if fmt64 then 64 else 32, asz, ver⟩ : DwarfCfg) ∈ Spec.allDwarfCfgs := by
  have hv : ver = 2 ∨ ver = 3 ∨ ver = 4 ∨ ver = 5 := by omega
  cases le <;> cases fmt64 <;> rcases ha with rfl | rfl <;> rcases hv with rfl | rfl | rfl | rfl <;> simp [Spec.allDwarfCfgs]

/-- the `DWARFInfo` on the encoded sections of a forest -/
def dinfoOf (F : Forest) (dasz : Nat) (ed : String → Int → Option String) (r2n : Nat → Option String)
    (structsOf : DwarfCfg → Option DwarfStructs) : DInfo :=
  { le := F.le, dasz := dasz, info := some (infoSec F), abbr := some (encTables F.tables), types := some (typesSec F),
    secs := F.secs, enumDecode := ed, structsOf := structsOf, raw2name := r2n }

/-- the unit context of the unit `u` of a forest: bundle of the unit's (format, address size, version), the
    abbreviation table at the offset of the table the unit names -/
def ctxOf (F : Forest) (ed : String → Int → Option String) (r2n : Nat → Option String) (B : Bundles) (data : Bytes)
    (u : UnitDesc) (off dieOff size : Nat) : UnitCtx :=
  { S := B.get (u.cfg F.le), env := { enumDecode := ed, forms := (B.get (u.cfg F.le)).form },
    data := data,
    abbrevs := getAbbrevTable { enumDecode := ed, forms := B.S0.form } B.S0 (some (encTables F.tables))
      (tableOff F.tables u.table),
    cuOffset := off, cuDieOffset := dieOff, size := size, fmt := if u.fmt64 then 64 else 32, addrSize := u.asz,
    secs := F.secs, raw2name := r2n }

/-! ### bundles: the model reads them through the agreed fields only -/

theorem abbrevLoop_congr {env : Env} {S S' : DwarfStructs} {data : Bytes}
    (hu : S.the_Dwarf_uleb128 = S'.the_Dwarf_uleb128) (hd : S.Dwarf_abbrev_declaration = S'.Dwarf_abbrev_declaration) :
    ∀ (fuel pos : Nat) (m : List (Nat × Val)), abbrevLoop env S data fuel pos m = abbrevLoop env S' data fuel pos m := by
  intro fuel
  induction fuel with
  | zero => intro pos m; rfl
  | succ f ih => intro pos m; simp only [abbrevLoop, hu, hd, ih]

theorem getAbbrevTable_congr {env : Env} {S S' : DwarfStructs} (h : BundleEq S S') (sec : Option Bytes) (off : Nat) :
    getAbbrevTable env S sec off = getAbbrevTable env S' sec off := by
  unfold getAbbrevTable parseAbbrevTable
  cases sec with
  | none => rfl
  | some data => simp only [abbrevLoop_congr h.uleb h.decl]

/-- `_parse_CU_at_offset` with bundles that agree with the standard's is the parser of the header theorems -/
theorem parseCU_bundles {ed : String → Int → Option String} {B : Bundles} {le : Bool} {dasz : Nat}
    (hB : BundlesOK B le dasz) (data : Bytes) :
    parseCUAtOffset ed B.structsOf B.S0 le data = specP ed le dasz data := by
  funext off
  unfold specP parseCUAtOffset
  simp only [hB.s0.u32, hB.s0.formFn]
  cases hp : parseNat { enumDecode := ed, forms := (Spec.dwarfStructs ⟨le, 32, dasz, 2⟩).form }
      (Spec.dwarfStructs ⟨le, 32, dasz, 2⟩).the_Dwarf_uint32 data off with
  | error e => rfl
  | ok r =>
    obtain ⟨il, q⟩ := r
    simp only [bind, Except.bind]
    have hmem : (⟨le, if il = 0xFFFFFFFF then 64 else 32, 4, 2⟩ : DwarfCfg) ∈ Spec.allDwarfCfgs := by
      have := cfg_mem_all le (decide (il = 0xFFFFFFFF)) (asz := 4) (ver := 2) (Or.inl rfl) (by omega) (by omega)
      by_cases h : il = 0xFFFFFFFF <;> simpa [h] using this
    obtain ⟨h1, h2⟩ := hB.get hmem
    simp only [h1, h2.cu, h2.formFn]

/-- … `_parse_TU_at_offset` -/
theorem parseTU_bundles {ed : String → Int → Option String} {B : Bundles} {le : Bool} {dasz : Nat}
    (hB : BundlesOK B le dasz) (data : Bytes) :
    parseTUAtOffset ed B.structsOf B.S0 le data = specTU ed le dasz data := by
  funext off
  unfold specTU parseTUAtOffset
  simp only [hB.s0.u32, hB.s0.formFn]
  cases hp : parseNat { enumDecode := ed, forms := (Spec.dwarfStructs ⟨le, 32, dasz, 2⟩).form }
      (Spec.dwarfStructs ⟨le, 32, dasz, 2⟩).the_Dwarf_uint32 data off with
  | error e => rfl
  | ok r =>
    obtain ⟨il, q⟩ := r
    simp only [bind, Except.bind]
    have hmem : (⟨le, if il = 0xFFFFFFFF then 64 else 32, 4, 2⟩ : DwarfCfg) ∈ Spec.allDwarfCfgs := by
      have := cfg_mem_all le (decide (il = 0xFFFFFFFF)) (asz := 4) (ver := 2) (Or.inl rfl) (by omega) (by omega)
      by_cases h : il = 0xFFFFFFFF <;> simpa [h] using this
    obtain ⟨h1, h2⟩ := hB.get hmem
    simp only [h1, h2.tu, h2.formFn]

theorem wfUnit_cfg_mem {F : Forest} {u : UnitDesc} (h : wfUnit F.le (infoUnitOf F u) = true) :
    u.cfg F.le ∈ Spec.allDwarfCfgs := by
  unfold wfUnit at h
  simp only [Bool.and_eq_true, decide_eq_true_eq, Bool.or_eq_true, beq_iff_eq] at h
  exact cfg_mem_all F.le u.fmt64 h.1.1.1.1.1.2 h.1.1.1.1.1.1.1 h.1.1.1.1.1.1.2

theorem wfTU_cfg_mem {F : Forest} {u : UnitDesc} (h : wfTU F.le (tuHeaderOf F u) (encTree (u.cfg F.le) u.tree) = true) :
    u.cfg F.le ∈ Spec.allDwarfCfgs := by
  unfold wfTU at h
  simp only [Bool.and_eq_true, decide_eq_true_eq, Bool.or_eq_true, beq_iff_eq] at h
  exact cfg_mem_all F.le u.fmt64 h.1.1.1.1.2 h.1.1.1.1.1.1 h.1.1.1.1.1.2

/-- the glue on a unit of `.debug_info`: `unitCtx` on the parsed header of `u` is `ctxOf` -/
theorem unitCtx_info (F : Forest) (dasz : Nat) (ed : String → Int → Option String) (r2n : Nat → Option String)
    (B : Bundles) (hS : B.structsOf (u.cfg F.le) = some (B.get (u.cfg F.le))) (data : Bytes) (off : Nat) :
    unitCtx (dinfoOf F dasz ed r2n B.structsOf) B.S0 data (cuOf F.le off (infoUnitOf F u))
      = .ok (ctxOf F ed r2n B data u off (infoDieOff F off u) (unitSize F.le (infoUnitOf F u))) := by
  unfold unitCtx
  have h1 : (cuOf F.le off (infoUnitOf F u)).header = unitHdrVal F.le (infoUnitOf F u) := rfl
  have h2 : (⟨F.le, (cuOf F.le off (infoUnitOf F u)).fmt, (infoUnitOf F u).asz, (infoUnitOf F u).version⟩ : DwarfCfg)
      = u.cfg F.le := rfl
  simp only [h1, unitHdrVal_asz, unitHdrVal_version, unitHdrVal_abbrevOff, cuOf_size_all, bind, Except.bind, pure,
    Except.pure, dinfoOf, h2, hS]
  rfl

/-- … of `.debug_types` -/
theorem unitCtx_types (F : Forest) (dasz : Nat) (ed : String → Int → Option String) (r2n : Nat → Option String)
    (B : Bundles) (hS : B.structsOf (u.cfg F.le) = some (B.get (u.cfg F.le))) (data : Bytes) (off : Nat) :
    unitCtx (dinfoOf F dasz ed r2n B.structsOf) B.S0 data
        (tuOf F.le off (tuHeaderOf F u) (encTree (u.cfg F.le) u.tree))
      = .ok (ctxOf F ed r2n B data u off (typesDieOff F off u) (encTUOf F u).length) := by
  unfold unitCtx
  have h1 : (tuOf F.le off (tuHeaderOf F u) (encTree (u.cfg F.le) u.tree)).header
      = tuHdrVal F.le (tuHeaderOf F u) (encTree (u.cfg F.le) u.tree) := rfl
  have h2 : (⟨F.le, (tuOf F.le off (tuHeaderOf F u) (encTree (u.cfg F.le) u.tree)).fmt, (tuHeaderOf F u).asz,
      (tuHeaderOf F u).version⟩ : DwarfCfg) = u.cfg F.le := rfl
  simp only [h1, tuHdrVal_asz, tuHdrVal_version, tuHdrVal_abbrevOff, tuOf_size, bind, Except.bind, pure,
    Except.pure, dinfoOf, h2, hS]
  rfl

/-- the abbreviation table a unit of a well-formed forest sees: the parse of the table it names -/
theorem ctxOf_abbrevs {ed : String → Int → Option String} {r2n : Nat → Option String} (hR : RegistryOK ed r2n)
    (F : Forest) (dasz : Nat) {B : Bundles} (hB : BundlesOK B F.le dasz) (data : Bytes) (u : UnitDesc)
    (off dieOff size : Nat) (t : TableDesc)
    (ht : F.tables[u.table]? = some t) (hwt : wfAbbrevs t.decls t.endLen = true)
    (hsmall : (encTables F.tables).length ≤ 2 ^ 63) :
    (ctxOf F ed r2n B data u off dieOff size).abbrevs = .ok (abbrevMap (namesOf ed) t.decls) := by
  obtain ⟨rest, hdrop⟩ := encTables_drop F.tables u.table t ht
  simp only [wfAbbrevs, Bool.and_eq_true, decide_eq_true_eq] at hwt
  obtain ⟨⟨h1, _⟩, h3⟩ := hwt
  have hl := length_of_drop hdrop
  have hge := encAbbrevs_length_ge t.decls t.endLen
  rw [List.length_append] at hl
  show getAbbrevTable { enumDecode := ed, forms := B.S0.form } B.S0 (some (encTables F.tables)) (tableOff F.tables u.table) = _
  rw [getAbbrevTable_congr hB.s0]
  exact getAbbrevTable_encoded (env := { enumDecode := ed, forms := B.S0.form })
    hR.enum ⟨F.le, 32, dasz, 2⟩ t.decls (fun d hd => List.all_eq_true.1 h1 d hd) h3 (by omega) hdrop

/-- one unit of a well-formed forest, in the context the glue builds for it -/
theorem forest_unit_exact {ed : String → Int → Option String} {r2n : Nat → Option String} (hR : RegistryOK ed r2n)
    (F : Forest) (dasz : Nat) {B : Bundles} (hB : BundlesOK B F.le dasz)
    (hwt : ∀ t ∈ F.tables, wfAbbrevs t.decls t.endLen = true)
    (hsmall : (encTables F.tables).length ≤ 2 ^ 63)
    (hsecs : ∀ s, (F.secs.str = some s ∨ F.secs.lineStr = some s ∨ F.secs.addr = some s ∨ F.secs.strOffsets = some s ∨
            F.secs.loclists = some s ∨ F.secs.rnglists = some s) → s.length < 2 ^ 63)
    (data : Bytes) (u : UnitDesc) (off dieOff size : Nat) (hu : WfUnitDesc (namesOf ed) F u off dieOff)
    (hcfg : u.cfg F.le ∈ Spec.allDwarfCfgs)
    (hasz : u.asz = 4 ∨ u.asz = 8) {rest : Bytes} (hd : data.drop dieOff = encTree (u.cfg F.le) u.tree ++ rest)
    (hlen : data.length ≤ 2 ^ 63) (G : Nat → R DieObs)
    (hG : ∀ o, dieOff ≤ o → G o = getCachedDIE (ctxOf F ed r2n B data u off dieOff size) o) :
    iterDIEs G off dieOff (unitFuel (ctxOf F ed r2n B data u off dieOff size))
        = .ok (flatUnitP (namesOf ed) (u.cfg F.le) (rho (u.cfg F.le) F.secs (basesOf u.tree.root))
            (rho (u.cfg F.le) F.secs (basesOf u.tree.root)) dieOff u.tree)
      ∧ Covered G (flattenUnit (namesOf ed) (u.cfg F.le) (rho (u.cfg F.le) F.secs (basesOf u.tree.root))
          (rho (u.cfg F.le) F.secs (basesOf u.tree.root)) dieOff u.tree) := by
  obtain ⟨t, ht, hnodes⟩ := hu.table
  have hwt' := hwt t (List.mem_of_getElem? ht)
  have hab := ctxOf_abbrevs hR F dasz hB data u off dieOff size t ht hwt' hsmall
  have hnd : (t.decls.map (·.code)).Nodup := by
    simp only [wfAbbrevs, Bool.and_eq_true, decide_eq_true_eq] at hwt'
    exact hwt'.1.2
  have hS : SecsOK (ctxOf F ed r2n B data u off dieOff size) (u.cfg F.le) F.secs :=
    { secsEq := rfl, fmt := rfl, asz := rfl,
      fmtOK := by cases hf : u.fmt64 <;> simp [UnitDesc.cfg, hf],
      aszPos := by rcases hasz with h | h <;> simp [UnitDesc.cfg, h],
      small := hsecs }
  exact iter_unit_exact hR (U := ctxOf F ed r2n B data u off dieOff size) (hB.get hcfg).2 rfl hS G hG t hab hnd u.tree
    hu.tree hd hlen hnodes hu.sibs

/-! ### whole sections -/

theorem encInitialLength_length (le : Bool) (fmt64 : Bool) (n : Nat) :
    (encInitialLength le fmt64 n).length = if fmt64 then 12 else 4 := by
  cases fmt64 <;> simp [encInitialLength, encNat_length]

/-- the bytes at the first-entry offset of a placed unit of `.debug_info` are its encoded tree -/
theorem info_body_drop (F : Forest) {data rest : Bytes} {off : Nat} (u : UnitDesc)
    (hd : data.drop off = encUnit F.le (infoUnitOf F u) ++ rest) :
    data.drop (infoDieOff F off u) = encTree (u.cfg F.le) u.tree ++ rest := by
  have h0 : data.drop off = encInitialLength F.le (infoUnitOf F u).fmt64 (unitLength F.le (infoUnitOf F u)) ++
      (unitHdrRest F.le (infoUnitOf F u) ++ ((infoUnitOf F u).body ++ rest)) := by
    rw [hd, encUnit]; simp [List.append_assoc]
  have h1 := drop_add_of_drop h0
  have h2 := drop_add_of_drop h1
  rw [encInitialLength_length] at h1 h2
  exact h2

/-- … of `.debug_types` -/
theorem types_body_drop (F : Forest) {data rest : Bytes} {off : Nat} (u : UnitDesc)
    (hd : data.drop off = encTUOf F u ++ rest) :
    data.drop (typesDieOff F off u) = encTree (u.cfg F.le) u.tree ++ rest := by
  have h0 : data.drop off = encInitialLength F.le (tuHeaderOf F u).fmt64
        ((tuHdrRest F.le (tuHeaderOf F u)).length + (encTree (u.cfg F.le) u.tree).length) ++
      (tuHdrRest F.le (tuHeaderOf F u) ++ (encTree (u.cfg F.le) u.tree ++ rest)) := by
    rw [hd, encTUOf, encTU]; simp [List.append_assoc]
  have h1 := drop_add_of_drop h0
  have h2 := drop_add_of_drop h1
  rw [encInitialLength_length] at h1 h2
  exact h2

/-- what iterating the units of `.debug_info` and the entries of each must yield: per unit the unit object
    (header container, format, unit offset, first-entry offset) and the pre-order flattening of its tree —
    offsets, sizes, codes, tags, child flags, attributes with resolved values, null entries — with parents -/
def expectInfo (nm : Names) (F : Forest) : List (CU × R (List (DieObs × Option Nat))) :=
  (placeInfo F 0 F.units).map fun p =>
    (cuOf F.le p.1 (infoUnitOf F p.2),
     .ok (flatUnitP nm (p.2.cfg F.le) (rho (p.2.cfg F.le) F.secs (basesOf p.2.tree.root))
            (rho (p.2.cfg F.le) F.secs (basesOf p.2.tree.root)) (infoDieOff F p.1 p.2) p.2.tree))

/-- … of `.debug_types` -/
def expectTypes (nm : Names) (F : Forest) : List (CU × R (List (DieObs × Option Nat))) :=
  (placeTypes F 0 F.tus).map fun p =>
    (tuOf F.le p.1 (tuHeaderOf F p.2) (encTree (p.2.cfg F.le) p.2.tree),
     .ok (flatUnitP nm (p.2.cfg F.le) (rho (p.2.cfg F.le) F.secs (basesOf p.2.tree.root))
            (rho (p.2.cfg F.le) F.secs (basesOf p.2.tree.root)) (typesDieOff F p.1 p.2) p.2.tree))

theorem mem_placeInfo (F : Forest) : ∀ (us : List UnitDesc) (off : Nat), ∀ p ∈ placeInfo F off us, p.2 ∈ us := by
  intro us
  induction us with
  | nil => intro off p hp; simp [placeInfo] at hp
  | cons u us ih =>
    intro off p hp
    simp only [placeInfo, List.mem_cons] at hp
    rcases hp with rfl | hp
    · exact List.mem_cons_self
    · exact List.mem_cons_of_mem _ (ih _ p hp)

theorem mem_placeTypes (F : Forest) : ∀ (us : List UnitDesc) (off : Nat), ∀ p ∈ placeTypes F off us, p.2 ∈ us := by
  intro us
  induction us with
  | nil => intro off p hp; simp [placeTypes] at hp
  | cons u us ih =>
    intro off p hp
    simp only [placeTypes, List.mem_cons] at hp
    rcases hp with rfl | hp
    · exact List.mem_cons_self
    · exact List.mem_cons_of_mem _ (ih _ p hp)

theorem wfUnit_asz {le : Bool} {u : InfoUnit} (h : wfUnit le u = true) : u.asz = 4 ∨ u.asz = 8 := by
  unfold wfUnit at h
  simp only [Bool.and_eq_true, decide_eq_true_eq, Bool.or_eq_true, beq_iff_eq] at h
  exact h.1.1.1.1.1.2

theorem wfTU_asz {le : Bool} {h : TUHeader} {body : Bytes} (hw : wfTU le h body = true) : h.asz = 4 ∨ h.asz = 8 := by
  unfold wfTU at hw
  simp only [Bool.and_eq_true, decide_eq_true_eq, Bool.or_eq_true, beq_iff_eq] at hw
  exact hw.1.1.1.1.2

/-- the units of `.debug_info` of a well-formed forest, with their contexts -/
theorem sectionUnits_info {ed : String → Int → Option String} {r2n : Nat → Option String} (hR : RegistryOK ed r2n)
    (F : Forest) (dasz : Nat) {B : Bundles} (hB : BundlesOK B F.le dasz)
    (hhdr : ∀ u ∈ F.units, wfUnit F.le (infoUnitOf F u) = true) :
    sectionUnits (dinfoOf F dasz ed r2n B.structsOf) B.S0 (some (infoSec F)) false
      = ((placeInfo F 0 F.units).map fun p =>
          (cuOf F.le p.1 (infoUnitOf F p.2),
           (.ok (ctxOf F ed r2n B (infoSec F) p.2 p.1 (infoDieOff F p.1 p.2) (unitSize F.le (infoUnitOf F p.2))) : R UnitCtx)),
         none) := by
  have hchain := chain_encoded_all (enumDecode := ed) (le := F.le) (dasz := dasz) (size := (infoSec F).length)
    (data := infoSec F) hR.ut (F.units.map (infoUnitOf F)) 0
    (fun iu hiu => by
      obtain ⟨u, hu, rfl⟩ := List.mem_map.1 hiu
      exact hhdr u hu) (by simp [infoSec]) (by simp [infoSec])
  have hlen := chain_length_le _ _ hchain
  have hloop := unitsLoop_chain _ 0 ((infoSec F).length + 1) [] hchain (by omega)
  unfold sectionUnits
  simp only [Bool.false_eq_true, if_false, dinfoOf, parseCU_bundles hB]
  rw [hloop]
  simp only [List.reverse_nil, List.nil_append, cusOf_placeInfo, List.map_map, Prod.mk.injEq, and_true]
  apply List.map_congr_left
  intro p hp
  simp only [Function.comp]
  rw [← unitCtx_info F dasz ed r2n B (hB.get (wfUnit_cfg_mem (hhdr p.2 (mem_placeInfo F _ _ p hp)))).1 (infoSec F) p.1]
  rfl

/-- … of `.debug_types` -/
theorem sectionUnits_types {ed : String → Int → Option String} {r2n : Nat → Option String}
    (F : Forest) (dasz : Nat) {B : Bundles} (hB : BundlesOK B F.le dasz)
    (hhdr : ∀ u ∈ F.tus, wfTU F.le (tuHeaderOf F u) (encTree (u.cfg F.le) u.tree) = true) :
    sectionUnits (dinfoOf F dasz ed r2n B.structsOf) B.S0 (some (typesSec F)) true
      = ((placeTypes F 0 F.tus).map fun p =>
          (tuOf F.le p.1 (tuHeaderOf F p.2) (encTree (p.2.cfg F.le) p.2.tree),
           (.ok (ctxOf F ed r2n B (typesSec F) p.2 p.1 (typesDieOff F p.1 p.2) (encTUOf F p.2).length) : R UnitCtx)),
         none) := by
  have hchain := chain_encoded_tus (enumDecode := ed) (dasz := dasz) (size := (typesSec F).length)
    (data := typesSec F) F F.tus 0 hhdr (by simp [typesSec]) (by simp [typesSec])
  have hlen := chain_length_le _ _ hchain
  have hloop := unitsLoop_chain _ 0 ((typesSec F).length + 1) [] hchain (by omega)
  unfold sectionUnits
  simp only [if_true, dinfoOf, parseTU_bundles hB]
  rw [hloop]
  simp only [List.reverse_nil, List.nil_append, tusOf_placeTypes, List.map_map, Prod.mk.injEq, and_true]
  apply List.map_congr_left
  intro p hp
  simp only [Function.comp]
  rw [← unitCtx_types F dasz ed r2n B (hB.get (wfTU_cfg_mem (hhdr p.2 (mem_placeTypes F _ _ p hp)))).1 (typesSec F) p.1]
  rfl

/--
  `.debug_info`, end to end.  For a well-formed forest: driving `iter_CUs()` and, on every unit, `iter_DIEs()`
  over the encoded sections yields exactly the described units, each with the flattening of its tree, and no
  exception ends the iteration.  `G` is `_get_cached_DIE` from each unit's first-entry offset on; `B` are struct
  bundles that agree with the standard's on the fields the DIE code reads.
-/
theorem iterSection_info {ed : String → Int → Option String} {r2n : Nat → Option String} (hR : RegistryOK ed r2n)
    (F : Forest) (dasz : Nat) {B : Bundles} (hB : BundlesOK B F.le dasz) (hwf : WfForest (namesOf ed) F)
    (G : UnitCtx → Nat → R DieObs) (hG : ∀ U o, U.cuDieOffset ≤ o → G U o = getCachedDIE U o) :
    iterSection G (dinfoOf F dasz ed r2n B.structsOf) B.S0 (some (infoSec F)) false
      = (expectInfo (namesOf ed) F, none) := by
  unfold iterSection
  rw [sectionUnits_info hR F dasz hB hwf.infoHdr]
  simp only [List.map_map, expectInfo, Prod.mk.injEq, and_true]
  apply List.map_congr_left
  intro p hp
  simp only [Function.comp, bind, Except.bind, Prod.mk.injEq, true_and]
  obtain ⟨rest, hdrop⟩ := placeInfo_drop F (data := infoSec F) F.units 0 (by simp [infoSec]) p hp
  have hw := hwf.infoHdr p.2 (mem_placeInfo F _ _ p hp)
  exact (forest_unit_exact hR F dasz hB hwf.tables hwf.abbrevSmall hwf.secsSmall (infoSec F) p.2 p.1 (infoDieOff F p.1 p.2)
    (unitSize F.le (infoUnitOf F p.2)) (hwf.units p hp) (wfUnit_cfg_mem hw) (wfUnit_asz hw)
    (info_body_drop F p.2 hdrop) hwf.infoSmall _ (fun o ho => hG _ o ho)).1

/-- `.debug_types`, end to end -/
theorem iterSection_types {ed : String → Int → Option String} {r2n : Nat → Option String} (hR : RegistryOK ed r2n)
    (F : Forest) (dasz : Nat) {B : Bundles} (hB : BundlesOK B F.le dasz) (hwf : WfForest (namesOf ed) F)
    (G : UnitCtx → Nat → R DieObs) (hG : ∀ U o, U.cuDieOffset ≤ o → G U o = getCachedDIE U o) :
    iterSection G (dinfoOf F dasz ed r2n B.structsOf) B.S0 (some (typesSec F)) true
      = (expectTypes (namesOf ed) F, none) := by
  unfold iterSection
  rw [sectionUnits_types F dasz hB hwf.typesHdr]
  simp only [List.map_map, expectTypes, Prod.mk.injEq, and_true]
  apply List.map_congr_left
  intro p hp
  simp only [Function.comp, bind, Except.bind, Prod.mk.injEq, true_and]
  obtain ⟨rest, hdrop⟩ := placeTypes_drop F (data := typesSec F) F.tus 0 (by simp [typesSec]) p hp
  have hw := hwf.typesHdr p.2 (mem_placeTypes F _ _ p hp)
  exact (forest_unit_exact hR F dasz hB hwf.tables hwf.abbrevSmall hwf.secsSmall (typesSec F) p.2 p.1 (typesDieOff F p.1 p.2)
    (encTUOf F p.2).length (hwf.tus p hp) (wfTU_cfg_mem hw) (wfTU_asz hw)
    (types_body_drop F p.2 hdrop) hwf.typesSmall _ (fun o ho => hG _ o ho)).1

/-! ### per unit: what `_get_cached_DIE` finds, children, tiling to the declared length -/

/-- `G` finds every entry of a placed unit of `.debug_info` at its offset, and `iter_children` of every entry
    lists its encoded children -/
theorem forest_info_unit {ed : String → Int → Option String} {r2n : Nat → Option String} (hR : RegistryOK ed r2n)
    (F : Forest) (dasz : Nat) {B : Bundles} (hB : BundlesOK B F.le dasz) (hwf : WfForest (namesOf ed) F)
    (G : Nat → R DieObs) (p : Nat × UnitDesc) (hp : p ∈ placeInfo F 0 F.units)
    (hG : ∀ o, infoDieOff F p.1 p.2 ≤ o → G o = getCachedDIE
      (ctxOf F ed r2n B (infoSec F) p.2 p.1 (infoDieOff F p.1 p.2) (unitSize F.le (infoUnitOf F p.2))) o) :
    Covered G (flattenUnit (namesOf ed) (p.2.cfg F.le) (rho (p.2.cfg F.le) F.secs (basesOf p.2.tree.root))
        (rho (p.2.cfg F.le) F.secs (basesOf p.2.tree.root)) (infoDieOff F p.1 p.2) p.2.tree)
      ∧ (flattenUnit (namesOf ed) (p.2.cfg F.le) (rho (p.2.cfg F.le) F.secs (basesOf p.2.tree.root))
            (rho (p.2.cfg F.le) F.secs (basesOf p.2.tree.root)) (infoDieOff F p.1 p.2) p.2.tree).map
          (childrenOf G p.1 (unitFuel (ctxOf F ed r2n B (infoSec F) p.2 p.1 (infoDieOff F p.1 p.2)
            (unitSize F.le (infoUnitOf F p.2)))))
        = (childLists (p.2.cfg F.le) (infoDieOff F p.1 p.2) p.2.tree).map .ok := by
  obtain ⟨rest, hdrop⟩ := placeInfo_drop F (data := infoSec F) F.units 0 (by simp [infoSec]) p hp
  have hbody := info_body_drop F p.2 hdrop
  have hw := hwf.infoHdr p.2 (mem_placeInfo F _ _ p hp)
  have hcov := (forest_unit_exact hR F dasz hB hwf.tables hwf.abbrevSmall hwf.secsSmall (infoSec F) p.2 p.1
    (infoDieOff F p.1 p.2) (unitSize F.le (infoUnitOf F p.2)) (hwf.units p hp) (wfUnit_cfg_mem hw)
    (wfUnit_asz hw) hbody hwf.infoSmall G hG).2
  refine ⟨hcov, ?_⟩
  have hcount := count_le_length (p.2.cfg F.le) p.2.tree (hwf.units p hp).tree
  have hl := length_of_drop hbody
  rw [List.length_append] at hl
  exact children_unit (namesOf_tag ed) _ _ _ G p.1 _ p.2.tree _ (by simp only [unitFuel, ctxOf]; omega) hcov
    (hwf.units p hp).sibs

/-- … of `.debug_types` -/
theorem forest_types_unit {ed : String → Int → Option String} {r2n : Nat → Option String} (hR : RegistryOK ed r2n)
    (F : Forest) (dasz : Nat) {B : Bundles} (hB : BundlesOK B F.le dasz) (hwf : WfForest (namesOf ed) F)
    (G : Nat → R DieObs) (p : Nat × UnitDesc) (hp : p ∈ placeTypes F 0 F.tus)
    (hG : ∀ o, typesDieOff F p.1 p.2 ≤ o → G o = getCachedDIE
      (ctxOf F ed r2n B (typesSec F) p.2 p.1 (typesDieOff F p.1 p.2) (encTUOf F p.2).length) o) :
    Covered G (flattenUnit (namesOf ed) (p.2.cfg F.le) (rho (p.2.cfg F.le) F.secs (basesOf p.2.tree.root))
        (rho (p.2.cfg F.le) F.secs (basesOf p.2.tree.root)) (typesDieOff F p.1 p.2) p.2.tree)
      ∧ (flattenUnit (namesOf ed) (p.2.cfg F.le) (rho (p.2.cfg F.le) F.secs (basesOf p.2.tree.root))
            (rho (p.2.cfg F.le) F.secs (basesOf p.2.tree.root)) (typesDieOff F p.1 p.2) p.2.tree).map
          (childrenOf G p.1 (unitFuel (ctxOf F ed r2n B (typesSec F) p.2 p.1 (typesDieOff F p.1 p.2)
            (encTUOf F p.2).length)))
        = (childLists (p.2.cfg F.le) (typesDieOff F p.1 p.2) p.2.tree).map .ok := by
  obtain ⟨rest, hdrop⟩ := placeTypes_drop F (data := typesSec F) F.tus 0 (by simp [typesSec]) p hp
  have hbody := types_body_drop F p.2 hdrop
  have hw := hwf.typesHdr p.2 (mem_placeTypes F _ _ p hp)
  have hcov := (forest_unit_exact hR F dasz hB hwf.tables hwf.abbrevSmall hwf.secsSmall (typesSec F) p.2 p.1
    (typesDieOff F p.1 p.2) (encTUOf F p.2).length (hwf.tus p hp) (wfTU_cfg_mem hw)
    (wfTU_asz hw) hbody hwf.typesSmall G hG).2
  refine ⟨hcov, ?_⟩
  have hcount := count_le_length (p.2.cfg F.le) p.2.tree (hwf.tus p hp).tree
  have hl := length_of_drop hbody
  rw [List.length_append] at hl
  exact children_unit (namesOf_tag ed) _ _ _ G p.1 _ p.2.tree _ (by simp only [unitFuel, ctxOf]; omega) hcov
    (hwf.tus p hp).sibs

/-- the entries of a unit of `.debug_info` tile it from the first-entry offset to the end `CompileUnit.size`
    computes from the declared length -/
theorem info_unit_tiles (nm : Names) (ρtop ρ : Val → Val → Val) (F : Forest) (off : Nat) (u : UnitDesc) :
    Tiles (infoDieOff F off u) (flattenUnit nm (u.cfg F.le) ρtop ρ (infoDieOff F off u) u.tree)
      (off + unitSize F.le (infoUnitOf F u)) := by
  have h := flattenUnit_tiles' nm (u.cfg F.le) ρtop ρ u.tree (infoDieOff F off u)
  have e : infoDieOff F off u + (encTree (u.cfg F.le) u.tree).length = off + unitSize F.le (infoUnitOf F u) := by
    have : (infoUnitOf F u).body = encTree (u.cfg F.le) u.tree := rfl
    simp only [infoDieOff, unitSize, unitLength, this]; omega
  rw [e] at h; exact h

theorem types_unit_tiles (nm : Names) (ρtop ρ : Val → Val → Val) (F : Forest) (off : Nat) (u : UnitDesc) :
    Tiles (typesDieOff F off u) (flattenUnit nm (u.cfg F.le) ρtop ρ (typesDieOff F off u) u.tree)
      (off + (encTUOf F u).length) := by
  have h := flattenUnit_tiles' nm (u.cfg F.le) ρtop ρ u.tree (typesDieOff F off u)
  have e : typesDieOff F off u + (encTree (u.cfg F.le) u.tree).length = off + (encTUOf F u).length := by
    simp only [typesDieOff, encTUOf, encTU, List.length_append, encInitialLength_length, TUHeader.ilSize]; omega
  rw [e] at h; exact h

/-! ### unit-relative and section-relative references into `.debug_info` -/

mutual
theorem flatten_size_pos (nm : Names) (c : DwarfCfg) (ρ : Val → Val → Val) :
    ∀ (t : Tree) (off : Nat), wfTree c t = true → ∀ d ∈ flatten nm c ρ off t, 1 ≤ d.size
  | .mk n kids nl, off, hwf, d, hd => by
    simp only [wfTree, Bool.and_eq_true] at hwf
    rw [flatten, List.mem_cons] at hd
    rcases hd with rfl | hd
    · exact encEntry_length_pos c n hwf.1
    · cases hk : n.decl.children with
      | false => rw [hk] at hd; simp at hd
      | true =>
        rw [hk] at hd hwf
        simp only [if_true, Bool.and_eq_true, decide_eq_true_eq] at hd hwf
        rcases List.mem_append.1 hd with h1 | h1
        · exact flattenForest_size_pos nm c ρ kids _ hwf.2.1 d h1
        · simp only [List.mem_singleton] at h1
          rw [h1]; exact hwf.2.2
theorem flattenForest_size_pos (nm : Names) (c : DwarfCfg) (ρ : Val → Val → Val) :
    ∀ (ts : List Tree) (off : Nat), wfForest c ts = true → ∀ d ∈ flattenForest nm c ρ off ts, 1 ≤ d.size
  | [], _, _, d, hd => by simp [flattenForest] at hd
  | t :: ts, off, hwf, d, hd => by
    simp only [wfForest, Bool.and_eq_true] at hwf
    rw [flattenForest] at hd
    rcases List.mem_append.1 hd with h1 | h1
    · exact flatten_size_pos nm c ρ t off hwf.1 d h1
    · exact flattenForest_size_pos nm c ρ ts _ hwf.2 d h1
end

theorem flattenUnit_size_pos (nm : Names) (c : DwarfCfg) (ρtop ρ : Val → Val → Val) (t : Tree) (off : Nat)
    (hwf : wfTree c t = true) : ∀ d ∈ flattenUnit nm c ρtop ρ off t, 1 ≤ d.size := by
  obtain ⟨n, kids, nl⟩ := t
  intro d hd
  rw [flattenUnit, List.mem_cons] at hd
  rcases hd with rfl | hd
  · simp only [wfTree, Bool.and_eq_true] at hwf
    exact encEntry_length_pos c n hwf.1
  · exact flatten_size_pos nm c ρ (.mk n kids nl) off hwf d (by rw [flatten]; exact List.mem_cons_of_mem _ hd)

theorem tiles_end_le : ∀ (l : List DieObs) (a b : Nat), Tiles a l b → ∀ d ∈ l, d.offset + d.size ≤ b := by
  intro l
  induction l with
  | nil => intro a b _ d hd; simp at hd
  | cons x l ih =>
    intro a b h d hd
    simp only [Tiles] at h
    rcases List.mem_cons.1 hd with rfl | hd
    · cases l with
      | nil => simp only [Tiles] at h; omega
      | cons y l' =>
        have := tiles_offset_ge (y :: l') _ b h.2 y List.mem_cons_self
        have := ih _ b h.2 y List.mem_cons_self
        omega
    · exact ih _ b h.2 d hd

/--
  References into a unit of `.debug_info` of a well-formed forest, for every entry `d` of the unit `p`:
  `cu.get_DIE_from_refaddr(d.offset)` (unit-relative forms, after adding the unit offset) returns `d`; and from every
  reachable state of the unit cache `dwarfinfo.get_CU_containing(d.offset)` (DW_FORM_ref_addr) returns the unit `p`.
-/
theorem forest_refs_info {ed : String → Int → Option String} {r2n : Nat → Option String} (hR : RegistryOK ed r2n)
    (F : Forest) (dasz : Nat) {B : Bundles} (hB : BundlesOK B F.le dasz) (hwf : WfForest (namesOf ed) F)
    (p : Nat × UnitDesc) (hp : p ∈ placeInfo F 0 F.units)
    (d : DieObs)
    (hd : d ∈ flattenUnit (namesOf ed) (p.2.cfg F.le) (rho (p.2.cfg F.le) F.secs (basesOf p.2.tree.root))
      (rho (p.2.cfg F.le) F.secs (basesOf p.2.tree.root)) (infoDieOff F p.1 p.2) p.2.tree) :
    unitDIEFromRefaddr (ctxOf F ed r2n B (infoSec F) p.2 p.1 (infoDieOff F p.1 p.2) (unitSize F.le (infoUnitOf F p.2)))
        d.offset = .ok d
      ∧ ∀ st, Inv (specP ed F.le dasz (infoSec F)) (cusOf F.le 0 (F.units.map (infoUnitOf F))) st →
          ∃ st', getCUContaining (specP ed F.le dasz (infoSec F)) (infoSec F).length st d.offset
              = (.ok (cuOf F.le p.1 (infoUnitOf F p.2)), st')
            ∧ Inv (specP ed F.le dasz (infoSec F)) (cusOf F.le 0 (F.units.map (infoUnitOf F))) st' := by
  have hcov := (forest_info_unit hR F dasz hB hwf (getCachedDIE (ctxOf F ed r2n B (infoSec F) p.2 p.1
    (infoDieOff F p.1 p.2) (unitSize F.le (infoUnitOf F p.2)))) p hp (fun _ _ => rfl)).1
  have htiles := info_unit_tiles (namesOf ed) (rho (p.2.cfg F.le) F.secs (basesOf p.2.tree.root))
    (rho (p.2.cfg F.le) F.secs (basesOf p.2.tree.root)) F p.1 p.2
  have hlo := tiles_offset_ge _ _ _ htiles d hd
  have hhi := tiles_end_le _ _ _ htiles d hd
  have hpos := flattenUnit_size_pos (namesOf ed) _ _ _ p.2.tree _ (hwf.units p hp).tree d hd
  have hdie : p.1 ≤ infoDieOff F p.1 p.2 := by unfold infoDieOff; omega
  refine ⟨?_, fun st hinv => ?_⟩
  · unfold unitDIEFromRefaddr
    rw [if_pos ⟨hlo, by simp only [ctxOf]; omega⟩]
    exact hcov d hd
  · have hchain := chain_encoded_all (enumDecode := ed) (le := F.le) (dasz := dasz) (size := (infoSec F).length)
      (data := infoSec F) hR.ut (F.units.map (infoUnitOf F)) 0
      (fun iu hiu => by
        obtain ⟨u, hu, rfl⟩ := List.mem_map.1 hiu
        exact hwf.infoHdr u hu) (by simp [infoSec]) (by simp [infoSec])
    have hmem : cuOf F.le p.1 (infoUnitOf F p.2) ∈ cusOf F.le 0 (F.units.map (infoUnitOf F)) := by
      rw [cusOf_placeInfo]; exact List.mem_map.2 ⟨p, hp, rfl⟩
    exact getCUContaining_exact (fun o c h => parseCU_offset o c h) hchain hinv hmem cuOf_size_all
      (show p.1 ≤ d.offset by omega) (show d.offset < p.1 + unitSize F.le (infoUnitOf F p.2) by omega)

/-! ### signature references: `.debug_types` and the DWARF 5 type units of `.debug_info` -/

theorem unitSig_of_signature {h : Val} {s : Int} (hs : h.getInt "signature" = .ok s) : unitSig h = .ok s := by
  unfold unitSig; rw [hs]

/-- a `Dwarf_CU_header` container has no field `signature`: the key is `type_signature` -/
theorem unitSig_unitHdrVal (le : Bool) (u : InfoUnit) :
    unitSig (unitHdrVal le u) = (unitHdrVal le u).getInt "type_signature" := by
  have hno : (unitHdrVal le u).getInt "signature" = .error .keyError := by
    unfold unitHdrVal
    by_cases h5 : u.version < 5
    · simp [h5, Val.getInt, Val.getField, Fields.getR, Fields.get?, bind, Except.bind]
    · by_cases h45 : u.utype = 4 ∨ u.utype = 5
      · simp [h5, h45, Val.getInt, Val.getField, Fields.getR, Fields.get?, bind, Except.bind]
      · by_cases h26 : u.utype = 2 ∨ u.utype = 6
        · simp [h5, h45, h26, Val.getInt, Val.getField, Fields.getR, Fields.get?, bind, Except.bind]
        · simp [h5, h45, h26, Val.getInt, Val.getField, Fields.getR, Fields.get?, bind, Except.bind]
  unfold unitSig
  rw [hno]

theorem unitHdrVal_typeSig (le : Bool) (u : InfoUnit) (h5 : 5 ≤ u.version) (ht : u.utype = 2 ∨ u.utype = 6) :
    unitSig (unitHdrVal le u) = .ok (u.id8 : Int) := by
  rw [unitSig_unitHdrVal]
  unfold unitHdrVal
  have h1 : ¬ u.version < 5 := by omega
  have h2 : ¬ (u.utype = 4 ∨ u.utype = 5) := by omega
  simp [h1, h2, ht, Val.getInt, Val.getField, Fields.getR, Fields.get?, Val.asInt, bind, Except.bind]

theorem unitHdrVal_typeOff (le : Bool) (u : InfoUnit) (h5 : 5 ≤ u.version) (ht : u.utype = 2 ∨ u.utype = 6) :
    (unitHdrVal le u).getNat "type_offset" = .ok u.typeOff := by
  unfold unitHdrVal
  have h1 : ¬ u.version < 5 := by omega
  have h2 : ¬ (u.utype = 4 ∨ u.utype = 5) := by omega
  simp [h1, h2, ht, Val.getNat, Val.getField, Fields.getR, Fields.get?, Val.asInt, Val.asNat, bind, Except.bind]

/-- `cu.header.get('unit_type') in ('DW_UT_type', 'DW_UT_split_type')` on an encoded unit of `.debug_info` says what
    the description says -/
theorem isV5TypeUnit_cuOf' (le : Bool) (off : Nat) (u : InfoUnit) :
    isV5TypeUnit (cuOf le off u) = (decide (5 ≤ u.version) && (u.utype == 2 || u.utype == 6)) := by
  obtain ⟨fmt64, version, utype, abbrevOff, asz, id8, typeOff, body⟩ := u
  unfold isV5TypeUnit cuOf unitHdrVal
  simp only
  by_cases h5 : version < 5
  · have : ¬ 5 ≤ version := by omega
    simp [h5, this, Val.getField, Fields.getR, Fields.get?]
  · have h5' : 5 ≤ version := by omega
    simp only [h5, if_false, h5', decide_true, Bool.true_and, List.cons_append]
    match utype with
    | 0 => simp [utName, Val.getField, Fields.getR, Fields.get?]
    | 1 => simp [utName, Val.getField, Fields.getR, Fields.get?]
    | 2 => simp [utName, Val.getField, Fields.getR, Fields.get?]
    | 3 => simp [utName, Val.getField, Fields.getR, Fields.get?]
    | 4 => simp [utName, Val.getField, Fields.getR, Fields.get?]
    | 5 => simp [utName, Val.getField, Fields.getR, Fields.get?]
    | 6 => simp [utName, Val.getField, Fields.getR, Fields.get?]
    | n + 7 => simp [utName, Val.getField, Fields.getR, Fields.get?]

theorem isV5TypeUnit_cuOf (F : Forest) (off : Nat) (u : UnitDesc) :
    isV5TypeUnit (cuOf F.le off (infoUnitOf F u)) = u.isTypeV5 := by
  rw [isV5TypeUnit_cuOf']
  rfl

/-- `get_DIE_by_sig8` on a completed scan: the last unit carrying the signature wins -/
theorem dieBySig8_last (G : UnitCtx → Nat → R DieObs) (pre post : List (CU × R UnitCtx)) (cu : CU) (U : UnitCtx)
    (sig : Int) (to : Nat) (hsig : unitSig cu.header = .ok sig)
    (hlast : ∀ p ∈ post, unitSig p.1.header ≠ .ok sig) (hto : cu.header.getNat "type_offset" = .ok to)
    (d : DieObs) (hG : G U (cu.cuOffset + to) = .ok d) :
    dieBySig8 G (pre ++ (cu, .ok U) :: post) none sig = .ok (cu.cuOffset, d) := by
  have hfold : ∀ (f : Option (CU × R UnitCtx) → CU × R UnitCtx → Option (CU × R UnitCtx))
      (ps : List (CU × R UnitCtx)) (acc : Option (CU × R UnitCtx)),
      (∀ acc p, p ∈ ps → f acc p = acc) → ps.foldl f acc = acc := by
    intro f ps
    induction ps with
    | nil => intro acc _; rfl
    | cons p ps ih =>
      intro acc h
      rw [List.foldl_cons, h acc p (by simp)]
      exact ih acc (fun a q hq => h a q (by simp [hq]))
  unfold dieBySig8
  simp only [bind, Except.bind, pure, Except.pure, List.foldl_append, List.foldl_cons, hsig, if_true]
  rw [hfold _ post _ (fun acc p hp => by
    obtain ⟨cu', rU'⟩ := p
    have hne := hlast _ hp
    simp only at hne ⊢
    cases hg : unitSig cu'.header with
    | error e => rfl
    | ok s =>
      have : ¬ s = sig := fun e => hne (by rw [hg, e])
      simp [this])]
  simp only [hto, hG]

/-- the units `_parse_debug_types` files by signature for a well-formed forest: the type units of `.debug_types` in
    section order, then the DWARF 5 type units of `.debug_info` in section order; the scan completes -/
theorem sigUnits_forest {ed : String → Int → Option String} {r2n : Nat → Option String} (hR : RegistryOK ed r2n)
    (F : Forest) (dasz : Nat) {B : Bundles} (hB : BundlesOK B F.le dasz) (hwf : WfForest (namesOf ed) F) :
    sigUnits (dinfoOf F dasz ed r2n B.structsOf) B.S0
      = (((placeTypes F 0 F.tus).map fun p =>
            (tuOf F.le p.1 (tuHeaderOf F p.2) (encTree (p.2.cfg F.le) p.2.tree),
             (.ok (ctxOf F ed r2n B (typesSec F) p.2 p.1 (typesDieOff F p.1 p.2) (encTUOf F p.2).length) : R UnitCtx)))
          ++ (((placeInfo F 0 F.units).filter fun p => p.2.isTypeV5).map fun p =>
            (cuOf F.le p.1 (infoUnitOf F p.2),
             (.ok (ctxOf F ed r2n B (infoSec F) p.2 p.1 (infoDieOff F p.1 p.2) (unitSize F.le (infoUnitOf F p.2))) : R UnitCtx))),
         none) := by
  unfold sigUnits
  have ht : (dinfoOf F dasz ed r2n B.structsOf).types = some (typesSec F) := rfl
  have hi : (dinfoOf F dasz ed r2n B.structsOf).info = some (infoSec F) := rfl
  rw [ht, hi, sectionUnits_types F dasz hB hwf.typesHdr, sectionUnits_info hR F dasz hB hwf.infoHdr]
  simp only [List.filter_map, Prod.mk.injEq, and_true, List.append_cancel_left_eq]
  congr 1
  apply List.filter_congr
  intro p _
  simp only [Function.comp, isV5TypeUnit_cuOf]

/--
  `get_DIE_by_sig8` for a signature carried by a unit of `.debug_types` of a well-formed forest:
  `_parse_debug_types` scans both sections (no hypothesis about the unit list left), the last type unit carrying the
  signature is selected, and the entry of that unit lying at `unit offset + type_offset` is returned.  `hinfo`: no
  DWARF 5 type unit of `.debug_info` carries the same signature (those are entered later and would win).
-/
theorem sig8_forest {ed : String → Int → Option String} {r2n : Nat → Option String} (hR : RegistryOK ed r2n)
    (F : Forest) (dasz : Nat) {B : Bundles} (hB : BundlesOK B F.le dasz) (hwf : WfForest (namesOf ed) F)
    (G : UnitCtx → Nat → R DieObs)
    (hG : ∀ U o, U.cuDieOffset ≤ o → G U o = getCachedDIE U o)
    (pre post : List (Nat × UnitDesc)) (p : Nat × UnitDesc) (hsplit : placeTypes F 0 F.tus = pre ++ p :: post)
    (hlast : ∀ q ∈ post, q.2.id8 ≠ p.2.id8)
    (hinfo : ∀ q ∈ placeInfo F 0 F.units, q.2.isTypeV5 = true → q.2.id8 ≠ p.2.id8) (d : DieObs)
    (hd : d ∈ flattenUnit (namesOf ed) (p.2.cfg F.le) (rho (p.2.cfg F.le) F.secs (basesOf p.2.tree.root))
      (rho (p.2.cfg F.le) F.secs (basesOf p.2.tree.root)) (typesDieOff F p.1 p.2) p.2.tree)
    (hdx : d.offset = p.1 + p.2.typeOff) :
    sig8Lookup G (dinfoOf F dasz ed r2n B.structsOf) B.S0 (p.2.id8 : Int) = .ok (p.1, d) := by
  have hp : p ∈ placeTypes F 0 F.tus := by rw [hsplit]; simp
  have hcov := (forest_types_unit hR F dasz hB hwf (G (ctxOf F ed r2n B (typesSec F) p.2 p.1 (typesDieOff F p.1 p.2)
    (encTUOf F p.2).length)) p hp (fun o ho => hG _ o ho)).1
  have hGd := hcov d hd
  rw [hdx] at hGd
  unfold sig8Lookup
  rw [sigUnits_forest hR F dasz hB hwf]
  simp only [hsplit, List.map_append, List.map_cons, List.append_assoc, List.cons_append]
  refine dieBySig8_last G _ _ _ _ (p.2.id8 : Int) p.2.typeOff (unitSig_of_signature (tuHdrVal_signature _ _ _))
    (fun q hq => ?_) (tuHdrVal_typeOff _ _ _) d hGd
  rcases List.mem_append.1 hq with hq | hq
  · obtain ⟨q0, hq0, rfl⟩ := List.mem_map.1 hq
    have hne := hlast q0 hq0
    show unitSig (tuHdrVal F.le (tuHeaderOf F q0.2) _) ≠ _
    rw [unitSig_of_signature (tuHdrVal_signature _ _ _)]
    intro e
    injection e with e
    have e' : (q0.2.id8 : Int) = (p.2.id8 : Int) := e
    exact hne (by omega)
  · obtain ⟨q0, hq0, rfl⟩ := List.mem_map.1 hq
    obtain ⟨hq1, hq2⟩ := List.mem_filter.1 hq0
    have hne := hinfo q0 hq1 hq2
    show unitSig (unitHdrVal F.le (infoUnitOf F q0.2)) ≠ _
    have hty : q0.2.isTypeV5 = true := hq2
    unfold UnitDesc.isTypeV5 at hty
    simp only [Bool.and_eq_true, decide_eq_true_eq, Bool.or_eq_true, beq_iff_eq] at hty
    rw [unitHdrVal_typeSig _ _ hty.1 hty.2]
    intro e
    injection e with e
    have e' : (q0.2.id8 : Int) = (p.2.id8 : Int) := e
    exact hne (by omega)

/--
  The DWARF 5 half: `get_DIE_by_sig8` for a signature carried by a type unit (DW_UT_type / DW_UT_split_type) of
  `.debug_info` of a well-formed forest returns the entry of that unit lying at `unit offset + type_offset` — whatever
  `.debug_types` holds (units of `.debug_info` are entered later, so they win), provided no LATER DWARF 5 type unit
  of `.debug_info` carries the same signature.
-/
theorem sig8_forest_info {ed : String → Int → Option String} {r2n : Nat → Option String} (hR : RegistryOK ed r2n)
    (F : Forest) (dasz : Nat) {B : Bundles} (hB : BundlesOK B F.le dasz) (hwf : WfForest (namesOf ed) F)
    (G : UnitCtx → Nat → R DieObs)
    (hG : ∀ U o, U.cuDieOffset ≤ o → G U o = getCachedDIE U o)
    (pre post : List (Nat × UnitDesc)) (p : Nat × UnitDesc) (hsplit : placeInfo F 0 F.units = pre ++ p :: post)
    (hty : p.2.isTypeV5 = true)
    (hlast : ∀ q ∈ post, q.2.isTypeV5 = true → q.2.id8 ≠ p.2.id8) (d : DieObs)
    (hd : d ∈ flattenUnit (namesOf ed) (p.2.cfg F.le) (rho (p.2.cfg F.le) F.secs (basesOf p.2.tree.root))
      (rho (p.2.cfg F.le) F.secs (basesOf p.2.tree.root)) (infoDieOff F p.1 p.2) p.2.tree)
    (hdx : d.offset = p.1 + p.2.typeOff) :
    sig8Lookup G (dinfoOf F dasz ed r2n B.structsOf) B.S0 (p.2.id8 : Int) = .ok (p.1, d) := by
  have hp : p ∈ placeInfo F 0 F.units := by rw [hsplit]; simp
  have hcov := (forest_info_unit hR F dasz hB hwf (G (ctxOf F ed r2n B (infoSec F) p.2 p.1 (infoDieOff F p.1 p.2)
    (unitSize F.le (infoUnitOf F p.2)))) p hp (fun o ho => hG _ o ho)).1
  have hGd := hcov d hd
  rw [hdx] at hGd
  have htyP := hty
  unfold UnitDesc.isTypeV5 at htyP
  simp only [Bool.and_eq_true, decide_eq_true_eq, Bool.or_eq_true, beq_iff_eq] at htyP
  unfold sig8Lookup
  rw [sigUnits_forest hR F dasz hB hwf]
  simp only [hsplit, List.filter_append, List.filter_cons, hty, if_true, List.map_append, List.map_cons]
  rw [← List.append_assoc]
  refine dieBySig8_last G _ _ _ _ (p.2.id8 : Int) p.2.typeOff (unitHdrVal_typeSig _ _ htyP.1 htyP.2)
    (fun q hq => ?_) (unitHdrVal_typeOff _ _ htyP.1 htyP.2) d hGd
  obtain ⟨q0, hq0, rfl⟩ := List.mem_map.1 hq
  obtain ⟨hq1, hq2⟩ := List.mem_filter.1 hq0
  have hne := hlast q0 hq1 hq2
  show unitSig (unitHdrVal F.le (infoUnitOf F q0.2)) ≠ _
  have hty2 : q0.2.isTypeV5 = true := hq2
  unfold UnitDesc.isTypeV5 at hty2
  simp only [Bool.and_eq_true, decide_eq_true_eq, Bool.or_eq_true, beq_iff_eq] at hty2
  rw [unitHdrVal_typeSig _ _ hty2.1 hty2.2]
  intro e
  injection e with e
  have e' : (q0.2.id8 : Int) = (p.2.id8 : Int) := e
  exact hne (by omega)

/-! ### the decidable form of well-formedness -/

theorem rho_eq_resolveD : rho = resolveD := rfl

theorem distinctAt_of_B (nm : Names) : ∀ ss : List AttrSpec, distinctAtB nm ss = true → DistinctAt nm ss := by
  intro ss
  induction ss with
  | nil => intro _; trivial
  | cons s ss ih =>
    intro h
    simp only [distinctAtB, Bool.and_eq_true, List.all_eq_true, Bool.not_eq_true'] at h
    exact ⟨h.1, ih h.2⟩

theorem resolvesAll_of_B (c : DwarfCfg) (secs : Sections) (b : Bases) (nm : Names) :
    ∀ (ss : List AttrSpec) (as : List AttrV), resolvesAllB c secs b nm ss as = true → ResolvesAll c secs b nm ss as := by
  intro ss
  induction ss with
  | nil => intro as _; cases as <;> simp [ResolvesAll]
  | cons s ss ih =>
    intro as h
    cases as with
    | nil => simp [ResolvesAll]
    | cons a as =>
      simp only [resolvesAllB, Bool.and_eq_true, Bool.or_eq_true, beq_iff_eq] at h
      refine ⟨fun hne => ?_, ih as h.2⟩
      rcases h.1 with h1 | h1
      · exact absurd h1 hne
      · exact h1

theorem nodeIn_of_B (nm : Names) (c : DwarfCfg) (secs : Sections) (b : Bases) (t : TableDesc) (x : Node)
    (h : nodeInB nm c secs b t x = true) : NodeIn nm c secs b t x := by
  simp only [nodeInB, Bool.and_eq_true, List.contains_iff_mem] at h
  exact ⟨h.1.1, distinctAt_of_B nm _ h.1.2, resolvesAll_of_B c secs b nm _ _ h.2⟩

mutual
theorem treeAll_of_B {q : Node → Bool} {Q : Node → Prop} (hq : ∀ x, q x = true → Q x) :
    ∀ t : Tree, treeAllB q t = true → TreeAll Q t
  | .mk n kids nl, h => by
    simp only [treeAllB, Bool.and_eq_true] at h
    exact ⟨hq n h.1, forestAll_of_B hq kids h.2⟩
theorem forestAll_of_B {q : Node → Bool} {Q : Node → Prop} (hq : ∀ x, q x = true → Q x) :
    ∀ ts : List Tree, forestAllB q ts = true → ForestAll Q ts
  | [], _ => trivial
  | t :: ts, h => by
    simp only [forestAllB, Bool.and_eq_true] at h
    exact ⟨treeAll_of_B hq t h.1, forestAll_of_B hq ts h.2⟩
end

theorem wfUnitDesc_of_B (nm : Names) (F : Forest) (u : UnitDesc) (cuOff dieOff : Nat)
    (h : wfUnitDescB nm F u cuOff dieOff = true) : WfUnitDesc nm F u cuOff dieOff := by
  simp only [wfUnitDescB, Bool.and_eq_true] at h
  obtain ⟨⟨h1, h2⟩, h3⟩ := h
  refine ⟨?_, h2, by rw [rho_eq_resolveD]; exact h3⟩
  cases ht : F.tables[u.table]? with
  | none => rw [ht] at h1; cases h1
  | some t =>
    rw [ht] at h1
    exact ⟨t, rfl, treeAll_of_B (fun x hx => nodeIn_of_B nm _ _ _ t x hx) _ h1⟩

theorem wfForest_of_B (nm : Names) (F : Forest) (h : wfForestB nm F = true) : WfForest nm F := by
  simp only [wfForestB, Bool.and_eq_true, List.all_eq_true, decide_eq_true_eq] at h
  obtain ⟨⟨⟨⟨⟨⟨⟨⟨h1, h2⟩, h3⟩, h4⟩, h5⟩, h6⟩, h7⟩, h8⟩, h9⟩ := h
  refine ⟨h1, h2, h3, h4, ?_, h6, h7, fun p hp => wfUnitDesc_of_B nm F _ _ _ (h8 p hp),
    fun p hp => wfUnitDesc_of_B nm F _ _ _ (h9 p hp)⟩
  intro s hs
  apply h5 s
  simp only [secList, List.mem_filterMap, id, List.mem_cons, List.not_mem_nil, or_false]
  rcases hs with e | e | e | e | e | e
  · exact ⟨_, Or.inl rfl, e⟩
  · exact ⟨_, Or.inr (Or.inl rfl), e⟩
  · exact ⟨_, Or.inr (Or.inr (Or.inl rfl)), e⟩
  · exact ⟨_, Or.inr (Or.inr (Or.inr (Or.inl rfl))), e⟩
  · exact ⟨_, Or.inr (Or.inr (Or.inr (Or.inr (Or.inl rfl)))), e⟩
  · exact ⟨_, Or.inr (Or.inr (Or.inr (Or.inr (Or.inr rfl)))), e⟩

end PyElf.Proofs.C04
