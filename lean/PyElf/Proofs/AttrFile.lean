/-
  C20 over whole files (fifth wave), build attributes: composition of C01's theorems about opening a
  byte string that carries an abstract ELF description (`Layout d bytes`, Proofs/ElfFile.lean) with
  the attribute walk (Proofs/Attrs.lean).
-/
import PyElf.Model.AttrFile
import PyElf.Spec.C20File
import PyElf.Proofs.ElfFile
import PyElf.Proofs.Attrs
namespace PyElf.Proofs.C20
open PyElf PyElf.Spec PyElf.Spec.C20 PyElf.Model PyElf.Model.C20 PyElf.Proofs

theorem ok_of_toOption' {α : Type} {x : R α} {a : α} (h : x.toOption = some a) : x = .ok a := by
  cases x with
  | error e => simp [Except.toOption] at h
  | ok b => simp [Except.toOption] at h; rw [h]

/-- the processor-specific section types C20 is about, as the enum environment must name them
    (psABI for the Arm architecture: SHT_ARM_EXIDX = 0x70000001, SHT_ARM_ATTRIBUTES = 0x70000003;
    RISC-V psABI: SHT_RISCV_ATTRIBUTES = 0x70000003) -/
structure EnvC20 (env : Env) : Prop where
  armAttr : env.enumDecode "ENUM_SH_TYPE_ARM" 0x70000003 = some "SHT_ARM_ATTRIBUTES"
  riscvAttr : env.enumDecode "ENUM_SH_TYPE_RISCV" 0x70000003 = some "SHT_RISCV_ATTRIBUTES"
  armExidx : env.enumDecode "ENUM_SH_TYPE_ARM" 0x70000001 = some "SHT_ARM_EXIDX"

theorem EnvC20.attr {env : Env} (he : EnvC20 env) (arch : Spec.Attr.Arch) :
    env.enumDecode (shTypeTable (mclassOf arch)) 0x70000003 = some (attrTypeName arch) := by
  cases arch
  · exact he.armAttr
  · exact he.riscvAttr

/-! ### what the decoded headers say -/

/-- a decoded section header names its raw `sh_type` as the machine's table does -/
theorem shType_named {env : Env} {d : ElfDesc} {sd : SecDesc} {h : Val} {v : Int} {name : String}
    (hdec : d.S.Elf_Shdr.decodeRaw env [] sd.raw = .ok h)
    (hty : Fields.get? sd.hdr "sh_type" = some (.int v))
    (henv : env.enumDecode (shTypeTable d.mclass) v = some name) :
    h.getField "sh_type" = .ok (.str name) := by
  have hS : d.S.Elf_Shdr = .struct (shdrFields d.cfg) := rfl
  rw [hS] at hdec
  unfold SecDesc.raw at hdec
  obtain ⟨ctx0, x, hx, hg⟩ := struct_field_exists (shdr_field_type d.cfg) hdec
  have hraw : Fields.get? (("sh_name", Val.int sd.nameOff) :: sd.hdr) "sh_type" = some (.int v) := by
    simpa [Fields.get?] using hty
  rw [hraw] at hx
  have hm : d.cfg.mclass = d.mclass := rfl
  simp only [Option.getD_some, Con.decodeRaw, hm, henv] at hx
  cases hx
  exact hg

theorem obsSec_eq' {env : Env} {d : ElfDesc} {s : SecDesc} {r : String × Bytes × Val} (h : obsSec env d s = .ok r) :
    ∃ hd ty, d.S.Elf_Shdr.decodeRaw env [] s.raw = .ok hd ∧ hd.getField "sh_type" = .ok ty ∧
      r = (kindOf ty s.name, s.name, hd) := by
  unfold obsSec at h
  cases h1 : d.S.Elf_Shdr.decodeRaw env [] s.raw with
  | error e => simp [h1, bind, Except.bind] at h
  | ok hd =>
    cases h2 : hd.getField "sh_type" with
    | error e => simp [h1, h2, bind, Except.bind] at h
    | ok ty =>
      simp [h1, h2, bind, Except.bind, pure, Except.pure] at h
      exact ⟨hd, ty, rfl, h2, h.symm⟩

/-- `get_section(i)` on a byte string that carries `d`, for a section whose raw type the machine's
    table names `tyName`: class, name and decoded header as the description reports them, every
    numeric header field the description's -/
theorem getSection_typed {env : Env} {d : ElfDesc} {bytes : Bytes} {obs : ElfObs} {f : ElfFile}
    (hwf : d.wfZ env = true) (hl : Layout d bytes) (ho : d.observe env = .ok obs)
    (hf : openElf env specSF specMC bytes = .ok f)
    {i : Nat} {sd : SecDesc} (hsd : d.sections[i]? = some sd) {v : Int} {tyName : String}
    (hty : Fields.get? sd.hdr "sh_type" = some (.int v))
    (henv : env.enumDecode (shTypeTable d.mclass) v = some tyName) :
    ∃ sh, getSection env f.S bytes f.header f.shstr i = .ok (kindOf (.str tyName) sd.name, sd.name, sh) ∧
      sh.getField "sh_type" = .ok (.str tyName) ∧
      obs.sections[i]? = some (kindOf (.str tyName) sd.name, sd.name, sh) ∧
      ∀ k ∈ shdrNatKeys, k ≠ "sh_name" → sh.getNat k = .ok (getNatD sd.hdr k) := by
  obtain ⟨hi, rfl⟩ := List.getElem?_eq_some_iff.1 hsd
  have hL := layout_facts hl
  obtain ⟨-, h2, -⟩ := observe_inv ho
  obtain ⟨hlen, hall⟩ := mapM_ok_inv _ _ _ h2
  have hi' : i < obs.sections.length := by omega
  obtain ⟨sh, ty, hdec, hgt, hr⟩ := obsSec_eq' (hall i hi hi')
  have hnamed := shType_named hdec hty henv
  rw [hgt] at hnamed
  cases hnamed
  obtain ⟨b, hb, -⟩ := hL.shdr i hi
  have hsf := sec_facts hb hdec
  have hget := get_section_aux_z hwf hl ho hf i hi
  have hobs : obs.sections[i]? = some (kindOf (.str tyName) d.sections[i].name, d.sections[i].name, sh) := by
    rw [List.getElem?_eq_getElem hi', hr]
  rw [hobs] at hget
  refine ⟨sh, ok_of_toOption' hget, hgt, hobs, ?_⟩
  intro k hk hne
  rw [hsf.nat k hk, hsf.raw k hk hne]

/-- the bytes of a file from the offset of a section the description gives a body -/
theorem body_drop {d : ElfDesc} {bytes : Bytes} (hL : LayoutFacts d bytes) {sd : SecDesc} (hm : sd ∈ d.sections)
    {body : Bytes} (hb : sd.body = some body) :
    bytes.drop (getNatD sd.hdr "sh_offset") = body ++ bytes.drop (getNatD sd.hdr "sh_offset" + body.length) :=
  drop_of_readN (hL.body sd hm body hb)

/-! ### the attribute walk on `data.drop off = encoding ++ rest` -/

open Attrs in
/-- `attrs_roundtrip` for any byte string that holds the encoding at `off` -/
theorem attrs_roundtrip_at (arch : Spec.Attr.Arch) (env : Env) (cfg : ElfCfg) (sec : Spec.Attr.Section)
    (data rest : Bytes) (off : Nat)
    (henv : ∀ t : Nat, env.enumDecode (tagTableId arch) (t : Int) = Spec.Attr.tagName arch t)
    (hwf : Spec.Attr.sectionWf arch cfg.le sec = true)
    (hd : data.drop off = Spec.Attr.encSection cfg.le sec ++ rest) :
    Model.Attr.attributesSection arch env (Spec.elfStructs cfg) data off (Spec.Attr.encSection cfg.le sec).length
      = .ok (Spec.Attr.obsSection arch cfg.le sec) := by
  have hwf' : ∀ s ∈ sec, Spec.Attr.subSectionWf arch cfg.le s = true := by
    simpa [Spec.Attr.sectionWf] using hwf
  have hd1 : data.drop off = 0x41 :: (Spec.Attr.encSubSections cfg.le sec ++ rest) := by
    rw [hd]; rfl
  have hd2 : data.drop (off + 1) = Spec.Attr.encSubSections cfg.le sec ++ rest :=
    (drop_cons_inv hd1).2
  have hl := length_of_drop hd2
  have hge := encSubSections_length_ge cfg.le sec
  have hfuel : sec.length ≤ data.length + 2 := by
    rw [List.length_append] at hl; omega
  have hloop := subsecLoop_ok henv sec (data.length + 2) _ [] _ hwf' hfuel hd2
  have e : off + (Spec.Attr.encSection cfg.le sec).length
      = off + 1 + (Spec.Attr.encSubSections cfg.le sec).length := by
    simp only [Spec.Attr.encSection, List.length_cons]; omega
  rw [Model.Attr.attributesSection, S_byte, parseInt_byte hd1]
  simp only [bind, Except.bind, e, hloop]
  simp [Spec.Attr.obsSection, pure, Except.pure]

/-! ### `get_section(i)` of an attributes section -/

theorem kindOf_attr (arch : Spec.Attr.Arch) (name : Bytes) :
    kindOf (.str (attrTypeName arch)) name = attrKindName arch := by
  cases arch <;> rfl

theorem archOfKind_attr (arch : Spec.Attr.Arch) : archOfKind (attrKindName arch) = some arch := by
  cases arch <;> rfl

/-- `Section.data_size` of a section not flagged SHF_COMPRESSED -/
theorem dataSize_plain {env : Env} {S : ElfStructs} {data : Bytes} {sh : Val} {flags size : Nat}
    (h1 : sh.getNat "sh_flags" = .ok flags) (h2 : sh.getNat "sh_size" = .ok size) (hz : flags &&& 0x800 = 0) :
    dataSize env S data sh = .ok size := by
  unfold dataSize
  simp only [h1, bind, Except.bind, hz]
  simpa using h2

/-- the hypotheses of the whole-file attribute theorems about the section `sd` of `d`:
    machine class, raw type, not flagged compressed, body = the Spec encoding, `sh_size` its length -/
structure AttrSecFacts (arch : Spec.Attr.Arch) (d : ElfDesc) (sd : SecDesc) (sec : Spec.Attr.Section) : Prop where
  mclass : d.mclass = mclassOf arch
  ty : Fields.get? sd.hdr "sh_type" = some (.int 0x70000003)
  plain : getNatD sd.hdr "sh_flags" &&& 0x800 = 0
  wf : Spec.Attr.sectionWf arch d.le sec = true
  body : sd.body = some (Spec.Attr.encSection d.le sec)
  size : getNatD sd.hdr "sh_size" = (Spec.Attr.encSection d.le sec).length

theorem attrSecAt_unpack {arch : Spec.Attr.Arch} {d : ElfDesc} {i : Nat} {sec : Spec.Attr.Section}
    (h : attrSecAt arch d i sec = true) : ∃ sd, d.sections[i]? = some sd ∧ AttrSecFacts arch d sd sec := by
  unfold attrSecAt at h
  cases hs : d.sections[i]? with
  | none => simp [hs] at h
  | some sd =>
    refine ⟨sd, rfl, ?_⟩
    simp only [hs, Bool.and_eq_true, beq_iff_eq] at h
    obtain ⟨⟨⟨⟨⟨h1, h2⟩, h3⟩, h4⟩, h5⟩, h6⟩ := h
    refine ⟨h1, ?_, h3, h4, ?_, h6⟩
    · unfold rawIs at h2
      cases hg : Fields.get? sd.hdr "sh_type" with
      | none => simp [hg] at h2
      | some v =>
        cases v <;> simp [hg] at h2
        rw [h2]
    · cases hb : sd.body with
      | none => simp [hb] at h5
      | some b => simp [hb] at h5; rw [h5]

/-- the object `get_section(i)` made, and its attribute tree -/
theorem attrTreeOf_ok {env : Env} (he : EnvC20 env) {arch : Spec.Attr.Arch}
    (htags : ∀ t : Nat, env.enumDecode (tagTableId arch) (t : Int) = Spec.Attr.tagName arch t)
    {d : ElfDesc} {bytes : Bytes} {obs : ElfObs} {f : ElfFile}
    (hwf : d.wfZ env = true) (hl : Layout d bytes) (ho : d.observe env = .ok obs)
    (hf : openElf env specSF specMC bytes = .ok f) (hdata : f.data = bytes) (hS : f.S = d.S)
    {i : Nat} {sd : SecDesc} (hsd : d.sections[i]? = some sd) {sec : Spec.Attr.Section}
    (F : AttrSecFacts arch d sd sec) :
    ∃ sh, getSection env f.S bytes f.header f.shstr i = .ok (attrKindName arch, sd.name, sh) ∧
      attrTreeOf env f (attrKindName arch) sh = .ok (Spec.Attr.obsSection arch d.le sec) := by
  have henv := he.attr arch
  rw [← F.mclass] at henv
  obtain ⟨sh, hget, -, -, hnat⟩ := getSection_typed hwf hl ho hf hsd F.ty henv
  rw [kindOf_attr] at hget
  refine ⟨sh, hget, ?_⟩
  have hm : sd ∈ d.sections := List.mem_of_getElem? hsd
  have hdrop := body_drop (layout_facts hl) hm F.body
  have hoff := hnat "sh_offset" (by simp [shdrNatKeys]) (by decide)
  have hsz := hnat "sh_size" (by simp [shdrNatKeys]) (by decide)
  have hfl := hnat "sh_flags" (by simp [shdrNatKeys]) (by decide)
  unfold attrTreeOf
  rw [archOfKind_attr]
  simp only [hoff, bind, Except.bind, dataSize_plain hfl hsz F.plain, hdata, hS, F.size]
  exact attrs_roundtrip_at arch env d.cfg sec bytes _ _ htags F.wf hdrop

/-- `ELFFile(BytesIO(bytes)).get_section(i)` is the attributes class of the machine and iterates to
    exactly the description -/
theorem fileAttrSection_ok {env : Env} (he : EnvC20 env) {arch : Spec.Attr.Arch}
    (htags : ∀ t : Nat, env.enumDecode (tagTableId arch) (t : Int) = Spec.Attr.tagName arch t)
    {d : ElfDesc} {bytes : Bytes} {obs : ElfObs}
    (hwf : d.wfZ env = true) (hl : Layout d bytes) (ho : d.observe env = .ok obs)
    {i : Nat} {sd : SecDesc} (hsd : d.sections[i]? = some sd) {sec : Spec.Attr.Section}
    (F : AttrSecFacts arch d sd sec) :
    fileAttrSection env specSF specMC bytes i = .ok (attrKindName arch, Spec.Attr.obsSection arch d.le sec) := by
  obtain ⟨f, hf, hdata, -, -, hS, -⟩ := open_aux_z hwf hl ho
  obtain ⟨sh, hget, htree⟩ := attrTreeOf_ok he htags hwf hl ho hf hdata hS hsd F
  unfold fileAttrSection
  simp only [hf, bind, Except.bind, hdata, hget, htree]
  rfl

/-! ### lookup by name -/

/-- `get_section_by_name(name)` = `get_section(i)` for the LAST section bearing the name, `None`
    when no section does — on every byte string that carries a well-formed description -/
theorem fileAttrSectionByName_eq {env : Env} {d : ElfDesc} {bytes : Bytes} {obs : ElfObs}
    (hwf : d.wfZ env = true) (hl : Layout d bytes) (ho : d.observe env = .ok obs) (name : Bytes) :
    fileAttrSectionByName env specSF specMC bytes name =
      match d.indexOfName name with
      | none => .ok none
      | some i => (fileAttrSection env specSF specMC bytes i).map some := by
  obtain ⟨f, hf, hdata, -, -, -, -⟩ := open_aux_z hwf hl ho
  have hsec := sections_aux_z hwf hl ho hf
  have hlook := lookup_exact_aux ho name
  unfold fileAttrSectionByName fileAttrSection
  simp only [hf, bind, Except.bind, hdata, hsec]
  cases hfind : (sectionNameMap obs.sections).find? (·.1 == name) with
  | none =>
    rw [hfind] at hlook
    simp only [Option.map_none] at hlook
    rw [← hlook]
    rfl
  | some p =>
    rw [hfind] at hlook
    simp only [Option.map_some] at hlook
    rw [← hlook]
    obtain ⟨k, i⟩ := p
    simp only
    cases getSection env f.S bytes f.header f.shstr i with
    | error e => rfl
    | ok r =>
      obtain ⟨kind, nm, sh⟩ := r
      simp only
      cases attrTreeOf env f kind sh <;> rfl

theorem fileAttrSectionByName_ok {env : Env} (he : EnvC20 env) {arch : Spec.Attr.Arch}
    (htags : ∀ t : Nat, env.enumDecode (tagTableId arch) (t : Int) = Spec.Attr.tagName arch t)
    {d : ElfDesc} {bytes : Bytes} {obs : ElfObs}
    (hwf : d.wfZ env = true) (hl : Layout d bytes) (ho : d.observe env = .ok obs)
    {name : Bytes} {i : Nat} (hname : d.indexOfName name = some i)
    {sd : SecDesc} (hsd : d.sections[i]? = some sd) {sec : Spec.Attr.Section}
    (F : AttrSecFacts arch d sd sec) :
    fileAttrSectionByName env specSF specMC bytes name
      = .ok (some (attrKindName arch, Spec.Attr.obsSection arch d.le sec)) := by
  rw [fileAttrSectionByName_eq hwf hl ho name, hname]
  simp only [fileAttrSection_ok he htags hwf hl ho hsd F]
  rfl

/-! ### reduction, with no hypothesis on the contents -/

/-- for ANY body: `get_section(i)` of an uncompressed section of the machine's attributes type is
    the attributes class, and its iteration IS the attribute walk at (`sh_offset`, `sh_size`) of the
    description's header with the description's bundle.  Every section-level theorem of C20 thereby
    speaks about whole files. -/
theorem fileAttrSection_reduce {env : Env} (he : EnvC20 env) {arch : Spec.Attr.Arch}
    {d : ElfDesc} {bytes : Bytes} {obs : ElfObs}
    (hwf : d.wfZ env = true) (hl : Layout d bytes) (ho : d.observe env = .ok obs)
    {i : Nat} {sd : SecDesc} (hsd : d.sections[i]? = some sd)
    (hm : d.mclass = mclassOf arch) (hty : Fields.get? sd.hdr "sh_type" = some (.int 0x70000003))
    (hplain : getNatD sd.hdr "sh_flags" &&& 0x800 = 0) :
    fileAttrSection env specSF specMC bytes i
      = (Model.Attr.attributesSection arch env (elfStructs d.cfg) bytes (getNatD sd.hdr "sh_offset")
          (getNatD sd.hdr "sh_size")).map fun t => (attrKindName arch, t) := by
  obtain ⟨f, hf, hdata, -, -, hS, -⟩ := open_aux_z hwf hl ho
  have henv := he.attr arch
  rw [← hm] at henv
  obtain ⟨sh, hget, -, -, hnat⟩ := getSection_typed hwf hl ho hf hsd hty henv
  rw [kindOf_attr] at hget
  have hoff := hnat "sh_offset" (by simp [shdrNatKeys]) (by decide)
  have hsz := hnat "sh_size" (by simp [shdrNatKeys]) (by decide)
  have hfl := hnat "sh_flags" (by simp [shdrNatKeys]) (by decide)
  unfold fileAttrSection attrTreeOf
  simp only [hf, bind, Except.bind, hdata, hget]
  simp only [archOfKind_attr, hoff, dataSize_plain hfl hsz hplain, hS]
  have : d.S = elfStructs d.cfg := rfl
  rw [this]
  cases Model.Attr.attributesSection arch env (elfStructs d.cfg) bytes (getNatD sd.hdr "sh_offset")
    (getNatD sd.hdr "sh_size") <;> rfl

end PyElf.Proofs.C20
