/-
  C02 helper lemmas: the whole `ELF_SECTION_IN_SEGMENT_STRICT` macro (Spec/ContentsMacro.lean) in
  unsigned 64-bit arithmetic against its ideal-arithmetic reading, and against the rule the code
  computes (`inSegmentStrict`: the four condition groups, without the `.tbss` size rule and without
  the empty-section-at-the-edge clause for PT_DYNAMIC / PT_NOTE).
-/
import PyElf.Proofs.Contents
import PyElf.Spec.ContentsMacro
namespace PyElf.Proofs.C02
open PyElf PyElf.Spec PyElf.Model PyElf.Proofs
open PyElf.Spec.C02
open PyElf.Model.C02

theorem sizedFor_of_not_special {g : Seg} {s : Sec} (h : tbssSpecial g s = false) : sizedFor g s = s := by
  cases s
  simp [sizedFor, sectionSize, h]

theorem sectionSize_le (g : Seg) (s : Sec) : sectionSize g s ≤ s.size := by
  unfold sectionSize; split <;> omega

theorem typeOk_sized (g : Seg) (s : Sec) : typeOk g (sizedFor g s) = typeOk g s := rfl
theorem allocOk_sized (g : Seg) (s : Sec) : allocOk g (sizedFor g s) = allocOk g s := rfl

theorem strict_lt64 (x base len : Nat) (hx : x < W) :
    (decide (base < x) && decide (sub64 x base < len)) = (decide (base < x) && decide (x - base < len)) := by
  by_cases h : base < x
  · rw [sub64_of_le (by omega) hx]
  · simp [h]

/-- where no subtraction or addition wraps, the whole C macro (every clause, evaluated in `mod 2^64`
    arithmetic) is the ideal-arithmetic rule `inSegmentFull` -/
theorem macroFull64_eq (g : Seg) (s : Sec) (hfit : fits64 g s = true)
    (hf : g.offset ≤ s.offset → s.offset - g.offset + s.size < W)
    (hv : g.vaddr ≤ s.addr → s.addr - g.vaddr + s.size < W) :
    macroFull64 g s = inSegmentFull g s := by
  simp only [fits64, Bool.and_eq_true, decide_eq_true_eq] at hfit
  obtain ⟨⟨⟨⟨⟨⟨a1, a2⟩, a3⟩, a4⟩, a5⟩, a6⟩, a7⟩ := hfit
  have hle := sectionSize_le g s
  have c1 := clause64_eq s.offset (sectionSize g s) g.offset g.filesz a5 a1 a3 (fun h => by have := hf h; omega)
  have c2 := clause64_eq s.addr (sectionSize g s) g.vaddr g.memsz a6 a2 a4 (fun h => by have := hv h; omega)
  have c3 := strict_lt64 s.offset g.offset g.filesz a5
  have c4 := strict_lt64 s.addr g.vaddr g.memsz a6
  unfold macroFull64 inSegmentFull inSegmentStrict fileOk vmaOk emptyEdgeOk
  rw [c1, c2, c3, c4]
  rfl

/-- the text of `macro64` (Spec/Contents.lean) and the whole macro agree wherever `plainCase` holds -/
theorem macroFull64_eq_macro64 (g : Seg) (s : Sec) (hplain : plainCase g s = true) :
    macroFull64 g s = macro64 g s := by
  simp only [plainCase, Bool.and_eq_true, Bool.not_eq_true', Bool.or_eq_true] at hplain
  obtain ⟨-, hdn⟩ := hplain
  have c3 : ((g.ptype != PT_DYNAMIC && g.ptype != PT_NOTE) || s.size != 0 || g.memsz == 0 ||
      (!s.alloc || (decide (g.vaddr < s.addr) && decide (sub64 s.addr g.vaddr < g.memsz)))) = true := by
    rcases hdn with h | h <;> simp [h]
  have c4 : ((g.ptype != PT_DYNAMIC && g.ptype != PT_NOTE) || s.size != 0 || g.memsz == 0 ||
      ((s.nobits || (decide (g.offset < s.offset) && decide (sub64 s.offset g.offset < g.filesz))) &&
       (!s.alloc || (decide (g.vaddr < s.addr) && decide (sub64 s.addr g.vaddr < g.memsz))))) = true := by
    rcases hdn with h | h <;> simp [h]
  unfold macroFull64 macro64
  rw [c3, c4]

/-- `clausesInert` is exactly where the code's rule is the full macro -/
theorem clausesInert_iff (g : Seg) (s : Sec) :
    inSegmentStrict g s = inSegmentFull g s ↔ clausesInert g s = true := by
  unfold clausesInert
  by_cases ht : tbssSpecial g s = true
  · have hnb : s.nobits = true := by
      simp only [tbssSpecial, Bool.and_eq_true] at ht; exact ht.1.2
    have hnb' : (sizedFor g s).nobits = true := hnb
    simp only [ht, if_true, inSegmentFull, inSegmentStrict, fileOk, hnb, hnb', typeOk_sized, allocOk_sized,
      Bool.true_or, Bool.and_true]
    generalize typeOk g s = a
    generalize allocOk g s = b
    generalize vmaOk g s = c
    generalize vmaOk g (sizedFor g s) = c'
    generalize emptyEdgeOk g s = e
    cases a <;> cases b <;> cases c <;> cases c' <;> cases e <;> simp
  · have ht' : tbssSpecial g s = false := by simpa using ht
    simp only [ht', Bool.false_eq_true, if_false, inSegmentFull, sizedFor_of_not_special ht']
    generalize inSegmentStrict g s = a
    generalize emptyEdgeOk g s = e
    cases a <;> cases e <;> simp

/-- the domain of the first partial theorem (`plainCase`) lies inside `clausesInert` -/
theorem plainCase_inert {g : Seg} {s : Sec} (h : plainCase g s = true) : clausesInert g s = true := by
  simp only [plainCase, Bool.and_eq_true, Bool.not_eq_true', Bool.or_eq_true] at h
  obtain ⟨ht, hdn⟩ := h
  have he : emptyEdgeOk g s = true := by
    unfold emptyEdgeOk
    rcases hdn with h | h <;> simp [h]
  simp [clausesInert, ht, he]

end PyElf.Proofs.C02
