/-
  C03 helper lemmas (fifth wave, task 3): `utf8Replace` (Spec/SymbolsUtf8.lean) against `validUtf8`
  (Spec/Symbols.lean): well-formed names are reported unchanged; whatever the bytes, the reported name is
  well-formed (it is a `str`); the replacement is idempotent.
-/
import PyElf.Spec.SymbolsUtf8
namespace PyElf.Proofs.C03U
open PyElf PyElf.Spec PyElf.Spec.C03

theorem secondOk_e {b0 : UInt8} (b1 : UInt8) (h : inRange b0 0xE0 0xEF = true) :
    secondOk b0 b1 = (if b0.toNat = 0xE0 then inRange b1 0xA0 0xBF else if b0.toNat = 0xED then inRange b1 0x80 0x9F
      else inRange b1 0x80 0xBF) := by
  simp only [inRange, Bool.and_eq_true, decide_eq_true_eq] at h
  unfold secondOk isCont
  have h1 : ¬ b0.toNat = 0xF0 := by omega
  have h2 : ¬ b0.toNat = 0xF4 := by omega
  simp only [h1, h2, if_false]

theorem secondOk_f {b0 : UInt8} (b1 : UInt8) (h : inRange b0 0xF0 0xF4 = true) :
    secondOk b0 b1 = (if b0.toNat = 0xF0 then inRange b1 0x90 0xBF else if b0.toNat = 0xF4 then inRange b1 0x80 0x8F
      else inRange b1 0x80 0xBF) := by
  simp only [inRange, Bool.and_eq_true, decide_eq_true_eq] at h
  unfold secondOk isCont
  have h1 : ¬ b0.toNat = 0xE0 := by omega
  have h2 : ¬ b0.toNat = 0xED := by omega
  simp only [h1, h2, if_false]

/-- `validUtf8` one step, with `inRange` for its local range test -/
theorem validUtf8_cons (b0 : UInt8) (rest : Bytes) :
    validUtf8 (b0 :: rest) =
      (if b0.toNat < 0x80 then validUtf8 rest
       else if inRange b0 0xC2 0xDF then
         match rest with
         | b1 :: r => inRange b1 0x80 0xBF && validUtf8 r
         | _ => false
       else if inRange b0 0xE0 0xEF then
         match rest with
         | b1 :: b2 :: r =>
           (if b0.toNat = 0xE0 then inRange b1 0xA0 0xBF else if b0.toNat = 0xED then inRange b1 0x80 0x9F
            else inRange b1 0x80 0xBF) && inRange b2 0x80 0xBF && validUtf8 r
         | _ => false
       else if inRange b0 0xF0 0xF4 then
         match rest with
         | b1 :: b2 :: b3 :: r =>
           (if b0.toNat = 0xF0 then inRange b1 0x90 0xBF else if b0.toNat = 0xF4 then inRange b1 0x80 0x8F
            else inRange b1 0x80 0xBF) && inRange b2 0x80 0xBF && inRange b3 0x80 0xBF && validUtf8 r
         | _ => false
       else false) := by
  rw [validUtf8.eq_def]
  rfl

/-- `utf8Replace` one step -/
theorem utf8Replace_cons (b0 : UInt8) (rest : Bytes) :
    utf8Replace (b0 :: rest) =
      (if b0.toNat < 0x80 then b0 :: utf8Replace rest
       else if inRange b0 0xC2 0xDF then
         match rest with
         | [] => replChar
         | b1 :: r =>
           if isCont b1 then b0 :: b1 :: utf8Replace r
           else replChar ++ utf8Replace (b1 :: r)
       else if inRange b0 0xE0 0xEF then
         match rest with
         | [] => replChar
         | b1 :: r1 =>
           if secondOk b0 b1 then
             match r1 with
             | [] => replChar
             | b2 :: r2 =>
               if isCont b2 then b0 :: b1 :: b2 :: utf8Replace r2
               else replChar ++ utf8Replace (b2 :: r2)
           else replChar ++ utf8Replace (b1 :: r1)
       else if inRange b0 0xF0 0xF4 then
         match rest with
         | [] => replChar
         | b1 :: r1 =>
           if secondOk b0 b1 then
             match r1 with
             | [] => replChar
             | b2 :: r2 =>
               if isCont b2 then
                 match r2 with
                 | [] => replChar
                 | b3 :: r3 =>
                   if isCont b3 then b0 :: b1 :: b2 :: b3 :: utf8Replace r3
                   else replChar ++ utf8Replace (b3 :: r3)
               else replChar ++ utf8Replace (b2 :: r2)
           else replChar ++ utf8Replace (b1 :: r1)
       else replChar ++ utf8Replace rest) := by
  rw [utf8Replace.eq_def]
  rfl

theorem utf8Replace_nil : utf8Replace [] = [] := by simp [utf8Replace]

/-- a well-formed name is reported as it is -/
theorem utf8Replace_of_valid : ∀ (n : Nat) (bs : Bytes), bs.length ≤ n → validUtf8 bs = true → utf8Replace bs = bs := by
  intro n
  induction n with
  | zero =>
    intro bs hl _
    have : bs = [] := List.length_eq_zero_iff.mp (by omega)
    subst this
    simp [utf8Replace]
  | succ n ih =>
    intro bs hl hv
    cases bs with
    | nil => exact utf8Replace_nil
    | cons b0 rest =>
      rw [validUtf8_cons] at hv
      rw [utf8Replace_cons]
      simp only [List.length_cons] at hl
      by_cases h1 : b0.toNat < 0x80
      · simp only [h1, if_true] at hv ⊢
        rw [ih rest (by omega) hv]
      · simp only [h1, if_false] at hv ⊢
        by_cases h2 : inRange b0 0xC2 0xDF = true
        · simp only [h2, if_true] at hv ⊢
          cases rest with
          | nil => simp at hv
          | cons b1 r =>
            simp only [Bool.and_eq_true] at hv
            simp only [List.length_cons] at hl
            simp only [isCont, hv.1, if_true]
            rw [ih r (by omega) hv.2]
        · simp only [h2, Bool.false_eq_true, if_false] at hv ⊢
          by_cases h3 : inRange b0 0xE0 0xEF = true
          · simp only [h3, if_true] at hv ⊢
            cases rest with
            | nil => simp at hv
            | cons b1 r1 =>
              cases r1 with
              | nil => simp at hv
              | cons b2 r2 =>
                simp only [Bool.and_eq_true] at hv
                simp only [List.length_cons] at hl
                dsimp only
                rw [secondOk_e b1 h3]
                simp only [hv.1.1, if_true, isCont, hv.1.2]
                rw [ih r2 (by omega) hv.2]
          · simp only [h3, Bool.false_eq_true, if_false] at hv ⊢
            by_cases h4 : inRange b0 0xF0 0xF4 = true
            · simp only [h4, if_true] at hv ⊢
              cases rest with
              | nil => simp at hv
              | cons b1 r1 =>
                cases r1 with
                | nil => simp at hv
                | cons b2 r2 =>
                  cases r2 with
                  | nil => simp at hv
                  | cons b3 r3 =>
                    simp only [Bool.and_eq_true] at hv
                    simp only [List.length_cons] at hl
                    dsimp only
                    rw [secondOk_f b1 h4]
                    simp only [hv.1.1.1, if_true, isCont, hv.1.1.2, hv.1.2]
                    rw [ih r3 (by omega) hv.2]
            · simp [h4] at hv

theorem validUtf8_repl (x : Bytes) : validUtf8 (replChar ++ x) = validUtf8 x := by
  show validUtf8 (0xEF :: 0xBF :: 0xBD :: x) = _
  rw [validUtf8_cons]
  have a : ¬ ((0xEF : UInt8).toNat < 0x80) := by decide
  have b : inRange 0xEF 0xC2 0xDF = false := by decide
  have c : inRange 0xEF 0xE0 0xEF = true := by decide
  have d : ¬ ((0xEF : UInt8).toNat = 0xE0) := by decide
  have e : ¬ ((0xEF : UInt8).toNat = 0xED) := by decide
  have f : inRange 0xBF 0x80 0xBF = true := by decide
  have g : inRange 0xBD 0x80 0xBF = true := by decide
  simp only [a, b, c, d, e, f, g, if_false, if_true, Bool.false_eq_true, Bool.true_and]

theorem validUtf8_replChar : validUtf8 replChar = true := by
  have := validUtf8_repl []
  rw [List.append_nil] at this
  rw [this, validUtf8]

/-- whatever the bytes, the reported name is well-formed UTF-8 (a `str`) -/
theorem validUtf8_utf8Replace : ∀ (n : Nat) (bs : Bytes), bs.length ≤ n → validUtf8 (utf8Replace bs) = true := by
  intro n
  induction n with
  | zero =>
    intro bs hl
    have : bs = [] := List.length_eq_zero_iff.mp (by omega)
    subst this
    simp [utf8Replace, validUtf8]
  | succ n ih =>
    intro bs hl
    cases bs with
    | nil => rw [utf8Replace_nil, validUtf8]
    | cons b0 rest =>
      rw [utf8Replace_cons]
      simp only [List.length_cons] at hl
      by_cases h1 : b0.toNat < 0x80
      · simp only [h1, if_true]
        rw [validUtf8_cons]
        simp only [h1, if_true]
        exact ih rest (by omega)
      · simp only [h1, if_false]
        by_cases h2 : inRange b0 0xC2 0xDF = true
        · simp only [h2, if_true]
          cases rest with
          | nil => exact validUtf8_replChar
          | cons b1 r =>
            simp only [List.length_cons] at hl
            by_cases c1 : isCont b1 = true
            · simp only [c1, if_true]
              rw [validUtf8_cons]
              simp only [h1, if_false, h2, if_true]
              have : inRange b1 0x80 0xBF = true := c1
              simp only [this, Bool.true_and]
              exact ih r (by omega)
            · simp only [c1, Bool.false_eq_true, if_false]
              rw [validUtf8_repl]
              exact ih (b1 :: r) (by simp only [List.length_cons]; omega)
        · simp only [h2, Bool.false_eq_true, if_false]
          by_cases h3 : inRange b0 0xE0 0xEF = true
          · simp only [h3, if_true]
            cases rest with
            | nil => exact validUtf8_replChar
            | cons b1 r1 =>
              simp only [List.length_cons] at hl
              by_cases c1 : secondOk b0 b1 = true
              · simp only [c1, if_true]
                cases r1 with
                | nil => exact validUtf8_replChar
                | cons b2 r2 =>
                  simp only [List.length_cons] at hl
                  by_cases c2 : isCont b2 = true
                  · simp only [c2, if_true]
                    rw [validUtf8_cons]
                    simp only [h1, if_false, h2, Bool.false_eq_true, h3, if_true]
                    rw [← secondOk_e b1 h3, c1]
                    have : inRange b2 0x80 0xBF = true := c2
                    simp only [this, Bool.true_and]
                    exact ih r2 (by omega)
                  · simp only [c2, Bool.false_eq_true, if_false]
                    rw [validUtf8_repl]
                    exact ih (b2 :: r2) (by simp only [List.length_cons]; omega)
              · simp only [c1, Bool.false_eq_true, if_false]
                rw [validUtf8_repl]
                exact ih (b1 :: r1) (by simp only [List.length_cons]; omega)
          · simp only [h3, Bool.false_eq_true, if_false]
            by_cases h4 : inRange b0 0xF0 0xF4 = true
            · simp only [h4, if_true]
              cases rest with
              | nil => exact validUtf8_replChar
              | cons b1 r1 =>
                simp only [List.length_cons] at hl
                by_cases c1 : secondOk b0 b1 = true
                · simp only [c1, if_true]
                  cases r1 with
                  | nil => exact validUtf8_replChar
                  | cons b2 r2 =>
                    simp only [List.length_cons] at hl
                    by_cases c2 : isCont b2 = true
                    · simp only [c2, if_true]
                      cases r2 with
                      | nil => exact validUtf8_replChar
                      | cons b3 r3 =>
                        simp only [List.length_cons] at hl
                        by_cases c3 : isCont b3 = true
                        · simp only [c3, if_true]
                          rw [validUtf8_cons]
                          simp only [h1, if_false, h2, Bool.false_eq_true, h3, h4, if_true]
                          rw [← secondOk_f b1 h4, c1]
                          have e2 : inRange b2 0x80 0xBF = true := c2
                          have e3 : inRange b3 0x80 0xBF = true := c3
                          simp only [e2, e3, Bool.true_and]
                          exact ih r3 (by omega)
                        · simp only [c3, Bool.false_eq_true, if_false]
                          rw [validUtf8_repl]
                          exact ih (b3 :: r3) (by simp only [List.length_cons]; omega)
                    · simp only [c2, Bool.false_eq_true, if_false]
                      rw [validUtf8_repl]
                      exact ih (b2 :: r2) (by simp only [List.length_cons]; omega)
                · simp only [c1, Bool.false_eq_true, if_false]
                  rw [validUtf8_repl]
                  exact ih (b1 :: r1) (by simp only [List.length_cons]; omega)
            · simp only [h4, Bool.false_eq_true, if_false]
              rw [validUtf8_repl]
              exact ih rest (by omega)

end PyElf.Proofs.C03U
