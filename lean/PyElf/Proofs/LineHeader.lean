/-
  Helper lemmas for C05: the header of a version 2–4 line-number program, as encoded by the
  Spec, is parsed by the model of `_parse_line_program_at_offset` into the `LineProgram`
  object the property prescribes (`lpOf`).
-/
import PyElf.Proofs.LineProgram
namespace PyElf.Proofs.Line
open PyElf PyElf.Spec PyElf.Spec.Line PyElf.Model.Line PyElf.Proofs

/-! ### arrays of bytes with a computed count -/

theorem parse_array_bytes {env : Env} {data : Bytes} {pos : Nat} {le : Bool} {c : Fields}
    {count : Expr} {payload rest : Bytes}
    (hcount : count.eval c .none = .ok (.int (payload.length : Nat)))
    (hd : data.drop pos = payload ++ rest) :
    Con.parse env data (.array count (.uint 1 le)) c pos
      = .ok (.list (payload.map fun b => .int b.toNat), pos + payload.length, c) := by
  rw [Con.parse, hcount]
  simp only [bind, Except.bind, Val.asInt, Int.toNat_natCast]
  rw [arrayLoop_bytes env data le c rest payload pos [] hd]
  simp

/-! ### RepeatUntilExcluding over file entries (the v2–4 file table) -/

theorem parse_file_terminator {env : Env} {data rest : Bytes} {pos : Nat} {c : Fields}
    (hd : data.drop pos = [0] ++ rest) :
    Con.parse env data fileEntryCon c pos = .ok (.record [("name", .bytes [])], pos + 1, c) := by
  have hd0 : data.drop pos = ([] : Bytes) ++ [0] ++ rest := by simpa using hd
  have c0 := fun cx => parse_cstring_ok (env := env) (ctx := cx) (s := []) (by simp) hd0
  simp [fileEntryCon, st, mkFields, f, emb, ifc, ctx, parse_struct, parseFields_nil, parseFields_named,
    parseFields_emb, parseEmb_ite, c0, Con.parseEmb, Expr.eval, Fields.set, Fields.getR, Fields.get?,
    Val.truthy, bind, Except.bind, pure, Except.pure]

def fileStop : Expr := .not (.objFld "name")

theorem fileStop_entry (e : FileEntry) (hw : e.WF = true) (c : Fields) :
    (do return (← fileStop.eval c e.obs).truthy : R Bool) = .ok false := by
  simp only [FileEntry.WF, Bool.and_eq_true, decide_eq_true_eq] at hw
  have hemp : e.name.isEmpty = false := by
    cases hn : e.name with
    | nil => exact absurd hn hw.1.1.1.1
    | cons _ _ => rfl
  simp [fileStop, FileEntry.obs, Expr.eval, Val.getField, Fields.getR, Fields.get?, Val.truthy, hemp,
    bind, Except.bind, pure, Except.pure]

theorem fileStop_term (c : Fields) :
    (do return (← fileStop.eval c (.record [("name", .bytes [])])).truthy : R Bool) = .ok true := by
  simp [fileStop, Expr.eval, Val.getField, Fields.getR, Fields.get?, Val.truthy, bind, Except.bind, pure, Except.pure]

theorem filesEnc_length_ge (es : List FileEntry) : es.length ≤ (es.flatMap FileEntry.enc).length := by
  induction es with
  | nil => simp
  | cons e es ih =>
    have := FileEntry.enc_length e
    simp only [List.flatMap_cons, List.length_append, List.length_cons]; omega

theorem repeatLoop_files (env : Env) (data rest : Bytes) (c : Fields) :
    ∀ (es : List FileEntry) (fuel pos : Nat) (acc : List Val),
      (∀ e ∈ es, e.WF = true) → es.length + 1 ≤ fuel →
      data.drop pos = es.flatMap FileEntry.enc ++ [0] ++ rest →
      repeatLoop (fun p cx => Con.parse env data fileEntryCon cx p)
          (fun v cx => do return (← fileStop.eval cx v).truthy) fuel pos c acc
        = .ok (.list (acc.reverse ++ es.map FileEntry.obs), pos + (es.flatMap FileEntry.enc).length + 1, c) := by
  intro es
  induction es with
  | nil =>
    intro fuel pos acc _ hf hd
    cases fuel with
    | zero => omega
    | succ fuel =>
      have hd0 : data.drop pos = [0] ++ rest := by simpa using hd
      rw [repeatLoop, parse_file_terminator hd0]
      simp only [fileStop_term]
      simp
  | cons e es ih =>
    intro fuel pos acc hw hf hd
    cases fuel with
    | zero => omega
    | succ fuel =>
      have hd0 : data.drop pos = e.enc ++ (es.flatMap FileEntry.enc ++ [0] ++ rest) := by
        simpa [List.append_assoc] using hd
      have hd1 : data.drop (pos + e.enc.length) = es.flatMap FileEntry.enc ++ [0] ++ rest :=
        drop_add_of_drop hd0
      rw [repeatLoop, parse_file_entry e (hw e (by simp)) hd0]
      simp only [fileStop_entry e (hw e (by simp))]
      rw [ih fuel _ _ (fun x hx => hw x (by simp [hx])) (by simp at hf; omega) hd1]
      simp; omega

theorem parse_repeat_files {env : Env} {data rest : Bytes} {pos : Nat} {c : Fields} {es : List FileEntry}
    (hw : ∀ e ∈ es, e.WF = true) (hd : data.drop pos = es.flatMap FileEntry.enc ++ [0] ++ rest) :
    Con.parse env data (.repeatUntilExcl fileStop fileEntryCon) c pos
      = .ok (.list (es.map FileEntry.obs), pos + (es.flatMap FileEntry.enc).length + 1, c) := by
  have hl := length_of_drop hd
  have hge := filesEnc_length_ge es
  rw [Con.parse]
  rw [repeatLoop_files env data rest c es _ pos [] hw
    (by simp only [List.length_append, List.length_cons, List.length_nil] at hl; omega) hd]
  simp

/-! ### the header struct of the Spec bundle, spelled out -/

def v5e : Expr := .ge (ctx "version") (lit 5)
def entryFormatCon : Con :=
  st [f "content_type" (enumOf .uleb "ENUM_DW_LNCT" false), f "form" (enumOf .uleb "ENUM_DW_FORM")]

def headerFields (le : Bool) (off : Con) : ConFields :=
  mkFields [
    f "unit_length" (.initialLength le), f "version" (.uint 2 le),
    f "address_size" (ifc v5e (.uint 1 le)), f "segment_selector_size" (ifc v5e (.uint 1 le)),
    f "header_length" off, f "minimum_instruction_length" (.uint 1 le),
    f "maximum_operations_per_instruction" (.ifThenElse (.ge (ctx "version") (lit 4)) (.uint 1 le) (.value (lit 1))),
    f "default_is_stmt" (.uint 1 le), f "line_base" (.sint 1 le), f "line_range" (.uint 1 le),
    f "opcode_base" (.uint 1 le),
    f "standard_opcode_lengths" (.array (.sub (ctx "opcode_base") (lit 1)) (.uint 1 le)),
    f "directory_entry_format" (ifc v5e (.prefixed (.uint 1 le) entryFormatCon)),
    f "directories" (ifc v5e (.prefixed .uleb (.formatted "directory_entry_format"))),
    f "file_name_entry_format" (ifc v5e (.prefixed (.uint 1 le) entryFormatCon)),
    f "file_names" (ifc v5e (.prefixed .uleb (.formatted "file_name_entry_format"))),
    f "include_directory" (ifc (.lt (ctx "version") (lit 5)) (.repeatUntilExcl (.eq .obj (.bytesLit [])) .cstring)),
    f "file_entry" (ifc (.lt (ctx "version") (lit 5)) (.repeatUntilExcl fileStop fileEntryCon))]

theorem S_header (cfg : DwarfCfg) :
    (Spec.dwarfStructs cfg).Dwarf_lineprog_header = .struct (headerFields cfg.le (.uint (cfg.fmt / 8) cfg.le)) := rfl

/-! ### single fields by value -/

section
variable {env : Env} {data rest : Bytes} {pos : Nat} {le : Bool} {c : Fields}

theorem parse_uint_val {n v : Nat} (hv : v < 256 ^ n) (hd : data.drop pos = encNat le n v ++ rest) :
    Con.parse env data (.uint n le) c pos = .ok (.int (v : Int), pos + n, c) := by
  rw [parse_uint_ok hd (encNat_length le n v), decNat_encNat_of_lt le hv]

theorem parse_u8_val {b : Nat} (hb : b < 256) (hd : data.drop pos = [byte b] ++ rest) :
    Con.parse env data (.uint 1 le) c pos = .ok (.int (b : Int), pos + 1, c) := by
  rw [parse_uint_ok (n := 1) hd rfl, decNat_singleton, byte_toNat hb]

theorem parse_s8_val {v : Int} (hlo : -128 ≤ v) (hhi : v < 128)
    (hd : data.drop pos = [byte (ofSigned 8 v)] ++ rest) :
    Con.parse env data (.sint 1 le) c pos = .ok (.int v, pos + 1, c) := by
  have hlt : ofSigned 8 v < 256 := ofSigned_lt 8 v
  rw [parse_sint_ok (n := 1) hd rfl, decNat_singleton, byte_toNat hlt]
  have := toSigned_ofSigned 8 v (by omega) (by simpa using hlo) (by simpa using hhi)
  simpa using congrArg (fun x => (Except.ok (Val.int x, pos + 1, c) : PRes)) this

end

/-! ### the whole v2–4 header -/

def legacyFields (h : Header) (is : List Instr) : Fields :=
  [("unit_length", .int (h.mid ++ h.tail ++ encodeProgram h.p is).length),
   ("version", .int h.version), ("address_size", .none), ("segment_selector_size", .none),
   ("header_length", .int h.tail.length),
   ("minimum_instruction_length", .int h.p.minInst),
   ("maximum_operations_per_instruction", .int h.p.maxOps),
   ("default_is_stmt", .int h.p.defaultIsStmt), ("line_base", .int h.p.lineBase),
   ("line_range", .int h.p.lineRange), ("opcode_base", .int h.p.opcodeBase),
   ("standard_opcode_lengths", .list (h.p.stdLens.map fun n => .int (Int.ofNat n))),
   ("directory_entry_format", .none), ("directories", .none), ("file_name_entry_format", .none),
   ("file_names", .none),
   ("include_directory", .list (h.includeDirs.map .bytes)),
   ("file_entry", .list (h.files.map FileEntry.obs))]

theorem observe_legacy (h : Header) (secs : StrSecs) (is : List Instr) (hv : h.version ≤ 4) :
    h.observe secs is = .record (legacyFields h is) := by
  have : ¬ h.version ≥ 5 := by omega
  simp [Header.observe, legacyFields, this]

theorem map_byte_toNat (l : List Nat) (hl : ∀ n ∈ l, n < 256) :
    (l.map byte).map (fun b => Val.int (b.toNat : Int)) = l.map fun n => Val.int (Int.ofNat n) := by
  induction l with
  | nil => rfl
  | cons a l ih =>
    simp only [List.map_cons, byte_toNat (hl a (by simp))]
    rw [ih (fun n hn => hl n (by simp [hn]))]
    rfl

theorem parse_initlen_val {env : Env} {data rest : Bytes} {pos : Nat} {le : Bool} {c : Fields} (fmt64 : Bool) (n : Nat)
    (hn : n < (if fmt64 then 2 ^ 64 else 0xFFFFFF00))
    (hd : data.drop pos = encInitLen le (initLenOf fmt64 n) ++ rest) :
    Con.parse env data (.initialLength le) c pos
      = .ok (.int (n : Int), pos + initLenSize fmt64, Fields.set c "is64" (.bool fmt64)) := by
  cases fmt64 with
  | false =>
    have hn' : n < 0xFFFFFF00 := by simpa using hn
    have hd' : data.drop pos = encNat le 4 n ++ rest := by simpa [encInitLen, initLenOf] using hd
    have hv : decNat le (encNat le 4 n) = n := decNat_encNat_of_lt le (by omega)
    have := parse_initlen_32 (env := env) (ctx := c) (le := le) hd' (encNat_length le 4 n) (by rw [hv]; exact hn')
    rw [hv] at this
    simpa [initLenSize] using this
  | true =>
    have hn' : n < 2 ^ 64 := by simpa using hn
    have hd' : data.drop pos = encNat le 4 0xffffffff ++ (encNat le 8 n ++ rest) := by
      simpa [encInitLen, initLenOf, List.append_assoc] using hd
    have hv : decNat le (encNat le 8 n) = n := decNat_encNat_of_lt le (by omega)
    have := parse_initlen_64 (env := env) (ctx := c) (le := le) hd' (encNat_length le 4 _)
      (encNat_length le 8 n) (decNat_encNat_of_lt le (by decide))
    rw [hv] at this
    simpa [initLenSize] using this

section
variable {env : Env} {S : DwarfStructs} {data : Bytes} {c : Fields} {pos : Nat}

theorem v5e_false {ver : Nat} (hver : Fields.getR c "version" = .ok (.int (ver : Int))) (h5 : ¬ ver ≥ 5) :
    v5e.eval c .none = .ok (.bool false) := by
  have : ¬ ((5 : Int) ≤ (ver : Int)) := by omega
  simp [v5e, Expr.eval, ctx, lit, hver, Expr.cmp, Val.asInt, bind, Except.bind, pure, Except.pure, this]

theorem phf_plain (k : Con) (hk : ∀ cond t e, k ≠ .ifThenElse cond t e) :
    parseHeaderField env S data k c pos = Con.parse env data k c pos := by
  unfold parseHeaderField
  split
  · exact absurd rfl (hk _ _ _)
  · rfl

theorem phf_v5_u8 {ver : Nat} {le : Bool} (hver : Fields.getR c "version" = .ok (.int (ver : Int))) (h5 : ¬ ver ≥ 5) :
    parseHeaderField env S data (ifc v5e (.uint 1 le)) c pos = .ok (.none, pos, c) := by
  simp [parseHeaderField, ifc, parse_ite, parse_value, v5e_false hver h5, Val.truthy, Expr.eval]

theorem phf_v5_fmt {ver : Nat} {le : Bool} (hver : Fields.getR c "version" = .ok (.int (ver : Int))) (h5 : ¬ ver ≥ 5) :
    parseHeaderField env S data (ifc v5e (.prefixed (.uint 1 le) entryFormatCon)) c pos = .ok (.none, pos, c) := by
  simp [parseHeaderField, ifc, parse_ite, parse_value, v5e_false hver h5, Val.truthy, Expr.eval, entryFormatCon, st]

theorem phf_v5_formatted {ver : Nat} {len : Con} {ff : String}
    (hver : Fields.getR c "version" = .ok (.int (ver : Int))) (h5 : ¬ ver ≥ 5) :
    parseHeaderField env S data (ifc v5e (.prefixed len (.formatted ff))) c pos = .ok (.none, pos, c) := by
  simp [parseHeaderField, ifc, parse_value, v5e_false hver h5, Val.truthy, Expr.eval, bind, Except.bind]

theorem phf_lt5 {ver : Nat} {t : Con} {r : PRes} (hver : Fields.getR c "version" = .ok (.int (ver : Int))) (h5 : ¬ ver ≥ 5)
    (ht : ∀ len ff, t ≠ .prefixed len (.formatted ff))
    (hr : Con.parse env data t c pos = r) :
    parseHeaderField env S data (ifc (.lt (ctx "version") (lit 5)) t) c pos = r := by
  have hlt : ((ver : Int) < 5) := by omega
  have hev : (Expr.lt (ctx "version") (lit 5)).eval c .none = .ok (.bool true) := by
    simp [Expr.eval, ctx, lit, hver, Expr.cmp, Val.asInt, bind, Except.bind, pure, Except.pure, hlt]
  unfold parseHeaderField ifc
  split
  · rename_i heq
    simp only [Con.ifThenElse.injEq] at heq
    exact absurd heq.2.1 (ht _ _)
  · rw [parse_ite, hev]; simp [Val.truthy, hr]

theorem phf_maxops {ver : Nat} {le : Bool} {r : PRes} (hver : Fields.getR c "version" = .ok (.int (ver : Int)))
    (hr : (if ver ≥ 4 then Con.parse env data (.uint 1 le) c pos else .ok (.int 1, pos, c)) = r) :
    parseHeaderField env S data (.ifThenElse (.ge (ctx "version") (lit 4)) (.uint 1 le) (.value (lit 1))) c pos = r := by
  have hev : (Expr.ge (ctx "version") (lit 4)).eval c .none = .ok (.bool (decide (ver ≥ 4))) := by
    have : ((4 : Int) ≤ (ver : Int)) ↔ 4 ≤ ver := by omega
    simp [Expr.eval, ctx, lit, hver, Expr.cmp, Val.asInt, bind, Except.bind, pure, Except.pure, this]
  simp only [parseHeaderField]
  rw [parse_ite, hev, ← hr]
  by_cases h4 : ver ≥ 4 <;> simp [h4, Val.truthy, parse_value, Expr.eval, lit]

end

theorem phf_step {env : Env} {S : DwarfStructs} {data : Bytes} {nm : String} {k : Con} {rest : ConFields}
    {obj c c' : Fields} {pos p : Nat} {v : Val}
    (h : parseHeaderField env S data k c pos = .ok (v, p, c')) :
    parseHeaderFields env S data (.cons (some nm) false k rest) obj c pos
      = parseHeaderFields env S data rest (Fields.set obj nm v) (Fields.set c' nm v) p := by
  simp [parseHeaderFields, h]

theorem parseHeader_eq {env : Env} {S : DwarfStructs} {data : Bytes} {fs : ConFields} (off : Nat)
    (hS : S.Dwarf_lineprog_header = .struct fs) :
    parseHeader env S data off
      = (parseHeaderFields env S data fs [] [] off).map (fun r => (r.1, r.2.1)) := by
  rw [parseHeader, hS]
  simp only [bind, Except.bind, pure, Except.pure]
  cases parseHeaderFields env S data fs [] [] off <;> simp [Except.map]

theorem parseHeader_legacy {env : Env} {cfg : DwarfCfg} (h : Header) (secs : StrSecs) (is : List Instr)
    (pre rest : Bytes) (hwf : unitWF h secs is = true) (hv : h.version ≤ 4) (hle : h.p.le = cfg.le)
    (hfmt : cfg.fmt = if h.fmt64 then 64 else 32) :
    parseHeader env (Spec.dwarfStructs cfg) (pre ++ encodeUnit h is ++ rest) pre.length
      = .ok (legacyFields h is, pre.length + headerSize h) := by
  have hv5 : ¬ h.version ≥ 5 := by omega
  simp only [unitWF, Header.WF, Bool.and_eq_true, decide_eq_true_eq, if_neg hv5] at hwf
  obtain ⟨⟨⟨⟨⟨⟨⟨⟨hv2, _⟩, hp⟩, _⟩, _⟩, htail⟩, hdirs, hfiles⟩, _⟩, hbody⟩ := hwf
  have hp' := hp
  simp only [Params.WF, Bool.and_eq_true, decide_eq_true_eq, Bool.or_eq_true] at hp'
  obtain ⟨⟨⟨⟨⟨⟨⟨⟨⟨⟨⟨⟨⟨hmin, hm1⟩, hm256⟩, hm4⟩, hdis⟩, hlb1⟩, hlb2⟩, hlr1⟩, hlr256⟩, hob1⟩, hob256⟩, hlen⟩, hlens⟩, _⟩ := hp'
  have hlens' : ∀ n ∈ h.p.stdLens, n < 256 := by simpa [List.all_eq_true] using hlens
  have hdirs' : ∀ s ∈ h.includeDirs, s ≠ [] ∧ ∀ b ∈ s, b ≠ 0 := by
    intro s hs
    have := (List.all_eq_true.1 hdirs) s hs
    simpa [cstrOk] using this
  have hfiles' : ∀ e ∈ h.files, e.WF = true := by simpa [List.all_eq_true] using hfiles
  have hosz : cfg.fmt / 8 = offSize h.fmt64 := by rw [hfmt]; cases h.fmt64 <;> rfl
  have htl : h.tail.length < 256 ^ offSize h.fmt64 := by
    cases h.fmt64 <;> simp [offSize] <;> omega
  -- the bytes, piece by piece
  obtain ⟨N, hN⟩ : ∃ N, N = (h.mid ++ h.tail ++ encodeProgram h.p is).length := ⟨_, rfl⟩
  obtain ⟨data, hdata⟩ : ∃ d, d = pre ++ encodeUnit h is ++ rest := ⟨_, rfl⟩
  obtain ⟨B4, hB4⟩ : ∃ b : Bytes, b = if h.version ≥ 4 then [byte h.p.maxOps] else [] := ⟨_, rfl⟩
  obtain ⟨D, hD⟩ : ∃ b : Bytes, b = (h.includeDirs.flatMap fun s => s ++ [0]) := ⟨_, rfl⟩
  obtain ⟨F, hF⟩ : ∃ b : Bytes, b = h.files.flatMap FileEntry.enc := ⟨_, rfl⟩
  have hsplit : data = pre ++ (encInitLen cfg.le (initLenOf h.fmt64 N) ++ (encNat cfg.le 2 h.version
      ++ (encNat cfg.le (offSize h.fmt64) h.tail.length ++ ([byte h.p.minInst] ++ (B4 ++ ([byte h.p.defaultIsStmt]
      ++ ([byte (ofSigned 8 h.p.lineBase)] ++ ([byte h.p.lineRange] ++ ([byte h.p.opcodeBase] ++ (h.p.stdLens.map byte
      ++ (D ++ [0] ++ (F ++ [0] ++ (encodeProgram h.p is ++ rest))))))))))))) := by
    have e1 : h.mid = encNat cfg.le 2 h.version ++ encNat cfg.le (offSize h.fmt64) h.tail.length := by
      simp [Header.mid, hv5, hle]
    have e2 : h.tail = [byte h.p.minInst] ++ B4 ++ [byte h.p.defaultIsStmt, byte (ofSigned 8 h.p.lineBase),
        byte h.p.lineRange, byte h.p.opcodeBase] ++ h.p.stdLens.map byte ++ (D ++ [0] ++ F ++ [0]) := by
      rw [Header.tail, if_neg hv5, hB4, hD, hF]
    rw [hdata, encodeUnit, ← hN, e1, hle]
    generalize h.tail.length = TL
    rw [e2]
    simp [List.append_assoc]
  obtain ⟨p1, hp1⟩ : ∃ x, x = pre.length + initLenSize h.fmt64 := ⟨_, rfl⟩
  obtain ⟨p2, hp2⟩ : ∃ x, x = p1 + 2 := ⟨_, rfl⟩
  obtain ⟨p3, hp3⟩ : ∃ x, x = p2 + cfg.fmt / 8 := ⟨_, rfl⟩
  obtain ⟨p4, hp4⟩ : ∃ x, x = p3 + 1 := ⟨_, rfl⟩
  obtain ⟨p5, hp5⟩ : ∃ x, x = p4 + B4.length := ⟨_, rfl⟩
  obtain ⟨p6, hp6⟩ : ∃ x, x = p5 + 1 := ⟨_, rfl⟩
  obtain ⟨p7, hp7⟩ : ∃ x, x = p6 + 1 := ⟨_, rfl⟩
  obtain ⟨p8, hp8⟩ : ∃ x, x = p7 + 1 := ⟨_, rfl⟩
  obtain ⟨p9, hp9⟩ : ∃ x, x = p8 + 1 := ⟨_, rfl⟩
  obtain ⟨p10, hp10⟩ : ∃ x, x = p9 + (h.p.stdLens.map byte).length := ⟨_, rfl⟩
  obtain ⟨p11, hp11⟩ : ∃ x, x = p10 + D.length + 1 := ⟨_, rfl⟩
  obtain ⟨p12, hp12⟩ : ∃ x, x = p11 + F.length + 1 := ⟨_, rfl⟩
  have d0 := congrArg (List.drop pre.length) hsplit
  rw [List.drop_left] at d0
  have d1 := drop_add_of_drop d0; rw [encInitLen_length, ← hp1] at d1
  have d2 := drop_add_of_drop d1; rw [encNat_length, ← hp2] at d2
  have d3 := drop_add_of_drop d2; rw [encNat_length, ← hosz, ← hp3] at d3
  have d4 := drop_add_of_drop d3; rw [List.length_singleton, ← hp4] at d4
  have d5 := drop_add_of_drop d4; rw [← hp5] at d5
  have d6 := drop_add_of_drop d5; rw [List.length_singleton, ← hp6] at d6
  have d7 := drop_add_of_drop d6; rw [List.length_singleton, ← hp7] at d7
  have d8 := drop_add_of_drop d7; rw [List.length_singleton, ← hp8] at d8
  have d9 := drop_add_of_drop d8; rw [List.length_singleton, ← hp9] at d9
  have d10 := drop_add_of_drop d9; rw [← hp10] at d10
  have d11 : data.drop p11 = F ++ [0] ++ (encodeProgram h.p is ++ rest) := by
    have := drop_add_of_drop d10
    rw [hp11]; simpa [Nat.add_assoc] using this
  -- field results
  have c0 := fun cx => parse_initlen_val (env := env) (c := cx) h.fmt64 N (by rw [hN]; exact hbody) d0
  have c1 := fun cx => parse_uint_val (env := env) (c := cx) (n := 2) (v := h.version) (by omega) d1
  have htl' : h.tail.length < 256 ^ (cfg.fmt / 8) := by rw [hosz]; exact htl
  have d2' := d2
  rw [← hosz] at d2'
  have c2 := fun cx => parse_uint_val (env := env) (c := cx) htl' d2'
  have c3 := fun cx => parse_u8_val (env := env) (le := cfg.le) (c := cx) hmin d3
  have c5 := fun cx => parse_u8_val (env := env) (le := cfg.le) (c := cx) hdis d5
  have c6 := fun cx => parse_s8_val (env := env) (le := cfg.le) (c := cx) hlb1 hlb2 d6
  have c7 := fun cx => parse_u8_val (env := env) (le := cfg.le) (c := cx) hlr256 d7
  have c8 := fun cx => parse_u8_val (env := env) (le := cfg.le) (c := cx) hob256 d8
  simp only [← hp1] at c0
  simp only [← hp2] at c1
  simp only [← hp3] at c2
  simp only [← hp4] at c3
  simp only [← hp6] at c5
  simp only [← hp7] at c6
  simp only [← hp8] at c7
  simp only [← hp9] at c8
  have c9 : ∀ cx, Fields.getR cx "opcode_base" = .ok (.int h.p.opcodeBase) →
      Con.parse env data (.array (.sub (ctx "opcode_base") (lit 1)) (.uint 1 cfg.le)) cx p9
        = .ok (.list (h.p.stdLens.map fun n => .int (Int.ofNat n)), p10, cx) := by
    intro cx hcx
    have hcount : (Expr.sub (ctx "opcode_base") (lit 1)).eval cx .none
        = .ok (.int ((h.p.stdLens.map byte).length : Nat)) := by
      have : (h.p.opcodeBase : Int) - 1 = ((h.p.opcodeBase - 1 : Nat) : Int) := by omega
      simp [Expr.eval, ctx, lit, hcx, Expr.arith, Val.asInt, bind, Except.bind, pure, Except.pure, hlen, this]
    rw [parse_array_bytes hcount d9, map_byte_toNat _ hlens', ← hp10]
  have c10 := fun cx => parse_repeat_cstrings (env := env) (ctx := cx) hdirs' (by rw [← hD]; exact d10)
  have c11 := fun cx => parse_repeat_files (env := env) (c := cx) hfiles' (by rw [← hF]; exact d11)
  rw [← hD, ← hp11] at c10
  rw [← hF, ← hp12] at c11
  have hend : p12 = pre.length + headerSize h := by
    have e1 : h.mid.length = 2 + offSize h.fmt64 := by simp [Header.mid, hv5, encNat_length]
    have e2 : h.tail.length = 1 + B4.length + 4 + h.p.stdLens.length + (D.length + 1 + F.length + 1) := by
      rw [Header.tail, if_neg hv5, ← hB4, ← hD, ← hF]
      simp; omega
    rw [headerSize, e1, e2]
    simp at hp10
    omega
  have hvi5 : ¬ ((5 : Int) ≤ (h.version : Int)) := by omega
  have hvl5 : ((h.version : Int) < 5) := by omega
  rw [parseHeader_eq _ (S_header cfg), ← hdata]
  simp only [headerFields, mkFields, f]
  have c4 : ∀ cx, (if h.version ≥ 4 then Con.parse env data (.uint 1 cfg.le) cx p4 else .ok (.int 1, p4, cx))
      = .ok (.int (h.p.maxOps : Int), p5, cx) := by
    intro cx
    by_cases h4 : h.version ≥ 4
    · have hB : B4 = [byte h.p.maxOps] := by rw [hB4, if_pos h4]
      rw [hB] at d4
      rw [if_pos h4, parse_u8_val hm256 d4, hp5, hB]; rfl
    · have hB : B4 = [] := by rw [hB4, if_neg h4]
      have hmo : h.p.maxOps = 1 := by
        rcases hm4 with h | h
        · omega
        · exact h
      rw [if_neg h4, hp5, hB, hmo]; rfl
  have look : ∀ {cx : Fields} {k : String} {v : Val}, Fields.get? cx k = some v → Fields.getR cx k = .ok v := by
    intro cx k v hk; simp [Fields.getR, hk]
  refine Eq.trans (congrArg (Except.map _) (phf_step (by simp only [parseHeaderField]; exact c0 _))) ?_
  refine Eq.trans (congrArg (Except.map _) (phf_step (by simp only [parseHeaderField]; exact c1 _))) ?_
  refine Eq.trans (congrArg (Except.map _) (phf_step (phf_v5_u8 (ver := h.version) (look (by simp [Fields.get?, Fields.set])) hv5))) ?_
  refine Eq.trans (congrArg (Except.map _) (phf_step (phf_v5_u8 (ver := h.version) (look (by simp [Fields.get?, Fields.set])) hv5))) ?_
  refine Eq.trans (congrArg (Except.map _) (phf_step (by simp only [parseHeaderField]; exact c2 _))) ?_
  refine Eq.trans (congrArg (Except.map _) (phf_step (by simp only [parseHeaderField]; exact c3 _))) ?_
  refine Eq.trans (congrArg (Except.map _) (phf_step (phf_maxops (ver := h.version) (look (by simp [Fields.get?, Fields.set])) (c4 _)))) ?_
  refine Eq.trans (congrArg (Except.map _) (phf_step (by simp only [parseHeaderField]; exact c5 _))) ?_
  refine Eq.trans (congrArg (Except.map _) (phf_step (by simp only [parseHeaderField]; exact c6 _))) ?_
  refine Eq.trans (congrArg (Except.map _) (phf_step (by simp only [parseHeaderField]; exact c7 _))) ?_
  refine Eq.trans (congrArg (Except.map _) (phf_step (by simp only [parseHeaderField]; exact c8 _))) ?_
  refine Eq.trans (congrArg (Except.map _) (phf_step (by simp only [parseHeaderField]; exact c9 _ (look (by simp [Fields.get?, Fields.set]))))) ?_
  refine Eq.trans (congrArg (Except.map _) (phf_step (phf_v5_fmt (ver := h.version) (look (by simp [Fields.get?, Fields.set])) hv5))) ?_
  refine Eq.trans (congrArg (Except.map _) (phf_step (phf_v5_formatted (ver := h.version) (look (by simp [Fields.get?, Fields.set])) hv5))) ?_
  refine Eq.trans (congrArg (Except.map _) (phf_step (phf_v5_fmt (ver := h.version) (look (by simp [Fields.get?, Fields.set])) hv5))) ?_
  refine Eq.trans (congrArg (Except.map _) (phf_step (phf_v5_formatted (ver := h.version) (look (by simp [Fields.get?, Fields.set])) hv5))) ?_
  refine Eq.trans (congrArg (Except.map _) (phf_step (phf_lt5 (ver := h.version) (look (by simp [Fields.get?, Fields.set])) hv5
    (by intro _ _ hc; cases hc) (c10 _)))) ?_
  refine Eq.trans (congrArg (Except.map _) (phf_step (phf_lt5 (ver := h.version) (look (by simp [Fields.get?, Fields.set])) hv5
    (by intro _ _ hc; cases hc) (c11 _)))) ?_
  simp [parseHeaderFields, Except.map, Fields.set, legacyFields, hend, hN]

/-- `_parse_line_program_at_offset` on a well-formed version 2–4 unit builds exactly the
    `LineProgram` object the property prescribes -/
theorem parseFresh_legacy {env : Env} {cfg : DwarfCfg} (msecs : Secs) (h : Header) (secs : StrSecs) (is : List Instr)
    (pre rest : Bytes) (hwf : unitWF h secs is = true) (hv : h.version ≤ 4) (hle : h.p.le = cfg.le)
    (hfmt : cfg.fmt = if h.fmt64 then 64 else 32) :
    parseLineProgramFresh env (Spec.dwarfStructs cfg) cfg.fmt msecs (pre ++ encodeUnit h is ++ rest) pre.length
      = .ok (lpOf h secs is pre.length) := by
  have hv5 : ¬ h.version ≥ 5 := by omega
  have hneg : ∀ n : Nat, ¬ ((n : Int) < 0) := fun n => by omega
  have hend : (encodeUnit h is).length
      = (h.mid ++ h.tail ++ encodeProgram h.p is).length + (if cfg.fmt = 32 then 4 else 12) := by
    rw [hfmt]
    cases hf : h.fmt64 <;> simp [encodeUnit, encInitLen_length, initLenSize, hf] <;> omega
  rw [parseLineProgramFresh, parseHeader_legacy h secs is pre rest hwf hv hle hfmt]
  simp only [bind, Except.bind, pure, Except.pure]
  have r1 : resolveStrings msecs (legacyFields h is) "directory_entry_format" "directories"
      = .ok (legacyFields h is) := by
    simp [resolveStrings, legacyFields, Fields.get?]
  have r2 : resolveStrings msecs (legacyFields h is) "file_name_entry_format" "file_names"
      = .ok (legacyFields h is) := by
    simp [resolveStrings, legacyFields, Fields.get?]
  rw [r1]; simp only []
  rw [r2]; simp only []
  have hvi5 : ¬ ((5 : Int) ≤ (h.version : Int)) := by omega
  -- `program_start_offset`: `header_length` bytes past the `header_length` field
  have hstart : pre.length + headerSize h
      = pre.length + (if cfg.fmt = 32 then 4 else 12) + 2 + cfg.fmt / 8 + h.tail.length := by
    have e1 : h.mid.length = 2 + offSize h.fmt64 := by simp [Header.mid, hv5, encNat_length]
    rw [headerSize, e1, hfmt]
    cases h.fmt64 <;> simp [initLenSize, offSize] <;> omega
  simp only [lpOf, observe_legacy h secs is hv, legacyFields, hend, if_neg hv5, hstart]
  generalize (h.mid ++ h.tail ++ encodeProgram h.p is).length = N
  simp [Fields.get?, Val.getNat, Val.getInt, Val.getField, Fields.getR, Val.asNat, Val.asInt, bind, Except.bind, hneg,
    hvi5]
  omega

end PyElf.Proofs.Line
