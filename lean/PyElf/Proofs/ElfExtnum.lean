/-
  C01 for the files WITHOUT a section-name string table that occur in practice (Spec/ElfNoNames.lean
  `extnumOnly`: one SHT_NULL section header carrying the extended-numbering escapes, `e_shstrndx` =
  SHN_UNDEF — Linux core dumps with ≥ 0xffff segments), proved directly from that shape — nothing is
  asked of the placement of the regions, of the machine class or of the null section's `sh_name`:
  construction (no name table is looked for), the decoded file header, both counts and every segment
  are exact; the one section is reported with every header field, its kind and the EMPTY name.
  (Before the repair of the finding `no-name-table` the reader took section 0 for the name table and
  reported the bytes at file offset `sh_offset[0] + sh_name[0]` as the name; `extnum_gen` then had to
  say so.  Such files are now inside `wfZ` too when the description is complete — disjoint regions,
  empty name —, where the general theorems of Proofs/ElfFile.lean apply.)
-/
import PyElf.Proofs.ElfFile
import PyElf.Spec.ElfNoNames
namespace PyElf.Proofs.C01
open PyElf PyElf.Spec PyElf.Spec.C01 PyElf.Model PyElf.Proofs

/-- `extnumOnly`, unpacked -/
structure XFacts (env : Env) (d : ElfDesc) (s0 : SecDesc) (h0 : Val) : Prop where
  cls : d.cls = 32 ∨ d.cls = 64
  cfg : d.cfgOk env = true
  one : d.sections = [s0]
  nostr : d.shstrndx = 0
  nox : d.xShstrndx = false
  esc : d.escapesOk = true
  shent : d.S.Elf_Shdr.sizeof.getD 0 ≤ d.shentsize
  phent : d.segments.length = 0 ∨ d.S.Elf_Phdr.sizeof.getD 0 ≤ d.phentsize
  shbound : d.shoff + d.shentsize < 2 ^ 63
  phbound : d.phoff + d.segments.length * d.phentsize < 2 ^ 63
  shpos : 0 < d.shoff
  phpos : d.segments.length = 0 ∨ 0 < d.phoff
  dec0 : d.S.Elf_Shdr.decodeRaw env [] s0.raw = .ok h0
  null0 : h0.getField "sh_type" = .ok (.str "SHT_NULL")
  flag0 : fieldNat h0 "sh_flags" &&& 0x800 = 0

theorem xfacts_of {env : Env} {d : ElfDesc} (h : extnumOnly env d = true) :
    ∃ s0 h0, XFacts env d s0 h0 := by
  unfold extnumOnly at h
  split at h
  · rename_i s0 hs
    cases hdec : d.S.Elf_Shdr.decodeRaw env [] s0.raw with
    | error e => simp [hdec] at h
    | ok h0 =>
      simp only [hdec, Bool.and_eq_true, Bool.or_eq_true, beq_iff_eq, decide_eq_true_eq, Bool.not_eq_true'] at h
      obtain ⟨⟨⟨⟨⟨⟨⟨⟨⟨⟨⟨h1, h2⟩, h3⟩, h4⟩, h5⟩, h6⟩, h7⟩, h8⟩, h9⟩, h10⟩, h11⟩, h12, h13⟩ := h
      obtain ⟨t, ht, hm⟩ := typeIn_unpack h12
      simp only [List.mem_cons, List.not_mem_nil, or_false] at hm
      subst hm
      exact ⟨s0, h0, ⟨h1, h2, hs, h3, h4, h5, h6, h7, h8, h9, h10, h11, hdec, ht, h13⟩⟩
  · cases h

section x
variable {env : Env} {d : ElfDesc} {bytes : Bytes} {hdr : Val} {s0 : SecDesc} {h0 : Val}

theorem x_len (X : XFacts env d s0 h0) : d.sections.length = 1 := by rw [X.one]; rfl

theorem x_get0 (X : XFacts env d s0 h0) (h : 0 < d.sections.length) : d.sections[0] = s0 := by
  simp [X.one]

theorem x_mem (X : XFacts env d s0 h0) : s0 ∈ d.sections := by rw [X.one]; simp

theorem x_secFacts (X : XFacts env d s0 h0) (hL : LayoutFacts d bytes) : SecFacts s0 h0 := by
  obtain ⟨b, hb, -⟩ := hL.shdr 0 (by rw [x_len X]; omega)
  rw [x_get0 X] at hb
  exact sec_facts hb X.dec0

theorem x_sectionOffset (X : XFacts env d s0 h0) (hf : HdrFacts d hdr) (i : Nat) :
    sectionOffset d.S hdr i = .ok (d.shoff + i * d.shentsize) := by
  unfold sectionOffset
  have hsz : sizeofR d.S.Elf_Shdr = .ok (16 + 6 * (d.cls / 8)) := by
    unfold sizeofR; rw [dS_shdr_sizeof]
  simp only [hf.shentsize, hf.shoff, hsz, bind, Except.bind]
  have hn : ¬ d.sections.length = 0 := by rw [x_len X]; omega
  have := X.shent
  rw [dS_shdr_sizeof] at this
  simp only [Option.getD_some] at this
  have hlt : ¬ d.shentsize < 16 + 6 * (d.cls / 8) := by omega
  simp [hn, hlt, pure, Except.pure]

theorem x_getSectionHeader0 (X : XFacts env d s0 h0) (hL : LayoutFacts d bytes) (hf : HdrFacts d hdr) :
    getSectionHeader env d.S bytes hdr 0 = .ok (some h0) := by
  obtain ⟨b, hb, hr⟩ := hL.shdr 0 (by rw [x_len X]; omega)
  rw [x_get0 X] at hb
  have hlen : b.length = 16 + 6 * (d.cls / 8) := by
    have := encodeRaw_length _ (dS_shdr_fixed d) _ _ hb
    rw [dS_shdr_sizeof] at this
    simp only [Option.some.injEq] at this
    exact this.symm
  simp only [Nat.zero_mul, Nat.add_zero] at hr
  have hle : d.shoff + b.length ≤ bytes.length := by
    rcases readN_le_length hr with e | e
    · rw [e] at hlen; simp at hlen; omega
    · exact e
  have hpos : d.shoff < 2 ^ 63 := by have := X.shbound; omega
  unfold getSectionHeader
  rw [x_sectionOffset X hf]
  simp only [Nat.zero_mul, Nat.add_zero, bind, Except.bind]
  have hgt : ¬ d.shoff > bytes.length := by omega
  simp only [hgt, if_false]
  rw [structParseAt_layout env _ (dS_shdr_fixed d) _ b hb bytes _ hr hpos, X.dec0]
  rfl

theorem x_sectionInit0 (X : XFacts env d s0 h0) (hL : LayoutFacts d bytes) :
    sectionInit env d.S bytes h0 = .ok () :=
  sectionInit_ok X.cls hL (x_mem X) (x_secFacts X hL) (Or.inl X.flag0)

theorem x_getShstrndx (X : XFacts env d s0 h0) (hf : HdrFacts d hdr) :
    getShstrndx env d.S bytes hdr = .ok 0 := by
  unfold getShstrndx
  rw [hf.shstrndx, X.nox, X.nostr]
  simp [bind, Except.bind, pure, Except.pure]

/-- `ELFFile(stream)`: the file has no name table (SHN_UNDEF); section 0 is not looked at -/
theorem x_openElf (X : XFacts env d s0 h0) (hL : LayoutFacts d bytes)
    (hd : d.S.Elf_Ehdr.decodeRaw env [] d.ehdrRaw = .ok hdr) :
    openElf env specSF specMC bytes
      = .ok { data := bytes, cls := d.cls, le := d.le, S := d.S, header := hdr, shstr := none } := by
  obtain ⟨eh, he, hr⟩ := hL.ehdr
  have hf := hdr_facts he hd
  obtain ⟨p, hp⟩ := parse_ehdr_ok hL hd
  unfold openElf
  rw [identify_ok X.cls he hr]
  simp only [bind, Except.bind, specSF, hp, cfgOfHeader_ok hd X.cfg hf]
  have : elfStructs d.cfg = d.S := rfl
  rw [this, x_getShstrndx X hf]
  rfl

theorem x_numSections (X : XFacts env d s0 h0) (hL : LayoutFacts d bytes) (hf : HdrFacts d hdr) :
    numSections env d.S bytes hdr = .ok 1 := by
  unfold numSections
  rw [hf.shoff, hf.shnum]
  have hn : d.sections.length = 1 := x_len X
  have hpos := X.shpos
  have hne : ¬ d.shoff = 0 := by omega
  simp only [bind, Except.bind, hn, show ¬ (1 = 0) by omega, if_false, hne]
  by_cases hx : (d.xShnum || decide (d.sections.length ≥ 0xff00)) = true
  · obtain ⟨s, hs, hsize⟩ := (esc_facts X.esc).shnum hx
    have hs0 : s = s0 := by
      rw [X.one] at hs; simpa using hs.symm
    subst hs0
    have hx' : (d.xShnum || decide (1 ≥ 0xff00)) = true := by rw [← hn]; exact hx
    simp only [hx', if_true]
    rw [x_getSectionHeader0 X hL hf]
    have h1 : (do let x ← h0.getField "sh_size"; x.asNat) = h0.getNat "sh_size" := rfl
    simp only [bind, Except.bind] at h1
    simp only [subscript, h1]
    have hsf := x_secFacts X hL
    rw [hsf.nat "sh_size" (by simp [shdrNatKeys]), hsf.raw "sh_size" (by simp [shdrNatKeys]) (by decide), hsize, hn]
  · have hx' : ¬ (d.xShnum || decide (1 ≥ 0xff00)) = true := by rw [← hn]; exact hx
    simp only [hx', Bool.false_eq_true, if_false]
    rfl

/-- the one section is nameless: `_get_section_name` answers `''` without looking at `sh_name` -/
theorem x_getSectionName0 (X : XFacts env d s0 h0) (hf : HdrFacts d hdr) :
    getSectionName env d.S bytes hdr none (some h0) = .ok [] := by
  unfold getSectionName
  simp only [x_getShstrndx X hf, bind, Except.bind]
  rfl

theorem x_getSection0 (X : XFacts env d s0 h0) (hL : LayoutFacts d bytes) (hf : HdrFacts d hdr) :
    getSection env d.S bytes hdr none 0 = .ok ("NullSection", [], h0) := by
  have hsf := x_secFacts X hL
  have hmk : makeSection env d.S bytes hdr none 4 (some h0) = .ok ("NullSection", []) := by
    rw [makeSection_succ, x_getSectionName0 X hf]
    simp only [bind, Except.bind, X.null0, hsf.nat "sh_link" (by simp [shdrNatKeys])]
    rw [kindR_simple (by simp) (x_sectionInit0 X hL)]
    rfl
  unfold getSection
  simp only [x_getSectionHeader0 X hL hf, hmk, bind, Except.bind]
  rfl

theorem x_numSegments (X : XFacts env d s0 h0) (hL : LayoutFacts d bytes) (hf : HdrFacts d hdr) :
    numSegments env d.S bytes hdr none = .ok d.segments.length := by
  by_cases hx : (d.xPhnum || decide (d.segments.length ≥ 0xffff)) = true
  · unfold numSegments
    rw [hf.phnum]
    obtain ⟨s, hs, hinfo⟩ := (esc_facts X.esc).phnum hx
    have hs0 : s = s0 := by
      rw [X.one] at hs; simpa using hs.symm
    subst hs0
    have hsf := x_secFacts X hL
    simp only [hx, if_true, bind, Except.bind, x_getSection0 X hL hf]
    rw [hsf.nat "sh_info" (by simp [shdrNatKeys]), hsf.raw "sh_info" (by simp [shdrNatKeys]) (by decide), hinfo]
    simp
  · exact numSegments_noesc hf hx

theorem x_getSegmentHeader (X : XFacts env d s0 h0) (hL : LayoutFacts d bytes) (hf : HdrFacts d hdr)
    {i : Nat} (hi : i < d.segments.length) {ph : Val}
    (hd : d.S.Elf_Phdr.decodeRaw env [] (.record d.segments[i]) = .ok ph) :
    getSegmentHeader env d.S bytes hdr i = .ok ph := by
  obtain ⟨b, hb, hr⟩ := hL.phdr i hi
  have hm : d.segments.length ≠ 0 := by omega
  have hsz := encodeRaw_length _ (dS_phdr_fixed d) _ _ hb
  have hle : b.length ≤ d.phentsize := by
    rcases X.phent with h | h
    · exact absurd h hm
    · rw [hsz] at h; simpa using h
  have hpos : d.phoff + i * d.phentsize < 2 ^ 63 := by
    have := X.phbound
    have : i * d.phentsize ≤ d.segments.length * d.phentsize := Nat.mul_le_mul_right _ (by omega)
    omega
  unfold getSegmentHeader segmentOffset sizeofR
  rw [hf.phentsize, hf.phoff, hsz]
  have hlt : ¬ d.phentsize < b.length := by omega
  simp only [bind, Except.bind, hlt, if_false, hm, pure, Except.pure]
  rw [structParseAt_layout env _ (dS_phdr_fixed d) _ b hb bytes _ hr hpos, hd]
  rfl

/-- a PT_DYNAMIC segment's search for its section finds nothing among the one null section -/
theorem x_find (X : XFacts env d s0 h0) (hL : LayoutFacts d bytes) (hf : HdrFacts d hdr) (poff : Nat) :
    makeSegment.find env d.S bytes hdr none poff [0] = .ok () := by
  have hsf := x_secFacts X hL
  rw [makeSegment.find]
  simp only [x_getSection0 X hL hf, bind, Except.bind]
  rw [hsf.nat "sh_offset" (by simp [shdrNatKeys])]
  have : (("NullSection" : String) == "DynamicSection") = false := by decide
  simp only [this, Bool.false_and, Bool.false_eq_true, if_false]
  rfl

theorem x_makeSegment (X : XFacts env d s0 h0) (hL : LayoutFacts d bytes) (hf : HdrFacts d hdr) {ph : Val}
    (hsf : SegFacts ph) {ty : Val} (hty : ph.getField "p_type" = .ok ty) :
    makeSegment env d.S bytes hdr none ph = .ok (segKindOf ty) := by
  obtain ⟨z, hz⟩ := hsf.off
  obtain ⟨n1, hn1⟩ := dyn_sizeof d.cfg
  obtain ⟨n2, hn2⟩ := sym_sizeof d.cfg
  have hn1' : d.S.Elf_Dyn.sizeof = some n1 := hn1
  have hn2' : d.S.Elf_Sym.sizeof = some n2 := hn2
  unfold makeSegment
  rw [← segKind_eq]
  simp only [hty, bind, Except.bind]
  by_cases h1 : isStr ty "PT_INTERP" = true
  · simp [h1, pure, Except.pure]
  · by_cases h2 : isStr ty "PT_DYNAMIC" = true
    · simp [h1, h2, x_numSections X hL hf, hz, x_find X hL hf, sizeofR, hn1', hn2', pure, Except.pure]
    · by_cases h3 : isStr ty "PT_NOTE" = true
      · simp [h1, h2, h3, pure, Except.pure]
      · simp [h1, h2, h3, pure, Except.pure]

end x

/-- everything at once, over `specSF` / `specMC`.
    STATEMENT CHANGED with the repair of `no-name-table`: the name reported for the null section is the
    empty one (it was `nameAt bytes sh_offset[0] sh_name[0]`, bytes of the file read through section 0
    taken for the name table; `nameAt` and the existential `nm` are gone). -/
theorem extnum_gen {env : Env} {d : ElfDesc} {bytes : Bytes} {obs : ElfObs}
    (hx : extnumOnly env d = true) (hl : Layout d bytes) (ho : d.observe env = .ok obs) :
    ∃ f s0, openElf env specSF specMC bytes = .ok f ∧
      f.data = bytes ∧ f.cls = d.cls ∧ f.le = d.le ∧ f.S = d.S ∧ f.header = obs.header ∧
      d.sections = [s0] ∧
      numSections env f.S bytes f.header = .ok 1 ∧
      numSegments env f.S bytes f.header f.shstr = .ok d.segments.length ∧
      iterSegments env f.S bytes f.header f.shstr = .ok obs.segments ∧
      iterSections env f.S bytes f.header f.shstr = .ok (obs.sections.map fun s => (s.1, [], s.2.2)) ∧
      obs.sections.map (·.1) = ["NullSection"] := by
  obtain ⟨s0, h0, X⟩ := xfacts_of hx
  have hL := layout_facts hl
  obtain ⟨hd, hsecs, hsegs⟩ := observe_inv ho
  obtain ⟨eh, he, -⟩ := hL.ehdr
  have hF := hdr_facts he hd
  -- the observation of the one section
  have hobs : obs.sections = [("NullSection", s0.name, h0)] := by
    rw [X.one] at hsecs
    simp only [List.mapM_cons, List.mapM_nil, obsSec, X.dec0, X.null0, bind, Except.bind, pure, Except.pure,
      Except.ok.injEq] at hsecs
    rw [← hsecs]
    rfl
  refine ⟨_, s0, x_openElf X hL hd, rfl, rfl, rfl, rfl, rfl, X.one, x_numSections X hL hF,
    x_numSegments X hL hF, ?_, ?_, ?_⟩
  · -- segments
    obtain ⟨hlen, hall⟩ := mapM_ok_inv _ _ _ hsegs
    unfold iterSegments
    rw [x_numSegments X hL hF]
    simp only [bind, Except.bind]
    apply range_mapM_ok _ _ _ hlen
    intro i hi
    have hi' : i < d.segments.length := by omega
    obtain ⟨ph, ty, hdec, hty, hr⟩ := obsSeg_eq (hall i hi' hi)
    obtain ⟨b, hb, -⟩ := hL.phdr i hi'
    unfold getSegment
    rw [x_getSegmentHeader X hL hF hi' hdec]
    simp only [bind, Except.bind]
    rw [x_makeSegment X hL hF (seg_facts hb hdec) hty, hr]
    rfl
  · -- sections
    unfold iterSections
    rw [x_numSections X hL hF]
    simp only [bind, Except.bind]
    have : List.range 1 = [0] := rfl
    rw [this, hobs]
    simp only [List.mapM_cons, List.mapM_nil, x_getSection0 X hL hF, bind, Except.bind, pure, Except.pure,
      List.map_cons, List.map_nil]
  · rw [hobs]; rfl

end PyElf.Proofs.C01
