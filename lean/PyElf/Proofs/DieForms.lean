/-
  C04 helper lemmas, part 1: the operand parsers (`clsCon`) and their round trips.
-/
import PyElf.Core.Construct
import PyElf.Spec.DieTree
import PyElf.Spec.DwarfStructs
import PyElf.Proofs.Primitives
namespace PyElf.Proofs.C04
open PyElf PyElf.Spec PyElf.Spec.C04 PyElf.Proofs

/-- the construct that reads an operand of a given encoding class -/
def clsCon (le : Bool) : Cls → Con
  | .fixed n => .uint n le
  | .u24 => .u24 le
  | .uleb => .uleb
  | .sleb => .sleb
  | .cstr => .cstring
  | .blockN n => .prefixed (.uint n le) (.uint 1 le)
  | .blockU => .prefixed .uleb (.uint 1 le)
  | .data16 => .array (.lit 16) (.uint 1 le)
  | .present => .bytesN (.lit 0)
  | .implicit => Con.absent
  | .indirect => .uleb

theorem ref_addr_lookup (c : DwarfCfg) :
    (Spec.dwarfStructs c).form "DW_FORM_ref_addr" = (formClass c 0x10).map (clsCon c.le) := by
  have h : (Spec.dwarfStructs c).form "DW_FORM_ref_addr"
      = some (if c.ver = 2 then .uint c.asz c.le else .uint (c.fmt / 8) c.le) := rfl
  rw [h]
  by_cases hv : c.ver = 2 <;> simp [formClass, clsCon, hv]

/-- the Spec's form table, by form code: for every configuration the parser registered under
    the form's name reads the operand encoding DWARF prescribes for the form's code -/
theorem form_lookup (c : DwarfCfg) (k : Nat) (hk : k ∈ stdFormCodes) :
    (Spec.dwarfStructs c).form ((formName k).getD "") = (formClass c k).map (clsCon c.le) := by
  simp only [stdFormCodes, List.mem_cons, List.not_mem_nil, or_false] at hk
  rcases hk with rfl | rfl | rfl | rfl | rfl | rfl | rfl | rfl | rfl | rfl | rfl | rfl | rfl | rfl | rfl | rfl | rfl | rfl |
    rfl | rfl | rfl | rfl | rfl | rfl | rfl | rfl | rfl | rfl | rfl | rfl | rfl | rfl | rfl | rfl | rfl | rfl | rfl | rfl |
    rfl | rfl | rfl | rfl | rfl | rfl | rfl
  all_goals first | rfl | exact ref_addr_lookup c

/-- round trip of one operand: every encoding class, every in-range operand, any byte order,
    whatever follows -/
theorem operand_roundtrip {env : Env} {data : Bytes} {pos : Nat} {le : Bool} {ctx : Fields} {rest : Bytes}
    (cl : Cls) (op : Operand) (hwf : wfOperand cl op = true)
    (hd : data.drop pos = encOperand le cl op ++ rest) :
    Con.parse env data (clsCon le cl) ctx pos = .ok (rawVal op, pos + (encOperand le cl op).length, ctx) := by
  cases cl <;> cases op <;> simp only [wfOperand, Bool.false_eq_true, Bool.and_eq_true, decide_eq_true_eq,
    List.all_eq_true] at hwf
  case fixed.nat n v =>
    simp only [encOperand, clsCon, rawVal, encNat_length] at hd ⊢
    rw [parse_uint_ok hd (encNat_length le n v), decNat_encNat_of_lt le hwf]
  case u24.nat v =>
    simp only [encOperand, clsCon, rawVal, encNat_length] at hd ⊢
    exact parse_u24_ok hwf hd
  case uleb.uleb l v =>
    simp only [encOperand, clsCon, rawVal, encUlebN_length] at hd ⊢
    have := parse_uleb_ok (env := env) (ctx := ctx) hd (encUlebN_valid l v hwf.1)
    rwa [ulebVal_enc_of_lt hwf.2, encUlebN_length] at this
  case sleb.sleb l v =>
    simp only [encOperand, clsCon, rawVal, encSlebN_length] at hd ⊢
    have := parse_sleb_ok (env := env) (ctx := ctx) hd (encSlebN_valid l v hwf.1.1)
    rwa [slebVal_enc l v hwf.1.1 hwf.1.2 hwf.2, encSlebN_length] at this
  case cstr.str s =>
    simp only [encOperand, clsCon, rawVal] at hd ⊢
    have hs : ∀ b ∈ s, b ≠ 0 := by
      intro b hb; have := hwf b hb; simpa using this
    have := parse_cstring_ok (env := env) (ctx := ctx) hs (by simpa [List.append_assoc] using hd)
    simpa [Nat.add_assoc] using this
  case blockN.block n p =>
    simp only [encOperand, clsCon, rawVal, byteList] at hd ⊢
    have := parse_block_fixed (env := env) (ctx := ctx) (le := le) hwf (by simpa [List.append_assoc] using hd)
    simpa [encNat_length, Nat.add_assoc] using this
  case blockU.blockU l p =>
    simp only [encOperand, clsCon, rawVal, byteList] at hd ⊢
    have := parse_block_uleb (env := env) (ctx := ctx) (le := le) hwf.1 hwf.2 (by simpa [List.append_assoc] using hd)
    simpa [encUlebN_length, Nat.add_assoc] using this
  case data16.bytes16 b =>
    simp only [encOperand, clsCon, rawVal, byteList] at hd ⊢
    rw [Con.parse]
    have h16 : (Expr.lit 16).eval ctx .none = .ok (.int 16) := rfl
    simp only [h16, bind, Except.bind, Val.asInt]
    have := arrayLoop_bytes env data le ctx rest b pos [] hd
    rw [hwf] at this
    simpa [hwf] using this
  case present.present =>
    simp only [encOperand, clsCon, rawVal, List.length_nil, Nat.add_zero]
    rw [Con.parse]
    simp [Expr.eval, Val.asNat, Val.asInt, bind, Except.bind, readExact, readN, pure, Except.pure]

end PyElf.Proofs.C04
