/-
  C11 helper lemmas, generic layer: everything `get_dwarf_info` does after the per-section loop
  depends on the loop only through WHAT IT DELIVERED.  `Reads P f secs relocate content` says the
  loop delivers `content` (per keyword: bytes, length, address); `Holds` (no relocation applies,
  Proofs/Container.lean) and `HoldsR` (relocations applied, Proofs/ContainerReloc.lean) both imply
  it, and the link theorems (supplementary file, debug link) are proved once, from `Reads`.
-/
import PyElf.Proofs.Container
import PyElf.Proofs.ContainerFile
namespace PyElf.Proofs.C11
open PyElf PyElf.Spec PyElf.Model PyElf.Model.C11 PyElf.Spec.C11 PyElf.Proofs

/-- the view the property prescribes for one keyword -/
def kwView (content : Content) (kw : String) : Option SecView :=
  (content kw).map fun pa => ⟨pa.1, pa.1.length, pa.2⟩

/-- the per-section loop of `get_dwarf_info` delivers `content`: for every entry of the reader's
    table the loop body succeeds, with nothing where the content has nothing and otherwise a
    descriptor whose bytes, size and address are the content's -/
def Reads (P : Params) (f : ElfFile) (secs : List Sec) (relocate : Bool) (content : Content) : Prop :=
  ∀ kn ∈ P.names, ∃ od, readOne P f secs relocate (hasSection secs nZdebugInfo) kn = .ok (kn.1, od) ∧
    od.map Descr.view = kwView content kn.1

theorem readAll_reads (P : Params) (f : ElfFile) (secs : List Sec) (relocate : Bool) (content : Content) :
    ∀ (names : List (String × Bytes × Bool)),
      (∀ kn ∈ names, ∃ od, readOne P f secs relocate (hasSection secs nZdebugInfo) kn = .ok (kn.1, od) ∧
        od.map Descr.view = kwView content kn.1) →
      ∃ ds, readAll P f secs relocate (hasSection secs nZdebugInfo) names = .ok ds ∧
        secViews ds = contentView names content := by
  intro names
  induction names with
  | nil => intro _; exact ⟨[], rfl, rfl⟩
  | cons kn rest ih =>
    intro h
    obtain ⟨ds, hds, hv⟩ := ih (fun k hk => h k (List.mem_cons_of_mem _ hk))
    obtain ⟨od, hod, hview⟩ := h kn List.mem_cons_self
    refine ⟨(kn.1, od) :: ds, ?_, ?_⟩
    · simp [readAll, hod, hds, bind, Except.bind, pure, Except.pure]
    · simp only [secViews, contentView, List.map_cons] at hv ⊢
      rw [hv, hview]
      rfl

/-- `Holds` (content stored, no relocation section applies) is a special case -/
theorem Holds.reads {P : Params} {deflate : Nat → Bytes → Bytes} {f : ElfFile} (hf : FileOk P deflate f)
    {secs : List Sec} {relocate : Bool} {content : Content} (hh : Holds P deflate f secs relocate content) :
    Reads P f secs relocate content := by
  intro kn hk
  have := hh kn hk
  cases hc : content kn.1 with
  | none =>
    simp only [hc] at this
    exact ⟨none, readOne_absent P f secs relocate _ kn this, by simp [kwView, hc]⟩
  | some pa =>
    obtain ⟨payload, addr⟩ := pa
    simp only [hc] at this
    obtain ⟨sec, e, off, hget, hnr, hst, hleg⟩ := this
    exact ⟨some (goodDescr sec payload addr off),
      readOne_stored hf secs relocate _ kn sec hget hnr e payload addr off hst hleg,
      by simp [kwView, hc, goodDescr, Descr.view]⟩

/-- the file's own view, links not involved: `follow_links=False`, or nothing names a supplementary file -/
theorem ownInfo_reads {P : Params} {f : ElfFile}
    (again : Option Loader → Bytes → Bool → Bool → V DwarfInfo) (loader : Option Loader)
    (secs : List Sec) (relocate followLinks : Bool) (content : Content) (m : Val)
    (hm : f.header.getField "e_machine" = .ok m)
    (hh : Reads P f secs relocate content)
    (hsup : followLinks = false ∨
      ((∃ DS, P.dwarfStructsFor ⟨f.le, 32, f.cls / 8, 2⟩ = some DS) ∧
        content "debug_sup_sec" = none ∧ content "gnu_debugaltlink_sec" = none)) :
    (ownInfo P again loader f secs relocate followLinks).map DwarfInfo.view
      = .ok (.mk f.le (f.cls / 8) (P.machineArchOf m) (contentView P.names content) none) := by
  obtain ⟨ds, hds, hv⟩ := readAll_reads P f secs relocate content P.names hh
  rcases hsup with h | ⟨⟨DS, hDS⟩, h1, h2⟩
  · subst h
    simp [ownInfo, hds, hm, liftR, bind, Except.bind, pure, Except.pure, Except.map, DwarfInfo.view]
    exact hv
  · have e1 := descrOf_none_of_content ds P.names content _ hv h1
    have e2 := descrOf_none_of_content ds P.names content _ hv h2
    cases followLinks <;>
      simp [ownInfo, supplementary, hds, hm, hDS, parseDebugSupInfo_none P.env DS ds e1 e2, liftR, bind, Except.bind,
            pure, Except.pure, Except.map, DwarfInfo.view] <;>
      exact hv

/-- a file opened WITHOUT a stream loader: whatever its content says about a supplementary file,
    none is attached -/
theorem ownInfo_no_loader_reads {P : Params} {f : ElfFile}
    (hs : SupOk P f) (again : Option Loader → Bytes → Bool → Bool → V DwarfInfo)
    (secs : List Sec) (relocate followLinks : Bool) (content : Content) (m : Val)
    (hm : f.header.getField "e_machine" = .ok m)
    (hh : Reads P f secs relocate content) (p : Option Bytes) (hsl : SupLink f.le content p) :
    (ownInfo P again none f secs relocate followLinks).map DwarfInfo.view
      = .ok (.mk f.le (f.cls / 8) (P.machineArchOf m) (contentView P.names content) none) := by
  obtain ⟨ds, hds, hv⟩ := readAll_reads P f secs relocate content P.names hh
  obtain ⟨DS, hDS, hA, hS⟩ := hs.hDS
  have hp := parseDebugSupInfo_of_link P.env DS f.le hA hS ds P.names content p hv hs.hk1 hs.hk2 hsl
  cases followLinks <;>
    simp [ownInfo, supplementary_no_loader P again f ds DS p hDS hp, hds, hm, liftR, bind, Except.bind,
          pure, Except.pure, Except.map, DwarfInfo.view] <;>
    exact hv

/-- a file whose content names a supplementary file, opened with a loader that has it, links on:
    the view is the file's own content with the supplementary file's view attached -/
theorem ownInfo_with_sup_reads {P : Params} {f : ElfFile}
    (hs : SupOk P f) (again : Option Loader → Bytes → Bool → Bool → V DwarfInfo) (ld : Loader)
    (secs : List Sec) (relocate : Bool) (content : Content) (m : Val)
    (hm : f.header.getField "e_machine" = .ok m)
    (hh : Reads P f secs relocate content) (path supData : Bytes) (hsl : SupLink f.le content (some path))
    (hld : ld path = some supData) (sv : View)
    (hsv : (again none supData true true).map DwarfInfo.view = .ok sv) :
    (ownInfo P again (some ld) f secs relocate true).map DwarfInfo.view
      = .ok (.mk f.le (f.cls / 8) (P.machineArchOf m) (contentView P.names content) (some sv)) := by
  obtain ⟨ds, hds, hv⟩ := readAll_reads P f secs relocate content P.names hh
  obtain ⟨DS, hDS, hA, hS⟩ := hs.hDS
  have hp := parseDebugSupInfo_of_link P.env DS f.le hA hS ds P.names content (some path) hv hs.hk1 hs.hk2 hsl
  have hsupp := supplementary_followed P again ld f ds DS path supData hDS hp hld
  cases ha : again none supData true true with
  | error e => simp [ha, Except.map] at hsv
  | ok si =>
    simp only [ha, Except.map, Except.ok.injEq] at hsv hsupp
    subst hsv
    simp [ownInfo, hsupp, hds, hm, liftR, bind, Except.bind, pure, Except.pure, Except.map, DwarfInfo.view]
    exact hv

/-- the supplementary file end to end, from what the two loops deliver: `f` delivers `content`,
    which names `path`; the loader has `path ↦ supData`, which opens as `fs` delivering `contentS` -/
theorem core_with_sup_reads {P : Params} {f fs : ElfFile} (hs : SupOk P f) (hss : SupOk P fs)
    (fuel : Nat) (ld : Loader) (secs secsS : List Sec) (relocate : Bool) (content contentS : Content) (m mS : Val)
    (hm : f.header.getField "e_machine" = .ok m) (hmS : fs.header.getField "e_machine" = .ok mS)
    (hh : Reads P f secs relocate content)
    (hlink : linkTarget secs (some ld) true = none)
    (path supData : Bytes) (hsl : SupLink f.le content (some path)) (hld : ld path = some supData)
    (hloadS : load P supData = .ok (fs, secsS))
    (hhS : Reads P fs secsS true contentS)
    (pS : Option Bytes) (hslS : SupLink fs.le contentS pS) :
    (getDwarfInfoCore P (getDwarfInfo P (fuel + 1)) (some ld) f secs relocate true).map DwarfInfo.view
      = .ok (.mk f.le (f.cls / 8) (P.machineArchOf m) (contentView P.names content)
          (some (.mk fs.le (fs.cls / 8) (P.machineArchOf mS) (contentView P.names contentS) none))) := by
  rw [core_unlinked P _ (some ld) f secs relocate true hlink]
  refine ownInfo_with_sup_reads hs _ ld secs relocate content m hm hh path supData hsl hld _ ?_
  have := dwarfView_loaded P fuel none supData true true fs secsS hloadS
  unfold dwarfView at this
  rw [this, core_unlinked P _ none fs secsS true true (linkTarget_none_of secsS none true (Or.inr (Or.inl rfl)))]
  exact ownInfo_no_loader_reads hss _ secsS true true contentS mS hmS hhS pS hslS

end PyElf.Proofs.C11
