/-
  C10, fourth wave: the cache layer around the base state machine (`Model/HistoryCaches.lean`).

  * abbreviation tables: in every state whose caches hold parse results (`AbInv`) `cu.get_abbrev_table()` answers
    the pure parse at the unit's `debug_abbrev_offset` — so the `File` the base step runs on IS the stateless
    `pureFile X`, and every theorem about the base machine applies verbatim;
  * line programs: the cached `LineProgram` object answers what a fresh parse / decode answers (`LPWF`: units that
    share a program have the same structs; decoding does not change the header — the DW_LNE_define_file finding);
  * CFI: `Proofs/HistoryCfi.lean`.
  `XInvT` is the invariant of the whole object, kept by every operation; two states satisfying it answer alike.
-/
import PyElf.Model.HistoryCaches
import PyElf.Proofs.HistoryState
import PyElf.Proofs.HistoryCfi
namespace PyElf.Proofs.C10
open PyElf PyElf.Model.Lookup PyElf.Model.C10 PyElf.Proofs.Lookup

/-! ### abbreviation tables -/

/-- the stateless meaning of `cu.get_abbrev_table()` -/
def pureTable (X : XFile) (cu : Nat) : R Nat :=
  if X.abbrevOff cu < X.abbrevSize then X.parseAbbrev (X.abbrevOff cu) else .error .dwarfError

/-- the stateless `File`: every DIE is built with the pure parse of its unit's table -/
def pureFile (X : XFile) : File := fileWith X (pureTable X)

structure AbInv (X : XFile) (a : AbState) : Prop where
  cache : ∀ k t, assocGet? a.cache k = some t → X.parseAbbrev k = .ok t
  memo : ∀ cu t, assocGet? a.memo cu = some t → pureTable X cu = .ok t

theorem abInv_init (X : XFile) : AbInv X ⟨[], []⟩ :=
  { cache := fun k t h => by simp [assocGet?] at h, memo := fun k t h => by simp [assocGet?] at h }

section ab
variable {X : XFile} {a : AbState}

/-- `DWARFInfo.get_abbrev_table(off)`: the pure parse at `off` (behind the bounds check), whatever is cached -/
theorem diTable_spec (h : AbInv X a) (off : Nat) :
    (diTable X a off).1 = (if off < X.abbrevSize then X.parseAbbrev off else .error .dwarfError) ∧
      AbInv X (diTable X a off).2 := by
  unfold diTable
  by_cases hlt : off < X.abbrevSize
  · simp only [hlt, if_true]
    cases hg : assocGet? a.cache off with
    | some t => exact ⟨(h.cache off t hg).symm, h⟩
    | none =>
      simp only
      cases hp : X.parseAbbrev off with
      | error e => exact ⟨rfl, h⟩
      | ok t =>
        refine ⟨rfl, { cache := ?_, memo := h.memo }⟩
        intro k t' hk
        by_cases hko : k = off
        · subst hko
          simp only [assocGet_set_self] at hk
          injection hk with hk; subst hk; exact hp
        · simp only [assocGet_set_other _ _ _ _ hko] at hk
          exact h.cache k t' hk
  · simp only [hlt, if_false]
    exact ⟨trivial, h⟩

/-- `CompileUnit.get_abbrev_table()`: the pure parse at the unit's `debug_abbrev_offset`, whatever is cached — two
    units with the same offset get the same table -/
theorem cuTable_spec (h : AbInv X a) (cu : Nat) :
    (cuTable X a cu).1 = pureTable X cu ∧ AbInv X (cuTable X a cu).2 := by
  unfold cuTable
  cases hg : assocGet? a.memo cu with
  | some t => exact ⟨(h.memo cu t hg).symm, h⟩
  | none =>
    simp only
    obtain ⟨h1, h2⟩ := diTable_spec h (X.abbrevOff cu)
    generalize diTable X a (X.abbrevOff cu) = x at h1 h2
    obtain ⟨r, a'⟩ := x
    simp only at h1 h2
    cases r with
    | error e => exact ⟨h1, h2⟩
    | ok t =>
      refine ⟨h1, { cache := h2.cache, memo := ?_ }⟩
      intro k t' hk
      by_cases hko : k = cu
      · subst hko
        simp only [assocGet_set_self] at hk
        injection hk with hk; subst hk
        exact h1.symm
      · simp only [assocGet_set_other _ _ _ _ hko] at hk
        exact h2.memo k t' hk

theorem tableFor_eq (h : AbInv X a) : tableFor X a = pureTable X :=
  funext fun cu => (cuTable_spec h cu).1

theorem syncUnit_inv (h : AbInv X a) (p : Nat × UnitCache) : AbInv X (syncUnit X a p) := by
  unfold syncUnit
  split
  · exact (cuTable_spec h p.1).2
  · exact h

theorem foldl_syncUnit_inv : ∀ (us : List (Nat × UnitCache)) (a : AbState), AbInv X a → AbInv X (us.foldl (syncUnit X) a)
  | [], _, h => h
  | p :: us, _, h => foldl_syncUnit_inv us _ (syncUnit_inv h p)

end ab

/-- the DIE constructor does not depend on the state of the abbreviation caches: the `File` the base machine runs
    on in state `xs` is the stateless one -/
theorem fileOf_eq {X : XFile} {xs : XState} (h : AbInv X xs.ab) : fileOf X xs = pureFile X := by
  unfold fileOf pureFile
  rw [tableFor_eq h]

/-! ### line programs -/

/-- `DW_AT_stmt_list` of the unit's top DIE -/
def topStmt (X : XFile) (c : CU) : R (Option Nat) := ((pureFile X).parseDIE c.cuOffset c.cuDieOffset).map (·.stmt)

/-- units that point at the same line program have the same structs (the cached object was parsed with those of
    the unit that asked first), and decoding the entries does not change the header (no DW_LNE_define_file) -/
structure LPWF (X : XFile) (cs : List CU) : Prop where
  share : ∀ c ∈ cs, ∀ c' ∈ cs, ∀ o, topStmt X c = .ok (some o) → topStmt X c' = .ok (some o) →
    X.lpKey c.cuOffset = X.lpKey c'.cuOffset
  stable : ∀ k o h e h', X.lpParse k o = .ok h → X.lpDecode k o = .ok (e, h') → h' = h

/-- every cached `LineProgram` is the pure parse at its offset, and its memorised entries are the pure decoding -/
def LInv (X : XFile) (cs : List CU) (lines : List (Nat × LPObj)) : Prop :=
  ∀ o obj, assocGet? lines o = some obj →
    (∃ c ∈ cs, topStmt X c = .ok (some o) ∧ obj.key = X.lpKey c.cuOffset) ∧ X.lpParse obj.key o = .ok obj.hdr ∧
    (∀ e, obj.entries = some e → ∃ h', X.lpDecode obj.key o = .ok (e, h'))

/-- the stateless meaning of `line_program_for_CU` (header, optionally the entries) for structs `k`, offset `o` -/
def pureLP (X : XFile) (k o : Nat) (decode : Bool) : R XAns :=
  match X.lpParse k o with
  | .error e => .error e
  | .ok h =>
    if decode then
      match X.lpDecode k o with
      | .error e => .error e
      | .ok (e, h') => .ok (.lp o h' (some e))
    else .ok (.lp o h none)

theorem linv_set {X : XFile} {cs : List CU} {lines : List (Nat × LPObj)} (h : LInv X cs lines) {o : Nat} {obj : LPObj}
    (h1 : ∃ c ∈ cs, topStmt X c = .ok (some o) ∧ obj.key = X.lpKey c.cuOffset) (h2 : X.lpParse obj.key o = .ok obj.hdr)
    (h3 : ∀ e, obj.entries = some e → ∃ h', X.lpDecode obj.key o = .ok (e, h')) : LInv X cs (assocSet lines o obj) := by
  intro o' obj' hg
  by_cases ho : o' = o
  · subst ho
    simp only [assocGet_set_self] at hg
    injection hg with hg; subst hg
    exact ⟨h1, h2, h3⟩
  · simp only [assocGet_set_other _ _ _ _ ho] at hg
    exact h o' obj' hg

/-- the part of `line_program_for_CU` behind `DW_AT_stmt_list`: the cached object (or a new one) and, on request,
    its entries — the stateless answer, in every state of `_linetable_cache` satisfying the invariant -/
theorem lpTail_spec {X : XFile} {cs : List CU} (lw : LPWF X cs) {xs : XState} (hl : LInv X cs xs.lines)
    {c : CU} (hc : c ∈ cs) {o : Nat} (hs : topStmt X c = .ok (some o)) (decode : Bool) :
    ∃ lines', LInv X cs lines' ∧
      lpTail X xs c.cuOffset o decode = (pureLP X (X.lpKey c.cuOffset) o decode, { xs with lines := lines' }) := by
  -- what happens once the object is at hand
  have tail : ∀ (lines1 : List (Nat × LPObj)) (obj : LPObj), LInv X cs lines1 → obj.key = X.lpKey c.cuOffset →
      X.lpParse obj.key o = .ok obj.hdr → (∀ e, obj.entries = some e → ∃ h', X.lpDecode obj.key o = .ok (e, h')) →
      ∃ lines', LInv X cs lines' ∧
        (if decode then
            match lpEntries X lines1 o obj with
            | (.error e, lines) => ((.error e : R XAns), ({ xs with lines := lines } : XState))
            | (.ok (e, h), lines) => (.ok (.lp o h (some e)), { xs with lines := lines })
          else (.ok (.lp o obj.hdr none), { xs with lines := lines1 }))
          = (pureLP X (X.lpKey c.cuOffset) o decode, { xs with lines := lines' }) := by
    intro lines1 obj hl1 hk hp he
    rw [← hk]
    cases decode with
    | false =>
      refine ⟨lines1, hl1, ?_⟩
      simp only [pureLP, hp, Bool.false_eq_true, if_false]
    | true =>
      simp only [pureLP, hp, if_true]
      unfold lpEntries
      cases hent : obj.entries with
      | some e =>
        obtain ⟨h', hd⟩ := he e hent
        have := lw.stable _ _ _ _ _ hp hd
        subst this
        exact ⟨lines1, hl1, by simp only [hd]⟩
      | none =>
        simp only
        cases hd : X.lpDecode obj.key o with
        | error e => exact ⟨lines1, hl1, rfl⟩
        | ok eh =>
          obtain ⟨e, h'⟩ := eh
          have hh := lw.stable _ _ _ _ _ hp hd
          refine ⟨assocSet lines1 o { obj with hdr := h', entries := some e },
            linv_set hl1 (obj := { obj with hdr := h', entries := some e }) ⟨c, hc, hs, hk⟩ ?_ ?_, rfl⟩
          · show X.lpParse obj.key o = .ok h'
            rw [hh]; exact hp
          · intro e' he'
            injection he' with he'
            subst he'
            exact ⟨h', hd⟩
  unfold lpTail lpFetch
  cases hg : assocGet? xs.lines o with
  | some obj =>
    obtain ⟨⟨c', hc', hs', hk'⟩, hp, he⟩ := hl o obj hg
    have hk : obj.key = X.lpKey c.cuOffset := by rw [hk']; exact lw.share c' hc' c hc o hs' hs
    exact tail xs.lines obj hl hk hp he
  | none =>
    simp only
    cases hp : X.lpParse (X.lpKey c.cuOffset) o with
    | error e => exact ⟨xs.lines, hl, by simp only [pureLP, hp]⟩
    | ok h =>
      simp only
      exact tail _ ⟨X.lpKey c.cuOffset, h, none⟩ (linv_set hl ⟨c, hc, hs, rfl⟩ hp (fun e he => by cases he)) rfl hp
        (fun e he => by cases he)

/-! ### the whole object -/

/-- the hypotheses on the pure side of a file -/
structure XWF (X : XFile) (cs : List CU) (T : Nat → DTree) : Prop where
  file : FileWF (pureFile X) cs
  tree : TreeWF (pureFile X) cs T
  lp : LPWF X cs
  cfi : ∀ eh, CfiWF X eh
  cfiFuel : ∀ eh, pureAll X eh ≠ .error .outOfFuel

structure XInvT (X : XFile) (cs : List CU) (T : Nat → DTree) (g : Ghost) (xs : XState) : Prop where
  base : InvT (pureFile X) cs T g xs.base
  ab : AbInv X xs.ab
  lines : LInv X cs xs.lines
  cfiD : CObjInv X false xs.cfiD
  cfiE : CObjInv X true xs.cfiE

theorem xinvT_init (X : XFile) (cs : List CU) (T : Nat → DTree) : XInvT X cs T [] XState.init :=
  { base := invT_init _ cs T, ab := abInv_init X, lines := fun o obj h => by simp [XState.init, assocGet?] at h,
    cfiD := cobj_new X false, cfiE := cobj_new X true }

def XOpValid (X : XFile) (cs : List CU) (T : Nat → DTree) : XOp → Prop
  | .base op => OpValidT (pureFile X) cs T op
  | .abbrevCU cu => ∃ c ∈ cs, c.cuOffset = cu
  | .lp cu _ => ∃ c ∈ cs, c.cuOffset = cu
  | _ => True

def xghostStep (g : Ghost) : XOp → Ghost
  | .base op => ghostStep g op
  | _ => g

def xghost (ops : List XOp) : Ghost := ops.foldl xghostStep []

section xstate
variable {X : XFile} {cs : List CU} {T : Nat → DTree} {g : Ghost} {xs : XState}

theorem syncAb_inv (hab : AbInv X xs.ab) : AbInv X (syncAb X xs).ab := foldl_syncUnit_inv _ _ hab

/-- the closed form of the answer of `line_program_for_CU`, and the invariant afterwards -/
theorem xstep_lp (w : XWF X cs T) (hinv : XInvT X cs T g xs) {c : CU} (hc : c ∈ cs) (decode : Bool) :
    (xstep X xs (.lp c.cuOffset decode)).1
        = (match topStmt X c with
            | .error e => .error e
            | .ok none => .ok .none
            | .ok (some o) => pureLP X (X.lpKey c.cuOffset) o decode) ∧
      XInvT X cs T g (xstep X xs (.lp c.cuOffset decode)).2 := by
  have hb := step_invT w.file w.tree hinv.base (op := .lp c.cuOffset decode) (show OpValidT _ cs T (.lp c.cuOffset decode) from ⟨c, hc, rfl⟩)
  have ha := (step_lp w.file hinv.base.base hc decode).1
  simp only [xstep, fileOf_eq hinv.ab]
  generalize step (pureFile X) xs.base (.lp c.cuOffset decode) = r at hb ha
  obtain ⟨r1, b⟩ := r
  simp only at hb ha
  have hab : AbInv X (syncAb X { xs with base := b }).ab := syncAb_inv (xs := { xs with base := b }) hinv.ab
  have hsync : XInvT X cs T g (syncAb X { xs with base := b }) :=
    { base := hb, ab := hab, lines := hinv.lines, cfiD := hinv.cfiD, cfiE := hinv.cfiE }
  unfold topStmt
  cases hp : (pureFile X).parseDIE c.cuOffset c.cuDieOffset with
  | error e =>
    rw [hp] at ha
    simp only [Except.map] at ha
    subst ha
    simp only [Except.map]
    exact ⟨trivial, hsync⟩
  | ok top =>
    rw [hp] at ha
    simp only [Except.map] at ha
    subst ha
    cases hst : top.stmt with
    | none => simp only [Except.map, hst]; exact ⟨trivial, hsync⟩
    | some o =>
      simp only [Except.map, hst]
      have hs : topStmt X c = .ok (some o) := by simp [topStmt, hp, Except.map, hst]
      obtain ⟨lines', hl', heq⟩ := lpTail_spec w.lp (xs := syncAb X { xs with base := b }) hinv.lines hc hs decode
      rw [heq]
      exact ⟨rfl, { base := hb, ab := hab, lines := hl', cfiD := hinv.cfiD, cfiE := hinv.cfiE }⟩

/-- EVERY operation of the layer keeps the invariant of the whole object -/
theorem xstep_invT (w : XWF X cs T) (hinv : XInvT X cs T g xs) {op : XOp} (hv : XOpValid X cs T op) :
    XInvT X cs T (xghostStep g op) (xstep X xs op).2 := by
  cases op with
  | base op =>
    have hb := step_invT w.file w.tree hinv.base (op := op) hv
    simp only [xstep, fileOf_eq hinv.ab, xghostStep]
    exact { base := hb, ab := syncAb_inv (xs := { xs with base := (step (pureFile X) xs.base op).2 }) hinv.ab,
            lines := hinv.lines, cfiD := hinv.cfiD, cfiE := hinv.cfiE }
  | abbrevCU cu =>
    obtain ⟨c, hc, rfl⟩ := hv
    have hb := step_invT w.file w.tree hinv.base (op := .cuAt c.cuOffset) (show OpValidT _ cs T (.cuAt c.cuOffset) from ⟨c, hc, rfl⟩)
    obtain ⟨h1, h2⟩ := cuTable_spec hinv.ab c.cuOffset
    simp only [xstep, fileOf_eq hinv.ab, xghostStep]
    generalize step (pureFile X) xs.base (.cuAt c.cuOffset) = r at hb
    obtain ⟨r1, b⟩ := r
    have hb' : InvT (pureFile X) cs T g b := hb
    cases r1 with
    | error e => exact { base := hb', ab := hinv.ab, lines := hinv.lines, cfiD := hinv.cfiD, cfiE := hinv.cfiE }
    | ok a1 =>
      simp only
      generalize cuTable X xs.ab c.cuOffset = y at h1 h2
      obtain ⟨r2, a'⟩ := y
      cases r2 <;> exact { base := hb', ab := h2, lines := hinv.lines, cfiD := hinv.cfiD, cfiE := hinv.cfiE }
  | abbrevAt off =>
    obtain ⟨h1, h2⟩ := diTable_spec hinv.ab off
    simp only [xstep, xghostStep]
    generalize diTable X xs.ab off = y at h1 h2
    obtain ⟨r2, a'⟩ := y
    cases r2 <;> exact { base := hinv.base, ab := h2, lines := hinv.lines, cfiD := hinv.cfiD, cfiE := hinv.cfiE }
  | lp cu decode =>
    obtain ⟨c, hc, rfl⟩ := hv
    exact (xstep_lp w hinv hc decode).2
  | cfi eh => simp only [xstep, xghostStep]; exact hinv
  | cfiObj eh =>
    cases eh with
    | true =>
      simp only [xstep, xghostStep, if_true]
      exact { base := hinv.base, ab := hinv.ab, lines := hinv.lines, cfiD := hinv.cfiD,
              cfiE := (cfiGetEntries_spec (w.cfi true) (w.cfiFuel true) hinv.cfiE).2 }
    | false =>
      simp only [xstep, xghostStep, Bool.false_eq_true, if_false]
      exact { base := hinv.base, ab := hinv.ab, lines := hinv.lines, cfiE := hinv.cfiE,
              cfiD := (cfiGetEntries_spec (w.cfi false) (w.cfiFuel false) hinv.cfiD).2 }

theorem xrun_invT (w : XWF X cs T) : ∀ (ops : List XOp) (xs : XState) (g : Ghost), XInvT X cs T g xs →
    (∀ op ∈ ops, XOpValid X cs T op) → XInvT X cs T (ops.foldl xghostStep g) (xrun X xs ops) := by
  intro ops
  induction ops with
  | nil => intro xs g h _; exact h
  | cons op ops ih =>
    intro xs g h hv
    exact ih _ _ (xstep_invT w h (hv op (by simp))) (fun o ho => hv o (List.mem_cons_of_mem _ ho))

/-- the queries of the layer whose answers are PROVED independent of the state: the base queries (`Query`), and all
    operations on abbreviation tables, line programs and CFI entries -/
def XQuery : XOp → Prop
  | .base op => Query op
  | _ => True

/-- two states satisfying the invariant give the same answer -/
theorem xstep_answer_eq (w : XWF X cs T) {xs xs' : XState} {g' : Ghost} (hinv : XInvT X cs T g xs)
    (hinv' : XInvT X cs T g' xs') {op : XOp} (hv : XOpValid X cs T op) (hq : XQuery op) :
    (xstep X xs op).1 = (xstep X xs' op).1 := by
  cases op with
  | base op =>
    simp only [xstep, fileOf_eq hinv.ab, fileOf_eq hinv'.ab]
    rw [step_answer_eqT w.file w.tree hinv.base hinv'.base hv hq]
  | abbrevCU cu =>
    obtain ⟨c, hc, rfl⟩ := hv
    have e1 := (step_cuAt w.file hinv.base.base hc).1
    have e2 := (step_cuAt w.file hinv'.base.base hc).1
    obtain ⟨h1, _⟩ := cuTable_spec hinv.ab c.cuOffset
    obtain ⟨h1', _⟩ := cuTable_spec hinv'.ab c.cuOffset
    simp only [xstep, fileOf_eq hinv.ab, fileOf_eq hinv'.ab]
    generalize step (pureFile X) xs.base (.cuAt c.cuOffset) = r at e1
    generalize step (pureFile X) xs'.base (.cuAt c.cuOffset) = r' at e2
    obtain ⟨r1, b⟩ := r
    obtain ⟨r1', b'⟩ := r'
    simp only at e1 e2
    subst e1 e2
    simp only
    generalize cuTable X xs.ab c.cuOffset = y at h1
    generalize cuTable X xs'.ab c.cuOffset = y' at h1'
    obtain ⟨r2, a2⟩ := y
    obtain ⟨r2', a2'⟩ := y'
    simp only at h1 h1'
    subst h1 h1'
    cases pureTable X c.cuOffset <;> rfl
  | abbrevAt off =>
    obtain ⟨h1, _⟩ := diTable_spec hinv.ab off
    obtain ⟨h1', _⟩ := diTable_spec hinv'.ab off
    simp only [xstep]
    generalize diTable X xs.ab off = y at h1
    generalize diTable X xs'.ab off = y' at h1'
    obtain ⟨r2, a2⟩ := y
    obtain ⟨r2', a2'⟩ := y'
    simp only at h1 h1'
    have : r2 = r2' := h1.trans h1'.symm
    subst this
    cases r2 <;> rfl
  | lp cu decode =>
    obtain ⟨c, hc, rfl⟩ := hv
    rw [(xstep_lp w hinv hc decode).1, (xstep_lp w hinv' hc decode).1]
  | cfi eh => rfl
  | cfiObj eh =>
    cases eh with
    | true =>
      simp only [xstep, if_true]
      rw [(cfiGetEntries_spec (w.cfi true) (w.cfiFuel true) hinv.cfiE).1,
        (cfiGetEntries_spec (w.cfi true) (w.cfiFuel true) hinv'.cfiE).1]
    | false =>
      simp only [xstep, Bool.false_eq_true, if_false]
      rw [(cfiGetEntries_spec (w.cfi false) (w.cfiFuel false) hinv.cfiD).1,
        (cfiGetEntries_spec (w.cfi false) (w.cfiFuel false) hinv'.cfiD).1]

/-- closed forms: `cu.get_abbrev_table()`, `dwarfinfo.get_abbrev_table(off)` -/
theorem xstep_abbrevCU (w : XWF X cs T) (hinv : XInvT X cs T g xs) {c : CU} (hc : c ∈ cs) :
    (xstep X xs (.abbrevCU c.cuOffset)).1 = (pureTable X c.cuOffset).map XAns.tbl := by
  have e1 := (step_cuAt w.file hinv.base.base hc).1
  obtain ⟨h1, _⟩ := cuTable_spec hinv.ab c.cuOffset
  simp only [xstep, fileOf_eq hinv.ab]
  generalize step (pureFile X) xs.base (.cuAt c.cuOffset) = r at e1
  obtain ⟨r1, b⟩ := r
  simp only at e1
  subst e1
  simp only
  generalize cuTable X xs.ab c.cuOffset = y at h1
  obtain ⟨r2, a2⟩ := y
  simp only at h1
  subst h1
  cases pureTable X c.cuOffset <;> rfl

theorem xstep_abbrevAt (hinv : XInvT X cs T g xs) (off : Nat) :
    (xstep X xs (.abbrevAt off)).1
      = (if off < X.abbrevSize then X.parseAbbrev off else .error .dwarfError).map XAns.tbl := by
  obtain ⟨h1, _⟩ := diTable_spec hinv.ab off
  simp only [xstep]
  generalize diTable X xs.ab off = y at h1
  obtain ⟨r2, a2⟩ := y
  simp only at h1
  rw [← h1]
  cases r2 <;> rfl

/-- closed form: CFI entries, through `DWARFInfo` (a new object per call) and on an object that is kept -/
theorem xstep_cfi (w : XWF X cs T) (hinv : XInvT X cs T g xs) (eh : Bool) :
    (xstep X xs (.cfi eh)).1 = (pureAll X eh).map XAns.cfi ∧ (xstep X xs (.cfiObj eh)).1 = (pureAll X eh).map XAns.cfi := by
  constructor
  · simp only [xstep]
    rw [(cfiGetEntries_spec (w.cfi eh) (w.cfiFuel eh) (cobj_new X eh)).1]
  · cases eh with
    | true =>
      simp only [xstep, if_true]
      rw [(cfiGetEntries_spec (w.cfi true) (w.cfiFuel true) hinv.cfiE).1]
    | false =>
      simp only [xstep, Bool.false_eq_true, if_false]
      rw [(cfiGetEntries_spec (w.cfi false) (w.cfiFuel false) hinv.cfiD).1]

end xstate
end PyElf.Proofs.C10
