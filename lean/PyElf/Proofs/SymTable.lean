/-
  Symbol table enumeration and lookup by name over a laid-out table.
-/
import PyElf.Proofs.SymParse
namespace PyElf.Proofs
open PyElf PyElf.Spec PyElf.Model

theorem sym_parseCStringFromStream_eq (data : Bytes) (pos : Nat) :
    parseCStringFromStream data pos = .ok (firstNul (data.drop pos)) := by
  have := cstringChunkLoop_eq data 64 (by decide) (data.length - pos + 2) pos [] (by omega)
  simpa [parseCStringFromStream] using this

theorem getString_eq (data : Bytes) (strOff off : Nat) (name : Bytes)
    (h : firstNul (data.drop (strOff + off)) = some name) : symGetString data strOff off = .ok name := by
  simp [symGetString, sym_parseCStringFromStream_eq, h, bind, Except.bind, pure, Except.pure]

theorem obsEntry_stName (dec : String → Int → Option String) (cls : Nat) (e : SymE) :
    (obsEntry dec cls e).getNat "st_name" = .ok e.stName := by
  have : ¬ ((e.stName : Int) < 0) := by omega
  unfold obsEntry
  split <;> simp [Val.getNat, Val.getField, Fields.getR, Fields.get?, Val.asNat, Val.asInt, bind, Except.bind, this]

/-- `get_symbol(n)`: the entry at `sh_offset + n * sh_entsize` and its name from the linked string table -/
theorem getSymbol_ok (env : Env) (le : Bool) (m : String) (sol core : Bool) (cls : Nat) (hcls : cls = 32 ∨ cls = 64)
    (e : SymE) (hwf : e.WF cls = true) (data : Bytes) (h : SecHdr) (strOff n : Nat) (rest name : Bytes)
    (hd : data.drop (h.off + n * h.entsize) = encSym le cls e ++ rest)
    (hstr : strAt (data.drop strOff) e.stName = some name) :
    getSymbol (Spec.elfStructs ⟨le, cls, m, sol, core⟩) env data h strOff n
      = .ok (obsEntry env.enumDecode cls e, name) := by
  have hstr' : firstNul (data.drop (strOff + e.stName)) = some name := by
    simpa [strAt, List.drop_drop, Nat.add_comm] using hstr
  rcases hcls with rfl | rfl
  · simp only [getSymbol, sym_roundtrip32 env le m sol core e hwf data _ rest hd, bind, Except.bind, obsEntry_stName,
      getString_eq data strOff _ name hstr', pure, Except.pure]
  · simp only [getSymbol, sym_roundtrip64 env le m sol core e hwf data _ rest hd, bind, Except.bind, obsEntry_stName,
      getString_eq data strOff _ name hstr', pure, Except.pure]

theorem collectRange_ok {α} (f : Nat → R α) (g : Nat → α) : ∀ (c s : Nat),
    (∀ i, s ≤ i → i < s + c → f i = .ok (g i)) → collectRange f s c = .ok ((List.range' s c).map g) := by
  intro c
  induction c with
  | zero => intro s _; rfl
  | succ c ih =>
    intro s h
    simp only [collectRange, h s (Nat.le_refl _) (by omega), bind, Except.bind,
      ih (s + 1) (fun i h1 h2 => h i (by omega) (by omega)), pure, Except.pure, List.range'_succ, List.map_cons]

/-- a symbol table section laid out in a file: entries `es` at stride `sh_entsize ≥` entry size,
    names in the linked string table (any string-table layout: shared, overlapping, unordered) -/
structure SymtabLayout (le : Bool) (cls : Nat) (data : Bytes) (h : SecHdr) (strOff : Nat)
    (es : List SymE) (names : List Bytes) : Prop where
  hcls : cls = 32 ∨ cls = 64
  entpos : 0 < h.entsize
  size : h.size = es.length * h.entsize
  nlen : names.length = es.length
  wf : ∀ i (hi : i < es.length), es[i].WF cls = true
  entry : ∀ i (hi : i < es.length), ∃ rest, data.drop (h.off + i * h.entsize) = encSym le cls es[i] ++ rest
  name : ∀ i (hi : i < es.length), strAt (data.drop strOff) es[i].stName = some (names.getD i [])

/-- symbol `i` as the property prescribes it -/
def symObs (dec : String → Int → Option String) (cls : Nat) (es : List SymE) (names : List Bytes) (i : Nat) : Symbol :=
  (obsEntry dec cls (es.getD i default), names.getD i [])

section table
variable {le : Bool} {cls : Nat} {data : Bytes} {h : SecHdr} {strOff : Nat} {es : List SymE} {names : List Bytes}
variable (env : Env) (m : String) (sol core : Bool)

theorem layout_getSymbol (L : SymtabLayout le cls data h strOff es names) (i : Nat) (hi : i < es.length) :
    getSymbol (Spec.elfStructs ⟨le, cls, m, sol, core⟩) env data h strOff i
      = .ok (symObs env.enumDecode cls es names i) := by
  obtain ⟨rest, hd⟩ := L.entry i hi
  have := getSymbol_ok env le m sol core cls L.hcls es[i] (L.wf i hi) data h strOff i rest _ hd (L.name i hi)
  rw [this]
  simp [symObs, List.getD_eq_getElem?_getD, List.getElem?_eq_getElem hi]

theorem layout_numSymbols (L : SymtabLayout le cls data h strOff es names) : numSymbols h = .ok es.length := by
  have := L.entpos
  have hne : ¬ h.entsize = 0 := by omega
  simp only [numSymbols, hne, if_false, L.size]
  rw [Nat.mul_div_cancel _ L.entpos]

theorem layout_init (L : SymtabLayout le cls data h strOff es names) : symtabInit h = .ok () := by
  have := L.entpos
  simp [symtabInit, L.size, this]

/-- `iter_symbols` yields exactly the encoded entries, in index order, each with its name -/
theorem layout_iterSymbols (L : SymtabLayout le cls data h strOff es names) :
    iterSymbols (Spec.elfStructs ⟨le, cls, m, sol, core⟩) env data h strOff
      = .ok ((List.range es.length).map (symObs env.enumDecode cls es names)) := by
  simp only [iterSymbols, layout_numSymbols L, bind, Except.bind]
  rw [collectRange_ok _ (symObs env.enumDecode cls es names) es.length 0
    (fun i _ hi => layout_getSymbol env m sol core L i (by omega))]
  simp [List.range_eq_range']

end table

/-! ### the name map -/

theorem nameMapGet_append (m : List (Bytes × List Nat)) (k' : Bytes) (i : Nat) (k : Bytes) :
    nameMapGet (nameMapAppend m k' i) k
      = if k' = k then some ((nameMapGet m k).getD [] ++ [i]) else nameMapGet m k := by
  induction m with
  | nil =>
    by_cases hk : k' = k
    · simp [nameMapAppend, nameMapGet, hk]
    · simp [nameMapAppend, nameMapGet, hk]
  | cons p rest ih =>
    obtain ⟨k0, l0⟩ := p
    by_cases h0 : k0 = k'
    · subst h0
      by_cases hk : k0 = k
      · simp [nameMapAppend, nameMapGet, hk]
      · simp [nameMapAppend, nameMapGet, hk]
    · simp only [nameMapAppend, h0, if_false]
      by_cases hk : k0 = k
      · have : ¬ k' = k := fun h => h0 (by rw [hk, h])
        simp [nameMapGet, hk, this]
      · simp only [nameMapGet, List.find?_cons, hk, decide_false] at ih ⊢
        exact ih

/-- the indices in `l` (pairs (symbol, index)) whose symbol is named `k` -/
def idxNamed (l : List (Symbol × Nat)) (k : Bytes) : List Nat := (l.filter fun p => p.1.2 == k).map (·.2)

theorem nameMap_foldl (l : List (Symbol × Nat)) (k : Bytes) : ∀ m : List (Bytes × List Nat),
    nameMapGet (l.foldl (fun m (p : Symbol × Nat) => nameMapAppend m p.1.2 p.2) m) k
      = if idxNamed l k = [] then nameMapGet m k else some ((nameMapGet m k).getD [] ++ idxNamed l k) := by
  induction l with
  | nil => intro m; simp [idxNamed]
  | cons p l ih =>
    intro m
    rw [List.foldl_cons, ih, nameMapGet_append]
    by_cases hp : p.1.2 = k
    · have hb : (p.1.2 == k) = true := by simpa using hp
      simp only [idxNamed, List.filter_cons, hb, if_true, List.map_cons, hp] at *
      by_cases hl : List.map (fun x => x.2) (List.filter (fun p => p.1.2 == k) l) = []
      · simp [hl]
      · simp [hl]
    · have hb : (p.1.2 == k) = false := by simpa using hp
      simp only [idxNamed, List.filter_cons, hb, hp, if_false] at *
      simp

theorem buildNameMap_get (syms : List Symbol) (k : Bytes) :
    nameMapGet (buildNameMap syms) k
      = if idxNamed syms.zipIdx k = [] then none else some (idxNamed syms.zipIdx k) := by
  have := nameMap_foldl syms.zipIdx k []
  simp only [buildNameMap]
  have hfun : (fun (m : List (Bytes × List Nat)) (x : Symbol × Nat) =>
      match x with | (s, i) => nameMapAppend m s.2 i) = (fun m (p : Symbol × Nat) => nameMapAppend m p.1.2 p.2) := by
    funext m x; obtain ⟨s, i⟩ := x; rfl
  rw [hfun, this]
  simp [nameMapGet]

theorem idxNamed_eq_byName (syms : List Symbol) (k : Bytes) :
    idxNamed syms.zipIdx k = byName (syms.map (·.2)) k := by
  simp only [idxNamed, byName, List.zipIdx_map, List.filter_map, List.map_map]
  rfl

theorem byName_lt (names : List Bytes) (k : Bytes) : ∀ i ∈ byName names k, i < names.length := by
  intro i hi
  simp only [byName, List.mem_map, List.mem_filter] at hi
  obtain ⟨p, ⟨hp, _⟩, rfl⟩ := hi
  have := List.mem_zipIdx hp
  omega

theorem mapM_ok {α β} (f : α → R β) (g : α → β) : ∀ (l : List α), (∀ x ∈ l, f x = .ok (g x)) → l.mapM f = .ok (l.map g) := by
  intro l
  induction l with
  | nil => intro _; rfl
  | cons x xs ih =>
    intro h
    simp only [List.mapM_cons, h x List.mem_cons_self, bind, Except.bind, ih (fun y hy => h y (List.mem_cons_of_mem _ hy)),
      pure, Except.pure, List.map_cons]

/-- `get_symbol_by_name(n)`: `None` iff no symbol bears the name, else exactly those symbols in index order -/
theorem layout_byName {le : Bool} {cls : Nat} {data : Bytes} {h : SecHdr} {strOff : Nat} {es : List SymE}
    {names : List Bytes} (env : Env) (m : String) (sol core : Bool)
    (L : SymtabLayout le cls data h strOff es names) (name : Bytes) :
    getSymbolByName (Spec.elfStructs ⟨le, cls, m, sol, core⟩) env data h strOff name
      = .ok (if byName names name = [] then none
             else some ((byName names name).map (symObs env.enumDecode cls es names))) := by
  have hnames : ((List.range es.length).map (symObs env.enumDecode cls es names)).map (·.2) = names := by
    apply List.ext_getElem
    · simp [L.nlen]
    · intro i h1 h2
      simp [symObs, List.getD_eq_getElem?_getD, List.getElem?_eq_getElem h2]
  simp only [getSymbolByName, layout_iterSymbols env m sol core L, bind, Except.bind, getSymbolByNameFrom,
    buildNameMap_get, idxNamed_eq_byName, hnames]
  by_cases hb : byName names name = []
  · simp [hb, pure, Except.pure]
  · simp only [hb, if_false]
    cases hl : byName names name with
    | nil => exact absurd hl hb
    | cons i is =>
      rw [← hl, mapM_ok _ (symObs env.enumDecode cls es names) _ (fun i hi =>
        layout_getSymbol env m sol core L i (by have := byName_lt names name i hi; rw [L.nlen] at this; exact this))]
      rfl

/-! ### SHT_SYMTAB_SHNDX and SUNW syminfo entries -/

theorem elfWord_spec (c : ElfCfg) : (Spec.elfStructs c).Elf_word = .uint 4 c.le := by
  simp [Spec.elfStructs]

theorem getSectionIndex_ok (env : Env) (c : ElfCfg) (data : Bytes) (h : SecHdr) (n w : Nat) (rest : Bytes)
    (hw : w < 2 ^ 32) (hd : data.drop (h.off + n * h.entsize) = encNat c.le 4 w ++ rest) :
    getSectionIndex (Spec.elfStructs c) env data h n = .ok (.int w) := by
  simp only [getSectionIndex, elfWord_spec, structParse, parse_uint_enc (show w < 256 ^ 4 by omega) hd, bind, Except.bind,
    pure, Except.pure]

theorem syminfo_spec (c : ElfCfg) : (Spec.elfStructs c).Elf_Sunw_Syminfo
    = .struct (.cons (some "si_boundto") false (.enum (.uint 2 c.le) "ENUM_SUNW_SYMINFO_BOUNDTO" true)
        (.cons (some "si_flags") false (.uint 2 c.le) .nil)) := by
  simp [Spec.elfStructs, st, f, mkFields, enumOf]

/-- one syminfo entry parses back to (`si_boundto` through its code table, `si_flags`) -/
theorem syminfo_entry_ok (env : Env) (c : ElfCfg) (data : Bytes) (pos b fl : Nat) (rest : Bytes)
    (hb : b < 65536) (hf : fl < 65536) (hd : data.drop pos = encSyminfo c.le [(b, fl)] ++ rest) :
    structParse env (Spec.elfStructs c).Elf_Sunw_Syminfo data pos = .ok (obsSyminfo env.enumDecode (b, fl), pos + 4) := by
  have h0 : data.drop pos = encNat c.le 2 b ++ (encNat c.le 2 fl ++ rest) := by
    rw [hd]; simp [encSyminfo, List.append_assoc]
  have h1 := drop_add_of_drop h0; rw [encNat_length] at h1
  rw [syminfo_spec, structParse, Con.parse]
  rw [parseFields_named (parse_enum_uint (by omega) h0), parseFields_named (parse_uint_enc (by omega) h1), Con.parseFields]
  simp [bind, Except.bind, pure, Except.pure, Fields.set, obsSyminfo, Nat.add_assoc]

end PyElf.Proofs
