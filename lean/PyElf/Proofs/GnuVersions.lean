/-
  Helper lemmas for C15: record round trips (through the generic fixed-shape
  theorem), string-table reads, and the generic walk lemmas (a chain of records
  linked by displacements is reproduced by the model's loops).
-/
import PyElf.Spec.ElfStructs
import PyElf.Spec.GnuVersions
import PyElf.Model.GnuVersions
import PyElf.Proofs.Fixed
namespace PyElf.Proofs
open PyElf PyElf.Spec PyElf.Model

/-! ### bytes / strings at a position -/

theorem drop_of_bytesAt {data : Bytes} {pos : Nat} {bs : Bytes} (h : bytesAt data pos bs = true) :
    data.drop pos = bs ++ (data.drop pos).drop bs.length := by
  have h' : (data.drop pos).take bs.length = bs := by simpa [bytesAt, readN] using h
  conv => lhs; rw [← List.take_append_drop bs.length (data.drop pos), h']

theorem pos_lt_of_bytesAt {data : Bytes} {pos : Nat} {bs : Bytes} (h : bytesAt data pos bs = true)
    (hne : 0 < bs.length) : pos < data.length := by
  have h' := drop_of_bytesAt h
  have hl := congrArg List.length h'
  simp [List.length_drop] at hl
  omega

theorem pos_lt_of_strAt {data : Bytes} {pos : Nat} {s : Bytes} (h : gv_strAt data pos s = true) :
    pos < data.length := by
  have h' : firstNul (data.drop pos) = some s := by simpa [gv_strAt] using h
  rcases Nat.lt_or_ge pos data.length with hlt | hge
  · exact hlt
  · rw [List.drop_eq_nil_of_le hge] at h'
    simp [firstNul] at h'

theorem seekCheck_ok {pos : Nat} (h : pos < 2 ^ 63) : seekCheck pos = .ok () := by
  have : ¬ pos ≥ 2 ^ 63 := by omega
  simp [seekCheck, this]

/-- `StringTableSection.get_string` returns the NUL-terminated string the table holds there -/
theorem strtabGet_of_strAt {data : Bytes} {toff off : Nat} {s : Bytes} (hlen : data.length < 2 ^ 63)
    (h : gv_strAt data (toff + off) s = true) : strtabGet data toff off = .ok s := by
  have hp := pos_lt_of_strAt h
  have h' : firstNul (data.drop (toff + off)) = some s := by simpa [gv_strAt] using h
  have hc : parseCStringFromStream data (toff + off) 64 = .ok (firstNul (data.drop (toff + off))) := by
    have := cstringChunkLoop_eq data 64 (by omega) (data.length - (toff + off) + 2) (toff + off) [] (by omega)
    simpa [parseCStringFromStream] using this
  simp [strtabGet, parseCStringAt, seekCheck_ok (show toff + off < 2 ^ 63 by omega), hc, h', bind, Except.bind,
    pure, Except.pure]

/-- a fixed-shape record whose bytes sit at `pos` is parsed to its decoded value -/
theorem structParseAt_of_bytesAt (env : Env) (c : Con) (hc : c.fixed = true) (raw obs : Val) (bs : Bytes)
    (he : c.encodeRaw raw = some bs) (hd : c.decodeRaw env [] raw = .ok obs) (hne : 0 < bs.length)
    {data : Bytes} {pos : Nat} (hlen : data.length < 2 ^ 63) (h : bytesAt data pos bs = true) :
    structParseAt env c data pos = .ok (obs, pos + bs.length) := by
  have hp := pos_lt_of_bytesAt h hne
  have hr := rt_con env c hc raw bs he data pos _ [] (drop_of_bytesAt h)
  have hlt : ¬ (2 ^ 63 ≤ pos) := by omega
  simp [structParseAt, structParse, hlt, hr, hd, bind, Except.bind,
    Except.map, pure, Except.pure]

/-! ### the five records -/

theorem enc_uint_nat (n : Nat) (le : Bool) (v : Nat) (h : v < 256 ^ n) :
    Con.encodeRaw (.uint n le) (.int (v : Int)) = some (encNat le n v) := by
  have h' : (v : Int) < ((256 ^ n : Nat) : Int) := by omega
  rw [Int.natCast_pow] at h'
  rw [Con.encodeRaw]
  simp at h'
  simp [h']

theorem verneed_encodeRaw (c : ElfCfg) (r : Verneed) (hf : r.fits = true) :
    (Spec.elfStructs c).Elf_Verneed.encodeRaw r.obs = some (r.enc c.le) := by
  simp only [Verneed.fits, half, word, Bool.and_eq_true, decide_eq_true_eq] at hf
  obtain ⟨⟨⟨⟨h1, h2⟩, h3⟩, h4⟩, h5⟩ := hf
  simp [Spec.elfStructs, st, mkFields, f, Verneed.obs, Con.encodeRaw, ConFields.encodeRaw, Fields.get?, Verneed.enc,
    enc_uint_nat, h1, h2, h3, h4, h5]

theorem vernaux_encodeRaw (c : ElfCfg) (r : Vernaux) (hf : r.fits = true) :
    (Spec.elfStructs c).Elf_Vernaux.encodeRaw r.obs = some (r.enc c.le) := by
  simp only [Vernaux.fits, half, word, Bool.and_eq_true, decide_eq_true_eq] at hf
  obtain ⟨⟨⟨⟨h1, h2⟩, h3⟩, h4⟩, h5⟩ := hf
  simp [Spec.elfStructs, st, mkFields, f, Vernaux.obs, Con.encodeRaw, ConFields.encodeRaw, Fields.get?, Vernaux.enc,
    enc_uint_nat, h1, h2, h3, h4, h5]

theorem verdef_encodeRaw (c : ElfCfg) (r : Verdef) (hf : r.fits = true) :
    (Spec.elfStructs c).Elf_Verdef.encodeRaw r.obs = some (r.enc c.le) := by
  simp only [Verdef.fits, half, word, Bool.and_eq_true, decide_eq_true_eq] at hf
  obtain ⟨⟨⟨⟨⟨⟨h1, h2⟩, h3⟩, h4⟩, h5⟩, h6⟩, h7⟩ := hf
  simp [Spec.elfStructs, st, mkFields, f, Verdef.obs, Con.encodeRaw, ConFields.encodeRaw, Fields.get?, Verdef.enc,
    enc_uint_nat, h1, h2, h3, h4, h5, h6, h7]

theorem verdaux_encodeRaw (c : ElfCfg) (r : Verdaux) (hf : r.fits = true) :
    (Spec.elfStructs c).Elf_Verdaux.encodeRaw r.obs = some (r.enc c.le) := by
  simp only [Verdaux.fits, word, Bool.and_eq_true, decide_eq_true_eq] at hf
  obtain ⟨h1, h2⟩ := hf
  simp [Spec.elfStructs, st, mkFields, f, Verdaux.obs, Con.encodeRaw, ConFields.encodeRaw, Fields.get?, Verdaux.enc,
    enc_uint_nat, h1, h2]

theorem verneed_decodeRaw (env : Env) (c : ElfCfg) (r : Verneed) :
    (Spec.elfStructs c).Elf_Verneed.decodeRaw env [] r.obs = .ok r.obs := by
  simp [Spec.elfStructs, st, mkFields, f, Verneed.obs, Con.decodeRaw, ConFields.decodeRaw, Fields.get?, Fields.set,
    bind, Except.bind, pure, Except.pure]

theorem vernaux_decodeRaw (env : Env) (c : ElfCfg) (r : Vernaux) :
    (Spec.elfStructs c).Elf_Vernaux.decodeRaw env [] r.obs = .ok r.obs := by
  simp [Spec.elfStructs, st, mkFields, f, Vernaux.obs, Con.decodeRaw, ConFields.decodeRaw, Fields.get?, Fields.set,
    bind, Except.bind, pure, Except.pure]

theorem verdef_decodeRaw (env : Env) (c : ElfCfg) (r : Verdef) :
    (Spec.elfStructs c).Elf_Verdef.decodeRaw env [] r.obs = .ok r.obs := by
  simp [Spec.elfStructs, st, mkFields, f, Verdef.obs, Con.decodeRaw, ConFields.decodeRaw, Fields.get?, Fields.set,
    bind, Except.bind, pure, Except.pure]

theorem verdaux_decodeRaw (env : Env) (c : ElfCfg) (r : Verdaux) :
    (Spec.elfStructs c).Elf_Verdaux.decodeRaw env [] r.obs = .ok r.obs := by
  simp [Spec.elfStructs, st, mkFields, f, Verdaux.obs, Con.decodeRaw, ConFields.decodeRaw, Fields.get?, Fields.set,
    bind, Except.bind, pure, Except.pure]

theorem verneed_enc_length (le : Bool) (r : Verneed) : (r.enc le).length = 16 := by
  simp [Verneed.enc, encNat_length]
theorem vernaux_enc_length (le : Bool) (r : Vernaux) : (r.enc le).length = 16 := by
  simp [Vernaux.enc, encNat_length]
theorem verdef_enc_length (le : Bool) (r : Verdef) : (r.enc le).length = 20 := by
  simp [Verdef.enc, encNat_length]
theorem verdaux_enc_length (le : Bool) (r : Verdaux) : (r.enc le).length = 8 := by
  simp [Verdaux.enc, encNat_length]

/-! ### field access on the observed records -/

theorem getNat_int (fs : Fields) (k : String) (n : Nat) (h : Fields.get? fs k = some (.int (n : Int))) :
    (Val.record fs).getNat k = .ok n := by
  simp [Val.getNat, Val.getField, Fields.getR, h, Val.asNat, Val.asInt, bind, Except.bind]

theorem vernaux_name (r : Vernaux) : r.obs.getNat "vna_name" = .ok r.name := getNat_int _ _ _ (by simp [Fields.get?])
theorem vernaux_next (r : Vernaux) : r.obs.getNat "vna_next" = .ok r.next := getNat_int _ _ _ (by simp [Fields.get?])
theorem vernaux_other (r : Vernaux) : r.obs.getNat "vna_other" = .ok r.other := getNat_int _ _ _ (by simp [Fields.get?])
theorem verneed_cnt (r : Verneed) : r.obs.getNat "vn_cnt" = .ok r.cnt := getNat_int _ _ _ (by simp [Fields.get?])
theorem verneed_file (r : Verneed) : r.obs.getNat "vn_file" = .ok r.file := getNat_int _ _ _ (by simp [Fields.get?])
theorem verneed_aux (r : Verneed) : r.obs.getNat "vn_aux" = .ok r.aux := getNat_int _ _ _ (by simp [Fields.get?])
theorem verneed_next (r : Verneed) : r.obs.getNat "vn_next" = .ok r.next := getNat_int _ _ _ (by simp [Fields.get?])
theorem verdaux_name (r : Verdaux) : r.obs.getNat "vda_name" = .ok r.name := getNat_int _ _ _ (by simp [Fields.get?])
theorem verdaux_next (r : Verdaux) : r.obs.getNat "vda_next" = .ok r.next := getNat_int _ _ _ (by simp [Fields.get?])
theorem verdef_cnt (r : Verdef) : r.obs.getNat "vd_cnt" = .ok r.cnt := getNat_int _ _ _ (by simp [Fields.get?])
theorem verdef_ndx (r : Verdef) : r.obs.getNat "vd_ndx" = .ok r.ndx := getNat_int _ _ _ (by simp [Fields.get?])
theorem verdef_aux (r : Verdef) : r.obs.getNat "vd_aux" = .ok r.aux := getNat_int _ _ _ (by simp [Fields.get?])
theorem verdef_next (r : Verdef) : r.obs.getNat "vd_next" = .ok r.next := getNat_int _ _ _ (by simp [Fields.get?])

/-! ### one turn of each generator on a record that is laid out at the position -/

section steps
variable (env : Env) (c : ElfCfg) (data : Bytes) (off info strOff : Nat) (hlen : data.length < 2 ^ 63)
include hlen

theorem need_auxStep (pos : Nat) (a : NeedAux) (h : NeedAux.at c.le data strOff pos a = true) :
    auxStep env (VerSec.mkNeed (Spec.elfStructs c) data off info strOff) pos = .ok a.obs := by
  simp only [NeedAux.at, Bool.and_eq_true] at h
  obtain ⟨⟨hf, hb⟩, hs⟩ := h
  have hp := structParseAt_of_bytesAt env _ (by rfl) _ _ _ (vernaux_encodeRaw c a.r hf) (vernaux_decodeRaw env c a.r)
    (by rw [vernaux_enc_length]; omega) hlen hb
  have hfield : (VerSec.mkNeed (Spec.elfStructs c) data off info strOff).field "name" true = "vna_name" := by rfl
  simp only [auxStep, hfield]
  simp [VerSec.mkNeed, hp, vernaux_name, strtabGet_of_strAt hlen hs, NeedAux.obs, bind, Except.bind, pure, Except.pure]

theorem def_auxStep (pos : Nat) (a : DefAux) (h : DefAux.at c.le data strOff pos a = true) :
    auxStep env (VerSec.mkDef (Spec.elfStructs c) data off info strOff) pos = .ok a.obs := by
  simp only [DefAux.at, Bool.and_eq_true] at h
  obtain ⟨⟨hf, hb⟩, hs⟩ := h
  have hp := structParseAt_of_bytesAt env _ (by rfl) _ _ _ (verdaux_encodeRaw c a.r hf) (verdaux_decodeRaw env c a.r)
    (by rw [verdaux_enc_length]; omega) hlen hb
  have hfield : (VerSec.mkDef (Spec.elfStructs c) data off info strOff).field "name" true = "vda_name" := by rfl
  simp only [auxStep, hfield]
  simp [VerSec.mkDef, hp, verdaux_name, strtabGet_of_strAt hlen hs, DefAux.obs, bind, Except.bind, pure, Except.pure]

theorem need_verStep (pos : Nat) (e : NeedEntry) (h : NeedEntry.at c.le data strOff pos e = true) :
    verStep env (VerSec.mkNeed (Spec.elfStructs c) data off info strOff) pos
      = .ok (e.r.obs, some e.file, pos + e.r.aux, e.auxs.length) := by
  simp only [NeedEntry.at, Bool.and_eq_true, decide_eq_true_eq] at h
  obtain ⟨⟨⟨⟨⟨hf, hb⟩, hs⟩, hcnt⟩, hpos⟩, _⟩ := h
  have hp := structParseAt_of_bytesAt env _ (by rfl) _ _ _ (verneed_encodeRaw c e.r hf) (verneed_decodeRaw env c e.r)
    (by rw [verneed_enc_length]; omega) hlen hb
  have hf1 : (VerSec.mkNeed (Spec.elfStructs c) data off info strOff).field "cnt" = "vn_cnt" := by rfl
  have hf2 : (VerSec.mkNeed (Spec.elfStructs c) data off info strOff).field "aux" = "vn_aux" := by rfl
  have hgt : e.r.cnt > 0 := by omega
  simp only [verStep, hf1, hf2]
  simp [VerSec.mkNeed, hp, verneed_cnt, verneed_aux, verneed_file, strtabGet_of_strAt hlen hs, hgt, hcnt.symm,
    bind, Except.bind, pure, Except.pure, Functor.map, Except.map]

theorem def_verStep (pos : Nat) (e : DefEntry) (h : DefEntry.at c.le data strOff pos e = true) :
    verStep env (VerSec.mkDef (Spec.elfStructs c) data off info strOff) pos
      = .ok (e.r.obs, none, pos + e.r.aux, e.auxs.length) := by
  simp only [DefEntry.at, Bool.and_eq_true, decide_eq_true_eq] at h
  obtain ⟨⟨⟨⟨hf, hb⟩, hcnt⟩, hpos⟩, _⟩ := h
  have hp := structParseAt_of_bytesAt env _ (by rfl) _ _ _ (verdef_encodeRaw c e.r hf) (verdef_decodeRaw env c e.r)
    (by rw [verdef_enc_length]; omega) hlen hb
  have hf1 : (VerSec.mkDef (Spec.elfStructs c) data off info strOff).field "cnt" = "vd_cnt" := by rfl
  have hf2 : (VerSec.mkDef (Spec.elfStructs c) data off info strOff).field "aux" = "vd_aux" := by rfl
  have hgt : e.r.cnt > 0 := by omega
  simp only [verStep, hf1, hf2]
  simp [VerSec.mkDef, hp, verdef_cnt, verdef_aux, hgt, hcnt.symm, bind, Except.bind, pure, Except.pure]

end steps

theorem need_chain_of_at {le : Bool} {data : Bytes} {strOff pos : Nat} {e : NeedEntry}
    (h : NeedEntry.at le data strOff pos e = true) :
    chainAt (NeedAux.at le data strOff) (·.r.next) (pos + e.r.aux) e.auxs = true := by
  simp only [NeedEntry.at, Bool.and_eq_true] at h
  exact h.2

theorem def_chain_of_at {le : Bool} {data : Bytes} {strOff pos : Nat} {e : DefEntry}
    (h : DefEntry.at le data strOff pos e = true) :
    chainAt (DefAux.at le data strOff) (·.r.next) (pos + e.r.aux) e.auxs = true := by
  simp only [DefEntry.at, Bool.and_eq_true] at h
  exact h.2

/-- a prefix of a laid-out chain is a laid-out chain (a section may declare fewer records than follow) -/
theorem chainAt_prefix {α : Type} (recAt : Nat → α → Bool) (next : α → Nat) :
    ∀ (xs ys : List α) (pos : Nat), chainAt recAt next pos (xs ++ ys) = true → chainAt recAt next pos xs = true
  | [], _, _, _ => rfl
  | x :: xs, ys, pos, h => by
    simp only [List.cons_append, chainAt, Bool.and_eq_true] at h ⊢
    exact ⟨h.1, chainAt_prefix recAt next xs ys _ h.2⟩

/-! ### generic walk lemmas: a chain is reproduced by the model's loops -/

section walk
variable {env : Env} {vs : VerSec} {A : Type} {aat : Nat → A → Bool} {aobs : A → Val × Bytes} {anext : A → Nat}

theorem auxList_chain
    (hstep : ∀ pos a, aat pos a = true → auxStep env vs pos = .ok (aobs a))
    (hnext : ∀ a, (aobs a).1.getNat (vs.field "next" true) = .ok (anext a)) :
    ∀ (as : List A) (pos : Nat), chainAt aat anext pos as = true →
      auxList env vs as.length pos = .ok (as.map aobs)
  | [], _, _ => rfl
  | a :: rest, pos, h => by
    simp only [chainAt, Bool.and_eq_true] at h
    obtain ⟨h1, h2⟩ := h
    have ih := auxList_chain hstep hnext rest _ h2
    simp [auxList, hstep pos a h1, hnext a, ih, bind, Except.bind, pure, Except.pure]

theorem auxFind_chain
    (hstep : ∀ pos a, aat pos a = true → auxStep env vs pos = .ok (aobs a))
    (hnext : ∀ a, (aobs a).1.getNat (vs.field "next" true) = .ok (anext a))
    (p : Val → R Bool) (q : A → Bool) (hp : ∀ a, p (aobs a).1 = .ok (q a)) :
    ∀ (as : List A) (pos : Nat), chainAt aat anext pos as = true →
      auxFind env vs p as.length pos = .ok ((as.find? q).map aobs)
  | [], _, _ => rfl
  | a :: rest, pos, h => by
    simp only [chainAt, Bool.and_eq_true] at h
    obtain ⟨h1, h2⟩ := h
    have ih := auxFind_chain hstep hnext p q hp rest _ h2
    cases hq : q a <;>
      simp [auxFind, hstep pos a h1, hnext a, hp a, hq, ih, List.find?, bind, Except.bind, pure, Except.pure]

variable {E : Type} {eat : Nat → E → Bool} {erobs : E → Val} {ename : E → Option Bytes} {eauxs : E → List A}
  {eaux enext : E → Nat}

theorem iterVersions_chain
    (hstep : ∀ pos a, aat pos a = true → auxStep env vs pos = .ok (aobs a))
    (hnext : ∀ a, (aobs a).1.getNat (vs.field "next" true) = .ok (anext a))
    (hvstep : ∀ pos e, eat pos e = true → verStep env vs pos = .ok (erobs e, ename e, pos + eaux e, (eauxs e).length))
    (hchain : ∀ pos e, eat pos e = true → chainAt aat anext (pos + eaux e) (eauxs e) = true)
    (hvnext : ∀ e, (erobs e).getNat (vs.field "next") = .ok (enext e)) :
    ∀ (es : List E) (pos : Nat), chainAt eat enext pos es = true →
      iterVersions env vs es.length pos = .ok (es.map fun e => (erobs e, ename e, (eauxs e).map aobs))
  | [], _, _ => rfl
  | e :: rest, pos, h => by
    simp only [chainAt, Bool.and_eq_true] at h
    obtain ⟨h1, h2⟩ := h
    have ih := iterVersions_chain hstep hnext hvstep hchain hvnext rest _ h2
    simp [iterVersions, hvstep pos e h1, auxList_chain hstep hnext _ _ (hchain pos e h1), hvnext e, ih,
      bind, Except.bind, pure, Except.pure]

end walk

/-! ### index resolution and `has_indexes` over a requirement / definition chain -/

theorem find?_map_isSome {α β : Type} (q : α → Bool) (g : α → β) (l : List α) :
    ((l.find? q).map g).isSome = l.any q := by
  induction l with
  | nil => rfl
  | cons a rest ih =>
    cases hq : q a <;> simp [List.find?, hq, ih]

section need
variable (env : Env) (c : ElfCfg) (data : Bytes) (off info strOff : Nat) (hlen : data.length < 2 ^ 63)
include hlen

theorem need_versions_chain (es : List NeedEntry) (pos : Nat)
    (h : needLayout c.le data strOff pos es = true) :
    iterVersions env (VerSec.mkNeed (Spec.elfStructs c) data off info strOff) es.length pos
      = .ok (es.map NeedEntry.obs) :=
  iterVersions_chain (eat := NeedEntry.at c.le data strOff) (aobs := NeedAux.obs) (anext := (·.r.next))
    (erobs := (·.r.obs)) (ename := fun e => some e.file)
    (eauxs := (·.auxs)) (eaux := (·.r.aux)) (enext := (·.r.next))
    (need_auxStep env c data off info strOff hlen) (fun a => vernaux_next a.r)
    (need_verStep env c data off info strOff hlen) (fun _ _ h => need_chain_of_at h) (fun e => verneed_next e.r) es pos h

theorem needGetLoop_chain (idx : Nat) : ∀ (es : List NeedEntry) (pos : Nat),
    needLayout c.le data strOff pos es = true →
    needGetLoop env (VerSec.mkNeed (Spec.elfStructs c) data off info strOff) idx es.length pos
      = .ok ((needFind idx es).map fun ea => (ea.1.r.obs, some ea.1.file, ea.2.r.obs, ea.2.name))
  | [], _, _ => rfl
  | e :: rest, pos, h => by
    simp only [needLayout, chainAt, Bool.and_eq_true] at h
    obtain ⟨h1, h2⟩ := h
    have ih := needGetLoop_chain idx rest _ h2
    have hfind := auxFind_chain (aobs := NeedAux.obs) (anext := (·.r.next))
      (need_auxStep env c data off info strOff hlen) (fun a => vernaux_next a.r)
      (auxOtherIs idx) (fun a => a.r.other == idx)
      (fun a => by simp [auxOtherIs, NeedAux.obs, vernaux_other, bind, Except.bind, pure, Except.pure])
      e.auxs _ (need_chain_of_at h1)
    have hnx : e.r.obs.getNat ((VerSec.mkNeed (Spec.elfStructs c) data off info strOff).field "next") = .ok e.r.next :=
      verneed_next e.r
    cases hq : e.auxs.find? (fun a => a.r.other == idx) with
    | none =>
      simp only [hq, Option.map_none] at hfind
      simp [needGetLoop, need_verStep env c data off info strOff hlen pos e h1, hfind, hnx, needFind, hq,
        bind, Except.bind, pure, Except.pure]
      exact ih
    | some a =>
      simp only [hq, Option.map_some] at hfind
      simp [needGetLoop, need_verStep env c data off info strOff hlen pos e h1, hfind, needFind, hq, NeedAux.obs,
        bind, Except.bind, pure, Except.pure]

theorem hasIndexesLoop_chain : ∀ (es : List NeedEntry) (pos : Nat) (acc : Bool),
    needLayout c.le data strOff pos es = true →
    hasIndexesLoop env (VerSec.mkNeed (Spec.elfStructs c) data off info strOff) es.length pos acc
      = .ok (acc || needHasIndexes es)
  | [], _, acc, _ => by simp [hasIndexesLoop, needHasIndexes, pure, Except.pure]
  | e :: rest, pos, acc, h => by
    simp only [needLayout, chainAt, Bool.and_eq_true] at h
    obtain ⟨h1, h2⟩ := h
    have ih := hasIndexesLoop_chain rest (pos + e.r.next) (acc || e.auxs.any fun a => a.r.other != 0) h2
    have hfind := auxFind_chain (aobs := NeedAux.obs) (anext := (·.r.next))
      (need_auxStep env c data off info strOff hlen) (fun a => vernaux_next a.r)
      auxOtherTruthy (fun a => a.r.other != 0)
      (fun a => by
        by_cases h0 : a.r.other = 0 <;>
        simp [auxOtherTruthy, NeedAux.obs, Vernaux.obs, Val.getField, Fields.getR, Fields.get?, Val.truthy, bind,
          Except.bind, pure, Except.pure, h0])
      e.auxs _ (need_chain_of_at h1)
    have hnx : e.r.obs.getNat ((VerSec.mkNeed (Spec.elfStructs c) data off info strOff).field "next") = .ok e.r.next :=
      verneed_next e.r
    simp only [List.length_cons, hasIndexesLoop, need_verStep env c data off info strOff hlen pos e h1, hfind, hnx,
      bind, Except.bind, find?_map_isSome]
    rw [ih]
    simp [needHasIndexes, Bool.or_assoc]

end need

section defs
variable (env : Env) (c : ElfCfg) (data : Bytes) (off info strOff : Nat) (hlen : data.length < 2 ^ 63)
include hlen

theorem def_auxList (e : DefEntry) (pos : Nat) (h : DefEntry.at c.le data strOff pos e = true) :
    auxList env (VerSec.mkDef (Spec.elfStructs c) data off info strOff) e.auxs.length (pos + e.r.aux)
      = .ok (e.auxs.map DefAux.obs) :=
  auxList_chain (aobs := DefAux.obs) (anext := (·.r.next)) (def_auxStep env c data off info strOff hlen)
    (fun a => verdaux_next a.r) e.auxs _ (def_chain_of_at h)

theorem def_versions_chain (es : List DefEntry) (pos : Nat)
    (h : defLayout c.le data strOff pos es = true) :
    iterVersions env (VerSec.mkDef (Spec.elfStructs c) data off info strOff) es.length pos
      = .ok (es.map DefEntry.obs) :=
  iterVersions_chain (eat := DefEntry.at c.le data strOff) (aobs := DefAux.obs) (anext := (·.r.next))
    (erobs := (·.r.obs)) (ename := fun _ => none)
    (eauxs := (·.auxs)) (eaux := (·.r.aux)) (enext := (·.r.next))
    (def_auxStep env c data off info strOff hlen) (fun a => verdaux_next a.r)
    (def_verStep env c data off info strOff hlen) (fun _ _ h => def_chain_of_at h) (fun e => verdef_next e.r) es pos h

theorem defGetLoop_chain (idx : Nat) : ∀ (es : List DefEntry) (pos : Nat),
    defLayout c.le data strOff pos es = true →
    defGetLoop env (VerSec.mkDef (Spec.elfStructs c) data off info strOff) idx es.length pos
      = .ok ((defFind idx es).map fun e => (e.r.obs, e.auxs.map DefAux.obs))
  | [], _, _ => rfl
  | e :: rest, pos, h => by
    simp only [defLayout, chainAt, Bool.and_eq_true] at h
    obtain ⟨h1, h2⟩ := h
    have ih := defGetLoop_chain idx rest _ h2
    have hnx : e.r.obs.getNat ((VerSec.mkDef (Spec.elfStructs c) data off info strOff).field "next") = .ok e.r.next :=
      verdef_next e.r
    cases hq : e.r.ndx == idx with
    | true =>
      simp [defGetLoop, def_verStep env c data off info strOff hlen pos e h1, verdef_ndx, hq,
        def_auxList env c data off info strOff hlen e pos h1, defFind, List.find?, bind, Except.bind, pure, Except.pure]
    | false =>
      simp [defGetLoop, def_verStep env c data off info strOff hlen pos e h1, verdef_ndx, hq, hnx, defFind, List.find?,
        bind, Except.bind, pure, Except.pure]
      exact ih

end defs

/-! ### the version-symbol table -/

/-- the environment names the reserved version indexes as the Spec does (tie: `Props/TieC15.lean`) -/
def EnvVersym (env : Env) : Prop :=
  ∀ n : Nat, (match env.enumDecode "ENUM_VERSYM" (n : Int) with
              | some s => Val.str s
              | none => Val.int n) = versymVal n

theorem versym_encodeRaw (c : ElfCfg) (ndx : Nat) (hf : half ndx = true) :
    (Spec.elfStructs c).Elf_Versym.encodeRaw (.record [("ndx", .int ndx)]) = some (encNat c.le 2 ndx) := by
  simp only [half, decide_eq_true_eq] at hf
  simp [Spec.elfStructs, st, mkFields, f, enumOf, Con.encodeRaw, ConFields.encodeRaw, Fields.get?, enc_uint_nat, hf]

theorem versym_decodeRaw (env : Env) (henv : EnvVersym env) (c : ElfCfg) (ndx : Nat) :
    (Spec.elfStructs c).Elf_Versym.decodeRaw env [] (.record [("ndx", .int ndx)]) = .ok (versymObs ndx) := by
  have h := henv ndx
  cases hd : env.enumDecode "ENUM_VERSYM" (ndx : Int) <;> rw [hd] at h <;>
    simp [Spec.elfStructs, st, mkFields, f, enumOf, Con.decodeRaw, ConFields.decodeRaw, Fields.get?, Fields.set, hd,
      versymObs, ← h, bind, Except.bind, pure, Except.pure]

theorem versymAt_get {le : Bool} {data : Bytes} {off es : Nat} : ∀ (rows : List VersymRow) (j : Nat),
    versymAt le data off es j rows = true → ∀ (k : Nat) (x : VersymRow), rows[k]? = some x →
      half x.ndx = true ∧ bytesAt data (off + (j + k) * es) (encNat le 2 x.ndx) = true
  | [], _, _, k, x, hx => by simp at hx
  | y :: rest, j, h, k, x, hx => by
    simp only [versymAt, Bool.and_eq_true] at h
    obtain ⟨⟨h1, h2⟩, h3⟩ := h
    cases k with
    | zero =>
      simp at hx
      subst hx
      exact ⟨h1, by simpa using h2⟩
    | succ k =>
      simp at hx
      have := versymAt_get rest (j + 1) h3 k x hx
      have e : j + 1 + k = j + (k + 1) := by omega
      rw [e] at this
      exact this

section versym
variable (env : Env) (henv : EnvVersym env) (c : ElfCfg) (data : Bytes) (hlen : data.length < 2 ^ 63)
  (off size es symOff symEs symStrOff : Nat)
include henv hlen

theorem versym_getSymbol (i : Nat) (x : VersymRow) (hh : half x.ndx = true)
    (hb : bytesAt data (off + i * es) (encNat c.le 2 x.ndx) = true)
    (hsym : (VersymSec.mk' (Spec.elfStructs c) data off size es symOff symEs symStrOff).symName env i = .ok x.symName) :
    (VersymSec.mk' (Spec.elfStructs c) data off size es symOff symEs symStrOff).getSymbol env i = .ok x.obs := by
  have hp := structParseAt_of_bytesAt env _ (by rfl) _ _ _ (versym_encodeRaw c x.ndx hh)
    (versym_decodeRaw env henv c x.ndx) (by rw [encNat_length]; omega) hlen hb
  simp only [VersymSec.getSymbol, hsym]
  simp [VersymSec.mk', hp, VersymRow.obs, bind, Except.bind, pure, Except.pure]

theorem versymLoop_rows (rows : List VersymRow)
    (hget : ∀ i x, rows[i]? = some x →
      (VersymSec.mk' (Spec.elfStructs c) data off size es symOff symEs symStrOff).getSymbol env i = .ok x.obs) :
    ∀ (k i : Nat), i + k = rows.length →
      versymLoop env (VersymSec.mk' (Spec.elfStructs c) data off size es symOff symEs symStrOff) k i
        = .ok ((rows.drop i).map VersymRow.obs)
  | 0, i, h => by
    have : rows.drop i = [] := List.drop_eq_nil_of_le (by omega)
    simp [versymLoop, this, pure, Except.pure]
  | k+1, i, h => by
    have hi : i < rows.length := by omega
    have hx : rows[i]? = some rows[i] := List.getElem?_eq_getElem hi
    have ih := versymLoop_rows rows hget k (i + 1) (by omega)
    have hd : rows.drop i = rows[i] :: rows.drop (i + 1) := List.drop_eq_getElem_cons hi
    rw [hd, List.map_cons]
    simp only [versymLoop, hget i _ hx, ih, bind, Except.bind, pure, Except.pure]

end versym

end PyElf.Proofs
