/-
  Helper lemmas for C05 (fourth wave): the header parse of Proofs/LineHeader.lean and
  Proofs/LineHeaderV5.lean generalised in three directions at once —
    * the `unit_length` and `header_length` fields hold ANY encodable numbers (so the unit may carry
      extension bytes between the tables and the program, `encodeUnitX`),
    * what follows the tables is arbitrary,
    * the parameters need only fit their fields (`Header.WFenc`: `maximum_operations_per_instruction`
      and `line_range` may be 0, non-standard `standard_opcode_lengths`),
  and `_parse_line_program_at_offset` on such units: the program starts `header_length` bytes past
  the `header_length` field.
-/
import PyElf.Spec.LineProgramExt
import PyElf.Proofs.LineHeaderV5
namespace PyElf.Proofs.Line
open PyElf PyElf.Spec PyElf.Spec.Line PyElf.Model.Line PyElf.Proofs

/-! ### Spec side: the extended unit without extension is the plain unit -/

theorem midX_nil (h : Header) : h.midX [] = h.mid := by
  simp [Header.midX, Header.mid]

theorem encodeUnitX_nil (h : Header) (is : List Instr) :
    encodeUnitX h [] (encodeProgram h.p is) = encodeUnit h is := by
  simp [encodeUnitX, encodeUnit, midX_nil]

theorem headerSizeX_nil (h : Header) : headerSizeX h [] = headerSize h := by
  simp [headerSizeX, headerSize, midX_nil]

theorem observe_eq_observeG (h : Header) (secs : StrSecs) (is : List Instr) :
    h.observe secs is = h.observeG secs (h.mid ++ h.tail ++ encodeProgram h.p is).length h.tail.length := rfl

theorem observeX_nil (h : Header) (secs : StrSecs) (is : List Instr) :
    h.observeX secs [] (encodeProgram h.p is) = h.observe secs is := by
  simp [Header.observeX, observe_eq_observeG, midX_nil]

theorem Params.WF_enc {p : Params} {ver : Nat} (h : p.WF ver = true) : p.WFenc ver = true := by
  simp only [Params.WF, Bool.and_eq_true, decide_eq_true_eq, Bool.or_eq_true] at h
  simp only [Params.WFenc, Bool.and_eq_true, decide_eq_true_eq, Bool.or_eq_true]
  obtain ⟨⟨⟨⟨⟨⟨⟨⟨⟨⟨⟨⟨⟨h1, h2⟩, h3⟩, h4⟩, h5⟩, h6⟩, h7⟩, h8⟩, h9⟩, h10⟩, h11⟩, h12⟩, h13⟩, _⟩ := h
  exact ⟨⟨⟨⟨⟨⟨⟨⟨⟨⟨h1, h3⟩, h4⟩, h5⟩, h6⟩, h7⟩, h9⟩, h10⟩, h11⟩, h12⟩, h13⟩

theorem Header.WF_enc {h : Header} {secs : StrSecs} (hw : h.WF secs = true) : h.WFenc secs = true := by
  simp only [Header.WF, Bool.and_eq_true] at hw
  obtain ⟨⟨⟨⟨⟨⟨h1, h2⟩, hp⟩, h3⟩, h4⟩, _⟩, h5⟩ := hw
  simp only [Header.WFenc, Bool.and_eq_true]
  exact ⟨⟨⟨⟨⟨h1, h2⟩, Params.WF_enc hp⟩, h3⟩, h4⟩, h5⟩

/-- a well-formed unit of Spec/LineProgram.lean is an encodable unit without extension bytes -/
theorem unitWF_X {h : Header} {secs : StrSecs} {is : List Instr} (hw : unitWF h secs is = true) :
    unitWFX h secs [] (encodeProgram h.p is) = true := by
  simp only [unitWF, Bool.and_eq_true] at hw
  obtain ⟨⟨hh, _⟩, hb⟩ := hw
  have ht : h.tail.length < 2 ^ 32 := by
    simp only [Header.WF, Bool.and_eq_true, decide_eq_true_eq] at hh
    exact hh.1.2
  simp only [unitWFX, Bool.and_eq_true, decide_eq_true_eq]
  refine ⟨⟨Header.WF_enc hh, by simpa using ht⟩, ?_⟩
  simpa [midX_nil] using hb

/-! ### the parsed fields, with `unit_length` and `header_length` as parameters -/

def legacyFieldsG (h : Header) (UL HL : Nat) : Fields :=
  [("unit_length", .int UL),
   ("version", .int h.version), ("address_size", .none), ("segment_selector_size", .none),
   ("header_length", .int HL),
   ("minimum_instruction_length", .int h.p.minInst),
   ("maximum_operations_per_instruction", .int h.p.maxOps),
   ("default_is_stmt", .int h.p.defaultIsStmt), ("line_base", .int h.p.lineBase),
   ("line_range", .int h.p.lineRange), ("opcode_base", .int h.p.opcodeBase),
   ("standard_opcode_lengths", .list (h.p.stdLens.map fun n => .int (Int.ofNat n))),
   ("directory_entry_format", .none), ("directories", .none), ("file_name_entry_format", .none),
   ("file_names", .none),
   ("include_directory", .list (h.includeDirs.map .bytes)),
   ("file_entry", .list (h.files.map FileEntry.obs))]

theorem observeG_legacy (h : Header) (secs : StrSecs) (UL HL : Nat) (hv : h.version ≤ 4) :
    h.observeG secs UL HL = .record (legacyFieldsG h UL HL) := by
  have : ¬ h.version ≥ 5 := by omega
  simp [Header.observeG, legacyFieldsG, this]

/-- `struct_parse(Dwarf_lineprog_header)` on a version 2–4 header whose `unit_length` /
    `header_length` fields hold `UL` / `HL`, followed by anything -/
theorem parseHeader_legacyG {env : Env} {cfg : DwarfCfg} (h : Header) (secs : StrSecs) (UL HL : Nat)
    (data rest : Bytes) (pos : Nat) (hwf : h.WFenc secs = true) (hv : h.version ≤ 4) (hle : h.p.le = cfg.le)
    (hfmt : cfg.fmt = if h.fmt64 then 64 else 32)
    (hUL : UL < (if h.fmt64 then 2 ^ 64 else 0xFFFFFF00)) (hHL : HL < 256 ^ offSize h.fmt64)
    (hd : data.drop pos = encInitLen cfg.le (initLenOf h.fmt64 UL) ++ (encNat cfg.le 2 h.version
      ++ (encNat cfg.le (offSize h.fmt64) HL ++ (h.tail ++ rest)))) :
    parseHeader env (Spec.dwarfStructs cfg) data pos
      = .ok (legacyFieldsG h UL HL, pos + initLenSize h.fmt64 + 2 + offSize h.fmt64 + h.tail.length) := by
  have hv5 : ¬ h.version ≥ 5 := by omega
  simp only [Header.WFenc, Bool.and_eq_true, decide_eq_true_eq, if_neg hv5] at hwf
  obtain ⟨⟨⟨⟨⟨hv2, _⟩, hp⟩, _⟩, _⟩, hdirs, hfiles⟩ := hwf
  have hp' := hp
  simp only [Params.WFenc, Bool.and_eq_true, decide_eq_true_eq, Bool.or_eq_true] at hp'
  obtain ⟨⟨⟨⟨⟨⟨⟨⟨⟨⟨hmin, hm256⟩, hm4⟩, hdis⟩, hlb1⟩, hlb2⟩, hlr256⟩, hob1⟩, hob256⟩, hlen⟩, hlens⟩ := hp'
  have hlens' : ∀ n ∈ h.p.stdLens, n < 256 := by simpa [List.all_eq_true] using hlens
  have hdirs' : ∀ s ∈ h.includeDirs, s ≠ [] ∧ ∀ b ∈ s, b ≠ 0 := by
    intro s hs
    have := (List.all_eq_true.1 hdirs) s hs
    simpa [cstrOk] using this
  have hfiles' : ∀ e ∈ h.files, e.WF = true := by simpa [List.all_eq_true] using hfiles
  have hosz : cfg.fmt / 8 = offSize h.fmt64 := by rw [hfmt]; cases h.fmt64 <;> rfl
  -- the bytes, piece by piece
  obtain ⟨B4, hB4⟩ : ∃ b : Bytes, b = if h.version ≥ 4 then [byte h.p.maxOps] else [] := ⟨_, rfl⟩
  obtain ⟨D, hD⟩ : ∃ b : Bytes, b = (h.includeDirs.flatMap fun s => s ++ [0]) := ⟨_, rfl⟩
  obtain ⟨F, hF⟩ : ∃ b : Bytes, b = h.files.flatMap FileEntry.enc := ⟨_, rfl⟩
  have e2 : h.tail = [byte h.p.minInst] ++ B4 ++ [byte h.p.defaultIsStmt, byte (ofSigned 8 h.p.lineBase),
      byte h.p.lineRange, byte h.p.opcodeBase] ++ h.p.stdLens.map byte ++ (D ++ [0] ++ F ++ [0]) := by
    rw [Header.tail, if_neg hv5, hB4, hD, hF]
  have d0 : data.drop pos = encInitLen cfg.le (initLenOf h.fmt64 UL) ++ (encNat cfg.le 2 h.version
      ++ (encNat cfg.le (offSize h.fmt64) HL ++ ([byte h.p.minInst] ++ (B4 ++ ([byte h.p.defaultIsStmt]
      ++ ([byte (ofSigned 8 h.p.lineBase)] ++ ([byte h.p.lineRange] ++ ([byte h.p.opcodeBase] ++ (h.p.stdLens.map byte
      ++ (D ++ [0] ++ (F ++ [0] ++ rest))))))))))) := by
    rw [hd, e2]
    simp [List.append_assoc]
  obtain ⟨p1, hp1⟩ : ∃ x, x = pos + initLenSize h.fmt64 := ⟨_, rfl⟩
  obtain ⟨p2, hp2⟩ : ∃ x, x = p1 + 2 := ⟨_, rfl⟩
  obtain ⟨p3, hp3⟩ : ∃ x, x = p2 + cfg.fmt / 8 := ⟨_, rfl⟩
  obtain ⟨p4, hp4⟩ : ∃ x, x = p3 + 1 := ⟨_, rfl⟩
  obtain ⟨p5, hp5⟩ : ∃ x, x = p4 + B4.length := ⟨_, rfl⟩
  obtain ⟨p6, hp6⟩ : ∃ x, x = p5 + 1 := ⟨_, rfl⟩
  obtain ⟨p7, hp7⟩ : ∃ x, x = p6 + 1 := ⟨_, rfl⟩
  obtain ⟨p8, hp8⟩ : ∃ x, x = p7 + 1 := ⟨_, rfl⟩
  obtain ⟨p9, hp9⟩ : ∃ x, x = p8 + 1 := ⟨_, rfl⟩
  obtain ⟨p10, hp10⟩ : ∃ x, x = p9 + (h.p.stdLens.map byte).length := ⟨_, rfl⟩
  obtain ⟨p11, hp11⟩ : ∃ x, x = p10 + D.length + 1 := ⟨_, rfl⟩
  obtain ⟨p12, hp12⟩ : ∃ x, x = p11 + F.length + 1 := ⟨_, rfl⟩
  have d1 := drop_add_of_drop d0; rw [encInitLen_length, ← hp1] at d1
  have d2 := drop_add_of_drop d1; rw [encNat_length, ← hp2] at d2
  have d3 := drop_add_of_drop d2; rw [encNat_length, ← hosz, ← hp3] at d3
  have d4 := drop_add_of_drop d3; rw [List.length_singleton, ← hp4] at d4
  have d5 := drop_add_of_drop d4; rw [← hp5] at d5
  have d6 := drop_add_of_drop d5; rw [List.length_singleton, ← hp6] at d6
  have d7 := drop_add_of_drop d6; rw [List.length_singleton, ← hp7] at d7
  have d8 := drop_add_of_drop d7; rw [List.length_singleton, ← hp8] at d8
  have d9 := drop_add_of_drop d8; rw [List.length_singleton, ← hp9] at d9
  have d10 := drop_add_of_drop d9; rw [← hp10] at d10
  have d11 : data.drop p11 = F ++ [0] ++ rest := by
    have := drop_add_of_drop d10
    rw [hp11]; simpa [Nat.add_assoc] using this
  -- field results
  have c0 := fun cx => parse_initlen_val (env := env) (c := cx) h.fmt64 UL hUL d0
  have c1 := fun cx => parse_uint_val (env := env) (c := cx) (n := 2) (v := h.version) (by omega) d1
  have hHL' : HL < 256 ^ (cfg.fmt / 8) := by rw [hosz]; exact hHL
  have d2' := d2
  rw [← hosz] at d2'
  have c2 := fun cx => parse_uint_val (env := env) (c := cx) hHL' d2'
  have c3 := fun cx => parse_u8_val (env := env) (le := cfg.le) (c := cx) hmin d3
  have c5 := fun cx => parse_u8_val (env := env) (le := cfg.le) (c := cx) hdis d5
  have c6 := fun cx => parse_s8_val (env := env) (le := cfg.le) (c := cx) hlb1 hlb2 d6
  have c7 := fun cx => parse_u8_val (env := env) (le := cfg.le) (c := cx) hlr256 d7
  have c8 := fun cx => parse_u8_val (env := env) (le := cfg.le) (c := cx) hob256 d8
  simp only [← hp1] at c0
  simp only [← hp2] at c1
  simp only [← hp3] at c2
  simp only [← hp4] at c3
  simp only [← hp6] at c5
  simp only [← hp7] at c6
  simp only [← hp8] at c7
  simp only [← hp9] at c8
  have c9 : ∀ cx, Fields.getR cx "opcode_base" = .ok (.int h.p.opcodeBase) →
      Con.parse env data (.array (.sub (ctx "opcode_base") (lit 1)) (.uint 1 cfg.le)) cx p9
        = .ok (.list (h.p.stdLens.map fun n => .int (Int.ofNat n)), p10, cx) := by
    intro cx hcx
    have hcount : (Expr.sub (ctx "opcode_base") (lit 1)).eval cx .none
        = .ok (.int ((h.p.stdLens.map byte).length : Nat)) := by
      have : (h.p.opcodeBase : Int) - 1 = ((h.p.opcodeBase - 1 : Nat) : Int) := by omega
      simp [Expr.eval, ctx, lit, hcx, Expr.arith, Val.asInt, bind, Except.bind, pure, Except.pure, hlen, this]
    rw [parse_array_bytes hcount d9, map_byte_toNat _ hlens', ← hp10]
  have c10 := fun cx => parse_repeat_cstrings (env := env) (ctx := cx) hdirs' (by rw [← hD]; exact d10)
  have c11 := fun cx => parse_repeat_files (env := env) (c := cx) hfiles' (by rw [← hF]; exact d11)
  rw [← hD, ← hp11] at c10
  rw [← hF, ← hp12] at c11
  have hend : p12 = pos + initLenSize h.fmt64 + 2 + offSize h.fmt64 + h.tail.length := by
    have e2' : h.tail.length = 1 + B4.length + 4 + h.p.stdLens.length + (D.length + 1 + F.length + 1) := by
      rw [e2]
      simp; omega
    rw [e2']
    simp at hp10
    omega
  have hvi5 : ¬ ((5 : Int) ≤ (h.version : Int)) := by omega
  have hvl5 : ((h.version : Int) < 5) := by omega
  rw [parseHeader_eq _ (S_header cfg)]
  simp only [headerFields, mkFields, f]
  have c4 : ∀ cx, (if h.version ≥ 4 then Con.parse env data (.uint 1 cfg.le) cx p4 else .ok (.int 1, p4, cx))
      = .ok (.int (h.p.maxOps : Int), p5, cx) := by
    intro cx
    by_cases h4 : h.version ≥ 4
    · have hB : B4 = [byte h.p.maxOps] := by rw [hB4, if_pos h4]
      rw [hB] at d4
      rw [if_pos h4, parse_u8_val hm256 d4, hp5, hB]; rfl
    · have hB : B4 = [] := by rw [hB4, if_neg h4]
      have hmo : h.p.maxOps = 1 := by
        rcases hm4 with h | h
        · omega
        · exact h
      rw [if_neg h4, hp5, hB, hmo]; rfl
  have look : ∀ {cx : Fields} {k : String} {v : Val}, Fields.get? cx k = some v → Fields.getR cx k = .ok v := by
    intro cx k v hk; simp [Fields.getR, hk]
  refine Eq.trans (congrArg (Except.map _) (phf_step (by simp only [parseHeaderField]; exact c0 _))) ?_
  refine Eq.trans (congrArg (Except.map _) (phf_step (by simp only [parseHeaderField]; exact c1 _))) ?_
  refine Eq.trans (congrArg (Except.map _) (phf_step (phf_v5_u8 (ver := h.version) (look (by simp [Fields.get?, Fields.set])) hv5))) ?_
  refine Eq.trans (congrArg (Except.map _) (phf_step (phf_v5_u8 (ver := h.version) (look (by simp [Fields.get?, Fields.set])) hv5))) ?_
  refine Eq.trans (congrArg (Except.map _) (phf_step (by simp only [parseHeaderField]; exact c2 _))) ?_
  refine Eq.trans (congrArg (Except.map _) (phf_step (by simp only [parseHeaderField]; exact c3 _))) ?_
  refine Eq.trans (congrArg (Except.map _) (phf_step (phf_maxops (ver := h.version) (look (by simp [Fields.get?, Fields.set])) (c4 _)))) ?_
  refine Eq.trans (congrArg (Except.map _) (phf_step (by simp only [parseHeaderField]; exact c5 _))) ?_
  refine Eq.trans (congrArg (Except.map _) (phf_step (by simp only [parseHeaderField]; exact c6 _))) ?_
  refine Eq.trans (congrArg (Except.map _) (phf_step (by simp only [parseHeaderField]; exact c7 _))) ?_
  refine Eq.trans (congrArg (Except.map _) (phf_step (by simp only [parseHeaderField]; exact c8 _))) ?_
  refine Eq.trans (congrArg (Except.map _) (phf_step (by simp only [parseHeaderField]; exact c9 _ (look (by simp [Fields.get?, Fields.set]))))) ?_
  refine Eq.trans (congrArg (Except.map _) (phf_step (phf_v5_fmt (ver := h.version) (look (by simp [Fields.get?, Fields.set])) hv5))) ?_
  refine Eq.trans (congrArg (Except.map _) (phf_step (phf_v5_formatted (ver := h.version) (look (by simp [Fields.get?, Fields.set])) hv5))) ?_
  refine Eq.trans (congrArg (Except.map _) (phf_step (phf_v5_fmt (ver := h.version) (look (by simp [Fields.get?, Fields.set])) hv5))) ?_
  refine Eq.trans (congrArg (Except.map _) (phf_step (phf_v5_formatted (ver := h.version) (look (by simp [Fields.get?, Fields.set])) hv5))) ?_
  refine Eq.trans (congrArg (Except.map _) (phf_step (phf_lt5 (ver := h.version) (look (by simp [Fields.get?, Fields.set])) hv5
    (by intro _ _ hc; cases hc) (c10 _)))) ?_
  refine Eq.trans (congrArg (Except.map _) (phf_step (phf_lt5 (ver := h.version) (look (by simp [Fields.get?, Fields.set])) hv5
    (by intro _ _ hc; cases hc) (c11 _)))) ?_
  simp [parseHeaderFields, Except.map, Fields.set, legacyFieldsG, hend]

/-! ### version 5 -/

def v5FieldsWithG (h : Header) (UL HL : Nat) (dirs fns incl fe : Val) : Fields :=
  [("unit_length", .int UL),
   ("version", .int h.version), ("address_size", .int h.p.asz), ("segment_selector_size", .int h.segSel),
   ("header_length", .int HL),
   ("minimum_instruction_length", .int h.p.minInst),
   ("maximum_operations_per_instruction", .int h.p.maxOps),
   ("default_is_stmt", .int h.p.defaultIsStmt), ("line_base", .int h.p.lineBase),
   ("line_range", .int h.p.lineRange), ("opcode_base", .int h.p.opcodeBase),
   ("standard_opcode_lengths", .list (h.p.stdLens.map fun n => .int (Int.ofNat n))),
   ("directory_entry_format", fmtObs h.dirFmt), ("directories", dirs),
   ("file_name_entry_format", fmtObs h.fileFmt), ("file_names", fns),
   ("include_directory", incl), ("file_entry", fe)]

def v5RawFieldsG (h : Header) (UL HL : Nat) : Fields :=
  v5FieldsWithG h UL HL (.list (h.dirs.map (rawRec h.dirFmt))) (.list (h.fileNames.map (rawRec h.fileFmt))) .none .none

/-- `struct_parse(Dwarf_lineprog_header)` on a version 5 header whose `unit_length` /
    `header_length` fields hold `UL` / `HL`, followed by anything -/
theorem parseHeader_v5G {env : Env} (henv : EnvOK env) {cfg : DwarfCfg} (h : Header) (secs : StrSecs) (UL HL : Nat)
    (data rest : Bytes) (pos : Nat) (hwf : h.WFenc secs = true) (hv5 : h.version ≥ 5) (hle : h.p.le = cfg.le)
    (hfmt : cfg.fmt = if h.fmt64 then 64 else 32)
    (hUL : UL < (if h.fmt64 then 2 ^ 64 else 0xFFFFFF00)) (hHL : HL < 256 ^ offSize h.fmt64)
    (hd : data.drop pos = encInitLen cfg.le (initLenOf h.fmt64 UL) ++ (encNat cfg.le 2 h.version
      ++ ([byte h.p.asz] ++ ([byte h.segSel] ++ (encNat cfg.le (offSize h.fmt64) HL ++ (h.tail ++ rest)))))) :
    parseHeader env (Spec.dwarfStructs cfg) data pos
      = .ok (v5RawFieldsG h UL HL, pos + initLenSize h.fmt64 + 2 + 2 + offSize h.fmt64 + h.tail.length) := by
  simp only [Header.WFenc, Bool.and_eq_true, decide_eq_true_eq, if_pos hv5, Bool.or_eq_true] at hwf
  obtain ⟨⟨⟨⟨⟨hv2, hvle⟩, hp⟩, hasz⟩, hseg⟩, ⟨⟨⟨⟨hdf, hff⟩, _⟩, _⟩, hdall⟩, hfall⟩ := hwf
  have hp' := hp
  simp only [Params.WFenc, Bool.and_eq_true, decide_eq_true_eq, Bool.or_eq_true] at hp'
  obtain ⟨⟨⟨⟨⟨⟨⟨⟨⟨⟨hmin, hm256⟩, hm4⟩, hdis⟩, hlb1⟩, hlb2⟩, hlr256⟩, hob1⟩, hob256⟩, hlen⟩, hlens⟩ := hp'
  have hlens' : ∀ n ∈ h.p.stdLens, n < 256 := by simpa [List.all_eq_true] using hlens
  have hdall' : ∀ e ∈ h.dirs, entryWF h.fmt64 secs (kindsOf h.dirFmt) e = true := by
    simpa [List.all_eq_true] using hdall
  have hfall' : ∀ e ∈ h.fileNames, entryWF h.fmt64 secs (kindsOf h.fileFmt) e = true := by
    simpa [List.all_eq_true] using hfall
  have hasz256 : h.p.asz < 256 := by rcases hasz with h | h <;> omega
  have hosz : cfg.fmt / 8 = offSize h.fmt64 := by rw [hfmt]; cases h.fmt64 <;> rfl
  have hv4 : h.version ≥ 4 := by omega
  -- the bytes, piece by piece
  obtain ⟨DF, hDF⟩ : ∃ b : Bytes, b = fmtEnc h.dirFmt := ⟨_, rfl⟩
  obtain ⟨DE, hDE⟩ : ∃ b : Bytes, b = entriesEnc cfg.le h.fmt64 h.dirFmt h.dirs := ⟨_, rfl⟩
  obtain ⟨FF, hFF⟩ : ∃ b : Bytes, b = fmtEnc h.fileFmt := ⟨_, rfl⟩
  obtain ⟨FE, hFE⟩ : ∃ b : Bytes, b = entriesEnc cfg.le h.fmt64 h.fileFmt h.fileNames := ⟨_, rfl⟩
  have e2 : h.tail = [byte h.p.minInst] ++ [byte h.p.maxOps] ++ [byte h.p.defaultIsStmt, byte (ofSigned 8 h.p.lineBase),
      byte h.p.lineRange, byte h.p.opcodeBase] ++ h.p.stdLens.map byte ++ (DF ++ DE ++ FF ++ FE) := by
    rw [Header.tail, if_pos hv5, if_pos hv4, hDF, hDE, hFF, hFE, hle]
  have d0 : data.drop pos = encInitLen cfg.le (initLenOf h.fmt64 UL) ++ (encNat cfg.le 2 h.version
      ++ ([byte h.p.asz] ++ ([byte h.segSel]
      ++ (encNat cfg.le (offSize h.fmt64) HL ++ ([byte h.p.minInst] ++ ([byte h.p.maxOps]
      ++ ([byte h.p.defaultIsStmt]
      ++ ([byte (ofSigned 8 h.p.lineBase)] ++ ([byte h.p.lineRange] ++ ([byte h.p.opcodeBase] ++ (h.p.stdLens.map byte
      ++ (DF ++ (DE ++ (FF ++ (FE ++ rest))))))))))))))) := by
    rw [hd, e2]
    simp [List.append_assoc]
  obtain ⟨p1, hp1⟩ : ∃ x, x = pos + initLenSize h.fmt64 := ⟨_, rfl⟩
  obtain ⟨p2, hp2⟩ : ∃ x, x = p1 + 2 := ⟨_, rfl⟩
  obtain ⟨p3, hp3⟩ : ∃ x, x = p2 + 1 := ⟨_, rfl⟩
  obtain ⟨p4, hp4⟩ : ∃ x, x = p3 + 1 := ⟨_, rfl⟩
  obtain ⟨p5, hp5⟩ : ∃ x, x = p4 + cfg.fmt / 8 := ⟨_, rfl⟩
  obtain ⟨p6, hp6⟩ : ∃ x, x = p5 + 1 := ⟨_, rfl⟩
  obtain ⟨p7, hp7⟩ : ∃ x, x = p6 + 1 := ⟨_, rfl⟩
  obtain ⟨p8, hp8⟩ : ∃ x, x = p7 + 1 := ⟨_, rfl⟩
  obtain ⟨p9, hp9⟩ : ∃ x, x = p8 + 1 := ⟨_, rfl⟩
  obtain ⟨p10, hp10⟩ : ∃ x, x = p9 + 1 := ⟨_, rfl⟩
  obtain ⟨p11, hp11⟩ : ∃ x, x = p10 + 1 := ⟨_, rfl⟩
  obtain ⟨p12, hp12⟩ : ∃ x, x = p11 + (h.p.stdLens.map byte).length := ⟨_, rfl⟩
  obtain ⟨p13, hp13⟩ : ∃ x, x = p12 + DF.length := ⟨_, rfl⟩
  obtain ⟨p14, hp14⟩ : ∃ x, x = p13 + DE.length := ⟨_, rfl⟩
  obtain ⟨p15, hp15⟩ : ∃ x, x = p14 + FF.length := ⟨_, rfl⟩
  obtain ⟨p16, hp16⟩ : ∃ x, x = p15 + FE.length := ⟨_, rfl⟩
  have d1 := drop_add_of_drop d0; rw [encInitLen_length, ← hp1] at d1
  have d2 := drop_add_of_drop d1; rw [encNat_length, ← hp2] at d2
  have d3 := drop_add_of_drop d2; rw [List.length_singleton, ← hp3] at d3
  have d4 := drop_add_of_drop d3; rw [List.length_singleton, ← hp4] at d4
  have d5 := drop_add_of_drop d4; rw [encNat_length, ← hosz, ← hp5] at d5
  have d6 := drop_add_of_drop d5; rw [List.length_singleton, ← hp6] at d6
  have d7 := drop_add_of_drop d6; rw [List.length_singleton, ← hp7] at d7
  have d8 := drop_add_of_drop d7; rw [List.length_singleton, ← hp8] at d8
  have d9 := drop_add_of_drop d8; rw [List.length_singleton, ← hp9] at d9
  have d10 := drop_add_of_drop d9; rw [List.length_singleton, ← hp10] at d10
  have d11 := drop_add_of_drop d10; rw [List.length_singleton, ← hp11] at d11
  have d12 := drop_add_of_drop d11; rw [← hp12] at d12
  have d13 := drop_add_of_drop d12; rw [← hp13] at d13
  have d14 := drop_add_of_drop d13; rw [← hp14] at d14
  have d15 := drop_add_of_drop d14; rw [← hp15] at d15
  -- field results
  have c0 := fun cx => parse_initlen_val (env := env) (c := cx) h.fmt64 UL hUL d0
  have c1 := fun cx => parse_uint_val (env := env) (c := cx) (n := 2) (v := h.version) (by omega) d1
  have c2 := fun cx => parse_u8_val (env := env) (le := cfg.le) (c := cx) hasz256 d2
  have c3 := fun cx => parse_u8_val (env := env) (le := cfg.le) (c := cx) hseg d3
  have hHL' : HL < 256 ^ (cfg.fmt / 8) := by rw [hosz]; exact hHL
  have d4' := d4
  rw [← hosz] at d4'
  have c4 := fun cx => parse_uint_val (env := env) (c := cx) hHL' d4'
  have c5 := fun cx => parse_u8_val (env := env) (le := cfg.le) (c := cx) hmin d5
  have c6 := fun cx => parse_u8_val (env := env) (le := cfg.le) (c := cx) hm256 d6
  have c7 := fun cx => parse_u8_val (env := env) (le := cfg.le) (c := cx) hdis d7
  have c8 := fun cx => parse_s8_val (env := env) (le := cfg.le) (c := cx) hlb1 hlb2 d8
  have c9 := fun cx => parse_u8_val (env := env) (le := cfg.le) (c := cx) hlr256 d9
  have c10 := fun cx => parse_u8_val (env := env) (le := cfg.le) (c := cx) hob256 d10
  simp only [← hp1] at c0
  simp only [← hp2] at c1
  simp only [← hp3] at c2
  simp only [← hp4] at c3
  simp only [← hp5] at c4
  simp only [← hp6] at c5
  simp only [← hp7] at c6
  simp only [← hp8] at c7
  simp only [← hp9] at c8
  simp only [← hp10] at c9
  simp only [← hp11] at c10
  have c6' : ∀ cx, (if h.version ≥ 4 then Con.parse env data (.uint 1 cfg.le) cx p6 else .ok (.int 1, p6, cx))
      = .ok (.int (h.p.maxOps : Int), p7, cx) := fun cx => by rw [if_pos hv4, c6]
  have c11 : ∀ cx, Fields.getR cx "opcode_base" = .ok (.int h.p.opcodeBase) →
      Con.parse env data (.array (.sub (ctx "opcode_base") (lit 1)) (.uint 1 cfg.le)) cx p11
        = .ok (.list (h.p.stdLens.map fun n => .int (Int.ofNat n)), p12, cx) := by
    intro cx hcx
    have hcount : (Expr.sub (ctx "opcode_base") (lit 1)).eval cx .none
        = .ok (.int ((h.p.stdLens.map byte).length : Nat)) := by
      have : (h.p.opcodeBase : Int) - 1 = ((h.p.opcodeBase - 1 : Nat) : Int) := by omega
      simp [Expr.eval, ctx, lit, hcx, Expr.arith, Val.asInt, bind, Except.bind, pure, Except.pure, hlen, this]
    rw [parse_array_bytes hcount d11, map_byte_toNat _ hlens', ← hp12]
  have c12 := fun cx => parse_fmt henv (le := cfg.le) (c := cx) hdf (by rw [← hDF]; exact d12)
  have c14 := fun cx => parse_fmt henv (le := cfg.le) (c := cx) hff (by rw [← hFF]; exact d14)
  rw [← hDF, ← hp13] at c12
  rw [← hFF, ← hp15] at c14
  have c13 : ∀ cx, Fields.getR cx "version" = .ok (.int (h.version : Int)) →
      Fields.getR cx "directory_entry_format" = .ok (fmtObs h.dirFmt) →
      parseHeaderField env (Spec.dwarfStructs cfg) data
          (ifc v5e (.prefixed .uleb (.formatted "directory_entry_format"))) cx p13
        = .ok (.list (h.dirs.map (rawRec h.dirFmt)), p14, cx) := by
    intro cx h1 h2
    rw [phf_v5_entries (secs := secs) h1 hv5 hosz hdf h2 hdall' (by rw [← hDE]; exact d13), ← hDE, ← hp14]
  have c15 : ∀ cx, Fields.getR cx "version" = .ok (.int (h.version : Int)) →
      Fields.getR cx "file_name_entry_format" = .ok (fmtObs h.fileFmt) →
      parseHeaderField env (Spec.dwarfStructs cfg) data
          (ifc v5e (.prefixed .uleb (.formatted "file_name_entry_format"))) cx p15
        = .ok (.list (h.fileNames.map (rawRec h.fileFmt)), p16, cx) := by
    intro cx h1 h2
    rw [phf_v5_entries (secs := secs) h1 hv5 hosz hff h2 hfall' (by rw [← hFE]; exact d15), ← hFE, ← hp16]
  have hend : p16 = pos + initLenSize h.fmt64 + 2 + 2 + offSize h.fmt64 + h.tail.length := by
    have e2' : h.tail.length = 1 + 1 + 4 + h.p.stdLens.length + (DF.length + DE.length + FF.length + FE.length) := by
      rw [e2]
      simp; omega
    rw [e2']
    simp at hp12
    omega
  rw [parseHeader_eq _ (S_header cfg)]
  simp only [headerFields, mkFields, f]
  have look : ∀ {cx : Fields} {k : String} {v : Val}, Fields.get? cx k = some v → Fields.getR cx k = .ok v := by
    intro cx k v hk; simp [Fields.getR, hk]
  refine Eq.trans (congrArg (Except.map _) (phf_step (by simp only [parseHeaderField]; exact c0 _))) ?_
  refine Eq.trans (congrArg (Except.map _) (phf_step (by simp only [parseHeaderField]; exact c1 _))) ?_
  refine Eq.trans (congrArg (Except.map _) (phf_step (phf_v5_plain (ver := h.version) (look (by simp [Fields.get?, Fields.set])) hv5
    (by intro _ _ hc; cases hc) (c2 _)))) ?_
  refine Eq.trans (congrArg (Except.map _) (phf_step (phf_v5_plain (ver := h.version) (look (by simp [Fields.get?, Fields.set])) hv5
    (by intro _ _ hc; cases hc) (c3 _)))) ?_
  refine Eq.trans (congrArg (Except.map _) (phf_step (by simp only [parseHeaderField]; exact c4 _))) ?_
  refine Eq.trans (congrArg (Except.map _) (phf_step (by simp only [parseHeaderField]; exact c5 _))) ?_
  refine Eq.trans (congrArg (Except.map _) (phf_step (phf_maxops (ver := h.version) (look (by simp [Fields.get?, Fields.set])) (c6' _)))) ?_
  refine Eq.trans (congrArg (Except.map _) (phf_step (by simp only [parseHeaderField]; exact c7 _))) ?_
  refine Eq.trans (congrArg (Except.map _) (phf_step (by simp only [parseHeaderField]; exact c8 _))) ?_
  refine Eq.trans (congrArg (Except.map _) (phf_step (by simp only [parseHeaderField]; exact c9 _))) ?_
  refine Eq.trans (congrArg (Except.map _) (phf_step (by simp only [parseHeaderField]; exact c10 _))) ?_
  refine Eq.trans (congrArg (Except.map _) (phf_step (by simp only [parseHeaderField]; exact c11 _ (look (by simp [Fields.get?, Fields.set]))))) ?_
  refine Eq.trans (congrArg (Except.map _) (phf_step (phf_v5_plain (ver := h.version) (look (by simp [Fields.get?, Fields.set])) hv5
    (by intro _ _ hc; simp [entryFormatCon, st] at hc) (c12 _)))) ?_
  refine Eq.trans (congrArg (Except.map _) (phf_step (c13 _ (look (by simp [Fields.get?, Fields.set]))
    (look (by simp [Fields.get?, Fields.set]))))) ?_
  refine Eq.trans (congrArg (Except.map _) (phf_step (phf_v5_plain (ver := h.version) (look (by simp [Fields.get?, Fields.set])) hv5
    (by intro _ _ hc; simp [entryFormatCon, st] at hc) (c14 _)))) ?_
  refine Eq.trans (congrArg (Except.map _) (phf_step (c15 _ (look (by simp [Fields.get?, Fields.set]))
    (look (by simp [Fields.get?, Fields.set]))))) ?_
  refine Eq.trans (congrArg (Except.map _) (phf_step (phf_lt5_v5 (ver := h.version) (look (by simp [Fields.get?, Fields.set])) hv5
    (by intro _ _ hc; cases hc)))) ?_
  refine Eq.trans (congrArg (Except.map _) (phf_step (phf_lt5_v5 (ver := h.version) (look (by simp [Fields.get?, Fields.set])) hv5
    (by intro _ _ hc; cases hc)))) ?_
  simp [parseHeaderFields, Except.map, Fields.set, v5RawFieldsG, v5FieldsWithG, hend]

/-! ### `_parse_line_program_at_offset` on extended units -/

/-- the `LineProgram` object the property prescribes for the unit `encodeUnitX h ext body` placed at `off`:
    the program is `body`, it starts `header_length` bytes past the `header_length` field -/
def lpOfX (h : Header) (secs : StrSecs) (ext body : Bytes) (off : Nat) : LineProg :=
  { header := h.observeX secs ext body,
    fileEntry := if h.version ≥ 5 then none else some (h.files.map FileEntry.obs),
    program_start_offset := off + headerSizeX h ext,
    program_end_offset := off + (encodeUnitX h ext body).length,
    decoded := none }

theorem lpOfX_nil (h : Header) (secs : StrSecs) (is : List Instr) (off : Nat) :
    lpOfX h secs [] (encodeProgram h.p is) off = lpOf h secs is off := by
  simp [lpOfX, lpOf, observeX_nil, headerSizeX_nil, encodeUnitX_nil]

theorem encodeUnitX_length (h : Header) (ext body : Bytes) :
    (encodeUnitX h ext body).length = headerSizeX h ext + body.length := by
  simp [encodeUnitX, headerSizeX, encInitLen_length]; omega

theorem drop_bodyX (h : Header) (ext body pre rest : Bytes) :
    (pre ++ encodeUnitX h ext body ++ rest).drop (pre.length + headerSizeX h ext) = body ++ rest := by
  have : pre ++ encodeUnitX h ext body ++ rest
      = (pre ++ (encInitLen h.p.le (initLenOf h.fmt64 (h.midX ext ++ h.tail ++ ext ++ body).length)
          ++ (h.midX ext ++ h.tail ++ ext))) ++ (body ++ rest) := by
    simp [encodeUnitX, List.append_assoc]
  rw [this]
  have hl : (pre ++ (encInitLen h.p.le (initLenOf h.fmt64 (h.midX ext ++ h.tail ++ ext ++ body).length)
          ++ (h.midX ext ++ h.tail ++ ext))).length = pre.length + headerSizeX h ext := by
    simp [headerSizeX, encInitLen_length]; omega
  rw [← hl, List.drop_left]

theorem parseFreshX_legacy {env : Env} {cfg : DwarfCfg} (msecs : Secs) (h : Header) (secs : StrSecs) (ext body : Bytes)
    (pre rest : Bytes) (hwf : unitWFX h secs ext body = true) (hv : h.version ≤ 4) (hle : h.p.le = cfg.le)
    (hfmt : cfg.fmt = if h.fmt64 then 64 else 32) :
    parseLineProgramFresh env (Spec.dwarfStructs cfg) cfg.fmt msecs (pre ++ encodeUnitX h ext body ++ rest) pre.length
      = .ok (lpOfX h secs ext body pre.length) := by
  have hv5 : ¬ h.version ≥ 5 := by omega
  have hneg : ∀ n : Nat, ¬ ((n : Int) < 0) := fun n => by omega
  simp only [unitWFX, Bool.and_eq_true, decide_eq_true_eq] at hwf
  obtain ⟨⟨hh, hHL⟩, hUL⟩ := hwf
  have hHL' : h.tail.length + ext.length < 256 ^ offSize h.fmt64 := by
    cases h.fmt64 <;> simp [offSize] <;> omega
  have hend : (encodeUnitX h ext body).length
      = (h.midX ext ++ h.tail ++ ext ++ body).length + (if cfg.fmt = 32 then 4 else 12) := by
    rw [hfmt]
    cases hf : h.fmt64 <;> simp [encodeUnitX, encInitLen_length, initLenSize, hf] <;> omega
  have hd : (pre ++ encodeUnitX h ext body ++ rest).drop pre.length
      = encInitLen cfg.le (initLenOf h.fmt64 (h.midX ext ++ h.tail ++ ext ++ body).length) ++ (encNat cfg.le 2 h.version
        ++ (encNat cfg.le (offSize h.fmt64) (h.tail.length + ext.length) ++ (h.tail ++ (ext ++ body ++ rest)))) := by
    have e1 : h.midX ext = encNat cfg.le 2 h.version ++ encNat cfg.le (offSize h.fmt64) (h.tail.length + ext.length) := by
      simp [Header.midX, hv5, hle]
    rw [List.append_assoc, List.drop_left, encodeUnitX]
    generalize (h.midX ext ++ h.tail ++ ext ++ body).length = UL
    rw [e1, hle]
    simp [List.append_assoc]
  rw [parseLineProgramFresh, parseHeader_legacyG h secs _ _ _ _ _ hh hv hle hfmt hUL hHL' hd]
  simp only [bind, Except.bind, pure, Except.pure]
  have r1 : ∀ UL HL, resolveStrings msecs (legacyFieldsG h UL HL) "directory_entry_format" "directories"
      = .ok (legacyFieldsG h UL HL) := by
    intro UL HL; simp [resolveStrings, legacyFieldsG, Fields.get?]
  have r2 : ∀ UL HL, resolveStrings msecs (legacyFieldsG h UL HL) "file_name_entry_format" "file_names"
      = .ok (legacyFieldsG h UL HL) := by
    intro UL HL; simp [resolveStrings, legacyFieldsG, Fields.get?]
  rw [r1]; simp only []
  rw [r2]; simp only []
  have hvi5 : ¬ ((5 : Int) ≤ (h.version : Int)) := by omega
  have hstart : pre.length + headerSizeX h ext
      = pre.length + (if cfg.fmt = 32 then 4 else 12) + 2 + cfg.fmt / 8 + (h.tail.length + ext.length) := by
    have e1 : (h.midX ext).length = 2 + offSize h.fmt64 := by simp [Header.midX, hv5, encNat_length]
    rw [headerSizeX, e1, hfmt]
    cases h.fmt64 <;> simp [initLenSize, offSize] <;> omega
  simp only [lpOfX, Header.observeX, observeG_legacy h secs _ _ hv, legacyFieldsG, hend, if_neg hv5, hstart]
  generalize (h.midX ext ++ h.tail ++ ext ++ body).length = N
  generalize h.tail.length + ext.length = HL
  simp [Fields.get?, Val.getNat, Val.getInt, Val.getField, Fields.getR, Val.asNat, Val.asInt, bind, Except.bind, hneg,
    hvi5]
  omega

theorem observeG_v5 (h : Header) (secs : StrSecs) (UL HL : Nat) (hv5 : h.version ≥ 5) :
    h.observeG secs UL HL = .record (v5FieldsWithG h UL HL (.list (h.dirs.map (obsRec secs h.dirFmt)))
      (.list (h.fileNames.map (obsRec secs h.fileFmt)))
      (.list (h.dirs.map fun e => Spec.Line.getOrNone (entryObs secs h.dirFmt e) "DW_LNCT_path"))
      (.list (h.fileNames.map fun e => legacyFile (entryObs secs h.fileFmt e)))) := by
  simp [Header.observeG, v5FieldsWithG, hv5, List.map_map, Function.comp_def, obsRec]

theorem parseFreshX_v5 {env : Env} (henv : EnvOK env) {cfg : DwarfCfg} {msecs : Secs} (h : Header) (secs : StrSecs)
    (ext body : Bytes) (pre rest : Bytes) (hwf : unitWFX h secs ext body = true) (hv5 : h.version ≥ 5)
    (hle : h.p.le = cfg.le) (hfmt : cfg.fmt = if h.fmt64 then 64 else 32) (hview : SecsView msecs secs) :
    parseLineProgramFresh env (Spec.dwarfStructs cfg) cfg.fmt msecs (pre ++ encodeUnitX h ext body ++ rest) pre.length
      = .ok (lpOfX h secs ext body pre.length) := by
  simp only [unitWFX, Bool.and_eq_true, decide_eq_true_eq] at hwf
  obtain ⟨⟨hh, hHL⟩, hUL⟩ := hwf
  have hwf0 := hh
  simp only [Header.WFenc, Bool.and_eq_true, decide_eq_true_eq, if_pos hv5, Bool.or_eq_true] at hwf0
  obtain ⟨⟨⟨⟨⟨_, _⟩, _⟩, _⟩, _⟩, ⟨⟨⟨⟨hdf, hff⟩, hdne⟩, hfne⟩, hdall⟩, hfall⟩ := hwf0
  have hdall' : ∀ e ∈ h.dirs, entryWF h.fmt64 secs (kindsOf h.dirFmt) e = true := by
    simpa [List.all_eq_true] using hdall
  have hfall' : ∀ e ∈ h.fileNames, entryWF h.fmt64 secs (kindsOf h.fileFmt) e = true := by
    simpa [List.all_eq_true] using hfall
  have hpath : 1 ∈ h.dirFmt.map (·.1) := by
    simp only [fmtWF, Bool.and_eq_true] at hdf
    simpa using hdf.2
  obtain ⟨d0, ds0, hd⟩ : ∃ d ds, h.dirs = d :: ds := by
    cases hh' : h.dirs with
    | nil => exact absurd hh' hdne
    | cons d ds => exact ⟨d, ds, rfl⟩
  obtain ⟨f0, fs0, hf⟩ : ∃ d ds, h.fileNames = d :: ds := by
    cases hh' : h.fileNames with
    | nil => exact absurd hh' hfne
    | cons d ds => exact ⟨d, ds, rfl⟩
  have hneg : ∀ n : Nat, ¬ ((n : Int) < 0) := fun n => by omega
  have hHL' : h.tail.length + ext.length < 256 ^ offSize h.fmt64 := by
    cases h.fmt64 <;> simp [offSize] <;> omega
  have hend : (encodeUnitX h ext body).length
      = (h.midX ext ++ h.tail ++ ext ++ body).length + (if cfg.fmt = 32 then 4 else 12) := by
    rw [hfmt]
    cases hf : h.fmt64 <;> simp [encodeUnitX, encInitLen_length, initLenSize, hf] <;> omega
  have hdrop : (pre ++ encodeUnitX h ext body ++ rest).drop pre.length
      = encInitLen cfg.le (initLenOf h.fmt64 (h.midX ext ++ h.tail ++ ext ++ body).length) ++ (encNat cfg.le 2 h.version
        ++ ([byte h.p.asz] ++ ([byte h.segSel]
        ++ (encNat cfg.le (offSize h.fmt64) (h.tail.length + ext.length) ++ (h.tail ++ (ext ++ body ++ rest)))))) := by
    have e1 : h.midX ext = encNat cfg.le 2 h.version ++ [byte h.p.asz, byte h.segSel]
        ++ encNat cfg.le (offSize h.fmt64) (h.tail.length + ext.length) := by
      simp [Header.midX, hv5, hle]
    rw [List.append_assoc, List.drop_left, encodeUnitX]
    generalize (h.midX ext ++ h.tail ++ ext ++ body).length = UL
    rw [e1, hle]
    simp [List.append_assoc]
  obtain ⟨UL, hULdef⟩ : ∃ n, n = (h.midX ext ++ h.tail ++ ext ++ body).length := ⟨_, rfl⟩
  obtain ⟨HL, hHLdef⟩ : ∃ n, n = h.tail.length + ext.length := ⟨_, rfl⟩
  rw [← hULdef] at hUL hend hdrop
  rw [← hHLdef] at hHL' hdrop
  -- resolve_strings, twice
  have r1 := resolveStrings_ok (m := msecs) (fmt64 := h.fmt64) hview (hdr := v5RawFieldsG h UL HL)
    (ff := "directory_entry_format") (df := "directories") hdf hdall'
    (by simp [v5RawFieldsG, v5FieldsWithG, Fields.get?]) (by simp [v5RawFieldsG, v5FieldsWithG, Fields.get?])
  have s1 : Fields.set (v5RawFieldsG h UL HL) "directories" (.list (h.dirs.map fun e => .record (entryObs secs h.dirFmt e)))
      = v5FieldsWithG h UL HL (.list (h.dirs.map (obsRec secs h.dirFmt)))
          (.list (h.fileNames.map (rawRec h.fileFmt))) .none .none := by
    simp [v5RawFieldsG, v5FieldsWithG, Fields.set, obsRec]
  rw [s1] at r1
  have r2 := resolveStrings_ok (m := msecs) (fmt64 := h.fmt64) hview
    (hdr := v5FieldsWithG h UL HL (.list (h.dirs.map (obsRec secs h.dirFmt))) (.list (h.fileNames.map (rawRec h.fileFmt))) .none .none)
    (ff := "file_name_entry_format") (df := "file_names") hff hfall'
    (by simp [v5FieldsWithG, Fields.get?]) (by simp [v5FieldsWithG, Fields.get?])
  have s2 : Fields.set (v5FieldsWithG h UL HL (.list (h.dirs.map (obsRec secs h.dirFmt)))
        (.list (h.fileNames.map (rawRec h.fileFmt))) .none .none) "file_names"
        (.list (h.fileNames.map fun e => .record (entryObs secs h.fileFmt e)))
      = v5FieldsWithG h UL HL (.list (h.dirs.map (obsRec secs h.dirFmt)))
          (.list (h.fileNames.map (obsRec secs h.fileFmt))) .none .none := by
    simp [v5FieldsWithG, Fields.set, obsRec]
  rw [s2] at r2
  -- the legacy-compatible tables
  have g1 : Fields.get? (v5FieldsWithG h UL HL (.list (h.dirs.map (obsRec secs h.dirFmt)))
        (.list (h.fileNames.map (obsRec secs h.fileFmt))) .none .none) "directories"
      = some (.list (obsRec secs h.dirFmt d0 :: ds0.map (obsRec secs h.dirFmt))) := by
    simp [v5FieldsWithG, Fields.get?, hd]
  have m1 : (obsRec secs h.dirFmt d0 :: ds0.map (obsRec secs h.dirFmt)).mapM (attrOf "DW_LNCT_path")
      = .ok (h.dirs.map fun e => Spec.Line.getOrNone (entryObs secs h.dirFmt e) "DW_LNCT_path") := by
    rw [show obsRec secs h.dirFmt d0 :: ds0.map (obsRec secs h.dirFmt) = h.dirs.map (obsRec secs h.dirFmt) by
      rw [hd]; rfl, mapM_ok _ (fun v => match v with
        | .record fs => Spec.Line.getOrNone fs "DW_LNCT_path"
        | _ => .none), List.map_map]
    · rfl
    · intro v hv
      obtain ⟨e, he, rfl⟩ := List.mem_map.1 hv
      obtain ⟨x, hx⟩ := path_present secs h.dirFmt e (fmtWF_items hdf) hpath (hdall' e he)
      simp [obsRec, attrOf, hx, Spec.Line.getOrNone]
  have s3 : ∀ x, Fields.set (v5FieldsWithG h UL HL (.list (h.dirs.map (obsRec secs h.dirFmt)))
        (.list (h.fileNames.map (obsRec secs h.fileFmt))) .none .none) "include_directory" x
      = v5FieldsWithG h UL HL (.list (h.dirs.map (obsRec secs h.dirFmt)))
          (.list (h.fileNames.map (obsRec secs h.fileFmt))) x .none := by
    intro x; simp [v5FieldsWithG, Fields.set]
  have g2 : ∀ x, Fields.get? (v5FieldsWithG h UL HL (.list (h.dirs.map (obsRec secs h.dirFmt)))
        (.list (h.fileNames.map (obsRec secs h.fileFmt))) x .none) "file_names"
      = some (.list (obsRec secs h.fileFmt f0 :: fs0.map (obsRec secs h.fileFmt))) := by
    intro x; simp [v5FieldsWithG, Fields.get?, hf]
  have m2 : (obsRec secs h.fileFmt f0 :: fs0.map (obsRec secs h.fileFmt)).mapM legacyFileEntry
      = .ok (h.fileNames.map fun e => legacyFile (entryObs secs h.fileFmt e)) := by
    rw [show obsRec secs h.fileFmt f0 :: fs0.map (obsRec secs h.fileFmt) = h.fileNames.map (obsRec secs h.fileFmt) by
      rw [hf]; rfl, mapM_ok _ (fun v => match v with
        | .record fs => legacyFile fs
        | _ => .none), List.map_map]
    · rfl
    · intro v hv
      obtain ⟨e, he, rfl⟩ := List.mem_map.1 hv
      simp [obsRec, legacyFileEntry_ok]
  have s4 : ∀ x y, Fields.set (v5FieldsWithG h UL HL (.list (h.dirs.map (obsRec secs h.dirFmt)))
        (.list (h.fileNames.map (obsRec secs h.fileFmt))) x .none) "file_entry" y
      = v5FieldsWithG h UL HL (.list (h.dirs.map (obsRec secs h.dirFmt)))
          (.list (h.fileNames.map (obsRec secs h.fileFmt))) x y := by
    intro x y; simp [v5FieldsWithG, Fields.set]
  rw [parseLineProgramFresh, parseHeader_v5G henv h secs UL HL _ _ _ hh hv5 hle hfmt hUL hHL' hdrop]
  simp only [bind, Except.bind, pure, Except.pure, r1, r2, g1, m1, s3, g2, m2, s4]
  have hvi5 : ((5 : Int) ≤ (h.version : Int)) := by omega
  have hstart : pre.length + headerSizeX h ext
      = pre.length + (if cfg.fmt = 32 then 4 else 12) + 2 + 2 + cfg.fmt / 8 + HL := by
    have e1 : (h.midX ext).length = 2 + 2 + offSize h.fmt64 := by simp [Header.midX, hv5, encNat_length] <;> omega
    rw [headerSizeX, e1, hfmt, hHLdef]
    cases h.fmt64 <;> simp [initLenSize, offSize] <;> omega
  simp only [lpOfX, Header.observeX, ← hULdef, ← hHLdef, observeG_v5 h secs _ _ hv5, v5FieldsWithG, hend, if_pos hv5, hstart]
  simp [Fields.get?, Val.getNat, Val.getInt, Val.getField, Fields.getR, Val.asNat, Val.asInt, bind, Except.bind, hneg,
    hvi5]
  omega

/-- versions 2–5 together -/
theorem parseFreshX_all {env : Env} {cfg : DwarfCfg} (msecs : Secs) (h : Header) (secs : StrSecs) (ext body : Bytes)
    (pre rest : Bytes) (hwf : unitWFX h secs ext body = true) (hle : h.p.le = cfg.le)
    (hfmt : cfg.fmt = if h.fmt64 then 64 else 32)
    (henv : h.version ≥ 5 → EnvOK env) (hsecs : h.version ≥ 5 → SecsView msecs secs) :
    parseLineProgramFresh env (Spec.dwarfStructs cfg) cfg.fmt msecs (pre ++ encodeUnitX h ext body ++ rest) pre.length
      = .ok (lpOfX h secs ext body pre.length) := by
  by_cases hv : h.version ≤ 4
  · exact parseFreshX_legacy msecs h secs ext body pre rest hwf hv hle hfmt
  · have hv5 : h.version ≥ 5 := by omega
    exact parseFreshX_v5 (henv hv5) h secs ext body pre rest hwf hv5 hle hfmt (hsecs hv5)

end PyElf.Proofs.Line
