/-
  C20, the generator API on a well-formed section: EVERY generator reachable from the section object —
  `iter_subsections()`, `iter_subsubsections()` of every subsection it yields, `iter_attributes()` of
  every sub-subsection those yield — enumerates exactly the description's children at its place, from
  ANY position of the shared stream (`section_generators_exact`).  Together with
  `interleaving_irrelevant` and `solo_of_collect` (Proofs/AttrHistory.lean): under any interleaving.
-/
import PyElf.Proofs.AttrHistory
import PyElf.Proofs.Attrs
namespace PyElf.Proofs.C20
open PyElf PyElf.Spec PyElf.Spec.Attr PyElf.Model PyElf.Model.C20 PyElf.Model.Attr PyElf.Proofs PyElf.Proofs.Attrs

/-- the two lists have the same length and corresponding members are related -/
inductive AllMatch {α β : Type} (R : α → β → Prop) : List α → List β → Prop
  | nil : AllMatch R [] []
  | cons {a : α} {b : β} {l₁ : List α} {l₂ : List β} : R a b → AllMatch R l₁ l₂ → AllMatch R (a :: l₁) (b :: l₂)

theorem AllMatch.length_eq {α β : Type} {R : α → β → Prop} {l₁ : List α} {l₂ : List β} (h : AllMatch R l₁ l₂) :
    l₁.length = l₂.length := by
  induction h with
  | nil => rfl
  | cons _ _ ih => simp [ih]

theorem AllMatch.get {α β : Type} {R : α → β → Prop} {l₁ : List α} {l₂ : List β} (h : AllMatch R l₁ l₂) :
    ∀ (i : Nat) (h₁ : i < l₁.length) (h₂ : i < l₂.length), R l₁[i] l₂[i] := by
  induction h with
  | nil => intro i h₁; simp at h₁
  | cons hr _ ih =>
    intro i h₁ h₂
    cases i with
    | zero => exact hr
    | succ i => exact ih i (by simpa using h₁) (by simpa using h₂)

section
variable (arch : Arch) (env : Env) (cfg : ElfCfg) (data : Bytes)

/-- `list(o.iter_attributes())`, from any stream position, is the attribute list of `t` -/
def AttrsExact (o : SubsubObj) (t : SubSub) : Prop :=
  ∀ pos, ∃ zs q, Gen.collect env (Spec.elfStructs cfg) data (data.length + 3) (.attrs o o.attrStart) pos [] = .ok (zs, q) ∧
    zs.map itemVal = t.attrs.map (obsAttr arch)

/-- the item is a sub-subsection object whose header is `t`'s and whose attributes are `t`'s -/
def SubsubMatch (y : Item) (t : SubSub) : Prop :=
  ∃ o, y = .subsub o ∧ o.header = hdrObj arch t ∧ AttrsExact arch env cfg data o t

/-- `list(o.iter_subsubsections())`, from any stream position: one matching object per sub-subsection of `s` -/
def SubsubsExact (o : SubsecObj) (s : SubSection) : Prop :=
  ∀ pos, ∃ ys q, Gen.collect env (Spec.elfStructs cfg) data (data.length + 3) (.subsubs o o.subsubStart) pos []
      = .ok (ys, q) ∧ AllMatch (SubsubMatch arch env cfg data) ys s.subs

/-- the item is a subsection object with `s`'s length and vendor name, whose sub-subsections are `s`'s -/
def SubsecMatch (x : Item) (s : SubSection) : Prop :=
  ∃ o, x = .subsec o ∧ o.length = s.length cfg.le ∧ o.vendor = .bytes s.vendor ∧ SubsubsExact arch env cfg data o s

end

section
variable {arch : Arch} {env : Env} {cfg : ElfCfg} {data : Bytes}
  (henv : ∀ t : Nat, env.enumDecode (tagTableId arch) (t : Int) = tagName arch t)
include henv

theorem attrs_exact {t : SubSub} {offset : Nat} {rest : Bytes} (hattrs : ∀ x ∈ t.attrs, attrWf arch x = true)
    (hd : data.drop (offset + t.tag.n + 4 + (numsBytes t).length) = encAttrs t.attrs ++ rest) :
    AttrsExact arch env cfg data
      ⟨arch, offset, hdrObj arch t, offset + t.tag.n + 4 + (numsBytes t).length⟩ t := by
  intro pos
  have hl := length_of_drop hd
  have hge := encAttrs_length_ge t.attrs hattrs
  have hfuel : t.attrs.length ≤ data.length + 2 := by
    rw [List.length_append] at hl; omega
  have hloop := attributesLoop_ok (attributeAt arch env (Spec.elfStructs cfg) data) arch data
    (fun x pos rest hx hdx => attributeAt_attr henv hx hdx) t.attrs (data.length + 2) _ [] _ hattrs hfuel hd
  rw [show offset + t.tag.n + 4 + (numsBytes t).length + (encAttrs t.attrs).length = offset + t.size from by
      rw [size_eq]; omega] at hloop
  obtain ⟨zs, q, hc, hz⟩ := collect_attrs_of_loop (env := env) (S := Spec.elfStructs cfg) (data := data)
    ⟨arch, offset, hdrObj arch t, offset + t.tag.n + 4 + (numsBytes t).length⟩ t.size
    (by simp [hdrObj, asNat_nat]) (data.length + 2) _ pos [] _ (by simpa using hloop)
  exact ⟨zs, q, hc, by simpa using hz⟩

theorem subsubs_exact (o : SubsecObj) (ho : o.arch = arch) :
    ∀ (ts : List SubSub) (fuel start : Nat) (rest : Bytes),
      (∀ t ∈ ts, subSubWf arch t = true) → ts.length + 1 ≤ fuel → data.drop start = encSubSubs cfg.le ts ++ rest →
      o.offset + o.length = start + (encSubSubs cfg.le ts).length →
      ∀ pos accI, ∃ ys q, Gen.collect env (Spec.elfStructs cfg) data fuel (.subsubs o start) pos accI
          = .ok (accI.reverse ++ ys, q) ∧ AllMatch (SubsubMatch arch env cfg data) ys ts := by
  intro ts
  induction ts with
  | nil =>
    intro fuel start rest _ hf _ hend pos accI
    cases fuel with
    | zero => omega
    | succ fuel =>
      refine ⟨[], pos, ?_, AllMatch.nil⟩
      rw [Gen.collect]
      simp [Gen.resume, subsubsResume, encSubSubs] at hend ⊢
      simp [hend, bind, Except.bind, pure, Except.pure]
  | cons t ts ih =>
    intro fuel start rest hwf hf hd hend pos accI
    have ht := hwf t (by simp)
    obtain ⟨-, -, -, -, hattrs, -⟩ := subSubWf_iff ht
    have hd' : data.drop start = t.tag.enc ++ (encNat cfg.le 4 t.size ++ (numsBytes t ++
        (encAttrs t.attrs ++ (encSubSubs cfg.le ts ++ rest)))) := by
      rw [hd, encSubSubs_cons, encSubSub, body_eq]; simp only [List.append_assoc]
    have hd2 : data.drop (start + t.tag.n + 4 + (numsBytes t).length)
        = encAttrs t.attrs ++ (encSubSubs cfg.le ts ++ rest) := by
      have h := drop_add_of_drop hd'
      rw [U_enc_length] at h
      have h := drop_add_of_drop h
      rw [encNat_length] at h
      exact drop_add_of_drop h
    have hd3 : data.drop (start + t.size) = encSubSubs cfg.le ts ++ rest := by
      have := drop_add_of_drop hd2
      rwa [show start + t.tag.n + 4 + (numsBytes t).length + (encAttrs t.attrs).length = start + t.size from by
        rw [size_eq]; omega] at this
    have e : (encSubSubs cfg.le (t :: ts)).length = t.size + (encSubSubs cfg.le ts).length := by
      rw [encSubSubs_cons, List.length_append, encSubSub_length]
    have hne : ¬ start = o.offset + o.length := by
      rw [hend, e, SubSub.size]; omega
    cases fuel with
    | zero => omega
    | succ fuel =>
      obtain ⟨ys, q, hc, hm⟩ := ih fuel (start + t.size) rest (fun y hy => hwf y (by simp [hy])) (by simp at hf; omega) hd3
        (by rw [hend, e]; omega) (start + t.tag.n + 4 + (numsBytes t).length)
        (.subsub ⟨o.arch, start, hdrObj arch t, start + t.tag.n + 4 + (numsBytes t).length⟩ :: accI)
      refine ⟨.subsub ⟨o.arch, start, hdrObj arch t, start + t.tag.n + 4 + (numsBytes t).length⟩ :: ys, q, ?_,
        AllMatch.cons ⟨_, rfl, rfl, by rw [ho]; exact attrs_exact henv hattrs hd2⟩ hm⟩
      rw [Gen.collect]
      simp only [Gen.resume, subsubsResume, if_neg hne, ho, attributeAt_scope henv ht hd', bind, Except.bind, pure,
        Except.pure, hdrObj, asNat_nat, Option.map_some]
      rw [ho] at hc
      simp only [hdrObj] at hc
      rw [hc]; simp

theorem subsecs_exact (sec : SecObj) (ho : sec.arch = arch) :
    ∀ (ss : List SubSection) (fuel start : Nat) (rest : Bytes),
      (∀ s ∈ ss, subSectionWf arch cfg.le s = true) → ss.length + 1 ≤ fuel →
      data.drop start = encSubSections cfg.le ss ++ rest →
      sec.shOffset + sec.dataSize = start + (encSubSections cfg.le ss).length →
      ∀ pos accI, ∃ xs q, Gen.collect env (Spec.elfStructs cfg) data fuel (.subsecs sec start) pos accI
          = .ok (accI.reverse ++ xs, q) ∧ AllMatch (SubsecMatch arch env cfg data) xs ss := by
  intro ss
  induction ss with
  | nil =>
    intro fuel start rest _ hf _ hend pos accI
    cases fuel with
    | zero => omega
    | succ fuel =>
      refine ⟨[], pos, ?_, AllMatch.nil⟩
      rw [Gen.collect]
      simp [Gen.resume, subsecsResume, encSubSections] at hend ⊢
      simp [hend, bind, Except.bind, pure, Except.pure]
  | cons s ss ih =>
    intro fuel start rest hwf hf hd hend pos accI
    obtain ⟨hvendor, hsubs, hlen⟩ := subSectionWf_iff (hwf s (by simp))
    obtain ⟨hnul, hutf⟩ := strWf_iff hvendor
    have hd' : data.drop start = encNat cfg.le 4 (s.length cfg.le) ++ (s.vendor ++ [0] ++
        (encSubSubs cfg.le s.subs ++ (encSubSections cfg.le ss ++ rest))) := by
      rw [hd, encSubSections_cons, encSubSection]; simp only [List.append_assoc]
    have hd2 : data.drop (start + 4 + s.vendor.length + 1)
        = encSubSubs cfg.le s.subs ++ (encSubSections cfg.le ss ++ rest) := by
      have h := drop_add_of_drop hd'
      rw [encNat_length] at h
      have h := drop_add_of_drop h
      rwa [List.length_append, List.length_singleton, ← Nat.add_assoc] at h
    have esz : start + 4 + s.vendor.length + 1 + (encSubSubs cfg.le s.subs).length = start + s.length cfg.le := by
      rw [SubSection.length]; omega
    have hd3 : data.drop (start + s.length cfg.le) = encSubSections cfg.le ss ++ rest := by
      have := drop_add_of_drop hd2
      rwa [esz] at this
    have e : (encSubSections cfg.le (s :: ss)).length = s.length cfg.le + (encSubSections cfg.le ss).length := by
      rw [encSubSections_cons, List.length_append, encSubSection_length]
    have hne : ¬ start = sec.shOffset + sec.dataSize := by
      rw [hend, e, SubSection.length]; omega
    have hl := length_of_drop hd2
    have hge := encSubSubs_length_ge cfg.le s.subs
    have hfuel : s.subs.length + 1 ≤ data.length + 3 := by
      rw [List.length_append] at hl; omega
    let o : SubsecObj := ⟨sec.arch, start, s.length cfg.le, .bytes s.vendor, start + 4 + s.vendor.length + 1⟩
    have hsub : SubsubsExact arch env cfg data o s := by
      intro p
      obtain ⟨ys, q, hc, hm⟩ := subsubs_exact henv o ho s.subs (data.length + 3) (start + 4 + s.vendor.length + 1) _
        hsubs hfuel hd2 (by show start + s.length cfg.le = _; rw [← esz]) p []
      exact ⟨ys, q, by simpa using hc, hm⟩
    cases fuel with
    | zero => omega
    | succ fuel =>
      obtain ⟨xs, q, hc, hm⟩ := ih fuel (start + s.length cfg.le) rest (fun y hy => hwf y (by simp [hy]))
        (by simp at hf; omega) hd3 (by rw [hend, e]; omega) (start + 4 + s.vendor.length + 1) (.subsec o :: accI)
      refine ⟨.subsec o :: xs, q, ?_, AllMatch.cons ⟨o, rfl, rfl, rfl, hsub⟩ hm⟩
      rw [Gen.collect]
      simp only [Gen.resume, subsecsResume, if_neg hne, S_hdr, parse_hdrStruct hlen hnul hd', bind, Except.bind, pure,
        Except.pure, getNat_length, getField_vendor, decodeNtbs, hutf, if_true, Option.map_some]
      rw [hc]; simp

/-- THE GENERATOR API ON A WELL-FORMED SECTION.  The constructor succeeds, and from ANY stream position
    `list(sec.iter_subsections())` is one object per subsection of the description (length, vendor
    name), `list(iter_subsubsections())` of each is one object per sub-subsection (header), and
    `list(iter_attributes())` of each of those is the attribute list — each generator from any stream
    position. -/
theorem section_generators_exact (sec : Spec.Attr.Section) (rest : Bytes) (off : Nat)
    (hwf : Spec.Attr.sectionWf arch cfg.le sec = true)
    (hd : data.drop off = Spec.Attr.encSection cfg.le sec ++ rest) :
    ∃ o, (∀ p, openSec env (Spec.elfStructs cfg) data arch off (Spec.Attr.encSection cfg.le sec).length p = .ok (o, off + 1)) ∧
      ∀ pos, ∃ xs q, Gen.collect env (Spec.elfStructs cfg) data (data.length + 3) (.subsecs o o.subsecStart) pos []
          = .ok (xs, q) ∧ AllMatch (SubsecMatch arch env cfg data) xs sec := by
  have hwf' : ∀ s ∈ sec, Spec.Attr.subSectionWf arch cfg.le s = true := by
    simpa [Spec.Attr.sectionWf] using hwf
  have hd1 : data.drop off = 0x41 :: (encSubSections cfg.le sec ++ rest) := by rw [hd]; rfl
  have hd2 : data.drop (off + 1) = encSubSections cfg.le sec ++ rest := (drop_cons_inv hd1).2
  have hl := length_of_drop hd2
  have hge := encSubSections_length_ge cfg.le sec
  have hfuel : sec.length + 1 ≤ data.length + 3 := by
    rw [List.length_append] at hl; omega
  have e : (Spec.Attr.encSection cfg.le sec).length = 1 + (encSubSections cfg.le sec).length := by
    simp only [Spec.Attr.encSection, List.length_cons]; omega
  refine ⟨⟨arch, off, (Spec.Attr.encSection cfg.le sec).length, off + 1⟩, ?_, ?_⟩
  · intro p
    simp [openSec, S_byte, parseInt_byte hd1, bind, Except.bind, pure, Except.pure]
  · intro pos
    obtain ⟨xs, q, hc, hm⟩ := subsecs_exact henv ⟨arch, off, (Spec.Attr.encSection cfg.le sec).length, off + 1⟩ rfl sec
      (data.length + 3) (off + 1) rest hwf' hfuel hd2 (by simp only [e]; omega) pos []
    exact ⟨xs, q, by simpa using hc, hm⟩

end

/-! ### … hence under any interleaving -/

section
variable {env : Env} {S : ElfStructs} {data : Bytes}

theorem solo_prefix : ∀ (n m : Nat) (gen : Gen),
    (soloAnswers env S data gen (n + m)).take n = soloAnswers env S data gen n := by
  intro n
  induction n with
  | zero => intro m gen; simp [soloAnswers]
  | succ n ih =>
    intro m gen
    rw [show n + 1 + m = (n + m) + 1 by omega]
    simp only [soloAnswers, List.take_succ_cons, ih]

/-- if `list(gen)` is `zs` then in ANY history the answers to the `c` calls `next(g)` on a handle holding
    `gen` are the first `c` of: the items of `zs` in order, then StopIteration for ever -/
theorem answers_of_collect {fuel' : Nat} {gen : Gen} {pos : Nat} {zs : List Item} {q : Nat}
    (hc : Gen.collect env S data fuel' gen pos [] = .ok (zs, q))
    (fuel g : Nat) (st : HState) (hg : st.gens[g]? = some gen) (ops : List Op) :
    nextAnswers env S data g fuel st ops
      = (zs.map Ans.item ++ List.replicate (ops.countP (Op.isNext g)) Ans.stop).take (ops.countP (Op.isNext g)) := by
  rw [interleaving_irrelevant fuel g ops st gen hg]
  obtain ⟨ys, hxs, hsolo⟩ := solo_of_collect fuel' gen pos [] zs q hc
  simp only [List.reverse_nil, List.nil_append] at hxs
  subst hxs
  rw [← hsolo (ops.countP (Op.isNext g)), Nat.add_comm, solo_prefix]

end

end PyElf.Proofs.C20
