/-
  DWARF 5 location/range list entries: the struct bundle's entry parsers decode
  every entry kind exactly (GOAL A), and the model's entry translation agrees
  with the Spec meaning of the entries (GOAL B).
-/
import PyElf.Spec.DwarfStructs
import PyElf.Spec.Lists
import PyElf.Model.Lists
import PyElf.Proofs.Primitives
namespace PyElf.Proofs.ListsV5
open PyElf PyElf.Spec PyElf.Spec.Lists PyElf.Proofs

/-! ### (a) the generic shape of the entry parsers -/

def FK.con (le : Bool) (asz : Nat) : FK → Con
  | .addr => .uint asz le
  | .uleb => .uleb
  | .cld => .prefixed .uleb (.uint 1 le)

def Kind.body (le : Bool) (asz : Nat) (k : Kind) : Con :=
  st (k.fields.map fun (p : String × FK) => f p.1 (FK.con le asz p.2))

def entryStruct (le : Bool) (asz : Nat) (table : String) (kinds : List Kind) : Con :=
  st [f "entry_offset" .streamOffset, f "entry_type" (enumOf (.uint 1 le) table false),
      emb (.switch (ctx "entry_type") (mkCases (kinds.map fun k => (Val.str k.name, Kind.body le asz k))) .noDefault),
      f "entry_end_offset" .streamOffset,
      f "entry_length" (.value (.sub (ctx "entry_end_offset") (ctx "entry_offset")))]

def entryCon (le : Bool) (asz : Nat) (table endName : String) (kinds : List Kind) : Con :=
  .repeatUntilExcl (.eq (.objFld "entry_type") (.str endName)) (entryStruct le asz table kinds)

theorem loclists_entries_eq (cfg : DwarfCfg) :
    (Spec.dwarfStructs cfg).Dwarf_loclists_entries
      = entryCon cfg.le cfg.asz "ENUM_DW_LLE" "DW_LLE_end_of_list" lleKinds := rfl

theorem rnglists_entries_eq (cfg : DwarfCfg) :
    (Spec.dwarfStructs cfg).Dwarf_rnglists_entries
      = entryCon cfg.le cfg.asz "ENUM_DW_RLE" "DW_RLE_end_of_list" rleKinds := rfl

/-! ### (b) one operand -/

theorem parse_operand {env : Env} {data : Bytes} {pos : Nat} {le : Bool} {asz : Nat} {c : Fields}
    {v : FV} {rest : Bytes} (hwf : v.wf asz = true) (hd : data.drop pos = v.enc le asz ++ rest) :
    Con.parse env data (FK.con le asz v.kind) c pos = .ok (v.obs, pos + v.size asz, c) := by
  cases v with
  | addr a =>
    simp only [FV.wf, decide_eq_true_eq] at hwf
    simp only [FV.enc] at hd
    simp only [FV.kind, FK.con, FV.obs, FV.size]
    rw [parse_uint_ok hd (encNat_length le asz a), decNat_encNat_of_lt le hwf]
  | uleb n v =>
    simp only [FV.wf, Bool.and_eq_true, decide_eq_true_eq] at hwf
    simp only [FV.enc] at hd
    simp only [FV.kind, FK.con, FV.obs, FV.size]
    rw [parse_uleb_ok hd (encUlebN_valid n v hwf.1), ulebVal_enc_of_lt hwf.2, encUlebN_length]
  | cld n x =>
    simp only [FV.wf, Bool.and_eq_true, decide_eq_true_eq] at hwf
    simp only [FV.enc, List.append_assoc] at hd
    simp only [FV.kind, FK.con, FV.obs, FV.size, exprVal]
    rw [parse_block_uleb hwf.1 hwf.2 hd, Nat.add_assoc]

/-! ### (c) struct bodies -/

theorem set_fresh (fs : Fields) (k : String) (v : Val) (h : Fields.get? fs k = none) :
    Fields.set fs k v = fs ++ [(k, v)] := by
  induction fs with
  | nil => rfl
  | cons p fs ih =>
    obtain ⟨k', v'⟩ := p
    simp only [Fields.get?] at h
    by_cases hk : k' = k
    · simp [hk] at h
    · simp only [hk, if_false] at h
      simp [Fields.set, hk, ih h]

theorem get?_append_single (fs : Fields) (k k' : String) (v : Val) (hne : k' ≠ k) :
    Fields.get? (fs ++ [(k', v)]) k = Fields.get? fs k := by
  induction fs with
  | nil => simp [Fields.get?, hne]
  | cons p fs ih =>
    obtain ⟨k'', v''⟩ := p
    simp only [List.cons_append, Fields.get?, ih]

theorem parseFields_body (env : Env) (data : Bytes) (le : Bool) (asz : Nat) (rest : Bytes) :
    ∀ (fs : List (String × FK)) (vals : List FV) (obj cx : Fields) (pos : Nat),
      vals.map FV.kind = fs.map (·.2) → (∀ v ∈ vals, v.wf asz = true) →
      (fs.map (·.1)).Nodup → (∀ nm ∈ fs.map (·.1), Fields.get? obj nm = none ∧ Fields.get? cx nm = none) →
      data.drop pos = vals.flatMap (FV.enc le asz) ++ rest →
      Con.parseFields env data (mkFields (fs.map fun (p : String × FK) => f p.1 (FK.con le asz p.2))) obj cx pos
        = .ok (obj ++ namedVals fs vals, pos + valsSize asz vals, cx ++ namedVals fs vals) := by
  intro fs
  induction fs with
  | nil =>
    intro vals obj cx pos hk _ _ _ _
    cases vals with
    | nil => simp [mkFields, Con.parseFields, namedVals, valsSize]
    | cons v vs => simp at hk
  | cons p fs ih =>
    intro vals obj cx pos hk hwf hnd hfresh hd
    obtain ⟨nm, fk⟩ := p
    cases vals with
    | nil => simp at hk
    | cons v vs =>
      simp only [List.map_cons, List.cons.injEq] at hk
      obtain ⟨hk1, hk2⟩ := hk
      subst hk1
      have hd0 : data.drop pos = v.enc le asz ++ (vs.flatMap (FV.enc le asz) ++ rest) := by
        simpa [List.append_assoc] using hd
      have hsz : (v.enc le asz).length = v.size asz := by
        cases v <;> simp [FV.enc, FV.size, encNat_length, encUlebN_length]
      have hd1 : data.drop (pos + v.size asz) = vs.flatMap (FV.enc le asz) ++ rest := by
        rw [← hsz]; exact drop_add_of_drop hd0
      simp only [List.map_cons, List.nodup_cons] at hnd
      have hf0 := hfresh nm (by simp)
      simp only [List.map_cons, mkFields, f, Con.parseFields]
      rw [parse_operand (hwf v (by simp)) hd0]
      simp only [Bool.false_eq_true, if_false, bind, Except.bind]
      rw [set_fresh _ _ _ hf0.1, set_fresh _ _ _ hf0.2]
      have := ih vs (obj ++ [(nm, v.obs)]) (cx ++ [(nm, v.obs)]) (pos + v.size asz) hk2
        (fun x hx => hwf x (by simp [hx])) hnd.2
        (fun k hkm => by
          have hne : nm ≠ k := by intro e; subst e; exact hnd.1 hkm
          have := hfresh k (by simp [hkm])
          rw [get?_append_single _ _ _ _ hne, get?_append_single _ _ _ _ hne]
          exact this)
        hd1
      simp only [f] at this
      rw [this]
      simp [namedVals, valsSize, Nat.add_assoc]

/-! ### association-list facts -/

theorem get?_append (a b : Fields) (k : String) :
    Fields.get? (a ++ b) k = (Fields.get? a k).or (Fields.get? b k) := by
  induction a with
  | nil => simp [Fields.get?]
  | cons p a ih =>
    obtain ⟨k', v'⟩ := p
    simp only [List.cons_append, Fields.get?, ih]
    split <;> simp

theorem get?_namedVals_none (k : String) :
    ∀ (fs : List (String × FK)) (vals : List FV), k ∉ fs.map (·.1) → Fields.get? (namedVals fs vals) k = none := by
  intro fs
  induction fs with
  | nil => intro vals _; simp [namedVals, Fields.get?]
  | cons p fs ih =>
    intro vals hk
    obtain ⟨nm, fk⟩ := p
    cases vals with
    | nil => simp [namedVals, Fields.get?]
    | cons v vs =>
      simp only [List.map_cons, List.mem_cons, not_or] at hk
      simp only [namedVals, Fields.get?]
      rw [if_neg (fun e => hk.1 e.symm)]
      exact ih vs hk.2

theorem str_beq (a b : String) : (Val.str a == Val.str b) = (a == b) := by
  show Val.beq _ _ = _
  rw [Val.beq]

/-! ### (d) the switch -/

theorem parseCaseEmb_kinds (env : Env) (data : Bytes) (le : Bool) (asz : Nat) (obj cx : Fields) (pos : Nat)
    (k : Kind) : ∀ (kinds : List Kind), (kinds.map (·.name)).Nodup → k ∈ kinds →
      Con.parseCaseEmb env data (.str k.name)
        (mkCases (kinds.map fun k => (Val.str k.name, Kind.body le asz k))) obj cx pos
        = some (Con.parseEmb env data (Kind.body le asz k) obj cx pos) := by
  intro kinds
  induction kinds with
  | nil => intro _ h; simp at h
  | cons k' ks ih =>
    intro hnd hk
    simp only [List.map_cons, List.nodup_cons] at hnd
    simp only [List.map_cons, mkCases, Con.parseCaseEmb, str_beq]
    by_cases hkk : k' = k
    · subst hkk; simp
    · have hin : k ∈ ks := by
        cases hk with
        | head => exact absurd rfl hkk
        | tail _ h => exact h
      have hne : k'.name ≠ k.name := by
        intro e; apply hnd.1; rw [e]; exact List.mem_map_of_mem hin
      simp [hne, ih hnd.2 hin]

def reserved : List String := ["entry_offset", "entry_type", "entry_end_offset", "entry_length"]

def Kind.ok (k : Kind) : Bool :=
  decide ((k.fields.map (·.1)).Nodup) && (k.fields.map (·.1)).all (fun nm => !reserved.contains nm)
    && decide (k.code < 256)

theorem lle_ok : ∀ k ∈ lleKinds, Kind.ok k = true := by decide
theorem rle_ok : ∀ k ∈ rleKinds, Kind.ok k = true := by decide

/-! ### (e) one entry -/

theorem parse_entry (env : Env) (data : Bytes) (le : Bool) (asz : Nat) (table : String) (kinds : List Kind)
    (k : Kind) (vals : List FV) (c : Fields) (pos : Nat) (rest : Bytes)
    (hnd : (kinds.map (·.name)).Nodup) (hk : k ∈ kinds) (hok : Kind.ok k = true)
    (henv : env.enumDecode table (k.code : Int) = some k.name)
    (hshape : vals.map FV.kind = k.fields.map (·.2)) (hwf : ∀ v ∈ vals, v.wf asz = true)
    (hd : data.drop pos = Ent.enc le asz ⟨k, vals⟩ ++ rest) :
    Con.parse env data (entryStruct le asz table kinds) c pos
      = .ok (Ent.rawObs asz pos ⟨k, vals⟩, pos + Ent.size asz ⟨k, vals⟩, c) := by
  simp only [Kind.ok, Bool.and_eq_true, decide_eq_true_eq, List.all_eq_true] at hok
  obtain ⟨⟨hfnd, hres⟩, hcode⟩ := hok
  have hd0 : data.drop pos = [UInt8.ofNat k.code] ++ (vals.flatMap (FV.enc le asz) ++ rest) := by
    simpa [Ent.enc] using hd
  have hd1 : data.drop (pos + 1) = vals.flatMap (FV.enc le asz) ++ rest := drop_add_of_drop hd0
  have h2 : ∀ cx, Con.parse env data (.enum (.uint 1 le) table false) cx pos = .ok (.str k.name, pos + 1, cx) := by
    intro cx
    rw [Con.parse, parse_uint_ok (n := 1) hd0 rfl]
    simp [bind, Except.bind, decNat_singleton, UInt8.toNat_ofNat', Nat.mod_eq_of_lt hcode, henv, pure, Except.pure]
  have hso : ∀ cx p, Con.parse env data .streamOffset cx p = .ok (.int p, p, cx) := by
    intro cx p; rw [Con.parse]
  have hnot : ∀ r ∈ reserved, r ∉ k.fields.map (·.1) := by
    intro r hr hmem
    have := hres r hmem
    simp [hr] at this
  have hn1 := hnot "entry_offset" (by decide)
  have hn2 := hnot "entry_type" (by decide)
  have hn3 := hnot "entry_end_offset" (by decide)
  have hn4 := hnot "entry_length" (by decide)
  generalize hobj : ([("entry_offset", Val.int pos), ("entry_type", Val.str k.name)] : Fields) = obj0
  have hg1 : Fields.get? obj0 "entry_type" = some (.str k.name) := by subst hobj; simp [Fields.get?]
  have hg2 : Fields.get? obj0 "entry_offset" = some (.int pos) := by subst hobj; simp [Fields.get?]
  have hg3 : Fields.get? obj0 "entry_end_offset" = none := by subst hobj; simp [Fields.get?]
  have hg4 : Fields.get? obj0 "entry_length" = none := by subst hobj; simp [Fields.get?]
  have hfresh : ∀ nm ∈ k.fields.map (·.1), Fields.get? obj0 nm = none ∧ Fields.get? obj0 nm = none := by
    intro nm hnm
    have h1 : "entry_offset" ≠ nm := fun e => hn1 (e ▸ hnm)
    have h2 : "entry_type" ≠ nm := fun e => hn2 (e ▸ hnm)
    subst hobj; simp [Fields.get?, h1, h2]
  have h3 : Con.parseEmb env data
      (Con.switch (ctx "entry_type") (mkCases (List.map (fun k => (Val.str k.name, Kind.body le asz k)) kinds))
        Con.noDefault) obj0 obj0 (pos + 1)
      = .ok (obj0 ++ namedVals k.fields vals, pos + 1 + valsSize asz vals, obj0 ++ namedVals k.fields vals) := by
    rw [Con.parseEmb]
    simp only [ctx, Expr.eval, Fields.getR, hg1, bind, Except.bind]
    rw [parseCaseEmb_kinds env data le asz obj0 obj0 (pos + 1) k kinds hnd hk]
    simp only [Kind.body, st]
    rw [Con.parseEmb]
    exact parseFields_body env data le asz rest k.fields vals obj0 obj0 (pos + 1) hshape hwf hfnd hfresh hd1
  simp only [entryStruct, st, mkFields, f, emb, enumOf]
  rw [Con.parse]
  simp only [Con.parseFields, Bool.false_eq_true, if_false, if_true, hso, h2, bind, Except.bind]
  have hs0 : (Fields.set [] "entry_offset" (Val.int pos)).set "entry_type" (Val.str k.name) = obj0 := by
    subst hobj; simp [Fields.set]
  simp only [hs0, h3]
  have hnv3 := get?_namedVals_none "entry_end_offset" k.fields vals hn3
  have hnv4 := get?_namedVals_none "entry_length" k.fields vals hn4
  have hnv1 := get?_namedVals_none "entry_offset" k.fields vals hn1
  rw [set_fresh _ _ _ (by rw [get?_append, hg3, hnv3]; rfl)]
  generalize hE : Val.int ((pos + 1 + valsSize asz vals : Nat) : Int) = E
  have hv : Con.parse env data (Con.value ((ctx "entry_end_offset").sub (ctx "entry_offset")))
      (obj0 ++ namedVals k.fields vals ++ [("entry_end_offset", E)]) (pos + 1 + valsSize asz vals)
      = .ok (.int ((1 + valsSize asz vals : Nat) : Int), pos + 1 + valsSize asz vals,
             obj0 ++ namedVals k.fields vals ++ [("entry_end_offset", E)]) := by
    rw [Con.parse]
    simp only [ctx, Expr.eval, Fields.getR, get?_append, hg3, hnv3, hg2, Option.or_some, Option.none_or,
      Option.some_or, Fields.get?, if_true, bind, Except.bind, Expr.arith, ← hE, Val.asInt, pure, Except.pure]
    simp only [Option.getD_none]
    congr 3
    omega
  rw [hv]
  simp only []
  rw [set_fresh _ _ _ (by
    simp only [get?_append, hg4, hnv4, Fields.get?, Option.none_or]
    simp)]
  subst hobj hE
  simp [Ent.rawObs, Ent.size, pure, Except.pure, Nat.add_assoc]

/-! ### (f), (g) the terminator and the loop -/

theorem wf_unpack {kinds : List Kind} {asz : Nat} {e : Ent} (h : e.wf kinds asz = true) :
    e.kind ∈ kinds ∧ e.kind.code ≠ 0 ∧ e.vals.map FV.kind = e.kind.fields.map (·.2)
      ∧ ∀ v ∈ e.vals, v.wf asz = true := by
  simpa [Ent.wf, and_assoc] using h

theorem fv_enc_length (le : Bool) (asz : Nat) (v : FV) : (v.enc le asz).length = v.size asz := by
  cases v <;> simp [FV.enc, FV.size, encNat_length, encUlebN_length]

theorem vals_enc_length (le : Bool) (asz : Nat) (vals : List FV) :
    (vals.flatMap (FV.enc le asz)).length = valsSize asz vals := by
  induction vals with
  | nil => rfl
  | cons v vs ih =>
    simp only [List.flatMap_cons, List.length_append, ih, fv_enc_length, valsSize, List.map_cons, List.sum_cons]

theorem ent_enc_length (le : Bool) (asz : Nat) (e : Ent) : (e.enc le asz).length = e.size asz := by
  simp only [Ent.enc, List.length_cons, vals_enc_length, Ent.size]; omega

theorem stop_entry (endName : String) (asz pos : Nat) (e : Ent) (c : Fields) :
    (do return (← (Expr.eq (.objFld "entry_type") (.str endName)).eval c (e.rawObs asz pos)).truthy : R Bool)
      = .ok (e.kind.name == endName) := by
  simp [Expr.eval, Ent.rawObs, Val.getField, Fields.getR, Fields.get?, bind, Except.bind, pure, Except.pure,
    str_beq, Val.truthy]

theorem encList_length_ge (le : Bool) (asz : Nat) (es : List Ent) : es.length + 1 ≤ (encList le asz es).length := by
  induction es with
  | nil => simp [encList]
  | cons e es ih =>
    simp only [encList, List.flatMap_cons, List.length_append, List.length_cons, List.length_nil, Ent.enc] at ih ⊢
    omega

theorem repeatLoop_entries (env : Env) (data : Bytes) (le : Bool) (asz : Nat) (table endName : String)
    (kinds : List Kind) (rest : Bytes) (c : Fields)
    (hnd : (kinds.map (·.name)).Nodup) (hok : ∀ k ∈ kinds, Kind.ok k = true)
    (henv : ∀ k ∈ kinds, env.enumDecode table (k.code : Int) = some k.name)
    (hendK : (⟨0, endName, []⟩ : Kind) ∈ kinds)
    (hend : ∀ k ∈ kinds, k.code ≠ 0 → k.name ≠ endName) :
    ∀ (es : List Ent) (fuel pos : Nat) (acc : List Val),
      (∀ e ∈ es, e.wf kinds asz = true) → es.length + 1 ≤ fuel →
      data.drop pos = encList le asz es ++ rest →
      repeatLoop (fun p c => Con.parse env data (entryStruct le asz table kinds) c p)
        (fun v c => do return (← (Expr.eq (.objFld "entry_type") (.str endName)).eval c v).truthy)
        fuel pos c acc
        = .ok (.list (acc.reverse ++ rawObsList asz pos es), pos + listSize asz es, c) := by
  intro es
  induction es with
  | nil =>
    intro fuel pos acc _ hf hd
    cases fuel with
    | zero => omega
    | succ fuel =>
      have hd0 : data.drop pos = Ent.enc le asz ⟨⟨0, endName, []⟩, []⟩ ++ rest := by
        simpa [encList, Ent.enc] using hd
      rw [repeatLoop, parse_entry env data le asz table kinds _ [] c pos rest hnd hendK (hok _ hendK)
        (henv _ hendK) rfl (by simp) hd0]
      simp only [stop_entry]
      simp [rawObsList, listSize, Ent.size, valsSize]
  | cons e es ih =>
    intro fuel pos acc hwf hf hd
    cases fuel with
    | zero => omega
    | succ fuel =>
      obtain ⟨hk, hc, hshape, hv⟩ := wf_unpack (hwf e (by simp))
      have hd0 : data.drop pos = Ent.enc le asz ⟨e.kind, e.vals⟩ ++ (encList le asz es ++ rest) := by
        simpa [encList, List.append_assoc] using hd
      have hd1 : data.drop (pos + e.size asz) = encList le asz es ++ rest := by
        rw [← ent_enc_length le asz e]; exact drop_add_of_drop hd0
      have hne : (e.kind.name == endName) = false := by simpa using hend _ hk hc
      rw [repeatLoop, parse_entry env data le asz table kinds e.kind e.vals c pos _ hnd hk (hok _ hk)
        (henv _ hk) hshape hv hd0]
      simp only [stop_entry, hne]
      rw [ih fuel _ _ (fun x hx => hwf x (by simp [hx])) (by simp at hf; omega) hd1]
      simp [rawObsList, listSize, Nat.add_assoc]

theorem parse_entryCon (env : Env) (le : Bool) (asz : Nat) (table endName : String)
    (kinds : List Kind) (pre rest : Bytes) (es : List Ent) (c : Fields)
    (hnd : (kinds.map (·.name)).Nodup) (hok : ∀ k ∈ kinds, Kind.ok k = true)
    (henv : ∀ k ∈ kinds, env.enumDecode table (k.code : Int) = some k.name)
    (hendK : (⟨0, endName, []⟩ : Kind) ∈ kinds)
    (hend : ∀ k ∈ kinds, k.code ≠ 0 → k.name ≠ endName)
    (hwf : ∀ e ∈ es, e.wf kinds asz = true) :
    Con.parse env (pre ++ encList le asz es ++ rest) (entryCon le asz table endName kinds) c pre.length
      = .ok (.list (rawObsList asz pre.length es), pre.length + listSize asz es, c) := by
  have hd := drop_pre pre (encList le asz es) rest
  have hl := length_of_drop hd
  have hge := encList_length_ge le asz es
  rw [entryCon, Con.parse]
  rw [repeatLoop_entries env _ le asz table endName kinds rest c hnd hok henv hendK hend es _ pre.length []
    hwf (by simp only [List.length_append] at hl ⊢; omega) hd]
  simp

/-! ### GOAL A -/

theorem parse_loclists_entries (env : Env) (cfg : DwarfCfg) (pre rest : Bytes) (es : List Ent) (ctx : Fields)
    (henv : ∀ k ∈ lleKinds, env.enumDecode "ENUM_DW_LLE" (k.code : Int) = some k.name)
    (hwf : ∀ e ∈ es, e.wf lleKinds cfg.asz = true) :
    Con.parse env (pre ++ encList cfg.le cfg.asz es ++ rest) (Spec.dwarfStructs cfg).Dwarf_loclists_entries ctx pre.length
      = .ok (.list (rawObsList cfg.asz pre.length es), pre.length + listSize cfg.asz es, ctx) := by
  rw [loclists_entries_eq]
  exact parse_entryCon env cfg.le cfg.asz _ _ lleKinds pre rest es ctx (by decide) lle_ok henv (by decide)
    (by decide) hwf

theorem parse_rnglists_entries (env : Env) (cfg : DwarfCfg) (pre rest : Bytes) (es : List Ent) (ctx : Fields)
    (henv : ∀ k ∈ rleKinds, env.enumDecode "ENUM_DW_RLE" (k.code : Int) = some k.name)
    (hwf : ∀ e ∈ es, e.wf rleKinds cfg.asz = true) :
    Con.parse env (pre ++ encList cfg.le cfg.asz es ++ rest) (Spec.dwarfStructs cfg).Dwarf_rnglists_entries ctx pre.length
      = .ok (.list (rawObsList cfg.asz pre.length es), pre.length + listSize cfg.asz es, ctx) := by
  rw [rnglists_entries_eq]
  exact parse_entryCon env cfg.le cfg.asz _ _ rleKinds pre rest es ctx (by decide) rle_ok henv (by decide)
    (by decide) hwf

/-! ### GOAL B -/

set_option hygiene false in
local macro "fin_tr" : tactic => `(tactic| (
  clear hwf hc hv
  simp [Spec.Lists.translateLoc, Spec.Lists.translateRng, Option.map_eq_some_iff, Option.bind_eq_some_iff] at hsp
  first
    | (obtain ⟨a, ha, b, hb, rfl⟩ := hsp
       have ha' := haddr _ _ ha
       have hb' := haddr _ _ hb
       simp [Model.Lists.translateLoc, Model.Lists.translateRng, Ent.rawObs, namedVals, Model.Lists.attr,
         Fields.get?, Model.Lists.nt, Model.Lists.addV, Val.asInt, locationEntry, locBaseEntry, rangeEntry,
         rngBaseEntry, FV.obs, bind, Except.bind, pure, Except.pure, ha', hb'])
    | (obtain ⟨a, ha, rfl⟩ := hsp
       have ha' := haddr _ _ ha
       simp [Model.Lists.translateLoc, Model.Lists.translateRng, Ent.rawObs, namedVals, Model.Lists.attr,
         Fields.get?, Model.Lists.nt, Model.Lists.addV, Val.asInt, locationEntry, locBaseEntry, rangeEntry,
         rngBaseEntry, FV.obs, bind, Except.bind, pure, Except.pure, ha'])
    | (subst hsp
       simp [Model.Lists.translateLoc, Model.Lists.translateRng, Ent.rawObs, namedVals, Model.Lists.attr,
         Fields.get?, Model.Lists.nt, Model.Lists.addV, Val.asInt, locationEntry, locBaseEntry, rangeEntry,
         rngBaseEntry, FV.obs, bind, Except.bind, pure, Except.pure])))

set_option linter.unusedSimpArgs false in
theorem translateLoc_exact (env : Env) (secs : Model.Lists.Secs) (cu : Option Model.Lists.Cu) (addrs : List Nat)
    (asz off : Nat) (e : Ent) (v : Val)
    (hwf : e.wf lleKinds asz = true)
    (haddr : ∀ i a, addrOf addrs i = some a → Model.Lists.cuAddr env secs cu (.int i) = .ok (.int a))
    (hsp : Spec.Lists.translateLoc (addrOf addrs) asz off e = some v) :
    Model.Lists.translateLoc env secs cu (e.rawObs asz off) = .ok v := by
  obtain ⟨hk, hc, hshape, hv⟩ := wf_unpack hwf
  obtain ⟨k, vals⟩ := e
  simp only [lleKinds, List.mem_cons, List.not_mem_nil, or_false] at hk
  rcases hk with rfl | rfl | rfl | rfl | rfl | rfl | rfl | rfl | rfl
  · simp at hc
  all_goals
    rcases vals with _ | ⟨v1, _ | ⟨v2, _ | ⟨v3, _ | ⟨v4, vs⟩⟩⟩⟩ <;> simp at hshape
  · cases v1 <;> simp [FV.kind] at hshape
    fin_tr
  · cases v1 <;> cases v2 <;> cases v3 <;> simp [FV.kind] at hshape
    fin_tr
  · cases v1 <;> cases v2 <;> cases v3 <;> simp [FV.kind] at hshape
    fin_tr
  · cases v1 <;> cases v2 <;> cases v3 <;> simp [FV.kind] at hshape
    fin_tr
  · cases v1 <;> simp [FV.kind] at hshape
    fin_tr
  · cases v1 <;> simp [FV.kind] at hshape
    fin_tr
  · cases v1 <;> cases v2 <;> cases v3 <;> simp [FV.kind] at hshape
    fin_tr
  · cases v1 <;> cases v2 <;> cases v3 <;> simp [FV.kind] at hshape
    fin_tr

set_option linter.unusedSimpArgs false in
theorem translateRng_exact (env : Env) (secs : Model.Lists.Secs) (cu : Option Model.Lists.Cu) (addrs : List Nat)
    (asz off : Nat) (e : Ent) (v : Val)
    (hwf : e.wf rleKinds asz = true)
    (haddr : ∀ i a, addrOf addrs i = some a → Model.Lists.cuAddr env secs cu (.int i) = .ok (.int a))
    (hsp : Spec.Lists.translateRng (addrOf addrs) asz off e = some v) :
    Model.Lists.translateRng env secs cu (e.rawObs asz off) = .ok v := by
  obtain ⟨hk, hc, hshape, hv⟩ := wf_unpack hwf
  obtain ⟨k, vals⟩ := e
  simp only [rleKinds, List.mem_cons, List.not_mem_nil, or_false] at hk
  rcases hk with rfl | rfl | rfl | rfl | rfl | rfl | rfl | rfl
  · simp at hc
  all_goals
    rcases vals with _ | ⟨v1, _ | ⟨v2, _ | ⟨v3, vs⟩⟩⟩ <;> simp at hshape
  · cases v1 <;> simp [FV.kind] at hshape
    fin_tr
  · cases v1 <;> cases v2 <;> simp [FV.kind] at hshape
    fin_tr
  · cases v1 <;> cases v2 <;> simp [FV.kind] at hshape
    fin_tr
  · cases v1 <;> cases v2 <;> simp [FV.kind] at hshape
    fin_tr
  · cases v1 <;> simp [FV.kind] at hshape
    fin_tr
  · cases v1 <;> cases v2 <;> simp [FV.kind] at hshape
    fin_tr
  · cases v1 <;> cases v2 <;> simp [FV.kind] at hshape
    fin_tr

/-! ### non-vacuity -/

def demoEnt : Ent :=
  ⟨⟨8, "DW_LLE_start_length", [("start_address", .addr), ("length", .uleb), ("loc_expr", .cld)]⟩,
   [.addr 0x1000, .uleb 1 0x10, .cld 1 [0x50]]⟩

def demoRng : Ent :=
  ⟨⟨3, "DW_RLE_startx_length", [("start_index", .uleb), ("length", .uleb)]⟩, [.uleb 2 1, .uleb 1 0x20]⟩

/-- an environment whose code tables are exactly tables 7.10 and 7.30 -/
def demoEnv : Env :=
  ⟨fun t n =>
     if t = "ENUM_DW_LLE" then (lleKinds.find? fun k => (k.code : Int) == n).map (·.name)
     else if t = "ENUM_DW_RLE" then (rleKinds.find? fun k => (k.code : Int) == n).map (·.name)
     else none,
   fun _ => none⟩

example : demoEnt.wf lleKinds 8 = true := by decide
example : demoRng.wf rleKinds 8 = true := by decide
example : ∀ k ∈ lleKinds, demoEnv.enumDecode "ENUM_DW_LLE" (k.code : Int) = some k.name := by decide
example : ∀ k ∈ rleKinds, demoEnv.enumDecode "ENUM_DW_RLE" (k.code : Int) = some k.name := by decide

/-- the hypotheses of `parse_loclists_entries` are satisfiable: an instance on concrete bytes -/
example :
    Con.parse demoEnv ([0xAA] ++ encList true 8 [demoEnt, demoEnt] ++ [0xBB])
        (Spec.dwarfStructs ⟨true, 32, 8, 5⟩).Dwarf_loclists_entries [] 1
      = .ok (.list (rawObsList 8 1 [demoEnt, demoEnt]), 1 + listSize 8 [demoEnt, demoEnt], []) :=
  parse_loclists_entries demoEnv ⟨true, 32, 8, 5⟩ [0xAA] [0xBB] [demoEnt, demoEnt] [] (by decide) (by decide)

example :
    Con.parse demoEnv ([] ++ encList false 4 [demoRng] ++ [])
        (Spec.dwarfStructs ⟨false, 32, 4, 5⟩).Dwarf_rnglists_entries [] 0
      = .ok (.list (rawObsList 4 0 [demoRng]), 0 + listSize 4 [demoRng], []) :=
  parse_rnglists_entries demoEnv ⟨false, 32, 4, 5⟩ [] [] [demoRng] [] (by decide) (by decide)

/-- the Spec meaning is defined on these entries (so `hsp` in the translation theorems is satisfiable) -/
example : Spec.Lists.translateLoc (addrOf []) 8 0 demoEnt
    = some (locationEntry 0 12 0x1000 0x1010 [0x50] true) := by rfl
example : Spec.Lists.translateRng (addrOf [7, 0x4000]) 8 0 demoRng
    = some (rangeEntry 0 4 0x4000 0x4020 true) := by rfl

/-- an instance of `translateLoc_exact` (a non-indexed kind needs no address table) -/
example (env : Env) (secs : Model.Lists.Secs) (cu : Option Model.Lists.Cu) :
    Model.Lists.translateLoc env secs cu (demoEnt.rawObs 8 0)
      = .ok (locationEntry 0 12 0x1000 0x1010 [0x50] true) :=
  translateLoc_exact env secs cu [] 8 0 demoEnt _ (by decide) (by intro i a h; simp [addrOf] at h) (by rfl)

end PyElf.Proofs.ListsV5
