/-
  C02 helper lemmas, the error side: what the accessors of Model/Contents.lean answer outside the
  domain of the exactness lemmas of Proofs/Contents.lean — extents a stream cannot reach
  (offsets / sizes ≥ 2^63: `seek` / `read` / `bytes * n` convert to a C `Py_ssize_t`), compressed
  streams zlib rejects, declared sizes zlib cannot be asked for, and the combination
  SHT_NOBITS + SHF_COMPRESSED that the gABI forbids.
-/
import PyElf.Proofs.Contents
namespace PyElf.Proofs.C02
open PyElf PyElf.Spec PyElf.Model PyElf.Proofs
open PyElf.Spec.C02
open PyElf.Model.C02

theorem isStr_nobits_false {decT : Nat → Val} (hT : NobitsNaming decT) {s : Sec} (hnb : s.nobits = false) :
    isStr (decT s.shType) "SHT_NOBITS" = false := by
  have hn : ¬ s.shType = SHT_NOBITS := by simpa [Sec.nobits] using hnb
  rw [isStr_eq_beq hT]; simpa using hn

theorem isStr_nobits_true {decT : Nat → Val} (hT : NobitsNaming decT) {s : Sec} (hnb : s.nobits = true) :
    isStr (decT s.shType) "SHT_NOBITS" = true := by
  have hn : s.shType = SHT_NOBITS := by simpa [Sec.nobits] using hnb
  exact (isStr_iff _ _).2 ((hT s.shType).2 hn)

theorem compressed_ne_zero {s : Sec} (hc : s.compressed = true) :
    ((((s.flags &&& 2048 : Nat) : Int)) != 0) = true := by
  have h0 : ¬ (s.flags &&& 0x800 = 0) := by
    intro h; rw [(compressed_false_iff s).2 h] at hc; cases hc
  rw [bne_def', cast_beq_zero]; simpa using h0

/-! ### plain and SHT_NOBITS sections -/

/-- `stream.seek(sh_offset)` with an offset no `Py_ssize_t` holds -/
theorem sectionData_raw_offset_overflow (zlib : Bytes → Nat → R Bytes) (S : ElfStructs) (file : Bytes)
    {decT : Nat → Val} (hT : NobitsNaming decT) {sh : Val} {s : Sec} (hsh : IsShdr decT sh s)
    (hnb : s.nobits = false) (ho : 2 ^ 63 ≤ s.offset) :
    sectionData zlib S file (plainObj sh s) = .error .overflowError := by
  have e := isStr_nobits_false hT hnb
  have r3 : ((0 : Int) != 0) = false := rfl
  have r2 : s.offset ≥ 2 ^ 63 := ho
  unfold sectionData
  simp only [plainObj, hsh.ty, bind, Except.bind, e, Bool.false_eq_true, if_false, getNat_of_field hsh.offset,
    seekCheck, r3, if_pos r2]

/-- `stream.read(sh_size)` with a size no `Py_ssize_t` holds -/
theorem sectionData_raw_size_overflow (zlib : Bytes → Nat → R Bytes) (S : ElfStructs) (file : Bytes)
    {decT : Nat → Val} (hT : NobitsNaming decT) {sh : Val} {s : Sec} (hsh : IsShdr decT sh s)
    (hnb : s.nobits = false) (ho : s.offset < 2 ^ 63) (hs : 2 ^ 63 ≤ s.size) :
    sectionData zlib S file (plainObj sh s) = .error .overflowError := by
  have e := isStr_nobits_false hT hnb
  have r3 : ((0 : Int) != 0) = false := rfl
  have r2 : ¬ s.offset ≥ 2 ^ 63 := by omega
  have r1 : s.size ≥ 2 ^ 63 := hs
  unfold sectionData
  simp only [plainObj, hsh.ty, bind, Except.bind, e, Bool.false_eq_true, if_false, getNat_of_field hsh.offset,
    seekCheck, r3, if_neg r2, asNat_int, readCheck, if_pos r1]

/-- `b'\0' * sh_size` with a count no `Py_ssize_t` holds -/
theorem sectionData_nobits_overflow (zlib : Bytes → Nat → R Bytes) (S : ElfStructs) (file : Bytes)
    {decT : Nat → Val} (hT : NobitsNaming decT) {sh : Val} {s : Sec} (hsh : IsShdr decT sh s)
    (hnb : s.nobits = true) (hs : 2 ^ 63 ≤ s.size) :
    sectionData zlib S file (plainObj sh s) = .error .overflowError := by
  have e := isStr_nobits_true hT hnb
  have r1 : s.size ≥ 2 ^ 63 := hs
  unfold sectionData
  simp only [plainObj, hsh.ty, bind, Except.bind, e, if_true, asNat_int, readCheck, if_pos r1]

/-! ### sections flagged SHF_COMPRESSED -/

/-- the compression header lies where `struct_parse` cannot seek: construction fails -/
theorem sectionNew_offset_overflow (env : Env) (S : ElfStructs) (file : Bytes) {decT : Nat → Val} {sh : Val}
    {s : Sec} (hsh : IsShdr decT sh s) (hc : s.compressed = true) (ho : 2 ^ 63 ≤ s.offset) :
    sectionNew env S shFlags file sh = .error .elfParseError := by
  have h1 := compressed_ne_zero hc
  have r : s.offset ≥ 2 ^ 63 := ho
  unfold sectionNew
  simp only [getInt_of_field hsh.flags, bind, Except.bind, land_nat, shFlags, h1, if_true,
    getNat_of_field hsh.offset, structParseAt, if_pos r]
  rfl

/-- SHT_NOBITS together with SHF_COMPRESSED (which the gABI forbids): the code answers a zero block
    of the size found in whatever it read as compression header -/
theorem sectionData_nobits_z (zlib : Bytes → Nat → R Bytes) (S : ElfStructs) (file : Bytes)
    {decT decC : Nat → Val} (hT : NobitsNaming decT) {sh : Val} {s : Sec} {ch : Chdr} (hsh : IsShdr decT sh s)
    (hnb : s.nobits = true) (hs : ch.chSize < 2 ^ 63) :
    sectionData zlib S file (zObj decC sh s ch) = .ok (List.replicate ch.chSize 0) := by
  have e := isStr_nobits_true hT hnb
  have r1 : ¬ ch.chSize ≥ 2 ^ 63 := by omega
  unfold sectionData
  simp only [zObj, hsh.ty, bind, Except.bind, e, if_true, asNat_int, readCheck, if_neg r1, pure, Except.pure]

theorem readInt_payload (cls : Nat) (file : Bytes) {s : Sec} (ho : s.offset + chdrSize cls < 2 ^ 63) (hfull : chdrSize cls ≤ s.size) (hs : s.size < 2 ^ 63) :
    readInt file (s.offset + chdrSize cls) ((s.size : Int) - (chdrSize cls : Nat)) = .ok (payload cls file s) := by
  have q1 : ¬ ((s.size : Int) - ((chdrSize cls : Nat) : Int) < 0) := by omega
  have q2 : ((s.size : Int) - ((chdrSize cls : Nat) : Int)).toNat = s.size - chdrSize cls := by omega
  have q3 : ¬ (s.size - chdrSize cls ≥ 2 ^ 63) := by omega
  unfold readInt
  simp only [if_neg q1, q2, readCheck, bind, Except.bind, pure, Except.pure, if_neg q3]
  rfl

section zlibErrors
variable (zlib : Bytes → Nat → R Bytes) (S : ElfStructs) (cls : Nat) (file : Bytes) {decT decC : Nat → Val}
  (hT : NobitsNaming decT) (hC : ZlibNaming decC) {sh : Val} {s : Sec} {ch : Chdr}
  (hsh : IsShdr decT sh s) (hnb : s.nobits = false) (hc : s.compressed = true)
  (hty : ch.chType = ELFCOMPRESS_ZLIB) (hsz : S.Elf_Chdr.sizeof = some (chdrSize cls))
include hT hC hsh hnb hc hty hsz

/-- the payload begins where `seek` cannot go -/
theorem sectionData_zlib_offset_overflow (ho : 2 ^ 63 ≤ s.offset + chdrSize cls) :
    sectionData zlib S file (zObj decC sh s ch) = .error .overflowError := by
  have e := isStr_nobits_false hT hnb
  have h1 := compressed_ne_zero hc
  have e2 : isStr (decC ch.chType) "ELFCOMPRESS_ZLIB" = true := (isStr_iff _ _).2 ((hC.zlib _).2 hty)
  have r1 : s.offset + chdrSize cls ≥ 2 ^ 63 := ho
  unfold sectionData
  simp only [zObj, hsh.ty, bind, Except.bind, e, Bool.false_eq_true, if_false, h1, if_true, e2, sizeofR, hsz,
    getNat_of_field hsh.offset, seekCheck, if_pos r1]

/-- a declared size `ch_size` with `ch_size + 1 ≥ 2^63`: `decompress(data, ch_size + 1)` cannot be asked -/
theorem sectionData_zlib_want_overflow (ho : s.offset + chdrSize cls < 2 ^ 63) (hfull : chdrSize cls ≤ s.size)
    (hs : s.size < 2 ^ 63) (hw : 2 ^ 63 ≤ ch.chSize + 1) :
    sectionData zlib S file (zObj decC sh s ch) = .error .overflowError := by
  have e := isStr_nobits_false hT hnb
  have h1 := compressed_ne_zero hc
  have e2 : isStr (decC ch.chType) "ELFCOMPRESS_ZLIB" = true := (isStr_iff _ _).2 ((hC.zlib _).2 hty)
  have hread := readInt_payload cls file ho hfull hs
  have r1 : ¬ (s.offset + chdrSize cls ≥ 2 ^ 63) := by omega
  have r2 : ch.chSize + 1 ≥ 2 ^ 63 := hw
  unfold sectionData
  simp only [zObj, hsh.ty, bind, Except.bind, e, Bool.false_eq_true, if_false, h1, if_true, e2, sizeofR, hsz,
    getNat_of_field hsh.offset, seekCheck, getInt_of_field hsh.size, hread, asNat_int, readCheck,
    if_neg r1, if_pos r2]

/-- a stream zlib rejects (`zlib.error`, or whatever the zlib parameter answers): the section is
    rejected with that error -/
theorem sectionData_zlib_err (ho : s.offset + chdrSize cls < 2 ^ 63) (hfull : chdrSize cls ≤ s.size)
    (hs : s.size < 2 ^ 63) (hw : ch.chSize + 1 < 2 ^ 63) (e : Err)
    (hz : zlib (payload cls file s) (ch.chSize + 1) = .error e) :
    sectionData zlib S file (zObj decC sh s ch) = .error e := by
  have e0 := isStr_nobits_false hT hnb
  have h1 := compressed_ne_zero hc
  have e2 : isStr (decC ch.chType) "ELFCOMPRESS_ZLIB" = true := (isStr_iff _ _).2 ((hC.zlib _).2 hty)
  have hread := readInt_payload cls file ho hfull hs
  have r1 : ¬ (s.offset + chdrSize cls ≥ 2 ^ 63) := by omega
  have r2 : ¬ (ch.chSize + 1 ≥ 2 ^ 63) := by omega
  unfold sectionData
  simp only [zObj, hsh.ty, bind, Except.bind, e0, Bool.false_eq_true, if_false, h1, if_true, e2, sizeofR, hsz,
    getNat_of_field hsh.offset, seekCheck, getInt_of_field hsh.size, hread, asNat_int, readCheck, hz,
    if_neg r1, if_neg r2]

end zlibErrors

/-! ### segments, interpreter path, strings -/

theorem segmentData_offset_overflow {decP : Nat → Val} (file : Bytes) {ph : Val} {g : Seg} (hph : IsPhdr decP ph g)
    (ho : 2 ^ 63 ≤ g.offset) : segmentData file ph = .error .overflowError := by
  have r1 : g.offset ≥ 2 ^ 63 := ho
  unfold segmentData
  simp only [getNat_of_field hph.offset, bind, Except.bind, seekCheck, if_pos r1]

theorem segmentData_size_overflow {decP : Nat → Val} (file : Bytes) {ph : Val} {g : Seg} (hph : IsPhdr decP ph g)
    (ho : g.offset < 2 ^ 63) (hs : 2 ^ 63 ≤ g.filesz) : segmentData file ph = .error .overflowError := by
  have r1 : ¬ g.offset ≥ 2 ^ 63 := by omega
  have r2 : g.filesz ≥ 2 ^ 63 := hs
  unfold segmentData
  simp only [getNat_of_field hph.offset, getNat_of_field hph.filesz, bind, Except.bind, seekCheck, readCheck,
    if_neg r1, if_pos r2]

/-- `struct_parse(CString, stream, stream_pos=p_offset)` wraps the unrepresentable offset -/
theorem getInterpName_offset_overflow (env : Env) {decP : Nat → Val} (file : Bytes) {ph : Val} {g : Seg}
    (hph : IsPhdr decP ph g) (ho : 2 ^ 63 ≤ g.offset) : getInterpName env file ph = .error .elfParseError := by
  have r1 : g.offset ≥ 2 ^ 63 := ho
  unfold getInterpName
  simp only [getNat_of_field hph.offset, bind, Except.bind, structParseAt, if_pos r1]
  rfl

theorem firstNul_none : ∀ (l : Bytes), firstNul l = none → ∀ b ∈ l, b ≠ 0
  | [], _, b, hb => by simp at hb
  | a :: l, h, b, hb => by
    by_cases ha : a = 0
    · simp [firstNul, ha] at h
    · simp only [firstNul, ha, if_false, Option.map_eq_none_iff] at h
      rcases List.mem_cons.1 hb with rfl | hb
      · exact ha
      · exact firstNul_none l h b hb

/-- a PT_INTERP segment with no NUL from its start to the end of the file has no path -/
theorem getInterpName_unterminated (env : Env) {decP : Nat → Val} (file : Bytes) {ph : Val} {g : Seg}
    (hph : IsPhdr decP ph g) (ho : g.offset < 2 ^ 63) (hs : interpName file g = none) :
    getInterpName env file ph = .error .elfParseError := by
  have r1 : ¬ g.offset ≥ 2 ^ 63 := by omega
  have hp := parseCString_unterminated (data := file) (pos := g.offset) (firstNul_none _ hs) rfl
  unfold getInterpName
  simp only [getNat_of_field hph.offset, bind, Except.bind, structParseAt, structParse, Con.parse, hp, if_neg r1]

theorem getString_offset_overflow (file : Bytes) {st : Val} {toff : Nat} (off : Nat)
    (h : st.getField "sh_offset" = .ok (.int toff)) (hp : 2 ^ 63 ≤ toff + off) :
    getString file st off = .error .overflowError := by
  have r1 : toff + off ≥ 2 ^ 63 := hp
  unfold getString
  simp only [getNat_of_field h, bind, Except.bind, parseCStringAt, seekCheck, if_pos r1]

end PyElf.Proofs.C02
