/-
  C09 helper lemmas: the symbol-count fallback of `DynamicSegment.num_symbols`
  (no usable hash table).  `iter_tags()` as a fold over the live entries; the
  running "nearest pointer above DT_SYMTAB"; the DT_SYMENT check; the end of the
  covering segment; the estimate and when it is exact.
-/
import PyElf.Proofs.DynamicSym
import PyElf.Spec.DynamicExt
namespace PyElf.Proofs.Dynamic
open PyElf PyElf.Spec PyElf.Spec.Dynamic PyElf.Model PyElf.Model.Dynamic PyElf.Proofs

/-! ### `for tag in self.iter_tags(): …` is a fold over the live entries -/

theorem except_bind_pure {α : Type} (x : R α) : (x.bind fun s => Except.ok s) = x := by
  cases x <;> rfl

section fold
variable {env : Env} {S : ElfStructs} {data : Bytes} {d : Dyn} {le : Bool} {w : Nat} {tbl : String}
  {tags : List (Int × Nat)} {ifc : FileIfc} {hs : List Val}

theorem foldTags_go {σ : Type} (V : TableView S data d le w tbl tags) (hnull : NullIs env tbl)
    {st : R (Option StrTab)} {tab : StrTab} {sunw : Bool} {strtab : Bytes}
    (hst : st = .ok (some tab)) (hattr : AttrIs env tbl sunw) (hserve : Serves data tab strtab)
    (step : σ → DTag → R σ) :
    ∀ (suffix : List (Int × Nat)) (n fuel : Nat) (s : σ), tags.drop n = suffix →
      hasTerminator suffix = true → suffix.length ≤ fuel → StringsOk sunw strtab (liveTags suffix) →
      foldTags.go env S data d none step st fuel n s
        = (liveTags suffix).foldlM (fun s t => step s (obsEntry env tbl sunw strtab t)) s := by
  intro suffix
  induction suffix with
  | nil => intro n fuel s _ ht; simp [hasTerminator] at ht
  | cons t rest ih =>
    intro n fuel s hdrop hterm hfuel hstr
    cases fuel with
    | zero => simp at hfuel
    | succ fuel =>
      obtain ⟨hn, ht, hrest⟩ := drop_step hdrop
      have hnl : isStr (decTag env tbl t.1) "DT_NULL" = (t.1 == DT_NULL) := hnull t.1
      have hmk := mkTag_view (env := env) (tbl := tbl) hst hattr hserve t
      rw [foldTags.go]
      simp only [getTagRaw_view V n hn, ht, bind, Except.bind, getField_tag, tagMatches, if_true, hnl]
      by_cases h0 : t.1 = DT_NULL
      · have hb : (t.1 == DT_NULL) = true := by simpa using h0
        have hl := liveTags_cons_null (rest := rest) h0
        rw [hmk (hstr t (by rw [hl]; simp)), hl]
        simp only [hb, if_true, List.foldlM_cons, List.foldlM_nil, bind, Except.bind, pure, Except.pure]
        try (cases step s (obsEntry env tbl sunw strtab t) <;> rfl)
      · have hb : (t.1 == DT_NULL) = false := by simpa using h0
        have hl := liveTags_cons_ne (rest := rest) h0
        have hterm' : hasTerminator rest = true := by simpa [hasTerminator, hb] using hterm
        rw [hmk (hstr t (by rw [hl]; simp)), hl]
        simp only [hb, Bool.false_eq_true, if_false, List.foldlM_cons, bind, Except.bind]
        cases hs' : step s (obsEntry env tbl sunw strtab t) with
        | error e => rfl
        | ok s' =>
          simp only []
          exact ih (n + 1) fuel s' hrest hterm' (by simpa using hfuel)
            (by intro x hx; exact hstr x (by rw [hl]; exact List.mem_cons_of_mem _ hx))

/-- `for tag in self.iter_tags(): s = step(s, tag)`: a fold over the live entries, each shown as
    the reader must show it -/
theorem foldTags_view {σ : Type} (V : TableView S data d le w tbl tags) (hnull : NullIs env tbl)
    (hterm : hasTerminator tags = true) {tab : StrTab} {sunw : Bool} {strtab : Bytes}
    (hst : getStringtable env S data ifc d = .ok (some tab)) (hattr : AttrIs env tbl sunw)
    (hserve : Serves data tab strtab) (hstr : StringsOk sunw strtab (liveTags tags))
    (step : σ → DTag → R σ) (init : σ) :
    foldTags env S data ifc d none step init
      = (liveTags tags).foldlM (fun s t => step s (obsEntry env tbl sunw strtab t)) init := by
  unfold foldTags
  simp only [V.nonempty, Bool.false_eq_true, if_false]
  exact foldTags_go V hnull hst hattr hserve step tags 0 _ init (by simp) hterm (by have := tagFuel_ge V; omega) hstr

end fold

/-! ### the running minimum and the DT_SYMENT check -/

/-- the loop body of the fallback, on a shown entry -/
def fbStep (a sz : Nat) (acc : Option Nat) (t : Int × Nat) : R (Option Nat) :=
  if t.1 = DT_SYMENT ∧ t.2 ≠ sz then .error .elfError else .ok (nearStep a acc t.2)

theorem foldlM_fbStep (a sz : Nat) : ∀ (l : List (Int × Nat)) (acc : Option Nat),
    l.foldlM (fbStep a sz) acc
      = if symentOk sz l then .ok ((l.map (·.2)).foldl (nearStep a) acc) else .error .elfError := by
  intro l
  induction l with
  | nil => intro acc; simp [symentOk, pure, Except.pure]
  | cons t l ih =>
    intro acc
    simp only [List.foldlM_cons, bind, Except.bind, fbStep]
    by_cases hbad : t.1 = DT_SYMENT ∧ t.2 ≠ sz
    · have : symentOk sz (t :: l) = false := by
        simp [symentOk, hbad.1, hbad.2]
      simp [hbad, this]
    · have h1 : (t.1 != DT_SYMENT || t.2 == sz) = true := by
        by_cases ht : t.1 = DT_SYMENT
        · have : t.2 = sz := by
            apply Classical.byContradiction
            intro hne; exact hbad ⟨ht, hne⟩
          simp [this]
        · simp [ht]
      have h2 : symentOk sz (t :: l) = symentOk sz l := by
        simp only [symentOk, List.all_cons, h1, Bool.true_and]
      simp only [hbad, if_false, h2, List.map_cons, List.foldl_cons]
      exact ih _

/-! ### the running minimum is the least value above `a` -/

theorem nearStep_fold_inv (a : Nat) : ∀ (vs : List Nat) (acc : Option Nat),
    (∀ m, acc = some m → a < m) →
    (∀ e, vs.foldl (nearStep a) acc = some e →
      a < e ∧ (e ∈ vs ∨ acc = some e) ∧ (∀ v ∈ vs, a < v → e ≤ v) ∧ (∀ m, acc = some m → e ≤ m)) ∧
    (vs.foldl (nearStep a) acc = none → acc = none ∧ ∀ v ∈ vs, v ≤ a) := by
  intro vs
  induction vs with
  | nil =>
    intro acc hacc
    refine ⟨fun e he => ?_, fun h => ⟨h, by simp⟩⟩
    simp only [List.foldl_nil] at he
    exact ⟨hacc e he, Or.inr he, by simp, fun m hm => by rw [he] at hm; cases hm; exact Nat.le_refl _⟩
  | cons v vs ih =>
    intro acc hacc
    -- how the step relates to `acc` and `v`
    have hrel : (∀ m, nearStep a acc v = some m →
          ((m = v ∧ a < v) ∨ acc = some m) ∧ (a < v → m ≤ v) ∧ (∀ k, acc = some k → m ≤ k)) ∧
        (nearStep a acc v = none → acc = none ∧ v ≤ a) := by
      unfold nearStep
      cases acc with
      | none =>
        by_cases hv : a < v
        · simp [hv]
        · simp [hv] <;> omega
      | some k =>
        by_cases hv : a < v
        · by_cases hk : v < k
          · simp [hv, hk] <;> omega
          · simp [hv, hk] <;> omega
        · simp [hv] <;> omega
    have hstep : ∀ m, nearStep a acc v = some m → a < m := by
      intro m hm
      rcases (hrel.1 m hm).1 with h | h
      · omega
      · exact hacc m h
    obtain ⟨ih1, ih2⟩ := ih (nearStep a acc v) hstep
    refine ⟨fun e he => ?_, fun h => ?_⟩
    · simp only [List.foldl_cons] at he
      obtain ⟨h1, h2, h3, h4⟩ := ih1 e he
      refine ⟨h1, ?_, ?_, ?_⟩
      · rcases h2 with h2 | h2
        · exact Or.inl (List.mem_cons_of_mem _ h2)
        · rcases (hrel.1 e h2).1 with h5 | h5
          · exact Or.inl (by rw [h5.1]; simp)
          · exact Or.inr h5
      · intro x hx hax
        rcases List.mem_cons.1 hx with rfl | hx'
        · cases hn : nearStep a acc x with
          | none => have := (hrel.2 hn).2; omega
          | some m =>
            have := (hrel.1 m hn).2.1 hax
            have := h4 m hn
            omega
        · exact h3 x hx' hax
      · intro m hm
        cases hn : nearStep a acc v with
        | none => have := (hrel.2 hn).1; rw [this] at hm; cases hm
        | some k =>
          have := (hrel.1 k hn).2.2 m hm
          have := h4 k hn
          omega
    · simp only [List.foldl_cons] at h
      obtain ⟨h1, h2⟩ := ih2 h
      obtain ⟨h3, h4⟩ := hrel.2 h1
      exact ⟨h3, fun x hx => by
        rcases List.mem_cons.1 hx with rfl | hx'
        · exact h4
        · exact h2 x hx'⟩

/-- `minAbove vs a = some e`: `e` is the least member of `vs` above `a` -/
theorem minAbove_some_iff (vs : List Nat) (a e : Nat) :
    minAbove vs a = some e ↔ e ∈ vs ∧ a < e ∧ ∀ v ∈ vs, a < v → e ≤ v := by
  obtain ⟨h1, h2⟩ := nearStep_fold_inv a vs none (by simp)
  constructor
  · intro h
    obtain ⟨p1, p2, p3, -⟩ := h1 e h
    rcases p2 with p2 | p2
    · exact ⟨p2, p1, p3⟩
    · cases p2
  · intro ⟨m1, m2, m3⟩
    cases hm : minAbove vs a with
    | none =>
      have := (h2 hm).2 e m1
      omega
    | some e' =>
      obtain ⟨p1, p2, p3, -⟩ := h1 e' hm
      rcases p2 with p2 | p2
      · have := m3 e' p2 p1
        have := p3 e m1 m2
        congr 1; omega
      · cases p2

/-- `minAbove vs a = none`: nothing in `vs` lies above `a` -/
theorem minAbove_none_iff (vs : List Nat) (a : Nat) : minAbove vs a = none ↔ ∀ v ∈ vs, v ≤ a := by
  obtain ⟨h1, h2⟩ := nearStep_fold_inv a vs none (by simp)
  constructor
  · intro h; exact (h2 h).2
  · intro h
    cases hm : minAbove vs a with
    | none => rfl
    | some e =>
      obtain ⟨p1, p2, -, -⟩ := h1 e hm
      rcases p2 with p2 | p2
      · have := h e p2; omega
      · cases p2

/-! ### the end of the covering segment -/

theorem foldlM_eq_of {σ α : Type} {f g : σ → α → R σ} (h : ∀ s t, f s t = g s t) :
    ∀ (l : List α) (init : σ), l.foldlM f init = l.foldlM g init := by
  intro l
  induction l with
  | nil => intro init; rfl
  | cons t l ih =>
    intro init
    simp only [List.foldlM_cons, h, bind, Except.bind]
    cases g init t with
    | error e => rfl
    | ok s => exact ih s

theorem ite_ok {α : Type} (c : Prop) [Decidable c] (x y : α) :
    (if c then (Except.ok x : R α) else Except.ok y) = Except.ok (if c then x else y) := by
  split <;> rfl

/-- the loop body over the segments -/
def segStep (a : Nat) (acc : Option Nat) (h : Val) : R (Option Nat) :=
  match h.getNat "p_vaddr", h.getNat "p_filesz" with
  | .ok va, .ok fsz => .ok (if decide (va ≤ a) && decide (a ≤ va + fsz) then some (va + fsz) else acc)
  | .error e, _ => .error e
  | .ok _, .error e => .error e

theorem segEnd_fold (a : Nat) : ∀ (gs : List (String × Val)) (acc : Option Nat),
    (∀ g ∈ gs, PhdrOk g.2) →
    gs.foldlM (fun acc g => segStep a acc g.2) acc
      = (.ok (((gs.map (·.2)).filterMap (coverEnd · a)).getLast?.or acc) : R (Option Nat)) := by
  intro gs
  induction gs with
  | nil => intro acc _; simp [pure, Except.pure]
  | cons g gs ih =>
    intro acc hok
    obtain ⟨ty, va, fsz, po, -, h2, h3, -⟩ := hok g (by simp)
    have hs1 : segStep a acc g.2
        = .ok (if decide (va ≤ a) && decide (a ≤ va + fsz) then some (va + fsz) else acc) := by
      simp only [segStep, h2, h3]
    have hc1 : coverEnd g.2 a = if decide (va ≤ a) && decide (a ≤ va + fsz) then some (va + fsz) else none := by
      simp only [coverEnd, h2, h3]
    rw [List.foldlM_cons, hs1]
    simp only [bind, Except.bind]
    rw [ih _ (fun x hx => hok x (by simp [hx])), List.map_cons, List.filterMap_cons, hc1]
    by_cases hc : (decide (va ≤ a) && decide (a ≤ va + fsz)) = true
    · simp only [hc, if_true]
      rw [getLast?_cons_or]
      cases (List.filterMap (fun x => coverEnd x a) (List.map (fun x => x.2) gs)).getLast? <;> simp
    · have hc' : (decide (va ≤ a) && decide (a ≤ va + fsz)) = false := by simpa using hc
      simp only [hc', Bool.false_eq_true, if_false]

/-! ### `num_symbols()` without a hash table -/

section fallback
variable {env : Env} {S : ElfStructs} {data : Bytes} {d : Dyn} {le : Bool} {w : Nat} {tbl : String}
  {tags : List (Int × Nat)} {ifc : FileIfc} {hs : List Val}

theorem obsEntry_entry (sunw : Bool) (strtab : Bytes) (t : Int × Nat) :
    (obsEntry env tbl sunw strtab t).entry = decEntry env tbl t := rfl

/-- the fallback: DT_SYMTAB must be live and mapped (else ELFError); every live entry is shown (so
    the string table must be there and the strings terminated), a DT_SYMENT that is not the record
    size raises ELFError; the table is taken to end at `fallbackEnd`; TypeError when there is no
    such end (`None - int`) -/
theorem numSymbolsFallback_view (V : TableView S data d le w tbl tags) (hnull : NullIs env tbl)
    (hterm : hasTerminator tags = true) (SV : SegsView ifc hs)
    (hsymtab : TagIs env tbl "DT_SYMTAB" DT_SYMTAB) (hsyment : TagIs env tbl "DT_SYMENT" DT_SYMENT)
    {tab : StrTab} {sunw : Bool} {strtab : Bytes}
    (hst : getStringtable env S data ifc d = .ok (some tab)) (hattr : AttrIs env tbl sunw)
    (hserve : Serves data tab strtab) (hstr : StringsOk sunw strtab (liveTags tags))
    {iterSegs : R (List (String × Val))} {gs : List (String × Val)}
    (hsegs : iterSegs = .ok gs) (hgs : gs.map (·.2) = hs)
    {a o : Nat} (ha : firstVal (liveTags tags) DT_SYMTAB = some a) (ho : mapAddr hs a = some o)
    (sz : Nat) (hpos : 0 < sz) :
    numSymbolsFallback env S data ifc d iterSegs sz
      = if symentOk sz (liveTags tags) then
          (match fallbackEnd hs (liveTags tags) a with
           | some e => .ok ((e - a) / sz)
           | none => .error .typeError)
        else .error .elfError := by
  unfold numSymbolsFallback
  rw [getTableOffset_view V hnull hterm SV "DT_SYMTAB" DT_SYMTAB hsymtab]
  simp only [ha, ho, bind, Except.bind, Option.bind]
  rw [foldTags_view V hnull hterm hst hattr hserve hstr]
  rw [foldlM_eq_of (g := fbStep a sz)]
  · rw [foldlM_fbStep]
    by_cases hse : symentOk sz (liveTags tags) = true
    · simp only [hse, if_true]
      change (match minAbove ((liveTags tags).map (·.2)) a with
        | some p => _
        | none => _) = _
      unfold fallbackEnd
      have hz : ¬ sz = 0 := by omega
      cases hm : minAbove ((liveTags tags).map (·.2)) a with
      | some e => simp [hz, pure, Except.pure]
      | none =>
        simp only [hsegs, pure, Except.pure]
        have hok : ∀ g ∈ gs, PhdrOk g.2 := by
          intro g hg
          exact SV.ok g.2 (by rw [← hgs]; exact List.mem_map_of_mem hg)
        rw [foldlM_eq_of (g := fun acc g => segStep a acc g.2)]
        · rw [segEnd_fold a gs none hok, hgs]
          simp only [Option.or_none, segEnd]
          cases (List.filterMap (fun x => coverEnd x a) hs).getLast? with
          | none => rfl
          | some e => simp [hz]
        · intro acc g
          simp only [segStep]
          cases g.2.getNat "p_vaddr" with
          | error e => rfl
          | ok va =>
            cases g.2.getNat "p_filesz" with
            | error e => rfl
            | ok fsz => simp only [ite_ok]
    · have hse' : symentOk sz (liveTags tags) = false := by simpa using hse
      simp [hse']
  · intro s t
    simp only [obsEntry_entry, getNat_ptr, getNat_val, getField_tag, hsyment t.1, fbStep]
    by_cases h1 : t.1 = DT_SYMENT
    · by_cases h2 : t.2 = sz
      · subst h2
        simp [h1, nearStep, pure, Except.pure, ite_ok]
        cases s <;> rfl
      · have h2' : (sz != t.2) = true := by simpa using (fun h => h2 h.symm)
        simp [h1, h2, h2', throw, throwThe, MonadExceptOf.throw]
    · have h1' : (t.1 == DT_SYMENT) = false := by simpa using h1
      simp [h1, h1', nearStep, pure, Except.pure, ite_ok]
      cases s <;> rfl

/-- the fallback refuses a table it cannot locate: DT_SYMTAB absent, or outside every PT_LOAD -/
theorem numSymbolsFallback_nosymtab (V : TableView S data d le w tbl tags) (hnull : NullIs env tbl)
    (hterm : hasTerminator tags = true) (SV : SegsView ifc hs)
    (hsymtab : TagIs env tbl "DT_SYMTAB" DT_SYMTAB)
    {iterSegs : R (List (String × Val))}
    (hno : (firstVal (liveTags tags) DT_SYMTAB).bind (mapAddr hs) = none) (sz : Nat) :
    numSymbolsFallback env S data ifc d iterSegs sz = .error .elfError := by
  unfold numSymbolsFallback
  rw [getTableOffset_view V hnull hterm SV "DT_SYMTAB" DT_SYMTAB hsymtab]
  rw [hno]
  cases firstVal (liveTags tags) DT_SYMTAB <;> rfl

/-- `num_symbols()` takes the fallback exactly when neither hash tag leads anywhere (absent, or
    its pointer outside every PT_LOAD) -/
theorem numSymbols_nohash (V : TableView S data d le w tbl tags) (hnull : NullIs env tbl)
    (hterm : hasTerminator tags = true) (SV : SegsView ifc hs)
    (hgnu : TagIs env tbl "DT_GNU_HASH" DT_GNU_HASH) (hhash : TagIs env tbl "DT_HASH" DT_HASH)
    {iterSegs : R (List (String × Val))} {le' : Bool} {sz : Nat} (hsz : S.Elf_Sym.sizeof = some sz)
    (hnog : (firstVal (liveTags tags) DT_GNU_HASH).bind (mapAddr hs) = none)
    (hnoh : (firstVal (liveTags tags) DT_HASH).bind (mapAddr hs) = none) :
    numSymbols env S data ifc d iterSegs le' = numSymbolsFallback env S data ifc d iterSegs sz := by
  unfold numSymbols
  rw [getTableOffset_view V hnull hterm SV "DT_GNU_HASH" DT_GNU_HASH hgnu,
      getTableOffset_view V hnull hterm SV "DT_HASH" DT_HASH hhash]
  simp only [sizeofR, hsz, hnog, hnoh, bind, Except.bind]

end fallback

/-! ### when the estimate is the true count -/

theorem div_eq_of_between {x sz n : Nat} (h1 : n * sz ≤ x) (h2 : x < (n + 1) * sz) : x / sz = n := by
  have hpos : 0 < sz := by
    rcases Nat.eq_zero_or_pos sz with h | h
    · subst h; simp at h2
    · exact h
  apply Nat.div_eq_of_lt_le
  · exact h1
  · exact h2

theorem between_of_div_eq {x sz n : Nat} (hpos : 0 < sz) (h : x / sz = n) : n * sz ≤ x ∧ x < (n + 1) * sz := by
  subst h
  constructor
  · exact Nat.div_mul_le_self x sz
  · have := Nat.lt_div_mul_add hpos (a := x)
    rw [Nat.add_mul]; omega

/-- the estimate equals `n` exactly when the assumed end lies in `[a + n·size, a + (n+1)·size)` -/
theorem fallbackCount_eq_iff {sz : Nat} (hpos : 0 < sz) (hs : List Val) (live : List (Int × Nat)) (n : Nat)
    (hge : ∀ a e, firstVal live DT_SYMTAB = some a → fallbackEnd hs live a = some e → a ≤ e) :
    fallbackCount sz hs live = some n ↔ FallbackExact sz hs live n := by
  unfold fallbackCount FallbackExact
  constructor
  · intro h
    cases ha : firstVal live DT_SYMTAB with
    | none => simp [ha] at h
    | some a =>
      cases he : fallbackEnd hs live a with
      | none => simp [ha, he] at h
      | some e =>
        simp only [ha, he, Option.bind_some, Option.map_some, Option.some.injEq] at h
        have hle := hge a e ha he
        obtain ⟨b1, b2⟩ := between_of_div_eq hpos h
        exact ⟨a, e, rfl, he, by omega, by omega⟩
  · intro ⟨a, e, ha, he, h1, h2⟩
    simp only [ha, he, Option.bind_some, Option.map_some, Option.some.injEq]
    exact div_eq_of_between (by omega) (by omega)

/-- the assumed end is never below the table's address -/
theorem fallbackEnd_ge {hs : List Val} {live : List (Int × Nat)} {a e : Nat}
    (he : fallbackEnd hs live a = some e) : a ≤ e := by
  unfold fallbackEnd at he
  cases hm : minAbove (live.map (·.2)) a with
  | some e' =>
    simp only [hm, Option.some.injEq] at he
    subst he
    have := ((minAbove_some_iff _ _ _).1 hm).2.1
    omega
  | none =>
    simp only [hm, segEnd] at he
    have hmem := List.mem_of_getLast? he
    obtain ⟨h, -, hc⟩ := List.mem_filterMap.1 hmem
    unfold coverEnd at hc
    split at hc
    · split at hc
      · rename_i hcond
        simp only [Bool.and_eq_true, decide_eq_true_eq] at hcond
        cases hc; omega
      · cases hc
    · cases hc

end PyElf.Proofs.Dynamic
