/-
  C04 helper lemmas, part 4: the abbreviation table (`_parse_abbrev_table`) on `encAbbrevs`.
-/
import PyElf.Core.Construct
import PyElf.Spec.DieTree
import PyElf.Spec.DwarfStructs
import PyElf.Model.Die
import PyElf.Proofs.Primitives
import PyElf.Proofs.Engine
import PyElf.Proofs.DwarfTables
namespace PyElf.Proofs.C04
open PyElf PyElf.Spec PyElf.Spec.C04 PyElf.Model PyElf.Model.C04 PyElf.Proofs PyElf.Proofs.Engine

/-- the presentation of numbers an enum registry `ed` (= `Env.enumDecode`) induces -/
def namesOf (ed : String → Int → Option String) : Names :=
  { tag := fun n => enumVal ed "ENUM_DW_TAG" n, at_ := fun n => enumVal ed "ENUM_DW_AT" n,
    form := fun n => enumVal ed "ENUM_DW_FORM" n }

/-- what the abbreviation parser needs from the registry: the two child-flag names, and that the
    names the struct's lambdas compare against (`DW_AT_null`, `DW_FORM_null`,
    `DW_FORM_implicit_const`) belong to the standard's numbers and to no other -/
structure EnumOK (ed : String → Int → Option String) : Prop where
  children0 : ed "ENUM_DW_CHILDREN" 0 = some "DW_CHILDREN_no"
  children1 : ed "ENUM_DW_CHILDREN" 1 = some "DW_CHILDREN_yes"
  at_null : ∀ n : Nat, ed "ENUM_DW_AT" n = some "DW_AT_null" ↔ n = 0
  form_null : ∀ n : Nat, ed "ENUM_DW_FORM" n = some "DW_FORM_null" ↔ n = 0
  form_implicit : ∀ n : Nat, ed "ENUM_DW_FORM" n = some "DW_FORM_implicit_const" ↔ n = 0x21

theorem enumVal_beq_str (ed : String → Int → Option String) (tbl : String) (n : Int) (s : String) :
    (enumVal ed tbl n == Val.str s) = decide (ed tbl n = some s) := by
  unfold enumVal
  cases h : ed tbl n with
  | none => simp [BEq.beq, Val.beq]
  | some t =>
    by_cases e : t = s <;> simp [BEq.beq, Val.beq, e]

/-! ### the constructs, spelled out -/

def specCon : Con :=
  .struct (.cons (some "name") false (.enum .uleb "ENUM_DW_AT" true)
          (.cons (some "form") false (.enum .uleb "ENUM_DW_FORM" true)
          (.cons (some "value") false
            (.ifThenElse (.eq (.ctx "form") (.str "DW_FORM_implicit_const")) .sleb (.value .none)) .nil)))

def specPred : Expr :=
  .and (.eq (.objFld "name") (.str "DW_AT_null")) (.eq (.objFld "form") (.str "DW_FORM_null"))

def declCon (le : Bool) : Con :=
  .struct (.cons (some "tag") false (.enum .uleb "ENUM_DW_TAG" true)
          (.cons (some "children_flag") false (.enum (.uint 1 le) "ENUM_DW_CHILDREN" false)
          (.cons (some "attr_spec") false (.repeatUntilExcl specPred specCon) .nil)))

theorem declCon_eq (c : DwarfCfg) : (Spec.dwarfStructs c).Dwarf_abbrev_declaration = declCon c.le := rfl
theorem the_uleb_eq (c : DwarfCfg) : (Spec.dwarfStructs c).the_Dwarf_uleb128 = .uleb := rfl

/-! ### one attribute specification -/

theorem ulebFits_iff {l v : Nat} : ulebFits l v = true ↔ 1 ≤ l ∧ v < 2 ^ (7 * l) := by
  simp [ulebFits]

theorem encSpec_length_pos (s : AttrSpec) (h : wfSpec s = true) : 1 ≤ (encSpec s).length := by
  simp only [wfSpec, Bool.and_eq_true, ulebFits_iff] at h
  simp only [encSpec, List.length_append, encUlebN_length]
  omega

/-- the value of the record the struct builds for name number `a`, form number `f`, value `v` -/
def specRec (ed : String → Int → Option String) (a f : Nat) (v : Val) : Val :=
  .record [("name", enumVal ed "ENUM_DW_AT" a), ("form", enumVal ed "ENUM_DW_FORM" f), ("value", v)]

theorem specVal_eq (ed : String → Int → Option String) (s : AttrSpec) :
    specVal (namesOf ed) s = specRec ed s.name s.form (if s.form = FORM_implicit_const then .int s.const else .none) := rfl

/-- the stop predicate on a record of the attribute-specification struct -/
theorem specPred_eval {ed : String → Int → Option String} (hok : EnumOK ed) (ctx : Fields) (a f : Nat) (v : Val) :
    (specPred.eval ctx (specRec ed a f v)).map Val.truthy = .ok (decide (a = 0 ∧ f = 0)) := by
  have ha := enumVal_beq_str ed "ENUM_DW_AT" a "DW_AT_null"
  have hf := enumVal_beq_str ed "ENUM_DW_FORM" f "DW_FORM_null"
  simp only [specPred, specRec, Expr.eval, Val.getField, Fields.getR, Fields.get?, bind, Except.bind, pure, Except.pure,
    if_true, ha, hf, hok.at_null, hok.form_null, Val.truthy, Except.map, String.reduceEq, if_false]
  by_cases h0 : a = 0 <;> by_cases h1 : f = 0 <;> simp [h0, h1]

/-- the context after the first two fields of the attribute-specification struct -/
def ctx2 (A F : Val) : Fields := [("name", A), ("form", F)]

theorem ctx2_eq (A F : Val) : Fields.set (Fields.set [] "name" A) "form" F = ctx2 A F := by
  simp [Fields.set, ctx2]

theorem parse_spec_fields {env : Env} (hok : EnumOK env.enumDecode) {data : Bytes} {ctx : Fields} {pos : Nat}
    {a f al fl : Nat} {tailv tail : Bytes} {v : Val} {p : Nat}
    (hal : ulebFits al a = true) (hfl : ulebFits fl f = true)
    (hd : data.drop pos = encUlebN al a ++ (encUlebN fl f ++ (tailv ++ tail)))
    (hp : p = pos + al + fl + tailv.length)
    (hv : ∀ c : Fields, if f = 0x21
            then Con.parse env data .sleb c (pos + al + fl) = .ok (v, p, c)
            else v = .none ∧ tailv = []) :
    Con.parse env data specCon ctx pos = .ok (specRec env.enumDecode a f v, p, ctx) := by
  rw [ulebFits_iff] at hal hfl
  have h1 := parse_enum_ulebN (env := env) (tbl := "ENUM_DW_AT") (ctx := []) hd hal.1 hal.2
  have hd2 := drop_add_of_drop hd
  rw [encUlebN_length] at hd2
  have h2 := parse_enum_ulebN (env := env) (tbl := "ENUM_DW_FORM")
    (ctx := Fields.set [] "name" (enumVal env.enumDecode "ENUM_DW_AT" a)) hd2 hfl.1 hfl.2
  have hbeq := enumVal_beq_str env.enumDecode "ENUM_DW_FORM" f "DW_FORM_implicit_const"
  unfold specCon
  apply parse_struct (c' := Fields.set (ctx2 (enumVal env.enumDecode "ENUM_DW_AT" a)
    (enumVal env.enumDecode "ENUM_DW_FORM" f)) "value" v)
  rw [parseFields_named h1, parseFields_named h2, ctx2_eq]
  have hcond : (Expr.eq (.ctx "form") (.str "DW_FORM_implicit_const")).eval
      (ctx2 (enumVal env.enumDecode "ENUM_DW_AT" a) (enumVal env.enumDecode "ENUM_DW_FORM" f)) .none
        = .ok (.bool (decide (f = 0x21))) := by
    simp [Expr.eval, ctx2, Fields.getR, Fields.get?, bind, Except.bind, pure, Except.pure, hbeq, hok.form_implicit]
  have hvf := hv (ctx2 (enumVal env.enumDecode "ENUM_DW_AT" a) (enumVal env.enumDecode "ENUM_DW_FORM" f))
  by_cases hf : f = 0x21
  · rw [if_pos hf] at hvf
    have h3 : Con.parse env data (.ifThenElse (.eq (.ctx "form") (.str "DW_FORM_implicit_const")) .sleb (.value .none))
        (ctx2 (enumVal env.enumDecode "ENUM_DW_AT" a) (enumVal env.enumDecode "ENUM_DW_FORM" f)) (pos + al + fl)
          = .ok (v, p, ctx2 (enumVal env.enumDecode "ENUM_DW_AT" a) (enumVal env.enumDecode "ENUM_DW_FORM" f)) := by
      rw [parse_ite_true hcond (by simp [Val.truthy, hf]), hvf]
    rw [parseFields_named h3, parseFields_nil]
    simp [ctx2, Fields.set]
  · rw [if_neg hf] at hvf
    obtain ⟨rfl, rfl⟩ := hvf
    have h3 : Con.parse env data (.ifThenElse (.eq (.ctx "form") (.str "DW_FORM_implicit_const")) .sleb (.value .none))
        (ctx2 (enumVal env.enumDecode "ENUM_DW_AT" a) (enumVal env.enumDecode "ENUM_DW_FORM" f)) (pos + al + fl)
          = .ok (.none, pos + al + fl,
              ctx2 (enumVal env.enumDecode "ENUM_DW_AT" a) (enumVal env.enumDecode "ENUM_DW_FORM" f)) := by
      rw [parse_ite_false hcond (by simp [Val.truthy, hf]), parse_value (by rfl)]
    rw [parseFields_named h3, parseFields_nil]
    simp [ctx2, Fields.set, hp]

/-- one `(name, form[, value])` triple, anywhere -/
theorem parse_spec {env : Env} (hok : EnumOK env.enumDecode) {data : Bytes} {ctx : Fields} {pos : Nat}
    (s : AttrSpec) {tail : Bytes} (hwf : wfSpec s = true) (hd : data.drop pos = encSpec s ++ tail) :
    Con.parse env data specCon ctx pos
      = .ok (specVal (namesOf env.enumDecode) s, pos + (encSpec s).length, ctx) := by
  simp only [wfSpec, Bool.and_eq_true, Bool.or_eq_true, bne_iff_ne, ne_eq, decide_eq_true_eq] at hwf
  obtain ⟨⟨⟨hn, hf⟩, _⟩, hc⟩ := hwf
  rw [specVal_eq]
  apply parse_spec_fields hok hn hf (tailv := if s.form = FORM_implicit_const then encSlebN s.constLen s.const else [])
    (tail := tail)
  · rw [hd]; simp [encSpec, List.append_assoc]
  · simp only [encSpec, List.length_append, encUlebN_length]; omega
  · intro c
    by_cases h21 : s.form = 0x21
    · have h21' : s.form = FORM_implicit_const := h21
      rcases hc with hc | hc
      · exact absurd h21' hc
      · rw [if_pos h21, if_pos h21']
        have hd3 : data.drop (pos + s.nameLen + s.formLen) = encSlebN s.constLen s.const ++ tail := by
          have h1 := drop_add_of_drop (show data.drop pos = encUlebN s.nameLen s.name ++ (encUlebN s.formLen s.form ++
              (encSlebN s.constLen s.const ++ tail)) by rw [hd]; simp [encSpec, h21', List.append_assoc])
          have h2 := drop_add_of_drop h1
          simpa [encUlebN_length] using h2
        have := parse_slebN (env := env) (ctx := c) hd3 hc.1.1 hc.1.2 hc.2
        rw [this]
        simp [encSpec, h21', encUlebN_length, encSlebN_length, Nat.add_assoc]
    · have h21' : ¬ s.form = FORM_implicit_const := h21
      rw [if_neg h21, if_neg h21']
      exact ⟨rfl, if_neg h21'⟩

/-- the `(0, 0)` pair that ends the list -/
theorem parse_spec_end {env : Env} (hok : EnumOK env.enumDecode) {data : Bytes} {ctx : Fields} {pos : Nat}
    {tail : Bytes} (hd : data.drop pos = [0, 0] ++ tail) :
    Con.parse env data specCon ctx pos = .ok (specRec env.enumDecode 0 0 .none, pos + 2, ctx) := by
  apply parse_spec_fields hok (al := 1) (fl := 1) (tailv := []) (by decide) (by decide)
  · rw [hd]; rfl
  · rfl
  · intro c; simp

/-! ### one declaration -/

theorem encDecl_length_pos (d : AbbrevDecl) : 1 ≤ (encDecl d).length := by
  simp only [encDecl, List.length_append, List.length_cons, List.length_nil, encUlebN_length]; omega

theorem parse_decl {env : Env} (hok : EnumOK env.enumDecode) {data : Bytes} {pos : Nat} (le : Bool)
    (d : AbbrevDecl) {tail : Bytes} (hwf : wfDecl d = true)
    (hd : data.drop pos = encUlebN d.tagLen d.tag ++ ([if d.children then 1 else 0] ++
            (d.specs.flatMap encSpec ++ ([0, 0] ++ tail)))) :
    structParse env (declCon le) data pos
      = .ok (declVal (namesOf env.enumDecode) d, pos + d.tagLen + 1 + (d.specs.flatMap encSpec).length + 2) := by
  simp only [wfDecl, Bool.and_eq_true, decide_eq_true_eq, List.all_eq_true] at hwf
  obtain ⟨⟨⟨_, _⟩, htag⟩, hspecs⟩ := hwf
  rw [ulebFits_iff] at htag
  have h1 := parse_enum_ulebN (env := env) (tbl := "ENUM_DW_TAG") (ctx := []) hd htag.1 htag.2
  have hd2 := drop_add_of_drop hd
  rw [encUlebN_length] at hd2
  have hbyte : decNat le [if d.children then (1 : UInt8) else 0] = if d.children then 1 else 0 := by
    rw [decNat_singleton]; cases d.children <;> rfl
  have h2u := parse_uint_ok (env := env) (le := le) (n := 1)
    (ctx := Fields.set [] "tag" (enumVal env.enumDecode "ENUM_DW_TAG" d.tag)) hd2 rfl
  rw [hbyte] at h2u
  have hname : env.enumDecode "ENUM_DW_CHILDREN" ((if d.children then 1 else 0 : Nat) : Int)
      = some (if d.children then "DW_CHILDREN_yes" else "DW_CHILDREN_no") := by
    cases d.children
    · simpa using hok.children0
    · simpa using hok.children1
  have h2 := parse_enum_named (tbl := "ENUM_DW_CHILDREN") (pass := false) h2u hname
  have hd3 := drop_add_of_drop hd2
  simp only [List.length_cons, List.length_nil] at hd3
  have h3 := parse_repeat_items (env := env) (data := data) (pred := specPred) (sub := specCon)
    (ctx := Fields.set (Fields.set [] "tag" (enumVal env.enumDecode "ENUM_DW_TAG" d.tag)) "children_flag"
      (.str (if d.children then "DW_CHILDREN_yes" else "DW_CHILDREN_no")))
    encSpec (specVal (namesOf env.enumDecode)) (fun s => wfSpec s = true) [0, 0] (specRec env.enumDecode 0 0 .none) tail
    (fun s pos' tail' hg hdx => by
      refine ⟨parse_spec hok s hg hdx, ?_⟩
      rw [specVal_eq, specPred_eval hok]
      simp only [wfSpec, Bool.and_eq_true, Bool.not_eq_true', Bool.and_eq_false_iff, beq_eq_false_iff_ne] at hg
      have := hg.1.2
      have hne : ¬ (s.name = 0 ∧ s.form = 0) := by
        rintro ⟨a, b⟩; rcases this with h | h
        · exact h a
        · exact h b
      simp [hne])
    (fun pos' hdx => by
      refine ⟨parse_spec_end hok hdx, ?_⟩
      rw [specPred_eval hok]; simp)
    d.specs (pos + d.tagLen + 1) (fun s hs => hspecs s hs) (fun s hs => encSpec_length_pos s (hspecs s hs)) hd3
  unfold structParse declCon
  rw [parse_struct (obj := _) (c' := _) (p := pos + d.tagLen + 1 + (d.specs.flatMap encSpec).length + 2)
    (by rw [parseFields_named h1, parseFields_named h2, parseFields_named h3, parseFields_nil]; rfl)]
  simp [bind, Except.bind, pure, Except.pure, declVal, namesOf, Fields.set]

/-! ### the table -/

/-- the dict `_parse_abbrev_table` builds: later declarations overwrite earlier ones with the same code -/
def abbrevMapFrom (nm : Names) (m : List (Nat × Val)) (ds : List AbbrevDecl) : List (Nat × Val) :=
  ds.foldl (fun m d => mapSet m d.code (declVal nm d)) m

def abbrevMap (nm : Names) (ds : List AbbrevDecl) : List (Nat × Val) := abbrevMapFrom nm [] ds

theorem encDecl_eq (d : AbbrevDecl) (tail : Bytes) :
    encDecl d ++ tail = encUlebN d.codeLen d.code ++ (encUlebN d.tagLen d.tag ++ ([if d.children then 1 else 0] ++
      (d.specs.flatMap encSpec ++ ([0, 0] ++ tail)))) := by
  simp [encDecl, List.append_assoc]

theorem encDecl_length (d : AbbrevDecl) :
    (encDecl d).length = d.codeLen + (d.tagLen + 1 + (d.specs.flatMap encSpec).length + 2) := by
  simp only [encDecl, List.length_append, List.length_cons, List.length_nil, encUlebN_length]; omega

theorem parseNat_ulebN {env : Env} {data : Bytes} {pos l v : Nat} {rest : Bytes}
    (hd : data.drop pos = encUlebN l v ++ rest) (hl : ulebFits l v = true) :
    Lookup.parseNat env .uleb data pos = .ok (v, pos + l) := by
  rw [ulebFits_iff] at hl
  unfold Lookup.parseNat structParse
  rw [parse_ulebN hd hl.1 hl.2]
  have hneg : ¬ ((v : Int) < 0) := by omega
  simp [bind, Except.bind, pure, Except.pure, Val.asNat, Val.asInt, hneg]

theorem abbrevLoop_encoded {env : Env} (hok : EnumOK env.enumDecode) (c : DwarfCfg) {data rest : Bytes} {endLen : Nat}
    (hend : 1 ≤ endLen) :
    ∀ (ds : List AbbrevDecl) (fuel pos : Nat) (m : List (Nat × Val)), (∀ d ∈ ds, wfDecl d = true) →
      ds.length + 1 ≤ fuel → data.drop pos = ds.flatMap encDecl ++ (encUlebN endLen 0 ++ rest) →
      abbrevLoop env (Spec.dwarfStructs c) data fuel pos m = .ok (abbrevMapFrom (namesOf env.enumDecode) m ds) := by
  intro ds
  induction ds with
  | nil =>
    intro fuel pos m _ hf hd
    cases fuel with
    | zero => omega
    | succ fuel =>
      have h0 := parseNat_ulebN (env := env) (show data.drop pos = encUlebN endLen 0 ++ rest by simpa using hd)
        (by rw [ulebFits_iff]; exact ⟨hend, Nat.pos_of_neZero _⟩)
      rw [abbrevLoop, the_uleb_eq, h0]
      simp [bind, Except.bind, pure, Except.pure, abbrevMapFrom]
  | cons d ds ih =>
    intro fuel pos m hwf hf hd
    cases fuel with
    | zero => omega
    | succ fuel =>
      have hwd := hwf d (by simp)
      have hd0 : data.drop pos = encDecl d ++ (ds.flatMap encDecl ++ (encUlebN endLen 0 ++ rest)) := by
        simpa [List.append_assoc] using hd
      have hd1 := hd0
      rw [encDecl_eq] at hd1
      have hwd' := hwd
      simp only [wfDecl, Bool.and_eq_true, decide_eq_true_eq] at hwd'
      have h0 := parseNat_ulebN (env := env) hd1 hwd'.1.1.2
      have hd2 := drop_add_of_drop hd1
      rw [encUlebN_length] at hd2
      have h1 := parse_decl hok c.le d hwd hd2
      have hne : ¬ d.code = 0 := by omega
      have hnext : data.drop (pos + d.codeLen + d.tagLen + 1 + (d.specs.flatMap encSpec).length + 2)
          = ds.flatMap encDecl ++ (encUlebN endLen 0 ++ rest) := by
        have := drop_add_of_drop hd0
        rw [encDecl_length] at this
        rw [← this]; congr 1; omega
      rw [abbrevLoop, the_uleb_eq, h0]
      simp only [bind, Except.bind, hne, if_false, declCon_eq, h1]
      rw [ih fuel _ _ (fun x hx => hwf x (by simp [hx])) (by simp at hf; omega) hnext]
      rfl

theorem encAbbrevs_length_ge (ds : List AbbrevDecl) (endLen : Nat) :
    ds.length + endLen ≤ (encAbbrevs ds endLen).length := by
  have := flatMap_length_ge encDecl ds (fun d _ => encDecl_length_pos d)
  simp only [encAbbrevs, List.length_append, encUlebN_length]; omega

/-- `AbbrevTable(structs, stream, offset)` on an encoded table, anywhere in any section -/
theorem parseAbbrevTable_encoded {env : Env} (hok : EnumOK env.enumDecode) (c : DwarfCfg) {data rest : Bytes}
    {off endLen : Nat} (ds : List AbbrevDecl) (hwf : ∀ d ∈ ds, wfDecl d = true) (hend : 1 ≤ endLen)
    (hoff : off < 2 ^ 63) (hd : data.drop off = encAbbrevs ds endLen ++ rest) :
    parseAbbrevTable env (Spec.dwarfStructs c) data off = .ok (abbrevMap (namesOf env.enumDecode) ds) := by
  have hl := length_of_drop hd
  have hge := encAbbrevs_length_ge ds endLen
  rw [List.length_append] at hl
  have hns : ¬ off ≥ 2 ^ 63 := by omega
  unfold parseAbbrevTable seekCheck
  simp only [hns, if_false, bind, Except.bind]
  exact abbrevLoop_encoded hok c (rest := rest) hend ds _ off [] hwf (by omega)
    (by rw [hd]; simp [encAbbrevs, List.append_assoc])

theorem getAbbrevTable_encoded {env : Env} (hok : EnumOK env.enumDecode) (c : DwarfCfg) {data rest : Bytes}
    {off endLen : Nat} (ds : List AbbrevDecl) (hwf : ∀ d ∈ ds, wfDecl d = true) (hend : 1 ≤ endLen)
    (hoff : off < 2 ^ 63) (hd : data.drop off = encAbbrevs ds endLen ++ rest) :
    getAbbrevTable env (Spec.dwarfStructs c) (some data) off = .ok (abbrevMap (namesOf env.enumDecode) ds) := by
  have hl := length_of_drop hd
  have hge := encAbbrevs_length_ge ds endLen
  rw [List.length_append] at hl
  have hlt : off < data.length := by omega
  unfold getAbbrevTable
  simp only [hlt, not_true_eq_false, if_false]
  exact parseAbbrevTable_encoded hok c ds hwf hend hoff hd

/-! ### the dict -/

theorem mapSet_of_not_mem (m : List (Nat × Val)) (k : Nat) (v : Val) (h : k ∉ m.map (·.1)) :
    mapSet m k v = m ++ [(k, v)] := by
  induction m with
  | nil => rfl
  | cons p m ih =>
    obtain ⟨k', v'⟩ := p
    simp only [List.map_cons, List.mem_cons, not_or] at h
    have hne : ¬ k' = k := fun e => h.1 e.symm
    simp [mapSet, hne, ih h.2]

theorem abbrevMapFrom_nodup (nm : Names) : ∀ (ds : List AbbrevDecl) (m : List (Nat × Val)),
    (∀ d ∈ ds, d.code ∉ m.map (·.1)) → (ds.map (·.code)).Nodup →
    abbrevMapFrom nm m ds = m ++ ds.map (fun d => (d.code, declVal nm d)) := by
  intro ds
  induction ds with
  | nil => intro m _ _; simp [abbrevMapFrom]
  | cons d ds ih =>
    intro m hm hn
    rw [List.map_cons, List.nodup_cons] at hn
    have h1 := mapSet_of_not_mem m d.code (declVal nm d) (hm d (by simp))
    have : abbrevMapFrom nm m (d :: ds) = abbrevMapFrom nm (mapSet m d.code (declVal nm d)) ds := rfl
    rw [this, h1, ih]
    · simp
    · intro q hq
      simp only [List.map_append, List.map_cons, List.map_nil, List.mem_append, List.mem_singleton, not_or]
      refine ⟨hm q (List.mem_cons_of_mem _ hq), ?_⟩
      intro e
      exact hn.1 (e ▸ List.mem_map_of_mem hq)
    · exact hn.2

/-- distinct codes: the dict is the table, in order -/
theorem abbrevMap_nodup (nm : Names) (ds : List AbbrevDecl) (h : (ds.map (·.code)).Nodup) :
    abbrevMap nm ds = ds.map (fun d => (d.code, declVal nm d)) := by
  unfold abbrevMap
  rw [abbrevMapFrom_nodup nm ds [] (by simp) h]; simp

theorem mapGet_table (nm : Names) : ∀ (ds : List AbbrevDecl) (d : AbbrevDecl), d ∈ ds → (ds.map (·.code)).Nodup →
    mapGet? (ds.map (fun d => (d.code, declVal nm d))) d.code = some (declVal nm d) := by
  intro ds
  induction ds with
  | nil => intro d h; simp at h
  | cons x ds ih =>
    intro d hd hn
    rw [List.map_cons, List.nodup_cons] at hn
    rcases List.mem_cons.1 hd with rfl | hd'
    · simp [mapGet?]
    · have hne : ¬ x.code = d.code := fun e => hn.1 (e ▸ List.mem_map_of_mem hd')
      have hb : ((x.code, declVal nm x).1 == d.code) = false := by simpa using hne
      have := ih d hd' hn.2
      unfold mapGet? at this ⊢
      rw [List.map_cons, List.find?_cons, hb]
      exact this

/-- `abbrev_table.get_abbrev(code)` finds the declaration with that code -/
theorem mapGet_abbrevMap (nm : Names) (ds : List AbbrevDecl) (d : AbbrevDecl) (hd : d ∈ ds)
    (hn : (ds.map (·.code)).Nodup) : mapGet? (abbrevMap nm ds) d.code = some (declVal nm d) := by
  rw [abbrevMap_nodup nm ds hn]; exact mapGet_table nm ds d hd hn

end PyElf.Proofs.C04
