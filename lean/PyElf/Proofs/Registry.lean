/-
  C17 helper lemmas: the search tree is a faithful representation of its association list,
  and the Bool checks the kernel evaluates imply the Prop-level statements of Spec/RegistryTree.lean.
-/
import PyElf.Spec.RegistryTree
namespace PyElf.Proofs.Registry
open PyElf.Spec

/-! ### tree lookup = association-list lookup -/

theorem alookup_append (A B : List (Nat × List Int)) (q : Nat) :
    alookup (A ++ B) q = match alookup A q with | some x => some x | none => alookup B q := by
  induction A with
  | nil => simp [alookup]
  | cons a A ih =>
    obtain ⟨k, vs⟩ := a
    simp only [List.cons_append, alookup]
    by_cases h : q = k
    · simp [h]
    · simp [h, ih]

theorem bounded_node {lo hi k : Nat} {l r : RTree} {n : String} {vs : List Int}
    (h : (RTree.node l k n vs r).bounded lo hi = true) :
    lo ≤ k ∧ k < hi ∧ l.bounded lo k = true ∧ r.bounded (k + 1) hi = true := by
  simp only [RTree.bounded, Bool.and_eq_true] at h
  obtain ⟨h1, h2, h3, h4⟩ := h
  exact ⟨Nat.le_of_ble_eq_true h1, by simpa [Nat.blt_eq] using h2, h3, h4⟩

theorem bounded_notin : ∀ (t : RTree) (lo hi q : Nat), t.bounded lo hi = true → (q < lo ∨ hi ≤ q) →
    alookup t.toList q = none
  | .leaf, _, _, _, _, _ => by simp [RTree.toList, alookup]
  | .node l k n vs r, lo, hi, q, h, hq => by
    obtain ⟨h1, h2, h3, h4⟩ := bounded_node h
    have hl := bounded_notin l lo k q h3 (by omega)
    have hr := bounded_notin r (k + 1) hi q h4 (by omega)
    have hne : q ≠ k := by omega
    simp [RTree.toList, alookup_append, hl, alookup, hne, hr]

theorem lookup_eq : ∀ (t : RTree) (lo hi : Nat), t.bounded lo hi = true → ∀ q, t.lookup q = alookup t.toList q
  | .leaf, _, _, _, _ => by simp [RTree.lookup, RTree.toList, alookup]
  | .node l k n vs r, lo, hi, h, q => by
    obtain ⟨h1, h2, h3, h4⟩ := bounded_node h
    have ihl := lookup_eq l lo k h3 q
    have ihr := lookup_eq r (k + 1) hi h4 q
    simp only [RTree.lookup, RTree.toList, alookup_append, alookup]
    by_cases hlt : q < k
    · have hb : Nat.blt q k = true := by simpa [Nat.blt_eq] using hlt
      have hr := bounded_notin r (k + 1) hi q h4 (by omega)
      have hne : q ≠ k := by omega
      simp only [hb, ihl, hne, if_false, hr]
      cases alookup l.toList q <;> rfl
    · have hb : Nat.blt q k = false := by
        cases hc : Nat.blt q k
        · rfl
        · exact absurd (by simpa [Nat.blt_eq] using hc) hlt
      have hl := bounded_notin l lo k q h3 (by omega)
      simp only [hb, hl]
      by_cases hgt : k < q
      · have hb2 : Nat.blt k q = true := by simpa [Nat.blt_eq] using hgt
        have hne : q ≠ k := by omega
        simp only [hb2, ihr, hne, if_false]
      · have hb2 : Nat.blt k q = false := by
          cases hc : Nat.blt k q
          · rfl
          · exact absurd (by simpa [Nat.blt_eq] using hc) hgt
        have he : q = k := by omega
        subst he
        simp only [hb2, if_true]

/-! ### Bool checks ⇒ Prop statements -/

theorem memInt_true {v : Int} : ∀ {l : List Int}, memInt v l = true → v ∈ l
  | [], h => by simp [memInt] at h
  | x :: xs, h => by
    simp only [memInt] at h
    by_cases hx : x = v
    · simp [hx]
    · simp only [hx, decide_false] at h
      exact List.mem_cons_of_mem _ (memInt_true h)

theorem memPair_true {k : Nat} {v : Int} : ∀ {l : List (Nat × Int)}, memPair k v l = true → (k, v) ∈ l
  | [], h => by simp [memPair] at h
  | (k', v') :: xs, h => by
    simp only [memPair] at h
    by_cases hk : Nat.beq k k' = true
    · by_cases hv : v' = v
      · have : k = k' := Nat.eq_of_beq_eq_true hk
        simp [this, hv]
      · have hd : decide (v' = v) = false := by simp [hv]
        rw [hk, hd] at h
        exact List.mem_cons_of_mem _ (memPair_true h)
    · have hk' : Nat.beq k k' = false := by
        cases hc : Nat.beq k k'
        · rfl
        · exact absurd hc hk
      rw [hk'] at h
      exact List.mem_cons_of_mem _ (memPair_true h)

theorem conformsB_sound {t : RTree} {lo hi : Nat} (ht : t.bounded lo hi = true) :
    ∀ {T : List (Nat × Int)}, conformsB t T = true → Conforms t.toList T
  | [], _ => by intro k v hm; simp at hm
  | (k0, v0) :: rest, h => by
    intro k v hm vs hl
    simp only [conformsB] at h
    rcases List.mem_cons.mp hm with he | hm'
    · obtain ⟨hk, hv⟩ := Prod.mk.inj he
      subst hk; subst hv
      rw [lookup_eq t lo hi ht, hl] at h
      simp only at h
      cases hmem : memInt v vs with
      | true => exact memInt_true hmem
      | false => rw [hmem] at h; simp at h
    · have hrest : conformsB t rest = true := by
        cases hlk : t.lookup k0 with
        | none => rw [hlk] at h; exact h
        | some vs0 =>
          rw [hlk] at h
          simp only at h
          cases hm0 : memInt v0 vs0 with
          | true => rw [hm0] at h; exact h
          | false => rw [hm0] at h; simp at h
      exact conformsB_sound ht hrest k v hm' vs hl

/-! ### decoding direction -/

theorem hasValue_true {v : Int} : ∀ {l : List (Nat × Int)}, hasValue v l = true → ∃ k, (k, v) ∈ l
  | [], h => by simp [hasValue] at h
  | (k, x) :: xs, h => by
    simp only [hasValue] at h
    by_cases hx : x = v
    · exact ⟨k, by simp [hx]⟩
    · have hd : decide (x = v) = false := by simp [hx]
      rw [hd] at h
      obtain ⟨k', hk'⟩ := hasValue_true h
      exact ⟨k', List.mem_cons_of_mem _ hk'⟩

theorem hasValue_cons_false {v x : Int} {k : Nat} {l : List (Nat × Int)} (hx : x ≠ v) (h : hasValue v l = false) :
    hasValue v ((k, x) :: l) = false := by
  have hd : decide (x = v) = false := by simp [hx]
  simp only [hasValue, hd, h]

/-- the reported name is the last entry carrying the code -/
theorem decode_split {v : Int} {k' : Nat} : ∀ (T : List (Nat × Int)) (acc : Option Nat),
    T.foldl (fun acc kv => if kv.2 = v then some kv.1 else acc) acc = some k' →
    (acc = some k' ∧ hasValue v T = false) ∨ ∃ A B, T = A ++ (k', v) :: B ∧ hasValue v B = false
  | [], acc, h => by
    left
    exact ⟨by simpa using h, rfl⟩
  | (k, x) :: rest, acc, h => by
    simp only [List.foldl_cons] at h
    rcases decode_split rest _ h with ⟨ha, hv⟩ | ⟨A, B, hT, hB⟩
    · by_cases hx : x = v
      · right
        simp only [hx, if_true] at ha
        have : k = k' := by injection ha
        exact ⟨[], rest, by simp [this, hx], hv⟩
      · left
        simp only [hx, if_false] at ha
        exact ⟨ha, hasValue_cons_false hx hv⟩
    · right
      exact ⟨(k, x) :: A, B, by simp [hT], hB⟩

theorem decodeKey_split {T : List (Nat × Int)} {v : Int} {k' : Nat} (h : decodeKey T v = some k') :
    ∃ A B, T = A ++ (k', v) :: B ∧ hasValue v B = false := by
  rcases decode_split T none h with ⟨ha, _⟩ | h'
  · cases ha
  · exact h'

theorem decodeKey_mem {T : List (Nat × Int)} {v : Int} {k' : Nat} (h : decodeKey T v = some k') : (k', v) ∈ T := by
  obtain ⟨A, B, hT, _⟩ := decodeKey_split h
  simp [hT]

/-- consequence of conformance alone: a reported name that the registry defines has the code as (one of) its
    registry value(s) — "a code found in a file is reported under its standard name" -/
theorem decode_reports_standard_name {R : List (Nat × List Int)} {T : List (Nat × Int)} (hc : Conforms R T)
    {v : Int} {k' : Nat} (h : decodeKey T v = some k') {vs : List Int} (hl : alookup R k' = some vs) : v ∈ vs :=
  hc k' v (decodeKey_mem h) vs hl

theorem anyKnown_false {t : RTree} {v : Int} : ∀ {T : List (Nat × Int)}, anyKnown t v T = false →
    ∀ k, (k, v) ∈ T → t.lookup k = none
  | [], _, k, hm => by simp at hm
  | (k0, x) :: rest, h, k, hm => by
    simp only [anyKnown] at h
    by_cases hx : x = v
    · have hd : decide (x = v) = true := by simp [hx]
      rw [hd] at h
      simp only at h
      cases hl : t.lookup k0 with
      | some vs => rw [hl] at h; simp at h
      | none =>
        rw [hl] at h
        simp only at h
        rcases List.mem_cons.mp hm with he | hm'
        · obtain ⟨hk, _⟩ := Prod.mk.inj he
          rw [hk]; exact hl
        · exact anyKnown_false h k hm'
    · have hd : decide (x = v) = false := by simp [hx]
      rw [hd] at h
      simp only at h
      rcases List.mem_cons.mp hm with he | hm'
      · obtain ⟨_, hv⟩ := Prod.mk.inj he
        exact absurd hv.symm hx
      · exact anyKnown_false h k hm'

theorem decodesStdB_last {t : RTree} {exc T : List (Nat × Int)} {k' : Nat} {v : Int} {B : List (Nat × Int)}
    (hB : hasValue v B = false) : ∀ (A : List (Nat × Int)),
    decodesStdB t exc T (A ++ (k', v) :: B) = true → okLast t exc T k' v = true
  | [], h => by
    simp only [List.nil_append, decodesStdB] at h
    unfold okLast
    cases hl : t.lookup k' with
    | some vs =>
      rw [hl] at h
      simp only [hB, Bool.or_false] at h ⊢
      cases hm : memInt v vs with
      | true => rfl
      | false => rw [hm] at h; simp at h
    | none =>
      rw [hl] at h
      simp only [hB, Bool.false_or] at h ⊢
      cases hm : (memPair k' v exc || !anyKnown t v T) with
      | true => rfl
      | false => rw [hm] at h; simp at h
  | (k0, v0) :: A, h => by
    simp only [List.cons_append, decodesStdB] at h
    apply decodesStdB_last hB A
    split at h
    · exact h
    · simp at h

theorem decodesStdB_sound {t : RTree} {lo hi : Nat} (ht : t.bounded lo hi = true) {exc T : List (Nat × Int)}
    (h : decodesStdB t exc T T = true) : DecodesStd t.toList exc T := by
  intro k' v hdec ⟨k, vs, hmem, hl⟩
  obtain ⟨A, B, hT, hB⟩ := decodeKey_split hdec
  have aux : ∀ S, S = A ++ (k', v) :: B → decodesStdB t exc T S = true → okLast t exc T k' v = true := by
    intro S hS hd
    subst hS
    exact decodesStdB_last hB A hd
  have hok : okLast t exc T k' v = true := aux T hT h
  unfold okLast at hok
  cases hlk : t.lookup k' with
  | some vs' =>
    rw [hlk] at hok
    left
    exact ⟨vs', by rw [← lookup_eq t lo hi ht]; exact hlk, memInt_true hok⟩
  | none =>
    rw [hlk] at hok
    simp only [Bool.or_eq_true, Bool.not_eq_true'] at hok
    rcases hok with hp | hn
    · right
      exact ⟨memPair_true hp, by rw [← lookup_eq t lo hi ht]; exact hlk⟩
    · have := anyKnown_false hn k hmem
      rw [lookup_eq t lo hi ht, hl] at this
      cases this

/-! ### reverse maps -/

theorem listEqB_eq : ∀ {a b : List (Nat × Int)}, listEqB a b = true → a = b
  | [], [], _ => rfl
  | [], _ :: _, h => by simp [listEqB] at h
  | _ :: _, [], h => by simp [listEqB] at h
  | (k, v) :: a, (k', v') :: b, h => by
    simp only [listEqB, Bool.and_eq_true, decide_eq_true_eq] at h
    obtain ⟨h1, h2, h3⟩ := h
    rw [Nat.eq_of_beq_eq_true h1, h2, listEqB_eq h3]

theorem reverseConsistentB_sound {M T : List (Nat × Int)} (h : reverseConsistentB M T = true) :
    ReverseConsistent M T := by
  unfold reverseConsistentB at h
  rcases Bool.or_eq_true _ _ |>.mp h with he | hq
  · have := listEqB_eq he
    subst this
    exact ⟨fun _ _ hm => hm, fun k v hm => ⟨k, hm⟩⟩
  · simp only [Bool.and_eq_true, subsetB, coversB, List.all_eq_true] at hq
    obtain ⟨hs, hc⟩ := hq
    exact ⟨fun k v hm => memPair_true (hs (k, v) hm), fun k v hm => hasValue_true (hc (k, v) hm)⟩

end PyElf.Proofs.Registry
