/-
  C15 helper lemmas: whole-file composition.  For a well-formed abstract ELF
  image (C01: `ElfDesc.wfZ`, `Layout`) one of whose sections is an assembled
  version section, `ELFFile(bytes).get_section(sec)` builds the version-section
  object whose constructor arguments are the ones the description says, and
  the file is a layout of the version records in the sense of
  `Spec/GnuVersions.lean`.
-/
import PyElf.Proofs.ElfFile
import PyElf.Proofs.GnuAssembled
import PyElf.Model.GnuVersionsFile
namespace PyElf.Proofs.C15
open PyElf PyElf.Spec PyElf.Spec.C15 PyElf.Model PyElf.Model.C15 PyElf.Proofs

/-! ### opening a well-formed image that has sections -/

/-- the `ElfFile` that `ELFFile(stream)` leaves behind (`st`: its name table, `none` for a file
    without one — `e_shstrndx` = SHN_UNDEF; cf. `Proofs.Setup`) -/
def fileOf (d : ElfDesc) (bytes : Bytes) (hdr : Val) (st : Option Val) : ElfFile :=
  { data := bytes, cls := d.cls, le := d.le, S := d.S, header := hdr, shstr := st }

theorem file_setup {env : Env} {d : ElfDesc} {bytes : Bytes} (hwf : d.wfZ env = true) (hl : Layout d bytes)
    (hn : 0 < d.sections.length) :
    ∃ hdr st, Setup env d bytes hdr st ∧ openElf env specSF specMC bytes = .ok (fileOf d bytes hdr st) := by
  have hw := wfZ_facts hwf
  have hL := layout_facts hl
  have h1 : ∃ hdr, d.S.Elf_Ehdr.decodeRaw env [] d.ehdrRaw = .ok hdr := by
    have := hw.cfg
    unfold ElfDesc.cfgOk at this
    cases hh : d.S.Elf_Ehdr.decodeRaw env [] d.ehdrRaw with
    | error er => simp [hh] at this
    | ok hdr => exact ⟨hdr, rfl⟩
  obtain ⟨hdr, hd⟩ := h1
  obtain ⟨eh, he, -⟩ := hL.ehdr
  obtain ⟨st, hst, ho⟩ := openElf_ok_pos hw hL hd hn
  exact ⟨hdr, st, ⟨hw, hL, hdr_facts he hd, hst⟩, ho⟩

/-- a section's body sits at its `sh_offset` -/
theorem body_drop {d : ElfDesc} {bytes : Bytes} (hL : LayoutFacts d bytes) {i : Nat} (hi : i < d.sections.length) :
    ∃ rest, bytes.drop (getNatD (d.sections[i]).hdr "sh_offset") = bodyOf (d.sections[i]) ++ rest := by
  cases hb : (d.sections[i]).body with
  | none => exact ⟨bytes.drop (getNatD (d.sections[i]).hdr "sh_offset"), by simp [bodyOf, hb]⟩
  | some b =>
    have := hL.body _ (List.getElem_mem hi) b hb
    exact ⟨bytes.drop (getNatD (d.sections[i]).hdr "sh_offset" + b.length),
      by rw [drop_of_readN this]; simp [bodyOf, hb]⟩

/-- the raw header fields of section `i` -/
def rawHdr (d : ElfDesc) (i : Nat) : Fields := ((d.sections[i]?).map (·.hdr)).getD []

theorem rawHdr_eq (d : ElfDesc) {i : Nat} (hi : i < d.sections.length) : rawHdr d i = (d.sections[i]).hdr := by
  simp [rawHdr, List.getElem?_eq_getElem hi]

/-- what is known of the header of section `i` as the reader decodes it -/
structure SecView (env : Env) (d : ElfDesc) (bytes : Bytes) (hdr : Val) (st : Option Val) (i : Nat) (h : Val) : Prop where
  hi : i < d.sections.length
  dec : d.decHdr env i = some h
  get : getSectionHeader env d.S bytes hdr i = .ok (some h)
  nat : ∀ k ∈ shdrNatKeys, k ≠ "sh_name" → h.getNat k = .ok (getNatD (rawHdr d i) k)

theorem sec_view {env : Env} {d : ElfDesc} {bytes : Bytes} {hdr : Val} {st : Option Val} (X : Setup env d bytes hdr st)
    {i : Nat} (hi : i < d.sections.length) : ∃ h, SecView env d bytes hdr st i h := by
  obtain ⟨_, h, _, _, hdec, hsf, _, _⟩ := sec_bundle X.hw.cls X.hL (X.hw.secs i hi)
  refine ⟨h, hi, hdec, getSectionHeader_ok X.hw X.hL X.hf hdec, ?_⟩
  intro k hk hne
  rw [hsf.nat k hk, hsf.raw k hk hne, rawHdr_eq d hi]

theorem sec_view_unique {env : Env} {d : ElfDesc} {bytes : Bytes} {hdr : Val} {st : Option Val} {i : Nat} {h h' : Val}
    (V : SecView env d bytes hdr st i h) (hdec : d.decHdr env i = some h') : h' = h := by
  have := V.dec
  rw [hdec] at this
  cases this
  rfl

theorem linkedHeader_ok {env : Env} {d : ElfDesc} {bytes : Bytes} {hdr : Val} {st : Option Val} {i : Nat} {h : Val}
    (V : SecView env d bytes hdr st i h) : linkedHeader env (fileOf d bytes hdr st) i = .ok h := by
  unfold linkedHeader
  show (do match ← getSectionHeader env d.S bytes hdr i with
          | some h => pure h
          | none => throw Err.typeError) = _
  rw [V.get]
  rfl

theorem getSection_kind {env : Env} {d : ElfDesc} {bytes : Bytes} {hdr : Val} {st : Option Val} (X : Setup env d bytes hdr st)
    {i : Nat} {h : Val} (V : SecView env d bytes hdr st i h) {t : String}
    (hty : h.getField "sh_type" = .ok (.str t)) :
    getSection env d.S bytes hdr st i = .ok (kindOf (.str t) (d.sections[i]'V.hi).name, (d.sections[i]'V.hi).name, h) := by
  obtain ⟨h', ty, hdec, -, hty', hget⟩ := getSection_ok X V.hi
  have := sec_view_unique V hdec
  subst this
  rw [hty] at hty'
  cases hty'
  exact hget

/-! ### version-requirement / version-definition sections -/

structure VerSecFacts (env : Env) (d : ElfDesc) (sec : Nat) (ty : String) (body : Bytes) (declared : Nat)
    (linkOk : Bytes → Bool) : Prop where
  hi : sec < d.sections.length
  ty : ∃ h, d.decHdr env sec = some h ∧ h.getField "sh_type" = .ok (.str ty)
  body : (d.sections[sec]).body = some body
  info : getNatD (d.sections[sec]).hdr "sh_info" = declared
  hlink : getNatD (d.sections[sec]).hdr "sh_link" < d.sections.length
  link : linkOk (bodyOf (d.sections[getNatD (d.sections[sec]).hdr "sh_link"])) = true

theorem verSecAt_unpack {env : Env} {d : ElfDesc} {sec : Nat} {ty : String} {body : Bytes} {declared : Nat}
    {linkOk : Bytes → Bool} (h : verSecAt env d sec ty body declared linkOk = true) :
    VerSecFacts env d sec ty body declared linkOk := by
  unfold verSecAt at h
  cases hs : d.sections[sec]? with
  | none => simp [hs] at h
  | some s =>
    obtain ⟨hi, rfl⟩ := List.getElem?_eq_some_iff.1 hs
    cases hd : d.decHdr env sec with
    | none => simp [hs, hd] at h
    | some hv =>
      simp only [hs, hd, Bool.and_eq_true, decide_eq_true_eq] at h
      obtain ⟨⟨⟨h1, h2⟩, h3⟩, h4⟩ := h
      obtain ⟨t, ht, hm⟩ := typeIn_unpack h1
      simp only [List.mem_cons, List.not_mem_nil, or_false] at hm
      subst hm
      cases hl : d.sections[getNatD (d.sections[sec]).hdr "sh_link"]? with
      | none => simp [hl] at h4
      | some stt =>
        obtain ⟨hli, rfl⟩ := List.getElem?_eq_some_iff.1 hl
        simp only [hl] at h4
        exact ⟨hi, ⟨hv, hd, ht⟩, h2, h3, hli, h4⟩

/-- `get_section(n)` once `getSection` and the header reads are known -/
theorem getVerSection_need_of {env : Env} {f : ElfFile} {n : Nat} {nm : Bytes} {sh st : Val}
    {link off info strOff : Nat}
    (hget : getSection env f.S f.data f.header f.shstr n = .ok ("GNUVerNeedSection", nm, sh))
    (h1 : sh.getNat "sh_link" = .ok link) (h2 : linkedHeader env f link = .ok st)
    (h3 : sh.getNat "sh_offset" = .ok off) (h4 : sh.getNat "sh_info" = .ok info)
    (h5 : st.getNat "sh_offset" = .ok strOff) :
    getVerSection env f n = .ok (.need (VerSec.mkNeed f.S f.data off info strOff)) := by
  unfold getVerSection
  simp only [hget, bind, Except.bind, h1, h2, h3, h4, h5]
  rfl

theorem getVerSection_def_of {env : Env} {f : ElfFile} {n : Nat} {nm : Bytes} {sh st : Val}
    {link off info strOff : Nat}
    (hget : getSection env f.S f.data f.header f.shstr n = .ok ("GNUVerDefSection", nm, sh))
    (h1 : sh.getNat "sh_link" = .ok link) (h2 : linkedHeader env f link = .ok st)
    (h3 : sh.getNat "sh_offset" = .ok off) (h4 : sh.getNat "sh_info" = .ok info)
    (h5 : st.getNat "sh_offset" = .ok strOff) :
    getVerSection env f n = .ok (.def_ (VerSec.mkDef f.S f.data off info strOff)) := by
  unfold getVerSection
  simp only [hget, bind, Except.bind, h1, h2, h3, h4, h5]
  rfl

theorem getVerSection_versym_of {env : Env} {f : ElfFile} {n : Nat} {nm : Bytes} {sh symh strh : Val}
    {link link2 off size es symOff symEs symStrOff : Nat}
    (hget : getSection env f.S f.data f.header f.shstr n = .ok ("GNUVerSymSection", nm, sh))
    (h1 : sh.getNat "sh_link" = .ok link) (h2 : linkedHeader env f link = .ok symh)
    (h3 : symh.getNat "sh_link" = .ok link2) (h4 : linkedHeader env f link2 = .ok strh)
    (h5 : sh.getNat "sh_offset" = .ok off) (h6 : sh.getNat "sh_size" = .ok size)
    (h7 : sh.getNat "sh_entsize" = .ok es) (h8 : symh.getNat "sh_offset" = .ok symOff)
    (h9 : symh.getNat "sh_entsize" = .ok symEs) (h10 : strh.getNat "sh_offset" = .ok symStrOff) :
    getVerSection env f n = .ok (.versym (VersymSec.mk' f.S f.data off size es symOff symEs symStrOff)) := by
  unfold getVerSection
  simp only [hget, bind, Except.bind, h1, h2, h3, h4, h5, h6, h7, h8, h9, h10]
  rfl

/-- `get_section(sec)` of a requirement/definition section: the constructor arguments -/
theorem getVerSection_ver {env : Env} {d : ElfDesc} {bytes : Bytes} {hdr : Val} {st : Option Val} (X : Setup env d bytes hdr st)
    {sec : Nat} {ty : String} {body : Bytes} {declared : Nat} {linkOk : Bytes → Bool}
    (F : VerSecFacts env d sec ty body declared linkOk) :
    ∃ off strOff strtab rest rest', linkOk strtab = true ∧ bytes.drop off = body ++ rest ∧
      bytes.drop strOff = strtab ++ rest' ∧
      (ty = "SHT_GNU_verneed" → getVerSection env (fileOf d bytes hdr st) sec
        = .ok (.need (VerSec.mkNeed d.S bytes off declared strOff))) ∧
      (ty = "SHT_GNU_verdef" → getVerSection env (fileOf d bytes hdr st) sec
        = .ok (.def_ (VerSec.mkDef d.S bytes off declared strOff))) := by
  obtain ⟨h, V⟩ := sec_view X F.hi
  obtain ⟨h', hdec, htyv⟩ := F.ty
  have := sec_view_unique V hdec
  subst this
  obtain ⟨lh, LV⟩ := sec_view X F.hlink
  obtain ⟨rest, hrest⟩ := body_drop X.hL F.hi
  obtain ⟨rest', hrest'⟩ := body_drop X.hL F.hlink
  have hb : bodyOf (d.sections[sec]'F.hi) = body := by simp [bodyOf, F.body]
  rw [hb] at hrest
  refine ⟨_, _, _, rest, rest', F.link, hrest, hrest', ?_, ?_⟩
  all_goals
    intro hty
    subst hty
    have hget := getSection_kind X V htyv
    have e1 := V.nat "sh_link" (by simp [shdrNatKeys]) (by decide)
    have e2 := V.nat "sh_offset" (by simp [shdrNatKeys]) (by decide)
    have e3 := V.nat "sh_info" (by simp [shdrNatKeys]) (by decide)
    have e4 := LV.nat "sh_offset" (by simp [shdrNatKeys]) (by decide)
    rw [rawHdr_eq d F.hi] at e1 e2 e3
    rw [rawHdr_eq d F.hlink] at e4
    rw [F.info] at e3
  · exact getVerSection_need_of (f := fileOf d bytes hdr st) hget e1 (linkedHeader_ok LV) e2 e3 e4
  · exact getVerSection_def_of (f := fileOf d bytes hdr st) hget e1 (linkedHeader_ok LV) e2 e3 e4

/-! ### the version-symbol table -/

structure VersymFacts (env : Env) (d : ElfDesc) (sec : Nat) (fill : UInt8) (rows : List (Sym × VersymRow))
    (slack moreSyms : Bytes) : Prop where
  hi : sec < d.sections.length
  ty : ∃ h, d.decHdr env sec = some h ∧ h.getField "sh_type" = .ok (.str "SHT_GNU_versym")
  body : (d.sections[sec]).body = some (assembleVersym d.le fill (getNatD (d.sections[sec]).hdr "sh_entsize")
      (rows.map (·.2)) ++ slack)
  vwf : versymWf (getNatD (d.sections[sec]).hdr "sh_entsize") (rows.map (·.2)) = true
  size : getNatD (d.sections[sec]).hdr "sh_size" / getNatD (d.sections[sec]).hdr "sh_entsize" = rows.length
  hlink : getNatD (d.sections[sec]).hdr "sh_link" < d.sections.length
  ybody : (d.sections[getNatD (d.sections[sec]).hdr "sh_link"]).body
    = some (assembleSyms d.cls d.le fill (getNatD (d.sections[getNatD (d.sections[sec]).hdr "sh_link"]).hdr "sh_entsize")
        (rows.map (·.1)) ++ moreSyms)
  hlink2 : getNatD (d.sections[getNatD (d.sections[sec]).hdr "sh_link"]).hdr "sh_link" < d.sections.length
  swf : symsWf d.cls (getNatD (d.sections[getNatD (d.sections[sec]).hdr "sh_link"]).hdr "sh_entsize")
    (bodyOf (d.sections[getNatD (d.sections[getNatD (d.sections[sec]).hdr "sh_link"]).hdr "sh_link"])) rows = true

theorem versymFileWf_unpack {env : Env} {d : ElfDesc} {sec : Nat} {fill : UInt8} {rows : List (Sym × VersymRow)}
    {slack moreSyms : Bytes} (h : versymFileWf env d sec fill rows slack moreSyms = true) :
    d.wfZ env = true ∧ VersymFacts env d sec fill rows slack moreSyms := by
  unfold versymFileWf at h
  rw [Bool.and_eq_true] at h
  obtain ⟨hwf, h⟩ := h
  refine ⟨hwf, ?_⟩
  cases hs : d.sections[sec]? with
  | none => simp [hs] at h
  | some s =>
    obtain ⟨hi, rfl⟩ := List.getElem?_eq_some_iff.1 hs
    cases hd : d.decHdr env sec with
    | none => simp [hs, hd] at h
    | some hv =>
      simp only [hs, hd, Bool.and_eq_true, decide_eq_true_eq] at h
      obtain ⟨⟨⟨⟨h1, h2⟩, h3⟩, h4⟩, h5⟩ := h
      obtain ⟨t, ht, hm⟩ := typeIn_unpack h1
      simp only [List.mem_cons, List.not_mem_nil, or_false] at hm
      subst hm
      cases hl : d.sections[getNatD (d.sections[sec]).hdr "sh_link"]? with
      | none => simp [hl] at h5
      | some y =>
        obtain ⟨hli, rfl⟩ := List.getElem?_eq_some_iff.1 hl
        simp only [hl, Bool.and_eq_true, decide_eq_true_eq] at h5
        obtain ⟨h6, h7⟩ := h5
        cases hl2 : d.sections[getNatD (d.sections[getNatD (d.sections[sec]).hdr "sh_link"]).hdr "sh_link"]? with
        | none => simp [hl2] at h7
        | some stt =>
          obtain ⟨hli2, rfl⟩ := List.getElem?_eq_some_iff.1 hl2
          simp only [hl2] at h7
          exact ⟨hi, ⟨hv, hd, ht⟩, h2, h3, h4, hli, h6, hli2, h7⟩

/-- `get_section(sec)` of a version-symbol table: the constructor arguments, and the file is a layout
    of the rows and of the symbols -/
theorem getVerSection_versym {env : Env} {d : ElfDesc} {bytes : Bytes} {hdr : Val} {st : Option Val} (X : Setup env d bytes hdr st)
    {sec : Nat} {fill : UInt8} {rows : List (Sym × VersymRow)} {slack moreSyms : Bytes}
    (F : VersymFacts env d sec fill rows slack moreSyms) :
    ∃ off size es symOff symEs symStrOff,
      getVerSection env (fileOf d bytes hdr st) sec
        = .ok (.versym (VersymSec.mk' d.S bytes off size es symOff symEs symStrOff)) ∧
      0 < es ∧ size / es = rows.length ∧
      versymAt d.le bytes off es 0 (rows.map (·.2)) = true ∧
      symsAt d.cls d.le bytes symOff symEs symStrOff 0 rows = true := by
  obtain ⟨h, V⟩ := sec_view X F.hi
  obtain ⟨h', hdec, htyv⟩ := F.ty
  have := sec_view_unique V hdec
  subst this
  obtain ⟨yh, YV⟩ := sec_view X F.hlink
  obtain ⟨sh, SV⟩ := sec_view X F.hlink2
  obtain ⟨rest, hrest⟩ := body_drop X.hL F.hi
  obtain ⟨rest1, hrest1⟩ := body_drop X.hL F.hlink
  obtain ⟨rest2, hrest2⟩ := body_drop X.hL F.hlink2
  simp only [bodyOf, F.body, Option.getD_some, List.append_assoc] at hrest
  simp only [bodyOf, F.ybody, Option.getD_some, List.append_assoc] at hrest1
  have hget := getSection_kind X V htyv
  have e1 := V.nat "sh_link" (by simp [shdrNatKeys]) (by decide)
  have e2 := V.nat "sh_offset" (by simp [shdrNatKeys]) (by decide)
  have e3 := V.nat "sh_size" (by simp [shdrNatKeys]) (by decide)
  have e4 := V.nat "sh_entsize" (by simp [shdrNatKeys]) (by decide)
  have e5 := YV.nat "sh_link" (by simp [shdrNatKeys]) (by decide)
  have e6 := YV.nat "sh_offset" (by simp [shdrNatKeys]) (by decide)
  have e7 := YV.nat "sh_entsize" (by simp [shdrNatKeys]) (by decide)
  have e8 := SV.nat "sh_offset" (by simp [shdrNatKeys]) (by decide)
  rw [rawHdr_eq d F.hi] at e1 e2 e3 e4
  rw [rawHdr_eq d F.hlink] at e5 e6 e7
  rw [rawHdr_eq d F.hlink2] at e8
  have hv := F.vwf
  simp only [versymWf, Bool.and_eq_true, decide_eq_true_eq, List.all_eq_true] at hv
  have hs := F.swf
  simp only [symsWf, Bool.and_eq_true, decide_eq_true_eq, List.all_eq_true] at hs
  refine ⟨_, _, _, _, _, _,
    getVerSection_versym_of (f := fileOf d bytes hdr st) hget e1 (linkedHeader_ok YV) e5 (linkedHeader_ok SV)
      e2 e3 e4 e6 e7 e8, by omega, F.size, ?_, ?_⟩
  · exact assembleVersym_layout hv.1 _ 0 _ hv.2 (by rw [Nat.zero_mul, Nat.add_zero]; exact hrest)
  · exact assembleSyms_layout hs.1 hrest2 rows 0 _
      (fun r hr => by have := hs.2 r hr; simpa [Bool.and_eq_true] using this)
      (by rw [Nat.zero_mul, Nat.add_zero]; exact hrest1)

/-! ### lookup by name -/

theorem getVerSectionByName_eq {env : Env} {d : ElfDesc} {bytes : Bytes} {obs : ElfObs} {f : ElfFile}
    (hwf : d.wfZ env = true) (hl : Layout d bytes) (ho : d.observe env = .ok obs)
    (hf : openElf env specSF specMC bytes = .ok f) (name : Bytes) :
    getVerSectionByName env f name =
      match d.indexOfName name with
      | none => .ok none
      | some i => (getVerSection env f i).map some := by
  have hw := wfZ_facts hwf
  have hsec := sections_gen hw hl ho hf
  obtain ⟨hdata, -⟩ := openElf_fields hw (layout_facts hl) (observe_inv ho).1 hf
  have hlook := lookup_exact_aux ho name
  unfold getVerSectionByName
  rw [hdata, hsec]
  simp only [bind, Except.bind]
  cases hfind : (sectionNameMap obs.sections).find? (·.1 == name) with
  | none =>
    rw [hfind] at hlook
    simp only [Option.map_none] at hlook
    rw [← hlook]
    rfl
  | some p =>
    rw [hfind] at hlook
    simp only [Option.map_some] at hlook
    rw [← hlook]
    obtain ⟨k, i⟩ := p
    cases getVerSection env f i <;> rfl

/-! ### the assembled image is addressable -/

theorem layOut_length_le (B : Nat) : ∀ (rs : List (Nat × Bytes)) (acc : Bytes), regionsDisjoint rs = true →
    (∀ r ∈ rs.head?, acc.length ≤ r.1) → acc.length ≤ B → (∀ r ∈ rs, r.1 + r.2.length ≤ B) →
    (layOut rs acc).length ≤ B := by
  intro rs
  induction rs with
  | nil => intro acc _ _ h _; simpa [layOut] using h
  | cons r0 rs ih =>
    intro acc hd hacc hB hall
    obtain ⟨off, b⟩ := r0
    have hle : acc.length ≤ off := hacc (off, b) (by simp)
    have hlen : (acc ++ List.replicate (off - acc.length) 0 ++ b).length = off + b.length := by
      simp; omega
    rw [layOut]
    apply ih
    · cases rs with
      | nil => rfl
      | cons r1 rs' =>
        obtain ⟨o1, b1⟩ := r1
        simp only [regionsDisjoint, Bool.and_eq_true] at hd
        exact hd.2
    · intro r1 hr1
      cases rs with
      | nil => simp at hr1
      | cons r1' rs' =>
        obtain ⟨o1, b1⟩ := r1'
        simp only [List.head?_cons, Option.mem_def, Option.some.injEq] at hr1
        subst hr1
        simp only [regionsDisjoint, Bool.and_eq_true, decide_eq_true_eq] at hd
        rw [hlen]; exact hd.1
    · rw [hlen]; exact hall (off, b) List.mem_cons_self
    · exact fun r hr => hall r (List.mem_cons_of_mem _ hr)

theorem assemble_length_lt {env : Env} {d : ElfDesc} {tail : Nat} {bytes : Bytes} (hwf : d.wfZ env = true)
    (hfit : imageFits d tail = true) (h : d.assemble tail = some bytes) : bytes.length < 2 ^ 63 := by
  obtain ⟨rs, hrs, hdisj⟩ := (wfZ_facts hwf).disj
  unfold imageFits at hfit
  simp only [hrs, List.all_eq_true, decide_eq_true_eq] at hfit
  unfold ElfDesc.assemble at h
  simp only [hrs, Option.bind_eq_bind, Option.bind_some, Option.pure_def, Option.some.injEq] at h
  subst h
  have hne : rs ≠ [] := by
    unfold ElfDesc.regions at hrs
    intro he
    subst he
    simp only [Option.bind_eq_bind, Option.bind_eq_some_iff, Option.pure_def, Option.some.injEq] at hrs
    obtain ⟨_, _, _, _, _, _, h⟩ := hrs
    simp at h
  obtain ⟨r0, hr0⟩ := List.exists_mem_of_ne_nil rs hne
  have hb := hfit r0 hr0
  have := layOut_length_le (2 ^ 63 - 1 - tail) (sortRegions rs) [] hdisj (fun _ _ => Nat.zero_le _)
    (by simp) (fun r hr => by
      have hm : r ∈ rs := (List.mergeSort_perm rs _).mem_iff.1 hr
      have := hfit r hm
      omega)
  simp only [List.length_append, List.length_replicate]
  omega

end PyElf.Proofs.C15
