/-
  C06 helper lemmas: `_parse_instructions` splits an encoded instruction stream into exactly
  the encoded opcodes and operands.
-/
import PyElf.Spec.CFI
import PyElf.Spec.DwarfStructs
import PyElf.Model.CallFrame
import PyElf.Proofs.Primitives
import PyElf.Proofs.CfiTable
namespace PyElf.Proofs.Cfi
open PyElf PyElf.Spec PyElf.Model PyElf.Proofs

/-- the struct fields `_parse_instructions` uses, as the standard prescribes them -/
structure InstrStructs (S : DwarfStructs) (le : Bool) (asz : Nat) : Prop where
  u8 : S.the_Dwarf_uint8 = .uint 1 le
  u16 : S.the_Dwarf_uint16 = .uint 2 le
  u32 : S.the_Dwarf_uint32 = .uint 4 le
  addr : S.the_Dwarf_target_addr = .uint asz le
  uleb : S.the_Dwarf_uleb128 = .uleb
  sleb : S.the_Dwarf_sleb128 = .sleb
  block : S.form "DW_FORM_block" = some (.prefixed .uleb (.uint 1 le))

theorem instrStructs_spec (le : Bool) (fmt asz ver : Nat) :
    InstrStructs (Spec.dwarfStructs ⟨le, fmt, asz, ver⟩) le asz :=
  ⟨rfl, rfl, rfl, rfl, rfl, rfl, rfl⟩

theorem sp_uint {env : Env} {data : Bytes} {pos n v : Nat} {le : Bool} {rest : Bytes}
    (hd : data.drop pos = encNat le n v ++ rest) (hv : v < 256 ^ n) :
    structParse env (.uint n le) data pos = .ok (.int v, pos + n) := by
  simp only [structParse, parse_uint_ok hd (encNat_length le n v), decNat_encNat_of_lt le hv, bind, Except.bind,
    pure, Except.pure]

theorem sp_byte {env : Env} {data : Bytes} {pos x : Nat} {le : Bool} {rest : Bytes}
    (hd : data.drop pos = byte x ++ rest) (hx : x < 256) :
    structParse env (.uint 1 le) data pos = .ok (.int x, pos + 1) := by
  have h := parse_uint_ok (env := env) (le := le) (ctx := []) (n := 1) hd rfl
  simp only [structParse, h, bind, Except.bind, pure, Except.pure, byte, decNat_singleton]
  have : (UInt8.ofNat x).toNat = x := by simp [UInt8.toNat_ofNat', Nat.mod_eq_of_lt hx]
  rw [this]

theorem sp_uleb {env : Env} {data : Bytes} {pos : Nat} {u : ULeb} {rest : Bytes}
    (hd : data.drop pos = u.enc ++ rest) (hw : u.wf = true) :
    structParse env .uleb data pos = .ok (.int u.v, pos + u.n) := by
  simp only [ULeb.wf, Bool.and_eq_true, decide_eq_true_eq] at hw
  have h := parse_uleb_ok (env := env) (ctx := []) hd (show ValidLEB u.enc = true from encUlebN_valid u.n u.v hw.1)
  simp only [ULeb.enc] at h
  rw [ulebVal_enc_of_lt hw.2, encUlebN_length] at h
  simp only [structParse, h, bind, Except.bind, pure, Except.pure]

theorem sp_sleb {env : Env} {data : Bytes} {pos : Nat} {u : SLeb} {rest : Bytes}
    (hd : data.drop pos = u.enc ++ rest) (hw : u.wf = true) :
    structParse env .sleb data pos = .ok (.int u.v, pos + u.n) := by
  simp only [SLeb.wf, Bool.and_eq_true, decide_eq_true_eq] at hw
  have h := parse_sleb_ok (env := env) (ctx := []) hd (show ValidLEB u.enc = true from encSlebN_valid u.n u.v hw.1.1)
  simp only [SLeb.enc] at h
  rw [slebVal_enc u.n u.v hw.1.1 hw.1.2 hw.2, encSlebN_length] at h
  simp only [structParse, h, bind, Except.bind, pure, Except.pure]

theorem sp_block {env : Env} {data : Bytes} {pos : Nat} {le : Bool} {b : Block} {rest : Bytes}
    (hd : data.drop pos = b.enc ++ rest) (hw : b.wf = true) :
    structParse env (.prefixed .uleb (.uint 1 le)) data pos = .ok (b.obs, pos + (b.n + b.bytes.length)) := by
  simp only [Block.wf, Bool.and_eq_true, decide_eq_true_eq] at hw
  have hd' : data.drop pos = encUlebN b.n b.bytes.length ++ (b.bytes ++ rest) := by
    rw [hd, Block.enc, List.append_assoc]
  have h := parse_block_uleb (env := env) (le := le) (ctx := []) hw.1 hw.2 hd'
  simp only [structParse, h, bind, Except.bind, pure, Except.pure, Block.obs, Nat.add_assoc]

theorem uleb_len (u : ULeb) : u.enc.length = u.n := encUlebN_length _ _
theorem sleb_len (u : SLeb) : u.enc.length = u.n := encSlebN_length _ _
theorem block_len (b : Block) : b.enc.length = b.n + b.bytes.length := by
  simp [Block.enc, encUlebN_length]

/-- `data.drop pos = a ++ r` gives the drop after `a` -/
theorem drop_after {data : Bytes} {pos : Nat} {a r : Bytes} (h : data.drop pos = a ++ r) {n : Nat}
    (hn : a.length = n) : data.drop (pos + n) = r := by
  subst hn; exact drop_add_of_drop h


theorem parseInstr_of {T : CfiTables} {S : DwarfStructs} {env : Env} {data : Bytes} {pos op : Nat} {le : Bool}
    {args : List Val} {p' : Nat} (hu8 : S.the_Dwarf_uint8 = .uint 1 le)
    (hop : structParse env (.uint 1 le) data pos = .ok (.int (op : Nat), pos + 1))
    (hargs : parseInstrArgs T S env data op (pos + 1) = .ok (args, p')) :
    parseInstr T S env data pos = .ok (⟨op, args⟩, p') := by
  simp only [parseInstr, hu8, hop, asNat_nat, hargs, bind, Except.bind, pure, Except.pure]

theorem formBlock_ok {S : DwarfStructs} {le : Bool} {asz : Nat} (hS : InstrStructs S le asz) :
    formBlock S = .ok (.prefixed .uleb (.uint 1 le)) := by
  simp only [formBlock, hS.block]

set_option maxHeartbeats 1000000 in
set_option linter.unusedSimpArgs false in
/-- every DW_CFA opcode: the opcode byte and exactly its operands are read -/
theorem parseInstr_ok {S : DwarfStructs} {le : Bool} {asz : Nat} (hS : InstrStructs S le asz) (env : Env)
    (data : Bytes) (pos : Nat) (i : Cfa) (rest : Bytes)
    (hd : data.drop pos = i.enc le asz ++ rest) (hw : i.wf asz = true) :
    parseInstr Spec.cfiTables S env data pos = .ok (toInstr i, pos + (i.enc le asz).length) := by
  cases i with
  | nop =>
    have hd0 : data.drop pos = byte 0 ++ rest := by
      simpa [Cfa.enc, List.append_assoc] using hd
    have hargs : parseInstrArgs Spec.cfiTables S env data (0) (pos + 1)
        = .ok ([], pos + 1) := by
      simp (config := { decide := true }) [parseInstrArgs, Spec.cfiTables, cfaOps, hS.uleb, hS.sleb, hS.u8, hS.u16, hS.u32, hS.addr, formBlock_ok hS, bind, Except.bind, pure, Except.pure]
    rw [parseInstr_of hS.u8 (sp_byte hd0 (by decide)) hargs]
    simp [toInstr, Cfa.opcode, Cfa.operands, Cfa.enc, byte, uleb_len, sleb_len, block_len, encNat_length] <;> omega
  | remember_state =>
    have hd0 : data.drop pos = byte 0xa ++ rest := by
      simpa [Cfa.enc, List.append_assoc] using hd
    have hargs : parseInstrArgs Spec.cfiTables S env data (0xa) (pos + 1)
        = .ok ([], pos + 1) := by
      simp (config := { decide := true }) [parseInstrArgs, Spec.cfiTables, cfaOps, hS.uleb, hS.sleb, hS.u8, hS.u16, hS.u32, hS.addr, formBlock_ok hS, bind, Except.bind, pure, Except.pure]
    rw [parseInstr_of hS.u8 (sp_byte hd0 (by decide)) hargs]
    simp [toInstr, Cfa.opcode, Cfa.operands, Cfa.enc, byte, uleb_len, sleb_len, block_len, encNat_length] <;> omega
  | restore_state =>
    have hd0 : data.drop pos = byte 0xb ++ rest := by
      simpa [Cfa.enc, List.append_assoc] using hd
    have hargs : parseInstrArgs Spec.cfiTables S env data (0xb) (pos + 1)
        = .ok ([], pos + 1) := by
      simp (config := { decide := true }) [parseInstrArgs, Spec.cfiTables, cfaOps, hS.uleb, hS.sleb, hS.u8, hS.u16, hS.u32, hS.addr, formBlock_ok hS, bind, Except.bind, pure, Except.pure]
    rw [parseInstr_of hS.u8 (sp_byte hd0 (by decide)) hargs]
    simp [toInstr, Cfa.opcode, Cfa.operands, Cfa.enc, byte, uleb_len, sleb_len, block_len, encNat_length] <;> omega
  | negate_ra_state =>
    have hd0 : data.drop pos = byte 0x2d ++ rest := by
      simpa [Cfa.enc, List.append_assoc] using hd
    have hargs : parseInstrArgs Spec.cfiTables S env data (0x2d) (pos + 1)
        = .ok ([], pos + 1) := by
      simp (config := { decide := true }) [parseInstrArgs, Spec.cfiTables, cfaOps, hS.uleb, hS.sleb, hS.u8, hS.u16, hS.u32, hS.addr, formBlock_ok hS, bind, Except.bind, pure, Except.pure]
    rw [parseInstr_of hS.u8 (sp_byte hd0 (by decide)) hargs]
    simp [toInstr, Cfa.opcode, Cfa.operands, Cfa.enc, byte, uleb_len, sleb_len, block_len, encNat_length] <;> omega
  | restore_extended r =>
    simp only [Cfa.wf] at hw
    have hd0 : data.drop pos = byte 6 ++ (r.enc ++ rest) := by
      simpa [Cfa.enc, List.append_assoc] using hd
    have hd1 := drop_after hd0 (n := 1) rfl
    have hargs : parseInstrArgs Spec.cfiTables S env data (6) (pos + 1)
        = .ok ([.int r.v], pos + 1 + r.n) := by
      simp (config := { decide := true }) [parseInstrArgs, Spec.cfiTables, cfaOps, hS.uleb, hS.sleb, hS.u8, hS.u16, hS.u32, hS.addr, formBlock_ok hS, bind, Except.bind, pure, Except.pure, sp_uleb hd1 hw]
    rw [parseInstr_of hS.u8 (sp_byte hd0 (by decide)) hargs]
    simp [toInstr, Cfa.opcode, Cfa.operands, Cfa.enc, byte, uleb_len, sleb_len, block_len, encNat_length] <;> omega
  | undefined r =>
    simp only [Cfa.wf] at hw
    have hd0 : data.drop pos = byte 7 ++ (r.enc ++ rest) := by
      simpa [Cfa.enc, List.append_assoc] using hd
    have hd1 := drop_after hd0 (n := 1) rfl
    have hargs : parseInstrArgs Spec.cfiTables S env data (7) (pos + 1)
        = .ok ([.int r.v], pos + 1 + r.n) := by
      simp (config := { decide := true }) [parseInstrArgs, Spec.cfiTables, cfaOps, hS.uleb, hS.sleb, hS.u8, hS.u16, hS.u32, hS.addr, formBlock_ok hS, bind, Except.bind, pure, Except.pure, sp_uleb hd1 hw]
    rw [parseInstr_of hS.u8 (sp_byte hd0 (by decide)) hargs]
    simp [toInstr, Cfa.opcode, Cfa.operands, Cfa.enc, byte, uleb_len, sleb_len, block_len, encNat_length] <;> omega
  | same_value r =>
    simp only [Cfa.wf] at hw
    have hd0 : data.drop pos = byte 8 ++ (r.enc ++ rest) := by
      simpa [Cfa.enc, List.append_assoc] using hd
    have hd1 := drop_after hd0 (n := 1) rfl
    have hargs : parseInstrArgs Spec.cfiTables S env data (8) (pos + 1)
        = .ok ([.int r.v], pos + 1 + r.n) := by
      simp (config := { decide := true }) [parseInstrArgs, Spec.cfiTables, cfaOps, hS.uleb, hS.sleb, hS.u8, hS.u16, hS.u32, hS.addr, formBlock_ok hS, bind, Except.bind, pure, Except.pure, sp_uleb hd1 hw]
    rw [parseInstr_of hS.u8 (sp_byte hd0 (by decide)) hargs]
    simp [toInstr, Cfa.opcode, Cfa.operands, Cfa.enc, byte, uleb_len, sleb_len, block_len, encNat_length] <;> omega
  | def_cfa_register r =>
    simp only [Cfa.wf] at hw
    have hd0 : data.drop pos = byte 0xd ++ (r.enc ++ rest) := by
      simpa [Cfa.enc, List.append_assoc] using hd
    have hd1 := drop_after hd0 (n := 1) rfl
    have hargs : parseInstrArgs Spec.cfiTables S env data (0xd) (pos + 1)
        = .ok ([.int r.v], pos + 1 + r.n) := by
      simp (config := { decide := true }) [parseInstrArgs, Spec.cfiTables, cfaOps, hS.uleb, hS.sleb, hS.u8, hS.u16, hS.u32, hS.addr, formBlock_ok hS, bind, Except.bind, pure, Except.pure, sp_uleb hd1 hw]
    rw [parseInstr_of hS.u8 (sp_byte hd0 (by decide)) hargs]
    simp [toInstr, Cfa.opcode, Cfa.operands, Cfa.enc, byte, uleb_len, sleb_len, block_len, encNat_length] <;> omega
  | def_cfa_offset r =>
    simp only [Cfa.wf] at hw
    have hd0 : data.drop pos = byte 0xe ++ (r.enc ++ rest) := by
      simpa [Cfa.enc, List.append_assoc] using hd
    have hd1 := drop_after hd0 (n := 1) rfl
    have hargs : parseInstrArgs Spec.cfiTables S env data (0xe) (pos + 1)
        = .ok ([.int r.v], pos + 1 + r.n) := by
      simp (config := { decide := true }) [parseInstrArgs, Spec.cfiTables, cfaOps, hS.uleb, hS.sleb, hS.u8, hS.u16, hS.u32, hS.addr, formBlock_ok hS, bind, Except.bind, pure, Except.pure, sp_uleb hd1 hw]
    rw [parseInstr_of hS.u8 (sp_byte hd0 (by decide)) hargs]
    simp [toInstr, Cfa.opcode, Cfa.operands, Cfa.enc, byte, uleb_len, sleb_len, block_len, encNat_length] <;> omega
  | gnu_args_size r =>
    simp only [Cfa.wf] at hw
    have hd0 : data.drop pos = byte 0x2e ++ (r.enc ++ rest) := by
      simpa [Cfa.enc, List.append_assoc] using hd
    have hd1 := drop_after hd0 (n := 1) rfl
    have hargs : parseInstrArgs Spec.cfiTables S env data (0x2e) (pos + 1)
        = .ok ([.int r.v], pos + 1 + r.n) := by
      simp (config := { decide := true }) [parseInstrArgs, Spec.cfiTables, cfaOps, hS.uleb, hS.sleb, hS.u8, hS.u16, hS.u32, hS.addr, formBlock_ok hS, bind, Except.bind, pure, Except.pure, sp_uleb hd1 hw]
    rw [parseInstr_of hS.u8 (sp_byte hd0 (by decide)) hargs]
    simp [toInstr, Cfa.opcode, Cfa.operands, Cfa.enc, byte, uleb_len, sleb_len, block_len, encNat_length] <;> omega
  | offset_extended r o =>
    simp only [Cfa.wf, Bool.and_eq_true] at hw
    have hd0 : data.drop pos = byte 5 ++ (r.enc ++ (o.enc ++ rest)) := by
      simpa [Cfa.enc, List.append_assoc] using hd
    have hd1 := drop_after hd0 (n := 1) rfl
    have hd2 := drop_after hd1 (uleb_len r)
    have hargs : parseInstrArgs Spec.cfiTables S env data (5) (pos + 1)
        = .ok ([.int r.v, .int o.v], pos + 1 + r.n + o.n) := by
      simp (config := { decide := true }) [parseInstrArgs, Spec.cfiTables, cfaOps, hS.uleb, hS.sleb, hS.u8, hS.u16, hS.u32, hS.addr, formBlock_ok hS, bind, Except.bind, pure, Except.pure, sp_uleb hd1 hw.1, sp_uleb hd2 hw.2]
    rw [parseInstr_of hS.u8 (sp_byte hd0 (by decide)) hargs]
    simp [toInstr, Cfa.opcode, Cfa.operands, Cfa.enc, byte, uleb_len, sleb_len, block_len, encNat_length] <;> omega
  | register r o =>
    simp only [Cfa.wf, Bool.and_eq_true] at hw
    have hd0 : data.drop pos = byte 9 ++ (r.enc ++ (o.enc ++ rest)) := by
      simpa [Cfa.enc, List.append_assoc] using hd
    have hd1 := drop_after hd0 (n := 1) rfl
    have hd2 := drop_after hd1 (uleb_len r)
    have hargs : parseInstrArgs Spec.cfiTables S env data (9) (pos + 1)
        = .ok ([.int r.v, .int o.v], pos + 1 + r.n + o.n) := by
      simp (config := { decide := true }) [parseInstrArgs, Spec.cfiTables, cfaOps, hS.uleb, hS.sleb, hS.u8, hS.u16, hS.u32, hS.addr, formBlock_ok hS, bind, Except.bind, pure, Except.pure, sp_uleb hd1 hw.1, sp_uleb hd2 hw.2]
    rw [parseInstr_of hS.u8 (sp_byte hd0 (by decide)) hargs]
    simp [toInstr, Cfa.opcode, Cfa.operands, Cfa.enc, byte, uleb_len, sleb_len, block_len, encNat_length] <;> omega
  | def_cfa r o =>
    simp only [Cfa.wf, Bool.and_eq_true] at hw
    have hd0 : data.drop pos = byte 0xc ++ (r.enc ++ (o.enc ++ rest)) := by
      simpa [Cfa.enc, List.append_assoc] using hd
    have hd1 := drop_after hd0 (n := 1) rfl
    have hd2 := drop_after hd1 (uleb_len r)
    have hargs : parseInstrArgs Spec.cfiTables S env data (0xc) (pos + 1)
        = .ok ([.int r.v, .int o.v], pos + 1 + r.n + o.n) := by
      simp (config := { decide := true }) [parseInstrArgs, Spec.cfiTables, cfaOps, hS.uleb, hS.sleb, hS.u8, hS.u16, hS.u32, hS.addr, formBlock_ok hS, bind, Except.bind, pure, Except.pure, sp_uleb hd1 hw.1, sp_uleb hd2 hw.2]
    rw [parseInstr_of hS.u8 (sp_byte hd0 (by decide)) hargs]
    simp [toInstr, Cfa.opcode, Cfa.operands, Cfa.enc, byte, uleb_len, sleb_len, block_len, encNat_length] <;> omega
  | val_offset r o =>
    simp only [Cfa.wf, Bool.and_eq_true] at hw
    have hd0 : data.drop pos = byte 0x14 ++ (r.enc ++ (o.enc ++ rest)) := by
      simpa [Cfa.enc, List.append_assoc] using hd
    have hd1 := drop_after hd0 (n := 1) rfl
    have hd2 := drop_after hd1 (uleb_len r)
    have hargs : parseInstrArgs Spec.cfiTables S env data (0x14) (pos + 1)
        = .ok ([.int r.v, .int o.v], pos + 1 + r.n + o.n) := by
      simp (config := { decide := true }) [parseInstrArgs, Spec.cfiTables, cfaOps, hS.uleb, hS.sleb, hS.u8, hS.u16, hS.u32, hS.addr, formBlock_ok hS, bind, Except.bind, pure, Except.pure, sp_uleb hd1 hw.1, sp_uleb hd2 hw.2]
    rw [parseInstr_of hS.u8 (sp_byte hd0 (by decide)) hargs]
    simp [toInstr, Cfa.opcode, Cfa.operands, Cfa.enc, byte, uleb_len, sleb_len, block_len, encNat_length] <;> omega
  | def_cfa_offset_sf o =>
    simp only [Cfa.wf] at hw
    have hd0 : data.drop pos = byte 0x13 ++ (o.enc ++ rest) := by
      simpa [Cfa.enc, List.append_assoc] using hd
    have hd1 := drop_after hd0 (n := 1) rfl
    have hargs : parseInstrArgs Spec.cfiTables S env data (0x13) (pos + 1)
        = .ok ([.int o.v], pos + 1 + o.n) := by
      simp (config := { decide := true }) [parseInstrArgs, Spec.cfiTables, cfaOps, hS.uleb, hS.sleb, hS.u8, hS.u16, hS.u32, hS.addr, formBlock_ok hS, bind, Except.bind, pure, Except.pure, sp_sleb hd1 hw]
    rw [parseInstr_of hS.u8 (sp_byte hd0 (by decide)) hargs]
    simp [toInstr, Cfa.opcode, Cfa.operands, Cfa.enc, byte, uleb_len, sleb_len, block_len, encNat_length] <;> omega
  | offset_extended_sf r o =>
    simp only [Cfa.wf, Bool.and_eq_true] at hw
    have hd0 : data.drop pos = byte 0x11 ++ (r.enc ++ (o.enc ++ rest)) := by
      simpa [Cfa.enc, List.append_assoc] using hd
    have hd1 := drop_after hd0 (n := 1) rfl
    have hd2 := drop_after hd1 (uleb_len r)
    have hargs : parseInstrArgs Spec.cfiTables S env data (0x11) (pos + 1)
        = .ok ([.int r.v, .int o.v], pos + 1 + r.n + o.n) := by
      simp (config := { decide := true }) [parseInstrArgs, Spec.cfiTables, cfaOps, hS.uleb, hS.sleb, hS.u8, hS.u16, hS.u32, hS.addr, formBlock_ok hS, bind, Except.bind, pure, Except.pure, sp_uleb hd1 hw.1, sp_sleb hd2 hw.2]
    rw [parseInstr_of hS.u8 (sp_byte hd0 (by decide)) hargs]
    simp [toInstr, Cfa.opcode, Cfa.operands, Cfa.enc, byte, uleb_len, sleb_len, block_len, encNat_length] <;> omega
  | def_cfa_sf r o =>
    simp only [Cfa.wf, Bool.and_eq_true] at hw
    have hd0 : data.drop pos = byte 0x12 ++ (r.enc ++ (o.enc ++ rest)) := by
      simpa [Cfa.enc, List.append_assoc] using hd
    have hd1 := drop_after hd0 (n := 1) rfl
    have hd2 := drop_after hd1 (uleb_len r)
    have hargs : parseInstrArgs Spec.cfiTables S env data (0x12) (pos + 1)
        = .ok ([.int r.v, .int o.v], pos + 1 + r.n + o.n) := by
      simp (config := { decide := true }) [parseInstrArgs, Spec.cfiTables, cfaOps, hS.uleb, hS.sleb, hS.u8, hS.u16, hS.u32, hS.addr, formBlock_ok hS, bind, Except.bind, pure, Except.pure, sp_uleb hd1 hw.1, sp_sleb hd2 hw.2]
    rw [parseInstr_of hS.u8 (sp_byte hd0 (by decide)) hargs]
    simp [toInstr, Cfa.opcode, Cfa.operands, Cfa.enc, byte, uleb_len, sleb_len, block_len, encNat_length] <;> omega
  | val_offset_sf r o =>
    simp only [Cfa.wf, Bool.and_eq_true] at hw
    have hd0 : data.drop pos = byte 0x15 ++ (r.enc ++ (o.enc ++ rest)) := by
      simpa [Cfa.enc, List.append_assoc] using hd
    have hd1 := drop_after hd0 (n := 1) rfl
    have hd2 := drop_after hd1 (uleb_len r)
    have hargs : parseInstrArgs Spec.cfiTables S env data (0x15) (pos + 1)
        = .ok ([.int r.v, .int o.v], pos + 1 + r.n + o.n) := by
      simp (config := { decide := true }) [parseInstrArgs, Spec.cfiTables, cfaOps, hS.uleb, hS.sleb, hS.u8, hS.u16, hS.u32, hS.addr, formBlock_ok hS, bind, Except.bind, pure, Except.pure, sp_uleb hd1 hw.1, sp_sleb hd2 hw.2]
    rw [parseInstr_of hS.u8 (sp_byte hd0 (by decide)) hargs]
    simp [toInstr, Cfa.opcode, Cfa.operands, Cfa.enc, byte, uleb_len, sleb_len, block_len, encNat_length] <;> omega
  | def_cfa_expression e =>
    simp only [Cfa.wf] at hw
    have hd0 : data.drop pos = byte 0xf ++ (e.enc ++ rest) := by
      simpa [Cfa.enc, List.append_assoc] using hd
    have hd1 := drop_after hd0 (n := 1) rfl
    have hargs : parseInstrArgs Spec.cfiTables S env data (0xf) (pos + 1)
        = .ok ([e.obs], pos + 1 + (e.n + e.bytes.length)) := by
      simp (config := { decide := true }) [parseInstrArgs, Spec.cfiTables, cfaOps, hS.uleb, hS.sleb, hS.u8, hS.u16, hS.u32, hS.addr, formBlock_ok hS, bind, Except.bind, pure, Except.pure, sp_block hd1 hw]
    rw [parseInstr_of hS.u8 (sp_byte hd0 (by decide)) hargs]
    simp [toInstr, Cfa.opcode, Cfa.operands, Cfa.enc, byte, uleb_len, sleb_len, block_len, encNat_length] <;> omega
  | expression r e =>
    simp only [Cfa.wf, Bool.and_eq_true] at hw
    have hd0 : data.drop pos = byte 0x10 ++ (r.enc ++ (e.enc ++ rest)) := by
      simpa [Cfa.enc, List.append_assoc] using hd
    have hd1 := drop_after hd0 (n := 1) rfl
    have hd2 := drop_after hd1 (uleb_len r)
    have hargs : parseInstrArgs Spec.cfiTables S env data (0x10) (pos + 1)
        = .ok ([.int r.v, e.obs], pos + 1 + r.n + (e.n + e.bytes.length)) := by
      simp (config := { decide := true }) [parseInstrArgs, Spec.cfiTables, cfaOps, hS.uleb, hS.sleb, hS.u8, hS.u16, hS.u32, hS.addr, formBlock_ok hS, bind, Except.bind, pure, Except.pure, sp_uleb hd1 hw.1, sp_block hd2 hw.2]
    rw [parseInstr_of hS.u8 (sp_byte hd0 (by decide)) hargs]
    simp [toInstr, Cfa.opcode, Cfa.operands, Cfa.enc, byte, uleb_len, sleb_len, block_len, encNat_length] <;> omega
  | val_expression r e =>
    simp only [Cfa.wf, Bool.and_eq_true] at hw
    have hd0 : data.drop pos = byte 0x16 ++ (r.enc ++ (e.enc ++ rest)) := by
      simpa [Cfa.enc, List.append_assoc] using hd
    have hd1 := drop_after hd0 (n := 1) rfl
    have hd2 := drop_after hd1 (uleb_len r)
    have hargs : parseInstrArgs Spec.cfiTables S env data (0x16) (pos + 1)
        = .ok ([.int r.v, e.obs], pos + 1 + r.n + (e.n + e.bytes.length)) := by
      simp (config := { decide := true }) [parseInstrArgs, Spec.cfiTables, cfaOps, hS.uleb, hS.sleb, hS.u8, hS.u16, hS.u32, hS.addr, formBlock_ok hS, bind, Except.bind, pure, Except.pure, sp_uleb hd1 hw.1, sp_block hd2 hw.2]
    rw [parseInstr_of hS.u8 (sp_byte hd0 (by decide)) hargs]
    simp [toInstr, Cfa.opcode, Cfa.operands, Cfa.enc, byte, uleb_len, sleb_len, block_len, encNat_length] <;> omega
  | set_loc a =>
    simp only [Cfa.wf, decide_eq_true_eq] at hw
    have hd0 : data.drop pos = byte 1 ++ (encNat le asz a ++ rest) := by
      simpa [Cfa.enc, List.append_assoc] using hd
    have hd1 := drop_after hd0 (n := 1) rfl
    have hargs : parseInstrArgs Spec.cfiTables S env data (1) (pos + 1)
        = .ok ([.int a], pos + 1 + asz) := by
      simp (config := { decide := true }) [parseInstrArgs, Spec.cfiTables, cfaOps, hS.uleb, hS.sleb, hS.u8, hS.u16, hS.u32, hS.addr, formBlock_ok hS, bind, Except.bind, pure, Except.pure, sp_uint hd1 hw]
    rw [parseInstr_of hS.u8 (sp_byte hd0 (by decide)) hargs]
    simp [toInstr, Cfa.opcode, Cfa.operands, Cfa.enc, byte, uleb_len, sleb_len, block_len, encNat_length] <;> omega
  | advance_loc1 a =>
    simp only [Cfa.wf, decide_eq_true_eq] at hw
    have hd0 : data.drop pos = byte 2 ++ (encNat le 1 a ++ rest) := by
      simpa [Cfa.enc, List.append_assoc] using hd
    have hd1 := drop_after hd0 (n := 1) rfl
    have hargs : parseInstrArgs Spec.cfiTables S env data (2) (pos + 1)
        = .ok ([.int a], pos + 1 + 1) := by
      simp (config := { decide := true }) [parseInstrArgs, Spec.cfiTables, cfaOps, hS.uleb, hS.sleb, hS.u8, hS.u16, hS.u32, hS.addr, formBlock_ok hS, bind, Except.bind, pure, Except.pure, sp_uint hd1 hw]
    rw [parseInstr_of hS.u8 (sp_byte hd0 (by decide)) hargs]
    simp [toInstr, Cfa.opcode, Cfa.operands, Cfa.enc, byte, uleb_len, sleb_len, block_len, encNat_length] <;> omega
  | advance_loc2 a =>
    simp only [Cfa.wf, decide_eq_true_eq] at hw
    have hd0 : data.drop pos = byte 3 ++ (encNat le 2 a ++ rest) := by
      simpa [Cfa.enc, List.append_assoc] using hd
    have hd1 := drop_after hd0 (n := 1) rfl
    have hargs : parseInstrArgs Spec.cfiTables S env data (3) (pos + 1)
        = .ok ([.int a], pos + 1 + 2) := by
      simp (config := { decide := true }) [parseInstrArgs, Spec.cfiTables, cfaOps, hS.uleb, hS.sleb, hS.u8, hS.u16, hS.u32, hS.addr, formBlock_ok hS, bind, Except.bind, pure, Except.pure, sp_uint hd1 hw]
    rw [parseInstr_of hS.u8 (sp_byte hd0 (by decide)) hargs]
    simp [toInstr, Cfa.opcode, Cfa.operands, Cfa.enc, byte, uleb_len, sleb_len, block_len, encNat_length] <;> omega
  | advance_loc4 a =>
    simp only [Cfa.wf, decide_eq_true_eq] at hw
    have hd0 : data.drop pos = byte 4 ++ (encNat le 4 a ++ rest) := by
      simpa [Cfa.enc, List.append_assoc] using hd
    have hd1 := drop_after hd0 (n := 1) rfl
    have hargs : parseInstrArgs Spec.cfiTables S env data (4) (pos + 1)
        = .ok ([.int a], pos + 1 + 4) := by
      simp (config := { decide := true }) [parseInstrArgs, Spec.cfiTables, cfaOps, hS.uleb, hS.sleb, hS.u8, hS.u16, hS.u32, hS.addr, formBlock_ok hS, bind, Except.bind, pure, Except.pure, sp_uint hd1 hw]
    rw [parseInstr_of hS.u8 (sp_byte hd0 (by decide)) hargs]
    simp [toInstr, Cfa.opcode, Cfa.operands, Cfa.enc, byte, uleb_len, sleb_len, block_len, encNat_length] <;> omega
  | advance_loc d =>
    simp only [Cfa.wf, decide_eq_true_eq] at hw
    have hd0 : data.drop pos = byte (0x40 + d) ++ rest := by
      simpa [Cfa.enc, List.append_assoc] using hd
    have hargs : parseInstrArgs Spec.cfiTables S env data (0x40 + d) (pos + 1)
        = .ok ([.int d], pos + 1) := by
      simp (config := { decide := true }) [parseInstrArgs, Spec.cfiTables, cfaOps, hS.uleb, hS.sleb, hS.u8, hS.u16, hS.u32, hS.addr, formBlock_ok hS, bind, Except.bind, pure, Except.pure, and_c0_40 d hw, and_3f_40 d hw]
    rw [parseInstr_of hS.u8 (sp_byte hd0 (by omega)) hargs]
    simp [toInstr, Cfa.opcode, Cfa.operands, Cfa.enc, byte, uleb_len, sleb_len, block_len, encNat_length] <;> omega
  | restore d =>
    simp only [Cfa.wf, decide_eq_true_eq] at hw
    have hd0 : data.drop pos = byte (0xc0 + d) ++ rest := by
      simpa [Cfa.enc, List.append_assoc] using hd
    have hargs : parseInstrArgs Spec.cfiTables S env data (0xc0 + d) (pos + 1)
        = .ok ([.int d], pos + 1) := by
      simp (config := { decide := true }) [parseInstrArgs, Spec.cfiTables, cfaOps, hS.uleb, hS.sleb, hS.u8, hS.u16, hS.u32, hS.addr, formBlock_ok hS, bind, Except.bind, pure, Except.pure, and_c0_c0 d hw, and_3f_c0 d hw]
    rw [parseInstr_of hS.u8 (sp_byte hd0 (by omega)) hargs]
    simp [toInstr, Cfa.opcode, Cfa.operands, Cfa.enc, byte, uleb_len, sleb_len, block_len, encNat_length] <;> omega
  | offset d o =>
    simp only [Cfa.wf, Bool.and_eq_true, decide_eq_true_eq] at hw
    have hd0 : data.drop pos = byte (0x80 + d) ++ (o.enc ++ rest) := by
      simpa [Cfa.enc, List.append_assoc] using hd
    have hd1 := drop_after hd0 (n := 1) rfl
    have hargs : parseInstrArgs Spec.cfiTables S env data (0x80 + d) (pos + 1)
        = .ok ([.int d, .int o.v], pos + 1 + o.n) := by
      simp (config := { decide := true }) [parseInstrArgs, Spec.cfiTables, cfaOps, hS.uleb, hS.sleb, hS.u8, hS.u16, hS.u32, hS.addr, formBlock_ok hS, bind, Except.bind, pure, Except.pure, and_c0_80 d hw.1, and_3f_80 d hw.1, sp_uleb hd1 hw.2]
    rw [parseInstr_of hS.u8 (sp_byte hd0 (by omega)) hargs]
    simp [toInstr, Cfa.opcode, Cfa.operands, Cfa.enc, byte, uleb_len, sleb_len, block_len, encNat_length] <;> omega


theorem enc_length_pos (le : Bool) (asz : Nat) (i : Cfa) : 1 ≤ (i.enc le asz).length := by
  cases i <;> simp [Cfa.enc, byte] <;> omega

/-- an encoded instruction list between `pos` and `pos + length` is split into exactly its instructions,
    whatever follows (`rest`), leaving the stream at the end of the list -/
theorem parseInstructions_ok {S : DwarfStructs} {le : Bool} {asz : Nat} (hS : InstrStructs S le asz) (env : Env)
    (data : Bytes) (is : List Cfa) : ∀ (pos fuel : Nat) (rest : Bytes),
      data.drop pos = encInstrs le asz is ++ rest → (∀ i ∈ is, i.wf asz = true) → is.length < fuel →
      parseInstructions Spec.cfiTables S env data (pos + (encInstrs le asz is).length) fuel pos
        = .ok (is.map toInstr, pos + (encInstrs le asz is).length) := by
  induction is with
  | nil =>
    intro pos fuel rest _ _ hf
    cases fuel with
    | zero => omega
    | succ f => simp [parseInstructions, encInstrs]
  | cons i is ih =>
    intro pos fuel rest hd hw hf
    cases fuel with
    | zero => omega
    | succ f =>
      have hlen : (encInstrs le asz (i :: is)).length = (i.enc le asz).length + (encInstrs le asz is).length := by
        simp [encInstrs]
      have hd0 : data.drop pos = i.enc le asz ++ (encInstrs le asz is ++ rest) := by
        rw [hd]; simp [encInstrs, List.append_assoc]
      have h1 := parseInstr_ok hS env data pos i _ hd0 (hw i (List.mem_cons_self ..))
      have hd1 : data.drop (pos + (i.enc le asz).length) = encInstrs le asz is ++ rest := drop_add_of_drop hd0
      have h2 := ih (pos + (i.enc le asz).length) f rest hd1 (fun j hj => hw j (List.mem_cons_of_mem _ hj))
        (by simp at hf; omega)
      have hpos := enc_length_pos le asz i
      have hlt : pos < pos + (encInstrs le asz (i :: is)).length := by omega
      rw [parseInstructions]
      simp only [hlt, if_true, h1, bind, Except.bind, pure, Except.pure]
      rw [hlen, ← Nat.add_assoc, h2]
      simp

end PyElf.Proofs.Cfi
