/-
  C07: `RangeLists.iter_range_lists()` — the enumeration is exactly the strictly
  increasing list of distinct offsets the debugging entries refer to; the dict of
  units keeps the last reference.
-/
import PyElf.Spec.Lists
import PyElf.Model.Lists
namespace PyElf.Proofs.ListsEnum
open PyElf PyElf.Model.Lists

/-! ### 1. the model's `sorted(set(..))` is the Spec's `sortedDistinct` -/

theorem insertSorted_eq (x : Int) (ys : List Int) :
    Model.Lists.insertSorted x ys = Spec.Lists.insertSorted x ys := by
  induction ys with
  | nil => rfl
  | cons y ys ih => simp [Model.Lists.insertSorted, Spec.Lists.insertSorted, ih]

theorem foldl_insertSorted_eq (xs : List Int) (acc : List Int) :
    xs.foldl (fun acc x => Model.Lists.insertSorted x acc) acc
      = xs.foldl (fun acc x => Spec.Lists.insertSorted x acc) acc := by
  induction xs generalizing acc with
  | nil => rfl
  | cons x xs _ => simp only [List.foldl_cons, insertSorted_eq]

theorem sortedSet_eq (xs : List Int) :
    Model.Lists.sortedSet xs = Spec.Lists.sortedDistinct xs := by
  unfold Model.Lists.sortedSet Spec.Lists.sortedDistinct
  exact foldl_insertSorted_eq xs []

/-! ### 2. what `sortedDistinct` is -/

theorem mem_insertSorted (x z : Int) (ys : List Int) :
    z ∈ Spec.Lists.insertSorted x ys ↔ z = x ∨ z ∈ ys := by
  induction ys with
  | nil => simp [Spec.Lists.insertSorted]
  | cons y ys ih =>
    unfold Spec.Lists.insertSorted
    by_cases h1 : x < y
    · simp [h1]
    · by_cases h2 : x = y
      · subst h2
        simp [h1]
      · simp only [h1, h2, if_false, List.mem_cons, ih]
        constructor
        · rintro (h | h | h)
          · exact Or.inr (Or.inl h)
          · exact Or.inl h
          · exact Or.inr (Or.inr h)
        · rintro (h | h | h)
          · exact Or.inr (Or.inl h)
          · exact Or.inl h
          · exact Or.inr (Or.inr h)

theorem insertSorted_sorted (x : Int) (ys : List Int) (h : ys.Pairwise (· < ·)) :
    (Spec.Lists.insertSorted x ys).Pairwise (· < ·) := by
  induction ys with
  | nil => simp [Spec.Lists.insertSorted]
  | cons y ys ih =>
    rw [List.pairwise_cons] at h
    unfold Spec.Lists.insertSorted
    by_cases h1 : x < y
    · simp only [h1, if_true]
      rw [List.pairwise_cons]
      refine ⟨?_, List.pairwise_cons.mpr h⟩
      intro a ha
      rcases List.mem_cons.mp ha with rfl | ha
      · exact h1
      · exact Int.lt_trans h1 (h.1 a ha)
    · by_cases h2 : x = y
      · subst h2
        simp only [h1, if_true, if_false]
        exact List.pairwise_cons.mpr h
      · simp only [h1, h2, if_false]
        rw [List.pairwise_cons]
        refine ⟨?_, ih h.2⟩
        intro a ha
        rcases (mem_insertSorted x a ys).mp ha with rfl | ha
        · omega
        · exact h.1 a ha

theorem mem_foldl_insertSorted (xs : List Int) (acc : List Int) (z : Int) :
    z ∈ xs.foldl (fun acc x => Spec.Lists.insertSorted x acc) acc ↔ z ∈ acc ∨ z ∈ xs := by
  induction xs generalizing acc with
  | nil => simp
  | cons x xs ih =>
    simp only [List.foldl_cons, ih, mem_insertSorted, List.mem_cons]
    constructor
    · rintro ((h | h) | h)
      · exact Or.inr (Or.inl h)
      · exact Or.inl h
      · exact Or.inr (Or.inr h)
    · rintro (h | h | h)
      · exact Or.inl (Or.inr h)
      · exact Or.inl (Or.inl h)
      · exact Or.inr h

theorem foldl_insertSorted_sorted (xs : List Int) (acc : List Int) (h : acc.Pairwise (· < ·)) :
    (xs.foldl (fun acc x => Spec.Lists.insertSorted x acc) acc).Pairwise (· < ·) := by
  induction xs generalizing acc with
  | nil => exact h
  | cons x xs ih => exact ih _ (insertSorted_sorted x acc h)

/-- `sortedDistinct xs` has exactly the members of `xs` -/
theorem mem_sortedDistinct (xs : List Int) (x : Int) :
    x ∈ Spec.Lists.sortedDistinct xs ↔ x ∈ xs := by
  unfold Spec.Lists.sortedDistinct
  simp [mem_foldl_insertSorted]

/-- `sortedDistinct xs` is strictly increasing (hence duplicate-free) -/
theorem sortedDistinct_sorted (xs : List Int) :
    (Spec.Lists.sortedDistinct xs).Pairwise (· < ·) := by
  unfold Spec.Lists.sortedDistinct
  exact foldl_insertSorted_sorted xs [] List.Pairwise.nil

theorem sortedDistinct_nodup (xs : List Int) : (Spec.Lists.sortedDistinct xs).Nodup := by
  have h := sortedDistinct_sorted xs
  unfold List.Nodup
  exact h.imp (fun hlt => by omega)

/-! ### 3. duplicates and insertion order do not matter -/

/-- two strictly increasing lists with the same members are equal -/
theorem sorted_ext {a b : List Int} (ha : a.Pairwise (· < ·)) (hb : b.Pairwise (· < ·))
    (h : ∀ x, x ∈ a ↔ x ∈ b) : a = b := by
  induction a generalizing b with
  | nil =>
    cases b with
    | nil => rfl
    | cons y ys => exact absurd ((h y).mpr (List.mem_cons_self ..)) (by simp)
  | cons x xs ih =>
    cases b with
    | nil => exact absurd ((h x).mp (List.mem_cons_self ..)) (by simp)
    | cons y ys =>
      rw [List.pairwise_cons] at ha hb
      have hxy : x = y := by
        have h1 := (h x).mp (List.mem_cons_self ..)
        have h2 := (h y).mpr (List.mem_cons_self ..)
        rcases List.mem_cons.mp h1 with e | h1
        · exact e
        · rcases List.mem_cons.mp h2 with e | h2
          · exact e.symm
          · have := hb.1 x h1
            have := ha.1 y h2
            omega
      subst hxy
      congr 1
      apply ih ha.2 hb.2
      intro z
      constructor
      · intro hz
        have hlt := ha.1 z hz
        rcases List.mem_cons.mp ((h z).mp (List.mem_cons_of_mem _ hz)) with e | h'
        · omega
        · exact h'
      · intro hz
        have hlt := hb.1 z hz
        rcases List.mem_cons.mp ((h z).mpr (List.mem_cons_of_mem _ hz)) with e | h'
        · omega
        · exact h'

/-- the keys after `d[k] = v` are the keys of `d` plus `k` -/
theorem mem_keys_dictSet {α} (d : List (Int × α)) (k : Int) (v : α) (z : Int) :
    z ∈ (dictSet d k v).map (·.1) ↔ z ∈ d.map (·.1) ∨ z = k := by
  induction d with
  | nil => simp [dictSet]
  | cons p rest ih =>
    obtain ⟨k', v'⟩ := p
    unfold dictSet
    by_cases hk : k' = k
    · subst hk
      simp only [if_true, List.map_cons, List.mem_cons]
      constructor
      · intro h; exact Or.inl h
      · rintro ((h | h) | h)
        · exact Or.inl h
        · exact Or.inr h
        · exact Or.inl h
    · simp only [hk, if_false, List.map_cons, List.mem_cons, ih]
      constructor
      · rintro (h | h | h)
        · exact Or.inl (Or.inl h)
        · exact Or.inl (Or.inr h)
        · exact Or.inr h
      · rintro ((h | h) | h)
        · exact Or.inl h
        · exact Or.inr (Or.inl h)
        · exact Or.inr (Or.inr h)

theorem mem_keys_foldl_dictSet {α} (refs : List (Int × α)) (d : List (Int × α)) (z : Int) :
    z ∈ (refs.foldl (fun d r => dictSet d r.1 r.2) d).map (·.1)
      ↔ z ∈ d.map (·.1) ∨ z ∈ refs.map (·.1) := by
  induction refs generalizing d with
  | nil => simp
  | cons r refs ih =>
    simp only [List.foldl_cons, ih, mem_keys_dictSet, List.map_cons, List.mem_cons]
    constructor
    · rintro ((h | h) | h)
      · exact Or.inl h
      · exact Or.inr (Or.inl h)
      · exact Or.inr (Or.inr h)
    · rintro (h | h | h)
      · exact Or.inl (Or.inl h)
      · exact Or.inl (Or.inr h)
      · exact Or.inr h

/-- the dict's keys are exactly the referenced offsets -/
theorem mem_keys_cuMapOf (refs : List (Int × Cu)) (k : Int) :
    k ∈ (cuMapOf refs).map (·.1) ↔ k ∈ refs.map (·.1) := by
  unfold cuMapOf
  rw [mem_keys_foldl_dictSet]
  simp

/-- `sorted(set(cu_map.keys()))` is the sorted set of all referenced offsets -/
theorem sortedSet_keys (refs : List (Int × Cu)) :
    Model.Lists.sortedSet ((cuMapOf refs).map (·.1)) = Spec.Lists.sortedDistinct (refs.map (·.1)) := by
  rw [sortedSet_eq]
  apply sorted_ext (sortedDistinct_sorted _) (sortedDistinct_sorted _)
  intro x
  rw [mem_sortedDistinct, mem_sortedDistinct, mem_keys_cuMapOf]

/-! ### 4. the last reference wins -/

theorem dictGet_dictSet {α} (d : List (Int × α)) (k : Int) (v : α) (z : Int) :
    dictGet? (dictSet d k v) z = if k = z then some v else dictGet? d z := by
  induction d with
  | nil =>
    by_cases h : k = z <;> simp [dictSet, dictGet?, h]
  | cons p rest ih =>
    obtain ⟨k', v'⟩ := p
    unfold dictSet
    by_cases hk : k' = k
    · subst hk
      by_cases h : k' = z <;> simp [dictGet?, h]
    · simp only [hk, if_false]
      by_cases h : k' = z
      · subst h
        have : ¬ k = k' := fun e => hk e.symm
        simp [dictGet?, this]
      · have ih' := ih
        simp only [dictGet?] at ih'
        simp [dictGet?, h, ih']

theorem dictGet_foldl_dictSet {α} (refs : List (Int × α)) (d : List (Int × α)) (k : Int) :
    dictGet? (refs.foldl (fun d r => dictSet d r.1 r.2) d) k
      = ((refs.reverse.find? (·.1 == k)).map (·.2)).or (dictGet? d k) := by
  induction refs generalizing d with
  | nil => simp
  | cons r refs ih =>
    rw [List.foldl_cons, ih, dictGet_dictSet]
    simp only [List.reverse_cons, List.find?_append]
    cases hfind : List.find? (fun x => x.1 == k) refs.reverse with
    | some p => simp
    | none =>
      by_cases h : r.1 = k <;> simp [h]

/-- `cu_map[k]` is the unit of the last reference to `k` -/
theorem dictGet_cuMapOf_last (refs : List (Int × Cu)) (k : Int) :
    dictGet? (cuMapOf refs) k = (refs.reverse.find? (·.1 == k)).map (·.2) := by
  unfold cuMapOf
  rw [dictGet_foldl_dictSet]
  simp [dictGet?]

/-- `k in cu_map` iff some reference has offset `k` -/
theorem dictGet_cuMapOf (refs : List (Int × Cu)) (k : Int) :
    (dictGet? (cuMapOf refs) k).isSome = (refs.map (·.1)).contains k := by
  rw [dictGet_cuMapOf_last]
  rw [Bool.eq_iff_iff]
  simp only [Option.isSome_map, List.find?_isSome, List.mem_reverse, List.contains_iff_mem,
    List.mem_map, beq_iff_eq]

/-- the unit attached to an offset is one that referred to it -/
theorem dictGet_cuMapOf_mem (refs : List (Int × Cu)) (k : Int) (cu : Cu)
    (h : dictGet? (cuMapOf refs) k = some cu) : (k, cu) ∈ refs := by
  rw [dictGet_cuMapOf_last] at h
  cases hf : List.find? (fun x => x.1 == k) refs.reverse with
  | none => simp [hf] at h
  | some p =>
    simp only [hf, Option.map_some, Option.some.injEq] at h
    have hm := List.mem_of_find?_eq_some hf
    have hk := List.find?_some hf
    simp only [beq_iff_eq] at hk
    obtain ⟨a, b⟩ := p
    simp only at hk h
    subst hk; subst h
    exact List.mem_reverse.mp hm

/-! ### 5. the enumeration -/

/-- `iter_range_lists` fetches, in increasing order, exactly the distinct offsets the
    debugging entries refer to, each with a unit that referred to it -/
theorem iterRangeLists_exact (env : Env) (secs : Secs) (l : Lists) (cus : List Cu)
    (refs : List (Int × Cu))
    (hrefs : rangeRefs env secs (decide (l.version ≥ 5)) cus = .ok refs) :
    iterRangeLists env secs l cus =
      (Spec.Lists.sortedDistinct (refs.map (·.1))).mapM fun offset =>
        match dictGet? (cuMapOf refs) offset with
        | none => .error .keyError
        | some cu => getRangeListAtOffset env secs l offset (some cu) := by
  simp only [iterRangeLists, hrefs, bind, Except.bind, sortedSet_keys]
  rfl

/-- the `KeyError` branch of `iter_range_lists` is unreachable -/
theorem iterRangeLists_key_present (refs : List (Int × Cu)) (offset : Int)
    (h : offset ∈ Spec.Lists.sortedDistinct (refs.map (·.1))) :
    (dictGet? (cuMapOf refs) offset).isSome = true := by
  rw [dictGet_cuMapOf, List.contains_iff_mem]
  exact (mem_sortedDistinct _ _).mp h

example : Spec.Lists.sortedDistinct [5, 3, 5, 1, 3] = [1, 3, 5] := by decide

end PyElf.Proofs.ListsEnum
