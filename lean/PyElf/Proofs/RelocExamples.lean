/-
  C08: concrete abstract ELF images (`Spec.ElfDesc`) for the non-vacuity checks of the whole-file
  theorems in `Props/C08.lean`.  Definitions only (the builder is C15's `exImage`: file header, section
  header table, bodies three bytes apart, no program headers, `e_machine = 21` EM_PPC64, ET_DYN).
-/
import PyElf.Spec.RelocFile
import PyElf.Proofs.GnuExamples
namespace PyElf.Proofs.RelocFile
open PyElf PyElf.Spec PyElf.Spec.C08 PyElf.Proofs.C15

/-- ".s", ".symtab", ".debug_info", ".rela.debug_info", ".relr.dyn" and a section-name table holding them at
    1, 4, 12, 24, 41 -/
def nS : Bytes := [0x2e, 0x73]
def nSymtab : Bytes := [0x2e, 0x73, 0x79, 0x6d, 0x74, 0x61, 0x62]
def nDebugInfo : Bytes := [0x2e, 0x64, 0x65, 0x62, 0x75, 0x67, 0x5f, 0x69, 0x6e, 0x66, 0x6f]
def nRelaDebugInfo : Bytes := dotRela ++ nDebugInfo
def nRelrDyn : Bytes := [0x2e, 0x72, 0x65, 0x6c, 0x72, 0x2e, 0x64, 0x79, 0x6e]
def exRelNames : Bytes := [0] ++ nS ++ [0] ++ nSymtab ++ [0] ++ nDebugInfo ++ [0] ++ nRelaDebugInfo ++ [0] ++ nRelrDyn ++ [0]

/-- R_PPC64_ADDR32 at 0 (S + A = 0x1005), R_PPC64_REL32 at 4 (S + A − P = 0x0ffb), R_PPC64_ADDR64 at 8 with a negative
    addend against symbol 2 -/
def exRelocs : List RelEntry :=
  [{ offset := 0, sym := 1, type := 1, addend := 5 }, { offset := 4, sym := 1, type := 26, addend := -1 },
   { offset := 8, sym := 2, type := 38, addend := -16 }]
def exSyms : List Nat := [0, 0x1000, 0xffffffffffffffff]
def exDebug : Bytes := [1, 2, 3, 4, 5, 6, 7, 8, 9, 10, 11, 12, 13, 14, 15, 16, 17]

/-- a 64-bit big-endian relocatable-style image: null, `.s` (section names, also the symbol table's string table),
    `.symtab` (value-only symbols and 5 bytes of slack… none here), `.debug_info`, `.rela.debug_info` (sh_link = 2,
    sh_info = 3), `.relr.dyn` -/
def exRelFile : ElfDesc :=
  exImage 64 false
    [{ name := [], nameOff := 0, ty := 0 },
     { name := nS, nameOff := 1, ty := 3, body := some exRelNames },
     { name := nSymtab, nameOff := 4, ty := 2, link := 1, info := 1, entsize := 24,
       body := some (exSyms.flatMap (rel_encSym false 64)) },
     { name := nDebugInfo, nameOff := 12, ty := 1, body := some exDebug },
     { name := nRelaDebugInfo, nameOff := 24, ty := 4, link := 2, info := 3, entsize := 24,
       body := some (encRelTable ⟨false, 64, false⟩ true exRelocs) },
     { name := nRelrDyn, nameOff := 41, ty := 19, entsize := 8,
       body := some (encRelr false 8 [0x1000, 0x7, 0x2001]) }] 1

end PyElf.Proofs.RelocFile
