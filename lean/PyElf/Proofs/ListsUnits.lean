/-
  Unit blocks of the DWARF 5 list sections (.debug_rnglists / .debug_loclists):
  header round trip, offset table round trip, enumeration of the units.
-/
import PyElf.Spec.DwarfStructs
import PyElf.Spec.Lists
import PyElf.Model.Lists
import PyElf.Proofs.Primitives
namespace PyElf.Proofs.ListsUnits
open PyElf PyElf.Spec PyElf.Spec.Lists PyElf.Model.Lists PyElf.Proofs

/-! ### offset table -/

theorem encOffsets_length (le : Bool) (osz : Nat) (offs : List Nat) :
    (encOffsets le osz offs).length = osz * offs.length := by
  induction offs with
  | nil => simp [encOffsets]
  | cons o offs ih =>
    simp only [encOffsets, List.flatMap_cons, List.length_append, encNat_length, List.length_cons] at ih ⊢
    rw [ih, Nat.mul_add]; omega

theorem arrayLoop_uints (env : Env) (data : Bytes) (le : Bool) (osz : Nat) (ctx : Fields) (rest : Bytes) :
    ∀ (offs : List Nat) (pos : Nat) (acc : List Val), (∀ o ∈ offs, o < 256 ^ osz) →
      data.drop pos = encOffsets le osz offs ++ rest →
      arrayLoop (fun p c => Con.parse env data (.uint osz le) c p) offs.length pos ctx acc
        = .ok (.list (acc.reverse ++ offs.map fun (o : Nat) => Val.int o), pos + osz * offs.length, ctx) := by
  intro offs
  induction offs with
  | nil => intro pos acc _ _; simp [arrayLoop]
  | cons o offs ih =>
    intro pos acc hwf hd
    have hd1 : data.drop pos = encNat le osz o ++ (encOffsets le osz offs ++ rest) := by
      simpa [encOffsets, List.append_assoc] using hd
    have hd' : data.drop (pos + osz) = encOffsets le osz offs ++ rest := by
      have := drop_add_of_drop hd1
      rwa [encNat_length] at this
    simp only [List.length_cons, arrayLoop]
    rw [parse_uint_ok hd1 (encNat_length le osz o), decNat_encNat_of_lt le (hwf o (by simp))]
    simp only
    rw [ih (pos + osz) _ (fun x hx => hwf x (by simp [hx])) hd']
    have e : pos + osz + osz * offs.length = pos + osz * (offs.length + 1) := by
      rw [Nat.mul_add]; omega
    rw [e]; simp

theorem parse_offset_table_at (env : Env) (le : Bool) (osz : Nat) (offs : List Nat) (data rest : Bytes)
    (pos : Nat) (ctx : Fields) (hwf : ∀ o ∈ offs, o < 256 ^ osz)
    (hd : data.drop pos = encOffsets le osz offs ++ rest) :
    Con.parse env data (.array (.lit (offs.length : Int)) (.uint osz le)) ctx pos
      = .ok (.list (offs.map fun (o : Nat) => Val.int o), pos + osz * offs.length, ctx) := by
  rw [Con.parse]
  simp only [Expr.eval, bind, Except.bind, Val.asInt, Int.toNat_natCast]
  rw [arrayLoop_uints env _ le osz ctx rest offs pos [] hwf hd]
  simp

theorem parse_offset_table (env : Env) (le : Bool) (osz : Nat) (offs : List Nat) (pre rest : Bytes) (ctx : Fields)
    (hwf : ∀ o ∈ offs, o < 256 ^ osz) :
    Con.parse env (pre ++ encOffsets le osz offs ++ rest) (.array (.lit (offs.length : Int)) (.uint osz le)) ctx pre.length
      = .ok (.list (offs.map fun (o : Nat) => Val.int o), pre.length + osz * offs.length, ctx) :=
  parse_offset_table_at env le osz offs _ rest pre.length ctx hwf (drop_pre _ _ _)

/-! ### unit header -/

theorem hdr_eq (cfg : DwarfCfg) : (Spec.dwarfStructs cfg).Dwarf_rnglists_CU_header =
    st [f "cu_offset" .streamOffset, f "unit_length" (.initialLength cfg.le), f "is64" (.value (Spec.ctx "is64")),
        f "offset_after_length" .streamOffset, f "version" (.uint 2 cfg.le), f "address_size" (.uint 1 cfg.le),
        f "segment_selector_size" (.uint 1 cfg.le), f "offset_count" (.uint 4 cfg.le),
        f "offset_table_offset" .streamOffset] := rfl

theorem loc_hdr_eq (cfg : DwarfCfg) :
    (Spec.dwarfStructs cfg).Dwarf_loclists_CU_header = (Spec.dwarfStructs cfg).Dwarf_rnglists_CU_header := rfl

theorem parse_initlen_unit {env : Env} {data : Bytes} {pos : Nat} {le : Bool} {c : Fields}
    (b : Bool) (n : Nat) (tail : Bytes)
    (hn : if b then n < 2 ^ 64 else n < 0xFFFFFF00)
    (hd : data.drop pos = encInitLen le (if b then .dwarf64 n else .dwarf32 n) ++ tail) :
    Con.parse env data (.initialLength le) c pos
        = .ok (.int n, pos + (if b then 12 else 4), Fields.set c "is64" (.bool b))
      ∧ data.drop (pos + (if b then 12 else 4)) = tail := by
  cases b with
  | false =>
    simp only [Bool.false_eq_true, if_false, encInitLen] at hn hd ⊢
    have hlt : n < 256 ^ 4 := by omega
    have h := parse_initlen_32 (env := env) (ctx := c) hd (encNat_length le 4 n)
      (by rw [decNat_encNat_of_lt le hlt]; exact hn)
    rw [decNat_encNat_of_lt le hlt] at h
    refine ⟨h, ?_⟩
    have := drop_add_of_drop hd
    rwa [encNat_length] at this
  | true =>
    simp only [if_true, encInitLen] at hn hd ⊢
    have hlt : n < 256 ^ 8 := by omega
    have hd1 : data.drop pos = encNat le 4 0xffffffff ++ (encNat le 8 n ++ tail) := by
      rw [hd, List.append_assoc]
    have h := parse_initlen_64 (env := env) (ctx := c) hd1 (encNat_length le 4 _) (encNat_length le 8 n)
      (decNat_encNat_of_lt le (by decide))
    rw [decNat_encNat_of_lt le hlt] at h
    refine ⟨h, ?_⟩
    have h4 := drop_add_of_drop hd1
    rw [encNat_length] at h4
    have h12 := drop_add_of_drop h4
    rwa [encNat_length, Nat.add_assoc] at h12

theorem parse_streamOffset (env : Env) (data : Bytes) (c : Fields) (pos : Nat) :
    Con.parse env data .streamOffset c pos = .ok (.int pos, pos, c) := by
  rw [Con.parse]

theorem parse_value (env : Env) (data : Bytes) (e : Expr) (c : Fields) (pos : Nat) :
    Con.parse env data (.value e) c pos = (e.eval c .none).bind (fun v => .ok (v, pos, c)) := by
  rw [Con.parse]; rfl

theorem parse_struct (env : Env) (data : Bytes) (fs : ConFields) (c : Fields) (pos : Nat) :
    Con.parse env data (.struct fs) c pos
      = (Con.parseFields env data fs [] [] pos).bind (fun r => .ok (.record r.1, r.2.1, c)) := by
  rw [Con.parse]; rfl

theorem parse_header_at (env : Env) (cfg : DwarfCfg) (u : UnitHdr) (body rest data : Bytes) (pos : Nat)
    (c : Fields) (hwf : u.wf body = true) (hd : data.drop pos = encUnit cfg.le u body ++ rest) :
    Con.parse env data (Spec.dwarfStructs cfg).Dwarf_rnglists_CU_header c pos
      = .ok (.record (u.obsFields pos body), pos + u.lenSize + 8, c) := by
  simp only [UnitHdr.wf, Bool.and_eq_true, decide_eq_true_eq] at hwf
  obtain ⟨⟨⟨⟨hasz, hseg⟩, hcnt⟩, -⟩, hlen⟩ := hwf
  have hlen' : if u.fmt64 then u.innerLen body < 2 ^ 64 else u.innerLen body < 0xFFFFFF00 := by
    cases hf : u.fmt64 <;> simp [hf] at hlen ⊢ <;> exact hlen
  have hd0 : data.drop pos = encInitLen cfg.le (if u.fmt64 then .dwarf64 (u.innerLen body) else .dwarf32 (u.innerLen body))
      ++ (encNat cfg.le 2 5 ++ (encNat cfg.le 1 u.asz ++ (encNat cfg.le 1 u.segsz ++ (encNat cfg.le 4 u.offsets.length
        ++ (encOffsets cfg.le u.osz u.offsets ++ body ++ rest))))) := by
    rw [hd]; simp [encUnit, UnitHdr.fixedPart, List.append_assoc]
  have hil : ∀ c, _ := fun c => (parse_initlen_unit (env := env) (c := c) u.fmt64 (u.innerLen body) _ hlen' hd0).1
  have d1 := (parse_initlen_unit (env := env) (c := c) u.fmt64 (u.innerLen body) _ hlen' hd0).2
  have hL : (if u.fmt64 = true then 12 else 4) = u.lenSize := rfl
  rw [hL] at d1
  simp only [hL] at hil
  have d2 := drop_add_of_drop d1; rw [encNat_length] at d2
  have d3 := drop_add_of_drop d2; rw [encNat_length] at d3
  have d4 := drop_add_of_drop d3; rw [encNat_length] at d4
  have r1 : ∀ c, _ := fun c => parse_uint_ok (env := env) (le := cfg.le) (ctx := c) d1 (encNat_length _ _ _)
  have r2 : ∀ c, _ := fun c => parse_uint_ok (env := env) (le := cfg.le) (ctx := c) d2 (encNat_length _ _ _)
  have r3 : ∀ c, _ := fun c => parse_uint_ok (env := env) (le := cfg.le) (ctx := c) d3 (encNat_length _ _ _)
  have r4 : ∀ c, _ := fun c => parse_uint_ok (env := env) (le := cfg.le) (ctx := c) d4 (encNat_length _ _ _)
  rw [decNat_encNat_of_lt cfg.le (show 5 < 256 ^ 2 by decide)] at r1
  rw [decNat_encNat_of_lt cfg.le (show u.asz < 256 ^ 1 by omega)] at r2
  rw [decNat_encNat_of_lt cfg.le (show u.segsz < 256 ^ 1 by omega)] at r3
  rw [decNat_encNat_of_lt cfg.le (show u.offsets.length < 256 ^ 4 by omega)] at r4
  rw [hdr_eq, st, parse_struct]
  simp only [mkFields, f, Con.parseFields, Bool.false_eq_true, if_false, bind, Except.bind,
    parse_streamOffset, hil, r1, r2, r3, r4, parse_value, Expr.eval, Spec.ctx, Fields.getR, Fields.get?, Fields.set,
    String.reduceEq, if_true]
  have e : pos + u.lenSize + 2 + 1 + 1 + 4 = pos + u.lenSize + 8 := by omega
  rw [e]; rfl

set_option linter.unusedVariables false in
theorem parse_unit_header (env : Env) (cfg : DwarfCfg) (u : UnitHdr) (body pre rest : Bytes) (ctx : Fields)
    (hwf : u.wf body = true) :
    structParse env (Spec.dwarfStructs cfg).Dwarf_rnglists_CU_header (pre ++ encUnit cfg.le u body ++ rest) pre.length
      = .ok (.record (u.obsFields pre.length body), pre.length + u.lenSize + 8) := by
  unfold structParse
  rw [parse_header_at env cfg u body rest _ pre.length [] hwf (drop_pre _ _ _)]
  rfl

theorem parse_unit_header_loc (env : Env) (cfg : DwarfCfg) (u : UnitHdr) (body pre rest : Bytes) (ctx : Fields)
    (hwf : u.wf body = true) :
    structParse env (Spec.dwarfStructs cfg).Dwarf_loclists_CU_header (pre ++ encUnit cfg.le u body ++ rest) pre.length
      = .ok (.record (u.obsFields pre.length body), pre.length + u.lenSize + 8) := by
  rw [loc_hdr_eq]; exact parse_unit_header env cfg u body pre rest ctx hwf

/-! ### enumeration of the units -/

theorem encInitLen_unit_length (le : Bool) (u : UnitHdr) (n : Nat) :
    (encInitLen le (if u.fmt64 then .dwarf64 n else .dwarf32 n)).length = u.lenSize := by
  cases hf : u.fmt64 <;> simp [encInitLen, UnitHdr.lenSize, hf, encNat_length]

theorem fixedPart_length (le : Bool) (u : UnitHdr) : (u.fixedPart le).length = 8 := by
  simp [UnitHdr.fixedPart, encNat_length]

theorem encUnit_length (le : Bool) (u : UnitHdr) (body : Bytes) : (encUnit le u body).length = u.size body := by
  simp only [encUnit, List.length_append, encInitLen_unit_length, fixedPart_length, encOffsets_length,
    UnitHdr.size, UnitHdr.innerLen]
  omega

theorem size_ge (u : UnitHdr) (body : Bytes) : 12 ≤ u.size body := by
  unfold UnitHdr.size UnitHdr.innerLen UnitHdr.lenSize
  split <;> omega

theorem drop_after_header {data : Bytes} {pos : Nat} (le : Bool) (u : UnitHdr) (body rest : Bytes)
    (hd : data.drop pos = encUnit le u body ++ rest) :
    data.drop (pos + u.lenSize + 8) = encOffsets le u.osz u.offsets ++ (body ++ rest) := by
  have hd0 : data.drop pos
      = (encInitLen le (if u.fmt64 then .dwarf64 (u.innerLen body) else .dwarf32 (u.innerLen body)) ++ u.fixedPart le)
        ++ (encOffsets le u.osz u.offsets ++ (body ++ rest)) := by
    rw [hd]; simp [encUnit, List.append_assoc]
  have := drop_add_of_drop hd0
  rwa [List.length_append, encInitLen_unit_length, fixedPart_length, ← Nat.add_assoc] at this

theorem structParse_header_at (env : Env) (cfg : DwarfCfg) (u : UnitHdr) (body rest data : Bytes) (pos : Nat)
    (hwf : u.wf body = true) (hd : data.drop pos = encUnit cfg.le u body ++ rest) :
    structParse env (Spec.dwarfStructs cfg).Dwarf_rnglists_CU_header data pos
      = .ok (.record (u.obsFields pos body), pos + u.lenSize + 8) := by
  unfold structParse
  rw [parse_header_at env cfg u body rest data pos [] hwf hd]
  rfl

theorem structParse_offsets_at (env : Env) (le : Bool) (osz : Nat) (offs : List Nat) (data rest : Bytes)
    (pos : Nat) (hwf : ∀ o ∈ offs, o < 256 ^ osz)
    (hd : data.drop pos = encOffsets le osz offs ++ rest) :
    structParse env (.array (.lit (offs.length : Int)) (.uint osz le)) data pos
      = .ok (.list (offs.map fun (o : Nat) => Val.int o), pos + osz * offs.length) := by
  unfold structParse
  rw [parse_offset_table_at env le osz offs data rest pos [] hwf hd]
  rfl

theorem attr_cnt (u : UnitHdr) (pos : Nat) (body : Bytes) :
    attr (.record (u.obsFields pos body)) "offset_count" = .ok (.int u.offsets.length) := by
  simp [attr, UnitHdr.obsFields, Fields.get?]

theorem attr_is64 (u : UnitHdr) (pos : Nat) (body : Bytes) :
    attr (.record (u.obsFields pos body)) "is64" = .ok (.bool u.fmt64) := by
  simp [attr, UnitHdr.obsFields, Fields.get?]

theorem attr_oal (u : UnitHdr) (pos : Nat) (body : Bytes) :
    attr (.record (u.obsFields pos body)) "offset_after_length" = .ok (.int (pos + u.lenSize : Nat)) := by
  simp [attr, UnitHdr.obsFields, Fields.get?]

theorem attr_ul (u : UnitHdr) (pos : Nat) (body : Bytes) :
    attr (.record (u.obsFields pos body)) "unit_length" = .ok (.int (u.innerLen body)) := by
  simp [attr, UnitHdr.obsFields, Fields.get?]

theorem set_offsets (u : UnitHdr) (pos : Nat) (body : Bytes) (v : Val) :
    Fields.set (u.obsFields pos body) "offsets" v = u.obsFields pos body ++ [("offsets", v)] := by
  simp [UnitHdr.obsFields, Fields.set]

theorem iter_step (env : Env) (cfg : DwarfCfg) (S : DwarfStructs)
    (h64 : S.Dwarf_uint64 = .uint 8 cfg.le) (h32 : S.Dwarf_uint32 = .uint 4 cfg.le)
    (data : Bytes) (pos : Nat) (u : UnitHdr) (body rest : Bytes) (fuel : Nat) (acc : List Val)
    (hwf : u.wf body = true) (hd : data.drop pos = encUnit cfg.le u body ++ rest) (hpos : pos < 2 ^ 63) :
    iterCUsLoop env S (Spec.dwarfStructs cfg).Dwarf_rnglists_CU_header data (fuel + 1) (pos : Int) acc
      = iterCUsLoop env S (Spec.dwarfStructs cfg).Dwarf_rnglists_CU_header data fuel
          ((pos + u.size body : Nat) : Int) (u.obs pos body :: acc) := by
  have hsz := size_ge u body
  have hl := length_of_drop hd
  rw [List.length_append, encUnit_length] at hl
  have hlt : (pos : Int) < (data.length : Int) := by omega
  have hseek : seekInt (pos : Int) = .ok pos := by
    simp only [seekInt, Int.toNat_natCast]
    rw [if_neg (by omega), if_neg (by omega)]
  have hwf' := hwf
  simp only [UnitHdr.wf, Bool.and_eq_true, decide_eq_true_eq, List.all_eq_true] at hwf'
  obtain ⟨⟨⟨-, -⟩, hoffs⟩, -⟩ := hwf'
  rw [iterCUsLoop, if_pos hlt, hseek]
  simp only [structParse_header_at env cfg u body rest data pos hwf hd]
  simp only [attr_cnt, attr_is64, attr_oal, attr_ul, bind, Except.bind, Val.asInt, set_offsets, pure, Except.pure]
  have hsub : (if (Val.bool u.fmt64).truthy = true then S.Dwarf_uint64 else S.Dwarf_uint32)
      = .uint u.osz cfg.le := by
    cases hf : u.fmt64 <;> simp [Val.truthy, UnitHdr.osz, h64, h32, hf]
  have hnext : ((pos + u.lenSize : Nat) : Int) + (u.innerLen body : Int) = ((pos + u.size body : Nat) : Int) := by
    simp only [UnitHdr.size]; omega
  rw [hsub, hnext]
  by_cases hc : u.offsets.length = 0
  · have he : u.offsets.isEmpty = true := by
      rw [List.isEmpty_iff]; exact List.length_eq_zero_iff.1 hc
    rw [if_neg (by omega)]
    simp only [UnitHdr.obs, he, if_true]
  · have he : u.offsets.isEmpty = false := by
      cases h : u.offsets with
      | nil => simp [h] at hc
      | cons a t => rfl
    rw [if_pos (by omega)]
    rw [structParse_offsets_at env cfg.le u.osz u.offsets data (body ++ rest) _ hoffs
      (drop_after_header _ _ _ _ hd)]
    simp only [UnitHdr.obs, he, Bool.false_eq_true, if_false]

theorem iterCUsLoop_units (env : Env) (cfg : DwarfCfg) (S : DwarfStructs)
    (h64 : S.Dwarf_uint64 = .uint 8 cfg.le) (h32 : S.Dwarf_uint32 = .uint 4 cfg.le)
    (data : Bytes) (hsmall : data.length < 2 ^ 63) :
    ∀ (us : List (UnitHdr × Bytes)) (pre : Bytes) (fuel : Nat) (acc : List Val),
      (∀ ub ∈ us, ub.1.wf ub.2 = true) → us.length + 1 ≤ fuel → data = pre ++ encUnits cfg.le us →
      iterCUsLoop env S (Spec.dwarfStructs cfg).Dwarf_rnglists_CU_header data fuel (pre.length : Int) acc
        = .ok (acc.reverse ++ obsUnits pre.length us) := by
  intro us
  induction us with
  | nil =>
    intro pre fuel acc _ hf hdata
    cases fuel with
    | zero => omega
    | succ fuel =>
      have : data.length = pre.length := by rw [hdata]; simp [encUnits]
      rw [iterCUsLoop, if_neg (by omega)]
      simp [obsUnits]
  | cons ub us ih =>
    intro pre fuel acc hwf hf hdata
    obtain ⟨u, body⟩ := ub
    cases fuel with
    | zero => omega
    | succ fuel =>
      have hdata' : data = (pre ++ encUnit cfg.le u body) ++ encUnits cfg.le us := by
        rw [hdata]; simp [encUnits, List.append_assoc]
      have hd : data.drop pre.length = encUnit cfg.le u body ++ encUnits cfg.le us := by
        rw [hdata']; exact drop_pre _ _ _
      have hpl : pre.length < 2 ^ 63 := by
        have : pre.length ≤ data.length := by rw [hdata]; simp
        omega
      rw [iter_step env cfg S h64 h32 data pre.length u body _ fuel acc (hwf (u, body) (by simp)) hd hpl]
      have hlen : pre.length + u.size body = (pre ++ encUnit cfg.le u body).length := by
        rw [List.length_append, encUnit_length]
      rw [hlen, ih _ fuel _ (fun x hx => hwf x (by simp [hx])) (by simp at hf; omega) hdata']
      simp [obsUnits, hlen]

theorem iterCUs_exact (env : Env) (cfg : DwarfCfg) (S : DwarfStructs) (us : List (UnitHdr × Bytes))
    (h64 : S.Dwarf_uint64 = .uint 8 cfg.le) (h32 : S.Dwarf_uint32 = .uint 4 cfg.le)
    (hwf : ∀ ub ∈ us, ub.1.wf ub.2 = true)
    (hsmall : (encUnits cfg.le us).length < 2 ^ 63) :
    iterCUsLoop env S (Spec.dwarfStructs cfg).Dwarf_rnglists_CU_header (encUnits cfg.le us)
        ((encUnits cfg.le us).length + 1) 0 []
      = .ok (obsUnits 0 us) := by
  have hge : us.length ≤ (encUnits cfg.le us).length := by
    clear hwf hsmall
    induction us with
    | nil => simp
    | cons ub us ih =>
      have := size_ge ub.1 ub.2
      simp only [encUnits, List.flatMap_cons, List.length_append, encUnit_length, List.length_cons] at ih ⊢
      omega
  have := iterCUsLoop_units env cfg S h64 h32 (encUnits cfg.le us) hsmall us []
    ((encUnits cfg.le us).length + 1) [] hwf (by omega) (by simp)
  simpa using this

/-- non-vacuity: a concrete well-formed unit -/
example : (UnitHdr.mk false 8 0 [4]).wf [7,0,0,0,0,0,0,0,0,0,0] = true := by decide

example : (UnitHdr.mk true 4 0 []).wf [] = true := by decide

end PyElf.Proofs.ListsUnits
