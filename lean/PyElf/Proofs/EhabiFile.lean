/-
  C20 over whole files (fifth wave), exception tables.

  1. `getEntry_at_words`: `exidx_roundtrip` freed from the particular image `Spec.Ehabi.encImage`:
     for ANY byte string in which the index words of `es` sit at `shOffset` and the handler-table
     words of entry `i` sit at `tab` (before or after the index table, in another section, anywhere),
     `get_entry(i)` observes `obsEntry es[i] …`.
  2. composition with C01 (`Layout d bytes`): `EHABIInfo(get_section(i), little_endian)` and
     `get_ehabi_infos()` on a byte string carrying a description whose section `i` is the index
     table and whose section `x` holds the handler table.
-/
import PyElf.Model.AttrFile
import PyElf.Spec.C20File
import PyElf.Proofs.ElfFile
import PyElf.Proofs.EhabiImage
import PyElf.Proofs.AttrFile
namespace PyElf.Proofs.C20
open PyElf PyElf.Spec PyElf.Spec.C20 PyElf.Spec.Ehabi PyElf.Model PyElf.Model.C20 PyElf.Proofs
open EhabiEntry EhabiImage

/-! ### words of a byte string -/

theorem wordAt_drop (le : Bool) (data : Bytes) (off p : Nat) :
    wordAt le data (off + p) = wordAt le (data.drop off) p := by
  unfold wordAt
  simp only [List.drop_drop]

/-- the `j`-th word of an encoded word list found at `off` -/
theorem wordAt_of_drop {le : Bool} {data rest : Bytes} {off : Nat} {ws : List Nat}
    (hd : data.drop off = encWords le ws ++ rest) (hws : ∀ w ∈ ws, w < 2 ^ 32) {j : Nat} (hj : j < ws.length) :
    wordAt le data (off + 4 * j) = ws[j]? := by
  rw [wordAt_drop, hd]
  have := wordAt_encWords le [] rest ws hws j hj
  simpa using this

/-! ### entry `i` of a table found anywhere -/

theorem refsOk_get : ∀ (es : List Entry) (ts : List Nat) (place i : Nat) (e : Entry) (t : Nat),
    refsOk place es ts = true → es[i]? = some e → ts[i]? = some t → refOk e (place + 8 * i) t = true := by
  intro es
  induction es with
  | nil => intro ts place i e t _ he; simp at he
  | cons e0 es ih =>
    intro ts place i e t hr he ht
    cases ts with
    | nil => simp at ht
    | cons t0 ts =>
      simp only [refsOk, Bool.and_eq_true] at hr
      cases i with
      | zero =>
        simp at he ht
        subst he; subst ht
        simpa using hr.1
      | succ i =>
        simp at he ht
        have := ih ts (place + 8) i e t hr.2 he ht
        rwa [show place + 8 * (i + 1) = place + 8 + 8 * i by omega]

/-- For ANY byte string: when the two index words of the well-formed entry `e` (referring to `tab`)
    sit at `place = shOffset + 8 * n` and, for a table entry, its handler-table words sit at `tab`,
    `get_entry(n)` observes `obsEntry e place tab`. -/
theorem getEntry_at_words (env : Env) (le : Bool) (data : Bytes) (shOffset shSize n : Nat) (e : Entry) (tab : Nat)
    (hn : n < shSize / 8) (hplace : shOffset + 8 * n + 8 < 2 ^ 62)
    (hwf : entryWf e = true) (href : refOk e (shOffset + 8 * n) tab = true)
    (h0 : wordAt le data (shOffset + 8 * n) = (encIndex e (shOffset + 8 * n) tab)[0]?)
    (h1 : wordAt le data (shOffset + 8 * n + 4) = (encIndex e (shOffset + 8 * n) tab)[1]?)
    (hT : ∀ j, j < e.tableWords.length → wordAt le data (tab + 4 * j) = e.tableWords[j]?) :
    Model.Ehabi.getEntry env (Spec.ehabiStructs le) data shOffset shSize n
      = .ok (obsEntry e (shOffset + 8 * n) tab) := by
  generalize hpl : shOffset + 8 * n = place at *
  -- the reference a table entry makes; a harmless one for the entries that make none
  obtain ⟨tab', hd, hne, ht, h0', h1', hT', hobs⟩ : ∃ tab' : Nat, dispOk ((tab' : Int) - ((place : Int) + 4)) = true ∧
      tab' ≠ place + 5 ∧ tab' < 2 ^ 62 ∧
      wordAt le data place = (encIndex e place tab')[0]? ∧
      wordAt le data (place + 4) = (encIndex e place tab')[1]? ∧
      (∀ j, j < e.tableWords.length → wordAt le data (tab' + 4 * j) = e.tableWords[j]?) ∧
      obsEntry e place tab' = obsEntry e place tab := by
    cases e with
    | cantUnwind d =>
      exact ⟨place + 8, by rw [dispOk_iff]; omega, by omega, by omega, h0, h1,
        fun j hj => by simp [Entry.tableWords] at hj, rfl⟩
    | inline d b0 b1 b2 =>
      exact ⟨place + 8, by rw [dispOk_iff]; omega, by omega, by omega, h0, h1,
        fun j hj => by simp [Entry.tableWords] at hj, rfl⟩
    | table d t =>
      simp only [refOk, Bool.and_eq_true, bne_iff_ne, ne_eq, decide_eq_true_eq] at href
      exact ⟨tab, href.1.1, href.1.2, href.2, h0, h1, hT, rfl⟩
  have hstd := getEntry_eq_std env le data shOffset shSize n hn (by rw [hpl]; omega)
    (by
      rw [hpl]
      intro w1 hw1
      rw [h1'] at hw1
      cases e with
      | cantUnwind d =>
        simp [encIndex] at hw1; subst hw1
        rw [expand_nonneg (by decide) (by omega)]; omega
      | inline d b0 b1 b2 =>
        simp [encIndex] at hw1; subst hw1
        have := beWord3_lt b0 b1 b2
        rw [expand_nonneg (by omega) (by omega)]; omega
      | table d t =>
        simp [encIndex] at hw1; subst hw1
        rw [expand_enc_tab hd ht]; omega)
  rw [hpl] at hstd
  rw [hstd, ← hobs]
  have henc := decodeEntry_enc (wordAt le data) e place tab' hwf hd hne ht h0' h1' hT'
  cases hdec : decodeEntry (wordAt le data) place with
  | none => rw [hdec] at henc; simp at henc
  | some dcd =>
    rw [hdec] at henc
    simp only [Option.map_some, Option.some.injEq] at henc
    simp only [henc]

/-- Whole tables, any placement: the index table of `es` at `shOffset` (its bytes there: `hidx`),
    the handler-table words of all entries consecutively at `tab0` (`htab`) — wherever that is —,
    references expressible: `get_entry(i)` is entry `i`. -/
theorem getEntry_tables (env : Env) (le : Bool) (data irest trest : Bytes) (shOffset tab0 : Nat)
    (es : List Entry) (i : Nat) (hi : i < es.length) (hwf : es.all entryWf = true)
    (hidx : data.drop shOffset = encExidxFrom le shOffset es (tableOffsets tab0 es) ++ irest)
    (htab : data.drop tab0 = encWords le (tableWordsOf es) ++ trest)
    (hrefs : refsOk shOffset es (tableOffsets tab0 es) = true)
    (hsize : shOffset + 8 * es.length < 2 ^ 62) :
    Model.Ehabi.getEntry env (Spec.ehabiStructs le) data shOffset (8 * es.length) i
      = .ok (obsEntry es[i] (shOffset + 8 * i) (tabOf tab0 es i)) := by
  have hei : es[i]? = some es[i] := List.getElem?_eq_getElem hi
  have hwfe : entryWf es[i] = true := List.all_eq_true.1 hwf _ (List.getElem_mem hi)
  have hti := tableOffsets_get es tab0 i hi
  obtain ⟨g0, g1⟩ := idxWords_get es _ shOffset i _ _ hei hti
  rw [encExidxFrom_eq] at hidx
  have hlen := idxWords_length es (tableOffsets tab0 es) shOffset (tableOffsets_length es _)
  have h0 := wordAt_of_drop hidx (idxWords_lt _ _ _) (j := 2 * i) (by omega)
  have h1 := wordAt_of_drop hidx (idxWords_lt _ _ _) (j := 2 * i + 1) (by omega)
  rw [g0, show shOffset + 4 * (2 * i) = shOffset + 8 * i by omega] at h0
  rw [g1, show shOffset + 4 * (2 * i + 1) = shOffset + 8 * i + 4 by omega] at h1
  have hT : ∀ j, j < es[i].tableWords.length →
      wordAt le data (tabOf tab0 es i + 4 * j) = es[i].tableWords[j]? := by
    intro j hj
    have hg := tableWords_get es i _ j hei hj
    have hk : ((es.take i).flatMap Entry.tableWords).length + j < (es.flatMap Entry.tableWords).length := by
      rw [List.getElem?_eq_getElem hj] at hg
      exact (List.getElem?_eq_some_iff.1 hg).1
    have := wordAt_of_drop htab (allTableWords_lt hwf) (j := ((es.take i).flatMap Entry.tableWords).length + j) hk
    rw [tableWordsOf, hg] at this
    rw [← this, tabOf]
    congr 1; omega
  exact getEntry_at_words env le data shOffset (8 * es.length) i es[i] (tabOf tab0 es i) (by omega) (by omega)
    hwfe (refsOk_get es _ shOffset i _ _ hrefs hei hti) h0 h1 hT

/-! ### composition with the container -/

def specEH : Bool → Option EhabiStructs := fun le => some (Spec.ehabiStructs le)

theorem entrySize_eq : Gen.ehabiEntrySize = 8 := rfl

theorem kindOf_exidx (name : Bytes) : kindOf (.str "SHT_ARM_EXIDX") name = "Section" := rfl

/-- the hypotheses of the whole-file EHABI theorems, unpacked -/
structure ExidxFacts (d : ElfDesc) (sd sx : SecDesc) (xpre : Nat) (es : List Entry) : Prop where
  mclass : d.mclass = "EM_ARM"
  ty : Fields.get? sd.hdr "sh_type" = some (.int 0x70000001)
  wf : es.all entryWf = true
  body : sd.body = some (encExidxFrom d.le (getNatD sd.hdr "sh_offset") es
    (tableOffsets (getNatD sx.hdr "sh_offset" + xpre) es))
  size : getNatD sd.hdr "sh_size" = 8 * es.length
  xbody : ∃ b, sx.body = some b ∧ xpre ≤ b.length ∧
    (b.drop xpre).take (encWords d.le (tableWordsOf es)).length = encWords d.le (tableWordsOf es)
  refs : refsOk (getNatD sd.hdr "sh_offset") es (tableOffsets (getNatD sx.hdr "sh_offset" + xpre) es) = true
  bound : getNatD sd.hdr "sh_offset" + 8 * es.length < 2 ^ 62

theorem exidxAt_unpack {d : ElfDesc} {i x xpre : Nat} {es : List Entry} (h : exidxAt d i x xpre es = true) :
    ∃ sd sx, d.sections[i]? = some sd ∧ d.sections[x]? = some sx ∧ ExidxFacts d sd sx xpre es := by
  unfold exidxAt at h
  cases hs : d.sections[i]? with
  | none => simp [hs] at h
  | some sd =>
    cases hx : d.sections[x]? with
    | none => simp [hs, hx] at h
    | some sx =>
      refine ⟨sd, sx, rfl, rfl, ?_⟩
      simp only [hs, hx, Bool.and_eq_true, beq_iff_eq, decide_eq_true_eq] at h
      obtain ⟨⟨⟨⟨⟨⟨⟨h1, h2⟩, h3⟩, h4⟩, h5⟩, h6⟩, h7⟩, h8⟩ := h
      refine ⟨h1, ?_, h3, ?_, h5, ?_, h7, h8⟩
      · unfold rawIs at h2
        cases hg : Fields.get? sd.hdr "sh_type" with
        | none => simp [hg] at h2
        | some v =>
          cases v <;> simp [hg] at h2
          rw [h2]
      · cases hb : sd.body with
        | none => simp [hb] at h4
        | some b => simp [hb] at h4; rw [h4]
      · cases hb : sx.body with
        | none => simp [hb] at h6
        | some b =>
          simp only [hb, Bool.and_eq_true, decide_eq_true_eq, beq_iff_eq] at h6
          exact ⟨b, rfl, h6.1, h6.2⟩

/-- where the two tables sit in a byte string that carries the description -/
theorem exidx_drops {d : ElfDesc} {bytes : Bytes} (hL : LayoutFacts d bytes) {sd sx : SecDesc} {xpre : Nat}
    {es : List Entry} (hm : sd ∈ d.sections) (hmx : sx ∈ d.sections) (F : ExidxFacts d sd sx xpre es) :
    (∃ irest, bytes.drop (getNatD sd.hdr "sh_offset") = encExidxFrom d.le (getNatD sd.hdr "sh_offset") es
        (tableOffsets (getNatD sx.hdr "sh_offset" + xpre) es) ++ irest) ∧
    (∃ trest, bytes.drop (getNatD sx.hdr "sh_offset" + xpre) = encWords d.le (tableWordsOf es) ++ trest) := by
  refine ⟨⟨_, body_drop hL hm F.body⟩, ?_⟩
  obtain ⟨b, hb, hle, htk⟩ := F.xbody
  have hdrop := body_drop hL hmx hb
  have hsplit : b = b.take xpre ++ (encWords d.le (tableWordsOf es)
      ++ (b.drop xpre).drop (encWords d.le (tableWordsOf es)).length) := by
    conv => lhs; rw [← List.take_append_drop xpre b, ← List.take_append_drop
      (encWords d.le (tableWordsOf es)).length (b.drop xpre), htk]
  have hl : (b.take xpre).length = xpre := by simp [hle]
  rw [hsplit, List.append_assoc] at hdrop
  have := drop_add_of_drop hdrop
  rw [hl, List.append_assoc] at this
  exact ⟨_, this⟩

/-- `EHABIInfo(ELFFile(BytesIO(bytes)).get_section(i), elffile.little_endian)`: the object made -/
theorem fileEhabiInfo_ok {env : Env} (he : EnvC20 env) {d : ElfDesc} {bytes : Bytes} {obs : ElfObs}
    (hwf : d.wfZ env = true) (hl : Layout d bytes) (ho : d.observe env = .ok obs)
    {i : Nat} {sd : SecDesc} (hsd : d.sections[i]? = some sd)
    (hm : d.mclass = "EM_ARM") (hty : Fields.get? sd.hdr "sh_type" = some (.int 0x70000001)) :
    ∃ sh, fileEhabiInfo env specSF specMC specEH bytes i = .ok ("Section", Spec.ehabiStructs d.le, ⟨sd.name, sh⟩) ∧
      sh.getField "sh_type" = .ok (.str "SHT_ARM_EXIDX") ∧
      obs.sections[i]? = some ("Section", sd.name, sh) ∧
      sh.getNat "sh_offset" = .ok (getNatD sd.hdr "sh_offset") ∧ sh.getNat "sh_size" = .ok (getNatD sd.hdr "sh_size") := by
  obtain ⟨f, hf, hdata, -, hle, -, -⟩ := open_aux_z hwf hl ho
  have henv : env.enumDecode (shTypeTable d.mclass) 0x70000001 = some "SHT_ARM_EXIDX" := by
    rw [hm]; exact he.armExidx
  obtain ⟨sh, hget, htyv, hobs, hnat⟩ := getSection_typed hwf hl ho hf hsd hty henv
  rw [kindOf_exidx] at hget hobs
  refine ⟨sh, ?_, htyv, hobs, hnat "sh_offset" (by simp [shdrNatKeys]) (by decide),
    hnat "sh_size" (by simp [shdrNatKeys]) (by decide)⟩
  unfold fileEhabiInfo
  simp only [hf, bind, Except.bind, hdata, hget, hle, specEH]
  rfl

/-- `….get_entry(n)` / `….num_entry()` reduce to the section-level functions at (`sh_offset`,
    `sh_size`) of the description's header — for ANY contents -/
theorem fileEhabiEntry_reduce {env : Env} (he : EnvC20 env) {d : ElfDesc} {bytes : Bytes} {obs : ElfObs}
    (hwf : d.wfZ env = true) (hl : Layout d bytes) (ho : d.observe env = .ok obs)
    {i : Nat} {sd : SecDesc} (hsd : d.sections[i]? = some sd)
    (hm : d.mclass = "EM_ARM") (hty : Fields.get? sd.hdr "sh_type" = some (.int 0x70000001)) (n : Nat) :
    fileEhabiEntry env specSF specMC specEH bytes i n
      = Model.Ehabi.getEntry env (Spec.ehabiStructs d.le) bytes (getNatD sd.hdr "sh_offset") (getNatD sd.hdr "sh_size") n ∧
    fileEhabiNumEntry env specSF specMC specEH bytes i = .ok (getNatD sd.hdr "sh_size" / 8) := by
  obtain ⟨sh, hinfo, -, -, hoff, hsz⟩ := fileEhabiInfo_ok he hwf hl ho hsd hm hty
  constructor
  · unfold fileEhabiEntry EhabiInfo.getEntry
    simp only [hinfo, bind, Except.bind, hoff, hsz]
  · unfold fileEhabiNumEntry EhabiInfo.numEntry
    simp only [hinfo, bind, Except.bind, hsz, entrySize_eq]
    rfl

/-- the whole-file round trip: `num_entry()` is the number of entries and `get_entry(n)` is entry
    `n`, table references resolved by file offset into the section that holds the handler table -/
theorem fileEhabi_ok {env : Env} (he : EnvC20 env) {d : ElfDesc} {bytes : Bytes} {obs : ElfObs}
    (hwf : d.wfZ env = true) (hl : Layout d bytes) (ho : d.observe env = .ok obs)
    {i x xpre : Nat} {sd sx : SecDesc} (hsd : d.sections[i]? = some sd) (hsx : d.sections[x]? = some sx)
    {es : List Entry} (F : ExidxFacts d sd sx xpre es) :
    fileEhabiNumEntry env specSF specMC specEH bytes i = .ok es.length ∧
    ∀ n (hn : n < es.length), fileEhabiEntry env specSF specMC specEH bytes i n
      = .ok (obsEntry es[n] (getNatD sd.hdr "sh_offset" + 8 * n)
          (tabOf (getNatD sx.hdr "sh_offset" + xpre) es n)) := by
  have hred := fun n => fileEhabiEntry_reduce he hwf hl ho hsd F.mclass F.ty n
  obtain ⟨⟨irest, hidx⟩, ⟨trest, htab⟩⟩ := exidx_drops (layout_facts hl) (List.mem_of_getElem? hsd)
    (List.mem_of_getElem? hsx) F
  refine ⟨?_, ?_⟩
  · rw [(hred 0).2, F.size]
    congr 1; omega
  · intro n hn
    rw [(hred n).1, F.size]
    exact getEntry_tables env d.le bytes irest trest _ _ es n hn F.wf hidx htab F.refs F.bound

/-- an index beyond the table: IndexError -/
theorem fileEhabi_out_of_range {env : Env} (he : EnvC20 env) {d : ElfDesc} {bytes : Bytes} {obs : ElfObs}
    (hwf : d.wfZ env = true) (hl : Layout d bytes) (ho : d.observe env = .ok obs)
    {i : Nat} {sd : SecDesc} (hsd : d.sections[i]? = some sd)
    (hm : d.mclass = "EM_ARM") (hty : Fields.get? sd.hdr "sh_type" = some (.int 0x70000001))
    {n : Nat} (hn : getNatD sd.hdr "sh_size" / 8 ≤ n) :
    fileEhabiEntry env specSF specMC specEH bytes i n = .error .indexError := by
  rw [(fileEhabiEntry_reduce he hwf hl ho hsd hm hty n).1]
  unfold Model.Ehabi.getEntry
  rw [entrySize_eq, if_pos hn]

/-! ### `get_ehabi_infos()` -/

theorem hasType_obs {h : Val} {ty : String} :
    hasType h ty = (h.getField "sh_type").map fun t => isStr t ty := by
  unfold hasType
  cases h.getField "sh_type" <;> rfl

theorem isStr_eq (t : Val) (ty : String) :
    isStr t ty = (match t with | .str s => s == ty | _ => false) := by
  cases t <;> rfl

theorem sectionsOfType_ok : ∀ (secs : List (String × Bytes × Val)),
    (∀ s ∈ secs, ∃ t, s.2.2.getField "sh_type" = .ok t) →
    sectionsOfType "SHT_ARM_EXIDX" secs = .ok (secs.filter isExidx) := by
  intro secs
  induction secs with
  | nil => intro _; rfl
  | cons s rest ih =>
    intro h
    obtain ⟨t, ht⟩ := h s (by simp)
    have ih' := ih (fun s' hs' => h s' (by simp [hs']))
    unfold sectionsOfType
    simp only [hasType, ht, bind, Except.bind, ih', pure, Except.pure, List.filter_cons, isStr_eq, isExidx]
    cases t <;> simp

theorem idxWhere_get {α : Type} (p : α → Bool) : ∀ (l : List α) (b k : Nat),
    (idxWhere p b l)[k]? = none ∧ (l.filter p)[k]? = none ∨
    ∃ i x, (idxWhere p b l)[k]? = some (b + i) ∧ (l.filter p)[k]? = some x ∧ l[i]? = some x := by
  intro l
  induction l with
  | nil => intro b k; left; simp [idxWhere]
  | cons a l ih =>
    intro b k
    by_cases hp : p a = true
    · simp only [idxWhere, hp, if_true, List.filter_cons_of_pos hp]
      cases k with
      | zero => right; exact ⟨0, a, by simp, by simp, by simp⟩
      | succ k =>
        rcases ih (b + 1) k with ⟨h1, h2⟩ | ⟨i, x, h1, h2, h3⟩
        · left; simp [h1, h2]
        · right; exact ⟨i + 1, x, by simp [h1]; omega, by simp [h2], by simp [h3]⟩
    · simp only [idxWhere, hp, Bool.false_eq_true, if_false, List.filter_cons_of_neg hp]
      rcases ih (b + 1) k with ⟨h1, h2⟩ | ⟨i, x, h1, h2, h3⟩
      · left; exact ⟨h1, h2⟩
      · right; exact ⟨i + 1, x, by rw [h1]; congr 1; omega, h2, by simp [h3]⟩

theorem idxWhere_nil_iff {α : Type} (p : α → Bool) (l : List α) (b : Nat) :
    idxWhere p b l = [] ↔ l.filter p = [] := by
  rcases idxWhere_get p l b 0 with ⟨h1, h2⟩ | ⟨i, x, h1, h2, h3⟩
  · constructor <;> intro _
    · cases hh : l.filter p with
      | nil => rfl
      | cons _ _ => simp [hh] at h2
    · cases hh : idxWhere p b l with
      | nil => rfl
      | cons _ _ => simp [hh] at h1
  · constructor <;> intro hh
    · simp [hh] at h1
    · simp [hh] at h2

theorem notRel_unpack {obs : ElfObs} (h : notRel obs = true) :
    ∃ t, obs.header.getField "e_type" = .ok t ∧ isStr t "ET_REL" = false := by
  unfold notRel at h
  cases hg : obs.header.getField "e_type" with
  | error e => simp [hg] at h
  | ok t =>
    refine ⟨t, rfl, ?_⟩
    cases t <;> simp_all [isStr]

/-- `get_ehabi_infos()` on a byte string that carries a well-formed, non-relocatable description:
    `None` when no section is reported SHT_ARM_EXIDX, else one `EHABIInfo` per such section in file
    order, each over the section object `get_section` makes for it -/
theorem fileEhabiInfos_ok {env : Env} {d : ElfDesc} {bytes : Bytes} {obs : ElfObs}
    (hwf : d.wfZ env = true) (hl : Layout d bytes) (ho : d.observe env = .ok obs) (hnr : notRel obs = true) :
    fileEhabiInfos env specSF specMC specEH bytes
      = .ok (if (obs.sections.filter isExidx).isEmpty then none
             else some (Spec.ehabiStructs d.le, (obs.sections.filter isExidx).map fun (_, name, sh) => ⟨name, sh⟩)) := by
  obtain ⟨f, hf, hdata, -, hle, -, hH⟩ := open_aux_z hwf hl ho
  have hsec := sections_aux_z hwf hl ho hf
  obtain ⟨t, ht, hrel⟩ := notRel_unpack hnr
  have htypes : ∀ s ∈ obs.sections, ∃ t, s.2.2.getField "sh_type" = .ok t := by
    intro s hs
    obtain ⟨-, h2, -⟩ := observe_inv ho
    obtain ⟨hlen, hall⟩ := mapM_ok_inv _ _ _ h2
    obtain ⟨i, hi, rfl⟩ := List.mem_iff_getElem.1 hs
    obtain ⟨hd, ty, -, hgt, hr⟩ := obsSec_eq' (hall i (by omega) hi)
    rw [hr]
    exact ⟨ty, hgt⟩
  have hso := sectionsOfType_ok _ htypes
  rw [hH] at hsec
  unfold fileEhabiInfos
  simp only [hf, bind, Except.bind, hH, ht, hrel, hdata, hsec, hso, hle, specEH]
  by_cases hE : (obs.sections.filter isExidx).isEmpty = true
  · simp only [hE, if_true]; rfl
  · simp only [hE]; rfl

/-- `get_ehabi_infos()[k].get_entry(n)` is `EHABIInfo(get_section(i), little_endian).get_entry(n)` for
    the `k`-th section `i` reported SHT_ARM_EXIDX; `None[k]` (no such section) is TypeError, `k` beyond
    the list IndexError -/
theorem fileEhabiInfosEntry_eq {env : Env} {d : ElfDesc} {bytes : Bytes} {obs : ElfObs}
    (hwf : d.wfZ env = true) (hl : Layout d bytes) (ho : d.observe env = .ok obs) (hnr : notRel obs = true)
    (k n : Nat) :
    fileEhabiInfosEntry env specSF specMC specEH bytes k n
      = (if exidxIndices obs = [] then .error .typeError
         else match (exidxIndices obs)[k]? with
           | none => .error .indexError
           | some i => fileEhabiEntry env specSF specMC specEH bytes i n) := by
  obtain ⟨f, hf, hdata, -, hle, -, hH⟩ := open_aux_z hwf hl ho
  unfold fileEhabiInfosEntry
  rw [fileEhabiInfos_ok hwf hl ho hnr]
  simp only [bind, Except.bind]
  by_cases hnil : exidxIndices obs = []
  · rw [if_pos hnil]
    have := (idxWhere_nil_iff isExidx obs.sections 0).1 hnil
    simp [this]
    rfl
  · rw [if_neg hnil]
    have hne : obs.sections.filter isExidx ≠ [] := fun h => hnil ((idxWhere_nil_iff isExidx obs.sections 0).2 h)
    have hemp : (obs.sections.filter isExidx).isEmpty = false := by
      cases hh : obs.sections.filter isExidx with
      | nil => exact absurd hh hne
      | cons _ _ => rfl
    simp only [hemp, Bool.false_eq_true, if_false, List.getElem?_map]
    rcases idxWhere_get isExidx obs.sections 0 k with ⟨h1, h2⟩ | ⟨i, x, h1, h2, h3⟩
    · rw [exidxIndices, h1, h2]; rfl
    · rw [exidxIndices, h1, h2, Nat.zero_add]
      obtain ⟨kind, name, sh⟩ := x
      have hi : i < d.sections.length := by
        have hlen : obs.sections.length = d.sections.length := (mapM_ok_inv _ _ _ (observe_inv ho).2.1).1
        have := (List.getElem?_eq_some_iff.1 h3).1
        omega
      have hget := get_section_aux_z hwf hl ho hf i hi
      rw [h3] at hget
      have hget' := ok_of_toOption' hget
      unfold fileEhabiEntry fileEhabiInfo
      simp only [hf, bind, Except.bind, hdata, hget', hle, specEH, Option.map_some]
      rfl

end PyElf.Proofs.C20
