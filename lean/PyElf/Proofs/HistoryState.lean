/-
  C10, second wave, the whole object: with the tree-shaped layout (`TreeWF`) every operation keeps the strengthened
  invariant `InvT` (exact DIE caches, `_parent` / `_terminator` links that are the tree's, every suspended generator
  knows exactly what it still has to produce), and every answer has a closed form in the file alone.
-/
import PyElf.Proofs.HistoryTree
import PyElf.Proofs.HistorySib
import PyElf.Proofs.HistoryRef
namespace PyElf.Proofs.C10
open PyElf PyElf.Model.Lookup PyElf.Model.C10 PyElf.Proofs.Lookup

/-! ### cached units are never evicted -/

def Grows (a b : CUCache) : Prop := ∀ y ∈ a.cus, y ∈ b.cus

theorem Grows.refl (a : CUCache) : Grows a a := fun _ h => h
theorem Grows.trans {a b c : CUCache} (h1 : Grows a b) (h2 : Grows b c) : Grows a c := fun y h => h2 y (h1 y h)

theorem cachedCUAtOffset_grows (P : Nat → R CU) (st : CUCache) (o : Nat) :
    Grows st (cachedCUAtOffset P st o).2 ∧
      ∀ c, (cachedCUAtOffset P st o).1 = .ok c → c ∈ (cachedCUAtOffset P st o).2.cus := by
  unfold cachedCUAtOffset
  split
  · exact ⟨Grows.refl _, fun c h => by cases h⟩
  · simp only
    split
    · exact ⟨Grows.refl _, fun c h => by cases h⟩
    · split
      · exact ⟨Grows.refl _, fun c h => by cases h⟩
      · rename_i cu hget
        exact ⟨Grows.refl _, fun c h => by injection h with h; subst h; exact List.mem_of_getElem? hget⟩
    · split
      · exact ⟨Grows.refl _, fun c h => by cases h⟩
      · exact ⟨fun y h => (mem_pyInsert _ _ _ _).mpr (Or.inr h),
          fun c h => by injection h with h; subst h; exact (mem_pyInsert _ _ _ _).mpr (Or.inl rfl)⟩

theorem containingLoop_grows (P : Nat → R CU) (size x : Nat) : ∀ (fuel o : Nat) (st : CUCache),
    Grows st (containingLoop P size x fuel o st).2 ∧
      ∀ c, (containingLoop P size x fuel o st).1 = .ok c → c ∈ (containingLoop P size x fuel o st).2.cus := by
  intro fuel
  induction fuel with
  | zero => intro o st; exact ⟨Grows.refl _, fun c h => by simp [containingLoop] at h⟩
  | succ fuel ih =>
    intro o st
    rw [containingLoop]
    split
    · obtain ⟨g1, g2⟩ := cachedCUAtOffset_grows P st o
      generalize cachedCUAtOffset P st o = g at g1 g2
      obtain ⟨r, st1⟩ := g
      cases r with
      | error e => exact ⟨g1, fun c h => by cases h⟩
      | ok cu =>
        simp only
        split
        · exact ⟨g1, fun c h => by cases h⟩
        · split
          · exact ⟨g1, fun c h => by injection h with h; subst h; exact g2 _ rfl⟩
          · obtain ⟨i1, i2⟩ := ih (o + _) st1
            exact ⟨g1.trans i1, i2⟩
    · exact ⟨Grows.refl _, fun c h => by cases h⟩

theorem getCUContaining_grows (P : Nat → R CU) (size : Nat) (st : CUCache) (x : Nat) :
    Grows st (getCUContaining P size st x).2 ∧
      ∀ c, (getCUContaining P size st x).1 = .ok c → c ∈ (getCUContaining P size st x).2.cus := by
  unfold getCUContaining
  split
  · exact ⟨Grows.refl _, fun c h => by cases h⟩
  · split
    · exact ⟨Grows.refl _, fun c h => by cases h⟩
    · simp only
      split
      · exact ⟨Grows.refl _, fun c h => by cases h⟩
      · exact containingLoop_grows P size x _ _ st

theorem getCUAt_grows (P : Nat → R CU) (size : Nat) (st : CUCache) (o : Nat) :
    Grows st (getCUAt P size st o).2 ∧ ∀ c, (getCUAt P size st o).1 = .ok c → c ∈ (getCUAt P size st o).2.cus := by
  unfold getCUAt
  split
  · exact ⟨Grows.refl _, fun c h => by cases h⟩
  · exact cachedCUAtOffset_grows P st o

/-! ### the hypothesis and the strengthened invariant -/

/-- the tree-shaped layout of every unit's entries: `T` assigns to every unit (by its offset) the tree of its
    entries; the tree is laid out from the unit's first DIE offset, ends inside the unit, and the parse at every
    entry's offset returns that entry -/
structure TreeWF (F : File) (cs : List CU) (T : Nat → DTree) : Prop where
  tree : ∀ c ∈ cs, ∃ e sz, c.size = .ok sz ∧ Lay c.cuDieOffset (T c.cuOffset) e ∧ e ≤ c.cuOffset + sz ∧
    ∀ x ∈ ents none (T c.cuOffset), F.parseDIE c.cuOffset x.1.d.offset = .ok x.1.d

/-- what a suspended generator still has to produce (offsets) -/
def IterRem (F : File) (cs : List CU) (T : Nat → DTree) : Iter → List Nat → Prop
  | .cus o done, rem =>
    (done = true ∧ rem = []) ∨
    (done = false ∧ ∃ suf, Chain F.parseCU F.size o suf ∧ (∀ y ∈ suf, y ∈ cs) ∧ rem = suf.map (·.cuOffset))
  | .children cu ci, rem => ∃ r, ChildRem (T cu) ci r ∧ rem = r.map (·.offset)
  | .dies cu st done, rem =>
    (done = true ∧ rem = []) ∨ (done = false ∧ ∃ r, StackOK (T cu) st r ∧ rem = r.map (·.offset))
  | .siblings cu self ci done, rem =>
    (done = true ∧ rem = []) ∨ (done = false ∧ ∃ r, SibRem (T cu) self ci r ∧ rem = r.map (·.offset))

/-- the `CompileUnit` object a generator holds is the cached one -/
def IterCached (cache : CUCache) : Iter → Prop
  | .cus _ _ => True
  | .children cu _ => ∃ c ∈ cache.cus, c.cuOffset = cu
  | .dies cu _ _ => ∃ c ∈ cache.cus, c.cuOffset = cu
  | .siblings cu _ _ _ => ∃ c ∈ cache.cus, c.cuOffset = cu

theorem iterCached_grows {a b : CUCache} (h : Grows a b) {it : Iter} (hi : IterCached a it) : IterCached b it := by
  cases it with
  | cus o d => trivial
  | children cu ci => obtain ⟨c, hc, h'⟩ := hi; exact ⟨c, h c hc, h'⟩
  | dies cu s d => obtain ⟨c, hc, h'⟩ := hi; exact ⟨c, h c hc, h'⟩
  | siblings cu sf ci d => obtain ⟨c, hc, h'⟩ := hi; exact ⟨c, h c hc, h'⟩

/-- bookkeeping for the statement about suspended generators (not part of the object): for every handle, the
    kind the generator was created with and how many items it has been asked for so far -/
abbrev Ghost := List (IterKind × Nat)

/-- the stateless enumeration a generator kind stands for -/
def KindEnum (cs : List CU) (T : Nat → DTree) : IterKind → List Nat → Prop
  | .cus, l => l = cs.map (·.cuOffset)
  | .dies cu, l => (∃ c ∈ cs, c.cuOffset = cu) ∧ l = (flatT (T cu)).map (·.offset)
  | .children cu off, l => (∃ c ∈ cs, c.cuOffset = cu) ∧
      ∃ x ∈ ents none (T cu), x.1.d.offset = off ∧ l = (kidsOut x.1.kids).map (·.offset)
  /- `die.iter_siblings()` of an entry that has an owner: the other non-null entries of the owner's sibling list
     (for the top entry the generator raises at its first `next()`: see `step_siblings_T`) -/
  | .siblings cu off, l => (∃ c ∈ cs, c.cuOffset = cu) ∧
      ∃ x ∈ ents none (T cu), x.1.d.offset = off ∧ ∃ n q, (n, q) ∈ ents none (T cu) ∧ x.2 = some n.d ∧
        l = (sibFilter off (kidsOut n.kids)).map (·.offset)

structure InvT (F : File) (cs : List CU) (T : Nat → DTree) (g : Ghost) (st : State) : Prop where
  base : Inv F cs st
  unitsT : ∀ k u, assocGet? st.units k = some u → ∀ c ∈ cs, c.cuOffset = k →
    UT (F.parseDIE k) c.cuDieOffset (T k) u
  /-- the generator behind handle `i`, created with kind `k` and asked `n` times, still has to produce exactly
      the stateless enumeration of `k` from its `n`-th item on -/
  itersG : st.iters.length = g.length ∧ ∀ (i : Nat) (it : Iter), st.iters[i]? = some it →
    ∃ k n l, g[i]? = some (k, n) ∧ KindEnum cs T k l ∧ IterRem F cs T it (l.drop n) ∧ IterCached st.cus it

theorem invT_init (F : File) (cs : List CU) (T : Nat → DTree) : InvT F cs T [] State.init :=
  { base := inv_init F cs, unitsT := fun k u h => by simp [State.init, assocGet?] at h,
    itersG := ⟨rfl, fun i it h => by simp [State.init] at h⟩ }

section state
variable {F : File} {cs : List CU} {T : Nat → DTree} {st : State} {g : Ghost}

theorem treeWF_tw (wf : FileWF F cs) (tw : TreeWF F cs T) {c : CU} (hc : c ∈ cs) :
    TW (F.parseDIE c.cuOffset) c.cuDieOffset (T c.cuOffset) := by
  obtain ⟨e, sz, _, h2, _, h4⟩ := tw.tree c hc
  exact { hPo := wf.dieOff _, lay := ⟨e, h2⟩, cov := h4 }

theorem treeWF_fuel (wf : FileWF F cs) (tw : TreeWF F cs T) {c : CU} (hc : c ∈ cs) :
    ∃ e sz, c.size = .ok sz ∧ Lay c.cuDieOffset (T c.cuOffset) e ∧ e ≤ c.cuOffset + sz ∧
      2 * (e - c.cuDieOffset) + 4 ≤ fuelOf F := by
  obtain ⟨e, sz, h1, h2, h3, _⟩ := tw.tree c hc
  obtain ⟨sz', h1', _, h5⟩ := mem_size wf hc
  rw [h1] at h1'; injection h1' with h1'; subst h1'
  exact ⟨e, sz, h1, h2, h3, by unfold fuelOf; omega⟩

theorem unitOf_T (hinv : InvT F cs T g st) {c : CU} (hc : c ∈ cs) :
    UT (F.parseDIE c.cuOffset) c.cuDieOffset (T c.cuOffset) (unitOf st c.cuOffset) := by
  unfold unitOf
  cases hg : assocGet? st.units c.cuOffset with
  | none => exact ut_empty _ _ _ _
  | some u =>
    have := hinv.unitsT _ u hg c hc rfl
    exact ut_congr this (ucore_congr this.core rfl rfl) rfl rfl

theorem putUnit_invT (wf : FileWF F cs) (hinv : InvT F cs T g st) {c : CU} (hc : c ∈ cs) {u : UnitCache}
    (hu : UT (F.parseDIE c.cuOffset) c.cuDieOffset (T c.cuOffset) u) : InvT F cs T g (putUnit st c.cuOffset u) :=
  { base := putUnit_inv wf hinv.base hc hu.core
    unitsT := by
      intro k u' hg c' hc' hk
      by_cases hkk : k = c.cuOffset
      · subst hkk
        have : c' = c := unit_unique wf hc hc' hk
        subst this
        simp only [putUnit] at hg
        rw [assocGet_set_self] at hg
        injection hg with hg
        rw [← hg]; exact hu
      · simp only [putUnit] at hg
        rw [assocGet_set_other _ _ _ _ hkk] at hg
        exact hinv.unitsT k u' hg c' hc' hk
    itersG := hinv.itersG }

theorem withCU_invT (hinv : InvT F cs T g st) (r : R CU × CUCache) (hr : Lookup.Inv F.parseCU cs r.2)
    (hg : Grows st.cus r.2) : InvT F cs T g (withCU st r).2 :=
  { base := withCU_inv hinv.base r hr, unitsT := hinv.unitsT,
    itersG := ⟨hinv.itersG.1, fun i it h => by
      obtain ⟨k, n, l, a, b, c, d⟩ := hinv.itersG.2 i it h
      exact ⟨k, n, l, a, b, c, iterCached_grows hg d⟩⟩ }

theorem inUnit_eq {α} {c : CU} {f : UnitCache → R α × UnitCache} {r : R α} {u' : UnitCache}
    (h : f (unitOf st c.cuOffset) = (r, u')) : inUnit st c f = (r, putUnit st c.cuOffset u') := by
  unfold inUnit; rw [h]

theorem inUnit_T {α} (wf : FileWF F cs) (hinv : InvT F cs T g st) {c : CU} (hc : c ∈ cs)
    (f : UnitCache → R α × UnitCache)
    (hf : ∀ u, UT (F.parseDIE c.cuOffset) c.cuDieOffset (T c.cuOffset) u →
      UT (F.parseDIE c.cuOffset) c.cuDieOffset (T c.cuOffset) (f u).2) :
    InvT F cs T g (inUnit st c f).2 ∧ (inUnit st c f).2.cus = st.cus :=
  ⟨putUnit_invT wf hinv hc (hf _ (unitOf_T hinv hc)), rfl⟩

theorem getCUAt'_T (wf : FileWF F cs) (hinv : InvT F cs T g st) {c : CU} (hc : c ∈ cs) :
    ∃ st', getCUAt' F st c.cuOffset = (.ok c, st') ∧ InvT F cs T g st' ∧ c ∈ st'.cus.cus := by
  obtain ⟨st1, hr, hinv'⟩ := getCUAt_exact wf.cuOff wf.chain hinv.base.cu hc
  obtain ⟨g1, g2⟩ := getCUAt_grows F.parseCU F.size st.cus c.cuOffset
  refine ⟨(getCUAt' F st c.cuOffset).2, ?_, ?_, ?_⟩
  · unfold getCUAt' withCU; rw [hr]
  · unfold getCUAt'
    exact withCU_invT hinv _ (by rw [hr]; exact hinv') g1
  · have := g2 c (by rw [hr])
    simpa [getCUAt', withCU] using this

theorem getCUCont'_T (wf : FileWF F cs) (hinv : InvT F cs T g st) {x : Nat} (hx : x < F.size) :
    ∃ c sz st', getCUCont' F st x = (.ok c, st') ∧ c ∈ cs ∧ c.size = .ok sz ∧ c.cuOffset ≤ x ∧ x < c.cuOffset + sz ∧
      InvT F cs T g st' := by
  obtain ⟨c, sz, st1, hr, hc, hsz, h1, h2, hinv'⟩ := getCUContaining_spec wf.cuOff wf.chain hinv.base.cu hx
  obtain ⟨g1, _⟩ := getCUContaining_grows F.parseCU F.size st.cus x
  refine ⟨c, sz, (getCUCont' F st x).2, ?_, hc, hsz, h1, h2, ?_⟩
  · unfold getCUCont' withCU; rw [hr]
  · unfold getCUCont'
    exact withCU_invT hinv _ (by rw [hr]; exact hinv') g1

theorem getTopDIE_ut {PD : Nat → R DIE} {dieOff : Nat} {t : DTree} (tw : TW PD dieOff t) {u : UnitCache}
    (hu : UT PD dieOff t u) : UT PD dieOff t (getTopDIE PD dieOff u).2 := by
  obtain ⟨u', h, hu'⟩ := getTopDIE_tw tw hu
  rw [h]; exact hu'

/-- `get_CU_at(cu).get_DIE_from_refaddr(off)` for ANY offset keeps the invariant -/
theorem dieAt_T (wf : FileWF F cs) (tw : TreeWF F cs T) (hinv : InvT F cs T g st) {c : CU} (hc : c ∈ cs) (off : Nat) :
    InvT F cs T g (dieAt F st c.cuOffset off).2 := by
  obtain ⟨st1, h1, h2, _⟩ := getCUAt'_T wf hinv hc
  obtain ⟨sz, hsz, _⟩ := mem_size wf hc
  unfold dieAt
  rw [h1]
  simp only [cuEnd_eq hsz]
  have h4 := (inUnit_T wf h2 hc (fun u => unitDIEFromRefaddr (F.parseDIE c.cuOffset) c.cuDieOffset (c.cuOffset + sz) u off)
    (fun u hu => unitDIEFromRefaddr_ut (treeWF_tw wf tw hc) hu _ _)).1
  generalize inUnit st1 c (fun u => unitDIEFromRefaddr (F.parseDIE c.cuOffset) c.cuDieOffset (c.cuOffset + sz) u off) = g at h4
  obtain ⟨r, st2⟩ := g
  cases r <;> exact h4

/-- … and at the offset of an entry of the unit's tree it returns that entry -/
theorem dieAt_ok (wf : FileWF F cs) (tw : TreeWF F cs T) (hinv : InvT F cs T g st) {c : CU} (hc : c ∈ cs)
    {x : DTree × Option DIE} (hx : x ∈ ents none (T c.cuOffset)) :
    ∃ st', dieAt F st c.cuOffset x.1.d.offset = (.ok (c, x.1.d), st') ∧ InvT F cs T g st' ∧ c ∈ st'.cus.cus := by
  obtain ⟨st1, h1, h2, h3⟩ := getCUAt'_T wf hinv hc
  obtain ⟨e, sz, hsz, hlay, hle, _⟩ := treeWF_fuel wf tw hc
  have htw := treeWF_tw wf tw hc
  have hb := ents_bounds _ none _ _ hlay x hx
  obtain ⟨u', h4, hu'⟩ := getCachedDIE_tw htw (unitOf_T h2 hc) hx
  have h5 : (fun u => unitDIEFromRefaddr (F.parseDIE c.cuOffset) c.cuDieOffset (c.cuOffset + sz) u x.1.d.offset)
      (unitOf st1 c.cuOffset) = (.ok x.1.d, u') := by
    simp only [unitDIEFromRefaddr]
    have : c.cuDieOffset ≤ x.1.d.offset ∧ x.1.d.offset < c.cuOffset + sz := ⟨hb.1, by omega⟩
    simp only [this, and_self, if_true]
    exact h4
  refine ⟨putUnit st1 c.cuOffset u', ?_, putUnit_invT wf h2 hc hu', h3⟩
  unfold dieAt
  rw [h1]
  simp only [cuEnd_eq hsz]
  rw [inUnit_eq h5]

theorem invT_pos (hinv : InvT F cs T g st) (n : Nat) : InvT F cs T g { st with pos := n } :=
  { base := inv_pos hinv.base n, unitsT := hinv.unitsT, itersG := hinv.itersG }

/-! ### generators -/

theorem kindEnum_unique (wf : FileWF F cs) (tw : TreeWF F cs T) {k : IterKind} {l l' : List Nat}
    (h : KindEnum cs T k l) (h' : KindEnum cs T k l') : l = l' := by
  cases k with
  | cus => rw [h, h']
  | dies cu => rw [h.2, h'.2]
  | children cu off =>
    obtain ⟨⟨c, hc, rfl⟩, x, hx, hxo, rfl⟩ := h
    obtain ⟨_, x', hx', hxo', rfl⟩ := h'
    have := tw_unique (treeWF_tw wf tw hc) hx hx' (by rw [hxo, hxo'])
    rw [this]
  | siblings cu off =>
    obtain ⟨⟨c, hc, rfl⟩, x, hx, hxo, n, q, hn, hp, rfl⟩ := h
    obtain ⟨_, x', hx', hxo', n', q', hn', hp', rfl⟩ := h'
    have htw := treeWF_tw wf tw hc
    have hxx := tw_unique htw hx hx' (by rw [hxo, hxo'])
    subst hxx
    have hnd : n.d = n'.d := by rw [hp] at hp'; injection hp'
    have hnn : (n, q) = (n', q') := tw_unique htw hn hn' (by rw [hnd])
    injection hnn with e1 _
    subst e1
    rfl

/-- creating a generator: it has the whole enumeration to produce -/
theorem newIter_T (wf : FileWF F cs) (tw : TreeWF F cs T) (hinv : InvT F cs T g st) {k : IterKind} {l : List Nat}
    (hk : KindEnum cs T k l) :
    ∃ it st', newIter F st k = (.ok it, st') ∧ InvT F cs T g st' ∧ IterRem F cs T it l ∧ IterCached st'.cus it := by
  cases k with
  | cus =>
    refine ⟨.cus 0 false, st, rfl, hinv, ?_, trivial⟩
    exact Or.inr ⟨rfl, cs, wf.chain, fun y h => h, hk⟩
  | dies cu =>
    obtain ⟨⟨c, hc, rfl⟩, rfl⟩ := hk
    obtain ⟨st1, h1, h2, h3⟩ := getCUAt'_T wf hinv hc
    have htw := treeWF_tw wf tw hc
    obtain ⟨u', h4, hu'⟩ := getTopDIE_tw htw (unitOf_T h2 hc)
    refine ⟨.dies c.cuOffset [⟨(T c.cuOffset).d, 0, ChildIter.new (T c.cuOffset).d⟩] false,
      putUnit st1 c.cuOffset u', ?_, putUnit_invT wf h2 hc hu', ?_, (show ∃ c' ∈ _, _ from ⟨c, h3, rfl⟩)⟩
    · simp only [newIter]
      rw [h1]
      simp only
      rw [inUnit_eq h4]
    · exact Or.inr ⟨rfl, flatT (T c.cuOffset), Or.inr (Or.inr ⟨rfl, rfl⟩), rfl⟩
  | children cu off =>
    obtain ⟨⟨c, hc, rfl⟩, x, hx, rfl, rfl⟩ := hk
    obtain ⟨st1, h1, h2, h3⟩ := dieAt_ok wf tw hinv hc hx
    refine ⟨.children c.cuOffset (ChildIter.new x.1.d), st1, ?_, h2, ?_, (show ∃ c' ∈ _, _ from ⟨c, h3, rfl⟩)⟩
    · simp only [newIter]
      rw [h1]
    · exact ⟨_, childRem_new (treeWF_tw wf tw hc) hx, rfl⟩
  | siblings cu off =>
    obtain ⟨⟨c, hc, rfl⟩, x, hx, rfl, n, q, hn, hp, rfl⟩ := hk
    obtain ⟨st1, h1, h2, h3⟩ := dieAt_ok wf tw hinv hc hx
    refine ⟨.siblings c.cuOffset x.1.d none false, st1, ?_, h2, ?_, (show ∃ c' ∈ _, _ from ⟨c, h3, rfl⟩)⟩
    · simp only [newIter]
      rw [h1]
    · exact Or.inr ⟨rfl, _, sibRem_new hx hn hp, rfl⟩

theorem find_cached (hinv : Inv F cs st) (_wf : FileWF F cs) {cu : Nat} (h : ∃ c ∈ st.cus.cus, c.cuOffset = cu) :
    ∃ c, st.cus.cus.find? (·.cuOffset == cu) = some c ∧ c ∈ cs ∧ c.cuOffset = cu := by
  obtain ⟨c, hc, hcu⟩ := h
  cases hf : st.cus.cus.find? (·.cuOffset == cu) with
  | none =>
    have := List.find?_eq_none.mp hf c hc
    simp [hcu] at this
  | some c' =>
    obtain ⟨h1, h2⟩ := find_unit hinv hf
    exact ⟨c', rfl, h1, h2⟩

/-- resuming a generator: the head of what it still has to produce, whatever the state -/
theorem nextIter_T (wf : FileWF F cs) (tw : TreeWF F cs T) (hinv : InvT F cs T g st) {it : Iter} {rem : List Nat}
    (hr : IterRem F cs T it rem) (hcache : IterCached st.cus it) :
    ∃ it' st', nextIter F st it = (.ok rem.head?, it', st') ∧ InvT F cs T g st' ∧ IterRem F cs T it' rem.tail ∧
      IterCached st'.cus it' ∧ Grows st.cus st'.cus ∧ st'.iters = st.iters := by
  cases it with
  | cus o done =>
    rcases hr with ⟨rfl, rfl⟩ | ⟨rfl, suf, hch, hsub, rfl⟩
    · exact ⟨.cus o true, st, by simp [nextIter], hinv, Or.inl ⟨rfl, rfl⟩, trivial, Grows.refl _, rfl⟩
    · cases suf with
      | nil =>
        have : o = F.size := by simpa [Chain] using hch
        subst this
        refine ⟨.cus F.size true, st, ?_, hinv, Or.inl ⟨rfl, rfl⟩, trivial, Grows.refl _, rfl⟩
        simp [nextIter]
      | cons c suf' =>
        obtain ⟨hos, hP, sz, hsz, hpos, hrest⟩ := hch
        have hc : c ∈ cs := hsub c List.mem_cons_self
        obtain ⟨st1, hcache1, hinv1⟩ := cachedCUAtOffset_spec wf.cuOff hinv.base.cu hc hP
        obtain ⟨g1, _⟩ := cachedCUAtOffset_grows F.parseCU st.cus o
        have hI := withCU_invT hinv (cachedCUAtOffset F.parseCU st.cus o) (by rw [hcache1]; exact hinv1) g1
        have hco : c.cuOffset = o := wf.cuOff _ _ hP
        refine ⟨.cus (o + sz) false, (withCU st (cachedCUAtOffset F.parseCU st.cus o)).2, ?_, hI, ?_, trivial, ?_, rfl⟩
        · simp only [nextIter, Bool.false_eq_true, if_false, hos, if_true]
          simp only [withCU, hcache1, hsz, List.map_cons, List.head?_cons, hco]
        · exact Or.inr ⟨rfl, suf', hrest, fun y hy => hsub y (List.mem_cons_of_mem _ hy), rfl⟩
        · simpa [withCU] using g1
  | children cu ci =>
    obtain ⟨r, hr, rfl⟩ := hr
    obtain ⟨c, hfind, hc, rfl⟩ := find_cached hinv.base wf hcache
    obtain ⟨e, sz, _, hlay, _, hfuel⟩ := treeWF_fuel wf tw hc
    obtain ⟨ci', u', h1, h2, hu'⟩ := childNext_rem (treeWF_tw wf tw hc) hlay hr (fuel := fuelOf F) (by omega)
      (unitOf_T hinv hc)
    refine ⟨.children c.cuOffset ci', putUnit st c.cuOffset u', ?_, putUnit_invT wf hinv hc hu', ⟨_, h2, ?_⟩, hcache,
      Grows.refl _, rfl⟩
    · simp only [nextIter, hfind, h1]
      cases r <;> rfl
    · cases r <;> rfl
  | dies cu stack done =>
    rcases hr with ⟨rfl, rfl⟩ | ⟨rfl, r, hr, rfl⟩
    · exact ⟨.dies cu [] true, st, by simp [nextIter], hinv, Or.inl ⟨rfl, rfl⟩, hcache, Grows.refl _, rfl⟩
    · obtain ⟨c, hfind, hc, rfl⟩ := find_cached hinv.base wf hcache
      obtain ⟨e, sz, _, hlay, _, hfuel⟩ := treeWF_fuel wf tw hc
      obtain ⟨st', u', h1, h2, hu'⟩ := subNext_ok (treeWF_tw wf tw hc) hlay hr (fuel := fuelOf F) (by omega)
        (unitOf_T hinv hc)
      cases r with
      | nil =>
        refine ⟨.dies c.cuOffset st' true, putUnit st c.cuOffset u', ?_, putUnit_invT wf hinv hc hu',
          Or.inl ⟨rfl, rfl⟩, hcache, Grows.refl _, rfl⟩
        simp only [nextIter, Bool.false_eq_true, if_false, hfind, h1]
        rfl
      | cons x r' =>
        refine ⟨.dies c.cuOffset st' false, putUnit st c.cuOffset u', ?_, putUnit_invT wf hinv hc hu',
          Or.inr ⟨rfl, r', h2, rfl⟩, hcache, Grows.refl _, rfl⟩
        simp only [nextIter, Bool.false_eq_true, if_false, hfind, h1]
        rfl
  | siblings cu self ci done =>
    rcases hr with ⟨rfl, rfl⟩ | ⟨rfl, r, hr, rfl⟩
    · exact ⟨.siblings cu self ci true, st, by simp [nextIter], hinv, Or.inl ⟨rfl, rfl⟩, hcache, Grows.refl _, rfl⟩
    · obtain ⟨c, hfind, hc, rfl⟩ := find_cached hinv.base wf hcache
      obtain ⟨e, sz, _, hlay, _, hfuel⟩ := treeWF_fuel wf tw hc
      obtain ⟨ci', u', h1, h2, hu'⟩ := sibNext_rem (treeWF_tw wf tw hc) hlay hr (fuel := fuelOf F) (by omega)
        (unitOf_T hinv hc)
      cases r with
      | nil =>
        refine ⟨.siblings c.cuOffset self ci' true, putUnit st c.cuOffset u', ?_, putUnit_invT wf hinv hc hu',
          Or.inl ⟨rfl, rfl⟩, hcache, Grows.refl _, rfl⟩
        simp only [nextIter, Bool.false_eq_true, if_false, hfind, h1]
        rfl
      | cons x r' =>
        refine ⟨.siblings c.cuOffset self ci' false, putUnit st c.cuOffset u', ?_, putUnit_invT wf hinv hc hu',
          Or.inr ⟨rfl, r', h2, rfl⟩, hcache, Grows.refl _, rfl⟩
        simp only [nextIter, Bool.false_eq_true, if_false, hfind, h1]
        rfl

/-- consuming up to `n` items -/
theorem takeIter_T (wf : FileWF F cs) (tw : TreeWF F cs T) : ∀ (n : Nat) (it : Iter) (st : State) (acc rem : List Nat),
    InvT F cs T g st → IterRem F cs T it rem → IterCached st.cus it →
    ∃ it' st', takeIter F n it st acc = (.ok (acc ++ rem.take n), it', st') ∧ InvT F cs T g st' ∧
      IterRem F cs T it' (rem.drop n) ∧ IterCached st'.cus it' := by
  intro n
  induction n with
  | zero => intro it st acc rem hinv hr hc; exact ⟨it, st, by simp [takeIter], hinv, by simpa using hr, hc⟩
  | succ n ih =>
    intro it st acc rem hinv hr hc
    obtain ⟨it1, st1, h1, hinv1, hr1, hc1, _, _⟩ := nextIter_T wf tw hinv hr hc
    rw [takeIter, h1]
    cases rem with
    | nil => exact ⟨it1, st1, by simp, hinv1, by simpa using hr1, hc1⟩
    | cons x rem' =>
      simp only [List.head?_cons]
      obtain ⟨it2, st2, h2, r⟩ := ih it1 st1 (acc ++ [x]) rem' hinv1 (by simpa using hr1) hc1
      exact ⟨it2, st2, by rw [h2]; simp, r⟩

/-! ### lengths (the fuel of `list(...)` suffices) -/

mutual
theorem subs_length : ∀ (n : DTree), (subs n).length = cnt n
  | .mk d kids => by rw [subs, cnt, List.length_cons, subsF_length kids]; omega
theorem subsF_length : ∀ (ts : List DTree), (subsF ts).length = cntF ts
  | [] => by rw [subsF, cntF]; rfl
  | t :: ts => by rw [subsF, cntF, List.length_append, subs_length t, subsF_length ts]
end

theorem kids_length_le : ∀ (ts : List DTree), ts.length ≤ cntF ts
  | [] => by simp [cntF]
  | t :: ts => by have := kids_length_le ts; have := cnt_pos t; rw [cntF]; simp only [List.length_cons]; omega

theorem chain_length {P : Nat → R CU} {size : Nat} : ∀ (l : List CU) (o : Nat), Chain P size o l → o + l.length ≤ size
  | [], o, h => by simp [Chain] at h; simp [h]
  | c :: l, o, h => by
    obtain ⟨_, _, sz, _, hpos, hrest⟩ := h
    have := chain_length l _ hrest
    simp only [List.length_cons]; omega

theorem kindEnum_length (wf : FileWF F cs) (tw : TreeWF F cs T) {k : IterKind} {l : List Nat}
    (h : KindEnum cs T k l) : l.length ≤ fuelOf F := by
  cases k with
  | cus =>
    rw [h, List.length_map]
    have := chain_length cs 0 wf.chain
    unfold fuelOf; omega
  | dies cu =>
    obtain ⟨⟨c, hc, rfl⟩, rfl⟩ := h
    obtain ⟨e, sz, _, hlay, _, hfuel⟩ := treeWF_fuel wf tw hc
    have := tw_cnt (treeWF_tw wf tw hc) (ents_self none _) hlay
    rw [List.length_map, flatT, List.length_map, subs_length]; omega
  | children cu off =>
    obtain ⟨⟨c, hc, rfl⟩, x, hx, rfl, rfl⟩ := h
    obtain ⟨e, sz, _, hlay, _, hfuel⟩ := treeWF_fuel wf tw hc
    have := tw_cnt (treeWF_tw wf tw hc) hx hlay
    have h1 : (kidsOut x.1.kids).length ≤ x.1.kids.length := by
      unfold kidsOut
      exact Nat.le_trans (List.length_filter_le _ _) (by rw [List.length_map]; exact Nat.le_refl _)
    have h2 := kids_length_le x.1.kids
    have h3 := cnt_def x.1
    rw [List.length_map]; omega
  | siblings cu off =>
    obtain ⟨⟨c, hc, rfl⟩, x, hx, rfl, n, q, hn, hp, rfl⟩ := h
    obtain ⟨e, sz, _, hlay, _, hfuel⟩ := treeWF_fuel wf tw hc
    have := tw_cnt (treeWF_tw wf tw hc) hn hlay
    have h0 : (sibFilter x.1.d.offset (kidsOut n.kids)).length ≤ (kidsOut n.kids).length := List.length_filter_le _ _
    have h1 : (kidsOut n.kids).length ≤ n.kids.length := by
      unfold kidsOut
      exact Nat.le_trans (List.length_filter_le _ _) (by rw [List.length_map]; exact Nat.le_refl _)
    have h2 := kids_length_le n.kids
    have h3 := cnt_def n
    rw [List.length_map]; omega

/-! ### closed forms of the navigation answers, in every state satisfying the invariant -/

/-- `list(die.iter_children())`: the tree's children of the entry -/
theorem step_children_T (wf : FileWF F cs) (tw : TreeWF F cs T) (hinv : InvT F cs T g st) {c : CU} (hc : c ∈ cs)
    {x : DTree × Option DIE} (hx : x ∈ ents none (T c.cuOffset)) :
    (step F st (.children c.cuOffset x.1.d.offset)).1 = .ok (.list ((kidsOut x.1.kids).map (·.offset))) ∧
      InvT F cs T g (step F st (.children c.cuOffset x.1.d.offset)).2 := by
  obtain ⟨st1, h1, h2, _⟩ := dieAt_ok wf tw hinv hc hx
  obtain ⟨e, sz, _, hlay, _, hfuel⟩ := treeWF_fuel wf tw hc
  have htw := treeWF_tw wf tw hc
  have hcnt := tw_cnt htw hx hlay
  obtain ⟨u', h3, hu', _⟩ := drain_tree htw hx (fuelOf F) (unitOf st1 c.cuOffset) (by omega) (unitOf_T h2 hc)
  simp only [step, h1]
  rw [inUnit_eq (f := fun u => drain (F.parseDIE c.cuOffset) c.cuDieOffset (fuelOf F) (ChildIter.new x.1.d) u []) h3]
  exact ⟨rfl, putUnit_invT wf h2 hc hu'⟩

/-- `die.get_parent()`: the tree's owner of the entry, `None` for the top entry -/
theorem step_parent_T (wf : FileWF F cs) (tw : TreeWF F cs T) (hinv : InvT F cs T g st) {c : CU} (hc : c ∈ cs)
    {x : DTree × Option DIE} (hx : x ∈ ents none (T c.cuOffset)) :
    (step F st (.parent c.cuOffset x.1.d.offset)).1 = .ok (.opt (x.2.map (·.offset))) ∧
      InvT F cs T g (step F st (.parent c.cuOffset x.1.d.offset)).2 := by
  obtain ⟨st1, h1, h2, _⟩ := dieAt_ok wf tw hinv hc hx
  obtain ⟨e, sz, _, hlay, _, hfuel⟩ := treeWF_fuel wf tw hc
  have htw := treeWF_tw wf tw hc
  obtain ⟨u', h3, hu'⟩ := getParent_spec htw hx hlay (fuel := fuelOf F) (by omega) (unitOf_T h2 hc)
  simp only [step, h1]
  rw [inUnit_eq (f := getParent (F.parseDIE c.cuOffset) c.cuDieOffset (fuelOf F) x.1.d) h3]
  exact ⟨rfl, putUnit_invT wf h2 hc hu'⟩

/-- the first `n` items of a fresh generator: the first `n` of the stateless enumeration -/
theorem step_take_T (wf : FileWF F cs) (tw : TreeWF F cs T) (hinv : InvT F cs T g st) {k : IterKind} {l : List Nat}
    (hk : KindEnum cs T k l) (n : Nat) :
    (step F st (.take k n)).1 = .ok (.list (l.take n)) ∧ InvT F cs T g (step F st (.take k n)).2 := by
  obtain ⟨it, st1, h1, h2, h3, h4⟩ := newIter_T wf tw hinv hk
  obtain ⟨it', st2, h5, h6, _, _⟩ := takeIter_T wf tw n it st1 [] l h2 h3 h4
  simp only [step, h1, h5]
  exact ⟨by simp, h6⟩

/-- `list(generator)`: the stateless enumeration -/
theorem step_all_T (wf : FileWF F cs) (tw : TreeWF F cs T) (hinv : InvT F cs T g st) {k : IterKind} {l : List Nat}
    (hk : KindEnum cs T k l) :
    (step F st (.all k)).1 = .ok (.list l) ∧ InvT F cs T g (step F st (.all k)).2 := by
  obtain ⟨it, st1, h1, h2, h3, h4⟩ := newIter_T wf tw hinv hk
  obtain ⟨it', st2, h5, h6, _, _⟩ := takeIter_T wf tw (fuelOf F) it st1 [] l h2 h3 h4
  simp only [step, h1, h5]
  exact ⟨by simp [List.take_of_length_le (kindEnum_length wf tw hk)], h6⟩

def ghostStep (g : Ghost) : Op → Ghost
  | .itNew k => g ++ [(k, 0)]
  | .itNext h =>
    match g[h % g.length]? with
    | some (k, n) => g.set (h % g.length) (k, n + 1)
    | none => g
  | _ => g

def ghost (ops : List Op) : Ghost := ops.foldl ghostStep []

theorem listSet_eq_set {α} (l : List α) (i : Nat) (x : α) (h : i < l.length) : listSet l i x = l.set i x := by
  unfold listSet; rw [List.set_eq_take_append_cons_drop]; simp [h]

/-- operations whose arguments name units of the file and, for navigation, entries of the unit's tree (a
    `children` / `parent` call on an offset that is NOT an entry hangs `_parent` links of real entries on a
    garbage DIE object: out of scope, as an invalid `get_CU_at` offset is) -/
def OpValidT (F : File) (cs : List CU) (T : Nat → DTree) : Op → Prop
  | .children cu off => ∃ c ∈ cs, c.cuOffset = cu ∧ ∃ x ∈ ents none (T cu), x.1.d.offset = off
  | .parent cu off => ∃ c ∈ cs, c.cuOffset = cu ∧ ∃ x ∈ ents none (T cu), x.1.d.offset = off
  | .take k _ => ∃ l, KindEnum cs T k l
  | .all k => ∃ l, KindEnum cs T k l
  | .itNew k => ∃ l, KindEnum cs T k l
  | .siblings cu off => ∃ c ∈ cs, c.cuOffset = cu ∧ ∃ x ∈ ents none (T cu), x.1.d.offset = off
  | op => OpValid F cs op

theorem mem_listSet_iff_sub {α} {l : List α} {i : Nat} {x y : α} (h : y ∈ listSet l i x) : y = x ∨ y ∈ l := mem_listSet h

/-- `DWARFInfo.get_DIE_from_refaddr(x)` keeps the invariant -/
theorem refaddrAt_T (wf : FileWF F cs) (tw : TreeWF F cs T) (hinv : InvT F cs T g st) {x : Nat} (hx : x < F.size) :
    InvT F cs T g (refaddrAt F st x).2 := by
  obtain ⟨c, sz, st1, h1, hc, hsz, _, _, h2⟩ := getCUCont'_T wf hinv hx
  simp only [refaddrAt, h1, cuEnd_eq hsz]
  have h3 := (inUnit_T wf h2 hc (fun u => unitDIEFromRefaddr (F.parseDIE c.cuOffset) c.cuDieOffset (c.cuOffset + sz) u x)
    (fun u hu => unitDIEFromRefaddr_ut (treeWF_tw wf tw hc) hu _ _)).1
  generalize inUnit st1 c (fun u => unitDIEFromRefaddr (F.parseDIE c.cuOffset) c.cuDieOffset (c.cuOffset + sz) u x) = g' at h3
  obtain ⟨r, st2⟩ := g'
  cases r <;> exact h3

/-- `list(die.iter_siblings())`: the other non-null entries of the sibling list the entry belongs to; the top
    entry has no parent and the generator raises -/
theorem step_siblings_T (wf : FileWF F cs) (tw : TreeWF F cs T) (hinv : InvT F cs T g st) {c : CU} (hc : c ∈ cs)
    {x : DTree × Option DIE} (hx : x ∈ ents none (T c.cuOffset)) :
    ((x.2 = none ∧ (step F st (.siblings c.cuOffset x.1.d.offset)).1 = .error .stopIteration) ∨
     (∃ n q, (n, q) ∈ ents none (T c.cuOffset) ∧ x.2 = some n.d ∧ x.1 ∈ n.kids ∧
        (step F st (.siblings c.cuOffset x.1.d.offset)).1
          = .ok (.list (((kidsOut n.kids).filter (fun s => s.offset != x.1.d.offset)).map (·.offset))))) ∧
      InvT F cs T g (step F st (.siblings c.cuOffset x.1.d.offset)).2 := by
  obtain ⟨st1, h1, h2, _⟩ := dieAt_ok wf tw hinv hc hx
  obtain ⟨e, sz, _, hlay, _, hfuel⟩ := treeWF_fuel wf tw hc
  have htw := treeWF_tw wf tw hc
  obtain ⟨u', h3, hu'⟩ := getParent_spec htw hx hlay (fuel := fuelOf F) (by omega) (unitOf_T h2 hc)
  have h4 := putUnit_invT wf h2 hc hu'
  simp only [step, h1]
  rw [inUnit_eq (f := getParent (F.parseDIE c.cuOffset) c.cuDieOffset (fuelOf F) x.1.d) h3]
  rcases ents_parent _ none x hx with hroot | ⟨n, q, hn, hp, hk⟩
  · have : x.2 = none := by rw [hroot]
    rw [this]
    exact ⟨Or.inl ⟨rfl, rfl⟩, h4⟩
  · rw [hp]
    simp only
    have hcnt := tw_cnt htw hn hlay
    obtain ⟨u'', h5, hu'', _⟩ := drain_tree htw hn (fuelOf F) (unitOf (putUnit st1 c.cuOffset u') c.cuOffset) (by omega)
      (unitOf_T h4 hc)
    rw [inUnit_eq (f := fun u => drain (F.parseDIE c.cuOffset) c.cuDieOffset (fuelOf F) (ChildIter.new n.d) u []) h5]
    exact ⟨Or.inr ⟨n, q, hn, rfl, hk, rfl⟩, putUnit_invT wf h4 hc hu''⟩

/-- EVERY operation keeps the strengthened invariant -/
theorem step_invT (wf : FileWF F cs) (tw : TreeWF F cs T) (hinv : InvT F cs T g st) {op : Op}
    (hv : OpValidT F cs T op) : InvT F cs T (ghostStep g op) (step F st op).2 := by
  cases op with
  | seek n => exact invT_pos hinv n
  | cuAt o =>
    obtain ⟨c, hc, rfl⟩ := hv
    obtain ⟨st1, h1, h2, _⟩ := getCUAt'_T wf hinv hc
    simp only [step, h1]; exact h2
  | cuCont x =>
    obtain ⟨c, sz, st1, h1, _, _, _, _, h2⟩ := getCUCont'_T wf hinv (show x < F.size from hv)
    simp only [step, h1]; exact h2
  | top cu =>
    obtain ⟨c, hc, rfl⟩ := hv
    obtain ⟨st1, h1, h2, _⟩ := getCUAt'_T wf hinv hc
    simp only [step, h1]
    have h3 := (inUnit_T wf h2 hc (getTopDIE (F.parseDIE c.cuOffset) c.cuDieOffset)
      (fun u hu => getTopDIE_ut (treeWF_tw wf tw hc) hu)).1
    generalize inUnit st1 c (getTopDIE (F.parseDIE c.cuOffset) c.cuDieOffset) = g at h3
    obtain ⟨r, st2⟩ := g
    cases r <;> exact h3
  | die cu off =>
    obtain ⟨c, hc, rfl⟩ := hv
    have h3 := dieAt_T wf tw hinv hc off
    simp only [step]
    generalize dieAt F st c.cuOffset off = g at h3
    obtain ⟨r, st2⟩ := g
    cases r <;> exact h3
  | refaddr x => exact refaddrAt_T wf tw hinv (show x < F.size from hv)
  | children cu off =>
    obtain ⟨c, hc, rfl, x, hx, rfl⟩ := hv
    exact (step_children_T wf tw hinv hc hx).2
  | parent cu off =>
    obtain ⟨c, hc, rfl, x, hx, rfl⟩ := hv
    exact (step_parent_T wf tw hinv hc hx).2
  | lp cu dec =>
    obtain ⟨c, hc, rfl⟩ := hv
    obtain ⟨st1, h1, h2, _⟩ := getCUAt'_T wf hinv hc
    simp only [step, h1]
    have h3 := (inUnit_T wf h2 hc (getTopDIE (F.parseDIE c.cuOffset) c.cuDieOffset)
      (fun u hu => getTopDIE_ut (treeWF_tw wf tw hc) hu)).1
    generalize inUnit st1 c (getTopDIE (F.parseDIE c.cuOffset) c.cuDieOffset) = g at h3
    obtain ⟨r, st2⟩ := g
    cases r with
    | error e => exact h3
    | ok top =>
      simp only
      cases top.stmt with
      | none => exact h3
      | some o =>
        exact { base := { cu := h3.base.cu, units := h3.base.units, sec := h3.base.sec, sym := h3.base.sym,
                          iters := h3.base.iters },
                unitsT := h3.unitsT, itersG := h3.itersG }
  | take k n => obtain ⟨l, hl⟩ := hv; exact (step_take_T wf tw hinv hl n).2
  | all k => obtain ⟨l, hl⟩ := hv; exact (step_all_T wf tw hinv hl).2
  | itNew k =>
    obtain ⟨l, hl⟩ := hv
    obtain ⟨it, st1, h1, h2, h3, h4⟩ := newIter_T wf tw hinv hl
    show InvT F cs T (g ++ [(k, 0)]) _
    simp only [step, h1]
    exact { base := { cu := h2.base.cu, units := h2.base.units, sec := h2.base.sec, sym := h2.base.sym,
                      iters := by
                        intro it' hit'
                        rcases List.mem_append.mp hit' with h | h
                        · exact h2.base.iters it' h
                        · simp at h; rw [h]
                          exact (newIter_inv wf hinv.base (k := k) (by
                            cases k with
                            | cus => trivial
                            | dies cu => exact hl.1
                            | children cu off => exact hl.1
                            | siblings cu off => exact hl.1)).2 it (by rw [h1]) },
            unitsT := h2.unitsT
            itersG := by
              obtain ⟨hlen, hent⟩ := h2.itersG
              refine ⟨by simp [hlen], ?_⟩
              intro i it' hi
              by_cases hlt : i < st1.iters.length
              · rw [List.getElem?_append_left hlt] at hi
                obtain ⟨k', n, l', a, b, c, d⟩ := hent i it' hi
                exact ⟨k', n, l', by rw [List.getElem?_append_left (by omega)]; exact a, b, c, d⟩
              · have hi' := (List.getElem?_eq_some_iff.mp hi).1
                simp only [List.length_append, List.length_cons, List.length_nil] at hi'
                have : i = st1.iters.length := by omega
                subst this
                simp at hi
                subst hi
                exact ⟨k, 0, l, by rw [hlen]; simp, hl, by simpa using h3, h4⟩ }
  | itNext h =>
    show InvT F cs T (ghostStep g (.itNext h)) _
    obtain ⟨hlen, hent⟩ := hinv.itersG
    simp only [step]
    split
    · rename_i h0
      have hg0 : g = [] := List.length_eq_zero_iff.mp (by rw [← hlen]; exact h0)
      have hg : ghostStep g (.itNext h) = g := by subst hg0; simp [ghostStep]
      rw [hg]; exact hinv
    · rename_i hne
      have hi : h % st.iters.length < st.iters.length := Nat.mod_lt _ (by omega)
      split
      · rename_i hnone
        rw [List.getElem?_eq_none_iff] at hnone; omega
      · rename_i it hget
        have hm : it ∈ st.iters := List.mem_of_getElem? hget
        obtain ⟨k, n, l, hg1, hk, hrem, hcache⟩ := hent _ it hget
        obtain ⟨it', st', h1, h2, h3, h4, h5, h6⟩ := nextIter_T wf tw hinv hrem hcache
        obtain ⟨_, hok⟩ := nextIter_inv wf hinv.base (hinv.base.iters it hm)
        rw [h1] at hok
        simp only at hok
        rw [h1]
        have hg : ghostStep g (.itNext h) = g.set (h % st.iters.length) (k, n + 1) := by
          simp only [ghostStep]; rw [← hlen, hg1]
        rw [hg]
        have key : InvT F cs T (g.set (h % st.iters.length) (k, n + 1))
            { st' with iters := listSet st'.iters (h % st.iters.length) it' } :=
          { base := { cu := h2.base.cu, units := h2.base.units, sec := h2.base.sec, sym := h2.base.sym,
                      iters := by
                        intro x hx
                        rcases mem_listSet hx with rfl | hx
                        · exact hok
                        · exact h2.base.iters x hx },
            unitsT := h2.unitsT,
            itersG := by
              obtain ⟨hlen', hent'⟩ := h2.itersG
              show (listSet st'.iters (h % st.iters.length) it').length = _ ∧ ∀ i it'', (listSet st'.iters (h % st.iters.length) it')[i]? = some it'' → _
              rw [listSet_eq_set _ _ _ (by rw [h6]; exact hi)]
              refine ⟨by simp [hlen'], ?_⟩
              intro j x hx
              by_cases hj : h % st.iters.length = j
              · subst hj
                rw [List.getElem?_set_self (by rw [h6]; exact hi)] at hx
                injection hx with hx; subst hx
                refine ⟨k, n + 1, l, by rw [List.getElem?_set_self (by rw [← hlen]; exact hi)], hk, ?_, h4⟩
                rw [← List.tail_drop]; exact h3
              · rw [List.getElem?_set_ne hj] at hx
                obtain ⟨k', n', l', a, b, c, d⟩ := hent' j x hx
                exact ⟨k', n', l', by rw [List.getElem?_set_ne hj]; exact a, b, c, d⟩ }
        cases (l.drop n).head? <;> exact key
  | secIdx name =>
    have := (step_secIdx hinv.base name).2
    simp only [step] at this ⊢
    exact { base := this, unitsT := hinv.unitsT, itersG := hinv.itersG }
  | symByName name =>
    have := (step_symByName hinv.base name).2
    simp only [step] at this ⊢
    exact { base := this, unitsT := hinv.unitsT, itersG := hinv.itersG }
  | siblings cu off =>
    obtain ⟨c, hc, rfl, x, hx, rfl⟩ := hv
    exact (step_siblings_T wf tw hinv hc hx).2
  | ref cu off name =>
    obtain ⟨⟨c, hc, rfl⟩, hraw⟩ := hv
    obtain ⟨sz, hsz, _⟩ := mem_size wf hc
    have h4 := dieAt_T wf tw hinv hc off
    obtain ⟨_, hcc⟩ := dieAt_cases wf hinv.base hc off
    show InvT F cs T g _
    simp only [step]
    generalize dieAt F st c.cuOffset off = g2 at h4 hcc
    obtain ⟨r2, st2⟩ := g2
    cases r2 with
    | error e => exact h4
    | ok cd =>
      obtain ⟨c', d⟩ := cd
      have := hcc c' d rfl; subst this
      simp only
      cases hr : F.refAttr c'.cuOffset d.offset name with
      | none => exact h4
      | some br =>
        obtain ⟨b, raw⟩ := br
        cases b with
        | false =>
          simp only [cuEnd_eq hsz]
          have h5 := (inUnit_T wf h4 hc (fun u => unitDIEFromRefaddr (F.parseDIE c'.cuOffset) c'.cuDieOffset (c'.cuOffset + sz) u (c'.cuOffset + raw))
            (fun u hu => unitDIEFromRefaddr_ut (treeWF_tw wf tw hc) hu _ _)).1
          generalize inUnit st2 c' (fun u => unitDIEFromRefaddr (F.parseDIE c'.cuOffset) c'.cuDieOffset (c'.cuOffset + sz) u (c'.cuOffset + raw)) = g3 at h5
          obtain ⟨r3, st3⟩ := g3
          cases r3 <;> exact h5
        | true =>
          simp only
          exact refaddrAt_T wf tw h4 (hraw _ _ hr)
  | pubname name =>
    show InvT F cs T g _
    simp only [step]
    cases hp : F.pubnames with
    | none => exact hinv
    | some tbl =>
      simp only
      cases hf : tbl.find? (·.1 == name) with
      | none => exact hinv
      | some e =>
        obtain ⟨nm, cuo, dieo⟩ := e
        obtain ⟨c, hc, hcu⟩ := (show OpValid F cs (.pubname name) from hv) tbl _ hp hf
        simp only at hcu; subst hcu
        simp only
        have h4 := dieAt_T wf tw hinv hc dieo
        generalize dieAt F st c.cuOffset dieo = g2 at h4
        obtain ⟨r2, st2⟩ := g2
        cases r2 <;> exact h4

theorem opValidT_valid {op : Op} (h : OpValidT F cs T op) : OpValid F cs op := by
  cases op with
  | children cu off => obtain ⟨c, hc, rfl, _⟩ := h; exact ⟨c, hc, rfl⟩
  | parent cu off => obtain ⟨c, hc, rfl, _⟩ := h; exact ⟨c, hc, rfl⟩
  | take k n =>
    obtain ⟨l, hl⟩ := h
    cases k with
    | cus => trivial
    | dies cu => exact hl.1
    | children cu off => exact hl.1
    | siblings cu off => exact hl.1
  | all k =>
    obtain ⟨l, hl⟩ := h
    cases k with
    | cus => trivial
    | dies cu => exact hl.1
    | children cu off => exact hl.1
    | siblings cu off => exact hl.1
  | itNew k =>
    obtain ⟨l, hl⟩ := h
    cases k with
    | cus => trivial
    | dies cu => exact hl.1
    | children cu off => exact hl.1
    | siblings cu off => exact hl.1
  | seek n => exact h
  | cuAt o => exact h
  | cuCont x => exact h
  | top cu => exact h
  | die cu off => exact h
  | refaddr x => exact h
  | lp cu d => exact h
  | itNext h' => exact h
  | secIdx n => exact h
  | symByName n => exact h
  | siblings cu off => obtain ⟨c, hc, rfl, _⟩ := h; exact ⟨c, hc, rfl⟩
  | ref cu off name => exact h
  | pubname name => exact h

theorem run_invT (wf : FileWF F cs) (tw : TreeWF F cs T) : ∀ (ops : List Op) (st : State) (g : Ghost), InvT F cs T g st →
    (∀ op ∈ ops, OpValidT F cs T op) → InvT F cs T (ops.foldl ghostStep g) (run F st ops) := by
  intro ops
  induction ops with
  | nil => intro st g h _; exact h
  | cons op ops ih =>
    intro st g h hv
    exact ih _ _ (step_invT wf tw h (hv op (by simp))) (fun o ho => hv o (List.mem_cons_of_mem _ ho))

/-- the queries whose answers are PROVED independent of the state: the lookups, and the navigation answers
    (`iter_children`, `get_parent`, the first `n` items and the full list of every generator kind) -/
def Query : Op → Prop
  | .itNew _ | .itNext _ => False
  | _ => True

/-- two states satisfying the invariant give the same answer -/
theorem step_answer_eqT (wf : FileWF F cs) (tw : TreeWF F cs T) {st st' : State} {g' : Ghost} (hinv : InvT F cs T g st)
    (hinv' : InvT F cs T g' st') {op : Op} (hv : OpValidT F cs T op) (hq : Query op) :
    (step F st op).1 = (step F st' op).1 := by
  cases op with
  | children cu off =>
    obtain ⟨c, hc, rfl, x, hx, rfl⟩ := hv
    rw [(step_children_T wf tw hinv hc hx).1, (step_children_T wf tw hinv' hc hx).1]
  | parent cu off =>
    obtain ⟨c, hc, rfl, x, hx, rfl⟩ := hv
    rw [(step_parent_T wf tw hinv hc hx).1, (step_parent_T wf tw hinv' hc hx).1]
  | take k n => obtain ⟨l, hl⟩ := hv; rw [(step_take_T wf tw hinv hl n).1, (step_take_T wf tw hinv' hl n).1]
  | all k => obtain ⟨l, hl⟩ := hv; rw [(step_all_T wf tw hinv hl).1, (step_all_T wf tw hinv' hl).1]
  | itNew k => exact absurd hq (by simp [Query])
  | itNext h => exact absurd hq (by simp [Query])
  | seek n => exact step_answer_eq wf hinv.base hinv'.base hv trivial
  | cuAt o => exact step_answer_eq wf hinv.base hinv'.base hv trivial
  | cuCont x => exact step_answer_eq wf hinv.base hinv'.base hv trivial
  | top cu => exact step_answer_eq wf hinv.base hinv'.base hv trivial
  | die cu off => exact step_answer_eq wf hinv.base hinv'.base hv trivial
  | refaddr x => exact step_answer_eq wf hinv.base hinv'.base hv trivial
  | lp cu d => exact step_answer_eq wf hinv.base hinv'.base hv trivial
  | secIdx n => exact step_answer_eq wf hinv.base hinv'.base hv trivial
  | symByName n => exact step_answer_eq wf hinv.base hinv'.base hv trivial
  | siblings cu off =>
    obtain ⟨c, hc, rfl, x, hx, rfl⟩ := hv
    have htw := treeWF_tw wf tw hc
    rcases (step_siblings_T wf tw hinv hc hx).1 with ⟨hp, h1⟩ | ⟨n, q, hn, hp, _, h1⟩ <;>
    rcases (step_siblings_T wf tw hinv' hc hx).1 with ⟨hp', h1'⟩ | ⟨n', q', hn', hp', _, h1'⟩
    · rw [h1, h1']
    · rw [hp] at hp'; cases hp'
    · rw [hp] at hp'; cases hp'
    · have hnn : (n, q) = (n', q') := tw_unique htw hn hn' (by
        rw [hp] at hp'; injection hp' with hp'; rw [hp'])
      injection hnn with e1 _
      subst e1
      rw [h1, h1']
  | ref cu off name => exact step_ref_eq wf hinv.base hinv'.base hv
  | pubname name => exact step_pubname_eq wf hinv.base hinv'.base hv

/-- the item a `next()` reports: the `n`-th element, or exhaustion -/
def nthAns (l : List Nat) (n : Nat) : Ans := match l[n]? with | some x => .nat x | none => .str "stop"

/-- creating a generator answers the next free handle -/
theorem step_itNew_T (wf : FileWF F cs) (tw : TreeWF F cs T) (hinv : InvT F cs T g st) {k : IterKind} {l : List Nat}
    (hk : KindEnum cs T k l) : (step F st (.itNew k)).1 = .ok (.nat g.length) := by
  obtain ⟨it, st1, h1, h2, _, _⟩ := newIter_T wf tw hinv hk
  simp only [step, h1]
  rw [h2.itersG.1]

/-- resuming the generator behind a handle that was created with kind `k` and has been asked `n` times so far:
    the `n`-th item of the stateless enumeration of `k` — whatever was interleaved -/
theorem step_itNext_T (wf : FileWF F cs) (tw : TreeWF F cs T) (hinv : InvT F cs T g st) (h : Nat) {k : IterKind} {n : Nat}
    (hg : g[h % g.length]? = some (k, n)) :
    ∃ l, KindEnum cs T k l ∧ (step F st (.itNext h)).1 = .ok (nthAns l n) := by
  obtain ⟨hlen, hent⟩ := hinv.itersG
  have hi : h % g.length < g.length := (List.getElem?_eq_some_iff.mp hg).1
  have hne : ¬ st.iters.length = 0 := by omega
  have hi' : h % st.iters.length < st.iters.length := by rw [hlen]; exact hi
  obtain ⟨k', n', l, hg', hk, hrem, hcache⟩ := hent _ _ (List.getElem?_eq_getElem hi')
  rw [hlen, hg] at hg'
  injection hg' with hg'; injection hg' with e1 e2; subst e1 e2
  obtain ⟨it', st', h1, _⟩ := nextIter_T wf tw hinv hrem hcache
  refine ⟨l, hk, ?_⟩
  simp only [step, hne, if_false, List.getElem?_eq_getElem hi', h1, List.head?_drop, nthAns]
  cases hl : l[n]? <;> simp only []

end state
end PyElf.Proofs.C10
