/-
  C01, by-name lookups end to end: `get_section_index`, `has_section`, `get_section_by_name`
  (Model/ElfLookup.lean) on a byte string that carries a well-formed description answer exactly
  what the description says (`ElfDesc.indexOfName`), and `indexOfName` is characterised: the last
  section bearing the name, nothing when no section bears it.
-/
import PyElf.Model.ElfLookup
import PyElf.Proofs.ElfFile
namespace PyElf.Proofs.C01
open PyElf PyElf.Spec PyElf.Model PyElf.Model.C01 PyElf.Proofs

/-! ### `indexOfName`, characterised -/

theorem idxs_none (name : Bytes) : ∀ (l : List Bytes) (k : Nat), (idxs name l k).getLast? = none →
    ∀ x ∈ l, x ≠ name := by
  intro l
  induction l with
  | nil => intro k _ x hx; simp at hx
  | cons nm rest ih =>
    intro k h x hx
    simp only [idxs] at h
    by_cases hn : nm = name
    · subst hn
      simp only [beq_self_eq_true, if_true, getLast?_cons_or] at h
      cases h' : (idxs nm rest (k + 1)).getLast? <;> simp [h'] at h
    · have hn' : (nm == name) = false := by simpa using hn
      simp only [hn', Bool.false_eq_true, if_false] at h
      rcases List.mem_cons.1 hx with rfl | hx'
      · exact hn
      · exact ih (k + 1) h x hx'

theorem idxs_last (name : Bytes) : ∀ (l : List Bytes) (k i : Nat), (idxs name l k).getLast? = some i →
    k ≤ i ∧ l[i - k]? = some name ∧ ∀ j, i < j → l[j - k]? ≠ some name := by
  intro l
  induction l with
  | nil => intro k i h; simp [idxs] at h
  | cons nm rest ih =>
    intro k i h
    simp only [idxs] at h
    by_cases hn : nm = name
    · subst hn
      simp only [beq_self_eq_true, if_true, getLast?_cons_or] at h
      cases h' : (idxs nm rest (k + 1)).getLast? with
      | none =>
        simp only [h', Option.none_or, Option.some.injEq] at h
        subst h
        refine ⟨Nat.le_refl _, by simp, ?_⟩
        intro j hj
        have e : j - k = (j - (k + 1)) + 1 := by omega
        rw [e, List.getElem?_cons_succ]
        intro hc
        exact idxs_none nm rest (k + 1) h' _ (List.mem_of_getElem? hc) rfl
      | some i' =>
        simp only [h', Option.some_or, Option.some.injEq] at h
        subst h
        obtain ⟨h1, h2, h3⟩ := ih (k + 1) i' h'
        have e : i' - k = (i' - (k + 1)) + 1 := by omega
        refine ⟨by omega, by rw [e, List.getElem?_cons_succ]; exact h2, ?_⟩
        intro j hj
        have e' : j - k = (j - (k + 1)) + 1 := by omega
        rw [e', List.getElem?_cons_succ]
        exact h3 j hj
    · have hn' : (nm == name) = false := by simpa using hn
      simp only [hn', Bool.false_eq_true, if_false] at h
      obtain ⟨h1, h2, h3⟩ := ih (k + 1) i h
      have e : i - k = (i - (k + 1)) + 1 := by omega
      refine ⟨by omega, by rw [e, List.getElem?_cons_succ]; exact h2, ?_⟩
      intro j hj
      have e' : j - k = (j - (k + 1)) + 1 := by omega
      rw [e', List.getElem?_cons_succ]
      exact h3 j hj

theorem indexOfName_idxs (d : ElfDesc) (name : Bytes) :
    d.indexOfName name = (idxs name (d.sections.map (·.name)) 0).getLast? := by
  unfold ElfDesc.indexOfName
  rw [List.range_eq_range', idxs_eq_filter (fun s : SecDesc => s.name)]

/-- a name that is found designates the LAST section bearing it -/
theorem indexOfName_some {d : ElfDesc} {name : Bytes} {i : Nat} (h : d.indexOfName name = some i) :
    ∃ hi : i < d.sections.length, (d.sections[i]).name = name ∧
      ∀ j (hj : j < d.sections.length), i < j → (d.sections[j]).name ≠ name := by
  rw [indexOfName_idxs] at h
  obtain ⟨-, h2, h3⟩ := idxs_last name _ 0 i h
  simp only [Nat.sub_zero, List.getElem?_map, Option.map_eq_some_iff] at h2
  obtain ⟨s, hs, hname⟩ := h2
  obtain ⟨hi, rfl⟩ := List.getElem?_eq_some_iff.1 hs
  refine ⟨hi, hname, ?_⟩
  intro j hj hij hc
  apply h3 j hij
  simp only [Nat.sub_zero, List.getElem?_map, List.getElem?_eq_getElem hj, Option.map_some, hc]

/-- a name that is not found is borne by no section -/
theorem indexOfName_none {d : ElfDesc} {name : Bytes} (h : d.indexOfName name = none) :
    ∀ s ∈ d.sections, s.name ≠ name := by
  rw [indexOfName_idxs] at h
  intro s hs
  exact idxs_none name _ 0 h s.name (List.mem_map.2 ⟨s, hs, rfl⟩)

/-! ### the lookups of the reader -/

theorem dictHas_eq (m : List (Bytes × Nat)) (name : Bytes) : dictHas m name = (dictGet m name).isSome := by
  unfold dictHas dictGet
  induction m with
  | nil => rfl
  | cons p m ih =>
    simp only [List.any_cons, List.find?_cons]
    cases hp : (p.1 == name) <;> simp [ih]

section gen
variable {env : Env} {d : ElfDesc} {bytes : Bytes} {obs : ElfObs} {f : ElfFile}

theorem makeSectionNameMap_gen (hw : WfFacts env d) (hl : Layout d bytes) (ho : d.observe env = .ok obs)
    (hf : openElf env specSF specMC bytes = .ok f) :
    makeSectionNameMap env f.S bytes f.header f.shstr = .ok (sectionNameMap obs.sections) := by
  unfold makeSectionNameMap
  rw [sections_gen hw hl ho hf]
  rfl

theorem getSectionIndex_gen (hw : WfFacts env d) (hl : Layout d bytes) (ho : d.observe env = .ok obs)
    (hf : openElf env specSF specMC bytes = .ok f) (name : Bytes) :
    getSectionIndex env f.S bytes f.header f.shstr name = .ok (d.indexOfName name) := by
  unfold getSectionIndex
  rw [makeSectionNameMap_gen hw hl ho hf]
  simp only [bind, Except.bind, pure, Except.pure, dictGet, lookup_exact_aux ho]

theorem hasSection_gen (hw : WfFacts env d) (hl : Layout d bytes) (ho : d.observe env = .ok obs)
    (hf : openElf env specSF specMC bytes = .ok f) (name : Bytes) :
    hasSection env f.S bytes f.header f.shstr name = .ok (d.indexOfName name).isSome := by
  unfold hasSection
  rw [makeSectionNameMap_gen hw hl ho hf]
  simp only [bind, Except.bind, pure, Except.pure, dictHas_eq, dictGet, lookup_exact_aux ho]

theorem getSectionByName_gen (hw : WfFacts env d) (hl : Layout d bytes) (ho : d.observe env = .ok obs)
    (hf : openElf env specSF specMC bytes = .ok f) (name : Bytes) :
    getSectionByName env f.S bytes f.header f.shstr name
      = .ok (match d.indexOfName name with
             | none => none
             | some i => obs.sections[i]?) := by
  unfold getSectionByName
  rw [makeSectionNameMap_gen hw hl ho hf]
  simp only [bind, Except.bind, dictGet, lookup_exact_aux ho]
  cases hi : d.indexOfName name with
  | none => rfl
  | some i =>
    obtain ⟨hlt, -, -⟩ := indexOfName_some hi
    have hlen : obs.sections.length = d.sections.length := (mapM_ok_inv _ _ _ (observe_inv ho).2.1).1
    have hi' : i < obs.sections.length := by omega
    have hg := get_section_gen hw hl ho hf i hlt
    rw [List.getElem?_eq_getElem hi'] at hg
    simp only [List.getElem?_eq_getElem hi']
    cases hr : getSection env f.S bytes f.header f.shstr i with
    | error e => simp [hr, Except.toOption] at hg
    | ok x =>
      simp only [hr, Except.toOption, Option.some.injEq] at hg
      subst hg
      rfl

end gen

end PyElf.Proofs.C01
