/-
  The GNU hash lookup and symbol count over a well-formed table.
-/
import PyElf.Proofs.SysVLookup
namespace PyElf.Proofs
open PyElf PyElf.Spec PyElf.Model

/-- the params Container a `Gnu_Hash` parse yields for table `t` -/
def gnuParams (t : GnuTable) : Val :=
  .record [("nbuckets", .int t.nbuckets), ("symoffset", .int t.symoffset), ("bloom_size", .int t.bloomSize),
           ("bloom_shift", .int t.bloomShift), ("bloom", natsVal t.bloom), ("buckets", natsVal t.buckets)]

/-! ### `firstFrom` -/

theorem firstFrom_some (P : Nat → Bool) : ∀ (c s k : Nat), k < c → (∀ j, j < k → P (s + j) = false) →
    P (s + k) = true → firstFrom P s c = some (s + k) := by
  intro c
  induction c with
  | zero => intro s k hk; omega
  | succ c ih =>
    intro s k hk hbefore hat
    cases k with
    | zero => simp only [Nat.add_zero] at hat; simp [firstFrom, hat]
    | succ k =>
      have h0 : P s = false := by simpa using hbefore 0 (by omega)
      simp only [firstFrom, h0, Bool.false_eq_true, if_false]
      have := ih (s + 1) k (by omega) (fun j hj => by
        have := hbefore (j + 1) (by omega)
        rwa [show s + (j + 1) = s + 1 + j by omega] at this) (by
        rwa [show s + (k + 1) = s + 1 + k by omega] at hat)
      rw [this]; congr 1; omega

theorem firstFrom_none (P : Nat → Bool) : ∀ (c s : Nat), (∀ j, j < c → P (s + j) = false) → firstFrom P s c = none := by
  intro c
  induction c with
  | zero => intro s _; rfl
  | succ c ih =>
    intro s h
    have h0 : P s = false := by simpa using h 0 (by omega)
    simp only [firstFrom, h0, Bool.false_eq_true, if_false]
    exact ih (s + 1) (fun j hj => by
      have := h (j + 1) (by omega)
      rwa [show s + (j + 1) = s + 1 + j by omega] at this)

theorem firstFrom_ne_none (P : Nat → Bool) : ∀ (c s k : Nat), k < c → P (s + k) = true → firstFrom P s c ≠ none := by
  intro c
  induction c with
  | zero => intro s k hk; omega
  | succ c ih =>
    intro s k hk hp
    simp only [firstFrom]
    by_cases h0 : P s = true
    · simp [h0]
    · simp only [h0, if_false]
      cases k with
      | zero => simp only [Nat.add_zero] at hp; exact absurd hp h0
      | succ k => exact ih (s + 1) k (by omega) (by rwa [show s + (k + 1) = s + 1 + k by omega] at hp)

/-- what `firstFrom` returns is in range, satisfies `P`, and is the first such -/
theorem firstFrom_spec (P : Nat → Bool) : ∀ (c s i : Nat), firstFrom P s c = some i →
    s ≤ i ∧ i < s + c ∧ P i = true ∧ ∀ j, s ≤ j → j < i → P j = false := by
  intro c
  induction c with
  | zero => intro s i h; simp [firstFrom] at h
  | succ c ih =>
    intro s i h
    simp only [firstFrom] at h
    by_cases h0 : P s = true
    · simp only [h0, if_true, Option.some.injEq] at h; subst h
      exact ⟨Nat.le_refl _, by omega, h0, fun j h1 h2 => by omega⟩
    · simp only [h0, if_false] at h
      obtain ⟨a, b, c', d⟩ := ih (s + 1) i h
      refine ⟨by omega, by omega, c', fun j h1 h2 => ?_⟩
      by_cases hj : j = s
      · subst hj; simpa using h0
      · exact d j (by omega) h2

/-! ### facts packed in `WFGnuH` -/

structure GnuFacts (cls n : Nat) (hs : List Nat) (t : GnuTable) : Prop where
  nb : 1 ≤ t.nbuckets
  blen : t.buckets.length = t.nbuckets
  bs1 : 1 ≤ t.bloomSize
  bllen : t.bloom.length = t.bloomSize
  so1 : 1 ≤ t.symoffset
  son : t.symoffset ≤ n
  hslen : hs.length = n - t.symoffset
  clen : t.chain.length = hs.length
  buckets : ∀ b, b < t.nbuckets → t.buckets[b]? = some (gnuFirst t.nbuckets t.symoffset hs b)
  entry : ∀ k, k < hs.length → gnuEntryOK cls t hs k = true

theorem WFGnuH_facts {cls n : Nat} {hs : List Nat} {t : GnuTable} (h : WFGnuH cls n hs t = true) :
    GnuFacts cls n hs t := by
  simp only [WFGnuH, Bool.and_eq_true, decide_eq_true_eq, List.all_eq_true, List.mem_range, beq_iff_eq] at h
  obtain ⟨⟨⟨⟨⟨⟨⟨⟨⟨⟨⟨⟨⟨⟨h1, h2⟩, _⟩, h4⟩, h5⟩, _⟩, _⟩, _⟩, h9⟩, h10⟩, h11⟩, h12⟩, _⟩, h14⟩, h15⟩ := h
  exact ⟨h1, h2, h4, h5, h9, h10, h11, h12, h14, h15⟩

theorem gnuEntry_facts {cls : Nat} {t : GnuTable} {hs : List Nat} {k : Nat} (h : gnuEntryOK cls t hs k = true) :
    ∃ hv c, hs[k]? = some hv ∧ t.chain[k]? = some c ∧ c < 2 ^ 32 ∧ (c ||| 1 = hv ||| 1)
      ∧ ((c &&& 1 != 0) = (k + 1 == hs.length || gnuBk t.nbuckets hs (k + 1) != gnuBk t.nbuckets hs k))
      ∧ bloomHas cls t hv = true
      ∧ (k = 0 ∨ gnuBk t.nbuckets hs k = gnuBk t.nbuckets hs (k - 1)
          ∨ gnuFirst t.nbuckets t.symoffset hs (gnuBk t.nbuckets hs k) = t.symoffset + k) := by
  unfold gnuEntryOK at h
  cases hh : hs[k]? with
  | none => simp [hh] at h
  | some hv =>
    cases hc : t.chain[k]? with
    | none => simp [hh, hc] at h
    | some c =>
      simp only [hh, hc, Bool.and_eq_true, decide_eq_true_eq, beq_iff_eq, Bool.or_eq_true] at h
      obtain ⟨⟨⟨⟨a, b⟩, c'⟩, d⟩, e⟩ := h
      exact ⟨hv, c, rfl, rfl, a, b, c', d, by
        rcases e with (e | e) | e
        · exact Or.inl e
        · exact Or.inr (Or.inl e)
        · exact Or.inr (Or.inr e)⟩

theorem gnuBk_of_getElem? {nb : Nat} {hs : List Nat} {k hv : Nat} (h : hs[k]? = some hv) :
    gnuBk nb hs k = hv % nb := by
  simp [gnuBk, List.getD_eq_getElem?_getD, h]

/-- symbols of one bucket are contiguous: from the first of bucket `b` up to any later one of bucket `b` -/
theorem gnu_group {cls n : Nat} {hs : List Nat} {t : GnuTable} (F : GnuFacts cls n hs t) {b f : Nat}
    (hf : hs.findIdx? (fun h => h % t.nbuckets == b) = some f) :
    ∀ k, f ≤ k → k < hs.length → gnuBk t.nbuckets hs k = b →
      ∀ j, f ≤ j → j ≤ k → gnuBk t.nbuckets hs j = b := by
  intro k
  induction k with
  | zero => intro hfk _ hb j hj1 hj2; have : j = 0 := by omega
            subst this; exact hb
  | succ k ih =>
    intro hfk hk hb j hj1 hj2
    by_cases hjk : j = k + 1
    · subst hjk; exact hb
    · by_cases hfe : f = k + 1
      · omega
      · obtain ⟨hv, c, _, _, _, _, _, _, hcont⟩ := gnuEntry_facts (F.entry (k + 1) hk)
        rcases hcont with h0 | h1 | h2
        · omega
        · simp only [Nat.add_sub_cancel] at h1
          exact ih (by omega) (by omega) (by rw [← h1]; exact hb) j hj1 (by omega)
        · rw [hb] at h2
          simp only [gnuFirst, hf] at h2
          omega

/-! ### evaluation of the params accesses -/

theorem getNat_int (fs : Fields) (k : String) (v : Nat) (h : Fields.get? fs k = some (.int v)) :
    (Val.record fs).getNat k = .ok v := by
  have : ¬ ((v : Int) < 0) := by omega
  simp [Val.getNat, Val.getField, Fields.getR, h, Val.asNat, Val.asInt, bind, Except.bind, this]

theorem gnu_getNat_nbuckets (t : GnuTable) : (gnuParams t).getNat "nbuckets" = .ok t.nbuckets :=
  getNat_int _ _ _ (by simp [gnuParams, Fields.get?])
theorem gnu_getNat_symoffset (t : GnuTable) : (gnuParams t).getNat "symoffset" = .ok t.symoffset :=
  getNat_int _ _ _ (by simp [gnuParams, Fields.get?])
theorem gnu_getNat_bloom_size (t : GnuTable) : (gnuParams t).getNat "bloom_size" = .ok t.bloomSize :=
  getNat_int _ _ _ (by simp [gnuParams, Fields.get?])
theorem gnu_getNat_bloom_shift (t : GnuTable) : (gnuParams t).getNat "bloom_shift" = .ok t.bloomShift :=
  getNat_int _ _ _ (by simp [gnuParams, Fields.get?])
theorem gnu_getField_bloom (t : GnuTable) : (gnuParams t).getField "bloom" = .ok (natsVal t.bloom) := by
  simp [gnuParams, Val.getField, Fields.getR, Fields.get?]
theorem gnu_getField_buckets (t : GnuTable) : (gnuParams t).getField "buckets" = .ok (natsVal t.buckets) := by
  simp [gnuParams, Val.getField, Fields.getR, Fields.get?]

/-- `_matches_bloom` is the Bloom-filter test of the table -/
theorem gnuMatchesBloom_eq {cls n : Nat} {hs : List Nat} {t : GnuTable} (F : GnuFacts cls n hs t) (h1 : Nat) :
    gnuMatchesBloom cls (gnuParams t) h1 = .ok (bloomHas cls t h1) := by
  have hb : ¬ t.bloomSize = 0 := by have := F.bs1; omega
  have hidx : (h1 / cls) % t.bloomSize < t.bloom.length := by rw [F.bllen]; exact Nat.mod_lt _ F.bs1
  have hget : t.bloom[(h1 / cls) % t.bloomSize]? = some t.bloom[(h1 / cls) % t.bloomSize] := List.getElem?_eq_getElem hidx
  simp only [gnuMatchesBloom, gnu_getNat_bloom_shift, gnu_getNat_bloom_size, gnu_getField_bloom, bind, Except.bind, hb,
    if_false, listIdx_map, hget, bloomHas]

/-! ### the chain walk -/

theorem gnuHashes_getElem? (names : List Bytes) (so k : Nat) :
    (gnuHashes names so)[k]? = (names[so + k]?).map fun nm => (gnuHash32 nm).toNat := by
  simp [gnuHashes, List.getElem?_map, List.getElem?_drop]

theorem gnuHashes_length (names : List Bytes) (so : Nat) : (gnuHashes names so).length = names.length - so := by
  simp [gnuHashes]

section walk
variable {cls : Nat} {names : List Bytes} {t : GnuTable}
variable (le : Bool) (data : Bytes) (g : GnuHash) (getSym : Nat → R Symbol) (sym : Nat → Symbol) (name : Bytes)

/-- hashed symbol `k` (relative index) named `name` has the hash of `name` -/
theorem hash_of_named {k : Nat} (hk : k < (gnuHashes names t.symoffset).length)
    (hnm : names.getD (t.symoffset + k) [] = name) :
    (gnuHashes names t.symoffset)[k]? = some (gnuHash32 name).toNat := by
  rw [gnuHashes_length] at hk
  have hlt : t.symoffset + k < names.length := by omega
  rw [gnuHashes_getElem?, List.getElem?_eq_getElem hlt]
  simp only [List.getD_eq_getElem?_getD, List.getElem?_eq_getElem hlt, Option.getD_some] at hnm
  simp [hnm]

theorem gnuLoop_walk (F : GnuFacts cls names.length (gnuHashes names t.symoffset) t)
    (hws : g.wordsize = 4)
    (hread : ∀ k (hk : k < t.chain.length), readHashWord le data (g.chainPos + k * 4) = .ok t.chain[k])
    (hget : ∀ j, j < names.length → getSym j = .ok (sym j))
    (hname : ∀ j, j < names.length → (sym j).2 = names.getD j [])
    {f : Nat}
    (hf : (gnuHashes names t.symoffset).findIdx? (fun h => h % t.nbuckets == (gnuHash32 name).toNat % t.nbuckets) = some f) :
    ∀ (d k fuel : Nat), (gnuHashes names t.symoffset).length - k = d → f ≤ k →
      k < (gnuHashes names t.symoffset).length → d ≤ fuel →
      (∀ j, f ≤ j → j ≤ k → gnuBk t.nbuckets (gnuHashes names t.symoffset) j = (gnuHash32 name).toNat % t.nbuckets) →
      (∀ j, j < k → names.getD (t.symoffset + j) [] ≠ name) →
      gnuLoop le data g t.symoffset getSym name (gnuHash32 name).toNat fuel (t.symoffset + k)
        = .ok ((gnuFirstNamed names t.symoffset name).map sym) := by
  intro d
  induction d with
  | zero => intro k fuel h1 _ h3; omega
  | succ d ih =>
    intro k fuel hd hfk hk hfuel hgrp hbefore
    obtain ⟨fuel, rfl⟩ : ∃ f', fuel = f' + 1 := ⟨fuel - 1, by omega⟩
    obtain ⟨hv, c, hhv, hc, _, hor, hend, _, _⟩ := gnuEntry_facts (F.entry k hk)
    have hkc : k < t.chain.length := by rw [F.clen]; exact hk
    have hck : t.chain[k] = c := by
      have := List.getElem?_eq_getElem hkc; rw [hc] at this; exact (Option.some.inj this).symm
    have hm : (gnuHashes names t.symoffset).length = names.length - t.symoffset := gnuHashes_length _ _
    have hlt : t.symoffset + k < names.length := by omega
    have hsub : t.symoffset + k - t.symoffset = k := by omega
    simp only [gnuLoop, hsub, hws, hread k hkc, hck]
    -- the tail of the loop body
    have htail : (if c &&& 1 ≠ 0 then (.ok none : R (Option Symbol))
        else gnuLoop le data g t.symoffset getSym name (gnuHash32 name).toNat fuel (t.symoffset + k + 1))
          = .ok ((gnuFirstNamed names t.symoffset name).map sym) ∨ names.getD (t.symoffset + k) [] = name := by
      by_cases hnm : names.getD (t.symoffset + k) [] = name
      · exact Or.inr hnm
      · left
        by_cases hbit : c &&& 1 ≠ 0
        · rw [if_pos hbit]
          -- the chain ends here: no hashed symbol bears the name
          have hb' : (c &&& 1 != 0) = true := by simpa using hbit
          rw [hb'] at hend
          have hnone : gnuFirstNamed names t.symoffset name = none := by
            apply firstFrom_none
            intro j hj
            simp only [beq_eq_false_iff_ne, ne_eq]
            intro hj'
            rw [← hm] at hj
            by_cases hjk : j < k
            · exact hbefore j hjk hj'
            · by_cases hjk' : j = k
              · subst hjk'; exact hnm hj'
              · -- j > k bears the name: its bucket is that of `name`, so the group reaches beyond k
                have hhj := hash_of_named (t := t) name hj hj'
                have hbj : gnuBk t.nbuckets (gnuHashes names t.symoffset) j = (gnuHash32 name).toNat % t.nbuckets :=
                  gnuBk_of_getElem? hhj
                have hall := gnu_group F hf j (by omega) hj hbj
                have hk1 := hall (k + 1) (by omega) (by omega)
                have hk0 := hgrp k hfk (Nat.le_refl _)
                have : (k + 1 == (gnuHashes names t.symoffset).length) = false := by
                  rw [beq_eq_false_iff_ne]; omega
                simp only [this, Bool.false_or, hk1, hk0, bne_self_eq_false] at hend
                exact absurd hend (by simp)
          rw [hnone]; rfl
        · rw [if_neg hbit]
          have hb' : (c &&& 1 != 0) = false := by simpa using hbit
          rw [hb'] at hend
          have hend' := hend.symm
          simp only [Bool.or_eq_false_iff, beq_eq_false_iff_ne, ne_eq, bne_eq_false_iff_eq] at hend'
          obtain ⟨hne, hbk⟩ := hend'
          have := ih (k + 1) fuel (by omega) (by omega) (by omega) (by omega)
            (fun j hj1 hj2 => by
              by_cases hjk : j = k + 1
              · subst hjk; rw [hbk]; exact hgrp k hfk (Nat.le_refl _)
              · exact hgrp j hj1 (by omega))
            (fun j hj => by
              by_cases hjk : j = k
              · subst hjk; exact hnm
              · exact hbefore j (by omega))
          rw [Nat.add_assoc]; exact this
    by_cases hnm : names.getD (t.symoffset + k) [] = name
    · -- found: the hash matches and the name compares equal
      have hhk := hash_of_named (t := t) name hk hnm
      rw [hhv] at hhk
      have hveq : hv = (gnuHash32 name).toNat := Option.some.inj hhk
      have hmatch : c ||| 1 = (gnuHash32 name).toNat ||| 1 := by rw [hor, hveq]
      have hs2 : name = (sym (t.symoffset + k)).2 := by rw [hname _ hlt, hnm]
      simp only [hmatch, if_true, hget _ hlt]
      rw [if_pos hs2]
      have : gnuFirstNamed names t.symoffset name = some (t.symoffset + k) := by
        apply firstFrom_some
        · omega
        · intro j hj; simpa using hbefore j hj
        · simpa using hnm
      rw [this]; rfl
    · have htl := htail.resolve_right hnm
      by_cases hmatch : c ||| 1 = (gnuHash32 name).toNat ||| 1
      · have hs2 : ¬ name = (sym (t.symoffset + k)).2 := by
          rw [hname _ hlt]; exact fun h => hnm h.symm
        simp only [hmatch, if_true, hget _ hlt]
        rw [if_neg hs2]; exact htl
      · simp only [hmatch, if_false]; exact htl

end walk

theorem readHashWord_len {le : Bool} {data : Bytes} {pos v : Nat} (h : readHashWord le data pos = .ok v) :
    pos + 4 ≤ data.length := by
  unfold readHashWord at h
  by_cases hl : (readN data pos 4).length = 4
  · simp only [readN, List.length_take, List.length_drop] at hl; omega
  · simp [hl] at h

theorem mem_hs_of_getElem? {hs : List Nat} {j v : Nat} (h : hs[j]? = some v) : v ∈ hs :=
  List.mem_of_getElem? h

/-- `GNUHashTable.get_symbol` on a well-formed table returns the first hashed symbol bearing the name -/
theorem gnuHashGetSymbol_eq (cls : Nat) (names : List Bytes) (t : GnuTable) (le : Bool) (data : Bytes) (g : GnuHash)
    (getSym : Nat → R Symbol) (sym : Nat → Symbol) (name : Bytes)
    (hwf : WFGnu cls names t = true) (hg : g.params = gnuParams t) (hws : g.wordsize = 4)
    (hread : ∀ k (hk : k < t.chain.length), readHashWord le data (g.chainPos + k * 4) = .ok t.chain[k])
    (hget : ∀ j, j < names.length → getSym j = .ok (sym j))
    (hname : ∀ j, j < names.length → (sym j).2 = names.getD j []) :
    gnuHashGetSymbol le cls data g getSym name = .ok ((gnuFirstNamed names t.symoffset name).map sym) := by
  have F : GnuFacts cls names.length (gnuHashes names t.symoffset) t := WFGnuH_facts hwf
  have hm : (gnuHashes names t.symoffset).length = names.length - t.symoffset := gnuHashes_length _ _
  have hnb : ¬ t.nbuckets = 0 := by have := F.nb; omega
  have hbi : (gnuHash32 name).toNat % t.nbuckets < t.nbuckets := Nat.mod_lt _ F.nb
  have hH : (Gen.Pure.gnu_hash name).toNat = (gnuHash32 name).toNat := by rw [gnu_hash_eq]; exact Int.toNat_natCast _
  simp only [gnuHashGetSymbol, hH, hg, gnuMatchesBloom_eq F, bind, Except.bind]
  -- a hashed symbol bearing the name, by relative index
  have named_hash : ∀ j, j < names.length - t.symoffset → names.getD (t.symoffset + j) [] = name →
      (gnuHashes names t.symoffset)[j]? = some (gnuHash32 name).toNat :=
    fun j hj hnm => hash_of_named (t := t) name (by rw [hm]; exact hj) hnm
  by_cases hbl : bloomHas cls t (gnuHash32 name).toNat = true
  · simp only [hbl, Bool.not_true, Bool.false_eq_true, if_false, gnu_getNat_nbuckets, hnb, gnu_getField_buckets,
      listIdx_map, F.buckets _ hbi, gnu_getNat_symoffset]
    cases hfi : (gnuHashes names t.symoffset).findIdx?
        (fun h => h % t.nbuckets == (gnuHash32 name).toNat % t.nbuckets) with
    | none =>
      have h0 : gnuFirst t.nbuckets t.symoffset (gnuHashes names t.symoffset) ((gnuHash32 name).toNat % t.nbuckets) = 0 := by
        simp [gnuFirst, hfi]
      have : (0 : Nat) < t.symoffset := F.so1
      simp only [h0, this, if_true]
      have hnone : gnuFirstNamed names t.symoffset name = none := by
        apply firstFrom_none
        intro j hj
        simp only [beq_eq_false_iff_ne, ne_eq]
        intro hj'
        have := List.findIdx?_eq_none_iff.mp hfi _ (mem_hs_of_getElem? (named_hash j hj hj'))
        simp at this
      rw [hnone]; rfl
    | some f =>
      have hfs : gnuFirst t.nbuckets t.symoffset (gnuHashes names t.symoffset) ((gnuHash32 name).toNat % t.nbuckets)
          = t.symoffset + f := by simp [gnuFirst, hfi]
      have hnlt : ¬ (t.symoffset + f < t.symoffset) := by omega
      simp only [hfs, hnlt, if_false]
      obtain ⟨hflt, hpf, hmin⟩ := List.findIdx?_eq_some_iff_getElem.mp hfi
      have hfm : f < names.length - t.symoffset := by rw [← hm]; exact hflt
      have hlast : names.length - t.symoffset - 1 < t.chain.length := by rw [F.clen, hm]; omega
      have hlen := readHashWord_len (hread _ hlast)
      apply gnuLoop_walk le data g getSym sym name F hws hread hget hname hfi
        ((gnuHashes names t.symoffset).length - f) f (data.length + 1) rfl (Nat.le_refl _) hflt
        (by rw [hm]; omega)
      · intro j hj1 hj2
        have : j = f := by omega
        subst this
        rw [gnuBk_of_getElem? (List.getElem?_eq_getElem hflt)]
        simpa using hpf
      · intro j hj hnm
        have hjl : j < (gnuHashes names t.symoffset).length := by omega
        have := named_hash j (by omega) hnm
        rw [List.getElem?_eq_getElem hjl] at this
        have hv := Option.some.inj this
        exact hmin j hj (by rw [hv]; simp)
  · have hbl' : bloomHas cls t (gnuHash32 name).toNat = false := by simpa using hbl
    simp only [hbl', Bool.not_false, if_true]
    have hnone : gnuFirstNamed names t.symoffset name = none := by
      apply firstFrom_none
      intro j hj
      simp only [beq_eq_false_iff_ne, ne_eq]
      intro hj'
      obtain ⟨hv, c, hhv, _, _, _, _, hbloom, _⟩ := gnuEntry_facts (F.entry j (by rw [hm]; exact hj))
      rw [named_hash j hj hj'] at hhv
      rw [← Option.some.inj hhv, hbl'] at hbloom
      exact absurd hbloom (by simp)
    rw [hnone]; rfl

/-! ### the symbol count -/

/-- Python `max` as the model folds it -/
def maxFold (x : Nat) (xs : List Nat) : Nat := xs.foldl (fun m y => if y > m then y else m) x

theorem listMax_natsVal (x : Nat) (xs : List Nat) : listMax (natsVal (x :: xs)) = .ok (maxFold x xs) := by
  have hx : ¬ ((x : Int) < 0) := by omega
  simp only [listMax, natsVal, List.map_cons, Val.asNat, Val.asInt, bind, Except.bind, hx, if_false, Int.toNat_natCast]
  simp only [maxFold]
  generalize x = m
  induction xs generalizing m with
  | nil => rfl
  | cons y ys ih =>
    have hy : ¬ ((y : Int) < 0) := by omega
    simp only [List.map_cons, List.foldlM_cons, List.foldl_cons, bind, Except.bind, hy, if_false, Int.toNat_natCast,
      pure, Except.pure]
    exact ih _

theorem maxFold_cons (x z : Nat) (zs : List Nat) : maxFold x (z :: zs) = maxFold (if z > x then z else x) zs := rfl

theorem maxFold_ge (xs : List Nat) : ∀ x, x ≤ maxFold x xs ∧ ∀ y ∈ xs, y ≤ maxFold x xs := by
  induction xs with
  | nil => intro x; exact ⟨Nat.le_refl _, fun y hy => by simp at hy⟩
  | cons z zs ih =>
    intro x
    rw [maxFold_cons]
    by_cases hzx : z > x
    · rw [if_pos hzx]
      have := ih z
      refine ⟨by have := this.1; omega, fun y hy => ?_⟩
      rcases List.mem_cons.mp hy with rfl | hy
      · exact this.1
      · exact this.2 y hy
    · rw [if_neg hzx]
      have := ih x
      refine ⟨this.1, fun y hy => ?_⟩
      rcases List.mem_cons.mp hy with rfl | hy
      · have := this.1; omega
      · exact this.2 y hy

theorem maxFold_mem (xs : List Nat) : ∀ x, maxFold x xs = x ∨ maxFold x xs ∈ xs := by
  induction xs with
  | nil => intro x; exact Or.inl rfl
  | cons z zs ih =>
    intro x
    rw [maxFold_cons]
    by_cases hzx : z > x
    · rw [if_pos hzx]
      rcases ih z with h | h
      · right; rw [h]; exact List.mem_cons_self
      · right; exact List.mem_cons_of_mem _ h
    · rw [if_neg hzx]
      rcases ih x with h | h
      · left; exact h
      · right; exact List.mem_cons_of_mem _ h

theorem gnuCountLoop_walk {cls : Nat} {n : Nat} {hs : List Nat} {t : GnuTable} (le : Bool) (data : Bytes) (cp : Nat)
    (F : GnuFacts cls n hs t)
    (hread : ∀ k (hk : k < t.chain.length), readHashWord le data (cp + k * 4) = .ok t.chain[k])
    {f : Nat} (hall : ∀ j, f ≤ j → j < hs.length → gnuBk t.nbuckets hs j = gnuBk t.nbuckets hs f) :
    ∀ (d k fuel : Nat), hs.length - k = d → f ≤ k → k < hs.length → d ≤ fuel →
      gnuCountLoop le data fuel (cp + k * 4) (t.symoffset + k) = .ok (t.symoffset + hs.length) := by
  intro d
  induction d with
  | zero => intro k fuel h1 _ h3; omega
  | succ d ih =>
    intro k fuel hd hfk hk hfuel
    obtain ⟨fuel, rfl⟩ : ∃ f', fuel = f' + 1 := ⟨fuel - 1, by omega⟩
    obtain ⟨hv, c, _, hc, _, _, hend, _, _⟩ := gnuEntry_facts (F.entry k hk)
    have hkc : k < t.chain.length := by rw [F.clen]; exact hk
    have hck : t.chain[k] = c := by
      have := List.getElem?_eq_getElem hkc; rw [hc] at this; exact (Option.some.inj this).symm
    simp only [gnuCountLoop, hread k hkc, hck]
    by_cases hlast : k + 1 = hs.length
    · have : (k + 1 == hs.length) = true := by simpa using hlast
      simp only [this, Bool.true_or] at hend
      have hbit : c &&& 1 ≠ 0 := by simpa using hend
      rw [if_pos hbit]; congr 1; omega
    · have h1 : (k + 1 == hs.length) = false := by rw [beq_eq_false_iff_ne]; exact hlast
      have h2 : gnuBk t.nbuckets hs (k + 1) = gnuBk t.nbuckets hs k := by
        rw [hall (k + 1) (by omega) (by omega), hall k hfk hk]
      simp only [h1, h2, Bool.false_or, bne_self_eq_false] at hend
      have hbit : ¬ (c &&& 1 ≠ 0) := by simpa using hend
      rw [if_neg hbit]
      have := ih (k + 1) fuel (by omega) (by omega) (by omega) (by omega)
      rw [show cp + k * 4 + 4 = cp + (k + 1) * 4 by omega, Nat.add_assoc]; exact this

/-- `GNUHashTable.get_number_of_symbols` on a well-formed table is the length of the symbol table -/
theorem gnuHashCount_eq (cls : Nat) (names : List Bytes) (t : GnuTable) (le : Bool) (data : Bytes) (g : GnuHash)
    (hwf : WFGnu cls names t = true) (hg : g.params = gnuParams t) (hws : g.wordsize = 4)
    (hread : ∀ k (hk : k < t.chain.length), readHashWord le data (g.chainPos + k * 4) = .ok t.chain[k]) :
    gnuHashCount le data g = .ok names.length := by
  have F : GnuFacts cls names.length (gnuHashes names t.symoffset) t := WFGnuH_facts hwf
  generalize hhs : gnuHashes names t.symoffset = hs at F
  have hm : hs.length = names.length - t.symoffset := F.hslen
  -- the buckets list is non-empty
  obtain ⟨x, xs, hbk⟩ : ∃ x xs, t.buckets = x :: xs := by
    cases hb : t.buckets with
    | nil => have := F.blen; rw [hb] at this; have := F.nb; simp at *; omega
    | cons x xs => exact ⟨x, xs, rfl⟩
  have hval : ∀ v ∈ t.buckets, ∃ b, b < t.nbuckets ∧ v = gnuFirst t.nbuckets t.symoffset hs b := by
    intro v hv
    obtain ⟨b, hb, rfl⟩ := List.mem_iff_getElem.mp hv
    refine ⟨b, by rw [← F.blen]; exact hb, ?_⟩
    have := F.buckets b (by rw [← F.blen]; exact hb)
    rw [List.getElem?_eq_getElem hb] at this
    exact Option.some.inj this
  have hmaxmem : maxFold x xs ∈ t.buckets := by
    rw [hbk]; rcases maxFold_mem xs x with h | h
    · rw [h]; exact List.mem_cons_self
    · exact List.mem_cons_of_mem _ h
  have hmaxge : ∀ v ∈ t.buckets, v ≤ maxFold x xs := by
    intro v hv; rw [hbk] at hv
    rcases List.mem_cons.mp hv with rfl | hv
    · exact (maxFold_ge xs _).1
    · exact (maxFold_ge xs x).2 v hv
  simp only [gnuHashCount, hg, gnu_getField_buckets, hbk, listMax_natsVal, gnu_getNat_symoffset, bind, Except.bind]
  by_cases hempty : hs.length = 0
  · -- nothing is hashed: every bucket is 0
    have hnil : hs = [] := List.length_eq_zero_iff.mp hempty
    obtain ⟨b, _, hb⟩ := hval _ hmaxmem
    have h0 : maxFold x xs = 0 := by rw [hb, hnil]; simp [gnuFirst]
    have : (0 : Nat) < t.symoffset := F.so1
    simp only [h0, this, if_true]
    congr 1; have := F.son; omega
  · -- the group of the last hashed symbol starts at the largest bucket value
    have hlast : hs.length - 1 < hs.length := by omega
    cases hfi : hs.findIdx? (fun h => h % t.nbuckets == gnuBk t.nbuckets hs (hs.length - 1)) with
    | none =>
      have := List.findIdx?_eq_none_iff.mp hfi _ (List.getElem_mem hlast)
      rw [gnuBk_of_getElem? (List.getElem?_eq_getElem hlast)] at this
      simp at this
    | some f =>
      obtain ⟨hflt, hpf, hmin⟩ := List.findIdx?_eq_some_iff_getElem.mp hfi
      have hbf : gnuBk t.nbuckets hs f = gnuBk t.nbuckets hs (hs.length - 1) := by
        rw [gnuBk_of_getElem? (List.getElem?_eq_getElem hflt)]; simpa using hpf
      have hall : ∀ j, f ≤ j → j < hs.length → gnuBk t.nbuckets hs j = gnuBk t.nbuckets hs f := by
        intro j h1 h2
        rw [hbf]
        exact gnu_group F hfi (hs.length - 1) (by omega) hlast rfl j h1 (by omega)
      have hbstar : gnuBk t.nbuckets hs (hs.length - 1) < t.nbuckets := by
        unfold gnuBk; exact Nat.mod_lt _ F.nb
      -- the largest bucket value
      have hM : maxFold x xs = t.symoffset + f := by
        apply Nat.le_antisymm
        · obtain ⟨b, hb, hv⟩ := hval _ hmaxmem
          rw [hv]
          simp only [gnuFirst]
          cases hfb : hs.findIdx? (fun h => h % t.nbuckets == b) with
          | none => simp
          | some fb =>
            simp only
            obtain ⟨hfblt, hpfb, _⟩ := List.findIdx?_eq_some_iff_getElem.mp hfb
            by_cases hle : fb ≤ f
            · omega
            · exfalso
              have h1 := hall fb (by omega) hfblt
              rw [gnuBk_of_getElem? (List.getElem?_eq_getElem hfblt), hbf] at h1
              have hbeq : b = gnuBk t.nbuckets hs (hs.length - 1) := by
                rw [← h1]; have := hpfb; simp at this; exact this.symm
              rw [hbeq, hfi] at hfb
              have := Option.some.inj hfb
              omega
        · apply hmaxge
          have := F.buckets _ hbstar
          have hmem := List.mem_of_getElem? this
          simpa [gnuFirst, hfi] using hmem
      have hnlt : ¬ (t.symoffset + f < t.symoffset) := by omega
      simp only [hM, hnlt, if_false, hws]
      have hlastc : hs.length - 1 < t.chain.length := by rw [F.clen]; exact hlast
      have hlen := readHashWord_len (hread _ hlastc)
      have := gnuCountLoop_walk le data g.chainPos F hread hall (hs.length - f) f (data.length + 1) rfl
        (Nat.le_refl _) hflt (by omega)
      rw [show t.symoffset + f - t.symoffset = f by omega, this]
      congr 1; have := F.son; omega

end PyElf.Proofs
