/-
  The regenerated enum environment decodes attribute tags exactly as the Spec's tag tables name them.
-/
import PyElf.Model.Env
import PyElf.Spec.Attributes
import PyElf.Props.TieC20
namespace PyElf.Proofs
open PyElf

theorem foldl_decode_eq_nameIn (tbl : List (String × Int)) (t : Nat) (init : Option String) :
    tbl.foldl (fun acc (p : String × Int) => if p.2 = (t : Int) then some p.1 else acc) init
      = (match Spec.Attr.nameIn tbl t with
         | some k => some k
         | none => init) := by
  induction tbl generalizing init with
  | nil => rfl
  | cons p rest ih =>
    obtain ⟨k, x⟩ := p
    rw [List.foldl_cons, ih, Spec.Attr.nameIn]
    cases Spec.Attr.nameIn rest t with
    | some k' => rfl
    | none => by_cases h : x = (t : Int) <;> simp [h]

theorem decodeIn_eq_nameIn (tbl : List (String × Int)) (t : Nat) :
    Model.decodeIn tbl (t : Int) = Spec.Attr.nameIn tbl t := by
  have := foldl_decode_eq_nameIn tbl t none
  unfold Model.decodeIn
  rw [show (fun acc (x : String × Int) => match x with | (k, x) => if x = (t : Int) then some k else acc)
        = (fun acc (p : String × Int) => if p.2 = (t : Int) then some p.1 else acc) from rfl, this]
  cases Spec.Attr.nameIn tbl t <;> rfl

theorem genEnumDecode_of_table {tid : String} {tbl : List (String × Int)}
    (h : (Gen.tables.find? (·.1 == tid)).map (·.2.1) = some tbl) (t : Nat) :
    Model.genEnumDecode tid (t : Int) = Spec.Attr.nameIn tbl t := by
  unfold Model.genEnumDecode
  cases hf : Gen.tables.find? (·.1 == tid) with
  | none => simp [hf] at h
  | some x =>
    obtain ⟨a, b, c⟩ := x
    simp [hf] at h
    subst h
    exact decodeIn_eq_nameIn b t

/-- `Model.elfEnv` names ARM attribute tags as the ABI's table does -/
theorem genEnumDecode_arm (t : Nat) :
    Model.elfEnv.enumDecode "ENUM_ATTR_TAG_ARM" (t : Int) = Spec.Attr.tagName .arm t :=
  genEnumDecode_of_table Props.TieC20.arm_tag_table t

/-- `Model.elfEnv` names RISC-V attribute tags as the psABI's table does -/
theorem genEnumDecode_riscv (t : Nat) :
    Model.elfEnv.enumDecode "ENUM_ATTR_TAG_RISCV" (t : Int) = Spec.Attr.tagName .riscv t :=
  genEnumDecode_of_table Props.TieC20.riscv_tag_table t

end PyElf.Proofs
