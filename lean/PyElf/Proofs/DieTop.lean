/-
  C04 helper lemmas, part 9: the unit's top entry (`get_top_DIE`: parse with `translate_indirect`
  off, then `_translate_indirect_attributes`), and the end-to-end discharge of the translation
  hypotheses from "every attribute value resolves" (`Spec.C04.resolve … = some _`).
-/
import PyElf.Spec.DieTree
import PyElf.Model.Die
import PyElf.Proofs.DieEntry
import PyElf.Proofs.DieUnit
import PyElf.Proofs.DieValues
namespace PyElf.Proofs.C04
open PyElf PyElf.Spec PyElf.Spec.C04 PyElf.Model PyElf.Model.C04 PyElf.Proofs

/-- is this attribute in one of the index forms `_translate_indirect_attributes` re-translates? -/
def isIndex (a : AttrObs) : Bool :=
  match a.form with
  | .str f => indexForms.contains f
  | _ => false

/-- the re-translated attribute: its value replaced by `g a` when it is in an index form -/
def upd (g : AttrObs → Val) (a : AttrObs) : AttrObs := if isIndex a then { a with value := g a } else a

theorem upd_name (g : AttrObs → Val) (a : AttrObs) : (upd g a).name = a.name := by
  unfold upd; split <;> rfl

theorem attrSet_mid : ∀ (pre : List AttrObs) (x a : AttrObs) (post : List AttrObs),
    (∀ b ∈ pre, (b.name == a.name) = false) → (x.name == a.name) = true →
    attrSet (pre ++ x :: post) a = pre ++ a :: post := by
  intro pre
  induction pre with
  | nil => intro x a post _ hx; simp [attrSet, hx]
  | cons p pre ih =>
    intro x a post hpre hx
    have hp := hpre p (by simp)
    simp only [List.cons_append, attrSet, hp, Bool.false_eq_true, if_false]
    rw [ih x a post (fun b hb => hpre b (by simp [hb])) hx]

theorem namesDistinct_mid : ∀ (pre : List AttrObs) (a : AttrObs) (post : List AttrObs),
    NamesDistinct (pre ++ a :: post) → ∀ b ∈ pre, (b.name == a.name) = false := by
  intro pre
  induction pre with
  | nil => intro a post _ b hb; cases hb
  | cons p pre ih =>
    intro a post h b hb
    simp only [List.cons_append, NamesDistinct] at h
    rcases List.mem_cons.1 hb with rfl | hb'
    · exact h.1 a (by simp)
    · exact ih a post h.2 b hb'

/-- `_translate_indirect_attributes`: every attribute in an index form gets the value `g` assigns,
    provided the translation at the moment the loop reaches it (with the dict as it then is) yields it -/
theorem retranslate_spec (U : UnitCtx) (g : AttrObs → Val) :
    ∀ (post pre : List AttrObs), NamesDistinct (pre ++ post) → (∀ a ∈ post, (a.name == a.name) = true) →
      (∀ p1 a p2, post = p1 ++ a :: p2 → isIndex a = true →
        translate U (some ((pre ++ p1).map (upd g) ++ a :: p2)) a.form a.raw = .ok (g a)) →
      retranslate U post (pre.map (upd g) ++ post) = .ok ((pre ++ post).map (upd g)) := by
  intro post
  induction post with
  | nil => intro pre _ _ _; simp [retranslate]
  | cons a post ih =>
    intro pre hd hrefl htr
    have hnext : ∀ cur, cur = (pre ++ [a]).map (upd g) ++ post →
        retranslate U post cur = .ok ((pre ++ a :: post).map (upd g)) := by
      intro cur hc
      rw [hc]
      have := ih (pre ++ [a]) (by simpa [List.append_assoc] using hd) (fun x hx => hrefl x (by simp [hx]))
        (fun p1 x p2 hp hx => by
          have := htr (a :: p1) x p2 (by rw [hp]; rfl) hx
          simpa [List.append_assoc] using this)
      simpa [List.append_assoc] using this
    rw [retranslate]
    by_cases hi : isIndex a = true
    · have ht := htr [] a post rfl hi
      simp only [List.append_nil] at ht
      have hform : ∃ f, a.form = .str f ∧ indexForms.contains f = true := by
        unfold isIndex at hi
        split at hi
        · rename_i f hf; exact ⟨f, hf, hi⟩
        · cases hi
      obtain ⟨f, hf, hc⟩ := hform
      have hpre : ∀ b ∈ pre.map (upd g), (b.name == ({ a with value := g a } : AttrObs).name) = false := by
        intro b hb
        obtain ⟨b0, hb0, rfl⟩ := List.mem_map.1 hb
        rw [upd_name]
        exact namesDistinct_mid pre a post hd b0 hb0
      simp only [hf, hc, if_true, bind, Except.bind]
      rw [← hf, ht]
      simp only
      rw [attrSet_mid _ a _ post hpre (hrefl a (by simp))]
      apply hnext
      simp [upd, hi]
    · have hi' : isIndex a = false := by simpa using hi
      have hu : upd g a = a := by simp [upd, hi']
      cases hform : a.form with
      | str f =>
        have hc : indexForms.contains f = false := by simpa [isIndex, hform] using hi'
        simp only [hc, Bool.false_eq_true, if_false]
        apply hnext
        simp [hu]
      | _ =>
        simp only
        apply hnext
        simp [hu]

/-! ### from "every value resolves" to the translation hypotheses -/

/-- every attribute value that has an operand resolves (`Spec.C04.resolve … = some _`: the string /
    table reference does not dangle) -/
def ResolvesAll (c : DwarfCfg) (secs : Sections) (b : Bases) (nm : Names) : List AttrSpec → List AttrV → Prop
  | s :: ss, a :: as =>
    (s.form ≠ FORM_implicit_const → (resolve c secs b (nm.form a.form) (rawVal a.op)).isSome = true)
      ∧ ResolvesAll c secs b nm ss as
  | _, _ => True

/-- the resolved value (`none` never shows where `ResolvesAll` holds) -/
def rho (c : DwarfCfg) (secs : Sections) (b : Bases) : Val → Val → Val := fun f r => (resolve c secs b f r).getD .none
/-- … while the index forms are still raw -/
def rho0 (c : DwarfCfg) (secs : Sections) (b : Bases) : Val → Val → Val := fun f r => (preResolve c secs b f r).getD .none

def isNumCls : Option Cls → Bool
  | some (.fixed _) | some .u24 | some .uleb => true
  | _ => false

theorem intForms_cls (c : DwarfCfg) :
    formCodes.all (fun k => !(intForms.contains ((formName k).getD "")) || isNumCls (formClass c k)) = true := by
  cases c; rfl

theorem raw_int_of_intForm {c : DwarfCfg} {k : Nat} {cl : Cls} {op : Operand} (hcl : formClass c k = some cl)
    (hwf : wfOperand cl op = true) (hm : (formName k).getD "" ∈ intForms) : ∃ n : Nat, rawVal op = .int n := by
  have hk := formClass_some_mem hcl
  have h := List.all_eq_true.1 (intForms_cls c) k hk
  have hc : intForms.contains ((formName k).getD "") = true := by simpa using hm
  rw [hc, hcl] at h
  simp only [Bool.not_true, Bool.false_or] at h
  cases cl <;> simp only [isNumCls, Bool.false_eq_true] at h <;> cases op <;>
    first | (simp [wfOperand] at hwf; done) | exact ⟨_, rfl⟩

/-- a well-formed attribute with an operand: its final form has an encoding class the operand fits -/
theorem wfAttr_cls {c : DwarfCfg} {s : AttrSpec} {a : AttrV} (h : wfAttr c s a = true) (hC : s.form ≠ FORM_implicit_const) :
    ∃ cl, formClass c a.form = some cl ∧ wfOperand cl a.op = true := by
  unfold wfAttr at h
  by_cases hI : s.form = FORM_indirect
  · rw [if_pos hI] at h
    simp only [Bool.and_eq_true] at h
    cases hcl : formClass c a.form with
    | none => rw [hcl] at h; cases h.2
    | some cl => rw [hcl] at h; exact ⟨cl, rfl, h.2⟩
  · rw [if_neg hI, if_neg hC] at h
    simp only [Bool.and_eq_true] at h
    cases hcl : formClass c a.form with
    | none => rw [hcl] at h; cases h.2
    | some cl => rw [hcl] at h; exact ⟨cl, rfl, h.2⟩

theorem wfAttr_implicit {c : DwarfCfg} {s : AttrSpec} {a : AttrV} (h : wfAttr c s a = true) (hC : s.form = FORM_implicit_const) :
    a.form = FORM_implicit_const := by
  unfold wfAttr at h
  have hI : ¬ s.form = FORM_indirect := by rw [hC]; decide
  rw [if_neg hI, if_pos hC] at h
  simp only [Bool.and_eq_true, beq_iff_eq] at h
  rw [h.1.2, hC]

theorem transOK_some {U : UnitCtx} {c : DwarfCfg} {nm : Names} {secs : Sections} (hU : UnitOK U c nm)
    (hS : SecsOK U c secs) {top : List AttrObs} {b : Bases} (hB : BasesOK top b) :
    ∀ (specs : List AttrSpec) (attrs : List AttrV), wfAttrs c specs attrs = true →
      ResolvesAll c secs b nm specs attrs → TransOK U (some top) nm (rho c secs b) specs attrs := by
  intro specs
  induction specs with
  | nil => intro attrs _ _; cases attrs <;> trivial
  | cons s ss ih =>
    intro attrs hwf hres
    cases attrs with
    | nil => trivial
    | cons a as =>
      simp only [wfAttrs, Bool.and_eq_true] at hwf
      refine ⟨fun hC => ?_, ih as hwf.2 hres.2⟩
      obtain ⟨cl, hcl, hop⟩ := wfAttr_cls hwf.1 hC
      have hfa := hU.formNames a.form (formClass_some_mem hcl)
      have hsome := hres.1 hC
      rw [hfa] at hsome ⊢
      cases hr : resolve c secs b (.str ((formName a.form).getD "")) (rawVal a.op) with
      | none => rw [hr] at hsome; cases hsome
      | some v =>
        rw [translate_resolve hU hS hB _ _ v (fun hm => raw_int_of_intForm hcl hop hm) hr]
        simp [rho, hr]

theorem transOK_none {U : UnitCtx} {c : DwarfCfg} {nm : Names} {secs : Sections} (hU : UnitOK U c nm)
    (hS : SecsOK U c secs) (b : Bases) :
    ∀ (specs : List AttrSpec) (attrs : List AttrV), wfAttrs c specs attrs = true →
      ResolvesAll c secs b nm specs attrs → TransOK U none nm (rho0 c secs b) specs attrs := by
  intro specs
  induction specs with
  | nil => intro attrs _ _; cases attrs <;> trivial
  | cons s ss ih =>
    intro attrs hwf hres
    cases attrs with
    | nil => trivial
    | cons a as =>
      simp only [wfAttrs, Bool.and_eq_true] at hwf
      refine ⟨fun hC => ?_, ih as hwf.2 hres.2⟩
      obtain ⟨cl, hcl, hop⟩ := wfAttr_cls hwf.1 hC
      have hfa := hU.formNames a.form (formClass_some_mem hcl)
      have hsome := hres.1 hC
      rw [hfa] at hsome ⊢
      cases hr : resolve c secs b (.str ((formName a.form).getD "")) (rawVal a.op) with
      | none => rw [hr] at hsome; cases hsome
      | some v =>
        have hp : preResolve c secs b (.str ((formName a.form).getD "")) (rawVal a.op)
            = some (if indexForms.contains ((formName a.form).getD "") then rawVal a.op else v) := by
          unfold preResolve
          simp only [hr]
          split <;> rfl
        rw [translate_none hS b _ _ _ (fun hm => raw_int_of_intForm hcl hop hm) hp]
        simp [rho0, hp]

/-! ### the base attributes of the top entry -/

/-- the dict `l` has, under the attribute name `name`, an entry of value `v` that is not in an index form -/
def BaseAt (l : List AttrObs) (name : String) (v : Nat) : Prop :=
  ∃ x, l.find? (fun y => y.name == Val.str name) = some x ∧ x.value = .int v ∧ isIndex x = false

theorem getBaseOffset_of_baseAt {l : List AttrObs} {name : String} {v : Nat} (h : BaseAt l name v) :
    getBaseOffset l name = .ok (.int v) := by
  obtain ⟨x, hf, hv, _⟩ := h
  simp [getBaseOffset, attrGet?, hf, hv]

/-- re-translating a prefix of the dict does not disturb an entry that is not in an index form -/
theorem find_partial_upd (g : AttrObs → Val) (k : Val) (x : AttrObs) (hx : isIndex x = false) :
    ∀ (p1 rest : List AttrObs), (p1 ++ rest).find? (fun y => y.name == k) = some x →
      (p1.map (upd g) ++ rest).find? (fun y => y.name == k) = some x := by
  intro p1
  induction p1 with
  | nil => intro rest h; simpa using h
  | cons y p1 ih =>
    intro rest h
    simp only [List.cons_append, List.map_cons, List.find?_cons, upd_name] at h ⊢
    cases hy : (y.name == k) with
    | true =>
      rw [hy] at h
      simp only [Option.some.injEq] at h
      subst h
      simp [upd, hx]
    | false =>
      rw [hy] at h
      exact ih rest h

theorem baseAt_partial (g : AttrObs → Val) {p1 rest : List AttrObs} {name : String} {v : Nat}
    (h : BaseAt (p1 ++ rest) name v) : BaseAt (p1.map (upd g) ++ rest) name v := by
  obtain ⟨x, hf, hv, hi⟩ := h
  exact ⟨x, find_partial_upd g _ x hi p1 rest hf, hv, hi⟩

/-- the registry presents exactly the four base attributes under their standard names -/
structure BaseNames (nm : Names) : Prop where
  strOffsets : ∀ k, (nm.at_ k == Val.str "DW_AT_str_offsets_base") = (k == 0x72)
  addr : ∀ k, (nm.at_ k == Val.str "DW_AT_addr_base") = (k == 0x73)
  rnglists : ∀ k, (nm.at_ k == Val.str "DW_AT_rnglists_base") = (k == 0x74)
  loclists : ∀ k, (nm.at_ k == Val.str "DW_AT_loclists_base") = (k == 0x8c)

theorem sec_offset_name : (formName 0x17).getD "" = "DW_FORM_sec_offset" := rfl

theorem baseAt_of_baseOf {U : UnitCtx} {c : DwarfCfg} {nm : Names} (hU : UnitOK U c nm) (ρ : Val → Val → Val)
    (hρ : ∀ v : Nat, ρ (.str "DW_FORM_sec_offset") (.int v) = .int v) (k : Nat) (name : String)
    (hname : ∀ j, (nm.at_ j == Val.str name) = (j == k)) :
    ∀ (specs : List AttrSpec) (attrs : List AttrV) (off v : Nat), wfAttrs c specs attrs = true →
      baseOf k specs attrs = some v → BaseAt (attrObs nm c ρ off specs attrs) name v := by
  intro specs
  induction specs with
  | nil => intro attrs off v _ h; cases attrs <;> simp [baseOf] at h
  | cons s ss ih =>
    intro attrs off v hwf h
    cases attrs with
    | nil => simp [baseOf] at h
    | cons a as =>
      simp only [wfAttrs, Bool.and_eq_true] at hwf
      unfold baseOf at h
      by_cases hk : s.name = k
      · rw [if_pos hk] at h
        have hform : a.form = 0x17 ∧ a.op = .nat v := by
          split at h
          · rename_i v' hf ho; injection h with h; subst h; exact ⟨hf, ho⟩
          · cases h
        have hC : s.form ≠ FORM_implicit_const := by
          intro hC
          have := wfAttr_implicit hwf.1 hC
          rw [hform.1] at this; cases this
        have hfn := hU.formNames 0x17 (by decide)
        rw [sec_offset_name] at hfn
        refine ⟨⟨nm.at_ s.name, nm.form a.form, ρ (nm.form a.form) (rawVal a.op), rawVal a.op, off⟩, ?_, ?_, ?_⟩
        · simp [attrObs, hC, hname, hk]
        · simp [hform.1, hform.2, hfn, rawVal, hρ]
        · simp only [isIndex, hform.1, hfn]; decide
      · rw [if_neg hk] at h
        obtain ⟨x, hf, hv, hi⟩ := ih as (off + attrLen c a) v hwf.2 h
        refine ⟨x, ?_, hv, hi⟩
        have hb : (nm.at_ s.name == Val.str name) = false := by rw [hname]; simpa using hk
        simp only [attrObs, List.find?_cons, hb]
        exact hf

theorem resolve_sec_offset (c : DwarfCfg) (secs : Sections) (b : Bases) (v : Int) :
    resolve c secs b (.str "DW_FORM_sec_offset") (.int v) = some (.int v) := by
  unfold resolve
  split
  · rename_i e _; injection e with e; exact absurd e (by decide)
  · rename_i e _; injection e with e; exact absurd e (by decide)
  · rename_i e _; injection e with e; exact absurd e (by decide)
  · rename_i e; injection e with e; exact absurd e (by decide)
  · rename_i f w _ _ _ _ e1 e2
    injection e1 with e1; injection e2 with e2; subst e1 e2
    rw [if_neg (by decide), if_neg (by decide), if_neg (by decide), if_neg (by decide)]
  · rfl

theorem rho_sec_offset (c : DwarfCfg) (secs : Sections) (b : Bases) (v : Nat) :
    rho c secs b (.str "DW_FORM_sec_offset") (.int v) = .int v := by
  simp only [rho, resolve_sec_offset, Option.getD_some]

theorem rho0_sec_offset (c : DwarfCfg) (secs : Sections) (b : Bases) (v : Nat) :
    rho0 c secs b (.str "DW_FORM_sec_offset") (.int v) = .int v := by
  unfold rho0 preResolve
  simp only
  rw [if_neg (by decide), resolve_sec_offset, Option.getD_some]

/-- the bases of the node, found in the dict of its attributes (for any value function that leaves
    DW_FORM_sec_offset alone) -/
theorem basesOK_attrObs {U : UnitCtx} {c : DwarfCfg} {nm : Names} (hU : UnitOK U c nm) (hbn : BaseNames nm)
    (ρ : Val → Val → Val) (hρ : ∀ v : Nat, ρ (.str "DW_FORM_sec_offset") (.int v) = .int v) (n : Node) (off : Nat)
    (hwf : wfAttrs c n.decl.specs n.attrs = true) :
    (∀ v, (basesOf n).strOffsets = some v → BaseAt (attrObs nm c ρ off n.decl.specs n.attrs) "DW_AT_str_offsets_base" v) ∧
    (∀ v, (basesOf n).addr = some v → BaseAt (attrObs nm c ρ off n.decl.specs n.attrs) "DW_AT_addr_base" v) ∧
    (∀ v, (basesOf n).loclists = some v → BaseAt (attrObs nm c ρ off n.decl.specs n.attrs) "DW_AT_loclists_base" v) ∧
    (∀ v, (basesOf n).rnglists = some v → BaseAt (attrObs nm c ρ off n.decl.specs n.attrs) "DW_AT_rnglists_base" v) :=
  ⟨fun v h => baseAt_of_baseOf hU ρ hρ 0x72 _ hbn.strOffsets _ _ off v hwf h,
   fun v h => baseAt_of_baseOf hU ρ hρ 0x73 _ hbn.addr _ _ off v hwf h,
   fun v h => baseAt_of_baseOf hU ρ hρ 0x8c _ hbn.loclists _ _ off v hwf h,
   fun v h => baseAt_of_baseOf hU ρ hρ 0x74 _ hbn.rnglists _ _ off v hwf h⟩

/-! ### `get_top_DIE` -/

theorem preResolve_not_index (c : DwarfCfg) (secs : Sections) (b : Bases) (f r : Val)
    (h : ∀ s, f = .str s → indexForms.contains s = false) : preResolve c secs b f r = resolve c secs b f r := by
  unfold preResolve
  split
  · rename_i s
    rw [if_neg (by rw [h s rfl]; simp)]
  · rename_i hx
    unfold resolve
    split <;> first | rfl | (rename_i e; exact absurd rfl (hx _)) | skip
    all_goals first | (exact absurd rfl (hx _)) | rfl

/-- the dict of the parsed top entry, re-translated entry by entry, is the dict of resolved values -/
theorem map_upd_attrObs {U : UnitCtx} {c : DwarfCfg} {nm : Names} (hU : UnitOK U c nm) (secs : Sections) (b : Bases) :
    ∀ (specs : List AttrSpec) (attrs : List AttrV) (off : Nat), wfAttrs c specs attrs = true →
      (attrObs nm c (rho0 c secs b) off specs attrs).map (upd fun a => rho c secs b a.form a.raw)
        = attrObs nm c (rho c secs b) off specs attrs := by
  intro specs
  induction specs with
  | nil => intro attrs off _; cases attrs <;> simp [attrObs]
  | cons s ss ih =>
    intro attrs off hwf
    cases attrs with
    | nil => simp [attrObs]
    | cons a as =>
      simp only [wfAttrs, Bool.and_eq_true] at hwf
      simp only [attrObs, List.map_cons, ih as _ hwf.2, List.cons.injEq, and_true]
      by_cases hC : s.form = FORM_implicit_const
      · have hform := wfAttr_implicit hwf.1 hC
        have hfn := hU.formNames _ mem_implicit
        have hni : isIndex ⟨nm.at_ s.name, nm.form a.form, Val.int s.const, Val.int s.const, off⟩ = false := by
          simp only [isIndex, hform, hfn]; decide
        simp [hC, upd, hni]
      · simp only [hC, if_false]
        unfold upd
        split
        · rfl
        · rename_i hi
          have hi' : isIndex ⟨nm.at_ s.name, nm.form a.form, rho0 c secs b (nm.form a.form) (rawVal a.op), rawVal a.op, off⟩
              = false := by simpa using hi
          have : preResolve c secs b (nm.form a.form) (rawVal a.op) = resolve c secs b (nm.form a.form) (rawVal a.op) := by
            apply preResolve_not_index
            intro s' hs'
            simpa [isIndex, hs'] using hi'
          simp [rho0, rho, this]

theorem mem_attrObs_facts {U : UnitCtx} {c : DwarfCfg} {nm : Names} (hU : UnitOK U c nm) (secs : Sections) (b : Bases)
    (ρ : Val → Val → Val) :
    ∀ (specs : List AttrSpec) (attrs : List AttrV) (off : Nat) (x : AttrObs), wfAttrs c specs attrs = true →
      ResolvesAll c secs b nm specs attrs → x ∈ attrObs nm c ρ off specs attrs → isIndex x = true →
      ∃ name, x.form = .str name ∧ (name ∈ intForms → ∃ n : Nat, x.raw = .int n)
        ∧ (resolve c secs b x.form x.raw).isSome = true := by
  intro specs
  induction specs with
  | nil => intro attrs off x _ _ hx; cases attrs <;> simp [attrObs] at hx
  | cons s ss ih =>
    intro attrs off x hwf hres hx hi
    cases attrs with
    | nil => simp [attrObs] at hx
    | cons a as =>
      simp only [wfAttrs, Bool.and_eq_true] at hwf
      simp only [attrObs, List.mem_cons] at hx
      rcases hx with rfl | hx
      · by_cases hC : s.form = FORM_implicit_const
        · have hform := wfAttr_implicit hwf.1 hC
          have hfn := hU.formNames _ mem_implicit
          simp only [isIndex, hform, hfn] at hi
          exact absurd hi (by decide)
        · obtain ⟨cl, hcl, hop⟩ := wfAttr_cls hwf.1 hC
          have hfa := hU.formNames a.form (formClass_some_mem hcl)
          refine ⟨(formName a.form).getD "", hfa, ?_, ?_⟩
          · intro hm
            simp only [hC, if_false]
            exact raw_int_of_intForm hcl hop hm
          · simp only [hC, if_false]
            exact hres.1 hC
      · exact ih as _ x hwf.2 hres.2 hx hi

/--
  `get_top_DIE()` on the encoded top entry of a unit: the entry with every value resolved — the index
  forms included, which are re-translated against the entry's own base attributes after it has been
  read (`_translate_indirect_attributes`, with the dict being updated as the loop goes).
-/
theorem getTopDIE_encoded {U : UnitCtx} {c : DwarfCfg} {nm : Names} {secs : Sections} (hU : UnitOK U c nm)
    (hS : SecsOK U c secs) (hat : ∀ k, (nm.at_ k == nm.at_ k) = true) (hbn : BaseNames nm) (n : Node)
    {rest : Bytes} {m : List (Nat × Val)} (hwf : wfNode c n = true) (hoff : U.cuDieOffset < 2 ^ 63)
    (hab : U.abbrevs = .ok m) (hdecl : mapGet? m n.decl.code = some (declVal nm n.decl))
    (hdist : DistinctAt nm n.decl.specs) (hres : ResolvesAll c secs (basesOf n) nm n.decl.specs n.attrs)
    (hd : U.data.drop U.cuDieOffset = encEntry c n ++ rest) :
    getTopDIE U = .ok (entryObs nm c (rho c secs (basesOf n)) U.cuDieOffset n) := by
  have hwa : wfAttrs c n.decl.specs n.attrs = true := by
    simp only [wfNode, Bool.and_eq_true] at hwf; exact hwf.2
  have hparse := parseDIE_encoded hU none (rho0 c secs (basesOf n)) n hwf hoff hab hdecl
    (transOK_none hU hS _ _ _ hwa hres) (namesDistinct_attrObs nm c _ _ _ _ hdist) hd
  have hbases := basesOK_attrObs hU hbn (rho0 c secs (basesOf n)) (rho0_sec_offset c secs _) n
    (U.cuDieOffset + n.codeLen) hwa
  have hre := retranslate_spec U (fun a => rho c secs (basesOf n) a.form a.raw)
    (attrObs nm c (rho0 c secs (basesOf n)) (U.cuDieOffset + n.codeLen) n.decl.specs n.attrs) []
    (by simpa using namesDistinct_attrObs nm c (rho0 c secs (basesOf n)) _ n.attrs (U.cuDieOffset + n.codeLen) hdist)
    (fun a ha => by
      obtain ⟨s', _, e⟩ := mem_attrObs_name nm c _ _ _ _ a ha
      rw [e]; exact hat _)
    (fun p1 a p2 hsplit hi => by
      have hmem : a ∈ attrObs nm c (rho0 c secs (basesOf n)) (U.cuDieOffset + n.codeLen) n.decl.specs n.attrs := by
        rw [hsplit]; simp
      obtain ⟨name, hf, hint, hsome⟩ := mem_attrObs_facts hU secs (basesOf n) _ _ _ _ a hwa hres hmem hi
      have hB : BasesOK (([] ++ p1).map (upd fun a => rho c secs (basesOf n) a.form a.raw) ++ a :: p2) (basesOf n) := by
        rw [List.nil_append]
        exact ⟨fun v hv => getBaseOffset_of_baseAt (baseAt_partial _ (by rw [← hsplit]; exact hbases.1 v hv)),
               fun v hv => getBaseOffset_of_baseAt (baseAt_partial _ (by rw [← hsplit]; exact hbases.2.1 v hv)),
               fun v hv => getBaseOffset_of_baseAt (baseAt_partial _ (by rw [← hsplit]; exact hbases.2.2.1 v hv)),
               fun v hv => getBaseOffset_of_baseAt (baseAt_partial _ (by rw [← hsplit]; exact hbases.2.2.2 v hv))⟩
      rw [hf] at hsome ⊢
      cases hr : resolve c secs (basesOf n) (.str name) a.raw with
      | none => rw [hr] at hsome; cases hsome
      | some v =>
        rw [translate_resolve hU hS hB name a.raw v hint hr]
        simp [rho, hr])
  simp only [List.map_nil, List.nil_append] at hre
  rw [map_upd_attrObs hU secs (basesOf n) _ _ _ hwa] at hre
  unfold getTopDIE
  simp only [hparse, bind, Except.bind, entryObs, hre, pure, Except.pure]

/-! ### the whole unit -/

mutual
theorem treeAll_imp_wf {c : DwarfCfg} {Q Q' : Node → Prop} (h : ∀ x, wfNode c x = true → Q x → Q' x) :
    ∀ t : Tree, wfTree c t = true → TreeAll Q t → TreeAll Q' t
  | .mk n kids nl, hwf, hq => by
    simp only [wfTree, Bool.and_eq_true] at hwf
    simp only [TreeAll] at hq ⊢
    refine ⟨h n hwf.1 hq.1, ?_⟩
    cases hk : n.decl.children with
    | false =>
      rw [hk] at hwf
      have : kids = [] := by simpa using hwf.2
      subst this; trivial
    | true =>
      rw [hk] at hwf
      simp only [if_true, Bool.and_eq_true] at hwf
      exact forestAll_imp_wf h kids hwf.2.1 hq.2
theorem forestAll_imp_wf {c : DwarfCfg} {Q Q' : Node → Prop} (h : ∀ x, wfNode c x = true → Q x → Q' x) :
    ∀ ts : List Tree, wfForest c ts = true → ForestAll Q ts → ForestAll Q' ts
  | [], _, _ => trivial
  | t :: ts, hwf, hq => by
    simp only [wfForest, Bool.and_eq_true] at hwf
    simp only [ForestAll] at hq ⊢
    exact ⟨treeAll_imp_wf h t hwf.1 hq.1, forestAll_imp_wf h ts hwf.2 hq.2⟩
end

/-- what the unit's tree must satisfy besides `wfTree`: each node's declaration is in the unit's
    abbreviation table under its code, its attribute names are distinct, its values resolve
    against the sections with the unit's bases `b` -/
def NodeWF (c : DwarfCfg) (secs : Sections) (b : Bases) (nm : Names) (m : List (Nat × Val)) (x : Node) : Prop :=
  mapGet? m x.decl.code = some (declVal nm x.decl) ∧ DistinctAt nm x.decl.specs
    ∧ ResolvesAll c secs b nm x.decl.specs x.attrs

/-- `Covered` for an encoded unit, from well-formedness alone -/
theorem covered_unit_wf {U : UnitCtx} {c : DwarfCfg} {nm : Names} {secs : Sections} (hU : UnitOK U c nm)
    (hS : SecsOK U c secs) (hat : ∀ k, (nm.at_ k == nm.at_ k) = true) (hbn : BaseNames nm)
    {m : List (Nat × Val)} (hab : U.abbrevs = .ok m) (n : Node) (kids : List Tree) (nl : Nat) {rest : Bytes}
    (hwf : wfTree c (.mk n kids nl) = true)
    (hd : U.data.drop U.cuDieOffset = encTree c (.mk n kids nl) ++ rest) (hlen : U.data.length ≤ 2 ^ 63)
    (hnodes : TreeAll (NodeWF c secs (basesOf n) nm m) (.mk n kids nl)) :
    Covered (getCachedDIE U) (flattenUnit nm c (rho c secs (basesOf n)) (rho c secs (basesOf n)) U.cuDieOffset (.mk n kids nl)) := by
  have hwf0 := hwf
  simp only [wfTree, Bool.and_eq_true] at hwf0
  have hwn := hwf0.1
  have hwa : wfAttrs c n.decl.specs n.attrs = true := by
    simp only [wfNode, Bool.and_eq_true] at hwn; exact hwn.2
  simp only [TreeAll] at hnodes
  obtain ⟨⟨hdecl, hdist, hres⟩, hkids⟩ := hnodes
  have hd0 : U.data.drop U.cuDieOffset = encEntry c n ++
      ((if n.decl.children then encForest c kids ++ encUlebN nl 0 else []) ++ rest) := by
    rw [hd, encTree, List.append_assoc]
  have hoff : U.cuDieOffset < 2 ^ 63 := by
    have := lt_length_of_drop hd0 (encEntry_length_pos c n hwn); omega
  have htop := getTopDIE_encoded hU hS hat hbn n hwn hoff hab hdecl hdist hres hd0
  have hbases := basesOK_attrObs hU hbn (rho c secs (basesOf n)) (rho_sec_offset c secs _) n
    (U.cuDieOffset + n.codeLen) hwa
  have hB : BasesOK (entryObs nm c (rho c secs (basesOf n)) U.cuDieOffset n).attrs (basesOf n) :=
    ⟨fun v hv => getBaseOffset_of_baseAt (hbases.1 v hv), fun v hv => getBaseOffset_of_baseAt (hbases.2.1 v hv),
     fun v hv => getBaseOffset_of_baseAt (hbases.2.2.1 v hv), fun v hv => getBaseOffset_of_baseAt (hbases.2.2.2 v hv)⟩
  have hk' : ForestAll (NodeOK U (some (entryObs nm c (rho c secs (basesOf n)) U.cuDieOffset n).attrs) nm
      (rho c secs (basesOf n)) m) kids := by
    cases hk : n.decl.children with
    | false =>
      rw [hk] at hwf0
      have : kids = [] := by simpa using hwf0.2
      subst this; trivial
    | true =>
      rw [hk] at hwf0
      simp only [if_true, Bool.and_eq_true] at hwf0
      refine forestAll_imp_wf (fun x hwx hq => ?_) kids hwf0.2.1 hkids
      have hwax : wfAttrs c x.decl.specs x.attrs = true := by
        simp only [wfNode, Bool.and_eq_true] at hwx; exact hwx.2
      exact ⟨hq.1, transOK_some hU hS hB _ _ hwax hq.2.2, hq.2.1⟩
  exact covered_unit hU _ _ hab n kids nl hwf hd hlen htop hk'

end PyElf.Proofs.C04
