/-
  C04 helper lemmas, part 10: `iter_children()` / the children of every entry against the encoded nesting.
-/
import PyElf.Spec.DieTree
import PyElf.Model.Die
import PyElf.Proofs.DieIter
namespace PyElf.Proofs.C04
open PyElf PyElf.Spec PyElf.Spec.C04 PyElf.Model.C04 PyElf.Proofs

/-- the entries of the roots of a forest at `off` (what `iter_children` yields) -/
def rootsObs (nm : Names) (c : DwarfCfg) (ρ : Val → Val → Val) : Nat → List Tree → List DieObs
  | _, [] => []
  | off, t :: ts => entryObs nm c ρ off t.root :: rootsObs nm c ρ (off + (encTree c t).length) ts

theorem rootsObs_offsets (nm : Names) (c : DwarfCfg) (ρ : Val → Val → Val) :
    ∀ (ts : List Tree) (off : Nat), (rootsObs nm c ρ off ts).map (·.offset) = childOffsets c off ts := by
  intro ts
  induction ts with
  | nil => intro off; rfl
  | cons t ts ih => intro off; simp [rootsObs, childOffsets, ih, entryObs]

/-- `iter_children()` of the owner of the sibling list at `off`: the roots, then the terminator -/
theorem iterChildren_forest {nm : Names} (hnm : ∀ x, nm.tag x ≠ Val.none) (c : DwarfCfg) (ρ : Val → Val → Val)
    (G : Nat → R DieObs) (cuOff : Nat) :
    ∀ (ts : List Tree) (off nl fuel : Nat), countForest ts + 1 ≤ fuel →
      Covered G (flattenForest nm c ρ off ts ++ [nullObs (off + (encForest c ts).length) nl]) →
      sibsOkForest nm c ρ cuOff off ts = true →
      iterChildren G cuOff fuel off = .ok (rootsObs nm c ρ off ts, nullObs (off + (encForest c ts).length) nl)
  | [], off, nl, fuel, hf, hcov, _ => by
    obtain ⟨f, rfl⟩ : ∃ f, fuel = f + 1 := ⟨fuel - 1, by omega⟩
    have hG : G off = .ok (nullObs off nl) := by
      have := hcov (nullObs (off + (encForest c []).length) nl) (by simp [flattenForest])
      simpa [encForest, nullObs] using this
    simp [iterChildren, hG, bind, Except.bind, pure, Except.pure, nullObs, DieObs.isNull, rootsObs, encForest]
  | (.mk n kids nl') :: ts, off, nl, fuel, hf, hcov, hsib => by
    obtain ⟨f, rfl⟩ : ∃ f, fuel = f + 1 := ⟨fuel - 1, by omega⟩
    simp only [countForest] at hf
    have hG : G off = .ok (entryObs nm c ρ off n) := by
      have := hcov (entryObs nm c ρ off n) (by simp [flattenForest, flatten])
      simpa [entryObs] using this
    simp only [sibsOkForest, Bool.and_eq_true] at hsib
    obtain ⟨⟨hs1, hs2⟩, hs3⟩ := hsib
    have hlen : (encForest c (.mk n kids nl' :: ts)).length
        = (encTree c (.mk n kids nl')).length + (encForest c ts).length := by
      rw [encForest, List.length_append]
    have hcovR : Covered G (flattenForest nm c ρ (off + (encTree c (.mk n kids nl')).length) ts ++
        [nullObs (off + (encTree c (.mk n kids nl')).length + (encForest c ts).length) nl]) := by
      apply hcov.mono
      intro d hd
      rw [hlen, ← Nat.add_assoc]
      simp only [flattenForest, List.mem_append] at hd ⊢
      rcases hd with hd | hd
      · exact Or.inl (Or.inr hd)
      · exact Or.inr hd
    have hrest := iterChildren_forest hnm c ρ G cuOff ts (off + (encTree c (.mk n kids nl')).length) nl f
      (by simp only [Tree.count] at hf; omega) hcovR hs3
    rw [iterChildren]
    simp only [hG, bind, Except.bind, entryObs_isNull hnm, Bool.false_eq_true, if_false]
    rw [entryObs_kids]
    cases hk : n.decl.children with
    | false =>
      simp only [Bool.not_false, if_true, pure, Except.pure]
      have e : off + (entryObs nm c ρ off n).size = off + (encTree c (.mk n kids nl')).length := by
        rw [encTree_length, hk]; simp [entryObs]
      rw [e, hrest]
      simp [rootsObs, Tree.root, hlen, Nat.add_assoc, pure, Except.pure]
    | true =>
      simp only [Bool.not_true, Bool.false_eq_true, if_false]
      unfold sibOk at hs1
      rw [entryObs_kids, hk] at hs1
      simp only [Bool.not_true, Bool.false_or] at hs1
      split at hs1
      · rename_i h0
        rw [sib_none h0]
        simp only
        -- the terminator of the child's own list
        have hcovK : Covered G (flattenForest nm c ρ (off + (encEntry c n).length) kids ++
            [nullObs (off + (encEntry c n).length + (encForest c kids).length) nl']) := by
          apply hcov.mono
          intro d hd
          simp only [flattenForest, flatten, hk, if_true, List.mem_append, List.mem_cons] at hd ⊢
          rcases hd with hd | hd
          · exact Or.inl (Or.inl (Or.inr (Or.inl hd)))
          · exact Or.inl (Or.inl (Or.inr (Or.inr hd)))
        have hsK : sibsOkForest nm c ρ cuOff (off + (encEntry c n).length) kids = true := by
          simpa [sibsOk, hk] using hs2
        have hinner := iterChildren_forest hnm c ρ G cuOff kids (off + (encEntry c n).length) nl' f
          (by simp only [Tree.count, hk, if_true] at hf; omega) hcovK hsK
        have hsz : (entryObs nm c ρ off n).offset + (entryObs nm c ρ off n).size = off + (encEntry c n).length := rfl
        rw [hsz, hinner]
        simp only [pure, Except.pure]
        have e : (nullObs (off + (encEntry c n).length + (encForest c kids).length) nl').offset +
            (nullObs (off + (encEntry c n).length + (encForest c kids).length) nl').size
            = off + (encTree c (.mk n kids nl')).length := by
          rw [encTree_length, hk]; simp [nullObs, Nat.add_assoc]
        rw [e, hrest]
        simp [rootsObs, Tree.root, hlen, Nat.add_assoc, pure, Except.pure]
      · rename_i x h0
        rw [sib_some h0]
        have e : x = off + (encTree c (.mk n kids nl')).length := by simpa using hs1
        subst e
        simp only []
        rw [hrest]
        simp [rootsObs, Tree.root, hlen, Nat.add_assoc, pure, Except.pure]
      · cases hs1

/-- the children of the entry of a node at `off` -/
theorem children_of_node {nm : Names} (hnm : ∀ x, nm.tag x ≠ Val.none) (c : DwarfCfg) (ρ ρ' : Val → Val → Val)
    (G : Nat → R DieObs) (cuOff : Nat) (n : Node) (kids : List Tree) (nl off fuel : Nat)
    (hf : (Tree.mk n kids nl).count ≤ fuel) (hcov : Covered G (flatten nm c ρ off (.mk n kids nl)).tail)
    (hsib : sibsOk nm c ρ cuOff off (.mk n kids nl) = true) :
    childrenOf G cuOff fuel (entryObs nm c ρ' off n)
      = .ok (if n.decl.children then childOffsets c (off + (encEntry c n).length) kids else []) := by
  unfold childrenOf
  rw [entryObs_kids]
  cases hk : n.decl.children with
  | false => simp
  | true =>
    have hcov' : Covered G (flattenForest nm c ρ (off + (encEntry c n).length) kids ++
        [nullObs (off + (encEntry c n).length + (encForest c kids).length) nl]) := by
      simpa [flatten, hk] using hcov
    have hsib' : sibsOkForest nm c ρ cuOff (off + (encEntry c n).length) kids = true := by
      simpa [sibsOk, hk] using hsib
    have hsz : (entryObs nm c ρ' off n).offset + (entryObs nm c ρ' off n).size = off + (encEntry c n).length := rfl
    simp only [if_true, hsz]
    rw [iterChildren_forest hnm c ρ G cuOff kids _ nl fuel (by simp only [Tree.count, hk, if_true] at hf; omega) hcov' hsib']
    simp [bind, Except.bind, pure, Except.pure, rootsObs_offsets]

theorem childrenOf_null (G : Nat → R DieObs) (cuOff fuel off l : Nat) : childrenOf G cuOff fuel (nullObs off l) = .ok [] := by
  simp [childrenOf, nullObs, DieObs.kids]

mutual
/-- every entry of a tree, in `flatten` order: its children are the encoded ones -/
theorem children_tree {nm : Names} (hnm : ∀ x, nm.tag x ≠ Val.none) (c : DwarfCfg) (ρ : Val → Val → Val)
    (G : Nat → R DieObs) (cuOff fuel : Nat) :
    ∀ (t : Tree) (off : Nat), t.count ≤ fuel → Covered G (flatten nm c ρ off t).tail →
      sibsOk nm c ρ cuOff off t = true →
      (flatten nm c ρ off t).map (childrenOf G cuOff fuel) = (childLists c off t).map .ok
  | .mk n kids nl, off, hf, hcov, hsib => by
    have hhead := children_of_node hnm c ρ ρ G cuOff n kids nl off fuel hf hcov hsib
    rw [flatten, childLists, List.map_cons, hhead]
    cases hk : n.decl.children with
    | false => simp
    | true =>
      have hcov' : Covered G (flattenForest nm c ρ (off + (encEntry c n).length) kids ++
          [nullObs (off + (encEntry c n).length + (encForest c kids).length) nl]) := by
        simpa [flatten, hk] using hcov
      have hsib' : sibsOkForest nm c ρ cuOff (off + (encEntry c n).length) kids = true := by
        simpa [sibsOk, hk] using hsib
      have hkids := children_forest hnm c ρ G cuOff fuel kids (off + (encEntry c n).length)
        (by simp only [Tree.count, hk, if_true] at hf; omega)
        (hcov'.mono (fun d hd => List.mem_append_left _ hd)) hsib'
      simp [hkids, childrenOf_null]
theorem children_forest {nm : Names} (hnm : ∀ x, nm.tag x ≠ Val.none) (c : DwarfCfg) (ρ : Val → Val → Val)
    (G : Nat → R DieObs) (cuOff fuel : Nat) :
    ∀ (ts : List Tree) (off : Nat), countForest ts ≤ fuel → Covered G (flattenForest nm c ρ off ts) →
      sibsOkForest nm c ρ cuOff off ts = true →
      (flattenForest nm c ρ off ts).map (childrenOf G cuOff fuel) = (childListsForest c off ts).map .ok
  | [], _, _, _, _ => by simp [flattenForest, childListsForest]
  | t :: ts, off, hf, hcov, hsib => by
    simp only [countForest] at hf
    simp only [sibsOkForest, Bool.and_eq_true] at hsib
    have h1 := children_tree hnm c ρ G cuOff fuel t off (by omega)
      (hcov.mono (fun d hd => by
        simp only [flattenForest, List.mem_append]
        exact Or.inl (List.mem_of_mem_tail hd))) hsib.1.2
    have h2 := children_forest hnm c ρ G cuOff fuel ts (off + (encTree c t).length) (by omega)
      (hcov.mono (fun d hd => by
        simp only [flattenForest, List.mem_append]
        exact Or.inr hd)) hsib.2
    rw [flattenForest, childListsForest, List.map_append, List.map_append, h1, h2]
end

/-- every entry of a unit (top entry translated with `ρtop`) -/
theorem children_unit {nm : Names} (hnm : ∀ x, nm.tag x ≠ Val.none) (c : DwarfCfg) (ρtop ρ : Val → Val → Val)
    (G : Nat → R DieObs) (cuOff fuel : Nat) (t : Tree) (off : Nat) (hf : t.count ≤ fuel)
    (hcov : Covered G (flattenUnit nm c ρtop ρ off t)) (hsib : sibsOk nm c ρ cuOff off t = true) :
    (flattenUnit nm c ρtop ρ off t).map (childrenOf G cuOff fuel) = (childLists c off t).map .ok := by
  obtain ⟨n, kids, nl⟩ := t
  have hcovT : Covered G (flatten nm c ρ off (.mk n kids nl)).tail := by
    apply hcov.mono
    intro d hd
    simp only [flatten, List.tail_cons] at hd
    simp only [flattenUnit, List.mem_cons]
    exact Or.inr hd
  have h := children_tree hnm c ρ G cuOff fuel (.mk n kids nl) off hf hcovT hsib
  have hhead := children_of_node hnm c ρ ρtop G cuOff n kids nl off fuel hf hcovT hsib
  have hhead' := children_of_node hnm c ρ ρ G cuOff n kids nl off fuel hf hcovT hsib
  rw [flatten, List.map_cons] at h
  rw [flattenUnit, List.map_cons, hhead, ← hhead']
  exact h

/-! ### recorded parents against the encoded nesting -/

/-- the (parent, child) offset pairs a list of entries with recorded parents presents -/
def parentsOf (l : List (DieObs × Option Nat)) : List (Nat × Nat) :=
  l.filterMap fun x => x.2.map fun p => (p, x.1.offset)

theorem parentsOf_append (a b : List (DieObs × Option Nat)) : parentsOf (a ++ b) = parentsOf a ++ parentsOf b := by
  simp [parentsOf, List.filterMap_append]

mutual
theorem parentsOf_flattenP (nm : Names) (c : DwarfCfg) (ρ : Val → Val → Val) :
    ∀ (t : Tree) (parent : Option Nat) (off : Nat),
      parentsOf (flattenP nm c ρ parent off t)
        = (match parent with | some p => [(p, off)] | none => []) ++ parentPairs c off t
  | .mk n kids nl, parent, off => by
    rw [flattenP, parentPairs]
    have hhead : parentsOf [(entryObs nm c ρ off n, parent)] = (match parent with | some p => [(p, off)] | none => []) := by
      cases parent <;> simp [parentsOf, entryObs]
    rw [← List.singleton_append, parentsOf_append, hhead]
    congr 1
    cases hk : n.decl.children with
    | false => simp [parentsOf]
    | true =>
      simp only [if_true]
      rw [parentsOf_append, parentsOf_flattenForestP nm c ρ kids off (off + (encEntry c n).length)]
      simp [parentsOf, nullObs]
theorem parentsOf_flattenForestP (nm : Names) (c : DwarfCfg) (ρ : Val → Val → Val) :
    ∀ (ts : List Tree) (parent off : Nat),
      parentsOf (flattenForestP nm c ρ parent off ts) = parentPairsForest c parent off ts
  | [], _, _ => by simp [flattenForestP, parentPairsForest, parentsOf]
  | t :: ts, parent, off => by
    rw [flattenForestP, parentPairsForest, parentsOf_append, parentsOf_flattenP nm c ρ t (some parent) off,
      parentsOf_flattenForestP nm c ρ ts parent (off + (encTree c t).length)]
    simp
end

end PyElf.Proofs.C04
