/-
  Helper lemmas for C14 (notes and stabs).
-/
import PyElf.Core.Construct
import PyElf.Spec.Notes
import PyElf.Model.Notes
import PyElf.Proofs.Primitives
namespace PyElf.Proofs.Notes
open PyElf PyElf.Spec PyElf.Model PyElf.Proofs

/-! ### `roundup` as regenerated from utils.py is the padding formula of the standard -/

theorem or_mask (m k : Nat) : m ||| (2 ^ k - 1) = m / 2 ^ k * 2 ^ k + (2 ^ k - 1) := by
  have hpos : 0 < 2 ^ k := Nat.pos_of_ne_zero (by simp)
  have h1 : (m ||| (2 ^ k - 1)) / 2 ^ k = m / 2 ^ k := by
    rw [Nat.or_div_two_pow, Nat.div_eq_of_lt (a := 2 ^ k - 1) (by omega)]; simp
  have h2 : (m ||| (2 ^ k - 1)) % 2 ^ k = 2 ^ k - 1 := by
    rw [Nat.or_mod_two_pow, Nat.mod_eq_of_lt (a := 2 ^ k - 1) (by omega)]
    apply Nat.eq_of_testBit_eq
    intro i
    simp only [Nat.testBit_or, Nat.testBit_two_pow_sub_one, Nat.testBit_mod_two_pow]
    by_cases hi : i < k <;> simp [hi]
  have := Nat.div_add_mod (m ||| (2 ^ k - 1)) (2 ^ k)
  rw [h1, h2] at this
  rw [← this, Nat.mul_comm]

theorem gen_roundup_zero (k : Nat) : Gen.Pure.roundup (0 : Nat) (k : Int) = 0 := by
  have h : (PyInt.shl (1 : Int) (Int.toNat (k : Int)) - (1 : Int)) = Int.ofNat (2 ^ k - 1) := by
    have hpos : 0 < 2 ^ k := Nat.pos_of_ne_zero (by simp)
    simp only [PyInt.shl, Int.toNat_natCast, Int.one_mul, Int.ofNat_eq_natCast]
    omega
  unfold Gen.Pure.roundup
  rw [h]
  show PyInt.lor (Int.negSucc 0) (Int.ofNat (2 ^ k - 1)) + 1 = 0
  simp [PyInt.lor, PyInt.natAndNot]

theorem gen_roundup_succ (m k : Nat) :
    Gen.Pure.roundup ((m + 1 : Nat) : Int) (k : Int) = ((m / 2 ^ k * 2 ^ k + 2 ^ k : Nat) : Int) := by
  have hpos : 0 < 2 ^ k := Nat.pos_of_ne_zero (by simp)
  have h : (PyInt.shl (1 : Int) (Int.toNat (k : Int)) - (1 : Int)) = Int.ofNat (2 ^ k - 1) := by
    simp only [PyInt.shl, Int.toNat_natCast, Int.one_mul, Int.ofNat_eq_natCast]
    omega
  have h0 : ((m + 1 : Nat) : Int) - 1 = Int.ofNat m := by simp
  unfold Gen.Pure.roundup
  rw [h, h0]
  show Int.ofNat (m ||| (2 ^ k - 1)) + 1 = _
  rw [or_mask]
  simp only [Int.ofNat_eq_natCast]
  omega

/-- `roundup(n, k)` is `n` plus the distance to the next multiple of `2^k` -/
theorem roundup_eq (n k : Nat) : Model.roundup n k = n + padTo (2 ^ k) n := by
  have hpos : 0 < 2 ^ k := Nat.pos_of_ne_zero (by simp)
  unfold Model.roundup padTo
  cases n with
  | zero => rw [gen_roundup_zero]; simp
  | succ m =>
    rw [gen_roundup_succ]
    simp only [Int.toNat_natCast]
    have hd := Nat.div_add_mod m (2 ^ k)
    have hm := Nat.mod_lt m hpos
    have hmul : 2 ^ k * (m / 2 ^ k) = m / 2 ^ k * 2 ^ k := Nat.mul_comm _ _
    by_cases hlast : m % 2 ^ k = 2 ^ k - 1
    · have : (m + 1) % 2 ^ k = 0 := by
        have : m + 1 = (m / 2 ^ k + 1) * 2 ^ k := by rw [Nat.add_mul]; omega
        rw [this]; simp
      rw [this]; simp; omega
    · have : (m + 1) % 2 ^ k = m % 2 ^ k + 1 := by
        have : m + 1 = (m % 2 ^ k + 1) + 2 ^ k * (m / 2 ^ k) := by omega
        rw [this, Nat.add_mul_mod_self_left, Nat.mod_eq_of_lt (by omega)]
      rw [this, Nat.mod_eq_of_lt (by omega)]
      omega

theorem roundup2 (n : Nat) : Model.roundup n 2 = n + pad4 n := roundup_eq n 2
theorem roundup3 (n : Nat) : Model.roundup n 3 = n + padTo 8 n := roundup_eq n 3

theorem padTo_add_mul (a n : Nat) : padTo a (n + a) = padTo a n := by
  unfold padTo; simp

theorem zeros_length (n : Nat) : (zeros n).length = n := by simp [zeros]

/-! ### Latin-1 -/

theorem latin1_eq : Spec.latin1 = Model.bytes2str := rfl

theorem char_toNat_aux : ∀ n < 256, (Char.ofNat n).toNat = n := by decide +kernel

theorem char_inj_aux (n : Nat) (hn : n < 256) (m : Nat) (hm : m < 256) (h : Char.ofNat n = Char.ofNat m) : n = m := by
  rw [← char_toNat_aux n hn, ← char_toNat_aux m hm, h]

theorem bytes2str_inj {a b : Bytes} (h : Model.bytes2str a = Model.bytes2str b) : a = b := by
  unfold Model.bytes2str at h
  rw [String.ofList_inj] at h
  induction a generalizing b with
  | nil => cases b with
    | nil => rfl
    | cons y ys => simp at h
  | cons x xs ih =>
    cases b with
    | nil => simp at h
    | cons y ys =>
      simp only [List.map_cons, List.cons.injEq] at h
      have := char_inj_aux x.toNat x.toNat_lt y.toNat y.toNat_lt h.1
      rw [UInt8.toNat_inj] at this
      rw [this, ih h.2]

theorem gnu_str : Model.bytes2str gnuOwner = "GNU" := by decide

theorem str_beq (a b : String) : (Val.str a == Val.str b) = (a == b) := rfl

/-- `note['n_name'] == 'GNU'` decides whether the owner is "GNU" -/
theorem owner_is_gnu (o : Option Bytes) :
    (obsOwner o == Val.str "GNU") = decide (o = some gnuOwner) := by
  cases o with
  | none => simp [obsOwner]; rfl
  | some s =>
    simp only [obsOwner, latin1_eq, str_beq]
    by_cases h : s = gnuOwner
    · subst h; simp [gnu_str]
    · have : Model.bytes2str s ≠ "GNU" := fun e => h (bytes2str_inj (e.trans gnu_str.symm))
      simp [h, this]

/-! ### structs whose fields do not depend on the context -/

/-- name, construct, encoding, observation -/
structure FSpec where
  name : Option String
  con : Con
  enc : Bytes
  obs : Val

def GoodField (env : Env) (x : FSpec) : Prop :=
  ∀ (data : Bytes) (pos : Nat) (ctx : Fields) (rest : Bytes), data.drop pos = x.enc ++ rest →
    Con.parse env data x.con ctx pos = .ok (x.obs, pos + x.enc.length, ctx)

def toConFields : List FSpec → ConFields
  | [] => .nil
  | x :: xs => .cons x.name false x.con (toConFields xs)

def setAll (fs : Fields) : List FSpec → Fields
  | [] => fs
  | x :: xs =>
    match x.name with
    | some nm => setAll (Fields.set fs nm x.obs) xs
    | none => setAll fs xs

def encAll : List FSpec → Bytes
  | [] => []
  | x :: xs => x.enc ++ encAll xs

theorem parseFields_flat (env : Env) : ∀ (xs : List FSpec), (∀ x ∈ xs, GoodField env x) →
    ∀ (data : Bytes) (pos : Nat) (obj ctx : Fields) (rest : Bytes), data.drop pos = encAll xs ++ rest →
      Con.parseFields env data (toConFields xs) obj ctx pos
        = .ok (setAll obj xs, pos + (encAll xs).length, setAll ctx xs) := by
  intro xs
  induction xs with
  | nil => intro _ data pos obj ctx rest _; simp [toConFields, Con.parseFields, setAll, encAll]
  | cons x xs ih =>
    intro h data pos obj ctx rest hd
    have hx := h x (by simp)
    have hd1 : data.drop pos = x.enc ++ (encAll xs ++ rest) := by simpa [encAll, List.append_assoc] using hd
    have hd2 := drop_add_of_drop hd1
    rw [toConFields, Con.parseFields]
    simp only [Bool.false_eq_true, if_false]
    rw [hx data pos ctx _ hd1]
    simp only [bind, Except.bind]
    cases hn : x.name with
    | none =>
      simp only [setAll, hn]
      rw [ih (fun y hy => h y (by simp [hy])) data _ obj ctx rest hd2]
      simp [encAll, Nat.add_assoc]
    | some nm =>
      simp only [setAll, hn]
      rw [ih (fun y hy => h y (by simp [hy])) data _ _ _ rest hd2]
      simp [encAll, Nat.add_assoc]

theorem parse_struct_flat {env : Env} {xs : List FSpec} (h : ∀ x ∈ xs, GoodField env x)
    {data : Bytes} {pos : Nat} {ctx : Fields} {rest : Bytes} (hd : data.drop pos = encAll xs ++ rest) :
    Con.parse env data (.struct (toConFields xs)) ctx pos
      = .ok (.record (setAll [] xs), pos + (encAll xs).length, ctx) := by
  rw [Con.parse, parseFields_flat env xs h data pos [] [] rest hd]
  rfl

theorem structParse_flat {env : Env} {xs : List FSpec} (h : ∀ x ∈ xs, GoodField env x)
    {data : Bytes} {pos : Nat} {rest : Bytes} (hd : data.drop pos = encAll xs ++ rest) :
    structParse env (.struct (toConFields xs)) data pos = .ok (.record (setAll [] xs), pos + (encAll xs).length) := by
  unfold structParse
  rw [parse_struct_flat h hd]
  rfl

/-! ### good fields -/

theorem good_uint (env : Env) (nm : Option String) (le : Bool) (n v : Nat) (hv : v < 256 ^ n) :
    GoodField env ⟨nm, .uint n le, encNat le n v, .int v⟩ := by
  intro data pos ctx rest hd
  simp only at hd ⊢
  rw [parse_uint_ok hd (encNat_length le n v), decNat_encNat_of_lt le hv, encNat_length]

theorem good_enum (env : Env) (nm : Option String) (le : Bool) (n v : Nat) (hv : v < 256 ^ n)
    (tbl : String) (t : List (String × Int)) (ht : ∀ x, env.enumDecode tbl x = nameOf t x) :
    GoodField env ⟨nm, .enum (.uint n le) tbl true, encNat le n v, enumVal t v⟩ := by
  intro data pos ctx rest hd
  simp only at hd ⊢
  rw [Con.parse, parse_uint_ok hd (encNat_length le n v), decNat_encNat_of_lt le hv, encNat_length]
  simp only [bind, Except.bind, ht, enumVal]
  cases nameOf t (v : Int) <;> rfl

theorem good_bytes (env : Env) (nm : Option String) (k : Nat) (bs : Bytes) (hk : bs.length = k) :
    GoodField env ⟨nm, .bytesN (.lit k), bs, .bytes bs⟩ := by
  intro data pos ctx rest hd
  simp only at hd ⊢
  rw [Con.parse]
  simp only [Expr.eval, Val.asNat, Val.asInt, bind, Except.bind]
  simp only [Int.toNat_natCast, show ¬ ((k : Int) < 0) by omega, if_false]
  rw [readExact_ok hd hk]
  simp [pure, Except.pure, hk]

theorem good_pad (env : Env) (k : Nat) (bs : Bytes) (hk : bs.length = k) :
    GoodField env ⟨none, .padding (.lit k) false, bs, .bytes bs⟩ := by
  intro data pos ctx rest hd
  simp only at hd ⊢
  rw [Con.parse]
  simp only [Expr.eval, Val.asNat, Val.asInt, bind, Except.bind]
  simp only [Int.toNat_natCast, show ¬ ((k : Int) < 0) by omega, if_false]
  rw [readExact_ok hd hk]
  simp [pure, Except.pure, hk]

/-! ### the enum environment the theorems need: the four code tables are the Spec's -/

structure EnvOK (env : Env) : Prop where
  noteT : ∀ v, env.enumDecode "ENUM_NOTE_N_TYPE" v = nameOf noteTypes v
  coreT : ∀ v, env.enumDecode "ENUM_CORE_NOTE_N_TYPE" v = nameOf coreNoteTypes v
  abiOs : ∀ v, env.enumDecode "ENUM_NOTE_ABI_TAG_OS" v = nameOf abiOsNames v
  propT : ∀ v, env.enumDecode "ENUM_NOTE_GNU_PROPERTY_TYPE" v = nameOf propTypes v

theorem pow4 : (256 : Nat) ^ 4 = 2 ^ 32 := by decide
theorem pow1 : (256 : Nat) ^ 1 = 256 := by decide
theorem pow2 : (256 : Nat) ^ 2 = 2 ^ 16 := by decide

theorem readN_of_drop {data : Bytes} {pos : Nat} {a b : Bytes} (h : data.drop pos = a ++ b) :
    readN data pos a.length = a := by
  simp [readN, h]

/-! ### the note header -/

def nhdrSpec (c : ElfCfg) (namesz descsz type : Nat) : List FSpec :=
  [⟨some "n_namesz", .uint 4 c.le, encNat c.le 4 namesz, .int namesz⟩,
   ⟨some "n_descsz", .uint 4 c.le, encNat c.le 4 descsz, .int descsz⟩,
   ⟨some "n_type", .enum (.uint 4 c.le) (if c.core then "ENUM_CORE_NOTE_N_TYPE" else "ENUM_NOTE_N_TYPE") true,
      encNat c.le 4 type, enumVal (typeTable c.core) type⟩]

theorem nhdr_con (c : ElfCfg) (a b t : Nat) :
    (Spec.elfStructs c).Elf_Nhdr = .struct (toConFields (nhdrSpec c a b t)) := rfl

theorem nhdr_good {env : Env} (he : EnvOK env) (c : ElfCfg) {a b t : Nat}
    (ha : a < 2 ^ 32) (hb : b < 2 ^ 32) (ht : t < 2 ^ 32) : ∀ x ∈ nhdrSpec c a b t, GoodField env x := by
  intro x hx
  simp only [nhdrSpec, List.mem_cons, List.not_mem_nil, or_false] at hx
  rcases hx with rfl | rfl | rfl
  · exact good_uint env _ _ _ _ (by rw [pow4]; exact ha)
  · exact good_uint env _ _ _ _ (by rw [pow4]; exact hb)
  · cases hcore : c.core
    · exact good_enum env _ _ _ _ (by rw [pow4]; exact ht) _ _ he.noteT
    · exact good_enum env _ _ _ _ (by rw [pow4]; exact ht) _ _ he.coreT

theorem sizeof_nhdr (c : ElfCfg) : sizeofCon (Spec.elfStructs c).Elf_Nhdr = .ok 12 := rfl

/-! ### descriptor dispatch: the `if/elif` chain picks the grammar the Spec assigns -/

def modelKind (ty nm : Val) : DescKind :=
  if ty == .str "NT_GNU_ABI_TAG" && nm == .str "GNU" then .abiTag
  else if ty == .str "NT_GNU_BUILD_ID" && nm == .str "GNU" then .buildId
  else if ty == .str "NT_GNU_GOLD_VERSION" && nm == .str "GNU" then .goldVersion
  else if ty == .str "NT_PRPSINFO" then .prpsinfo
  else if ty == .str "NT_FILE" then .ntFile
  else if ty == .str "NT_GNU_PROPERTY_TYPE_0" && nm == .str "GNU" then .props
  else .raw

theorem decodeDesc_eq (S : ElfStructs) (env : Env) (cls : Nat) (data : Bytes) (ty nm : Val) (dd : Bytes) (dsz off : Nat) :
    decodeDesc S env cls data ty nm dd dsz off =
      match modelKind ty nm with
      | .abiTag => (do let (v, _) ← structParse env S.Elf_abi data off; return v)
      | .buildId => .ok (.str dd.toHex)
      | .goldVersion => .ok (.str (bytes2str dd))
      | .prpsinfo => (do let (v, _) ← structParse env S.Elf_Prpsinfo data off; return v)
      | .ntFile => (do let (v, _) ← structParse env S.Elf_Nt_File data off; return v)
      | .props => (do let props ← gnuPropLoop S env cls data (off + dsz) (dsz + 1) off []; return .list props)
      | .raw => .ok (.bytes dd) := by
  unfold decodeDesc modelKind
  by_cases h1 : (ty == Val.str "NT_GNU_ABI_TAG" && nm == Val.str "GNU") = true
  · simp only [h1, if_true, if_false, Bool.false_eq_true]
  simp only [h1, if_false, Bool.false_eq_true]
  by_cases h2 : (ty == Val.str "NT_GNU_BUILD_ID" && nm == Val.str "GNU") = true
  · simp only [h2, if_true, if_false, Bool.false_eq_true]
  simp only [h2, if_false, Bool.false_eq_true]
  by_cases h3 : (ty == Val.str "NT_GNU_GOLD_VERSION" && nm == Val.str "GNU") = true
  · simp only [h3, if_true, if_false, Bool.false_eq_true]
  simp only [h3, if_false, Bool.false_eq_true]
  by_cases h4 : (ty == Val.str "NT_PRPSINFO") = true
  · simp only [h4, if_true, if_false, Bool.false_eq_true]
  simp only [h4, if_false, Bool.false_eq_true]
  by_cases h5 : (ty == Val.str "NT_FILE") = true
  · simp only [h5, if_true, if_false, Bool.false_eq_true]
  simp only [h5, if_false, Bool.false_eq_true]
  by_cases h6 : (ty == Val.str "NT_GNU_PROPERTY_TYPE_0" && nm == Val.str "GNU") = true
  · simp only [h6, if_true, if_false, Bool.false_eq_true]
  simp only [h6, if_false, Bool.false_eq_true]

theorem nameOf_go_none (t : List (String × Int)) (v : Int) (h : ∀ p ∈ t, p.2 ≠ v) (acc : Option String) :
    t.foldl (fun acc (p : String × Int) => if p.2 = v then some p.1 else acc) acc = acc := by
  induction t generalizing acc with
  | nil => rfl
  | cons p t ih =>
    simp only [List.foldl_cons]
    rw [if_neg (h p (by simp))]
    exact ih (fun q hq => h q (by simp [hq])) acc

theorem enumVal_other (t : List (String × Int)) (v : Nat) (h : ∀ p ∈ t, p.2 ≠ (v : Int)) : enumVal t v = .int v := by
  have : nameOf t v = none := nameOf_go_none t v h none
  simp [enumVal, this]

theorem int_ne_str (n : Int) (s : String) : (Val.int n == Val.str s) = false := rfl
theorem none_ne_str (s : String) : (Val.none == Val.str s) = false := rfl

theorem note_type_cases (t : Nat) :
    (t = 1 ∨ t = 2 ∨ t = 3 ∨ t = 4 ∨ t = 5) ∨ (enumVal noteTypes t = .int t ∧ t ≠ 1 ∧ t ≠ 3 ∧ t ≠ 4 ∧ t ≠ 5) := by
  by_cases h : t = 1 ∨ t = 2 ∨ t = 3 ∨ t = 4 ∨ t = 5
  · exact Or.inl h
  · refine Or.inr ⟨enumVal_other _ _ ?_, by omega, by omega, by omega, by omega⟩
    intro p hp
    simp only [noteTypes, List.mem_cons, List.not_mem_nil, or_false] at hp
    rcases hp with rfl | rfl | rfl | rfl | rfl <;> simp only <;> omega

theorem core_type_cases (t : Nat) :
    (t = 1 ∨ t = 2 ∨ t = 3 ∨ t = 4 ∨ t = 6 ∨ t = 0x53494749 ∨ t = 0x46494c45)
      ∨ (enumVal coreNoteTypes t = .int t ∧ t ≠ 3 ∧ t ≠ 0x46494c45) := by
  by_cases h : t = 1 ∨ t = 2 ∨ t = 3 ∨ t = 4 ∨ t = 6 ∨ t = 0x53494749 ∨ t = 0x46494c45
  · exact Or.inl h
  · refine Or.inr ⟨enumVal_other _ _ ?_, by omega, by omega⟩
    intro p hp
    simp only [coreNoteTypes, List.mem_cons, List.not_mem_nil, or_false] at hp
    rcases hp with rfl | rfl | rfl | rfl | rfl | rfl | rfl <;> simp only <;> omega

theorem enumVal_note_1 : enumVal noteTypes 1 = .str "NT_GNU_ABI_TAG" := rfl
theorem enumVal_note_2 : enumVal noteTypes 2 = .str "NT_GNU_HWCAP" := rfl
theorem enumVal_note_3 : enumVal noteTypes 3 = .str "NT_GNU_BUILD_ID" := rfl
theorem enumVal_note_4 : enumVal noteTypes 4 = .str "NT_GNU_GOLD_VERSION" := rfl
theorem enumVal_note_5 : enumVal noteTypes 5 = .str "NT_GNU_PROPERTY_TYPE_0" := rfl
theorem enumVal_core_1 : enumVal coreNoteTypes 1 = .str "NT_PRSTATUS" := rfl
theorem enumVal_core_2 : enumVal coreNoteTypes 2 = .str "NT_FPREGSET" := rfl
theorem enumVal_core_3 : enumVal coreNoteTypes 3 = .str "NT_PRPSINFO" := rfl
theorem enumVal_core_4 : enumVal coreNoteTypes 4 = .str "NT_TASKSTRUCT" := rfl
theorem enumVal_core_6 : enumVal coreNoteTypes 6 = .str "NT_AUXV" := rfl
theorem enumVal_core_sig : enumVal coreNoteTypes 0x53494749 = .str "NT_SIGINFO" := rfl
theorem enumVal_core_file : enumVal coreNoteTypes 0x46494c45 = .str "NT_FILE" := rfl

/-- the code's dispatch on the decoded type name and owner is the Spec's on the numbers -/
theorem modelKind_spec (core : Bool) (o : Option Bytes) (t : Nat) :
    modelKind (enumVal (typeTable core) t) (obsOwner o) = descKind core o t := by
  unfold modelKind descKind typeTable
  simp only [owner_is_gnu]
  cases core
  · simp only [Bool.false_eq_true, if_false]
    rcases note_type_cases t with (rfl | rfl | rfl | rfl | rfl) | ⟨hv, h1, h3, h4, h5⟩
    · rw [enumVal_note_1]; by_cases g : o = some gnuOwner <;> simp [g, str_beq]
    · rw [enumVal_note_2]; by_cases g : o = some gnuOwner <;> simp [g, str_beq]
    · rw [enumVal_note_3]; by_cases g : o = some gnuOwner <;> simp [g, str_beq]
    · rw [enumVal_note_4]; by_cases g : o = some gnuOwner <;> simp [g, str_beq]
    · rw [enumVal_note_5]; by_cases g : o = some gnuOwner <;> simp [g, str_beq]
    · rw [hv]; simp [int_ne_str, h1, h3, h4, h5]
  · simp only [if_true]
    rcases core_type_cases t with (rfl | rfl | rfl | rfl | rfl | rfl | rfl) | ⟨hv, h3, hf⟩
    · rw [enumVal_core_1]; simp [str_beq]
    · rw [enumVal_core_2]; simp [str_beq]
    · rw [enumVal_core_3]; simp [str_beq]
    · rw [enumVal_core_4]; simp [str_beq]
    · rw [enumVal_core_6]; simp [str_beq]
    · rw [enumVal_core_sig]; simp [str_beq]
    · rw [enumVal_core_file]; simp [str_beq]
    · rw [hv]; simp [int_ne_str, h3, hf]

/-! ### flat descriptor grammars: ABI tag, prpsinfo -/

def abiSpec (le : Bool) (os ma mi ti : Nat) : List FSpec :=
  [⟨some "abi_os", .enum (.uint 4 le) "ENUM_NOTE_ABI_TAG_OS" true, encNat le 4 os, enumVal abiOsNames os⟩,
   ⟨some "abi_major", .uint 4 le, encNat le 4 ma, .int ma⟩,
   ⟨some "abi_minor", .uint 4 le, encNat le 4 mi, .int mi⟩,
   ⟨some "abi_tiny", .uint 4 le, encNat le 4 ti, .int ti⟩]

theorem abi_con (c : ElfCfg) (os ma mi ti : Nat) :
    (Spec.elfStructs c).Elf_abi = .struct (toConFields (abiSpec c.le os ma mi ti)) := rfl

theorem abi_ok {env : Env} (he : EnvOK env) (c : ElfCfg) {os ma mi ti : Nat}
    (h : (Desc.abiTag os ma mi ti).wf c = true) {data : Bytes} {off : Nat} {rest : Bytes}
    (hd : data.drop off = encDesc c (.abiTag os ma mi ti) ++ rest) :
    structParse env (Spec.elfStructs c).Elf_abi data off
      = .ok (obsDesc c (.abiTag os ma mi ti), off + (encDesc c (.abiTag os ma mi ti)).length) := by
  simp only [Desc.wf, Bool.and_eq_true, decide_eq_true_eq] at h
  obtain ⟨⟨⟨h1, h2⟩, h3⟩, h4⟩ := h
  have hg : ∀ x ∈ abiSpec c.le os ma mi ti, GoodField env x := by
    intro x hx
    simp only [abiSpec, List.mem_cons, List.not_mem_nil, or_false] at hx
    rcases hx with rfl | rfl | rfl | rfl
    · exact good_enum env _ _ _ _ (by rw [pow4]; exact h1) _ _ he.abiOs
    · exact good_uint env _ _ _ _ (by rw [pow4]; exact h2)
    · exact good_uint env _ _ _ _ (by rw [pow4]; exact h3)
    · exact good_uint env _ _ _ _ (by rw [pow4]; exact h4)
  have hd' : data.drop off = encAll (abiSpec c.le os ma mi ti) ++ rest := by
    rw [hd]; simp [encDesc, encAll, abiSpec, List.append_assoc]
  rw [abi_con c os ma mi ti, structParse_flat hg hd']
  simp [encDesc, encAll, abiSpec, setAll, Fields.set, obsDesc, encNat_length]

def prpsSpec (c : ElfCfg) (p : Prpsinfo) : List FSpec :=
  [⟨some "pr_state", .uint 1 c.le, encNat c.le 1 p.state, .int p.state⟩,
   ⟨some "pr_sname", .bytesN (.lit 1), [p.sname], .bytes [p.sname]⟩,
   ⟨some "pr_zomb", .uint 1 c.le, encNat c.le 1 p.zomb, .int p.zomb⟩,
   ⟨some "pr_nice", .uint 1 c.le, encNat c.le 1 p.nice, .int p.nice⟩]
  ++ (if c.cls = 64 then [⟨none, .padding (.lit 4) false, zeros 4, .bytes (zeros 4)⟩] else [])
  ++ [⟨some "pr_flag", .uint (c.cls / 8) c.le, encNat c.le (wordSize c) p.flag, .int p.flag⟩,
      ⟨some "pr_uid", (Spec.elfStructs c).Elf_ugid, encNat c.le (ugidSize c) p.uid, .int p.uid⟩,
      ⟨some "pr_gid", (Spec.elfStructs c).Elf_ugid, encNat c.le (ugidSize c) p.gid, .int p.gid⟩,
      ⟨some "pr_pid", .uint 4 c.le, encNat c.le 4 p.pid, .int p.pid⟩,
      ⟨some "pr_ppid", .uint 4 c.le, encNat c.le 4 p.ppid, .int p.ppid⟩,
      ⟨some "pr_pgrp", .uint 4 c.le, encNat c.le 4 p.pgrp, .int p.pgrp⟩,
      ⟨some "pr_sid", .uint 4 c.le, encNat c.le 4 p.sid, .int p.sid⟩,
      ⟨some "pr_fname", .bytesN (.lit 16), p.fname, .bytes p.fname⟩,
      ⟨some "pr_psargs", .bytesN (.lit 80), p.psargs, .bytes p.psargs⟩]

theorem ugid_con (c : ElfCfg) : (Spec.elfStructs c).Elf_ugid = .uint (ugidSize c) c.le := by
  show (if (c.cls = 32 && ugid16 c.mclass) = true then Con.uint 2 c.le else Con.uint 4 c.le) = _
  unfold ugidSize
  split <;> rfl

theorem prps_con (c : ElfCfg) (hc : c.cls = 32 ∨ c.cls = 64) (p : Prpsinfo) :
    (Spec.elfStructs c).Elf_Prpsinfo = .struct (toConFields (prpsSpec c p)) := by
  obtain ⟨le, cls, mclass, sol, core⟩ := c
  simp only at hc
  rcases hc with h | h <;> subst h <;> rfl

theorem prps_ok {env : Env} (c : ElfCfg) (hc : c.cls = 32 ∨ c.cls = 64) {p : Prpsinfo}
    (h : (Desc.prpsinfo p).wf c = true) {data : Bytes} {off : Nat} {rest : Bytes}
    (hd : data.drop off = encDesc c (.prpsinfo p) ++ rest) :
    structParse env (Spec.elfStructs c).Elf_Prpsinfo data off
      = .ok (obsDesc c (.prpsinfo p), off + (encDesc c (.prpsinfo p)).length) := by
  simp only [Desc.wf, Prpsinfo.wf, Bool.and_eq_true, decide_eq_true_eq] at h
  obtain ⟨⟨⟨⟨⟨⟨⟨⟨⟨⟨⟨h1, h2⟩, h3⟩, h4⟩, h5⟩, h6⟩, h7⟩, h8⟩, h9⟩, h10⟩, h11⟩, h12⟩ := h
  have hg : ∀ x ∈ prpsSpec c p, GoodField env x := by
    intro x hx
    simp only [prpsSpec, List.mem_append, List.mem_cons, List.not_mem_nil, or_false] at hx
    rcases hx with (((rfl | rfl | rfl | rfl) | hx) | (rfl | rfl | rfl | rfl | rfl | rfl | rfl | rfl | rfl))
    · exact good_uint env _ _ _ _ (by rw [pow1]; exact h1)
    · exact good_bytes env _ 1 _ rfl
    · exact good_uint env _ _ _ _ (by rw [pow1]; exact h2)
    · exact good_uint env _ _ _ _ (by rw [pow1]; exact h3)
    · split at hx
      · simp only [List.mem_cons, List.not_mem_nil, or_false] at hx
        subst hx
        exact good_pad env 4 _ (zeros_length 4)
      · simp at hx
    · exact good_uint env _ _ _ _ h4
    · rw [ugid_con]; exact good_uint env _ _ _ _ h5
    · rw [ugid_con]; exact good_uint env _ _ _ _ h6
    · exact good_uint env _ _ _ _ (by rw [pow4]; exact h7)
    · exact good_uint env _ _ _ _ (by rw [pow4]; exact h8)
    · exact good_uint env _ _ _ _ (by rw [pow4]; exact h9)
    · exact good_uint env _ _ _ _ (by rw [pow4]; exact h10)
    · exact good_bytes env _ 16 _ h11
    · exact good_bytes env _ 80 _ h12
  have henc : encDesc c (.prpsinfo p) = encAll (prpsSpec c p) := by
    rcases hc with hh | hh
    · simp [encDesc, encPrpsinfo, prpsSpec, encAll, hh, List.append_assoc]
    · simp [encDesc, encPrpsinfo, prpsSpec, encAll, hh, List.append_assoc]
  rw [henc] at hd ⊢
  rw [prps_con c hc p, structParse_flat hg hd]
  rcases hc with hh | hh
  · simp [prpsSpec, hh, setAll, Fields.set, obsDesc, obsPrpsinfo]
  · simp [prpsSpec, hh, setAll, Fields.set, obsDesc, obsPrpsinfo]

theorem pf_named {env : Env} {data : Bytes} {nm : String} {c : Con} {rest : ConFields} {obj ctx : Fields} {pos : Nat}
    {v : Val} {p : Nat} {ctx' : Fields} (h : Con.parse env data c ctx pos = .ok (v, p, ctx')) :
    Con.parseFields env data (.cons (some nm) false c rest) obj ctx pos
      = Con.parseFields env data rest (Fields.set obj nm v) (Fields.set ctx' nm v) p := by
  rw [Con.parseFields]; simp only [Bool.false_eq_true, if_false, h, bind, Except.bind]

theorem pf_anon {env : Env} {data : Bytes} {c : Con} {rest : ConFields} {obj ctx : Fields} {pos : Nat}
    {v : Val} {p : Nat} {ctx' : Fields} (h : Con.parse env data c ctx pos = .ok (v, p, ctx')) :
    Con.parseFields env data (.cons none false c rest) obj ctx pos = Con.parseFields env data rest obj ctx' p := by
  rw [Con.parseFields]; simp only [Bool.false_eq_true, if_false, h, bind, Except.bind]

/-! ### NT_FILE: two counted arrays -/

theorem arrayLoop_good {α : Type} (env : Env) (data : Bytes) (sub : Con) (enc : α → Bytes) (obs : α → Val)
    (ctx : Fields) (rest : Bytes) : ∀ (xs : List α),
    (∀ x ∈ xs, ∀ (pos : Nat) (rest' : Bytes), data.drop pos = enc x ++ rest' →
      Con.parse env data sub ctx pos = .ok (obs x, pos + (enc x).length, ctx)) →
    ∀ (pos : Nat) (acc : List Val), data.drop pos = xs.flatMap enc ++ rest →
      arrayLoop (fun p c => Con.parse env data sub c p) xs.length pos ctx acc
        = .ok (.list (acc.reverse ++ xs.map obs), pos + (xs.flatMap enc).length, ctx) := by
  intro xs
  induction xs with
  | nil => intro _ pos acc _; simp [arrayLoop]
  | cons x xs ih =>
    intro h pos acc hd
    have hd1 : data.drop pos = enc x ++ (xs.flatMap enc ++ rest) := by simpa [List.append_assoc] using hd
    simp only [List.length_cons, arrayLoop]
    rw [h x (by simp) pos _ hd1]
    simp only
    rw [ih (fun y hy => h y (by simp [hy])) _ _ (drop_add_of_drop hd1)]
    simp [Nat.add_assoc]

theorem parse_array {env : Env} {data : Bytes} {count : Expr} {sub : Con} {ctx : Fields} {pos n : Nat}
    (hc : count.eval ctx .none = .ok (.int (n : Nat))) :
    Con.parse env data (.array count sub) ctx pos
      = arrayLoop (fun p c => Con.parse env data sub c p) n pos ctx [] := by
  rw [Con.parse, hc]
  simp [Val.asInt, bind, Except.bind]

def fileMapSpec (c : ElfCfg) (m : FileMap) : List FSpec :=
  [⟨some "vm_start", .uint (c.cls / 8) c.le, encNat c.le (wordSize c) m.vmStart, .int m.vmStart⟩,
   ⟨some "vm_end", .uint (c.cls / 8) c.le, encNat c.le (wordSize c) m.vmEnd, .int m.vmEnd⟩,
   ⟨some "page_offset", .uint (c.cls / 8) c.le, encNat c.le (wordSize c) m.pageOffset, .int m.pageOffset⟩]

def entryCon (c : ElfCfg) : Con :=
  st [f "vm_start" (.uint (c.cls / 8) c.le), f "vm_end" (.uint (c.cls / 8) c.le), f "page_offset" (.uint (c.cls / 8) c.le)]

theorem entry_con (c : ElfCfg) (m : FileMap) : entryCon c = .struct (toConFields (fileMapSpec c m)) := rfl

theorem ntfile_con (c : ElfCfg) : (Spec.elfStructs c).Elf_Nt_File =
    .struct (.cons (some "num_map_entries") false (.uint (c.cls / 8) c.le)
      (.cons (some "page_size") false (.uint (c.cls / 8) c.le)
        (.cons (some "Elf_Nt_File_Entry") false (.array (ctx "num_map_entries") (entryCon c))
          (.cons (some "filename") false (.array (ctx "num_map_entries") .cstring) .nil)))) := rfl

theorem entry_parse {env : Env} (c : ElfCfg) (m : FileMap) (hm : m.wf c = true) (cx : Fields) {data : Bytes} {pos : Nat}
    {rest : Bytes} (hd : data.drop pos = encFileMap c m ++ rest) :
    Con.parse env data (entryCon c) cx pos = .ok (obsFileMap m, pos + (encFileMap c m).length, cx) := by
  simp only [FileMap.wf, Bool.and_eq_true, decide_eq_true_eq] at hm
  obtain ⟨⟨⟨h1, h2⟩, h3⟩, -⟩ := hm
  have hg : ∀ x ∈ fileMapSpec c m, GoodField env x := by
    intro x hx
    simp only [fileMapSpec, List.mem_cons, List.not_mem_nil, or_false] at hx
    rcases hx with rfl | rfl | rfl
    · exact good_uint env _ _ _ _ h1
    · exact good_uint env _ _ _ _ h2
    · exact good_uint env _ _ _ _ h3
  have hd' : data.drop pos = encAll (fileMapSpec c m) ++ rest := by
    rw [hd]; simp [encFileMap, encAll, fileMapSpec, List.append_assoc]
  rw [entry_con c m, parse_struct_flat hg hd']
  simp [encFileMap, encAll, fileMapSpec, setAll, Fields.set, obsFileMap]

theorem ntfile_ok {env : Env} (c : ElfCfg) (hc : c.cls = 32 ∨ c.cls = 64) {ps : Nat} {maps : List FileMap}
    (h : (Desc.ntFile ps maps).wf c = true) {data : Bytes} {off : Nat} {rest : Bytes}
    (hd : data.drop off = encDesc c (.ntFile ps maps) ++ rest) :
    structParse env (Spec.elfStructs c).Elf_Nt_File data off
      = .ok (obsDesc c (.ntFile ps maps), off + (encDesc c (.ntFile ps maps)).length) := by
  have _ := hc
  simp only [Desc.wf, Bool.and_eq_true, decide_eq_true_eq, List.all_eq_true] at h
  obtain ⟨⟨hps, hn⟩, hmaps⟩ := h
  simp only [wordSize] at hps hn
  have hd0 : data.drop off = encNat c.le (c.cls / 8) maps.length ++ (encNat c.le (c.cls / 8) ps
      ++ (maps.flatMap (encFileMap c) ++ (maps.flatMap (fun m => m.name ++ [0]) ++ rest))) := by
    rw [hd]; simp [encDesc, wordSize, List.append_assoc]
  have hd1 := drop_add_of_drop hd0
  have hd2 := drop_add_of_drop hd1
  have hd3 := drop_add_of_drop hd2
  have s1 := good_uint env (some "num_map_entries") c.le (c.cls / 8) maps.length hn data off [] _ hd0
  have s2 := good_uint env (some "page_size") c.le (c.cls / 8) ps hps data _
    [("num_map_entries", .int maps.length)] _ hd1
  simp only at s1 s2
  have s3 := arrayLoop_good env data (entryCon c) (encFileMap c) obsFileMap
    [("num_map_entries", .int maps.length), ("page_size", .int ps)] _ maps
    (fun m hm pos rest' hdm => entry_parse c m (hmaps m hm) _ hdm) _ [] hd2
  have s4 := arrayLoop_good env data .cstring (fun m : FileMap => m.name ++ [0]) (fun m => .bytes m.name)
    [("num_map_entries", .int maps.length), ("page_size", .int ps),
     ("Elf_Nt_File_Entry", .list (maps.map obsFileMap))] rest maps
    (fun m hm pos rest' hdm => by
      have hnn : ∀ b ∈ m.name, b ≠ 0 := by
        have := hmaps m hm
        simp only [FileMap.wf, Bool.and_eq_true, List.all_eq_true] at this
        intro b hb; simpa using this.2 b hb
      rw [parse_cstring_ok hnn hdm]; simp [Nat.add_assoc]) _ [] hd3
  rw [ntfile_con]
  unfold structParse
  rw [Con.parse, pf_named s1]
  have e1 : Fields.set ([] : Fields) "num_map_entries" (Val.int maps.length) = [("num_map_entries", .int maps.length)] := rfl
  rw [e1, pf_named s2]
  have e2 : Fields.set [("num_map_entries", Val.int maps.length)] "page_size" (Val.int ps)
      = [("num_map_entries", .int maps.length), ("page_size", .int ps)] := rfl
  rw [e2]
  have c3 : (ctx "num_map_entries").eval [("num_map_entries", Val.int maps.length), ("page_size", Val.int ps)] .none
      = .ok (.int (maps.length : Nat)) := rfl
  rw [pf_named ((parse_array c3).trans s3)]
  have e3 : Fields.set [("num_map_entries", Val.int maps.length), ("page_size", Val.int ps)] "Elf_Nt_File_Entry"
      (Val.list (([] : List Val).reverse ++ maps.map obsFileMap))
      = [("num_map_entries", .int maps.length), ("page_size", .int ps), ("Elf_Nt_File_Entry", .list (maps.map obsFileMap))] := rfl
  rw [e3]
  have c4 : (ctx "num_map_entries").eval [("num_map_entries", Val.int maps.length), ("page_size", Val.int ps),
      ("Elf_Nt_File_Entry", .list (maps.map obsFileMap))] .none = .ok (.int (maps.length : Nat)) := rfl
  rw [pf_named ((parse_array c4).trans s4), Con.parseFields]
  simp only [bind, Except.bind, pure, Except.pure, obsDesc, encDesc, List.length_append, encNat_length,
    List.reverse_nil, List.nil_append, wordSize]
  congr 2
  omega

/-! ### the program-property struct (a Switch on a computed key, padding computed from the context) -/

def propKeyE (cls : Nat) : Expr :=
  .ite (.not (.isStr (ctx "pr_type"))) .none
    (.ite (.startsWith (ctx "pr_type") "GNU_PROPERTY_X86_")
      (.tcons (.str "GNU_PROPERTY_X86_*") (.tcons (lit 4) (.tcons (lit 0) .tnil)))
      (.ite (.startsWith (ctx "pr_type") "GNU_PROPERTY_AARCH64_")
        (.tcons (.str "GNU_PROPERTY_AARCH64_*") (.tcons (lit 4) (.tcons (lit 0) .tnil)))
        (.ite (.startsWith (ctx "pr_type") "GNU_PROPERTY_RISCV_")
          (.tcons (.str "GNU_PROPERTY_RISCV_*") (.tcons (lit 4) (.tcons (lit 0) .tnil)))
          (.tcons (ctx "pr_type") (.tcons (ctx "pr_datasz") (.tcons (lit cls) .tnil))))))

def propPadE (cls : Nat) : Expr :=
  .sub (.add (.bor (.sub (ctx "pr_datasz") (lit 1)) (.sub (.shl (lit 1) (lit (if cls = 32 then 2 else 3))) (lit 1))) (lit 1))
    (ctx "pr_datasz")

def propDflt : Con := .bytesN (ctx "pr_datasz")

def propCases (le : Bool) : ConCases := mkCases [
  (.list [.str "GNU_PROPERTY_STACK_SIZE", .int 4, .int 32], Con.uint 4 le),
  (.list [.str "GNU_PROPERTY_STACK_SIZE", .int 8, .int 64], Con.uint 8 le),
  (.list [.str "GNU_PROPERTY_X86_*", .int 4, .int 0], Con.uint 4 le),
  (.list [.str "GNU_PROPERTY_AARCH64_*", .int 4, .int 0], Con.uint 4 le),
  (.list [.str "GNU_PROPERTY_RISCV_*", .int 4, .int 0], Con.uint 4 le)]

def propRest (le : Bool) (cls : Nat) : ConFields :=
  .cons (some "pr_data") false (.switch (propKeyE cls) (propCases le) propDflt)
    (.cons none false (.padding (propPadE cls) false) .nil)

theorem prop_con (c : ElfCfg) : (Spec.elfStructs c).Elf_Prop =
    .struct (.cons (some "pr_type") false (.enum (.uint 4 c.le) "ENUM_NOTE_GNU_PROPERTY_TYPE" true)
      (.cons (some "pr_datasz") false (.uint 4 c.le) (propRest c.le c.cls))) := rfl

theorem parseCase_eq (env : Env) (data : Bytes) (k : Val) : (cases : ConCases) → (ctx : Fields) → (pos : Nat) →
    Con.parseCase env data k cases ctx pos = (cases.find k).map (fun c => Con.parse env data c ctx pos)
  | .nil, ctx, pos => by simp [Con.parseCase, ConCases.find]
  | .cons k' c rest, ctx, pos => by
    rw [Con.parseCase, ConCases.find]
    split
    · simp
    · exact parseCase_eq env data k rest ctx pos

theorem parse_switch {env : Env} {data : Bytes} {key : Expr} {cases : ConCases} {dflt : Con} {ctx : Fields} {pos : Nat}
    {k : Val} (hk : key.eval ctx .none = .ok k) :
    Con.parse env data (.switch key cases dflt) ctx pos = Con.parse env data (lookupCase k cases dflt) ctx pos := by
  rw [Con.parse, hk]
  simp only [bind, Except.bind, parseCase_eq, lookupCase]
  cases ConCases.find k cases <;> rfl

def pctx (tv : Val) (len : Nat) : Fields := [("pr_type", tv), ("pr_datasz", .int len)]

theorem key_int (t : Int) (len cls : Nat) : (propKeyE cls).eval (pctx (.int t) len) .none = .ok .none := rfl
theorem key_stack (len cls : Nat) : (propKeyE cls).eval (pctx (.str "GNU_PROPERTY_STACK_SIZE") len) .none
    = .ok (.list [.str "GNU_PROPERTY_STACK_SIZE", .int len, .int cls]) := rfl
theorem key_nocopy (len cls : Nat) : (propKeyE cls).eval (pctx (.str "GNU_PROPERTY_NO_COPY_ON_PROTECTED") len) .none
    = .ok (.list [.str "GNU_PROPERTY_NO_COPY_ON_PROTECTED", .int len, .int cls]) := rfl
theorem key_x86_1 (len cls : Nat) : (propKeyE cls).eval (pctx (.str "GNU_PROPERTY_X86_FEATURE_1_AND") len) .none
    = .ok (.list [.str "GNU_PROPERTY_X86_*", .int 4, .int 0]) := rfl
theorem key_x86_2 (len cls : Nat) : (propKeyE cls).eval (pctx (.str "GNU_PROPERTY_X86_ISA_1_NEEDED") len) .none
    = .ok (.list [.str "GNU_PROPERTY_X86_*", .int 4, .int 0]) := rfl
theorem key_x86_3 (len cls : Nat) : (propKeyE cls).eval (pctx (.str "GNU_PROPERTY_X86_FEATURE_2_USED") len) .none
    = .ok (.list [.str "GNU_PROPERTY_X86_*", .int 4, .int 0]) := rfl
theorem key_x86_4 (len cls : Nat) : (propKeyE cls).eval (pctx (.str "GNU_PROPERTY_X86_ISA_1_USED") len) .none
    = .ok (.list [.str "GNU_PROPERTY_X86_*", .int 4, .int 0]) := rfl
theorem key_a64 (len cls : Nat) : (propKeyE cls).eval (pctx (.str "GNU_PROPERTY_AARCH64_FEATURE_1_AND") len) .none
    = .ok (.list [.str "GNU_PROPERTY_AARCH64_*", .int 4, .int 0]) := rfl

theorem find_x86 (le : Bool) : lookupCase (.list [.str "GNU_PROPERTY_X86_*", .int 4, .int 0]) (propCases le) propDflt
    = Con.uint 4 le := rfl
theorem find_a64 (le : Bool) : lookupCase (.list [.str "GNU_PROPERTY_AARCH64_*", .int 4, .int 0]) (propCases le) propDflt
    = Con.uint 4 le := rfl
theorem find_none (le : Bool) : lookupCase .none (propCases le) propDflt = propDflt := rfl
theorem find_nocopy (le : Bool) (len cls : Nat) :
    lookupCase (.list [.str "GNU_PROPERTY_NO_COPY_ON_PROTECTED", .int len, .int cls]) (propCases le) propDflt = propDflt := rfl

theorem key3_beq (s s' : String) (a b a' b' : Int) :
    (Val.list [.str s, .int a, .int b] == Val.list [.str s', .int a', .int b'])
      = (s == s' && (a == a' && (b == b' && true))) := rfl

theorem find_skip {k' k : Val} {c : Con} {rest : ConCases} (h : (k' == k) = false) :
    ConCases.find k (.cons k' c rest) = ConCases.find k rest := by
  rw [ConCases.find, h]; rfl

theorem find_stack_other (le : Bool) (len cls : Nat) (h : ¬ (len = 4 ∧ cls = 32)) (h' : ¬ (len = 8 ∧ cls = 64)) :
    lookupCase (.list [.str "GNU_PROPERTY_STACK_SIZE", .int len, .int cls]) (propCases le) propDflt = propDflt := by
  have e1 : ((4 : Int) == (len : Int) && ((32 : Int) == (cls : Int) && true)) = false := by
    simp only [Bool.and_true, Bool.and_eq_false_iff, beq_eq_false_iff_ne, ne_eq]
    by_cases hl : len = 4
    · right; omega
    · left; omega
  have e2 : ((8 : Int) == (len : Int) && ((64 : Int) == (cls : Int) && true)) = false := by
    simp only [Bool.and_true, Bool.and_eq_false_iff, beq_eq_false_iff_ne, ne_eq]
    by_cases hl : len = 8
    · right; omega
    · left; omega
  unfold lookupCase propCases mkCases
  rw [find_skip (by rw [key3_beq, e1, Bool.and_false])]
  unfold mkCases
  rw [find_skip (by rw [key3_beq, e2, Bool.and_false])]
  rfl

theorem find_stack_32 (le : Bool) (len : Nat) (h : len = 4) :
    lookupCase (.list [.str "GNU_PROPERTY_STACK_SIZE", .int len, .int (32 : Nat)]) (propCases le) propDflt
      = Con.uint 4 le := by subst h; rfl
theorem find_stack_64 (le : Bool) (len : Nat) (h : len = 8) :
    lookupCase (.list [.str "GNU_PROPERTY_STACK_SIZE", .int len, .int (64 : Nat)]) (propCases le) propDflt
      = Con.uint 8 le := by subst h; rfl

theorem prop_type_cases (t : Nat) :
    (t = 1 ∨ t = 2 ∨ t = 0xc0000002 ∨ t = 0xc0008002 ∨ t = 0xc0010001 ∨ t = 0xc0010002 ∨ t = 0xc0000000)
      ∨ (enumVal propTypes t = .int t ∧ t ≠ 1 ∧ featureWordTypes.contains t = false) := by
  by_cases h : t = 1 ∨ t = 2 ∨ t = 0xc0000002 ∨ t = 0xc0008002 ∨ t = 0xc0010001 ∨ t = 0xc0010002 ∨ t = 0xc0000000
  · exact Or.inl h
  · refine Or.inr ⟨enumVal_other _ _ ?_, by omega, ?_⟩
    · intro p hp
      simp only [propTypes, List.mem_cons, List.not_mem_nil, or_false] at hp
      rcases hp with rfl | rfl | rfl | rfl | rfl | rfl | rfl <;> simp only <;> omega
    · simp only [featureWordTypes, List.contains_cons, List.contains_nil, Bool.or_false, Bool.or_eq_false_iff,
        beq_eq_false_iff_ne, ne_eq]
      omega

theorem enumVal_prop_1 : enumVal propTypes 1 = .str "GNU_PROPERTY_STACK_SIZE" := rfl
theorem enumVal_prop_2 : enumVal propTypes 2 = .str "GNU_PROPERTY_NO_COPY_ON_PROTECTED" := rfl
theorem enumVal_prop_3 : enumVal propTypes 0xc0000002 = .str "GNU_PROPERTY_X86_FEATURE_1_AND" := rfl
theorem enumVal_prop_4 : enumVal propTypes 0xc0008002 = .str "GNU_PROPERTY_X86_ISA_1_NEEDED" := rfl
theorem enumVal_prop_5 : enumVal propTypes 0xc0010001 = .str "GNU_PROPERTY_X86_FEATURE_2_USED" := rfl
theorem enumVal_prop_6 : enumVal propTypes 0xc0010002 = .str "GNU_PROPERTY_X86_ISA_1_USED" := rfl
theorem enumVal_prop_7 : enumVal propTypes 0xc0000000 = .str "GNU_PROPERTY_AARCH64_FEATURE_1_AND" := rfl

theorem parse_dflt {env : Env} {data : Bytes} {pos : Nat} {tv : Val} {bs rest : Bytes}
    (hd : data.drop pos = bs ++ rest) :
    Con.parse env data propDflt (pctx tv bs.length) pos = .ok (.bytes bs, pos + bs.length, pctx tv bs.length) := by
  rw [propDflt, Con.parse]
  have : (ctx "pr_datasz").eval (pctx tv bs.length) .none = .ok (.int bs.length) := rfl
  simp only [this, Val.asNat, Val.asInt, bind, Except.bind, Int.toNat_natCast,
    show ¬ ((bs.length : Int) < 0) by omega, if_false]
  rw [readExact_ok hd rfl]
  rfl

/-- the `pr_data` field: a word for the feature properties and a native-size stack size, raw bytes otherwise -/
theorem prop_data_parse {env : Env} (le : Bool) (cls : Nat) (mc : String) (sol core : Bool) (hc : cls = 32 ∨ cls = 64)
    (p : GnuProp) (hp : p.wf = true) {data : Bytes} {pos : Nat} {rest : Bytes} (hd : data.drop pos = p.data ++ rest) :
    Con.parse env data (.switch (propKeyE cls) (propCases le) propDflt) (pctx (enumVal propTypes p.type) p.data.length) pos
      = .ok (propData ⟨le, cls, mc, sol, core⟩ p, pos + p.data.length, pctx (enumVal propTypes p.type) p.data.length) := by
  obtain ⟨t, d⟩ := p
  simp only [GnuProp.wf, Bool.and_eq_true, decide_eq_true_eq, Bool.or_eq_true, Bool.not_eq_true'] at hp
  obtain ⟨⟨-, -⟩, hfw⟩ := hp
  simp only at hd ⊢
  have word4 : ∀ (hl : d.length = 4), Con.parse env data (Con.uint 4 le) (pctx (enumVal propTypes t) d.length) pos
      = .ok (.int (decNat le d), pos + d.length, pctx (enumVal propTypes t) d.length) := by
    intro hl; rw [parse_uint_ok hd hl, hl]
  rcases prop_type_cases t with (rfl | rfl | rfl | rfl | rfl | rfl | rfl) | ⟨hv, h1, hnf⟩
  · -- stack size
    rw [enumVal_prop_1, parse_switch (key_stack _ _)]
    have hnf : featureWordTypes.contains 1 = false := by decide
    simp only [propData, hnf, Bool.false_eq_true, if_false, wordSize, true_and]
    by_cases hm : d.length = cls / 8
    · rw [if_pos hm]
      rcases hc with rfl | rfl
      · have hl : d.length = 4 := by omega
        rw [find_stack_32 le _ hl, parse_uint_ok hd hl, hl]
      · have hl : d.length = 8 := by omega
        rw [find_stack_64 le _ hl, parse_uint_ok hd hl, hl]
    · rw [if_neg hm, find_stack_other le _ _ (by omega) (by omega)]
      exact parse_dflt hd
  · rw [enumVal_prop_2, parse_switch (key_nocopy _ _), find_nocopy]
    have hnf : featureWordTypes.contains 2 = false := by decide
    simp only [propData, hnf, Bool.false_eq_true, if_false, show ¬ ((2 : Nat) = 1 ∧ d.length = wordSize ⟨le, cls, mc, sol, core⟩) by omega]
    exact parse_dflt hd
  · have hf : featureWordTypes.contains 0xc0000002 = true := by decide
    have hl : d.length = 4 := hfw.resolve_left (by rw [hf]; decide)
    rw [enumVal_prop_3, parse_switch (key_x86_1 _ _), find_x86]; simp only [propData, hf, if_true]
    rw [parse_uint_ok hd hl, hl]
  · have hf : featureWordTypes.contains 0xc0008002 = true := by decide
    have hl : d.length = 4 := hfw.resolve_left (by rw [hf]; decide)
    rw [enumVal_prop_4, parse_switch (key_x86_2 _ _), find_x86]; simp only [propData, hf, if_true]
    rw [parse_uint_ok hd hl, hl]
  · have hf : featureWordTypes.contains 0xc0010001 = true := by decide
    have hl : d.length = 4 := hfw.resolve_left (by rw [hf]; decide)
    rw [enumVal_prop_5, parse_switch (key_x86_3 _ _), find_x86]; simp only [propData, hf, if_true]
    rw [parse_uint_ok hd hl, hl]
  · have hf : featureWordTypes.contains 0xc0010002 = true := by decide
    have hl : d.length = 4 := hfw.resolve_left (by rw [hf]; decide)
    rw [enumVal_prop_6, parse_switch (key_x86_4 _ _), find_x86]; simp only [propData, hf, if_true]
    rw [parse_uint_ok hd hl, hl]
  · have hf : featureWordTypes.contains 0xc0000000 = true := by decide
    have hl : d.length = 4 := hfw.resolve_left (by rw [hf]; decide)
    rw [enumVal_prop_7, parse_switch (key_a64 _ _), find_a64]; simp only [propData, hf, if_true]
    rw [parse_uint_ok hd hl, hl]
  · rw [hv, parse_switch (key_int _ _ _), find_none]
    simp only [propData, hnf, Bool.false_eq_true, if_false, show ¬ (t = 1 ∧ d.length = wordSize ⟨le, cls, mc, sol, core⟩) by omega]
    rw [← hv]; exact parse_dflt hd

theorem gen_roundup_int (n k : Nat) : Gen.Pure.roundup (n : Int) (k : Int) = ((n + padTo (2 ^ k) n : Nat) : Int) := by
  have h := roundup_eq n k
  unfold Model.roundup at h
  have hnn : 0 ≤ Gen.Pure.roundup (n : Int) (k : Int) := by
    cases n with
    | zero => rw [gen_roundup_zero]; exact Int.le_refl 0
    | succ m => rw [gen_roundup_succ]; exact Int.natCast_nonneg _
  omega

theorem pad_eval (cls : Nat) (hc : cls = 32 ∨ cls = 64) (tv v : Val) (len : Nat) :
    (propPadE cls).eval [("pr_type", tv), ("pr_datasz", .int len), ("pr_data", v)] .none
      = .ok (.int (padTo (cls / 8) len : Nat)) := by
  rcases hc with rfl | rfl
  · have h : (propPadE 32).eval [("pr_type", tv), ("pr_datasz", .int len), ("pr_data", v)] .none
        = .ok (.int (Gen.Pure.roundup (len : Int) ((2 : Nat) : Int) - len)) := rfl
    rw [h, gen_roundup_int]
    have : (2 : Nat) ^ 2 = 32 / 8 := by decide
    rw [this]; congr 2; omega
  · have h : (propPadE 64).eval [("pr_type", tv), ("pr_datasz", .int len), ("pr_data", v)] .none
        = .ok (.int (Gen.Pure.roundup (len : Int) ((3 : Nat) : Int) - len)) := rfl
    rw [h, gen_roundup_int]
    have : (2 : Nat) ^ 3 = 64 / 8 := by decide
    rw [this]; congr 2; omega

theorem parse_pad {env : Env} {data : Bytes} {pos k : Nat} {e : Expr} {ctx : Fields} {rest : Bytes}
    (hd : data.drop pos = zeros k ++ rest) (he : e.eval ctx .none = .ok (.int (k : Nat))) :
    Con.parse env data (.padding e false) ctx pos = .ok (.bytes (zeros k), pos + k, ctx) := by
  rw [Con.parse, he]
  simp only [Val.asNat, Val.asInt, bind, Except.bind, Int.toNat_natCast, show ¬ ((k : Int) < 0) by omega, if_false]
  rw [readExact_ok hd (zeros_length k)]
  rfl

theorem encProp_length (c : ElfCfg) (p : GnuProp) :
    (encProp c p).length = 8 + p.data.length + padTo (wordSize c) p.data.length := by
  simp [encProp, encNat_length, zeros_length]; omega

/-- one `Elf_Prop` -/
theorem prop_parse {env : Env} (he : EnvOK env) (c : ElfCfg) (hc : c.cls = 32 ∨ c.cls = 64) (p : GnuProp)
    (hp : p.wf = true) {data : Bytes} {off : Nat} {rest : Bytes} (hd : data.drop off = encProp c p ++ rest) :
    structParse env (Spec.elfStructs c).Elf_Prop data off = .ok (obsProp c p, off + (encProp c p).length) := by
  obtain ⟨le, cls, mc, sol, core⟩ := c
  simp only at hc
  have hwf := hp
  simp only [GnuProp.wf, Bool.and_eq_true, decide_eq_true_eq] at hwf
  obtain ⟨⟨ht, hl⟩, -⟩ := hwf
  have hd0 : data.drop off = encNat le 4 p.type ++ (encNat le 4 p.data.length ++ (p.data
      ++ (zeros (padTo (cls / 8) p.data.length) ++ rest))) := by
    rw [hd]; simp [encProp, wordSize, List.append_assoc]
  have hd1 := drop_add_of_drop hd0
  rw [encNat_length] at hd1
  have hd2 := drop_add_of_drop hd1
  rw [encNat_length] at hd2
  have hd3 := drop_add_of_drop hd2
  have s1 := good_enum env (some "pr_type") le 4 p.type (by rw [pow4]; exact ht) _ _ he.propT data off [] _ hd0
  have s2 := good_uint env (some "pr_datasz") le 4 p.data.length (by rw [pow4]; exact hl) data (off + 4)
    [("pr_type", enumVal propTypes p.type)] _ hd1
  simp only [encNat_length] at s1 s2
  have s3 := prop_data_parse (env := env) le cls mc sol core hc p hp hd2
  have s4 := parse_pad (env := env) hd3
    (pad_eval cls hc (enumVal propTypes p.type) (propData ⟨le, cls, mc, sol, core⟩ p) p.data.length)
  rw [prop_con]
  unfold structParse
  rw [Con.parse, pf_named s1]
  have e1 : Fields.set ([] : Fields) "pr_type" (enumVal propTypes p.type) = [("pr_type", enumVal propTypes p.type)] := rfl
  rw [e1, pf_named s2]
  have e2 : Fields.set [("pr_type", enumVal propTypes p.type)] "pr_datasz" (Val.int p.data.length)
      = pctx (enumVal propTypes p.type) p.data.length := rfl
  rw [e2, propRest, pf_named s3]
  have e3 : Fields.set (pctx (enumVal propTypes p.type) p.data.length) "pr_data" (propData ⟨le, cls, mc, sol, core⟩ p)
      = [("pr_type", enumVal propTypes p.type), ("pr_datasz", .int p.data.length),
         ("pr_data", propData ⟨le, cls, mc, sol, core⟩ p)] := rfl
  rw [e3, pf_anon s4, Con.parseFields]
  simp only [bind, Except.bind, pure, Except.pure, obsProp, encProp_length, wordSize]
  congr 2
  omega

theorem encProps_cons (c : ElfCfg) (p : GnuProp) (ps : List GnuProp) :
    encDesc c (.props (p :: ps)) = encProp c p ++ encDesc c (.props ps) := by
  simp [encDesc]

theorem padTo_add_self (a n k : Nat) (ha : k % a = 0) : padTo a (n + k) = padTo a n := by
  unfold padTo
  have : (n + k) % a = n % a := by
    rw [Nat.add_mod, ha, Nat.add_zero, Nat.mod_mod]
  rw [this]

theorem gnuPropLoop_ok {env : Env} (he : EnvOK env) (c : ElfCfg) (hc : c.cls = 32 ∨ c.cls = 64) (data : Bytes)
    (noteEnd : Nat) : ∀ (ps : List GnuProp), (∀ p ∈ ps, p.wf = true) → ∀ (fuel off : Nat) (acc : List Val) (rest : Bytes),
      ps.length + 1 ≤ fuel → data.drop off = encDesc c (.props ps) ++ rest →
      noteEnd = off + (encDesc c (.props ps)).length →
      gnuPropLoop (Spec.elfStructs c) env c.cls data noteEnd fuel off acc = .ok (acc ++ ps.map (obsProp c)) := by
  intro ps
  induction ps with
  | nil =>
    intro _ fuel off acc rest hf _ hend
    cases fuel with
    | zero => simp at hf
    | succ fuel =>
      rw [gnuPropLoop, if_neg (by simp [encDesc] at hend; omega)]
      simp
  | cons p ps ih =>
    intro hwf fuel off acc rest hf hd hend
    cases fuel with
    | zero => simp at hf
    | succ fuel =>
      rw [encProps_cons] at hd hend
      rw [List.append_assoc] at hd
      have hlen := encProp_length c p
      have hd2 := drop_add_of_drop hd
      rw [gnuPropLoop, if_pos (by rw [hend, List.length_append]; omega), prop_parse he c hc p (hwf p (by simp)) hd]
      have hget : (obsProp c p).getNat "pr_datasz" = .ok p.data.length := by
        simp [obsProp, Val.getNat, Val.getField, Fields.getR, Fields.get?, Val.asNat, Val.asInt, bind, Except.bind]
      simp only [bind, Except.bind, hget]
      have hstep : off + Model.roundup (p.data.length + 8) (if c.cls = 32 then 2 else 3) = off + (encProp c p).length := by
        rw [hlen]
        rcases hc with h | h
        · rw [if_pos h, roundup_eq, wordSize, h]
          have : padTo (2 ^ 2) (p.data.length + 8) = padTo (32 / 8) p.data.length := padTo_add_self 4 _ 8 (by decide)
          omega
        · rw [if_neg (by omega), roundup_eq, wordSize, h]
          have : padTo (2 ^ 3) (p.data.length + 8) = padTo (64 / 8) p.data.length := padTo_add_self 8 _ 8 (by decide)
          omega
      rw [hstep, ih (fun q hq => hwf q (by simp [hq])) fuel _ _ rest (by simpa using hf) hd2
        (by rw [hend, List.length_append]; omega)]
      simp

theorem props_ok {env : Env} (he : EnvOK env) (c : ElfCfg) (hc : c.cls = 32 ∨ c.cls = 64) {ps : List GnuProp}
    (h : (Desc.props ps).wf c = true) {data : Bytes} {off : Nat} {rest : Bytes}
    (hd : data.drop off = encDesc c (.props ps) ++ rest) :
    gnuPropLoop (Spec.elfStructs c) env c.cls data (off + (encDesc c (.props ps)).length)
        ((encDesc c (.props ps)).length + 1) off [] = .ok (ps.map (obsProp c)) := by
  have hwf : ∀ p ∈ ps, p.wf = true := by
    simpa [Desc.wf, List.all_eq_true] using h
  have hge : ps.length ≤ (encDesc c (.props ps)).length := by
    clear h hd hwf
    induction ps with
    | nil => simp
    | cons p ps ih => rw [encProps_cons, List.length_append, encProp_length, List.length_cons]; omega
  rw [gnuPropLoop_ok he c hc data _ ps hwf _ _ [] rest (by omega) hd rfl]
  simp

theorem cfg_cls {c : ElfCfg} (hc : cfgWf c = true) : c.cls = 32 ∨ c.cls = 64 := by
  simpa [cfgWf] using hc

/-- the descriptor dispatch and the descriptor grammars -/
theorem decodeDesc_ok {env : Env} (he : EnvOK env) (c : ElfCfg) (hc : cfgWf c = true) (n : Note) (hn : n.wf c = true)
    {data : Bytes} {off : Nat} {rest : Bytes} (hd : data.drop off = encDesc c n.desc ++ rest) :
    decodeDesc (Spec.elfStructs c) env c.cls data (enumVal (typeTable c.core) n.type) (obsOwner n.owner)
        (encDesc c n.desc) (encDesc c n.desc).length off = .ok (obsDesc c n.desc) := by
  have hwf := hn
  simp only [Note.wf, Bool.and_eq_true, decide_eq_true_eq] at hwf
  obtain ⟨⟨-, hk⟩, hdw⟩ := hwf
  rw [decodeDesc_eq, modelKind_spec, ← hk]
  cases hdesc : n.desc with
  | raw d => simp only [Desc.kind, encDesc, obsDesc]
  | buildId d => simp only [Desc.kind, encDesc, obsDesc]
  | goldVersion d => simp only [Desc.kind, encDesc, obsDesc, latin1_eq]
  | abiTag os ma mi ti =>
    rw [hdesc] at hd hdw
    simp only [Desc.kind]
    rw [abi_ok he c hdw hd]; rfl
  | prpsinfo p =>
    rw [hdesc] at hd hdw
    simp only [Desc.kind]
    rw [prps_ok c (cfg_cls hc) hdw hd]; rfl
  | ntFile ps maps =>
    rw [hdesc] at hd hdw
    simp only [Desc.kind]
    rw [ntfile_ok c (cfg_cls hc) hdw hd]; rfl
  | props ps =>
    rw [hdesc] at hd hdw
    simp only [Desc.kind]
    rw [props_ok he c (cfg_cls hc) hdw hd]; rfl

theorem cstring_chunk (s : Bytes) (k : Nat) (hs : ∀ b ∈ s, b ≠ 0) :
    cstringParseBytes (s ++ [0] ++ zeros k) = .ok s := by
  unfold cstringParseBytes
  rw [parseCString_ok (data := s ++ [0] ++ zeros k) (pos := 0) (rest := zeros k) hs (by simp)]

theorem encNote_length (c : ElfCfg) (n : Note) :
    (encNote c n).length = 12 + ((nameField n.owner).length + pad4 (nameField n.owner).length)
      + ((encDesc c n.desc).length + pad4 (encDesc c n.desc).length) := by
  simp [encNote, encNat_length, zeros_length]; omega

theorem noteRest_ok {env : Env} (he : EnvOK env) (c : ElfCfg) (hc : cfgWf c = true) (n : Note) (hn : n.wf c = true)
    {data : Bytes} {off offD : Nat} {rest : Bytes}
    (hd : data.drop offD = encDesc c n.desc ++ zeros (pad4 (encDesc c n.desc).length) ++ rest)
    (hoff : offD = off + 12 + ((nameField n.owner).length + pad4 (nameField n.owner).length)) :
    noteRest (Spec.elfStructs c) env c.cls data off
      (.record [("n_namesz", .int (nameField n.owner).length), ("n_descsz", .int (encDesc c n.desc).length),
                ("n_type", enumVal (typeTable c.core) n.type), ("n_offset", .int off), ("n_name", obsOwner n.owner)])
      offD offD = .ok (obsNote c off n, off + (encNote c n).length) := by
  have hd' : data.drop offD = encDesc c n.desc ++ (zeros (pad4 (encDesc c n.desc).length) ++ rest) := by
    rw [hd, List.append_assoc]
  unfold noteRest
  simp only [bind, Except.bind, setItem, Fields.set, Val.getField, Val.getNat, Val.asNat, Val.asInt, Fields.getR, Fields.get?,
    String.reduceEq, if_false, if_true, reduceIte, reduceCtorEq, streamRead, Int.toNat_natCast,
    show ¬ (((encDesc c n.desc).length : Int) < 0) by omega]
  rw [readN_of_drop hd', decodeDesc_ok he c hc n hn hd']
  simp only [roundup2, pure, Except.pure, obsNote, encNote_length]
  have e1 : ((offD + ((encDesc c n.desc).length + pad4 (encDesc c n.desc).length) : Nat) : Int) - (off : Int)
      = ((12 + ((nameField n.owner).length + pad4 (nameField n.owner).length)
          + ((encDesc c n.desc).length + pad4 (encDesc c n.desc).length) : Nat) : Int) := by omega
  have e2 : offD + ((encDesc c n.desc).length + pad4 (encDesc c n.desc).length)
      = off + (12 + ((nameField n.owner).length + pad4 (nameField n.owner).length)
          + ((encDesc c n.desc).length + pad4 (encDesc c n.desc).length)) := by omega
  rw [e1, e2]

/-- one iteration of the `iter_notes` loop on an encoded note -/
theorem noteAt_ok {env : Env} (he : EnvOK env) (c : ElfCfg) (hc : cfgWf c = true) (n : Note) (hn : n.wf c = true)
    {data : Bytes} {off : Nat} {rest : Bytes} (hd : data.drop off = encNote c n ++ rest) :
    noteAt (Spec.elfStructs c) env c.cls data 12 off = .ok (obsNote c off n, off + (encNote c n).length) := by
  have hwf := hn
  simp only [Note.wf, Bool.and_eq_true, decide_eq_true_eq] at hwf
  obtain ⟨⟨⟨⟨⟨how, hnl⟩, htl⟩, hdl⟩, -⟩, -⟩ := hwf
  have hd0 : data.drop off = encAll (nhdrSpec c (nameField n.owner).length (encDesc c n.desc).length n.type)
      ++ ((nameField n.owner ++ zeros (pad4 (nameField n.owner).length))
        ++ ((encDesc c n.desc ++ zeros (pad4 (encDesc c n.desc).length)) ++ rest)) := by
    rw [hd]; simp [encNote, encAll, nhdrSpec, List.append_assoc]
  have hlen12 : (encAll (nhdrSpec c (nameField n.owner).length (encDesc c n.desc).length n.type)).length = 12 := by
    simp [encAll, nhdrSpec, encNat_length]
  have hd1 := drop_add_of_drop hd0
  rw [hlen12] at hd1
  have hd2 := drop_add_of_drop hd1
  simp only [List.length_append, zeros_length] at hd2
  have hhdr := structParse_flat (nhdr_good he c hnl hdl htl) hd0
  rw [hlen12] at hhdr
  unfold noteAt
  rw [nhdr_con c (nameField n.owner).length (encDesc c n.desc).length n.type, hhdr]
  simp only [bind, Except.bind, setAll, nhdrSpec, setItem, Fields.set, Val.getField, Fields.getR, Fields.get?,
    String.reduceEq, if_false, if_true, reduceIte, reduceCtorEq]
  cases ho : n.owner with
  | none =>
    simp only [ho, nameField, List.length_nil] at hd2 ⊢
    simp only [Val.truthy, Int.natCast_zero, ne_eq, not_true, decide_false, if_false, Bool.false_eq_true]
    have hp0 : pad4 0 = 0 := by decide
    rw [hp0] at hd2
    have := noteRest_ok he c hc n hn (off := off) hd2 (by simp [ho, nameField, hp0])
    simpa [ho, nameField, obsOwner] using this
  | some s =>
    have hs : ∀ b ∈ s, b ≠ 0 := by
      intro b hb
      have := how
      simp only [ho, ownerWf, List.all_eq_true] at this
      simpa using this b hb
    simp only [ho, nameField] at hd1 hd2 ⊢
    have htr : (Val.int ((s ++ [0]).length : Nat)).truthy = true := by
      simp only [Val.truthy, List.length_append, List.length_singleton]
      exact decide_eq_true (by omega)
    simp only [htr, if_true, Val.asNat, Val.asInt, bind, Except.bind, Int.toNat_natCast,
      show ¬ (((s ++ [0]).length : Int) < 0) by omega, if_false, roundup2, streamRead]
    have hchunk : readN data (off + 12) ((s ++ [0]).length + pad4 (s ++ [0]).length)
        = s ++ [0] ++ zeros (pad4 (s ++ [0]).length) := by
      have := readN_of_drop hd1
      rw [List.length_append (as := s ++ [0]), zeros_length] at this
      exact this
    rw [hchunk, cstring_chunk s _ hs]
    simp only [List.length_append, zeros_length]
    have := noteRest_ok he c hc n hn (off := off) hd2 (by simp [ho, nameField])
    simp only [ho, nameField, obsOwner, latin1_eq] at this
    simpa [Nat.add_assoc] using this

theorem encodeNotes_cons (c : ElfCfg) (n : Note) (ns : List Note) :
    encodeNotes c (n :: ns) = encNote c n ++ encodeNotes c ns := by
  simp [encodeNotes]

theorem encodeNotes_length_ge (c : ElfCfg) (ns : List Note) : 12 * ns.length ≤ (encodeNotes c ns).length := by
  induction ns with
  | nil => simp [encodeNotes]
  | cons n ns ih =>
    rw [encodeNotes_cons, List.length_append, encNote_length, List.length_cons]
    omega

/-- the `while offset + nhdr_size <= end` loop over encoded notes followed by fewer than 12 bytes -/
theorem iterNotesLoop_ok {env : Env} (he : EnvOK env) (c : ElfCfg) (hc : cfgWf c = true) (data : Bytes) (end_ : Nat) :
    ∀ (ns : List Note), (∀ n ∈ ns, n.wf c = true) → ∀ (fuel off : Nat) (acc : List Val) (rest : Bytes) (k : Nat),
      ns.length + 1 ≤ fuel → data.drop off = encodeNotes c ns ++ rest →
      end_ = off + (encodeNotes c ns).length + k → k < 12 →
      iterNotesLoop (Spec.elfStructs c) env c.cls data 12 end_ fuel off acc = .ok (acc ++ obsNotes c off ns) := by
  intro ns
  induction ns with
  | nil =>
    intro _ fuel off acc rest k hf _ hend hk
    cases fuel with
    | zero => simp at hf
    | succ fuel =>
      simp only [encodeNotes, List.flatMap_nil, List.length_nil, Nat.add_zero] at hend
      rw [iterNotesLoop, if_neg (by omega)]
      simp [obsNotes]
  | cons n ns ih =>
    intro hwf fuel off acc rest k hf hd hend hk
    cases fuel with
    | zero => simp at hf
    | succ fuel =>
      rw [encodeNotes_cons] at hd hend
      rw [List.append_assoc] at hd
      have hlen := encNote_length c n
      rw [iterNotesLoop, if_pos (by rw [hend, List.length_append]; omega),
        noteAt_ok he c hc n (hwf n (by simp)) hd]
      simp only
      rw [ih (fun m hm => hwf m (by simp [hm])) fuel _ _ rest k (by simpa using hf) (drop_add_of_drop hd)
        (by rw [hend, List.length_append]; omega) hk]
      simp [obsNotes]

/-- `iter_notes(elffile, offset, size)` on an extent that consists of encoded notes and fewer than 12
    trailing bytes, anywhere in a file -/
theorem iterNotes_ok {env : Env} (he : EnvOK env) (c : ElfCfg) (hc : cfgWf c = true) (ns : List Note)
    (hwf : ∀ n ∈ ns, n.wf c = true) (pre tail post : Bytes) (htail : tail.length < 12) :
    iterNotes (Spec.elfStructs c) env c.cls (pre ++ (encodeNotes c ns ++ tail) ++ post) pre.length
        ((encodeNotes c ns).length + tail.length) = .ok (obsNotes c pre.length ns) := by
  unfold iterNotes
  rw [sizeof_nhdr]
  simp only [bind, Except.bind]
  have hd : (pre ++ (encodeNotes c ns ++ tail) ++ post).drop pre.length = encodeNotes c ns ++ (tail ++ post) := by
    simp [List.append_assoc]
  have hge := encodeNotes_length_ge c ns
  rw [iterNotesLoop_ok he c hc _ _ ns hwf _ _ [] (tail ++ post) tail.length (by omega) hd (by omega) htail]
  simp

/-! ### stabs -/

def stabSpec (le : Bool) (s : Stab) : List FSpec :=
  [⟨some "n_strx", .uint 4 le, encNat le 4 s.strx, .int s.strx⟩,
   ⟨some "n_type", .uint 1 le, encNat le 1 s.type, .int s.type⟩,
   ⟨some "n_other", .uint 1 le, encNat le 1 s.other, .int s.other⟩,
   ⟨some "n_desc", .uint 2 le, encNat le 2 s.desc, .int s.desc⟩,
   ⟨some "n_value", .uint 4 le, encNat le 4 s.value, .int s.value⟩]

theorem stabs_con (c : ElfCfg) (s : Stab) :
    (Spec.elfStructs c).Elf_Stabs = .struct (toConFields (stabSpec c.le s)) := rfl

theorem sizeof_stabs (c : ElfCfg) : sizeofCon (Spec.elfStructs c).Elf_Stabs = .ok 12 := rfl

theorem encStab_length (le : Bool) (s : Stab) : (encStab le s).length = 12 := by
  simp [encStab, encNat_length]

theorem stab_ok {env : Env} (c : ElfCfg) {s : Stab} (h : s.wf = true) {data : Bytes} {off : Nat} {rest : Bytes}
    (hd : data.drop off = encStab c.le s ++ rest) :
    structParse env (Spec.elfStructs c).Elf_Stabs data off
      = .ok (.record [("n_strx", .int s.strx), ("n_type", .int s.type), ("n_other", .int s.other),
                      ("n_desc", .int s.desc), ("n_value", .int s.value)], off + 12) := by
  simp only [Stab.wf, Bool.and_eq_true, decide_eq_true_eq] at h
  obtain ⟨⟨⟨⟨h1, h2⟩, h3⟩, h4⟩, h5⟩ := h
  have hg : ∀ x ∈ stabSpec c.le s, GoodField env x := by
    intro x hx
    simp only [stabSpec, List.mem_cons, List.not_mem_nil, or_false] at hx
    rcases hx with rfl | rfl | rfl | rfl | rfl
    · exact good_uint env _ _ _ _ (by rw [pow4]; exact h1)
    · exact good_uint env _ _ _ _ (by rw [pow1]; exact h2)
    · exact good_uint env _ _ _ _ (by rw [pow1]; exact h3)
    · exact good_uint env _ _ _ _ (by rw [pow2]; exact h4)
    · exact good_uint env _ _ _ _ (by rw [pow4]; exact h5)
  have hd' : data.drop off = encAll (stabSpec c.le s) ++ rest := by
    rw [hd]; simp [encStab, encAll, stabSpec, List.append_assoc]
  rw [stabs_con c s, structParse_flat hg hd']
  simp [encAll, stabSpec, setAll, Fields.set, encNat_length]

theorem encodeStabs_cons (le : Bool) (s : Stab) (ss : List Stab) :
    encodeStabs le (s :: ss) = encStab le s ++ encodeStabs le ss := by
  simp [encodeStabs]

theorem encodeStabs_length (le : Bool) (ss : List Stab) : (encodeStabs le ss).length = 12 * ss.length := by
  induction ss with
  | nil => simp [encodeStabs]
  | cons s ss ih => rw [encodeStabs_cons, List.length_append, encStab_length, ih, List.length_cons]; omega

theorem iterStabsLoop_ok {env : Env} (c : ElfCfg) (data : Bytes) (end_ : Nat) :
    ∀ (ss : List Stab), (∀ s ∈ ss, s.wf = true) → ∀ (fuel off : Nat) (acc : List Val) (rest : Bytes),
      ss.length + 1 ≤ fuel → data.drop off = encodeStabs c.le ss ++ rest → end_ = off + 12 * ss.length →
      iterStabsLoop (Spec.elfStructs c) env data end_ fuel off acc = .ok (acc ++ obsStabs off ss) := by
  intro ss
  induction ss with
  | nil =>
    intro _ fuel off acc rest hf _ hend
    cases fuel with
    | zero => simp at hf
    | succ fuel =>
      rw [iterStabsLoop, if_neg (by simp at hend; omega)]
      simp [obsStabs]
  | cons s ss ih =>
    intro hwf fuel off acc rest hf hd hend
    cases fuel with
    | zero => simp at hf
    | succ fuel =>
      rw [encodeStabs_cons, List.append_assoc] at hd
      have hd2 := drop_add_of_drop hd
      rw [encStab_length] at hd2
      rw [iterStabsLoop, if_pos (by rw [hend, List.length_cons]; omega), stab_ok c (hwf s (by simp)) hd, sizeof_stabs]
      simp only [bind, Except.bind, setItem, Fields.set, String.reduceEq, if_false]
      rw [ih (fun m hm => hwf m (by simp [hm])) fuel _ _ rest (by simpa using hf) hd2
        (by rw [hend, List.length_cons]; omega)]
      simp [obsStabs, obsStab]

theorem iterStabs_ok {env : Env} (c : ElfCfg) (ss : List Stab) (hwf : ∀ s ∈ ss, s.wf = true) (pre post : Bytes)
    (shdr : Val) (ho : shdr.getNat "sh_offset" = .ok pre.length)
    (hs : shdr.getNat "sh_size" = .ok (encodeStabs c.le ss).length) :
    iterStabs (Spec.elfStructs c) env (pre ++ encodeStabs c.le ss ++ post) shdr = .ok (obsStabs pre.length ss) := by
  unfold iterStabs
  rw [ho, hs]
  simp only [bind, Except.bind]
  have hl := encodeStabs_length c.le ss
  rw [iterStabsLoop_ok c _ _ ss hwf _ _ [] post (by omega) (drop_pre pre _ post) (by omega)]
  simp

/-! ### the walk depends on the bundle only through the five note structs (and the stab struct) -/

section congr
variable {S S' : ElfStructs} (h1 : S.Elf_Nhdr = S'.Elf_Nhdr) (h2 : S.Elf_abi = S'.Elf_abi)
  (h3 : S.Elf_Prop = S'.Elf_Prop) (h4 : S.Elf_Prpsinfo = S'.Elf_Prpsinfo) (h5 : S.Elf_Nt_File = S'.Elf_Nt_File)
include h3 in
theorem gnuPropLoop_congr (env : Env) (cls : Nat) (data : Bytes) (e : Nat) : ∀ (fuel off : Nat) (props : List Val),
    gnuPropLoop S env cls data e fuel off props = gnuPropLoop S' env cls data e fuel off props := by
  intro fuel
  induction fuel with
  | zero => intros; rfl
  | succ f ih => intro off props; simp only [gnuPropLoop, h3, ih]

include h2 h3 h4 h5 in
theorem decodeDesc_congr (env : Env) (cls : Nat) (data : Bytes) (ty nm : Val) (dd : Bytes) (dsz off : Nat) :
    decodeDesc S env cls data ty nm dd dsz off = decodeDesc S' env cls data ty nm dd dsz off := by
  simp only [decodeDesc, h2, h4, h5, gnuPropLoop_congr h3]

include h2 h3 h4 h5 in
theorem noteRest_congr (env : Env) (cls : Nat) (data : Bytes) (nOff : Nat) (note : Val) (off sp : Nat) :
    noteRest S env cls data nOff note off sp = noteRest S' env cls data nOff note off sp := by
  simp only [noteRest, decodeDesc_congr h2 h3 h4 h5]

include h1 h2 h3 h4 h5 in
theorem noteAt_congr (env : Env) (cls : Nat) (data : Bytes) (hs off : Nat) :
    noteAt S env cls data hs off = noteAt S' env cls data hs off := by
  simp only [noteAt, h1, noteRest_congr h2 h3 h4 h5]

include h1 h2 h3 h4 h5 in
theorem iterNotesLoop_congr (env : Env) (cls : Nat) (data : Bytes) (hs e : Nat) : ∀ (fuel off : Nat) (acc : List Val),
    iterNotesLoop S env cls data hs e fuel off acc = iterNotesLoop S' env cls data hs e fuel off acc := by
  intro fuel
  induction fuel with
  | zero => intros; rfl
  | succ f ih => intro off acc; simp only [iterNotesLoop, noteAt_congr h1 h2 h3 h4 h5, ih]

include h1 h2 h3 h4 h5 in
theorem iterNotes_congr (env : Env) (cls : Nat) (data : Bytes) (off size : Nat) :
    iterNotes S env cls data off size = iterNotes S' env cls data off size := by
  simp only [iterNotes, h1, iterNotesLoop_congr h1 h2 h3 h4 h5]
end congr

theorem iterStabsLoop_congr {S S' : ElfStructs} (h : S.Elf_Stabs = S'.Elf_Stabs) (env : Env) (data : Bytes) (e : Nat) :
    ∀ (fuel off : Nat) (acc : List Val),
      iterStabsLoop S env data e fuel off acc = iterStabsLoop S' env data e fuel off acc := by
  intro fuel
  induction fuel with
  | zero => intros; rfl
  | succ f ih => intro off acc; simp only [iterStabsLoop, h, ih]

theorem iterStabs_congr {S S' : ElfStructs} (h : S.Elf_Stabs = S'.Elf_Stabs) (env : Env) (data : Bytes) (shdr : Val) :
    iterStabs S env data shdr = iterStabs S' env data shdr := by
  simp only [iterStabs, iterStabsLoop_congr h]

end PyElf.Proofs.Notes
